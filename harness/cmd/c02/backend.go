package main

// Round 5: profiles as the backend sends them.
//
// A profile's intent (switches, custom rules, pause schedule, blocking mode,
// TTL) is written down as the protobuf message of the backend protocol and
// converted by the unchanged code of backendpb (DNSProfile.toInternal, through
// the hook VerifC02ProfileToInternal).  What comes out is what the filter
// storage, the request-info middleware and the main middleware work with; the
// oracle and the model keep working from the intent, the model through its own
// reading of the message (driver op pbprof).

import (
	"context"
	"fmt"
	"math/rand/v2"
	"net/netip"
	"reflect"
	"strconv"
	"strings"
	"time"

	"github.com/AdguardTeam/AdGuardDNS/internal/agd"
	"github.com/AdguardTeam/AdGuardDNS/internal/backendpb"
	"github.com/AdguardTeam/AdGuardDNS/internal/filter"
	"github.com/AdguardTeam/AdGuardDNS/verifh/hlib"
	"github.com/AdguardTeam/golibs/logutil/slogutil"
	"google.golang.org/protobuf/types/known/durationpb"
)

// ianaNames are the names under which the backend can name the zones of the
// pool; fixed-offset zones with invented names cannot be sent.
var ianaNames = map[string]string{
	"utc": "UTC", "berlin": "Europe/Berlin", "newyork": "America/New_York",
	"lordhowe": "Australia/Lord_Howe", "kolkata": "Asia/Kolkata",
}

func addrBytes(s string) []byte {
	b, _ := netip.MustParseAddr(s).MarshalBinary()
	return b
}

// pbProfile writes the intent down as a backend message and as the model's
// pbprof line.  ok is false if the protocol cannot express the intent (several
// addresses per family, no blocking mode, rules present but switched off, a
// zone without a name, a profile ID that is too long).
func pbProfile(rng *rand.Rand, c cfgT, profID string, m modeT, profOn bool, custName string) (x *backendpb.DNSProfile, line string, ok bool) {
	if len(profID) > agd.MaxProfileIDLen || m.kind == "none" || len(m.v4) > 1 || len(m.v6) > 1 {
		return nil, "", false
	}
	if len(c.custom) > 0 && !c.hasCust {
		return nil, "", false
	}
	x = &backendpb.DNSProfile{DnsId: profID, FilteringEnabled: profOn, QueryLogEnabled: true,
		BlockPrivateRelay: rng.IntN(2) == 0, BlockFirefoxCanary: rng.IntN(2) == 0, BlockChromePrefetch: rng.IntN(2) == 0}
	tok := []string{"pbprof", b01(profOn)}
	cust := "-"
	for _, r := range c.custom {
		x.CustomRules = append(x.CustomRules, r.text())
		cust = custName
	}
	tok = append(tok, cust)

	// Parental settings; an all-off intent may be sent as no message at all.
	schedTok := "-"
	var sched *backendpb.ScheduleSettings
	if sc := c.pause; sc != nil {
		name, named := ianaNames[sc.zone.name]
		if !named {
			return nil, "", false
		}
		sched = &backendpb.ScheduleSettings{Tmz: name, WeeklyRange: &backendpb.WeeklyRange{}}
		parts := []string{sc.zone.name}
		days := []**backendpb.DayRange{&sched.WeeklyRange.Sun, &sched.WeeklyRange.Mon, &sched.WeeklyRange.Tue,
			&sched.WeeklyRange.Wed, &sched.WeeklyRange.Thu, &sched.WeeklyRange.Fri, &sched.WeeklyRange.Sat}
		for d, iv := range sc.week {
			if iv == nil {
				continue
			}
			// The message names the first and the LAST minute of the pause;
			// seconds inside the minute must not matter.
			st := time.Duration(iv[0])*time.Minute + time.Duration(rng.IntN(60))*time.Second
			en := time.Duration(iv[1]-1)*time.Minute + time.Duration(rng.IntN(60))*time.Second
			if iv[1] == 0 {
				st, en = 0, -time.Minute
			}
			*days[d] = &backendpb.DayRange{Start: durationpb.New(st), End: durationpb.New(en)}
			parts = append(parts, fmt.Sprintf("%d:%d~%d", d, st.Nanoseconds(), en.Nanoseconds()))
		}
		schedTok = strings.Join(parts, ";")
	}
	parNil := !c.parentalOn && !c.ad && !c.gss && !c.yss && len(c.svcs) == 0 && sched == nil && rng.IntN(2) == 0
	if !parNil {
		x.Parental = &backendpb.ParentalSettings{Enabled: c.parentalOn, BlockAdult: c.ad, GeneralSafeSearch: c.gss,
			YoutubeSafeSearch: c.yss, Schedule: sched}
		for _, s := range c.svcs {
			x.Parental.BlockedServices = append(x.Parental.BlockedServices, "svc_"+strconv.Itoa(s))
		}
	}
	tok = append(tok, b01(parNil), b01(c.parentalOn), b01(c.ad), b01(c.gss), b01(c.yss), idxCSV("s", c.svcs), schedTok)

	rlNil := !c.rlOn && len(c.lists) == 0 && rng.IntN(2) == 0
	if !rlNil {
		x.RuleLists = &backendpb.RuleListsSettings{Enabled: c.rlOn}
		for _, l := range c.lists {
			x.RuleLists.Ids = append(x.RuleLists.Ids, "list_"+strconv.Itoa(l))
		}
	}
	tok = append(tok, b01(rlNil), b01(c.rlOn), idxCSV("l", c.lists))

	sbNil := !c.sbOn && !c.sb && !c.nr && rng.IntN(2) == 0
	if !sbNil {
		x.SafeBrowsing = &backendpb.SafeBrowsingSettings{Enabled: c.sbOn, BlockDangerousDomains: c.sb, BlockNrd: c.nr}
	}
	tok = append(tok, b01(sbNil), b01(c.sbOn), b01(c.sb), b01(c.nr))

	kind := m.kind
	switch m.kind {
	case "null":
		if rng.IntN(2) == 0 {
			kind = "unset"
		} else {
			x.BlockingMode = &backendpb.DNSProfile_BlockingModeNullIp{BlockingModeNullIp: &backendpb.BlockingModeNullIP{}}
		}
	case "nx":
		x.BlockingMode = &backendpb.DNSProfile_BlockingModeNxdomain{BlockingModeNxdomain: &backendpb.BlockingModeNXDOMAIN{}}
	case "ref":
		x.BlockingMode = &backendpb.DNSProfile_BlockingModeRefused{BlockingModeRefused: &backendpb.BlockingModeREFUSED{}}
	default:
		cip := &backendpb.BlockingModeCustomIP{}
		if len(m.v4) == 1 {
			cip.Ipv4 = addrBytes(m.v4[0])
		}
		if len(m.v6) == 1 {
			cip.Ipv6 = addrBytes(m.v6[0])
		}
		x.BlockingMode = &backendpb.DNSProfile_BlockingModeCustomIp{BlockingModeCustomIp: cip}
	}
	tok = append(tok, kind, orDash(m.v4), orDash(m.v6))

	ttlNil := m.ttl == 0 && rng.IntN(2) == 0
	if !ttlNil {
		x.FilteredResponseTtl = durationpb.New(m.dur())
	}
	tok = append(tok, b01(ttlNil), strconv.Itoa(m.ttl))

	return x, strings.Join(tok, " "), true
}

// convertPB runs the unchanged conversion of backendpb.
func convertPB(ctx context.Context, x *backendpb.DNSProfile, upd time.Time) (p *agd.Profile, collected []error, err error) {
	ec := &errColl{}
	p, _, err = backendpb.VerifC02ProfileToInternal(ctx, x, upd, ec, slogutil.NewDiscardLogger())
	return p, ec.errs, err
}

// oraclePB holds the converted profile against the intent, field by field: the
// protocol documents every setting of the message as the setting of the same
// name of the profile.
func oraclePB(r *hlib.Result, x *backendpb.DNSProfile, p *agd.Profile, want *filter.ConfigClient, m modeT, profOn bool, rp any) {
	got := p.FilterConfig
	bad := func(field string, g, w any) {
		r.Violate("backend-profile-"+field, fmt.Sprintf("a profile sent by the backend: %s is %v after the conversion, the message says %v", field, g, w), rp)
	}
	type pair struct {
		name string
		g, w any
	}
	gs, ws := got.Parental.PauseSchedule, want.Parental.PauseSchedule
	gotPar, wantPar := *got.Parental, *want.Parental
	gotPar.PauseSchedule, wantPar.PauseSchedule = nil, nil
	if len(gotPar.BlockedServices) == 0 && len(wantPar.BlockedServices) == 0 {
		gotPar.BlockedServices, wantPar.BlockedServices = nil, nil
	}
	gotRL, wantRL := *got.RuleList, *want.RuleList
	if len(gotRL.IDs) == 0 && len(wantRL.IDs) == 0 {
		gotRL.IDs, wantRL.IDs = nil, nil
	}
	gotCust, wantCust := *got.Custom, *want.Custom
	if len(wantCust.Rules) == 0 {
		// Enabled without rules means nothing.
		wantCust.Enabled = false
	}
	for _, f := range []pair{
		{"parental", gotPar, wantPar}, {"rule-lists", gotRL, wantRL}, {"safe-browsing", *got.SafeBrowsing, *want.SafeBrowsing},
		{"custom", fmt.Sprint(gotCust), fmt.Sprint(wantCust)},
		{"blocking-mode", fmt.Sprintf("%T%v", p.BlockingMode, p.BlockingMode), fmt.Sprintf("%T%v", m.build(), m.build())},
		{"ttl", p.FilteredResponseTTL, m.dur()}, {"filtering-enabled", p.FilteringEnabled, profOn},
		{"block-private-relay", p.BlockPrivateRelay, x.BlockPrivateRelay}, {"block-firefox-canary", p.BlockFirefoxCanary, x.BlockFirefoxCanary},
		{"block-chrome-prefetch", p.BlockChromePrefetch, x.BlockChromePrefetch},
	} {
		if !reflect.DeepEqual(f.g, f.w) {
			bad(f.name, f.g, f.w)
		}
	}
	switch {
	case (gs == nil) != (ws == nil):
		bad("pause-schedule", gs, ws)
	case gs != nil:
		if gs.TimeZone.String() != ws.TimeZone.String() {
			bad("pause-zone", gs.TimeZone.String(), ws.TimeZone.String())
		}
		for d := range gs.Week {
			g, w := gs.Week[d], ws.Week[d]
			if (g == nil) != (w == nil) || (g != nil && *g != *w) {
				bad("pause-interval", fmt.Sprintf("day %d: %v", d, g), fmt.Sprintf("%v (first to last minute, inclusive)", w))
			}
		}
	}
}

// runBackendGrid sends day ranges at and beyond every boundary of the
// conversion (negative, sub-minute parts, the last minute of the day, a day and
// more, the 16-bit limit of the stored minutes) through the real conversion and
// the model, plus the messages with missing parts.
func runBackendGrid(r *hlib.Result, m *hlib.Model) {
	ctx := context.Background()
	min := time.Minute
	ds := []time.Duration{-2 * min, -61 * time.Second, -min, 0, 59 * time.Second, min, 90 * time.Second, 700 * min, 1438 * min, 1439 * min,
		1439*min + 59*time.Second, 1440 * min, 1441 * min, 65534 * min, 65535 * min, 65536 * min, (65536 + 600) * min}
	var lines []string
	type cse struct {
		st, en time.Duration
		real   string
	}
	var cases []cse
	for _, st := range ds {
		for _, en := range ds {
			x := &backendpb.DNSProfile{DnsId: "grid", Parental: &backendpb.ParentalSettings{Enabled: true, Schedule: &backendpb.ScheduleSettings{
				Tmz: "UTC", WeeklyRange: &backendpb.WeeklyRange{Sun: &backendpb.DayRange{Start: durationpb.New(st), End: durationpb.New(en)}}}}}
			p, _, err := convertPB(ctx, x, time.Unix(1700000000, 0))
			real := "rejected"
			if err == nil {
				iv := p.FilterConfig.Parental.PauseSchedule.Week[0]
				real = fmt.Sprintf("%d-%d", iv.Start, iv.End)
			}
			cases = append(cases, cse{st, en, real})
			lines = append(lines, fmt.Sprintf("pbiv %d %d", st.Nanoseconds(), en.Nanoseconds()))
		}
	}
	answers := m.Batch(lines)
	r.ModelOps += len(lines)
	for i, c := range cases {
		inDomain := func(d time.Duration) bool { return d >= -min && d < 65536*min }
		rp := map[string]any{"start": c.st.String(), "end": c.en.String(), "real": c.real, "model": answers[i]}
		r.Case(lines[i], c.real != "rejected")
		// The documented meaning: start and end are times of day, the end names
		// the last minute of the pause.
		timeOfDay := c.st >= 0 && c.st < 1440*min && c.en >= c.st.Truncate(min) && c.en < 1440*min
		if timeOfDay {
			want := fmt.Sprintf("%d-%d", int(c.st/min), int(c.en/min)+1)
			r.Count("backend-grid-time-of-day")
			if c.real != want {
				r.Violate("backend-schedule-interval", fmt.Sprintf("day range %v..%v: stored as %s, first to last minute inclusive is %s", c.st, c.en, c.real, want), rp)
			}
		} else if c.real != "rejected" {
			// Not a time of day, and yet stored.
			switch {
			case c.st >= 65536*min || c.en >= 65535*min:
				r.Count("backend-grid-beyond-16-bits-accepted-wrapped-" + c.real)
			default:
				r.Count("backend-grid-not-a-time-of-day-accepted")
			}
		} else {
			r.Count("backend-grid-rejected")
		}
		if inDomain(c.st) && inDomain(c.en) && c.en < 65535*min {
			if answers[i] != c.real {
				r.Disagree("backend-schedule-model", fmt.Sprintf("%s: real %q model %q", lines[i], c.real, answers[i]), rp)
			}
		}
	}
	// Messages with missing parts.
	for name, x := range map[string]*backendpb.DNSProfile{
		"everything-absent":      {DnsId: "grid"},
		"custom-ip-no-address":   {DnsId: "grid", BlockingMode: &backendpb.DNSProfile_BlockingModeCustomIp{BlockingModeCustomIp: &backendpb.BlockingModeCustomIP{}}},
		"custom-ip-five-bytes":   {DnsId: "grid", BlockingMode: &backendpb.DNSProfile_BlockingModeCustomIp{BlockingModeCustomIp: &backendpb.BlockingModeCustomIP{Ipv4: []byte{1, 2, 3, 4, 5}}}},
		"schedule-without-week":  {DnsId: "grid", Parental: &backendpb.ParentalSettings{Schedule: &backendpb.ScheduleSettings{Tmz: "UTC"}}},
		"schedule-unknown-zone":  {DnsId: "grid", Parental: &backendpb.ParentalSettings{Schedule: &backendpb.ScheduleSettings{Tmz: "Nowhere/Land", WeeklyRange: &backendpb.WeeklyRange{}}}},
		"schedule-no-days":       {DnsId: "grid", Parental: &backendpb.ParentalSettings{Schedule: &backendpb.ScheduleSettings{Tmz: "UTC", WeeklyRange: &backendpb.WeeklyRange{}}}},
		"rule-text-too-long":     {DnsId: "grid", CustomRules: []string{strings.Repeat("a", 5000), "||ok.test^"}},
		"list-id-empty":          {DnsId: "grid", RuleLists: &backendpb.RuleListsSettings{Enabled: true, Ids: []string{"", "list_1"}}},
	} {
		out := func() (s string) {
			defer func() {
				if v := recover(); v != nil {
					s = "panic"
				}
			}()
			p, collected, err := convertPB(ctx, x, time.Unix(1700000000, 0))
			if err != nil {
				return "rejected"
			}
			fc := p.FilterConfig
			return fmt.Sprintf("ok custom=%v/%d lists=%v mode=%T ttl=%v sched=%v dropped=%d", fc.Custom.Enabled, len(fc.Custom.Rules), fc.RuleList.IDs,
				p.BlockingMode, p.FilteredResponseTTL, fc.Parental.PauseSchedule != nil, len(collected))
		}()
		r.Count("backend-grid-" + name + "-" + strings.Fields(out)[0])
		r.Case("backend-grid "+name+" "+out, true)
		want := map[string]string{
			"everything-absent":     "ok custom=false/0 lists=[] mode=*dnsmsg.BlockingModeNullIP ttl=0s sched=false dropped=0",
			"custom-ip-no-address":  "rejected",
			"custom-ip-five-bytes":  "rejected",
			"schedule-unknown-zone": "rejected",
			"schedule-no-days":      "ok custom=false/0 lists=[] mode=*dnsmsg.BlockingModeNullIP ttl=0s sched=true dropped=0",
			"rule-text-too-long":    "ok custom=true/1 lists=[] mode=*dnsmsg.BlockingModeNullIP ttl=0s sched=false dropped=1",
			"list-id-empty":         "ok custom=false/0 lists=[list_1] mode=*dnsmsg.BlockingModeNullIP ttl=0s sched=false dropped=1",
		}
		if w, ok := want[name]; ok && out != w {
			r.Violate("backend-profile-missing-part", fmt.Sprintf("message %s: conversion gave %q, documented reading is %q", name, out, w), map[string]any{"message": x.String(), "real": out})
		}
	}
}
