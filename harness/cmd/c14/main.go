// Command c14 is the correspondence harness and property oracle for C14
// (profile database look-ups and the file cache).
package main

import (
	"bytes"
	"context"
	"errors"
	"fmt"
	"maps"
	"math"
	"math/rand/v2"
	"net/netip"
	"os"
	"os/exec"
	"path/filepath"
	"runtime"
	"runtime/debug"
	"slices"
	"sort"
	"strings"
	"syscall"
	"time"

	"github.com/AdguardTeam/AdGuardDNS/internal/access"
	"github.com/AdguardTeam/AdGuardDNS/internal/agd"
	"github.com/AdguardTeam/AdGuardDNS/internal/agdpasswd"
	"github.com/AdguardTeam/AdGuardDNS/internal/agdtime"
	"github.com/AdguardTeam/AdGuardDNS/internal/dnsmsg"
	"github.com/AdguardTeam/AdGuardDNS/internal/filter"
	"github.com/AdguardTeam/AdGuardDNS/internal/geoip"
	"github.com/AdguardTeam/AdGuardDNS/internal/profiledb"
	"github.com/AdguardTeam/AdGuardDNS/verifh/hlib"
	"github.com/AdguardTeam/golibs/logutil/slogutil"
	"github.com/c2h5oh/datasize"
)

const (
	envChild   = "VERIF_C14_STORE_CHILD"
	envReexec  = "VERIF_C14_REEXEC"
	nProf      = 3
	nDev       = 4
	nIP        = 3
	nHuman     = 2
	cacheVerOK = profiledb.VerifC14FileCacheVersion
)

func main() {
	if p := os.Getenv(envChild); p != "" {
		storeChild(p)

		return
	}

	// The clean-up goroutines of the database are ordered against the
	// harness by never yielding the only P: no asynchronous preemption, one P,
	// no garbage collection inside a case.
	if os.Getenv(envReexec) == "" {
		env := append(os.Environ(), envReexec+"=1", "GODEBUG=asyncpreemptoff=1")
		exe, err := os.Executable()
		hlib.Must(err)
		hlib.Must(syscall.Exec(exe, os.Args, env))
	}
	runtime.GOMAXPROCS(1)

	o := hlib.ParseFlags()
	r := hlib.NewResult("C14", o)
	r.Rule = "schedule campaign: a generated backend (3 profiles, 4 devices, 3 linked and 3 dedicated IPs over IPv4/IPv6/IPv4-mapped, 2 human ids) is " +
		"mutated (devices appear, vanish, move, change or swap keys; profiles deleted; everything deleted) and synchronised (full/partial) " +
		"into the real profiledb.Default, interleaved with look-ups and with flushes of the real clean-up goroutines " +
		"(GOMAXPROCS(1), goroutine count observed, so a clean-up is provably before or after the next sync); every " +
		"look-up and the sync point of every storage request is compared with the Lean model and, independently, with a reference computed from the latest records; " +
		"restart campaign: the same with a real cache file, databases re-opened on it and full synchronisations whose cache store fails (cache directory moved away: data served, file untouched); all sync times lie on a 250 ms grid, a request for a time off the grid is a violation; protocol campaign: the storage answers according to the " +
		"sync point it is asked for (changes since t, tombstones, everything for the zero time), fails on demand, the database chooses the sync kind itself after a restart, " +
		"and the reference is the backend's own state; pipeline campaign: the same backend behind an in-process gRPC server read by the real backendpb.ProfileStorage " +
		"(wire conversion with every setting group varied and checked against an independently written expectation, rejected devices, a rejected junk profile, sync_time trailer in ms, store failures) with uncontrolled clean-ups; its responses are compared with the Lean model of the converter (respOfWire, backendAuth/Rate/Access); round-trip campaign: " +
		"generated profiles/devices with every field varied through Store/Load; kill campaign: SIGKILL during Store and a reader concurrent with Store; a case is non-trivial when a stale " +
		"index entry was hit or a clean-up stayed pending across a sync (schedule), or a field is off-default (cache)"
	m := hlib.StartModel(o.Model, "C14")
	defer m.Close()

	dir, err := os.MkdirTemp(os.Getenv("XDG_RUNTIME_DIR"), "agdverif-c14-")
	hlib.Must(err)
	defer func() { _ = os.RemoveAll(dir) }()

	h := &harness{o: o, r: r, m: m, dir: dir}
	checkUniverse()
	h.witnessCases()
	h.scheduleCampaign()
	h.malformedCampaign()
	h.restartCampaign()
	h.protocolCampaign()
	h.pipelineCampaign()
	h.roundTripCampaign()
	h.scheduleConvCampaign()
	h.killCampaign()
	if o.Thorough() {
		h.exhaustiveCampaign()
	}
	// Last: the refresh workers the builder starts outlive their cases.
	h.wiringCampaign()

	r.Finish()
}

type harness struct {
	o   *hlib.Opts
	r   *hlib.Result
	m   *hlib.Model
	dir string
	seq int
	// lrng draws the address layouts.
	lrng *rand.Rand
}

// ---------------------------------------------------------------------------
// Records and their translation to the real types and to model lines.

type devRec struct {
	id     int
	linked int
	ded    []int
	human  int
	tag    int
	// bad: the backend holds settings for this device that this server must
	// reject (pipeline campaign only); such a device does not exist for it.
	bad bool
}

type profRec struct {
	id      int
	devs    []int
	auto    bool
	deleted bool
	tag     int
}

type resp struct {
	full  bool
	t     int // sync time of the response (logical; see timeOf)
	profs []profRec
	devs  []devRec
}

// Logical sync times: n > 0 is timeBase seconds + n ticks of 250 ms, 0 is the
// zero time.  Sub-second ticks make every conversion of a sync time on the way
// (gRPC trailer in milliseconds, cache file in seconds + nanoseconds, request
// timestamp) matter: rounding to whole seconds moves the synchronisation point
// over neighbouring backend changes.
var timeBase int64 = 1700000000

const tick = 250 * time.Millisecond

func timeOf(n int) time.Time {
	if n == 0 {
		return time.Time{}
	}

	return time.Unix(timeBase, 0).Add(time.Duration(n) * tick)
}

// timeNum is the inverse of timeOf; a time between two ticks is reported as
// the tick before it (the backend then answers with at least what it would
// answer for the exact time).
func timeNum(t time.Time) int {
	if t.IsZero() {
		return 0
	}
	d := t.Sub(time.Unix(timeBase, 0))
	n := int(d / tick)
	if d < 0 && d%tick != 0 {
		n--
	}

	return n
}

// onGrid reports whether t is a time the backend can have sent.
func onGrid(t time.Time) bool {
	return t.IsZero() || t.Sub(time.Unix(timeBase, 0))%tick == 0
}

func pidStr(n int) agd.ProfileID { return agd.ProfileID(fmt.Sprintf("p%d", n)) }
func didStr(n int) agd.DeviceID  { return agd.DeviceID(fmt.Sprintf("d%d", n)) }
func humStr(n int) agd.HumanIDLower {
	if n == 0 {
		return ""
	}

	return agd.HumanIDLower(fmt.Sprintf("h%d", n))
}

// ---------------------------------------------------------------------------
// Addresses.  A key of the linked / dedicated index is a netip.Addr VALUE: the
// address family, the IPv4-mapped form and the IPv6 zone are part of it.  The
// universe below contains, for every host number x, eight such values that
// differ only in one of these respects ("twins"), x = 0 being the unspecified
// address of every family.  Every case maps the small key pools 1..nIP of the
// generators and of the model onto a freshly drawn, injective choice from the
// universe (its layout), so that twins are live keys of the same database.

const (
	flV4         = iota // 192.0.2.x
	flMapped            // ::ffff:192.0.2.x
	flMappedZone        // ::ffff:192.0.2.x%eth0
	flV6Prefix          // c000:2xx:: — the IPv4 twin's bytes followed by zeros
	flV6                // fe80::x
	flV6Eth0            // fe80::x%eth0
	flV6Eth1            // fe80::x%eth1
	flV6LongZone        // fe80::x%<a long zone>
	nFlavour
	nHost = 4 // x ∈ 0..3
)

const longZone = "enp0s31f6.4094:alias-with-a-long-name"

// univAddr is the address of flavour f and host number x; pool 0 is the
// universe of linked addresses, pool 1 the one of dedicated addresses (other
// networks, the same unspecified addresses).
func univAddr(pool, f, x int) netip.Addr {
	v4 := [4]byte{192, 0, 2, byte(x)}
	v6 := [16]byte{0: 0xfe, 1: 0x80, 15: byte(x)}
	if pool == 1 {
		v4 = [4]byte{198, 51, 100, byte(x)}
		v6[13] = 1
	}
	if x == 0 && f != flV6Prefix {
		v4, v6 = [4]byte{}, [16]byte{}
	}
	mapped := [16]byte{10: 0xff, 11: 0xff, 12: v4[0], 13: v4[1], 14: v4[2], 15: v4[3]}
	switch f {
	case flV4:
		return netip.AddrFrom4(v4)
	case flMapped:
		return netip.AddrFrom16(mapped)
	case flMappedZone:
		return netip.AddrFrom16(mapped).WithZone("eth0")
	case flV6Prefix:
		return netip.AddrFrom16([16]byte{0: v4[0], 1: v4[1], 2: v4[2], 3: v4[3]})
	case flV6:
		return netip.AddrFrom16(v6)
	case flV6Eth0:
		return netip.AddrFrom16(v6).WithZone("eth0")
	case flV6Eth1:
		return netip.AddrFrom16(v6).WithZone("eth1")
	default:
		return netip.AddrFrom16(v6).WithZone(longZone)
	}
}

// bindAddr is the universe of dedicated addresses of the pipeline campaign:
// the converter accepts only addresses inside the bind set (which no zoned
// address is), so the twins there are IPv4 / IPv4-mapped only.
func bindAddr(f, x int) netip.Addr {
	switch f {
	case 0:
		return netip.AddrFrom4([4]byte{198, 51, 100, byte(x)})
	case 1:
		return netip.AddrFrom16([16]byte{10: 0xff, 11: 0xff, 12: 198, 13: 51, 14: 100, 15: byte(x)})
	default:
		return netip.AddrFrom16([16]byte{0x20, 0x01, 0x0d, 0xb8, 1, 15: byte(x)})
	}
}

// checkUniverse panics unless the universes are injective (twins are
// different keys).
func checkUniverse() {
	for pool := 0; pool < 3; pool++ {
		seen := map[netip.Addr]bool{}
		nf := nFlavour
		if pool == 2 {
			nf = 3
		}
		for f := 0; f < nf; f++ {
			for x := 0; x < nHost; x++ {
				a := bindAddr(f, x)
				if pool < 2 {
					a = univAddr(pool, f, x)
				}
				if seen[a] || !a.IsValid() {
					panic(fmt.Sprintf("address universe %d is not injective at flavour %d host %d: %s", pool, f, x, a))
				}
				seen[a] = true
			}
		}
	}
}

type addrLayout struct {
	linked, ded [nIP + 1]netip.Addr
}

// classicLayout is the layout of the earlier rounds: one address per family.
func classicLayout() (l addrLayout) {
	for n := 1; n <= nIP; n++ {
		switch n % 3 {
		case 1:
			l.linked[n] = netip.AddrFrom4([4]byte{192, 0, 2, byte(n)})
			l.ded[n] = netip.AddrFrom16([16]byte{0x20, 0x01, 0x0d, 0xb8, 1, 15: byte(n)})
		case 2:
			l.linked[n] = netip.AddrFrom16([16]byte{0x20, 0x01, 0x0d, 0xb8, 15: byte(n)})
			l.ded[n] = netip.AddrFrom4([4]byte{198, 51, 100, byte(n)})
		default:
			l.linked[n] = netip.AddrFrom16([16]byte{10: 0xff, 11: 0xff, 12: 192, 13: 0, 14: 2, 15: byte(n)})
			l.ded[n] = netip.AddrFrom16([16]byte{10: 0xff, 11: 0xff, 12: 198, 13: 51, 14: 100, 15: byte(n)})
		}
	}

	return l
}

// layout is the layout of the case that is running.
var layout = classicLayout()

// drawPool draws nIP different addresses out of nf flavours × hosts lo..hi of
// a universe; a later address is, more often than not, a twin of an earlier
// one (same host number, another flavour).
func drawPool(rng *rand.Rand, nf, lo, hi int, univ func(f, x int) netip.Addr) (out [nIP + 1]netip.Addr) {
	type fx struct{ f, x int }
	used := map[fx]bool{}
	var picked []fx
	for n := 1; n <= nIP; n++ {
		for {
			c := fx{f: rng.IntN(nf), x: lo + rng.IntN(hi-lo+1)}
			if len(picked) > 0 && rng.IntN(3) != 0 {
				c.x = picked[rng.IntN(len(picked))].x
			}
			if !used[c] {
				used[c] = true
				picked = append(picked, c)
				out[n] = univ(c.f, c.x)

				break
			}
		}
	}

	return out
}

// addrClasses names the input classes a pool of addresses contains.
func addrClasses(pool []netip.Addr) (out []string) {
	has := map[string]bool{}
	for i, a := range pool {
		if !a.IsValid() {
			continue
		}
		if a.Zone() != "" {
			has["zoned"] = true
		}
		if a.Is4In6() {
			has["ipv4-mapped"] = true
		}
		if a.WithZone("").Unmap().IsUnspecified() {
			has["unspecified"] = true
		}
		for _, b := range pool[:i] {
			switch {
			case !b.IsValid():
			case a.WithZone("") == b.WithZone(""):
				has["twins-differ-in-zone-only"] = true
			case a.WithZone("").Unmap() == b.WithZone("").Unmap():
				has["twins-ipv4-and-mapped"] = true
			}
		}
	}
	for k := range has {
		out = append(out, k)
	}
	sort.Strings(out)

	return out
}

// newLayout draws the layout of the next case.  bindSafe: the dedicated
// addresses have to lie inside the bind set of the pipeline campaign.
func (h *harness) newLayout(campaign string, bindSafe bool) {
	if h.lrng == nil {
		h.lrng = h.o.Rand("layout")
	}
	rng := h.lrng
	layout = classicLayout()
	if rng.IntN(4) == 0 {
		h.r.Count(campaign + ":layout:classic")

		return
	}
	layout.linked = drawPool(rng, nFlavour, 0, nHost-1, func(f, x int) netip.Addr { return univAddr(0, f, x) })
	switch {
	case bindSafe:
		layout.ded = drawPool(rng, 3, 1, nHost-1, bindAddr)
	case rng.IntN(4) == 0:
		// The same addresses are linked and dedicated addresses.
		layout.ded = layout.linked
		h.r.Count(campaign + ":layout:dedicated-equals-linked")
	default:
		layout.ded = drawPool(rng, nFlavour, 0, nHost-1, func(f, x int) netip.Addr { return univAddr(1, f, x) })
	}
	for _, c := range addrClasses(layout.linked[1:]) {
		h.r.Count(campaign + ":layout:linked-" + c)
	}
	for _, c := range addrClasses(layout.ded[1:]) {
		h.r.Count(campaign + ":layout:dedicated-" + c)
	}
}

// layoutText renders the layout for replays: key number -> address.
func layoutText() map[string][]string {
	out := map[string][]string{}
	for n := 1; n <= nIP; n++ {
		out["linked"] = append(out["linked"], fmt.Sprintf("%d=%s", n, layout.linked[n]))
		out["dedicated"] = append(out["dedicated"], fmt.Sprintf("%d=%s", n, layout.ded[n]))
	}

	return out
}

// addrText renders an address like the model driver's showAddr.
func addrText(a netip.Addr) string {
	dots := dotsOf
	switch {
	case !a.IsValid():
		return "zero"
	case a.Is4():
		return "v4 " + dots(a.AsSlice())
	default:
		return "v6 " + dots(a.AsSlice()) + " " + dots([]byte(a.Zone()))
	}
}

// addrLine is a model line (`addr`, `rtaddr`) about a byte string.
func addrLine(op string, b []byte) string {
	var sb strings.Builder
	sb.WriteString(op)
	for _, x := range b {
		fmt.Fprintf(&sb, " %d", x)
	}

	return sb.String()
}

// linkedAddr and dedAddr map the key pools onto the addresses of the running
// case; 0 is "no address".
func linkedAddr(n int) netip.Addr {
	if n <= 0 || n > nIP {
		return netip.Addr{}
	}

	return layout.linked[n]
}

func dedAddr(n int) netip.Addr {
	if n <= 0 || n > nIP {
		return netip.Addr{}
	}

	return layout.ded[n]
}

func (d devRec) real() *agd.Device {
	var ded []netip.Addr
	for _, ip := range d.ded {
		ded = append(ded, dedAddr(ip))
	}

	return &agd.Device{
		Auth:         &agd.AuthSettings{Enabled: false, PasswordHash: agdpasswd.AllowAuthenticator{}},
		ID:           didStr(d.id),
		LinkedIP:     linkedAddr(d.linked),
		Name:         agd.DeviceName(fmt.Sprintf("n%d", d.tag)),
		HumanIDLower: humStr(d.human),
		DedicatedIPs: ded,
	}
}

func (p profRec) real() *agd.Profile {
	var ids []agd.DeviceID
	for _, d := range p.devs {
		ids = append(ids, didStr(d))
	}

	return &agd.Profile{
		FilterConfig: &filter.ConfigClient{
			Custom:       &filter.ConfigCustom{},
			Parental:     &filter.ConfigParental{},
			RuleList:     &filter.ConfigRuleList{},
			SafeBrowsing: &filter.ConfigSafeBrowsing{},
		},
		Access:              access.EmptyProfile{},
		BlockingMode:        &dnsmsg.BlockingModeNullIP{},
		Ratelimiter:         agd.GlobalRatelimiter{},
		ID:                  pidStr(p.id),
		DeviceIDs:           ids,
		FilteredResponseTTL: time.Duration(p.tag),
		AutoDevicesEnabled:  p.auto,
		Deleted:             p.deleted,
	}
}

func b01(b bool) string {
	if b {
		return "1"
	}

	return "0"
}

// lineNS is the model line of a full synchronisation whose cache store failed.
func (rs resp) lineNS() string {
	return "syncns" + strings.TrimPrefix(rs.line(), "sync "+b01(rs.full))
}

// withoutCacheDir runs f while the directory of the cache file is moved away,
// so that Storage.Store (renameio: temporary file in the same directory) fails
// and the cache file itself keeps its content.
func withoutCacheDir(path string, f func()) {
	dir := filepath.Dir(path)
	hlib.Must(os.Rename(dir, dir+".off"))
	defer func() { hlib.Must(os.Rename(dir+".off", dir)) }()
	f()
}

func isStoreError(err error) bool {
	return err != nil && strings.Contains(err.Error(), "saving cache")
}

func (rs resp) line() string {
	var sb strings.Builder
	fmt.Fprintf(&sb, "sync %s %d %d %d", b01(rs.full), rs.t, len(rs.profs), len(rs.devs))
	for _, p := range rs.profs {
		fmt.Fprintf(&sb, " %d %s %s %d %d", p.id, b01(p.auto), b01(p.deleted), p.tag, len(p.devs))
		for _, d := range p.devs {
			fmt.Fprintf(&sb, " %d", d)
		}
	}
	for _, d := range rs.devs {
		fmt.Fprintf(&sb, " %d %d %d %d %d", d.id, d.linked, d.human, d.tag, len(d.ded))
		for _, ip := range d.ded {
			fmt.Fprintf(&sb, " %d", ip)
		}
	}

	return sb.String()
}

// ---------------------------------------------------------------------------
// The real database under a scripted storage.

// storage is the scripted backend.  It records the synchronisation point of
// every request.  If serve is set, the response is computed from the request
// (a backend that honours SyncTime); otherwise next is returned.
type storage struct {
	next    *profiledb.StorageProfilesResponse
	serve   func(since time.Time) *profiledb.StorageProfilesResponse
	fail    bool
	lastReq time.Time
	reqs    int
	// offGrid is set when a request carried a synchronisation point that no
	// response ever carried.
	offGrid bool
}

var errInjected = errors.New("injected storage failure")

func (s *storage) CreateAutoDevice(
	_ context.Context,
	_ *profiledb.StorageCreateAutoDeviceRequest,
) (*profiledb.StorageCreateAutoDeviceResponse, error) {
	return nil, errors.New("not used")
}

func (s *storage) Profiles(
	_ context.Context,
	req *profiledb.StorageProfilesRequest,
) (*profiledb.StorageProfilesResponse, error) {
	s.lastReq = req.SyncTime
	s.reqs++
	if !onGrid(req.SyncTime) {
		s.offGrid = true
	}
	if s.fail {
		return nil, errInjected
	}
	if s.serve != nil {
		return s.serve(req.SyncTime), nil
	}

	return s.next, nil
}

// syncMetrics records what kind of synchronisation the database decided on.
type syncMetrics struct {
	profiledb.EmptyMetrics
	lastFull bool
	updates  int
}

func (m *syncMetrics) HandleProfilesUpdate(_ context.Context, u *profiledb.UpdateMetrics) {
	m.lastFull = u.IsFullSync
	m.updates++
}

type errColl struct{ errs []error }

func (c *errColl) Collect(_ context.Context, err error) { c.errs = append(c.errs, err) }

// respSzEst is rate_limit.response_size_estimate of the server under test: the
// same value must reach the backend converter and the reader of the file cache
// (the wiring campaign varies it per case).
var respSzEst = 1 * datasize.KB

type realDB struct {
	db      *profiledb.Default
	st      *storage
	mt      *syncMetrics
	ec      *errColl
	base    int // goroutine count with no clean-up pending
	pending int
	path    string
}

// goroutineNoise is set when the goroutine count moved for a reason other than
// the database's clean-ups; the case's comparison with the model is skipped.
var goroutineNoise bool

func newRealDB(path string) *realDB {
	st := &storage{}
	ec := &errColl{}
	mt := &syncMetrics{}
	db, err := profiledb.New(&profiledb.Config{
		Logger:               slogutil.NewDiscardLogger(),
		Storage:              st,
		ErrColl:              ec,
		Metrics:              mt,
		CacheFilePath:        path,
		FullSyncIvl:          time.Hour,
		FullSyncRetryIvl:     time.Hour,
		ResponseSizeEstimate: respSzEst,
	})
	hlib.Must(err)

	return &realDB{db: db, st: st, mt: mt, ec: ec, base: runtime.NumGoroutine(), path: path}
}

// early reports whether a clean-up goroutine ran although the harness did not
// yield (the schedule of this case is then unknown and the case is dropped).
func (x *realDB) early() bool { return runtime.NumGoroutine() != x.base+x.pending }

func (rs resp) real() *profiledb.StorageProfilesResponse {
	out := &profiledb.StorageProfilesResponse{SyncTime: timeOf(rs.t)}
	for _, p := range rs.profs {
		out.Profiles = append(out.Profiles, p.real())
	}
	for _, d := range rs.devs {
		out.Devices = append(out.Devices, d.real())
	}

	return out
}

// sync runs one Refresh that is answered with rs and returns the
// synchronisation point the database asked for.
func (x *realDB) sync(rs resp) (req int, err error) {
	x.st.next, x.st.serve, x.st.fail = rs.real(), nil, false
	x.db.VerifC14ForceSyncKind(rs.full)
	err = x.db.Refresh(context.Background())

	return timeNum(x.st.lastReq), err
}

// refresh runs one Refresh with the storage as configured by the caller.  If
// force is nil the database decides on the kind of synchronisation itself.
// It returns the kind decided on and the synchronisation point asked for.
func (x *realDB) refresh(force *bool) (full bool, req int, err error) {
	if force != nil {
		x.db.VerifC14ForceSyncKind(*force)
	}
	err = x.db.Refresh(context.Background())

	return x.mt.lastFull, timeNum(x.st.lastReq), err
}

// flush lets every pending clean-up goroutine run to completion.
func (x *realDB) flush() (n int) {
	n = x.pending
	for i := 0; runtime.NumGoroutine() > x.base; i++ {
		runtime.Gosched()
		if i > 100000 {
			time.Sleep(time.Millisecond)
		}
		if i > 110000 {
			panic("clean-up goroutines do not finish")
		}
	}
	x.pending = 0

	return n
}

type lookRes struct {
	kind  string // ok, nf, pnf, err
	pid   string
	ptag  int
	did   string
	dtag  int
	spawn int
	p     *agd.Profile
	d     *agd.Device
	err   error
}

func (l lookRes) modelText() string {
	switch l.kind {
	case "ok":
		return fmt.Sprintf("ok %s %d %s %d %d", strings.TrimPrefix(l.pid, "p"), l.ptag, strings.TrimPrefix(l.did, "d"), l.dtag, l.spawn)
	default:
		return fmt.Sprintf("%s %d", l.kind, l.spawn)
	}
}

// look performs one look-up: kind ∈ dev, link, ded, hum.
func (x *realDB) look(kind string, a, b int) (res lookRes) {
	ctx := context.Background()
	before := runtime.NumGoroutine()
	var p *agd.Profile
	var d *agd.Device
	var err error
	switch kind {
	case "dev":
		p, d, err = x.db.ProfileByDeviceID(ctx, didStr(a))
	case "link":
		p, d, err = x.db.ProfileByLinkedIP(ctx, linkedAddr(a))
	case "ded":
		p, d, err = x.db.ProfileByDedicatedIP(ctx, dedAddr(a))
	case "hum":
		p, d, err = x.db.ProfileByHumanID(ctx, pidStr(a), humStr(b))
	}
	res.spawn = runtime.NumGoroutine() - before
	if res.spawn < 0 {
		// A goroutine that is not ours (runtime, a timer, a lingering
		// connection of an earlier campaign) ended during the look-up: the
		// count says nothing about clean-ups in this case.
		goroutineNoise = true
		res.spawn = 0
	}
	x.pending += res.spawn
	res.p, res.d, res.err = p, d, err
	switch {
	case err == nil && p != nil && d != nil:
		res.kind = "ok"
		res.pid, res.did = string(p.ID), string(d.ID)
		res.ptag = int(p.FilteredResponseTTL)
		_, _ = fmt.Sscanf(string(d.Name), "n%d", &res.dtag)
	case errors.Is(err, profiledb.ErrProfileNotFound):
		res.kind = "pnf"
	case errors.Is(err, profiledb.ErrDeviceNotFound):
		res.kind = "nf"
	default:
		res.kind = "err"
	}

	return res
}

func showOpt[K comparable, V ~string](m map[K]V, k K, prefix string) string {
	v, ok := m[k]
	if !ok {
		return "-"
	}

	return strings.TrimPrefix(string(v), prefix)
}

// snap renders the index maps like the model driver's `snap` op.
func (x *realDB) snap() string {
	s := x.db.VerifC14Snapshot()
	var d, l, e, hh, pr, dv []string
	for i := 1; i <= nDev; i++ {
		d = append(d, showOpt(s.DevToProf, didStr(i), "p"))
		if rec, ok := s.Devices[didStr(i)]; ok {
			dv = append(dv, strings.TrimPrefix(string(rec.Name), "n"))
		} else {
			dv = append(dv, "-")
		}
	}
	for i := 1; i <= nIP; i++ {
		l = append(l, showOpt(s.Linked, linkedAddr(i), "d"))
		e = append(e, showOpt(s.Dedicated, dedAddr(i), "d"))
	}
	for h := 1; h <= nHuman; h++ {
		for p := 1; p <= nProf; p++ {
			hh = append(hh, showOpt(s.Human, profiledb.VerifC14HumanKey{Lower: humStr(h), Profile: pidStr(p)}, "d"))
		}
	}
	for p := 1; p <= nProf; p++ {
		if rec, ok := s.Profiles[pidStr(p)]; ok {
			pr = append(pr, fmt.Sprint(int(rec.FilteredResponseTTL)))
		} else {
			pr = append(pr, "-")
		}
	}

	return "d:" + strings.Join(d, ",") + " l:" + strings.Join(l, ",") + " e:" + strings.Join(e, ",") +
		" h:" + strings.Join(hh, ",") + " p:" + strings.Join(pr, ",") + " v:" + strings.Join(dv, ",")
}

// ---------------------------------------------------------------------------
// Reference: the latest synchronised records and the owner of every key.  This
// is the property's own specification; it does not consult the model.

type reference struct {
	profs map[int]profRec
	devs  map[int]devRec
	// wf is false once a response broke the backend's guarantees (unique
	// owners, devices nested in their profile); the oracle is then silent.
	wf bool
}

func newReference() *reference {
	return &reference{profs: map[int]profRec{}, devs: map[int]devRec{}, wf: true}
}

func (ref *reference) apply(rs resp) {
	if rs.full {
		ref.profs, ref.devs = map[int]profRec{}, map[int]devRec{}
	}
	for _, p := range rs.profs {
		ref.profs[p.id] = p
	}
	for _, d := range rs.devs {
		ref.devs[d.id] = d
	}
	ref.wf = ref.wf && respWF(rs) && ref.unique()
}

func respWF(rs resp) bool {
	pids, dids, listed := map[int]bool{}, map[int]bool{}, map[int]bool{}
	for _, p := range rs.profs {
		if pids[p.id] {
			return false
		}
		pids[p.id] = true
		for _, d := range p.devs {
			listed[d] = true
		}
	}
	for _, d := range rs.devs {
		if dids[d.id] || !listed[d.id] {
			return false
		}
		dids[d.id] = true
	}
	for d := range listed {
		if !dids[d] {
			return false
		}
	}

	return true
}

type owner struct {
	pid, did int
}

// owners returns the current devices reachable under a key.
func (ref *reference) owners(kind string, a, b int) (out []owner) {
	pids := make([]int, 0, len(ref.profs))
	for id := range ref.profs {
		pids = append(pids, id)
	}
	sort.Ints(pids)
	for _, pid := range pids {
		p := ref.profs[pid]
		for _, did := range p.devs {
			d, ok := ref.devs[did]
			if !ok {
				continue
			}
			hit := false
			switch kind {
			case "dev":
				hit = did == a
			case "link":
				hit = a != 0 && d.linked == a
			case "ded":
				hit = slices.Contains(d.ded, a)
			case "hum":
				hit = b != 0 && d.human == b && pid == a
			}
			if hit {
				out = append(out, owner{pid: pid, did: did})
			}
		}
	}

	return out
}

func (ref *reference) unique() bool {
	listed := map[int]int{}
	for _, p := range ref.profs {
		seen := map[int]bool{}
		for _, d := range p.devs {
			if !seen[d] {
				listed[d]++
			}
			seen[d] = true
		}
	}
	for _, n := range listed {
		if n > 1 {
			return false
		}
	}
	for ip := 1; ip <= nIP; ip++ {
		if len(ref.owners("link", ip, 0)) > 1 || len(ref.owners("ded", ip, 0)) > 1 {
			return false
		}
	}
	for p := 1; p <= nProf; p++ {
		for h := 1; h <= nHuman; h++ {
			if len(ref.owners("hum", p, h)) > 1 {
				return false
			}
		}
	}

	return true
}

// ---------------------------------------------------------------------------
// One case: a list of ops run on the real database, then on the model.

type op struct {
	kind string // sync, fail, psync, dev, link, ded, hum, flush, snap, restart
	a, b int
	rs   resp
	// psync: a Refresh against the backend that honours the request's sync
	// time.  nmut backend changes (drawn from seed) happen first; the kind is
	// forced to full unless auto; the storage call fails if failing.
	seed    uint64
	nmut    int
	full    bool
	auto    bool
	failing bool
	// nostore: the cache store of this synchronisation fails if it is a full one
	// (sync with a cache file, psync).
	nostore bool
}

func (o op) line() string {
	switch o.kind {
	case "sync":
		if o.nostore && o.rs.full {
			return o.rs.lineNS()
		}

		return o.rs.line()
	case "dev", "link", "ded":
		return fmt.Sprintf("%s %d", o.kind, o.a)
	case "hum":
		return fmt.Sprintf("hum %d %d", o.a, o.b)
	case "flush":
		return "flush"
	case "snap":
		return fmt.Sprintf("snap %d %d %d %d", nDev, nIP, nHuman, nProf)
	case "restart":
		return fmt.Sprintf("restart %d", o.a)
	case "fail":
		return fmt.Sprintf("fail %d", o.a)
	case "psync":
		return fmt.Sprintf("psync seed=%d nmut=%d full=%t auto=%t failing=%t nostore=%t", o.seed, o.nmut, o.full, o.auto, o.failing, o.nostore)
	}

	return "bad"
}

type caseStats struct {
	staleHit      bool
	pendingAcross bool
	found, nf     int
}

// runCase runs ops on a fresh real database (with the given cache path),
// checks the property on every look-up, then compares with the model.  It
// returns the signatures of the violations found (for shrinking).
func (h *harness) runCase(campaign string, ops []op, path string, report bool) (sigs []string) {
	r := h.r
	// No garbage collection inside a case (it would yield the P to the pending
	// clean-up goroutines); collect between cases.
	h.m.ResetLog()
	debug.SetGCPercent(-1)
	defer func() {
		h.seq++
		if h.seq%64 == 0 {
			runtime.GC()
		}
	}()

	if path != "none" {
		hlib.Must(os.MkdirAll(filepath.Dir(path), 0o700))
		_ = os.Remove(path)
	}
	x := newRealDB(path)
	ref := newReference()
	// cacheRef is what the cache file holds: the last full response.
	var cacheRef *reference
	lines := []string{"reset"}
	want := []string{"ok"}
	var st caseStats
	discarded := false
	goroutineNoise = false
	expectedErrs := 0
	// The backend of the protocol ops and the reference of what the cache
	// file holds in that campaign (the backend at the last full sync).
	var pb *pbackend
	nextT := 0

	violate := func(sig, what string) {
		sigs = append(sigs, sig)
		if report {
			var replay []string
			for _, o := range ops {
				replay = append(replay, o.line())
			}
			// executed: the model lines run so far (responses as served), a
			// complete recipe for a scripted storage.
			r.Violate(sig, what, map[string]any{"campaign": campaign, "ops": replay, "executed": slices.Clone(lines[1:]), "addresses": layoutText()})
		}
	}

	for i, o := range ops {
		if path == "none" && x.early() {
			discarded = true

			break
		}
		nextT++
		if o.kind == "sync" {
			o.rs.t = nextT
			ops[i].rs.t = nextT
		}
		if o.kind != "psync" {
			lines = append(lines, o.line())
		}
		switch o.kind {
		case "sync":
			if x.pending > 0 {
				st.pendingAcross = true
			}
			nostore := o.nostore && o.rs.full && path != "none"
			var req int
			var err error
			if nostore {
				withoutCacheDir(path, func() { req, err = x.sync(o.rs) })
				expectedErrs++
				if !isStoreError(err) {
					violate("refresh-swallows-store-error", fmt.Sprintf("Refresh returned %v although the cache could not be stored", err))
				}
				r.Count(campaign + ":sync-full-store-failed")
			} else if req, err = x.sync(o.rs); err != nil {
				violate("refresh-error", fmt.Sprintf("Refresh failed at op %d: %v", i, err))
			}
			// The data is the latest synchronised data whether or not the cache
			// could be written; the cache file is replaced only by a store that
			// succeeded.
			ref.apply(o.rs)
			if o.rs.full && !nostore {
				cacheRef = newReference()
				cacheRef.apply(o.rs)
				cacheRef.wf = ref.wf
			}
			want = append(want, fmt.Sprintf("ok %d", req))
		case "fail":
			// The storage fails: nothing may change.
			x.st.fail = true
			full := o.a != 0
			_, req, err := x.refresh(&full)
			x.st.fail = false
			if err == nil {
				violate("refresh-swallows-storage-error", "Refresh returned nil although the storage failed")
			}
			expectedErrs++
			want = append(want, fmt.Sprintf("ok %d", req))
		case "psync":
			if pb == nil {
				pb = newPBackend()
			}
			if x.pending > 0 {
				st.pendingAcross = true
			}
			rng := rand.New(rand.NewPCG(o.seed, 14))
			for _, name := range pb.mutate(rng, o.nmut) {
				if report {
					r.Count(campaign + ":mut:" + name)
				}
			}
			var served *resp
			x.st.fail = o.failing
			x.st.serve = func(since time.Time) *profiledb.StorageProfilesResponse {
				rs := pb.respond(timeNum(since))
				served = &rs

				return rs.real()
			}
			var force *bool
			if !o.auto {
				force = &o.full
			}
			var full bool
			var req int
			var err error
			if o.nostore && path != "none" {
				withoutCacheDir(path, func() { full, req, err = x.refresh(force) })
			} else {
				full, req, err = x.refresh(force)
			}
			x.st.fail, x.st.serve = false, nil
			storeFailed := o.nostore && path != "none" && full && !o.failing && served != nil
			switch {
			case storeFailed:
				expectedErrs++
				if !isStoreError(err) {
					violate("refresh-swallows-store-error", fmt.Sprintf("Refresh returned %v although the cache could not be stored", err))
				}
				served.full = true
				lines = append(lines, served.lineNS())
				want = append(want, fmt.Sprintf("ok %d", req))
				ref = pb.reference()
				r.Count(campaign + ":sync-full-store-failed")
			case o.failing:
				expectedErrs++
				if err == nil {
					violate("refresh-swallows-storage-error", "Refresh returned nil although the storage failed")
				}
				lines = append(lines, fmt.Sprintf("fail %s", b01(full)))
				want = append(want, fmt.Sprintf("ok %d", req))
				r.Count(campaign + ":sync-failed")
			case err != nil || served == nil:
				violate("refresh-error", fmt.Sprintf("Refresh failed at op %d: %v", i, err))
				lines = append(lines, fmt.Sprintf("fail %s", b01(full)))
				want = append(want, fmt.Sprintf("ok %d", req))
			default:
				// What the database now has to answer from is the backend's
				// state, whatever the database asked for.
				served.full = full
				lines = append(lines, served.line())
				want = append(want, fmt.Sprintf("ok %d", req))
				ref = pb.reference()
				if full {
					cacheRef = pb.reference()
					r.Count(campaign + ":sync-full")
				} else {
					r.Count(campaign + ":sync-partial")
				}
				if o.auto {
					r.Count(campaign + ":sync-kind-chosen-by-db")
				}
			}
		case "flush":
			want = append(want, fmt.Sprintf("ok %d", x.flush()))
		case "snap":
			want = append(want, x.snap())
		case "restart":
			x.flush()
			if o.a != cacheVerOK {
				patchVersion(path, o.a)
			}
			if len(x.ec.errs) != expectedErrs {
				violate("refresh-error", fmt.Sprintf("error collector received %d errors, %d storage failures were injected: %v", len(x.ec.errs), expectedErrs, x.ec.errs))
			}
			expectedErrs = 0
			if x.st.offGrid {
				violate("request-sync-point-never-sent", "a storage request carried a synchronisation point that no response or cache ever carried (the sync time was altered on the way)")
			}
			x = newRealDB(path)
			loaded := cacheRef != nil && o.a == cacheVerOK && len(cacheRef.profs) > 0 && len(cacheRef.devs) > 0
			if loaded {
				ref = &reference{profs: maps.Clone(cacheRef.profs), devs: maps.Clone(cacheRef.devs), wf: cacheRef.wf}
				r.Count("restart-loaded")
			} else {
				ref = newReference()
				ref.wf = cacheRef == nil || cacheRef.wf
				r.Count("restart-ignored")
			}
			want = append(want, "ok")
		default:
			res := x.look(o.kind, o.a, o.b)
			want = append(want, res.modelText())
			if res.spawn > 0 {
				st.staleHit = true
			}
			h.oracle(ref, o, res, st.pendingAcross, violate)
			if res.kind == "ok" {
				st.found++
			} else {
				st.nf++
			}
		}
	}
	x.flush()
	if len(x.ec.errs) != expectedErrs {
		violate("refresh-error", fmt.Sprintf("error collector received %d errors, %d storage failures were injected: %v", len(x.ec.errs), expectedErrs, x.ec.errs))
	}
	if x.st.offGrid {
		violate("request-sync-point-never-sent", "a storage request carried a synchronisation point that no response or cache ever carried (the sync time was altered on the way)")
	}
	if discarded {
		r.Count(campaign + ":discarded-early-cleanup")

		return sigs
	}
	if goroutineNoise {
		goroutineNoise = false
		r.Count(campaign + ":discarded-goroutine-noise")

		return sigs
	}

	got := h.m.Batch(lines)
	r.ModelOps += len(lines)
	for i := range lines {
		if got[i] != want[i] {
			if report {
				r.Disagree("model-vs-profiledb", fmt.Sprintf("%s: line %d %q: model %q, implementation %q", campaign, i, lines[i], got[i], want[i]),
					map[string]any{"campaign": campaign, "ops": lines, "addresses": layoutText()})
			}
			sigs = append(sigs, "disagree")

			break
		}
	}

	if report {
		r.Traces++
		nontrivial := st.staleHit || st.pendingAcross
		r.Case(strings.Join(lines, "\n"), nontrivial)
		r.Count(campaign + ":cases")
		if st.staleHit {
			r.Count(campaign + ":stale-entry-hit")
		}
		if st.pendingAcross {
			r.Count(campaign + ":cleanup-pending-across-sync")
		}
		if !ref.wf {
			r.Count(campaign + ":ill-formed-history")
		}
		r.Distribution[campaign+":lookups-found"] += st.found
		r.Distribution[campaign+":lookups-notfound"] += st.nf
		if nontrivial {
			r.Sample(map[string]any{"campaign": campaign, "ops": lines[1:min(len(lines), 9)], "impl": want[1:min(len(want), 9)]}, 6)
		}
	}

	return sigs
}

// oracle checks one look-up against the owner computed from the latest
// records.
func (h *harness) oracle(ref *reference, o op, res lookRes, pendingAcross bool, violate func(sig, what string)) {
	if !ref.wf {
		return
	}
	if res.kind == "err" {
		violate("lookup-unexpected-error", fmt.Sprintf("%s: unexpected error %v", keyText(o), res.err))

		return
	}
	own := ref.owners(o.kind, o.a, o.b)
	if res.kind == "ok" && o.kind == "hum" && res.pid != string(pidStr(o.a)) {
		violate("humanid-lookup-returns-other-profile", fmt.Sprintf(
			"ProfileByHumanID(%s, %s) returned profile %s with device %s: the device moved to another profile and the stale (human id, old profile) entry still resolves",
			pidStr(o.a), humStr(o.b), res.pid, res.did))

		return
	}
	switch {
	case len(own) == 0 && res.kind == "ok":
		violate("lookup-"+o.kind+"-found-but-unowned", fmt.Sprintf("%s returned (%s, %s) although no current device owns the key", keyText(o), res.pid, res.did))
	case len(own) == 1 && res.kind != "ok":
		if pendingAcross {
			violate("cleanup-overtaken-by-sync-deletes-new-owner:"+o.kind, fmt.Sprintf(
				"%s is not-found although device d%d of profile p%d currently owns the key (a clean-up was pending across a synchronisation in this case: a clean-up started by an earlier look-up may have removed the new owner's entry)",
				keyText(o), own[0].did, own[0].pid))
		} else {
			violate("lookup-"+o.kind+"-owner-not-found", fmt.Sprintf(
				"%s is not-found although device d%d of profile p%d currently owns the key in the latest synchronised data (no clean-up was pending across a synchronisation: the data was not requested, not applied, or not indexed)",
				keyText(o), own[0].did, own[0].pid))
		}
	case len(own) == 1:
		p, d := ref.profs[own[0].pid], ref.devs[own[0].did]
		if res.pid != string(pidStr(p.id)) || res.did != string(didStr(d.id)) {
			violate("lookup-"+o.kind+"-wrong-owner", fmt.Sprintf("%s returned (%s, %s), owner is (p%d, d%d)", keyText(o), res.pid, res.did, p.id, d.id))
		} else if res.ptag != p.tag || res.dtag != d.tag || res.p.Deleted != p.deleted || res.p.AutoDevicesEnabled != p.auto ||
			res.d.LinkedIP != linkedAddr(d.linked) || res.d.HumanIDLower != humStr(d.human) ||
			!slices.EqualFunc(res.d.DedicatedIPs, d.ded, func(a netip.Addr, n int) bool { return a == dedAddr(n) }) {
			violate("lookup-"+o.kind+"-stale-record", fmt.Sprintf("%s returned an outdated or altered record of (p%d, d%d): linked IP %v (latest data: %v), dedicated IPs %v (latest data: keys %v of %v)",
				keyText(o), p.id, d.id, res.d.LinkedIP, linkedAddr(d.linked), res.d.DedicatedIPs, d.ded, layoutText()["dedicated"]))
		}
	}
}

// keyText renders a look-up with the address its key number stands for.
func keyText(o op) string {
	switch o.kind {
	case "link":
		return fmt.Sprintf("%s (ProfileByLinkedIP %s)", o.line(), linkedAddr(o.a))
	case "ded":
		return fmt.Sprintf("%s (ProfileByDedicatedIP %s)", o.line(), dedAddr(o.a))
	}

	return o.line()
}

// patchVersion appends a second `version` field to the cache file; the last
// occurrence of a scalar field wins in protobuf.
func patchVersion(path string, v int) {
	b, err := os.ReadFile(path)
	if err != nil {
		return
	}
	b = append(b, 0x20, byte(v))
	hlib.Must(os.WriteFile(path, b, 0o600))
}

// ---------------------------------------------------------------------------
// Generator: a backend whose state is always well formed.

type backend struct {
	profs   map[int]*profRec
	devs    map[int]*devRec
	devProf map[int]int
	dirty   map[int]bool
	gone    map[int]bool // profiles deleted since the last sync
	tag     int
}

func newBackend() *backend {
	return &backend{profs: map[int]*profRec{}, devs: map[int]*devRec{}, devProf: map[int]int{}, dirty: map[int]bool{}, gone: map[int]bool{}}
}

func (b *backend) nextTag() int { b.tag++; return b.tag }

func (b *backend) touchDev(d int) {
	b.devs[d].tag = b.nextTag()
	b.dirty[b.devProf[d]] = true
}

func (b *backend) linkedOwner(ip int) int {
	for id, d := range b.devs {
		if d.linked == ip {
			return id
		}
	}

	return 0
}

func (b *backend) dedOwner(ip int) int {
	for id, d := range b.devs {
		if slices.Contains(d.ded, ip) {
			return id
		}
	}

	return 0
}

func (b *backend) humanOwner(pid, h int) int {
	for id, d := range b.devs {
		if d.human == h && b.devProf[id] == pid {
			return id
		}
	}

	return 0
}

func (b *backend) ensureProfile(rng *rand.Rand, pid int) {
	if _, ok := b.profs[pid]; !ok {
		b.profs[pid] = &profRec{id: pid, auto: rng.IntN(4) == 0, tag: b.nextTag()}
		delete(b.gone, pid)
		b.dirty[pid] = true
	}
}

func (b *backend) detach(d int) {
	pid := b.devProf[d]
	p := b.profs[pid]
	p.devs = slices.DeleteFunc(slices.Clone(p.devs), func(x int) bool { return x == d })
	p.tag = b.nextTag()
	b.dirty[pid] = true
	delete(b.devProf, d)
}

func (b *backend) attach(d, pid int) {
	p := b.profs[pid]
	p.devs = append(slices.Clone(p.devs), d)
	p.tag = b.nextTag()
	b.devProf[d] = pid
	b.dirty[pid] = true
}

// mutate applies one random well-formedness-preserving change and returns its
// name.
func (b *backend) mutate(rng *rand.Rand) string {
	pickDev := func() int {
		ids := make([]int, 0, len(b.devs))
		for id := range b.devs {
			ids = append(ids, id)
		}
		sort.Ints(ids)
		if len(ids) == 0 {
			return 0
		}

		return ids[rng.IntN(len(ids))]
	}
	choice := rng.IntN(50)
	if choice >= 48 {
		choice = 12 * 4
	}
	switch choice / 4 {
	case 12: // boundary: every profile is deleted, or every device is
		if rng.IntN(2) == 0 {
			if len(b.profs) == 0 {
				return "noop"
			}
			for pid, p := range b.profs {
				for _, d := range p.devs {
					delete(b.devs, d)
					delete(b.devProf, d)
				}
				delete(b.profs, pid)
				delete(b.dirty, pid)
				b.gone[pid] = true
			}

			return "all-profiles-deleted"
		}
		if len(b.devs) == 0 {
			return "noop"
		}
		ids := make([]int, 0, len(b.devs))
		for id := range b.devs {
			ids = append(ids, id)
		}
		sort.Ints(ids)
		for _, d := range ids {
			b.detach(d)
			delete(b.devs, d)
		}

		return "all-devices-deleted"
	case 0, 1: // a device appears
		id := 1 + rng.IntN(nDev)
		for k := 0; k < nDev && b.devs[id] != nil; k++ {
			id = 1 + id%nDev
		}
		if _, ok := b.devs[id]; ok {
			return "noop"
		}
		pid := 1 + rng.IntN(nProf)
		b.ensureProfile(rng, pid)
		b.devs[id] = &devRec{id: id, tag: b.nextTag()}
		b.attach(id, pid)
		b.setLinked(rng, id)
		if rng.IntN(2) == 0 {
			b.setHuman(rng, id)
		}
		if rng.IntN(2) == 0 {
			b.setDed(rng, id)
		}

		return "dev-appears"
	case 2: // a device disappears
		d := pickDev()
		if d == 0 {
			return "noop"
		}
		b.detach(d)
		delete(b.devs, d)

		return "dev-disappears"
	case 3, 4: // a device moves to another profile
		d := pickDev()
		if d == 0 {
			return "noop"
		}
		to := 1 + rng.IntN(nProf)
		if to == b.devProf[d] {
			return "noop"
		}
		b.ensureProfile(rng, to)
		if h := b.devs[d].human; h != 0 && b.humanOwner(to, h) != 0 {
			b.devs[d].human = 0
		}
		b.detach(d)
		b.attach(d, to)
		b.touchDev(d)

		return "dev-moves"
	case 5, 6:
		d := pickDev()
		if d == 0 {
			return "noop"
		}

		return b.setLinked(rng, d)
	case 7:
		d := pickDev()
		if d == 0 {
			return "noop"
		}

		return b.setDed(rng, d)
	case 8, 9:
		d := pickDev()
		if d == 0 {
			return "noop"
		}

		return b.setHuman(rng, d)
	case 10: // a profile is deleted with its devices
		pid := 1 + rng.IntN(nProf)
		p, ok := b.profs[pid]
		if !ok {
			return "noop"
		}
		for _, d := range p.devs {
			delete(b.devs, d)
			delete(b.devProf, d)
		}
		delete(b.profs, pid)
		delete(b.dirty, pid)
		b.gone[pid] = true

		return "profile-deleted"
	default: // settings of a profile change
		pid := 1 + rng.IntN(nProf)
		p, ok := b.profs[pid]
		if !ok {
			return "noop"
		}
		p.tag = b.nextTag()
		if rng.IntN(3) == 0 {
			p.auto = !p.auto
		}
		b.dirty[pid] = true

		return "profile-settings"
	}
}

// setLinked gives d another linked IP: a free one, none, or the one of another
// device (which then swaps or loses it).
func (b *backend) setLinked(rng *rand.Rand, d int) string {
	ip := rng.IntN(nIP + 1)
	old := b.devs[d].linked
	if ip == old {
		return "noop"
	}
	name := "linked-changes"
	if ip != 0 {
		if o := b.linkedOwner(ip); o != 0 {
			if rng.IntN(2) == 0 {
				b.devs[o].linked = old
				name = "linked-swapped"
			} else {
				b.devs[o].linked = 0
				name = "linked-taken-over"
			}
			b.touchDev(o)
		}
	}
	b.devs[d].linked = ip
	b.touchDev(d)

	return name
}

func (b *backend) setDed(rng *rand.Rand, d int) string {
	ip := 1 + rng.IntN(nIP)
	dev := b.devs[d]
	if slices.Contains(dev.ded, ip) {
		dev.ded = slices.DeleteFunc(slices.Clone(dev.ded), func(x int) bool { return x == ip })
		b.touchDev(d)

		return "dedicated-dropped"
	}
	name := "dedicated-added"
	if o := b.dedOwner(ip); o != 0 {
		od := b.devs[o]
		od.ded = slices.DeleteFunc(slices.Clone(od.ded), func(x int) bool { return x == ip })
		b.touchDev(o)
		name = "dedicated-taken-over"
	}
	dev.ded = append(slices.Clone(dev.ded), ip)
	b.touchDev(d)

	return name
}

func (b *backend) setHuman(rng *rand.Rand, d int) string {
	h := rng.IntN(nHuman + 1)
	dev := b.devs[d]
	if h == dev.human {
		return "noop"
	}
	name := "human-changes"
	if h != 0 {
		if o := b.humanOwner(b.devProf[d], h); o != 0 {
			if rng.IntN(2) == 0 {
				b.devs[o].human = dev.human
				name = "human-swapped"
			} else {
				b.devs[o].human = 0
				name = "human-taken-over"
			}
			b.touchDev(o)
		}
	}
	dev.human = h
	b.touchDev(d)

	return name
}

// response renders what the backend would send: every profile on a full sync,
// the changed ones (with all their devices) and tombstones of deleted ones on
// a partial sync.
func (b *backend) response(rng *rand.Rand, full bool) (rs resp) {
	rs.full = full
	var pids []int
	for pid := range b.profs {
		if full || b.dirty[pid] || rng.IntN(6) == 0 {
			pids = append(pids, pid)
		}
	}
	sort.Ints(pids)
	rng.Shuffle(len(pids), func(i, j int) { pids[i], pids[j] = pids[j], pids[i] })
	for _, pid := range pids {
		p := *b.profs[pid]
		p.devs = slices.Clone(p.devs)
		rs.profs = append(rs.profs, p)
		for _, d := range p.devs {
			dev := *b.devs[d]
			dev.ded = slices.Clone(dev.ded)
			rs.devs = append(rs.devs, dev)
		}
	}
	if !full {
		var gone []int
		for pid := range b.gone {
			gone = append(gone, pid)
		}
		sort.Ints(gone)
		for _, pid := range gone {
			rs.profs = append(rs.profs, profRec{id: pid, deleted: true, tag: b.nextTag()})
		}
	}
	if rng.IntN(2) == 0 {
		rng.Shuffle(len(rs.devs), func(i, j int) { rs.devs[i], rs.devs[j] = rs.devs[j], rs.devs[i] })
	}
	b.dirty = map[int]bool{}
	b.gone = map[int]bool{}

	return rs
}

// ---------------------------------------------------------------------------
// A backend that honours the synchronisation point of the request: it keeps
// the time of the last change of every profile (a change of one of its devices
// counts) and of every deletion, and answers "since t" with exactly the
// profiles changed after t, all their devices, and tombstones of the profiles
// deleted after t; "since the zero time" is answered with everything.

type pbackend struct {
	b         *backend
	clock     int
	changedAt map[int]int
	goneAt    map[int]int
}

func newPBackend() *pbackend {
	return &pbackend{b: newBackend(), changedAt: map[int]int{}, goneAt: map[int]int{}}
}

func (pb *pbackend) harvest() {
	for pid := range pb.b.dirty {
		if _, ok := pb.b.profs[pid]; ok {
			pb.changedAt[pid] = pb.clock
			delete(pb.goneAt, pid)
		}
	}
	for pid := range pb.b.gone {
		pb.goneAt[pid] = pb.clock
		delete(pb.changedAt, pid)
	}
	pb.b.dirty, pb.b.gone = map[int]bool{}, map[int]bool{}
}

func (pb *pbackend) mutate(rng *rand.Rand, n int) (names []string) {
	for ; n > 0; n-- {
		pb.clock++
		names = append(names, pb.b.mutate(rng))
		pb.harvest()
	}

	return names
}

// respond answers a request for the changes since logical time t.
func (pb *pbackend) respond(since int) (rs resp) {
	pb.clock++
	rs.t = pb.clock
	var pids []int
	for pid := range pb.b.profs {
		if since == 0 || pb.changedAt[pid] > since {
			pids = append(pids, pid)
		}
	}
	sort.Ints(pids)
	for _, pid := range pids {
		p := *pb.b.profs[pid]
		p.devs = slices.Clone(p.devs)
		rs.profs = append(rs.profs, p)
		for _, d := range p.devs {
			dev := *pb.b.devs[d]
			dev.ded = slices.Clone(dev.ded)
			rs.devs = append(rs.devs, dev)
		}
	}
	if since != 0 {
		var gone []int
		for pid, at := range pb.goneAt {
			if at > since {
				gone = append(gone, pid)
			}
		}
		sort.Ints(gone)
		for _, pid := range gone {
			rs.profs = append(rs.profs, profRec{id: pid, deleted: true, tag: pb.b.nextTag()})
		}
	}

	return rs
}

// reference is the backend's current state as the property's specification.
func (pb *pbackend) reference() *reference {
	ref := newReference()
	for pid, p := range pb.b.profs {
		c := *p
		c.devs = slices.Clone(p.devs)
		ref.profs[pid] = c
	}
	for did, d := range pb.b.devs {
		c := *d
		c.ded = slices.Clone(d.ded)
		ref.devs[did] = c
	}

	return ref
}

func randLookup(rng *rand.Rand) op {
	switch rng.IntN(4) {
	case 0:
		return op{kind: "dev", a: 1 + rng.IntN(nDev)}
	case 1:
		return op{kind: "link", a: 1 + rng.IntN(nIP)}
	case 2:
		return op{kind: "ded", a: 1 + rng.IntN(nIP)}
	default:
		return op{kind: "hum", a: 1 + rng.IntN(nProf), b: 1 + rng.IntN(nHuman)}
	}
}

func allLookups() (ops []op) {
	for d := 1; d <= nDev; d++ {
		ops = append(ops, op{kind: "dev", a: d})
	}
	for ip := 1; ip <= nIP; ip++ {
		ops = append(ops, op{kind: "link", a: ip}, op{kind: "ded", a: ip})
	}
	for p := 1; p <= nProf; p++ {
		for hh := 1; hh <= nHuman; hh++ {
			ops = append(ops, op{kind: "hum", a: p, b: hh})
		}
	}

	return ops
}

// genHistory generates one well-formed history.  flushBias is the chance (in
// percent) that look-ups are followed by a flush at once.
func (h *harness) genHistory(rng *rand.Rand, campaign string, length, flushBias int, restarts bool) (ops []op) {
	b := newBackend()
	synced := false
	for k := rng.IntN(12); k > 0; k-- {
		h.r.Count(campaign + ":mut:" + b.mutate(rng))
	}
	for len(ops) < length {
		switch x := rng.IntN(100); {
		case x < 35:
			for k := 1 + rng.IntN(3); k > 0; k-- {
				h.r.Count(campaign + ":mut:" + b.mutate(rng))
			}
			full := !synced || rng.IntN(5) == 0
			if restarts {
				ops = append(ops, op{kind: "flush"})
			}
			ops = append(ops, op{kind: "sync", rs: b.response(rng, full), nostore: restarts && full && rng.IntN(4) == 0})
			synced = true
			if full {
				h.r.Count(campaign + ":sync-full")
			} else {
				h.r.Count(campaign + ":sync-partial")
			}
		case x < 70:
			ops = append(ops, randLookup(rng))
			if rng.IntN(100) < flushBias {
				ops = append(ops, op{kind: "flush"})
			}
		case x < 80:
			ops = append(ops, allLookups()...)
			if rng.IntN(100) < flushBias {
				ops = append(ops, op{kind: "flush"})
			}
		case x < 88:
			ops = append(ops, op{kind: "flush"})
		case x < 92 || (x < 100 && !restarts):
			ops = append(ops, op{kind: "snap"})
		default:
			if restarts && synced {
				v := cacheVerOK
				if rng.IntN(4) == 0 {
					v = []int{0, 1, cacheVerOK - 1, cacheVerOK + 1, 100}[rng.IntN(5)]
				}
				ops = append(ops, op{kind: "restart", a: v})
				ops = append(ops, allLookups()...)
				ops = append(ops, op{kind: "flush"})
				if v != cacheVerOK {
					// The next refresh of a fresh database is a full one.
					ops = append(ops, op{kind: "sync", rs: b.response(rng, true)})
				}
			} else {
				ops = append(ops, op{kind: "snap"})
			}
		}
	}
	ops = append(ops, op{kind: "flush"}, op{kind: "snap"})
	ops = append(ops, allLookups()...)

	return ops
}

func (h *harness) reportShrunk(campaign string, ops []op, path string) {
	sigs := h.runCase(campaign, ops, path, false)
	if len(sigs) == 0 {
		return
	}
	sig := sigs[0]
	small := hlib.Shrink(ops, func(c []op) bool {
		return slices.Contains(h.runCase(campaign, c, path, false), sig)
	})
	h.runCase(campaign+":shrunk", small, path, true)
}

func (h *harness) scheduleCampaign() {
	rng := h.o.Rand("schedule")
	n := 12000
	if h.o.Thorough() {
		n = 120000
	}
	shrunk := 0
	for i := 0; i < n; i++ {
		h.newLayout("schedule", false)
		ops := h.genHistory(rng, "schedule", 6+rng.IntN(30), []int{0, 0, 10, 50}[rng.IntN(4)], false)
		if sigs := h.runCase("schedule", ops, "none", true); len(sigs) > 0 && shrunk < 4 {
			shrunk++
			h.reportShrunk("schedule", ops, "none")
		}
	}
}

// malformedCampaign feeds responses that break the backend's guarantees
// (duplicate owners, devices without profile, profiles listing unknown
// devices, duplicates in a response).  The property says nothing there; the
// model must still agree and nothing may panic.
func (h *harness) malformedCampaign() {
	rng := h.o.Rand("malformed")
	n := 1000
	if h.o.Thorough() {
		n = 10000
	}
	for i := 0; i < n; i++ {
		h.newLayout("malformed", false)
		var ops []op
		tag := 0
		for k := 2 + rng.IntN(6); k > 0; k-- {
			var rs resp
			rs.full = rng.IntN(4) == 0
			for p := rng.IntN(3); p > 0; p-- {
				pr := profRec{id: 1 + rng.IntN(nProf), auto: rng.IntN(3) == 0, deleted: rng.IntN(6) == 0}
				tag++
				pr.tag = tag
				for d := rng.IntN(3); d > 0; d-- {
					pr.devs = append(pr.devs, 1+rng.IntN(nDev))
				}
				rs.profs = append(rs.profs, pr)
			}
			for d := rng.IntN(4); d > 0; d-- {
				dr := devRec{id: 1 + rng.IntN(nDev), linked: rng.IntN(nIP + 1), human: rng.IntN(nHuman + 1)}
				tag++
				dr.tag = tag
				for e := rng.IntN(3); e > 0; e-- {
					dr.ded = append(dr.ded, 1+rng.IntN(nIP))
				}
				rs.devs = append(rs.devs, dr)
			}
			ops = append(ops, op{kind: "sync", rs: rs})
			for l := rng.IntN(6); l > 0; l-- {
				ops = append(ops, randLookup(rng))
			}
			if rng.IntN(2) == 0 {
				ops = append(ops, op{kind: "flush"})
			}
			if rng.IntN(3) == 0 {
				ops = append(ops, op{kind: "snap"})
			}
		}
		ops = append(ops, allLookups()...)
		ops = append(ops, op{kind: "flush"}, op{kind: "snap"})
		func() {
			defer func() {
				if v := recover(); v != nil {
					h.r.Violate("profiledb-panic", fmt.Sprintf("panic on an ill-formed response: %v", v), nil)
				}
			}()
			h.runCase("malformed", ops, "none", true)
		}()
	}
}

func (h *harness) restartCampaign() {
	rng := h.o.Rand("restart")
	n := 400
	if h.o.Thorough() {
		n = 4000
	}
	path := filepath.Join(h.dir, "restart", "cache.pb")
	shrunk := 0
	for i := 0; i < n; i++ {
		h.newLayout("restart", false)
		ops := h.genHistory(rng, "restart", 8+rng.IntN(25), 100, true)
		if sigs := h.runCase("restart", ops, path, true); len(sigs) > 0 && shrunk < 2 {
			shrunk++
			h.reportShrunk("restart", ops, path)
		}
	}
}

// genProtocol generates a history for the backend that honours the sync time
// of the request: backend changes, forced full/partial synchronisations,
// failing storage calls, and (with restarts) restarts after which the database
// decides on the kind of synchronisation itself.
func (h *harness) genProtocol(rng *rand.Rand, length int, restarts bool) (ops []op) {
	synced, afterRestart := false, false
	psync := func() op {
		o := op{kind: "psync", seed: rng.Uint64(), nmut: rng.IntN(4), full: !synced || rng.IntN(5) == 0}
		if !synced {
			o.nmut += 6 + rng.IntN(12)
		}
		if afterRestart && rng.IntN(4) != 0 {
			o.auto = true
		}
		if synced && rng.IntN(5) == 0 {
			o.failing = true
		}
		if restarts && rng.IntN(5) == 0 {
			o.nostore = true
		}

		return o
	}
	for steps := 0; steps < length; steps++ {
		switch x := rng.IntN(100); {
		case x < 40:
			o := psync()
			if restarts {
				ops = append(ops, op{kind: "flush"})
			}
			ops = append(ops, o)
			if !o.failing {
				synced, afterRestart = true, false
			}
		case x < 70:
			ops = append(ops, randLookup(rng))
			if restarts || rng.IntN(3) == 0 {
				ops = append(ops, op{kind: "flush"})
			}
		case x < 78:
			ops = append(ops, allLookups()...)
			if restarts || rng.IntN(3) == 0 {
				ops = append(ops, op{kind: "flush"})
			}
		case x < 82:
			ops = append(ops, op{kind: "flush"}, op{kind: "snap"})
		default:
			if !restarts || !synced {
				ops = append(ops, randLookup(rng))

				continue
			}
			v := cacheVerOK
			if rng.IntN(5) == 0 {
				v = []int{0, cacheVerOK - 1, cacheVerOK + 1}[rng.IntN(3)]
			}
			ops = append(ops, op{kind: "restart", a: v})
			ops = append(ops, allLookups()...)
			ops = append(ops, op{kind: "flush"})
			afterRestart = true
			if v != cacheVerOK {
				// The file keeps the foreign version until the next full sync
				// rewrites it.
				ops = append(ops, op{kind: "psync", seed: rng.Uint64(), nmut: rng.IntN(3), full: true})
				afterRestart = false
			}
		}
	}
	ops = append(ops, op{kind: "flush"}, op{kind: "snap"})
	ops = append(ops, allLookups()...)

	return ops
}

// protocolCampaign checks the look-ups end to end against a backend that
// answers according to the synchronisation point it is asked for: if the
// database asks for the wrong point (or applies a partial answer as a full one,
// or moves its point on a failed request) changes are lost and the look-ups
// stop reflecting the backend.
func (h *harness) protocolCampaign() {
	rng := h.o.Rand("protocol")
	n := 1500
	if h.o.Thorough() {
		n = 15000
	}
	path := filepath.Join(h.dir, "protocol", "cache.pb")
	shrunk := 0
	defer func() { timeBase = 1700000000 }()
	for i := 0; i < n; i++ {
		restarts := i%3 == 0
		// Sync times long ago (a database restarted from the cache decides on a
		// full sync) or just now (it decides on a partial one).
		timeBase = 1700000000
		if rng.IntN(2) == 0 {
			timeBase = time.Now().Unix() - 1000
		}
		p := "none"
		if restarts {
			p = path
		}
		h.newLayout("protocol", false)
		ops := h.genProtocol(rng, 6+rng.IntN(14), restarts)
		if sigs := h.runCase("protocol", ops, p, true); len(sigs) > 0 && shrunk < 3 {
			shrunk++
			h.reportShrunk("protocol", ops, p)
		}
	}
}

// witnessLayouts: the layout of the earlier rounds and one whose keys 1 and 2
// differ in the zone only.
func witnessLayouts() []addrLayout {
	z := classicLayout()
	z.linked[1], z.linked[2], z.linked[3] = univAddr(0, flV6Eth0, 1), univAddr(0, flV6, 1), univAddr(0, flV6Eth1, 1)
	z.ded[1], z.ded[2], z.ded[3] = univAddr(1, flMappedZone, 2), univAddr(1, flMapped, 2), univAddr(1, flV4, 2)

	return []addrLayout{classicLayout(), z}
}

// witnessCases replays the Lean counter-example witnesses on the real code.
func (h *harness) witnessCases() {
	a := func(id, linked, human int, ded ...int) devRec {
		return devRec{id: id, linked: linked, human: human, ded: ded, tag: id*10 + linked}
	}
	// clean-up overtaken by a sync, once per index
	for _, kind := range []string{"link", "ded", "hum", "dev"} {
		var ops []op
		switch kind {
		case "link":
			ops = []op{
				{kind: "sync", rs: resp{full: true, profs: []profRec{{id: 1, devs: []int{1, 2}, tag: 1}}, devs: []devRec{a(1, 1, 0), a(2, 0, 0)}}},
				{kind: "sync", rs: resp{profs: []profRec{{id: 1, devs: []int{1, 2}, tag: 2}}, devs: []devRec{a(1, 2, 0), a(2, 0, 0)}}},
				{kind: "link", a: 1},
				{kind: "sync", rs: resp{profs: []profRec{{id: 1, devs: []int{1, 2}, tag: 3}}, devs: []devRec{a(1, 2, 0), a(2, 1, 0)}}},
				{kind: "flush"}, {kind: "link", a: 1},
			}
		case "ded":
			ops = []op{
				{kind: "sync", rs: resp{full: true, profs: []profRec{{id: 1, devs: []int{1, 2}, tag: 1}}, devs: []devRec{a(1, 0, 0, 1), a(2, 0, 0)}}},
				{kind: "sync", rs: resp{profs: []profRec{{id: 1, devs: []int{1, 2}, tag: 2}}, devs: []devRec{a(1, 0, 0), a(2, 0, 0)}}},
				{kind: "ded", a: 1},
				{kind: "sync", rs: resp{profs: []profRec{{id: 1, devs: []int{1, 2}, tag: 3}}, devs: []devRec{a(1, 0, 0), a(2, 0, 0, 1)}}},
				{kind: "flush"}, {kind: "ded", a: 1},
			}
		case "hum":
			ops = []op{
				{kind: "sync", rs: resp{full: true, profs: []profRec{{id: 1, devs: []int{1, 2}, tag: 1}}, devs: []devRec{a(1, 0, 1), a(2, 0, 0)}}},
				{kind: "sync", rs: resp{profs: []profRec{{id: 1, devs: []int{1, 2}, tag: 2}}, devs: []devRec{a(1, 0, 0), a(2, 0, 0)}}},
				{kind: "hum", a: 1, b: 1},
				{kind: "sync", rs: resp{profs: []profRec{{id: 1, devs: []int{1, 2}, tag: 3}}, devs: []devRec{a(1, 0, 0), a(2, 0, 1)}}},
				{kind: "flush"}, {kind: "hum", a: 1, b: 1},
			}
		case "dev":
			ops = []op{
				{kind: "sync", rs: resp{full: true, profs: []profRec{{id: 1, devs: []int{1}, tag: 1}}, devs: []devRec{a(1, 0, 0)}}},
				{kind: "sync", rs: resp{profs: []profRec{{id: 1, tag: 2}}}},
				{kind: "dev", a: 1},
				{kind: "sync", rs: resp{profs: []profRec{{id: 2, devs: []int{1}, tag: 3}}, devs: []devRec{a(1, 0, 0)}}},
				{kind: "flush"}, {kind: "dev", a: 1},
			}
		}
		for _, l := range witnessLayouts() {
			layout = l
			h.runCase("witness", ops, "none", true)
		}
		h.r.Count("witness:cleanup-overtaken-" + kind)
	}
	// device with a human id moves to another profile
	layout = classicLayout()
	h.runCase("witness", []op{
		{kind: "sync", rs: resp{full: true, profs: []profRec{{id: 1, devs: []int{1}, tag: 1}, {id: 2, tag: 2}}, devs: []devRec{a(1, 0, 1)}}},
		{kind: "sync", rs: resp{profs: []profRec{{id: 2, devs: []int{1}, tag: 3}, {id: 1, tag: 4}}, devs: []devRec{a(1, 0, 1)}}},
		{kind: "hum", a: 1, b: 1}, {kind: "hum", a: 2, b: 1}, {kind: "flush"}, {kind: "hum", a: 1, b: 1},
	}, "none", true)
	h.r.Count("witness:human-id-moved")
}

// exhaustiveCampaign enumerates every sequence of up to 4 steps over a small
// alphabet of backend changes, look-ups of the contested keys and flushes, on
// 2 profiles × 2 devices × 1 linked IP × 1 dedicated IP × 1 human id.
func (h *harness) exhaustiveCampaign() {
	type mut func(b *backend)
	give := func(d int) mut {
		return func(b *backend) {
			for id, dev := range b.devs {
				if id != d && (dev.linked == 1 || slices.Contains(dev.ded, 1)) {
					dev.linked, dev.ded = 0, nil
					b.touchDev(id)
				}
			}
			if dev, ok := b.devs[d]; ok {
				dev.linked, dev.ded = 1, []int{1}
				b.touchDev(d)
			}
		}
	}
	human := func(d int) mut {
		return func(b *backend) {
			dev, ok := b.devs[d]
			if !ok {
				return
			}
			for id, o := range b.devs {
				if id != d && o.human == 1 && b.devProf[id] == b.devProf[d] {
					o.human = 0
					b.touchDev(id)
				}
			}
			dev.human = 1
			b.touchDev(d)
		}
	}
	move := func(d int) mut {
		return func(b *backend) {
			if _, ok := b.devs[d]; !ok {
				return
			}
			to := 3 - b.devProf[d]
			if hh := b.devs[d].human; hh != 0 && b.humanOwner(to, hh) != 0 {
				b.devs[d].human = 0
			}
			b.detach(d)
			b.attach(d, to)
			b.touchDev(d)
		}
	}
	drop := func(d int) mut {
		return func(b *backend) {
			if _, ok := b.devs[d]; !ok {
				return
			}
			b.detach(d)
			delete(b.devs, d)
		}
	}
	add := func(d int) mut {
		return func(b *backend) {
			if _, ok := b.devs[d]; ok {
				return
			}
			b.devs[d] = &devRec{id: d, tag: b.nextTag()}
			b.attach(d, 1)
		}
	}
	muts := []mut{give(1), give(2), human(1), human(2), move(1), drop(1), add(1)}
	looks := []op{{kind: "dev", a: 1}, {kind: "link", a: 1}, {kind: "ded", a: 1}, {kind: "hum", a: 1, b: 1}, {kind: "hum", a: 2, b: 1}}
	alphabet := len(muts) + len(looks) + 1
	depth := 5
	var idx []int
	var rec func()
	count := 0
	rec = func() {
		if len(idx) > 0 {
			b := newBackend()
			b.profs[1] = &profRec{id: 1, tag: b.nextTag()}
			b.profs[2] = &profRec{id: 2, tag: b.nextTag()}
			b.devs[1] = &devRec{id: 1, linked: 1, ded: []int{1}, human: 1, tag: b.nextTag()}
			b.devs[2] = &devRec{id: 2, tag: b.nextTag()}
			b.attach(1, 1)
			b.attach(2, 2)
			rng := rand.New(rand.NewPCG(1, 1))
			ops := []op{{kind: "sync", rs: b.response(rng, true)}}
			for _, i := range idx {
				switch {
				case i < len(muts):
					muts[i](b)
					rs := b.response(rng, false)
					sort.Slice(rs.profs, func(x, y int) bool { return rs.profs[x].id < rs.profs[y].id })
					ops = append(ops, op{kind: "sync", rs: rs})
				case i < len(muts)+len(looks):
					ops = append(ops, looks[i-len(muts)])
				default:
					ops = append(ops, op{kind: "flush"})
				}
			}
			ops = append(ops, op{kind: "flush"})
			ops = append(ops, looks...)
			ops = append(ops, op{kind: "snap"})
			layout = witnessLayouts()[count%2]
			h.runCase("exhaustive", ops, "none", true)
			count++
		}
		if len(idx) == depth {
			return
		}
		for i := 0; i < alphabet; i++ {
			idx = append(idx, i)
			rec()
			idx = idx[:len(idx)-1]
		}
	}
	rec()
	h.r.Exhaustive = true
	h.r.Notes = append(h.r.Notes, fmt.Sprintf("exhaustive: all %d sequences of ≤ %d steps over %d backend changes, %d look-ups and flush on 2 profiles × 2 devices × 1 linked IP × 1 dedicated IP × 1 human id", count, depth, len(muts), len(looks)))
}

// ---------------------------------------------------------------------------
// File cache: every field through Store/Load.

var tzNames = []string{"UTC", "Europe/Brussels", "America/New_York", "Asia/Tokyo"}

func randPrefixes(rng *rand.Rand) (out []netip.Prefix) {
	for k := rng.IntN(3); k > 0; k-- {
		if rng.IntN(5) == 0 {
			// IPv4-mapped IPv6: a 16-byte address that must stay one.
			out = append(out, netip.PrefixFrom(netip.AddrFrom16([16]byte{10: 0xff, 11: 0xff, 12: byte(rng.IntN(256)), 13: byte(rng.IntN(256))}), []int{96, 104, 112, 128}[rng.IntN(4)]))
		} else if rng.IntN(2) == 0 {
			out = append(out, netip.PrefixFrom(netip.AddrFrom4([4]byte{byte(rng.IntN(256)), byte(rng.IntN(256)), 0, 0}), []int{0, 8, 16, 24, 32}[rng.IntN(5)]))
		} else {
			out = append(out, netip.PrefixFrom(netip.AddrFrom16([16]byte{0x20, 0x01, byte(rng.IntN(256))}), []int{0, 32, 64, 128}[rng.IntN(4)]))
		}
	}

	return out
}

func randStrs[T ~string](rng *rand.Rand, pool ...string) (out []T) {
	for k := rng.IntN(3); k > 0; k-- {
		out = append(out, T(pool[rng.IntN(len(pool))]))
	}

	return out
}

func randTime(rng *rand.Rand) time.Time {
	switch rng.IntN(5) {
	case 0:
		return time.Time{}
	case 1:
		return time.Unix(0, 0)
	case 2:
		return time.Unix(-rng.Int64N(1<<33), rng.Int64N(1e9))
	default:
		return time.Unix(rng.Int64N(1<<34), rng.Int64N(1e9))
	}
}

func randDay(rng *rand.Rand) *filter.DayInterval {
	switch rng.IntN(4) {
	case 0:
		return nil
	case 1:
		return &filter.DayInterval{Start: 0, End: 1440}
	case 2:
		return &filter.DayInterval{Start: math.MaxUint16 - 1, End: math.MaxUint16}
	default:
		s := uint16(rng.IntN(1440))

		return &filter.DayInterval{Start: s, End: s + uint16(rng.IntN(1441-int(s)))}
	}
}

func (h *harness) randProfile(rng *rand.Rand, id string, devIDs []agd.DeviceID) *agd.Profile {
	bit := func() bool { return rng.IntN(2) == 0 }
	var sched *filter.ConfigSchedule
	if bit() {
		loc, err := agdtime.LoadLocation(tzNames[rng.IntN(len(tzNames))])
		if err != nil {
			loc, err = agdtime.LoadLocation("UTC")
			hlib.Must(err)
			h.r.Count("cache:tz-unavailable")
		}
		sched = &filter.ConfigSchedule{Week: &filter.WeeklySchedule{}, TimeZone: loc}
		for i := range sched.Week {
			sched.Week[i] = randDay(rng)
		}
		h.r.Count("cache:schedule")
	}
	var acc access.Profile = access.EmptyProfile{}
	if bit() {
		var a1, a2 []geoip.ASN
		for k := rng.IntN(3); k > 0; k-- {
			a1 = append(a1, geoip.ASN(rng.Uint32()))
		}
		for k := rng.IntN(3); k > 0; k-- {
			a2 = append(a2, geoip.ASN(rng.IntN(3)))
		}
		acc = access.NewDefaultProfile(&access.ProfileConfig{
			AllowedNets: randPrefixes(rng), BlockedNets: randPrefixes(rng), AllowedASN: a1, BlockedASN: a2,
			BlocklistDomainRules: randStrs[string](rng, "block.test", "||x.example^", ""),
		})
		h.r.Count("cache:access-default")
	}
	var bm dnsmsg.BlockingMode
	switch rng.IntN(8) {
	case 0:
		bm = &dnsmsg.BlockingModeNXDOMAIN{}
	case 1:
		bm = &dnsmsg.BlockingModeREFUSED{}
	case 2:
		bm = &dnsmsg.BlockingModeCustomIP{IPv4: []netip.Addr{netip.MustParseAddr("1.2.3.4")}}
	case 3:
		bm = &dnsmsg.BlockingModeCustomIP{IPv6: []netip.Addr{netip.MustParseAddr("2001:db8::1")}}
	case 4:
		bm = &dnsmsg.BlockingModeCustomIP{IPv4: []netip.Addr{netip.MustParseAddr("0.0.0.0")}, IPv6: []netip.Addr{netip.MustParseAddr("::ffff:1.2.3.4")}}
	case 5, 6:
		// Whatever addresses backendpb accepts for the two fields (it does not
		// look at the family): zoned, IPv4-mapped, unspecified ones included.
		c := &dnsmsg.BlockingModeCustomIP{}
		for k := rng.IntN(3); k > 0; k-- {
			c.IPv4 = append(c.IPv4, univAddr(rng.IntN(2), rng.IntN(nFlavour), rng.IntN(nHost)))
		}
		for k := rng.IntN(3); k > 0; k-- {
			c.IPv6 = append(c.IPv6, univAddr(rng.IntN(2), rng.IntN(nFlavour), rng.IntN(nHost)))
		}
		if len(c.IPv4)+len(c.IPv6) == 0 {
			c.IPv6 = []netip.Addr{univAddr(0, flV6Eth0, 1)}
		}
		for _, cl := range addrClasses(append(slices.Clone(c.IPv4), c.IPv6...)) {
			h.r.Count("cache:custom-blocking-ip-" + cl)
		}
		bm = c
	default:
		bm = &dnsmsg.BlockingModeNullIP{}
	}
	h.r.Count(fmt.Sprintf("cache:blocking-mode:%T", bm))
	var rl agd.Ratelimiter = agd.GlobalRatelimiter{}
	if bit() {
		rl = agd.NewDefaultRatelimiter(&agd.RatelimitConfig{ClientSubnets: randPrefixes(rng), RPS: []uint32{0, 1, 100, 5000, 65537}[rng.IntN(5)], Enabled: true}, respSzEst)
		h.r.Count("cache:ratelimiter-default")
	}
	ttl := []time.Duration{0, 1, time.Second, 10*time.Second + 5, -1, -1500 * time.Millisecond, math.MaxInt64, math.MinInt64}[rng.IntN(8)]

	return &agd.Profile{
		FilterConfig: &filter.ConfigClient{
			Custom: &filter.ConfigCustom{ID: id, UpdateTime: randTime(rng), Rules: randStrs[filter.RuleText](rng, "||a.example^", "@@b", "é.example", ""), Enabled: bit()},
			Parental: &filter.ConfigParental{
				PauseSchedule: sched, BlockedServices: randStrs[filter.BlockedServiceID](rng, "svc1", "svc2"),
				Enabled: bit(), AdultBlockingEnabled: bit(), SafeSearchGeneralEnabled: bit(), SafeSearchYouTubeEnabled: bit(),
			},
			RuleList:     &filter.ConfigRuleList{IDs: randStrs[filter.ID](rng, "adguard_dns_filter", "list2"), Enabled: bit()},
			SafeBrowsing: &filter.ConfigSafeBrowsing{Enabled: bit(), DangerousDomainsEnabled: bit(), NewlyRegisteredDomainsEnabled: bit()},
		},
		Access: acc, BlockingMode: bm, Ratelimiter: rl, ID: agd.ProfileID(id), DeviceIDs: devIDs, FilteredResponseTTL: ttl,
		AutoDevicesEnabled: bit(), BlockChromePrefetch: bit(), BlockFirefoxCanary: bit(), BlockPrivateRelay: bit(),
		Deleted: bit(), FilteringEnabled: bit(), IPLogEnabled: bit(), QueryLogEnabled: bit(),
	}
}

// randDevice generates a device as `backendpb` can produce it.  authLine is the
// model's `rtauth` op for its authentication settings.
func (h *harness) randDevice(rng *rand.Rand, id string, n int, usedL, usedD map[netip.Addr]bool) (d *agd.Device, authLine string) {
	bit := func() bool { return rng.IntN(2) == 0 }
	auth := &agd.AuthSettings{Enabled: false, PasswordHash: agdpasswd.AllowAuthenticator{}}
	authLine = "rtauth 0 0 0"
	switch rng.IntN(3) {
	case 1:
		auth = &agd.AuthSettings{Enabled: true, DoHAuthOnly: bit(), PasswordHash: agdpasswd.AllowAuthenticator{}}
		authLine = fmt.Sprintf("rtauth 1 %s 0", b01(auth.DoHAuthOnly))
		h.r.Count("cache:auth-enabled-no-password")
	case 2:
		hash := 1 + rng.IntN(200)
		auth = &agd.AuthSettings{Enabled: true, DoHAuthOnly: bit(), PasswordHash: agdpasswd.NewPasswordHashBcrypt([]byte{byte(hash)})}
		authLine = fmt.Sprintf("rtauth 1 %s %d", b01(auth.DoHAuthOnly), hash)
		h.r.Count("cache:auth-enabled-bcrypt")
	default:
		h.r.Count("cache:auth-disabled")
	}
	var linked netip.Addr
	switch rng.IntN(8) {
	case 0:
	case 1:
		linked = netip.AddrFrom4([4]byte{192, 0, 2, 100 + byte(n)})
	case 2:
		linked = netip.AddrFrom16([16]byte{0x20, 0x01, 0xd, 0xb8, 15: byte(n)})
	case 3:
		linked = netip.AddrFrom16([16]byte{10: 0xff, 11: 0xff, 12: 10, 15: byte(n)})
	default:
		// A value from the universe of twins that no other device of this
		// cache has.
		for try := 0; try < 20 && (!linked.IsValid() || usedL[linked]); try++ {
			linked = univAddr(0, rng.IntN(nFlavour), rng.IntN(nHost))
		}
		if usedL[linked] {
			linked = netip.Addr{}
		}
	}
	usedL[linked] = true
	var ded []netip.Addr
	for k := rng.IntN(4); k > 0; k-- {
		var a netip.Addr
		switch rng.IntN(6) {
		case 0:
			a = netip.AddrFrom4([4]byte{198, 51, byte(n), byte(k)})
		case 1:
			a = netip.AddrFrom16([16]byte{0x20, 0x01, 0xd, 0xb8, 2, 14: byte(n), 15: byte(k)})
		case 2:
			a = netip.AddrFrom16([16]byte{10: 0xff, 11: 0xff, 12: 198, 13: 51, 14: byte(n), 15: byte(k)})
		default:
			for try := 0; try < 20 && (!a.IsValid() || usedD[a]); try++ {
				a = univAddr(rng.IntN(2), rng.IntN(nFlavour), rng.IntN(nHost))
			}
		}
		if a.IsValid() && !usedD[a] {
			usedD[a] = true
			ded = append(ded, a)
		}
	}
	human := agd.HumanIDLower("")
	if bit() {
		human = agd.HumanIDLower(fmt.Sprintf("hum-%d", n))
	}

	return &agd.Device{
		Auth: auth, ID: agd.DeviceID(id), LinkedIP: linked, Name: agd.DeviceName([]string{"", "dev", "имя устройства"}[rng.IntN(3)]),
		HumanIDLower: human, DedicatedIPs: ded, FilteringEnabled: bit(),
	}, authLine
}

func canonPrefixes(ps []netip.Prefix) string {
	var s []string
	for _, p := range ps {
		s = append(s, fmt.Sprintf("%s/%d", p.Addr(), p.Bits()))
	}

	return "[" + strings.Join(s, " ") + "]"
}

// canonProfile renders every setting of a profile.
func canonProfile(p *agd.Profile) string {
	var sb strings.Builder
	c := p.FilterConfig
	fmt.Fprintf(&sb, "custom{%q %d %q %t} ", c.Custom.ID, c.Custom.UpdateTime.UnixNano(), c.Custom.Rules, c.Custom.Enabled)
	if c.Custom.UpdateTime.IsZero() {
		sb.WriteString("updzero ")
	}
	pa := c.Parental
	sb.WriteString("parental{")
	if s := pa.PauseSchedule; s == nil {
		sb.WriteString("nosched")
	} else {
		fmt.Fprintf(&sb, "tz=%s", s.TimeZone)
		for i, d := range s.Week {
			if d == nil {
				fmt.Fprintf(&sb, " %d:nil", i)
			} else {
				fmt.Fprintf(&sb, " %d:%d-%d", i, d.Start, d.End)
			}
		}
	}
	fmt.Fprintf(&sb, " %q %t %t %t %t} ", pa.BlockedServices, pa.Enabled, pa.AdultBlockingEnabled, pa.SafeSearchGeneralEnabled, pa.SafeSearchYouTubeEnabled)
	fmt.Fprintf(&sb, "rulelist{%q %t} ", c.RuleList.IDs, c.RuleList.Enabled)
	fmt.Fprintf(&sb, "sb{%t %t %t} ", c.SafeBrowsing.Enabled, c.SafeBrowsing.DangerousDomainsEnabled, c.SafeBrowsing.NewlyRegisteredDomainsEnabled)
	if ac := p.Access.Config(); ac == nil {
		fmt.Fprintf(&sb, "access{%T} ", p.Access)
	} else {
		fmt.Fprintf(&sb, "access{%T %s %s %v %v %q} ", p.Access, canonPrefixes(ac.AllowedNets), canonPrefixes(ac.BlockedNets), ac.AllowedASN, ac.BlockedASN, ac.BlocklistDomainRules)
	}
	switch m := p.BlockingMode.(type) {
	case *dnsmsg.BlockingModeCustomIP:
		fmt.Fprintf(&sb, "bm{custom %v %v} ", m.IPv4, m.IPv6)
	default:
		fmt.Fprintf(&sb, "bm{%T} ", m)
	}
	rc := p.Ratelimiter.Config()
	fmt.Fprintf(&sb, "rl{%T %s %d %t} ", p.Ratelimiter, canonPrefixes(rc.ClientSubnets), rc.RPS, rc.Enabled)
	fmt.Fprintf(&sb, "id=%q devs=%q ttl=%d flags=%t,%t,%t,%t,%t,%t,%t,%t", p.ID, p.DeviceIDs, int64(p.FilteredResponseTTL),
		p.AutoDevicesEnabled, p.BlockChromePrefetch, p.BlockFirefoxCanary, p.BlockPrivateRelay, p.Deleted, p.FilteringEnabled, p.IPLogEnabled, p.QueryLogEnabled)

	return sb.String()
}

func canonAuth(a *agd.AuthSettings) string {
	if a == nil {
		return "auth{nil}"
	}
	pw := ""
	switch p := a.PasswordHash.(type) {
	case nil:
		pw = "NIL-AUTHENTICATOR"
	case agdpasswd.AllowAuthenticator:
		pw = "allow"
	case *agdpasswd.PasswordHashBcrypt:
		pw = fmt.Sprintf("bcrypt:%x", p.PasswordHash())
	default:
		pw = fmt.Sprintf("%T", p)
	}

	return fmt.Sprintf("auth{%t %t %s}", a.Enabled, a.DoHAuthOnly, pw)
}

// authModelText renders the authentication settings like the model's `rtauth`.
func authModelText(a *agd.AuthSettings) string {
	pw := "?"
	switch p := a.PasswordHash.(type) {
	case nil:
		pw = "nil"
	case agdpasswd.AllowAuthenticator:
		pw = "0"
	case *agdpasswd.PasswordHashBcrypt:
		pw = fmt.Sprint(int(p.PasswordHash()[0]))
	}

	return fmt.Sprintf("%s %s %s", b01(a.Enabled), b01(a.DoHAuthOnly), pw)
}

func canonDevice(d *agd.Device) string {
	return fmt.Sprintf("%s id=%q linked=%s name=%q human=%q ded=%v flt=%t", canonAuth(d.Auth), d.ID, d.LinkedIP, d.Name, d.HumanIDLower, d.DedicatedIPs, d.FilteringEnabled)
}

// addrCodecCampaign compares the model of netip.Addr's binary form with netip
// itself: every address of the universes, the zero value, and byte strings of
// every length up to 40 (the lengths UnmarshalBinary rejects included).
func (h *harness) addrCodecCampaign() {
	rng := h.o.Rand("addrcodec")
	var inputs [][]byte
	inputs = append(inputs, nil)
	for f := 0; f < nFlavour; f++ {
		for x := 0; x < nHost; x++ {
			inputs = append(inputs, ipBytes(univAddr(0, f, x)), ipBytes(univAddr(1, f, x)))
		}
	}
	n := 300
	if h.o.Thorough() {
		n = 3000
	}
	for k := 0; k < n; k++ {
		b := make([]byte, k%41)
		for i := range b {
			b[i] = byte(rng.IntN(256))
		}
		inputs = append(inputs, b)
	}
	var lines, want []string
	for _, b := range inputs {
		lines = append(lines, addrLine("addr", b))
		var a netip.Addr
		if err := a.UnmarshalBinary(b); err != nil {
			want = append(want, "err")
			h.r.Count("addrcodec:rejected-length")

			continue
		}
		back, _ := a.MarshalBinary()
		want = append(want, addrText(a)+" | "+dotsOf(back))
		switch {
		case !a.IsValid():
			h.r.Count("addrcodec:zero")
		case a.Zone() != "":
			h.r.Count("addrcodec:zoned")
		case a.Is4():
			h.r.Count("addrcodec:ipv4")
		default:
			h.r.Count("addrcodec:ipv6")
		}
	}
	ans := h.m.Batch(lines)
	h.r.ModelOps += len(lines)
	for k := range lines {
		if ans[k] != want[k] {
			h.r.Disagree("model-vs-netip", fmt.Sprintf("%q: model %q, netip %q", lines[k], ans[k], want[k]), map[string]any{"campaign": "addrcodec", "line": lines[k]})

			break
		}
	}
	h.r.Traces++
}

func dotsOf(b []byte) string {
	if len(b) == 0 {
		return "-"
	}
	parts := make([]string, len(b))
	for i, x := range b {
		parts[i] = fmt.Sprint(x)
	}

	return strings.Join(parts, ".")
}

func (h *harness) roundTripCampaign() {
	debug.SetGCPercent(100)
	h.addrCodecCampaign()
	rng := h.o.Rand("roundtrip")
	n := 1000
	if h.o.Thorough() {
		n = 8000
	}
	ctx := context.Background()
	l := slogutil.NewDiscardLogger()
	path := filepath.Join(h.dir, "rt.pb")
	// A custom limiter does not keep the Enabled flag it was built with
	// (Config() reports true): both come back from the cache as custom limiters.
	for _, en := range []bool{false, true} {
		p := profRec{id: 1, devs: []int{1}, tag: 1}.real()
		p.Ratelimiter = agd.NewDefaultRatelimiter(&agd.RatelimitConfig{RPS: 1, Enabled: en}, respSzEst)
		c := &profiledb.VerifC14FileCache{SyncTime: timeOf(1), Version: cacheVerOK, Profiles: []*agd.Profile{p}, Devices: []*agd.Device{devRec{id: 1}.real()}}
		hlib.Must(profiledb.VerifC14StoreCache(ctx, l, path, c, respSzEst))
		got, err := profiledb.VerifC14LoadCache(ctx, l, path, respSzEst)
		hlib.Must(err)
		impl := "default"
		if _, ok := got.Profiles[0].Ratelimiter.(agd.GlobalRatelimiter); ok {
			impl = "global"
		}
		line := "rtrate " + b01(en)
		if ans := h.m.Batch([]string{line}); ans[0] != impl {
			h.r.Disagree("model-vs-filecache", fmt.Sprintf("%q: model %q, implementation %q", line, ans[0], impl), nil)
		}
		h.r.Count("cache:ratelimiter-custom-enabled-" + b01(en))
	}
	for i := 0; i < n; i++ {
		np, nd := rng.IntN(3), rng.IntN(4)
		if rng.IntN(4) != 0 {
			np, nd = 1+rng.IntN(3), 1+rng.IntN(4)
		}
		c := &profiledb.VerifC14FileCache{SyncTime: randTime(rng), Version: cacheVerOK}
		var lines, want, alines, awant []string
		perProf := make([][]agd.DeviceID, max(np, 1))
		usedL, usedD := map[netip.Addr]bool{}, map[netip.Addr]bool{}
		for k := 0; k < nd; k++ {
			id := fmt.Sprintf("dev%d", k)
			d, line := h.randDevice(rng, id, k+1, usedL, usedD)
			c.Devices = append(c.Devices, d)
			lines = append(lines, line)
			pi := rng.IntN(len(perProf))
			perProf[pi] = append(perProf[pi], d.ID)
		}
		for k := 0; k < np; k++ {
			c.Profiles = append(c.Profiles, h.randProfile(rng, fmt.Sprintf("prof%d", k), perProf[k]))
		}
		ver := int32(cacheVerOK)
		if rng.IntN(5) == 0 {
			ver = []int32{0, 1, cacheVerOK - 1, cacheVerOK + 1, math.MaxInt32, -1}[rng.IntN(6)]
		}
		c.Version = ver
		_ = os.Remove(path)
		func() {
			defer func() {
				if v := recover(); v != nil {
					h.r.Violate("filecache-panic", fmt.Sprintf("Store/Load panicked: %v", v), nil)
				}
			}()
			err := profiledb.VerifC14StoreCache(ctx, l, path, c, respSzEst)
			if err != nil {
				h.r.Violate("filecache-store-error", fmt.Sprintf("Store failed on a cache the backend converter can produce: %v", err), nil)

				return
			}
			got, err := profiledb.VerifC14LoadCache(ctx, l, path, respSzEst)
			authLines := lines
			lines = nil
			if ver != cacheVerOK {
				h.r.Count("cache:version-mismatch")
				if !profiledb.VerifC14IsCacheVersionError(err) {
					h.r.Violate("filecache-version-not-checked", fmt.Sprintf("cache of version %d was not rejected (err=%v)", ver, err), nil)
				}
				if ver >= 0 {
					lines = append(lines, fmt.Sprintf("load %d %d %d", ver, np, nd))
					want = append(want, "version")
				}
			} else if err != nil || got == nil {
				h.r.Violate("filecache-load-error", fmt.Sprintf("Load failed: %v", err), nil)

				return
			} else {
				h.r.Count("cache:round-trips")
				if len(got.Profiles) != np || len(got.Devices) != nd || !got.SyncTime.Equal(c.SyncTime) || got.Version != ver {
					h.r.Violate("filecache-roundtrip-shape", "number of records, sync time or version changed through the cache", nil)

					return
				}
				for k, p := range c.Profiles {
					if a, b := canonProfile(p), canonProfile(got.Profiles[k]); a != b {
						h.r.Violate("filecache-roundtrip-profile-setting-lost", fmt.Sprintf("profile changed through the file cache:\n stored %s\n loaded %s", a, b),
							map[string]any{"campaign": "roundtrip", "case": i, "stored": a, "loaded": b, "how": "VerifC14StoreCache then VerifC14LoadCache on this profile"})
					}
					if what, bad := h.rlCheck(got.Profiles[k].Ratelimiter, respSzEst, "cache"); bad {
						h.r.Violate("filecache-roundtrip-ratelimiter-behaviour-differs", "profile read from the file cache: "+what,
							map[string]any{"campaign": "roundtrip", "case": i, "stored": canonProfile(p), "how": "VerifC14StoreCache then VerifC14LoadCache (response size estimate " + respSzEst.String() + ") on this profile, then CountResponses / Check on its rate limiter"})
					}
				}
				lines = append(authLines, fmt.Sprintf("load %d %d %d", ver, np, nd))
				// Every address of the cache: what the model says its binary
				// form reads back as, against what came back.
				addrPair := func(stored, loaded netip.Addr) {
					alines = append(alines, addrLine("rtaddr", ipBytes(stored)))
					awant = append(awant, addrText(loaded)+" | …")
					for _, cl := range addrClasses([]netip.Addr{stored}) {
						h.r.Count("cache:address-" + cl)
					}
				}
				for k, p := range c.Profiles {
					m, ok := p.BlockingMode.(*dnsmsg.BlockingModeCustomIP)
					m2, ok2 := got.Profiles[k].BlockingMode.(*dnsmsg.BlockingModeCustomIP)
					if ok && ok2 && len(m.IPv4) == len(m2.IPv4) && len(m.IPv6) == len(m2.IPv6) {
						for j := range m.IPv4 {
							addrPair(m.IPv4[j], m2.IPv4[j])
						}
						for j := range m.IPv6 {
							addrPair(m.IPv6[j], m2.IPv6[j])
						}
					}
				}
				for k, d := range c.Devices {
					if g := got.Devices[k]; len(g.DedicatedIPs) == len(d.DedicatedIPs) {
						addrPair(d.LinkedIP, g.LinkedIP)
						for j := range d.DedicatedIPs {
							addrPair(d.DedicatedIPs[j], g.DedicatedIPs[j])
						}
					}
				}
				for k, d := range c.Devices {
					a, b := canonDevice(d), canonDevice(got.Devices[k])
					want = append(want, authModelText(got.Devices[k].Auth))
					if a != b {
						sig := "filecache-roundtrip-device-setting-lost"
						if got.Devices[k].Auth != nil && got.Devices[k].Auth.PasswordHash == nil {
							sig = "filecache-auth-enabled-without-password-loads-nil-authenticator"
						}
						h.r.Violate(sig, fmt.Sprintf("device changed through the file cache:\n stored %s\n loaded %s", a, b),
							map[string]any{"campaign": "roundtrip", "case": i, "stored": a, "loaded": b, "how": "VerifC14StoreCache then VerifC14LoadCache on this device"})
					}
				}
			}
			// The database opened on this file: loaded or ignored as the rule says.
			x := newRealDB(path)
			s := x.db.VerifC14Snapshot()
			wantLoaded := ver == cacheVerOK && np > 0 && nd > 0
			if ver == cacheVerOK {
				// What the database did with the file, as observed.
				if len(s.Profiles) > 0 || len(s.Devices) > 0 {
					want = append(want, "loaded")
				} else {
					want = append(want, "empty")
				}
			} else if len(s.Profiles) > 0 || len(s.Devices) > 0 {
				h.r.Violate("filecache-version-not-checked", fmt.Sprintf("database loaded a cache of version %d", ver), nil)
			}
			if wantLoaded && (len(s.Profiles) != np || len(s.Devices) != nd) {
				h.r.Violate("restart-lookup-lost", fmt.Sprintf("%d profiles, %d devices in the cache, %d and %d in the database after start", np, nd, len(s.Profiles), len(s.Devices)), nil)
			}
			if wantLoaded {
				for k, d := range c.Devices {
					p2, d2, err := x.db.ProfileByDeviceID(ctx, d.ID)
					owner := -1
					for pi, ids := range perProf[:np] {
						if slices.Contains(ids, d.ID) {
							owner = pi
						}
					}
					if owner < 0 {
						continue
					}
					if err != nil {
						h.r.Violate("restart-lookup-lost", fmt.Sprintf("device %s of profile %d not found after restart: %v", d.ID, owner, err), nil)
					} else if canonDevice(d2) != canonDevice(got.Devices[k]) || canonProfile(p2) != canonProfile(got.Profiles[owner]) {
						h.r.Violate("restart-lookup-differs", "look-up after restart returns other settings than the cache holds", nil)
					} else if what, bad := h.rlCheck(p2.Ratelimiter, respSzEst, "cache:restart"); bad {
						h.r.Violate("restart-ratelimiter-behaviour-differs", "profile returned by a look-up after a restart from the cache (profiledb.New with ResponseSizeEstimate "+respSzEst.String()+"): "+what,
							map[string]any{"campaign": "roundtrip", "case": i, "stored": canonProfile(c.Profiles[owner]), "how": "VerifC14StoreCache, profiledb.New on the file, ProfileByDeviceID, then CountResponses / Check on the profile's rate limiter"})
					}
					// The same through the three other indexes, by the keys the
					// device had when the cache was written.
					replay := map[string]any{"campaign": "roundtrip", "case": i, "stored": canonDevice(d),
						"how": "VerifC14StoreCache of a cache with this device (listed by profile " + string(c.Profiles[owner].ID) + "), profiledb.New on the file, then the look-up"}
					byKey := func(what string, key any, p3 *agd.Profile, d3 *agd.Device, err error) {
						h.r.Evaluations++
						switch {
						case err != nil:
							h.r.Violate("restart-lookup-lost", fmt.Sprintf("%s(%v) after a restart from the cache: %v; device %s owned the key when the cache was written", what, key, err, d.ID), replay)
						case d3.ID != d.ID || p3.ID != c.Profiles[owner].ID:
							h.r.Violate("restart-lookup-differs", fmt.Sprintf("%s(%v) after a restart from the cache returns (%s, %s); (%s, %s) owned the key when the cache was written", what, key, p3.ID, d3.ID, c.Profiles[owner].ID, d.ID), replay)
						case canonDevice(d3) != canonDevice(d):
							h.r.Violate("restart-lookup-differs", fmt.Sprintf("%s(%v) after a restart from the cache returns the device with other settings:\n stored %s\n found  %s", what, key, canonDevice(d), canonDevice(d3)), replay)
						}
					}
					if d.LinkedIP.IsValid() {
						p3, d3, err := x.db.ProfileByLinkedIP(ctx, d.LinkedIP)
						byKey("ProfileByLinkedIP", d.LinkedIP, p3, d3, err)
					}
					for _, ip := range d.DedicatedIPs {
						p3, d3, err := x.db.ProfileByDedicatedIP(ctx, ip)
						byKey("ProfileByDedicatedIP", ip, p3, d3, err)
					}
					if d.HumanIDLower != "" {
						p3, d3, err := x.db.ProfileByHumanID(ctx, c.Profiles[owner].ID, d.HumanIDLower)
						byKey("ProfileByHumanID", d.HumanIDLower, p3, d3, err)
					}
				}
				// Keys nobody owned when the cache was written — every twin of an
				// owned address in particular — are not found.
				if len(perProf) == np {
					for f := 0; f < nFlavour; f++ {
						for xh := 0; xh < nHost; xh++ {
							for pool := 0; pool < 2; pool++ {
								a := univAddr(pool, f, xh)
								if !usedL[a] {
									h.r.Evaluations++
									if p3, d3, err := x.db.ProfileByLinkedIP(ctx, a); err == nil {
										h.r.Violate("restart-lookup-found-but-unowned", fmt.Sprintf("ProfileByLinkedIP(%s) after a restart from the cache returns (%s, %s, linked IP %v); no device of the cache had this linked IP", a, p3.ID, d3.ID, d3.LinkedIP),
											map[string]any{"campaign": "roundtrip", "case": i, "found": canonDevice(d3), "how": "VerifC14StoreCache, profiledb.New on the file, ProfileByLinkedIP"})
									}
								}
								if !usedD[a] {
									h.r.Evaluations++
									if p3, d3, err := x.db.ProfileByDedicatedIP(ctx, a); err == nil {
										h.r.Violate("restart-lookup-found-but-unowned", fmt.Sprintf("ProfileByDedicatedIP(%s) after a restart from the cache returns (%s, %s, dedicated IPs %v); no device of the cache had this dedicated IP", a, p3.ID, d3.ID, d3.DedicatedIPs),
											map[string]any{"campaign": "roundtrip", "case": i, "found": canonDevice(d3), "how": "VerifC14StoreCache, profiledb.New on the file, ProfileByDedicatedIP"})
									}
								}
							}
						}
					}
				}
			}
			lines, want = append(lines, alines...), append(want, awant...)
			ans := h.m.Batch(lines)
			h.r.ModelOps += len(lines)
			for k := range lines {
				if pre, ok := strings.CutSuffix(want[k], "…"); ok && strings.HasPrefix(ans[k], pre) {
					continue
				}
				if ans[k] != want[k] {
					h.r.Disagree("model-vs-filecache", fmt.Sprintf("%q: model %q, implementation %q", lines[k], ans[k], want[k]),
						map[string]any{"campaign": "roundtrip", "case": i, "line": lines[k]})
				}
			}
			var canon []string
			for _, p := range c.Profiles {
				canon = append(canon, canonProfile(p))
			}
			for _, d := range c.Devices {
				canon = append(canon, canonDevice(d))
			}
			h.r.Case(fmt.Sprintf("v%d\n%s", ver, strings.Join(canon, "\n")), np > 0 && nd > 0)
			h.r.Traces++
			if np > 0 && nd > 0 {
				h.r.Sample(map[string]any{"campaign": "roundtrip", "version": ver, "device0": canonDevice(c.Devices[0])}, 8)
			}
		}()
	}
}

// ---------------------------------------------------------------------------
// Kill points during Store.

func killCache(which int) *profiledb.VerifC14FileCache {
	c := &profiledb.VerifC14FileCache{SyncTime: time.Unix(int64(1000+which), 0), Version: cacheVerOK}
	n := 200 + 1800*which
	ids := make([]agd.DeviceID, 0, n)
	for i := 0; i < n; i++ {
		d := devRec{id: i, tag: which}.real()
		d.ID = agd.DeviceID(fmt.Sprintf("k%d", i))
		ids = append(ids, d.ID)
		c.Devices = append(c.Devices, d)
	}
	p := profRec{id: 1, tag: which}.real()
	p.DeviceIDs = ids
	c.Profiles = []*agd.Profile{p}

	return c
}

// storeChild stores two different caches alternately until killed.
func storeChild(path string) {
	ctx := context.Background()
	l := slogutil.NewDiscardLogger()
	caches := []*profiledb.VerifC14FileCache{killCache(0), killCache(1)}
	for i := 0; ; i++ {
		if err := profiledb.VerifC14StoreCache(ctx, l, path, caches[i%2], respSzEst); err != nil {
			os.Exit(3)
		}
	}
}

func (h *harness) killCampaign() {
	// The schedule campaigns switch the collector off inside a case.
	debug.SetGCPercent(100)
	rng := h.o.Rand("kill")
	n := 6
	if h.o.Thorough() {
		n = 60
	}
	ctx := context.Background()
	l := slogutil.NewDiscardLogger()
	exe, err := os.Executable()
	hlib.Must(err)
	path := filepath.Join(h.dir, "kill", "cache.pb")
	hlib.Must(os.MkdirAll(filepath.Dir(path), 0o700))
	for i := 0; i < n; i++ {
		cmd := exec.Command(exe)
		cmd.Env = append(os.Environ(), envChild+"="+path)
		var stderr bytes.Buffer
		cmd.Stderr = &stderr
		hlib.Must(cmd.Start())
		// While the child replaces the file over and over, a concurrent reader
		// must see an intact old or new content every time: the states a kill
		// could leave behind are exactly the states a reader can observe.
		deadline := time.Now().Add(time.Duration(20+rng.IntN(60)) * time.Millisecond)
		for time.Now().Before(deadline) {
			c, lerr := profiledb.VerifC14LoadCache(ctx, l, path, respSzEst)
			switch {
			case lerr != nil:
				h.r.Violate("store-not-atomic-reader-sees-partial-cache", fmt.Sprintf("a reader concurrent with Store could not read the cache: %v", lerr),
					map[string]any{"campaign": "kill", "how": "one process calls Storage.Store in a loop, another calls Storage.Load"})
			case c == nil:
				h.r.Count("kill:reader-no-file-yet")
			default:
				which := int(c.SyncTime.Unix() - 1000)
				if which < 0 || which > 1 || len(c.Devices) != 200+1800*which || len(c.Profiles) != 1 || len(c.Profiles[0].DeviceIDs) != len(c.Devices) {
					h.r.Violate("store-not-atomic-reader-sees-partial-cache", fmt.Sprintf("a reader concurrent with Store saw a cache that is neither the old nor the new content (sync time %v, %d devices)", c.SyncTime, len(c.Devices)),
						map[string]any{"campaign": "kill", "how": "one process calls Storage.Store in a loop, another calls Storage.Load"})
				}
				h.r.Count("kill:reader-intact")
			}
			h.r.Evaluations++
			time.Sleep(200 * time.Microsecond)
		}
		_ = cmd.Process.Signal(syscall.SIGKILL)
		_ = cmd.Wait()
		c, err := profiledb.VerifC14LoadCache(ctx, l, path, respSzEst)
		switch {
		case err != nil:
			h.r.Violate("store-kill-leaves-unreadable-cache", fmt.Sprintf("cache unreadable after SIGKILL during Store: %v", err), nil)
		case c == nil:
			h.r.Count("kill:no-file-yet")
		default:
			which := int(c.SyncTime.Unix() - 1000)
			if which < 0 || which > 1 || len(c.Devices) != 200+1800*which || len(c.Profiles) != 1 || len(c.Profiles[0].DeviceIDs) != len(c.Devices) {
				h.r.Violate("store-kill-leaves-mixed-cache", fmt.Sprintf("cache after SIGKILL is neither the old nor the new content (sync time %v, %d devices)", c.SyncTime, len(c.Devices)), nil)
			}
			h.r.Count(fmt.Sprintf("kill:intact-content-%d", which))
		}
		h.r.Evaluations++
	}
}
