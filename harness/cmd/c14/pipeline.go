package main

import (
	"context"
	"fmt"
	"math/rand/v2"
	"net"
	"net/netip"
	"net/url"
	"os"
	"path/filepath"
	"runtime/debug"
	"slices"
	"sort"
	"strconv"
	"time"

	"github.com/AdguardTeam/AdGuardDNS/internal/agd"
	"github.com/AdguardTeam/AdGuardDNS/internal/agdpasswd"
	"github.com/AdguardTeam/AdGuardDNS/internal/backendpb"
	"github.com/AdguardTeam/AdGuardDNS/internal/profiledb"
	"github.com/AdguardTeam/golibs/logutil/slogutil"
	"github.com/AdguardTeam/golibs/netutil"
	"github.com/c2h5oh/datasize"
	"google.golang.org/grpc"
	"google.golang.org/grpc/codes"
	"google.golang.org/grpc/credentials/insecure"
	"google.golang.org/grpc/metadata"
	"google.golang.org/grpc/status"
	"google.golang.org/protobuf/types/known/durationpb"
)

// Pipeline campaign: the whole production path from the wire to the look-up.
// An in-process gRPC backend (the time-honouring backend of the protocol
// campaign, plus devices this server must reject) is read by the real
// backendpb.ProfileStorage (request encoding, DNSProfile/DeviceSettings
// conversion, sync_time trailer) into the real profiledb.Default with a real
// cache file; look-ups are checked against the backend's current state.  The
// clean-up goroutines run whenever they like here: the property does not
// depend on their timing, so the oracle needs no schedule control (there is no
// model comparison in this campaign).

type pipeServer struct {
	backendpb.UnimplementedDNSServiceServer

	pb        *pbackend
	fail      bool
	lastSince int
	served    *resp
	calls     int
}

func ipBytes(a netip.Addr) []byte {
	if !a.IsValid() {
		return nil
	}
	b, _ := a.MarshalBinary()

	return b
}

// outsideBind is a dedicated address no listener of this server is bound to.
var outsideBind = netip.MustParseAddr("203.0.113.9")

func (d devRec) wire() *backendpb.DeviceSettings {
	ds := &backendpb.DeviceSettings{
		Id:               string(didStr(d.id)),
		Name:             fmt.Sprintf("n%d", d.tag),
		FilteringEnabled: d.tag&1 != 0,
		LinkedIp:         ipBytes(linkedAddr(d.linked)),
		HumanIdLower:     string(humStr(d.human)),
	}
	for _, ip := range d.ded {
		ds.DedicatedIps = append(ds.DedicatedIps, ipBytes(dedAddr(ip)))
	}
	if d.bad {
		ds.DedicatedIps = append(ds.DedicatedIps, ipBytes(outsideBind))
	}
	switch d.tag % 3 {
	case 1:
		ds.Authentication = &backendpb.AuthenticationSettings{DohAuthOnly: d.tag&2 != 0}
	case 2:
		ds.Authentication = &backendpb.AuthenticationSettings{
			DohAuthOnly: d.tag&2 != 0,
			DohPasswordHash: &backendpb.AuthenticationSettings_PasswordHashBcrypt{
				PasswordHashBcrypt: []byte{byte(d.tag)},
			},
		}
	}

	return ds
}

func (p profRec) wire(devs map[int]*devRec) *backendpb.DNSProfile {
	out := &backendpb.DNSProfile{
		DnsId:               string(pidStr(p.id)),
		Deleted:             p.deleted,
		AutoDevicesEnabled:  p.auto,
		FilteredResponseTtl: durationpb.New(time.Duration(p.tag)),
		FilteringEnabled:    p.tag&1 != 0,
		QueryLogEnabled:     p.tag&2 != 0,
		IpLogEnabled:        p.tag&4 != 0,
		BlockPrivateRelay:   p.tag&8 != 0,
		BlockFirefoxCanary:  p.tag&16 != 0,
		BlockChromePrefetch: p.tag&32 != 0,
	}
	for _, d := range p.devs {
		out.Devices = append(out.Devices, devs[d].wire())
	}

	return out
}

func (s *pipeServer) GetDNSProfiles(
	req *backendpb.DNSProfilesRequest,
	srv grpc.ServerStreamingServer[backendpb.DNSProfile],
) (err error) {
	s.calls++
	s.lastSince = timeNum(req.SyncTime.AsTime())
	if s.fail {
		return status.Error(codes.Unavailable, "verif: scripted backend failure")
	}
	rs := s.pb.respond(s.lastSince)
	s.served = &rs
	for _, p := range rs.profs {
		if err = srv.Send(p.wire(s.pb.b.devs)); err != nil {
			return err
		}
	}
	srv.SetTrailer(metadata.Pairs("sync_time", strconv.FormatInt((timeBase+int64(rs.t))*1000, 10)))

	return nil
}

// pipeReference is the backend's current state as this server must see it:
// devices it has to reject do not exist.
func pipeReference(pb *pbackend) *reference {
	ref := pb.reference()
	for did, d := range ref.devs {
		if d.bad {
			delete(ref.devs, did)
		}
	}
	for pid, p := range ref.profs {
		p.devs = slices.DeleteFunc(slices.Clone(p.devs), func(d int) bool { _, ok := ref.devs[d]; return !ok })
		ref.profs[pid] = p
	}

	return ref
}

func (h *harness) pipelineCampaign() {
	r := h.r
	debug.SetGCPercent(100)
	l, err := net.Listen("tcp", "127.0.0.1:0")
	if err != nil {
		r.Notes = append(r.Notes, "pipeline campaign skipped: cannot listen on loopback: "+err.Error())

		return
	}
	srv := &pipeServer{}
	gs := grpc.NewServer(grpc.ConnectionTimeout(1*time.Second), grpc.Creds(insecure.NewCredentials()))
	backendpb.RegisterDNSServiceServer(gs, srv)
	go func() { _ = gs.Serve(l) }()
	defer gs.Stop()

	bind := netutil.SliceSubnetSet{
		netip.MustParsePrefix("198.51.100.0/24"),
		netip.MustParsePrefix("2001:db8:100::/40"),
		netip.MustParsePrefix("::ffff:198.51.100.0/120"),
	}
	convErrs := &errColl{}
	ps, err := backendpb.NewProfileStorage(&backendpb.ProfileStorageConfig{
		BindSet:              bind,
		ErrColl:              convErrs,
		Logger:               slogutil.NewDiscardLogger(),
		GRPCMetrics:          backendpb.EmptyGRPCMetrics{},
		Metrics:              backendpb.EmptyProfileDBMetrics{},
		Endpoint:             &url.URL{Scheme: "grpc", Host: l.Addr().String()},
		ResponseSizeEstimate: respSzEst,
		MaxProfilesSize:      16 * datasize.MB,
	})
	if err != nil {
		r.Notes = append(r.Notes, "pipeline campaign skipped: "+err.Error())

		return
	}

	rng := h.o.Rand("pipeline")
	n := 250
	if h.o.Thorough() {
		n = 2500
	}
	path := filepath.Join(h.dir, "pipeline.pb")
	defer func() { timeBase = 1700000000 }()
	for i := 0; i < n; i++ {
		timeBase = 1700000000
		if rng.IntN(2) == 0 {
			timeBase = time.Now().Unix() - 1000
		}
		h.runPipelineCase(rng, srv, ps, path)
	}
}

func (h *harness) runPipelineCase(rng *rand.Rand, srv *pipeServer, ps *backendpb.ProfileStorage, path string) {
	r := h.r
	ctx := context.Background()
	_ = os.Remove(path)
	pb := newPBackend()
	srv.pb, srv.fail = pb, false
	var log []string
	reported := map[string]bool{}
	violate := func(sig, what string) {
		if reported[sig] {
			return
		}
		reported[sig] = true
		r.Violate("pipeline:"+sig, what, map[string]any{"campaign": "pipeline", "log": slices.Clone(log),
			"how": "gRPC backend -> backendpb.ProfileStorage -> profiledb.Default (cache file) -> look-ups; `sync` lines give the response served in the model's line format"})
	}
	var ec *errColl
	var mt *syncMetrics
	open := func() *realDB {
		ec, mt = &errColl{}, &syncMetrics{}
		db, err := profiledb.New(&profiledb.Config{
			Logger: slogutil.NewDiscardLogger(), Storage: ps, ErrColl: ec, Metrics: mt, CacheFilePath: path,
			FullSyncIvl: time.Hour, FullSyncRetryIvl: time.Hour, ResponseSizeEstimate: respSzEst,
		})
		if err != nil {
			panic(err)
		}

		return &realDB{db: db, mt: mt, ec: ec, st: &storage{}, path: path}
	}
	x := open()
	ref := newReference()
	var cacheRef *reference
	synced, afterRestart, injected := false, false, 0

	lookAll := func() {
		for _, o := range allLookups() {
			res := x.look(o.kind, o.a, o.b)
			log = append(log, o.line()+" -> "+res.kind+" "+res.pid+" "+res.did)
			h.oracle(ref, o, res, false, violate)
			r.Evaluations++
			own := ref.owners(o.kind, o.a, o.b)
			if res.kind != "ok" || len(own) != 1 || res.pid != string(pidStr(own[0].pid)) || res.did != string(didStr(own[0].did)) {
				continue
			}
			r.Count("pipeline:lookups-found")
			// Settings as converted by backendpb, independently re-derived
			// from the backend's records.
			p, d := ref.profs[own[0].pid], ref.devs[own[0].did]
			if res.p.FilteringEnabled != (p.tag&1 != 0) || res.p.QueryLogEnabled != (p.tag&2 != 0) || res.p.IPLogEnabled != (p.tag&4 != 0) ||
				res.p.BlockPrivateRelay != (p.tag&8 != 0) || res.p.BlockFirefoxCanary != (p.tag&16 != 0) || res.p.BlockChromePrefetch != (p.tag&32 != 0) {
				violate("profile-setting-lost", fmt.Sprintf("%s: the flags of profile %s differ from what the backend sent (tag %d)", o.line(), res.pid, p.tag))
			}
			if len(res.d.DedicatedIPs) == len(d.ded) {
				for k, ip := range d.ded {
					if res.d.DedicatedIPs[k] != dedAddr(ip) {
						violate("device-setting-lost", fmt.Sprintf("%s: dedicated IPs of %s differ", o.line(), res.did))
					}
				}
			}
			a := res.d.Auth
			switch {
			case a == nil || a.PasswordHash == nil:
				violate("device-auth-not-canonical", fmt.Sprintf("%s: device %s has nil authentication settings or a nil authenticator", o.line(), res.did))
			case res.d.FilteringEnabled != (d.tag&1 != 0):
				violate("device-setting-lost", fmt.Sprintf("%s: filtering flag of %s differs", o.line(), res.did))
			case a.Enabled != (d.tag%3 != 0) || (a.Enabled && a.DoHAuthOnly != (d.tag&2 != 0)):
				violate("device-setting-lost", fmt.Sprintf("%s: authentication settings of %s differ from what the backend sent (tag %d)", o.line(), res.did, d.tag))
			case !a.Enabled && (a.DoHAuthOnly || a.PasswordHash != agdpasswd.Authenticator(agdpasswd.AllowAuthenticator{})):
				violate("device-auth-not-canonical", fmt.Sprintf("%s: disabled authentication of %s is not (allow-all, no DoH-only)", o.line(), res.did))
			default:
				_, isAllow := a.PasswordHash.(agdpasswd.AllowAuthenticator)
				if isAllow != (d.tag%3 != 2) {
					violate("device-setting-lost", fmt.Sprintf("%s: password hash of %s differs from what the backend sent (tag %d)", o.line(), res.did, d.tag))
				}
			}
		}
	}

	steps := 5 + rng.IntN(12)
	for k := 0; k < steps; k++ {
		switch c := rng.IntN(100); {
		case c < 45 || !synced:
			nmut := rng.IntN(4)
			if !synced {
				nmut += 6 + rng.IntN(12)
			}
			for _, name := range pb.mutate(rng, nmut) {
				r.Count("pipeline:mut:" + name)
			}
			if len(pb.b.devs) > 0 && rng.IntN(3) == 0 {
				ids := make([]int, 0, len(pb.b.devs))
				for id := range pb.b.devs {
					ids = append(ids, id)
				}
				sort.Ints(ids)
				d := ids[rng.IntN(len(ids))]
				pb.clock++
				pb.b.devs[d].bad = !pb.b.devs[d].bad
				pb.b.touchDev(d)
				pb.harvest()
				r.Count("pipeline:mut:device-validity-toggled")
			}
			full := !synced || rng.IntN(5) == 0
			auto := afterRestart && rng.IntN(4) != 0
			failing := synced && rng.IntN(6) == 0
			srv.fail, srv.served = failing, nil
			if !auto {
				x.db.VerifC14ForceSyncKind(full)
			}
			err := x.db.Refresh(ctx)
			srv.fail = false
			kind := mt.lastFull
			switch {
			case failing:
				injected++
				log = append(log, fmt.Sprintf("fail %s (asked since %d)", b01(kind), srv.lastSince))
				if err == nil {
					violate("refresh-swallows-storage-error", "Refresh returned nil although the backend failed")
				}
				r.Count("pipeline:sync-failed")
			case err != nil || srv.served == nil:
				log = append(log, fmt.Sprintf("refresh error: %v", err))
				violate("refresh-error", fmt.Sprintf("Refresh failed: %v", err))
			default:
				srv.served.full = kind
				log = append(log, fmt.Sprintf("%s (asked since %d)", srv.served.line(), srv.lastSince))
				ref = pipeReference(pb)
				if kind {
					cacheRef = pipeReference(pb)
					r.Count("pipeline:sync-full")
				} else {
					r.Count("pipeline:sync-partial")
				}
				if auto {
					r.Count("pipeline:sync-kind-chosen-by-db")
				}
				synced, afterRestart = true, false
			}
		case c < 82:
			lookAll()
		default:
			if len(ec.errs) != injected {
				violate("refresh-error", fmt.Sprintf("error collector received %d errors, %d backend failures were injected: %v", len(ec.errs), injected, ec.errs))
			}
			injected = 0
			x = open()
			log = append(log, "restart")
			if cacheRef != nil && len(cacheRef.profs) > 0 && len(cacheRef.devs) > 0 {
				ref = &reference{profs: cacheRef.profs, devs: cacheRef.devs, wf: true}
				r.Count("pipeline:restart-loaded")
			} else {
				ref = newReference()
				r.Count("pipeline:restart-ignored")
			}
			afterRestart = true
			lookAll()
		}
	}
	lookAll()
	if len(ec.errs) != injected {
		violate("refresh-error", fmt.Sprintf("error collector received %d errors, %d backend failures were injected: %v", len(ec.errs), injected, ec.errs))
	}
	r.Traces++
	r.Case("pipeline\n"+fmt.Sprint(log), true)
	r.Count("pipeline:cases")
	if len(log) > 0 {
		r.Sample(map[string]any{"campaign": "pipeline", "log": log[:min(len(log), 6)]}, 7)
	}
}

var _ agd.DeviceID
