package main

import (
	"context"
	"fmt"
	"math/rand/v2"
	"net"
	"net/netip"
	"net/url"
	"os"
	"path/filepath"
	"runtime/debug"
	"slices"
	"sort"
	"strconv"
	"strings"
	"time"

	"github.com/AdguardTeam/AdGuardDNS/internal/access"
	"github.com/AdguardTeam/AdGuardDNS/internal/agd"
	"github.com/AdguardTeam/AdGuardDNS/internal/agdpasswd"
	"github.com/AdguardTeam/AdGuardDNS/internal/agdtime"
	"github.com/AdguardTeam/AdGuardDNS/internal/backendpb"
	"github.com/AdguardTeam/AdGuardDNS/internal/dnsmsg"
	"github.com/AdguardTeam/AdGuardDNS/internal/filter"
	"github.com/AdguardTeam/AdGuardDNS/internal/geoip"
	"github.com/AdguardTeam/AdGuardDNS/internal/profiledb"
	"github.com/AdguardTeam/AdGuardDNS/verifh/hlib"
	"github.com/AdguardTeam/golibs/logutil/slogutil"
	"github.com/AdguardTeam/golibs/netutil"
	"github.com/c2h5oh/datasize"
	"google.golang.org/grpc"
	"google.golang.org/grpc/codes"
	"google.golang.org/grpc/credentials/insecure"
	"google.golang.org/grpc/metadata"
	"google.golang.org/grpc/status"
	"google.golang.org/protobuf/types/known/durationpb"
)

// Pipeline campaign: the whole production path from the wire to the look-up.
// An in-process gRPC backend (the time-honouring backend of the protocol
// campaign, plus devices this server must reject) is read by the real
// backendpb.ProfileStorage (request encoding, DNSProfile/DeviceSettings
// conversion, sync_time trailer) into the real profiledb.Default with a real
// cache file; look-ups are checked against the backend's current state.  The
// clean-up goroutines run whenever they like here: the property does not
// depend on their timing, so the oracle needs no schedule control (there is no
// model comparison in this campaign).

type pipeServer struct {
	backendpb.UnimplementedDNSServiceServer

	pb        *pbackend
	fail      bool
	lastSince int
	served    *resp
	calls     int
	offGrid   bool
	// junk > 0: a profile the converter must reject is sent first.
	junk int
	// stall: the backend accepts the request and never answers; the call ends
	// when the caller's deadline does.
	stall bool
	// hadDeadline: the last request carried a deadline.
	hadDeadline bool
	// failAfter > 0 (with fail): the stream breaks after that many profiles of
	// the answer were sent, the sync_time trailer included.
	failAfter int
	// fat > 0: a valid profile without devices and with that many custom rules
	// is sent first (a message of some tens of kilobytes).
	fat int
}

func ipBytes(a netip.Addr) []byte {
	if !a.IsValid() {
		return nil
	}
	b, _ := a.MarshalBinary()

	return b
}

// outsideBind is a dedicated address no listener of this server is bound to.
var outsideBind = netip.MustParseAddr("203.0.113.9")

func (d devRec) wire() *backendpb.DeviceSettings {
	ds := &backendpb.DeviceSettings{
		Id:               string(didStr(d.id)),
		Name:             fmt.Sprintf("n%d", d.tag),
		FilteringEnabled: d.tag&1 != 0,
		LinkedIp:         ipBytes(linkedAddr(d.linked)),
		HumanIdLower:     string(humStr(d.human)),
	}
	for _, ip := range d.ded {
		ds.DedicatedIps = append(ds.DedicatedIps, ipBytes(dedAddr(ip)))
	}
	if d.bad {
		// Every reason the converter has to refuse a device.
		switch d.tag % 7 {
		case 0:
			ds.DedicatedIps = append(ds.DedicatedIps, ipBytes(outsideBind))
		case 1:
			// An empty byte string is the zero netip.Addr: in no bind prefix.
			ds.DedicatedIps = append(ds.DedicatedIps, []byte{})
		case 2:
			ds.DedicatedIps = append(ds.DedicatedIps, []byte{198, 51, 100, 1, 0})
		case 3:
			ds.LinkedIp = []byte{192, 0, 2}
		case 4:
			ds.Name = strings.Repeat("n", 129)
		case 5:
			ds.HumanIdLower = "Upper-Case"
		default:
			ds.HumanIdLower = strings.Repeat("h", 64)
		}
	}
	switch d.tag % 3 {
	case 1:
		ds.Authentication = &backendpb.AuthenticationSettings{DohAuthOnly: d.tag&2 != 0}
	case 2:
		ds.Authentication = &backendpb.AuthenticationSettings{
			DohAuthOnly: d.tag&2 != 0,
			DohPasswordHash: &backendpb.AuthenticationSettings_PasswordHashBcrypt{
				PasswordHashBcrypt: []byte{byte(d.tag)},
			},
		}
	}

	return ds
}

func (p profRec) wire(devs map[int]*devRec) *backendpb.DNSProfile {
	out := &backendpb.DNSProfile{
		DnsId:               string(pidStr(p.id)),
		Deleted:             p.deleted,
		AutoDevicesEnabled:  p.auto,
		FilteredResponseTtl: durationpb.New(time.Duration(p.tag)),
		FilteringEnabled:    p.tag&1 != 0,
		QueryLogEnabled:     p.tag&2 != 0,
		IpLogEnabled:        p.tag&4 != 0,
		BlockPrivateRelay:   p.tag&8 != 0,
		BlockFirefoxCanary:  p.tag&16 != 0,
		BlockChromePrefetch: p.tag&32 != 0,
	}
	for _, d := range p.devs {
		out.Devices = append(out.Devices, devs[d].wire())
	}
	p.wireSettings(out)

	return out
}

// sparseBits chooses, per profile version, which OPTIONAL (message-typed)
// parts of the wire profile are left out although their parent is present.
func sparseBits(tag int) uint32 { return uint32(tag*31+17) * 2246822519 }

// sparseDay: 0 = both bounds of the day range on the wire, 1 = start absent,
// 2 = start and end absent.
func sparseDay(tag, wd int) int { return int((sparseBits(tag) >> (2 + 2*uint(wd))) & 3) }

// settingsBits spreads the tag of a profile version over 32 bits; every
// setting group of the wire profile is chosen by some of them.
func settingsBits(tag int) uint32 { return uint32(tag) * 2654435761 }

var (
	pipeDayRanges = [4][2]int{{0, 1439}, {1439, 1439}, {60, 600}, {0, 0}}
	pipeTZ        = [2]string{"UTC", "Europe/Brussels"}
	pipeNet4      = netip.MustParsePrefix("192.0.2.0/24")
	pipeNet6      = netip.MustParsePrefix("2001:db8::/32")
	pipeNetRL     = netip.MustParsePrefix("198.51.100.0/24")
	pipeIP4       = netip.MustParseAddr("203.0.113.1")
	pipeIP6       = netip.MustParseAddr("2001:db8::53")
)

func wireCIDR(p netip.Prefix) *backendpb.CidrRange {
	return &backendpb.CidrRange{Address: p.Addr().AsSlice(), Prefix: uint32(p.Bits())}
}

// wireSettings fills in every setting group of the wire profile (absent,
// disabled, enabled with boundary values) as a function of the profile's tag.
func (p profRec) wireSettings(out *backendpb.DNSProfile) {
	u := settingsBits(p.tag)
	if u&1 != 0 {
		out.SafeBrowsing = &backendpb.SafeBrowsingSettings{Enabled: u&2 != 0, BlockDangerousDomains: u&4 != 0, BlockNrd: u&8 != 0}
	}
	if u&16 != 0 {
		par := &backendpb.ParentalSettings{Enabled: u&32 != 0, BlockAdult: u&64 != 0, GeneralSafeSearch: u&128 != 0, YoutubeSafeSearch: u&256 != 0}
		if u&512 != 0 {
			par.BlockedServices = append(par.BlockedServices, "svc1")
			if u&1024 != 0 {
				par.BlockedServices = append(par.BlockedServices, "svc2")
			}
		}
		if u&2048 != 0 {
			w := &backendpb.WeeklyRange{}
			for wd := time.Sunday; wd <= time.Saturday; wd++ {
				if (u>>(13+uint(wd)))&1 == 0 {
					continue
				}
				rg := pipeDayRanges[(int(u>>20)+int(wd))&3]
				dr := &backendpb.DayRange{Start: durationpb.New(time.Duration(rg[0]) * time.Minute), End: durationpb.New(time.Duration(rg[1]) * time.Minute)}
				switch sparseDay(p.tag, int(wd)) {
				case 1:
					// proto3: an absent message-typed field is the zero duration.
					dr.Start = nil
				case 2:
					dr.Start, dr.End = nil, nil
				}
				switch wd {
				case time.Sunday:
					w.Sun = dr
				case time.Monday:
					w.Mon = dr
				case time.Tuesday:
					w.Tue = dr
				case time.Wednesday:
					w.Wed = dr
				case time.Thursday:
					w.Thu = dr
				case time.Friday:
					w.Fri = dr
				default:
					w.Sat = dr
				}
			}
			par.Schedule = &backendpb.ScheduleSettings{Tmz: pipeTZ[(u>>12)&1], WeeklyRange: w}
			if sparseBits(p.tag)&3 == 0 {
				// A schedule without weekly_range (legal in proto3: a week
				// with no day set).
				par.Schedule.WeeklyRange = nil
			}
			if (sparseBits(p.tag)>>16)&3 == 0 {
				par.Schedule.Tmz = ""
			}
		}
		out.Parental = par
	}
	if (u>>22)&1 != 0 {
		rl := &backendpb.RuleListsSettings{Enabled: (u>>23)&1 != 0, Ids: []string{"adguard_dns_filter"}}
		if (u>>24)&1 != 0 {
			rl.Ids = append(rl.Ids, "list2")
		}
		out.RuleLists = rl
	}
	switch (u >> 25) & 3 {
	case 1:
		out.Access = &backendpb.AccessSettings{Enabled: false, AllowlistAsn: []uint32{1}, BlocklistDomainRules: []string{"off.test"}}
	case 2:
		out.Access = &backendpb.AccessSettings{Enabled: true, AllowlistCidr: []*backendpb.CidrRange{wireCIDR(pipeNet4)}, AllowlistAsn: []uint32{10}, BlocklistAsn: []uint32{20, 30}, BlocklistDomainRules: []string{"block.test"}}
	case 3:
		out.Access = &backendpb.AccessSettings{Enabled: true, AllowlistCidr: []*backendpb.CidrRange{wireCIDR(pipeNet4)}, BlocklistCidr: []*backendpb.CidrRange{wireCIDR(pipeNet6)}, BlocklistAsn: []uint32{4294967295}}
	}
	switch (u >> 27) & 3 {
	case 1:
		out.RateLimit = &backendpb.RateLimitSettings{Enabled: false, Rps: 5, ClientCidr: []*backendpb.CidrRange{wireCIDR(pipeNetRL)}}
	case 2:
		out.RateLimit = &backendpb.RateLimitSettings{Enabled: true, Rps: 100, ClientCidr: []*backendpb.CidrRange{wireCIDR(pipeNetRL)}}
	case 3:
		out.RateLimit = &backendpb.RateLimitSettings{Enabled: true, Rps: 65537}
	}
	switch (u >> 29) & 7 {
	case 1:
		out.BlockingMode = &backendpb.DNSProfile_BlockingModeNullIp{BlockingModeNullIp: &backendpb.BlockingModeNullIP{}}
	case 2:
		out.BlockingMode = &backendpb.DNSProfile_BlockingModeNxdomain{BlockingModeNxdomain: &backendpb.BlockingModeNXDOMAIN{}}
	case 3:
		out.BlockingMode = &backendpb.DNSProfile_BlockingModeRefused{BlockingModeRefused: &backendpb.BlockingModeREFUSED{}}
	case 4:
		out.BlockingMode = &backendpb.DNSProfile_BlockingModeCustomIp{BlockingModeCustomIp: &backendpb.BlockingModeCustomIP{Ipv4: ipBytes(pipeIP4)}}
	case 5:
		out.BlockingMode = &backendpb.DNSProfile_BlockingModeCustomIp{BlockingModeCustomIp: &backendpb.BlockingModeCustomIP{Ipv6: ipBytes(pipeIP6)}}
	case 6:
		out.BlockingMode = &backendpb.DNSProfile_BlockingModeCustomIp{BlockingModeCustomIp: &backendpb.BlockingModeCustomIP{Ipv4: ipBytes(pipeIP4), Ipv6: ipBytes(pipeIP6)}}
	}
	switch p.tag % 4 {
	case 1:
		out.CustomRules = []string{"||a.example^"}
	case 2:
		out.CustomRules = []string{"||a.example^", "@@||b.example^"}
	}
}

// expected is the profile this server must hold for the backend's record p:
// written down from the documented meaning of the wire settings, without the
// converter (absent or disabled access / rate-limit settings mean the global
// ones, an absent blocking mode means null IP, the end of a day range is
// inclusive on the wire and exclusive inside, custom filtering is on exactly
// when there are rules).
func (p profRec) expected() *agd.Profile {
	u := settingsBits(p.tag)
	out := profRec{id: p.id, devs: p.devs, auto: p.auto, deleted: p.deleted, tag: p.tag}.real()
	out.FilteringEnabled, out.QueryLogEnabled, out.IPLogEnabled = p.tag&1 != 0, p.tag&2 != 0, p.tag&4 != 0
	out.BlockPrivateRelay, out.BlockFirefoxCanary, out.BlockChromePrefetch = p.tag&8 != 0, p.tag&16 != 0, p.tag&32 != 0
	fc := out.FilterConfig
	fc.Custom.ID = string(pidStr(p.id))
	if u&1 != 0 {
		fc.SafeBrowsing = &filter.ConfigSafeBrowsing{Enabled: u&2 != 0, DangerousDomainsEnabled: u&4 != 0, NewlyRegisteredDomainsEnabled: u&8 != 0}
	}
	if u&16 != 0 {
		par := &filter.ConfigParental{Enabled: u&32 != 0, AdultBlockingEnabled: u&64 != 0, SafeSearchGeneralEnabled: u&128 != 0, SafeSearchYouTubeEnabled: u&256 != 0}
		if u&512 != 0 {
			par.BlockedServices = []filter.BlockedServiceID{"svc1"}
			if u&1024 != 0 {
				par.BlockedServices = []filter.BlockedServiceID{"svc1", "svc2"}
			}
		}
		if u&2048 != 0 {
			tz := pipeTZ[(u>>12)&1]
			if (sparseBits(p.tag)>>16)&3 == 0 {
				tz = "UTC" // an empty name is UTC
			}
			loc, err := agdtime.LoadLocation(tz)
			hlib.Must(err)
			week := &filter.WeeklySchedule{}
			for wd := 0; wd < 7 && sparseBits(p.tag)&3 != 0; wd++ {
				if (u>>(13+uint(wd)))&1 != 0 {
					rg := pipeDayRanges[(int(u>>20)+wd)&3]
					switch sparseDay(p.tag, wd) {
					case 1:
						rg[0] = 0
					case 2:
						rg = [2]int{0, 0}
					}
					week[wd] = &filter.DayInterval{Start: uint16(rg[0]), End: uint16(rg[1] + 1)}
				}
			}
			par.PauseSchedule = &filter.ConfigSchedule{Week: week, TimeZone: loc}
		}
		fc.Parental = par
	}
	if (u>>22)&1 != 0 {
		fc.RuleList = &filter.ConfigRuleList{Enabled: (u>>23)&1 != 0, IDs: []filter.ID{"adguard_dns_filter"}}
		if (u>>24)&1 != 0 {
			fc.RuleList.IDs = []filter.ID{"adguard_dns_filter", "list2"}
		}
	}
	switch (u >> 25) & 3 {
	case 2:
		out.Access = access.NewDefaultProfile(&access.ProfileConfig{AllowedNets: []netip.Prefix{pipeNet4}, AllowedASN: []geoip.ASN{10}, BlockedASN: []geoip.ASN{20, 30}, BlocklistDomainRules: []string{"block.test"}})
	case 3:
		out.Access = access.NewDefaultProfile(&access.ProfileConfig{AllowedNets: []netip.Prefix{pipeNet4}, BlockedNets: []netip.Prefix{pipeNet6}, BlockedASN: []geoip.ASN{4294967295}})
	}
	switch (u >> 27) & 3 {
	case 2:
		out.Ratelimiter = agd.NewDefaultRatelimiter(&agd.RatelimitConfig{ClientSubnets: []netip.Prefix{pipeNetRL}, RPS: 100, Enabled: true}, respSzEst)
	case 3:
		out.Ratelimiter = agd.NewDefaultRatelimiter(&agd.RatelimitConfig{RPS: 65537, Enabled: true}, respSzEst)
	}
	switch (u >> 29) & 7 {
	case 2:
		out.BlockingMode = &dnsmsg.BlockingModeNXDOMAIN{}
	case 3:
		out.BlockingMode = &dnsmsg.BlockingModeREFUSED{}
	case 4:
		out.BlockingMode = &dnsmsg.BlockingModeCustomIP{IPv4: []netip.Addr{pipeIP4}}
	case 5:
		out.BlockingMode = &dnsmsg.BlockingModeCustomIP{IPv6: []netip.Addr{pipeIP6}}
	case 6:
		out.BlockingMode = &dnsmsg.BlockingModeCustomIP{IPv4: []netip.Addr{pipeIP4}, IPv6: []netip.Addr{pipeIP6}}
	}
	switch p.tag % 4 {
	case 1:
		fc.Custom.Rules, fc.Custom.Enabled = []filter.RuleText{"||a.example^"}, true
	case 2:
		fc.Custom.Rules, fc.Custom.Enabled = []filter.RuleText{"||a.example^", "@@||b.example^"}, true
	}

	return out
}

// canonSettings renders every setting of a profile except the time the custom
// rules were received (the converter stamps it with the wall clock).
func canonSettings(p *agd.Profile) string {
	c := *p
	fc := *p.FilterConfig
	cu := *fc.Custom
	cu.UpdateTime = time.Time{}
	fc.Custom = &cu
	c.FilterConfig = &fc

	return canonProfile(&c)
}

func (s *pipeServer) GetDNSProfiles(
	req *backendpb.DNSProfilesRequest,
	srv grpc.ServerStreamingServer[backendpb.DNSProfile],
) (err error) {
	s.calls++
	s.lastSince = timeNum(req.SyncTime.AsTime())
	if since := req.SyncTime.AsTime(); !onGrid(since) && !since.Equal(time.Time{}) {
		s.offGrid = true
	}
	_, s.hadDeadline = srv.Context().Deadline()
	if s.fail && s.failAfter > 0 {
		// A stream that breaks in the middle: nothing of it may be applied.
		rs := s.pb.respond(s.lastSince)
		for k, p := range rs.profs {
			if k >= s.failAfter {
				break
			}
			if err = srv.Send(p.wire(s.pb.b.devs)); err != nil {
				return err
			}
		}
		srv.SetTrailer(metadata.Pairs("sync_time", strconv.FormatInt(timeOf(rs.t).UnixMilli(), 10)))

		return status.Error(codes.Unavailable, "verif: scripted backend failure in the middle of the stream")
	}
	if s.fail {
		return status.Error(codes.Unavailable, "verif: scripted backend failure")
	}
	if s.stall {
		<-srv.Context().Done()

		return status.FromContextError(srv.Context().Err()).Err()
	}
	rs := s.pb.respond(s.lastSince)
	s.served = &rs
	if s.fat > 0 {
		fp := &backendpb.DNSProfile{DnsId: "p8"}
		for k := 0; k < s.fat; k++ {
			fp.CustomRules = append(fp.CustomRules, fmt.Sprintf("||fat-%d.c14.example^", k))
		}
		if err = srv.Send(fp); err != nil {
			return err
		}
	}
	if s.junk > 0 {
		if err = srv.Send(junkProfile(s.junk)); err != nil {
			return err
		}
	}
	for _, p := range rs.profs {
		if err = srv.Send(p.wire(s.pb.b.devs)); err != nil {
			return err
		}
	}
	srv.SetTrailer(metadata.Pairs("sync_time", strconv.FormatInt(timeOf(rs.t).UnixMilli(), 10)))

	return nil
}

// recStorage records the last response of the real backendpb storage.
type recStorage struct {
	inner profiledb.Storage
	last  *profiledb.StorageProfilesResponse
}

func (r *recStorage) CreateAutoDevice(
	ctx context.Context,
	req *profiledb.StorageCreateAutoDeviceRequest,
) (*profiledb.StorageCreateAutoDeviceResponse, error) {
	return r.inner.CreateAutoDevice(ctx, req)
}

func (r *recStorage) Profiles(
	ctx context.Context,
	req *profiledb.StorageProfilesRequest,
) (resp *profiledb.StorageProfilesResponse, err error) {
	resp, err = r.inner.Profiles(ctx, req)
	r.last = resp

	return resp, err
}

// junkProfile is a wire profile the converter must reject as a whole (custom
// blocking mode without addresses), together with its perfectly valid device,
// which claims keys of the pools.
func junkProfile(n int) *backendpb.DNSProfile {
	out := &backendpb.DNSProfile{
		DnsId:   "p9",
		Devices: []*backendpb.DeviceSettings{junkDevice(n).wire()},
	}
	mins := func(m int) *durationpb.Duration { return durationpb.New(time.Duration(m) * time.Minute) }
	sched := func(tz string, d *backendpb.DayRange) {
		out.Parental = &backendpb.ParentalSettings{Enabled: true, Schedule: &backendpb.ScheduleSettings{Tmz: tz, WeeklyRange: &backendpb.WeeklyRange{Wed: d}}}
	}
	// Every reason the converter has to refuse a profile (each is a separate
	// error path; none may panic, none may let the profile or its device in).
	switch junkKind(n) {
	case 0:
		out.BlockingMode = &backendpb.DNSProfile_BlockingModeCustomIp{BlockingModeCustomIp: &backendpb.BlockingModeCustomIP{}}
	case 1:
		out.BlockingMode = &backendpb.DNSProfile_BlockingModeCustomIp{BlockingModeCustomIp: &backendpb.BlockingModeCustomIP{Ipv4: []byte{1, 2, 3, 4, 5}}}
	case 2:
		out.BlockingMode = &backendpb.DNSProfile_BlockingModeCustomIp{BlockingModeCustomIp: &backendpb.BlockingModeCustomIP{Ipv4: ipBytes(pipeIP4), Ipv6: []byte{1}}}
	case 3:
		sched("Nowhere/Land", nil)
	case 4:
		// No weekly_range either: the unknown zone is what is refused.
		out.Parental = &backendpb.ParentalSettings{Schedule: &backendpb.ScheduleSettings{Tmz: "Nowhere/Land"}}
	case 5:
		sched("UTC", &backendpb.DayRange{Start: mins(600), End: mins(60)})
	case 6:
		sched("UTC", &backendpb.DayRange{Start: mins(1440), End: mins(1440)})
	case 7:
		sched("UTC", &backendpb.DayRange{Start: mins(0), End: mins(1440)})
	case 8:
		// An absent end is minute 0: before the start.
		sched("UTC", &backendpb.DayRange{Start: mins(60)})
	default:
		out.DnsId = "p99999999"
	}

	return out
}

const junkKinds = 10

func junkKind(n int) int { return (n - 1) % junkKinds }

// junkSchedLine is the model line of the junk profile's schedule ("" if the
// profile is refused for another reason): the model must refuse it as well.
func junkSchedLine(n int) string {
	switch junkKind(n) {
	case 3:
		return "bpsched x 1 - - - - - - -"
	case 4:
		return "bpsched x 0"
	case 5:
		return "bpsched 0 1 - - - 600:60 - - -"
	case 6:
		return "bpsched 0 1 - - - 1440:1440 - - -"
	case 7:
		return "bpsched 0 1 - - - 0:1440 - - -"
	case 8:
		return "bpsched 0 1 - - - 60:- - - -"
	}

	return ""
}

func junkDevice(n int) devRec {
	return devRec{id: 9, linked: 1 + n%nIP, ded: []int{1 + (n+1)%nIP}, human: 1, tag: 3 * n}
}

// wireLine is the model's `wire` line for a served response (and the junk
// profile, if one was sent first).
func wireLine(rs *resp, junk int) string {
	byID := map[int]devRec{}
	for _, d := range rs.devs {
		byID[d.id] = d
	}
	var sb strings.Builder
	n := len(rs.profs)
	if junk > 0 {
		n++
	}
	fmt.Fprintf(&sb, "wire %d", n)
	dev := func(d devRec, valid bool) {
		fmt.Fprintf(&sb, " %d %d %d %d %s %d", d.id, d.linked, d.human, d.tag, b01(valid), len(d.ded))
		for _, ip := range d.ded {
			fmt.Fprintf(&sb, " %d", ip)
		}
	}
	if junk > 0 {
		sb.WriteString(" 9 0 0 0 0 1")
		dev(junkDevice(junk), true)
	}
	for _, p := range rs.profs {
		fmt.Fprintf(&sb, " %d %s %s %d 1 %d", p.id, b01(p.auto), b01(p.deleted), p.tag, len(p.devs))
		for _, d := range p.devs {
			dev(byID[d], !byID[d].bad)
		}
	}

	return sb.String()
}

// respText renders what backendpb made of the stream, in the format of the
// model's answer to `wire`.
func respText(r *profiledb.StorageProfilesResponse) string {
	linked, ded := map[netip.Addr]int{}, map[netip.Addr]int{}
	for i := 0; i <= nIP; i++ {
		linked[linkedAddr(i)] = i
		if i > 0 {
			ded[dedAddr(i)] = i
		}
	}
	num := func(s, prefix string) int {
		n, err := strconv.Atoi(strings.TrimPrefix(s, prefix))
		if err != nil {
			return -1
		}

		return n
	}
	parts := []string{fmt.Sprint(len(r.Profiles)), fmt.Sprint(len(r.Devices))}
	for _, p := range r.Profiles {
		parts = append(parts, fmt.Sprint(num(string(p.ID), "p")), b01(p.AutoDevicesEnabled), b01(p.Deleted), fmt.Sprint(int(p.FilteredResponseTTL)), fmt.Sprint(len(p.DeviceIDs)))
		for _, id := range p.DeviceIDs {
			parts = append(parts, fmt.Sprint(num(string(id), "d")))
		}
	}
	for _, d := range r.Devices {
		l, ok := linked[d.LinkedIP]
		if !ok {
			l = -1
		}
		h := 0
		if d.HumanIDLower != "" {
			h = num(string(d.HumanIDLower), "h")
		}
		parts = append(parts, fmt.Sprint(num(string(d.ID), "d")), fmt.Sprint(l), fmt.Sprint(h), fmt.Sprint(num(string(d.Name), "n")), fmt.Sprint(len(d.DedicatedIPs)))
		for _, ip := range d.DedicatedIPs {
			n, ok := ded[ip]
			if !ok {
				n = -1
			}
			parts = append(parts, fmt.Sprint(n))
		}
	}

	return strings.Join(parts, " ")
}

// pipeReference is the backend's current state as this server must see it:
// devices it has to reject do not exist.
func pipeReference(pb *pbackend) *reference {
	ref := pb.reference()
	for did, d := range ref.devs {
		if d.bad {
			delete(ref.devs, did)
		}
	}
	for pid, p := range ref.profs {
		p.devs = slices.DeleteFunc(slices.Clone(p.devs), func(d int) bool { _, ok := ref.devs[d]; return !ok })
		ref.profs[pid] = p
	}

	return ref
}

func (h *harness) pipelineCampaign() {
	r := h.r
	debug.SetGCPercent(100)
	l, err := net.Listen("tcp", "127.0.0.1:0")
	if err != nil {
		r.Notes = append(r.Notes, "pipeline campaign skipped: cannot listen on loopback: "+err.Error())

		return
	}
	srv := &pipeServer{}
	gs := grpc.NewServer(grpc.ConnectionTimeout(1*time.Second), grpc.Creds(insecure.NewCredentials()))
	backendpb.RegisterDNSServiceServer(gs, srv)
	go func() { _ = gs.Serve(l) }()
	defer gs.Stop()

	bind := netutil.SliceSubnetSet{
		netip.MustParsePrefix("198.51.100.0/24"),
		netip.MustParsePrefix("2001:db8:100::/40"),
		netip.MustParsePrefix("::ffff:198.51.100.0/120"),
	}
	convErrs := &errColl{}
	ps, err := backendpb.NewProfileStorage(&backendpb.ProfileStorageConfig{
		BindSet:              bind,
		ErrColl:              convErrs,
		Logger:               slogutil.NewDiscardLogger(),
		GRPCMetrics:          backendpb.EmptyGRPCMetrics{},
		Metrics:              backendpb.EmptyProfileDBMetrics{},
		Endpoint:             &url.URL{Scheme: "grpc", Host: l.Addr().String()},
		ResponseSizeEstimate: respSzEst,
		MaxProfilesSize:      16 * datasize.MB,
	})
	if err != nil {
		r.Notes = append(r.Notes, "pipeline campaign skipped: "+err.Error())

		return
	}

	rng := h.o.Rand("pipeline")
	n := 250
	if h.o.Thorough() {
		n = 2500
	}
	path := filepath.Join(h.dir, "pipeline", "cache.pb")
	hlib.Must(os.MkdirAll(filepath.Dir(path), 0o700))
	defer func() { timeBase = 1700000000 }()
	for i := 0; i < n; i++ {
		timeBase = 1700000000
		if rng.IntN(2) == 0 {
			timeBase = time.Now().Unix() - 1000
		}
		h.newLayout("pipeline", true)
		h.runPipelineCase(rng, srv, ps, path)
	}
}

func (h *harness) runPipelineCase(rng *rand.Rand, srv *pipeServer, ps *backendpb.ProfileStorage, path string) {
	r := h.r
	ctx := context.Background()
	_ = os.Remove(path)
	pb := newPBackend()
	srv.pb, srv.fail, srv.offGrid = pb, false, false
	var log []string
	reported := map[string]bool{}
	violate := func(sig, what string) {
		if reported[sig] {
			return
		}
		reported[sig] = true
		r.Violate("pipeline:"+sig, what, map[string]any{"campaign": "pipeline", "log": slices.Clone(log), "addresses": layoutText(),
			"how": "gRPC backend -> backendpb.ProfileStorage -> profiledb.Default (cache file) -> look-ups; `sync` lines give the response served in the model's line format"})
	}
	var ec *errColl
	var mt *syncMetrics
	rec := &recStorage{inner: ps}
	// Lines for the model of the backendpb converters and what the real ones did.
	var mlines, mwant []string
	addrSeen := map[netip.Addr]bool{}
	open := func() *realDB {
		ec, mt = &errColl{}, &syncMetrics{}
		db, err := profiledb.New(&profiledb.Config{
			Logger: slogutil.NewDiscardLogger(), Storage: rec, ErrColl: ec, Metrics: mt, CacheFilePath: path,
			FullSyncIvl: time.Hour, FullSyncRetryIvl: time.Hour, ResponseSizeEstimate: respSzEst,
		})
		if err != nil {
			panic(err)
		}

		return &realDB{db: db, mt: mt, ec: ec, st: &storage{}, path: path}
	}
	x := open()
	ref := newReference()
	var cacheRef *reference
	synced, afterRestart, injected := false, false, 0

	lookAll := func() {
		for _, o := range allLookups() {
			res := x.look(o.kind, o.a, o.b)
			log = append(log, keyText(o)+" -> "+res.kind+" "+res.pid+" "+res.did)
			h.oracle(ref, o, res, false, violate)
			r.Evaluations++
			own := ref.owners(o.kind, o.a, o.b)
			if res.kind != "ok" || len(own) != 1 || res.pid != string(pidStr(own[0].pid)) || res.did != string(didStr(own[0].did)) {
				continue
			}
			r.Count("pipeline:lookups-found")
			// Settings as converted by backendpb, independently re-derived
			// from the backend's records.
			p, d := ref.profs[own[0].pid], ref.devs[own[0].did]
			if a, b := canonSettings(p.expected()), canonSettings(res.p); a != b {
				violate("profile-setting-lost", fmt.Sprintf("%s: the settings of profile %s differ from what the backend sent (tag %d):\n expected %s\n found    %s", o.line(), res.pid, p.tag, a, b))
			}
			if what, bad := h.rlCheck(res.p.Ratelimiter, respSzEst, "pipeline"); bad {
				violate("ratelimiter-behaviour-differs", fmt.Sprintf("%s: profile %s: %s", o.line(), res.pid, what))
			}
			if res.p.FilteringEnabled != (p.tag&1 != 0) || res.p.QueryLogEnabled != (p.tag&2 != 0) || res.p.IPLogEnabled != (p.tag&4 != 0) ||
				res.p.BlockPrivateRelay != (p.tag&8 != 0) || res.p.BlockFirefoxCanary != (p.tag&16 != 0) || res.p.BlockChromePrefetch != (p.tag&32 != 0) {
				violate("profile-setting-lost", fmt.Sprintf("%s: the flags of profile %s differ from what the backend sent (tag %d)", o.line(), res.pid, p.tag))
			}
			if len(res.d.DedicatedIPs) == len(d.ded) {
				for k, ip := range d.ded {
					if res.d.DedicatedIPs[k] != dedAddr(ip) {
						violate("device-setting-lost", fmt.Sprintf("%s: dedicated IPs of %s differ", o.line(), res.did))
					}
				}
			}
			if len(mlines) < 400 && !addrSeen[res.d.LinkedIP] {
				// The linked address as delivered by the look-up (through
				// backendpb and, after a restart, the cache) against the
				// model's reading of the bytes the backend sent.
				addrSeen[res.d.LinkedIP] = true
				mlines = append(mlines, addrLine("rtaddr", ipBytes(linkedAddr(d.linked))))
				mwant = append(mwant, addrText(res.d.LinkedIP)+" | …")
			}
			if len(mlines) < 400 {
				u := settingsBits(p.tag)
				rlT, acT := "default", "default"
				if _, ok := res.p.Ratelimiter.(agd.GlobalRatelimiter); ok {
					rlT = "global"
				}
				if _, ok := res.p.Access.(access.EmptyProfile); ok {
					acT = "empty"
				}
				mlines = append(mlines, fmt.Sprintf("bprate %d", min((u>>27)&3, 2)), fmt.Sprintf("bpaccess %d", min((u>>25)&3, 2)))
				mwant = append(mwant, rlT+" "+rlT, acT)
				// The pause schedule the look-up delivers (through backendpb
				// and, after a restart, the cache) against the model's
				// conversion of the wire schedule with its absent parts.
				mlines = append(mlines, p.schedLine())
				if line := p.schedLine(); strings.HasSuffix(line, " 0") && line != "bpsched none 0" {
					r.Count("pipeline:schedule-without-weekly_range-delivered")
				} else if strings.Contains(line, "-:") {
					r.Count("pipeline:schedule-day-with-absent-bound-delivered")
				}
				if afterRestart {
					r.Count("pipeline:schedule-compared-after-restart")
				}
				mwant = append(mwant, schedText(res.p))
				if res.d.Auth != nil && (d.tag%3 != 2 || byte(d.tag) != 0) {
					pw := 0
					if d.tag%3 == 2 {
						pw = int(byte(d.tag))
					}
					mlines = append(mlines, fmt.Sprintf("bpauth %d %s %d", min(d.tag%3, 1), b01(d.tag&2 != 0), pw))
					mwant = append(mwant, authModelText(res.d.Auth))
				}
			}
			a := res.d.Auth
			switch {
			case a == nil || a.PasswordHash == nil:
				violate("device-auth-not-canonical", fmt.Sprintf("%s: device %s has nil authentication settings or a nil authenticator", o.line(), res.did))
			case res.d.FilteringEnabled != (d.tag&1 != 0):
				violate("device-setting-lost", fmt.Sprintf("%s: filtering flag of %s differs", o.line(), res.did))
			case a.Enabled != (d.tag%3 != 0) || (a.Enabled && a.DoHAuthOnly != (d.tag&2 != 0)):
				violate("device-setting-lost", fmt.Sprintf("%s: authentication settings of %s differ from what the backend sent (tag %d)", o.line(), res.did, d.tag))
			case !a.Enabled && (a.DoHAuthOnly || a.PasswordHash != agdpasswd.Authenticator(agdpasswd.AllowAuthenticator{})):
				violate("device-auth-not-canonical", fmt.Sprintf("%s: disabled authentication of %s is not (allow-all, no DoH-only)", o.line(), res.did))
			default:
				_, isAllow := a.PasswordHash.(agdpasswd.AllowAuthenticator)
				if isAllow != (d.tag%3 != 2) {
					violate("device-setting-lost", fmt.Sprintf("%s: password hash of %s differs from what the backend sent (tag %d)", o.line(), res.did, d.tag))
				}
			}
		}
	}

	steps := 5 + rng.IntN(12)
	for k := 0; k < steps; k++ {
		switch c := rng.IntN(100); {
		case c < 45 || !synced:
			nmut := rng.IntN(4)
			if !synced {
				nmut += 6 + rng.IntN(12)
			}
			for _, name := range pb.mutate(rng, nmut) {
				r.Count("pipeline:mut:" + name)
			}
			if len(pb.b.devs) > 0 && rng.IntN(3) == 0 {
				ids := make([]int, 0, len(pb.b.devs))
				for id := range pb.b.devs {
					ids = append(ids, id)
				}
				sort.Ints(ids)
				d := ids[rng.IntN(len(ids))]
				pb.clock++
				pb.b.devs[d].bad = !pb.b.devs[d].bad
				pb.b.touchDev(d)
				pb.harvest()
				r.Count("pipeline:mut:device-validity-toggled")
			}
			full := !synced || rng.IntN(5) == 0
			auto := afterRestart && rng.IntN(4) != 0
			failing := synced && rng.IntN(6) == 0
			srv.fail, srv.served, rec.last, srv.junk, srv.failAfter = failing, nil, nil, 0, 0
			if failing && rng.IntN(2) == 0 {
				srv.failAfter = 1 + rng.IntN(2)
				r.Count("pipeline:sync-failed-in-the-middle-of-the-stream")
			}
			if rng.IntN(4) == 0 {
				srv.junk = 1 + rng.IntN(3*junkKinds)
			}
			if !auto {
				x.db.VerifC14ForceSyncKind(full)
			}
			nostore := !failing && rng.IntN(6) == 0
			var err error
			var panicked any
			refresh := func() {
				defer func() { panicked = recover() }()
				err = x.db.Refresh(ctx)
			}
			if nostore {
				withoutCacheDir(path, refresh)
			} else {
				refresh()
			}
			srv.fail = false
			if panicked != nil {
				// In production this ends the refresh worker's loop for good
				// (agdservice.RefreshWorker recovers once, outside the loop)
				// or, during the initial refresh, the process.
				if srv.served != nil {
					log = append(log, fmt.Sprintf("%s (asked since %d)", srv.served.line(), srv.lastSince))
					log = append(log, "wire: "+sparseText(pb, srv.served))
				}
				log = append(log, fmt.Sprintf("Refresh PANICS: %v", panicked))
				violate("refresh-panics", fmt.Sprintf("Refresh panicked on a well-formed answer of the backend: %v (the refresh worker stops synchronising for good; an initial refresh ends the process)", panicked))
				r.Case("pipeline\n"+fmt.Sprint(log), false)

				return
			}
			kind := mt.lastFull
			if srv.served != nil && rec.last != nil && !failing {
				mlines = append(mlines, wireLine(srv.served, srv.junk))
				mwant = append(mwant, respText(rec.last))
				if srv.junk > 0 {
					r.Count(fmt.Sprintf("pipeline:rejected-profile-in-stream:kind%d", junkKind(srv.junk)))
					if line := junkSchedLine(srv.junk); line != "" {
						mlines = append(mlines, line)
						mwant = append(mwant, "reject")
					}
					r.Count("pipeline:rejected-profile-in-stream")
				}
			}
			switch {
			case nostore && kind && srv.served != nil:
				// The data was applied, the cache file keeps its old content.
				injected++
				srv.served.full = true
				log = append(log, fmt.Sprintf("%s (asked since %d)", srv.served.lineNS(), srv.lastSince))
				if !isStoreError(err) {
					violate("refresh-swallows-store-error", fmt.Sprintf("Refresh returned %v although the cache could not be stored", err))
				}
				ref = pipeReference(pb)
				r.Count("pipeline:sync-full-store-failed")
				synced, afterRestart = true, false
			case failing:
				injected++
				log = append(log, fmt.Sprintf("fail %s (asked since %d)", b01(kind), srv.lastSince))
				if err == nil {
					violate("refresh-swallows-storage-error", "Refresh returned nil although the backend failed")
				}
				r.Count("pipeline:sync-failed")
			case err != nil || srv.served == nil:
				log = append(log, fmt.Sprintf("refresh error: %v", err))
				violate("refresh-error", fmt.Sprintf("Refresh failed: %v", err))
			default:
				srv.served.full = kind
				log = append(log, fmt.Sprintf("%s (asked since %d)", srv.served.line(), srv.lastSince))
				ref = pipeReference(pb)
				if kind {
					cacheRef = pipeReference(pb)
					r.Count("pipeline:sync-full")
				} else {
					r.Count("pipeline:sync-partial")
				}
				if auto {
					r.Count("pipeline:sync-kind-chosen-by-db")
				}
				synced, afterRestart = true, false
			}
		case c < 82:
			lookAll()
		default:
			if len(ec.errs) != injected {
				violate("refresh-error", fmt.Sprintf("error collector received %d errors, %d backend failures were injected: %v", len(ec.errs), injected, ec.errs))
			}
			injected = 0
			x = open()
			log = append(log, "restart")
			if cacheRef != nil && len(cacheRef.profs) > 0 && len(cacheRef.devs) > 0 {
				ref = &reference{profs: cacheRef.profs, devs: cacheRef.devs, wf: true}
				r.Count("pipeline:restart-loaded")
			} else {
				ref = newReference()
				r.Count("pipeline:restart-ignored")
			}
			afterRestart = true
			lookAll()
		}
	}
	lookAll()
	if len(ec.errs) != injected {
		violate("refresh-error", fmt.Sprintf("error collector received %d errors, %d backend failures were injected: %v", len(ec.errs), injected, ec.errs))
	}
	if srv.offGrid {
		violate("request-sync-point-never-sent", "the backend was asked for the changes since a time it never sent as sync_time (the sync time was altered on the way)")
	}
	ans := h.m.Batch(mlines)
	r.ModelOps += len(mlines)
	for k := range mlines {
		if pre, ok := strings.CutSuffix(mwant[k], "…"); ok && strings.HasPrefix(ans[k], pre) {
			continue
		}
		if ans[k] != mwant[k] {
			r.Disagree("model-vs-backendpb", fmt.Sprintf("%q: model %q, implementation %q", mlines[k], ans[k], mwant[k]), map[string]any{"campaign": "pipeline", "line": mlines[k]})

			break
		}
	}
	r.Traces++
	r.Case("pipeline\n"+fmt.Sprint(log), true)
	r.Count("pipeline:cases")
	if len(log) > 0 {
		r.Sample(map[string]any{"campaign": "pipeline", "log": log[:min(len(log), 6)]}, 7)
	}
}

// sparseText names the optional parts left out of the profiles of a response.
func sparseText(pb *pbackend, rs *resp) string {
	var sb strings.Builder
	for _, p := range rs.profs {
		u, v := settingsBits(p.tag), sparseBits(p.tag)
		fmt.Fprintf(&sb, "p%d(tag %d):", p.id, p.tag)
		if u&16 != 0 && u&2048 != 0 {
			if v&3 == 0 {
				sb.WriteString(" schedule-without-weekly_range")
			}
			if (v>>16)&3 == 0 {
				sb.WriteString(" schedule-without-tmz")
			}
		}
		sb.WriteString("; ")
	}

	return sb.String()
}

// schedLine is the wire schedule of the profile version as a model line.
func (p profRec) schedLine() string {
	u, v := settingsBits(p.tag), sparseBits(p.tag)
	if u&16 == 0 || u&2048 == 0 {
		return "bpsched none 0"
	}
	// Zone numbers of the model: the index in pipeTZ; an empty name is UTC.
	tz := int((u >> 12) & 1)
	if (v>>16)&3 == 0 {
		tz = 0
	}
	if v&3 == 0 {
		return fmt.Sprintf("bpsched %d 0", tz)
	}
	days := make([]string, 7)
	for wd := 0; wd < 7; wd++ {
		if (u>>(13+uint(wd)))&1 == 0 {
			days[wd] = "-"

			continue
		}
		rg := pipeDayRanges[(int(u>>20)+wd)&3]
		switch sparseDay(p.tag, wd) {
		case 1:
			days[wd] = fmt.Sprintf("-:%d", rg[1])
		case 2:
			days[wd] = "-:-"
		default:
			days[wd] = fmt.Sprintf("%d:%d", rg[0], rg[1])
		}
	}

	return fmt.Sprintf("bpsched %d 1 %s", tz, strings.Join(days, " "))
}

// schedText renders the pause schedule of a real profile as the model does.
func schedText(p *agd.Profile) string {
	c := p.FilterConfig.Parental.PauseSchedule
	if c == nil {
		return "nosched"
	}
	tz := -1
	for i, name := range pipeTZ {
		if c.TimeZone != nil && c.TimeZone.String() == name {
			tz = i
		}
	}
	days := make([]string, 7)
	for wd, d := range c.Week {
		if d == nil {
			days[wd] = "-"
		} else {
			days[wd] = fmt.Sprintf("%d-%d", d.Start, d.End)
		}
	}

	return fmt.Sprintf("tz=%d %s", tz, strings.Join(days, " "))
}

// scheduleConvCampaign: the unchanged (*ScheduleSettings).toInternal on every
// combination of a small scope of wire schedules — weekly_range absent /
// present, the probed day absent, its bounds absent, at and beyond every limit
// of a day, sub-minute values, every zone name kind — against (1) what the
// wire format's documentation says for values inside a day and (2) the Lean
// converter model for all of them.  A panic is a violation.
func (h *harness) scheduleConvCampaign() {
	r := h.r
	const absent = -1
	// Seconds; -1 = the bound is not on the wire.
	starts := []int{absent, 0, 60, 90, 3600, 1439 * 60, 1440 * 60, 65535 * 60, 65536 * 60, 65596 * 60}
	ends := []int{absent, 0, 59 * 60, 60 * 60, 61*60 + 30, 1438 * 60, 1439 * 60, 1440 * 60, 65535 * 60, 65595 * 60}
	zones := []string{"UTC", "", "Europe/Brussels", "Nowhere/Land"}
	dur := func(sec int) *durationpb.Duration {
		if sec == absent {
			return nil
		}

		return durationpb.New(time.Duration(sec) * time.Second)
	}
	tok := func(sec int) string {
		if sec == absent {
			return "-"
		}

		return strconv.Itoa(sec / 60)
	}
	var mlines, mwant []string
	n := 0
	check := func(x *backendpb.ScheduleSettings, line, what string, doc string) {
		var c *filter.ConfigSchedule
		var err error
		pv := guardPanic(func() { c, err = backendpb.VerifC14ScheduleToInternal(x) })
		n++
		r.Evaluations++
		got := "reject"
		switch {
		case pv != nil:
			got = "panic"
			r.Violate("schedconv:converter-panics", fmt.Sprintf("(*ScheduleSettings).toInternal panicked on %s: %v", what, pv),
				map[string]any{"campaign": "schedconv", "wire": what, "how": "backendpb.VerifC14ScheduleToInternal on the wire message described"})
		case err == nil && c == nil:
			got = "nosched"
		case err == nil:
			got = schedText(&agd.Profile{FilterConfig: &filter.ConfigClient{Parental: &filter.ConfigParental{PauseSchedule: c}}})
		}
		if doc != "" && got != doc && pv == nil {
			r.Violate("schedconv:documented-schedule-not-delivered", fmt.Sprintf("%s: the wire format says %q, the converter made %q of it", what, doc, got),
				map[string]any{"campaign": "schedconv", "wire": what})
		}
		mlines = append(mlines, line)
		mwant = append(mwant, got)
	}
	check(nil, "bpsched none 0", "no schedule", "nosched")
	for zi, tz := range zones {
		ztok, zdoc := strconv.Itoa(zi/2), zi/2 // UTC, "" -> 0; Brussels -> 1
		if tz == "Nowhere/Land" {
			ztok = "x"
		}
		check(&backendpb.ScheduleSettings{Tmz: tz}, "bpsched "+ztok+" 0", fmt.Sprintf("schedule{tmz: %q} without weekly_range", tz),
			map[bool]string{true: "reject", false: fmt.Sprintf("tz=%d - - - - - - -", zdoc)}[ztok == "x"])
		for si, st := range starts {
			for ei, en := range ends {
				wd := (si + ei) % 7
				days := [7]*backendpb.DayRange{}
				toks := [7]string{"-", "-", "-", "-", "-", "-", "-"}
				docDays := toks
				days[wd] = &backendpb.DayRange{Start: dur(st), End: dur(en)}
				toks[wd] = tok(st) + ":" + tok(en)
				other := (wd + 3) % 7
				if (si+2*ei)%3 == 0 {
					days[other] = &backendpb.DayRange{Start: dur(60 * 60), End: dur(600 * 60)}
					toks[other], docDays[other] = "60:600", "60-601"
				}
				// The documentation: bounds are minutes of the day, the end
				// is inclusive, an absent duration is zero.
				sm, em := max(st, 0)/60, max(en, 0)/60
				doc := ""
				switch {
				case ztok == "x":
					doc = "reject"
				case sm <= 1439 && em <= 1439 && sm <= em+1:
					// (an inclusive end one minute before the start is the empty range)
					docDays[wd] = fmt.Sprintf("%d-%d", sm, em+1)
					doc = fmt.Sprintf("tz=%d %s", zdoc, strings.Join(docDays[:], " "))
				case sm <= 1440 && em <= 1440:
					// Inside the wire type's natural range, not a day range.
					doc = "reject"
				}
				w := &backendpb.WeeklyRange{Sun: days[0], Mon: days[1], Tue: days[2], Wed: days[3], Thu: days[4], Fri: days[5], Sat: days[6]}
				check(&backendpb.ScheduleSettings{Tmz: tz, WeeklyRange: w}, "bpsched "+ztok+" 1 "+strings.Join(toks[:], " "),
					fmt.Sprintf("schedule{tmz: %q, weekly_range: {%s: {start: %s min, end: %s min}%s}}", tz, time.Weekday(wd), tok(st), tok(en),
						map[bool]string{true: ", " + time.Weekday(other).String() + ": 60..600", false: ""}[days[other] != nil]), doc)
			}
		}
	}
	ans := h.m.Batch(mlines)
	r.ModelOps += len(mlines)
	for k := range mlines {
		if ans[k] != mwant[k] {
			r.Disagree("model-vs-backendpb-schedule", fmt.Sprintf("%q: model %q, implementation %q", mlines[k], ans[k], mwant[k]), map[string]any{"campaign": "schedconv", "line": mlines[k]})

			break
		}
	}
	r.Count(fmt.Sprintf("schedconv:cases=%d", n))
}

var _ agd.DeviceID
