package main

import (
	"context"
	"fmt"
	"math/rand/v2"
	"net"
	"net/netip"
	"net/url"
	"os"
	"path/filepath"
	"slices"
	"strconv"
	"strings"
	"sync/atomic"
	"time"

	"github.com/AdguardTeam/AdGuardDNS/internal/agd"
	"github.com/AdguardTeam/AdGuardDNS/internal/agdservice"
	"github.com/AdguardTeam/AdGuardDNS/internal/backendpb"
	"github.com/AdguardTeam/AdGuardDNS/internal/cmd"
	"github.com/AdguardTeam/AdGuardDNS/verifh/hlib"
	"github.com/AdguardTeam/golibs/logutil/slogutil"
	"github.com/c2h5oh/datasize"
	"github.com/miekg/dns"
	"google.golang.org/grpc"
	"google.golang.org/grpc/credentials/insecure"
)

// ---------------------------------------------------------------------------
// Behaviour of a profile's rate limiter.
//
// agd.DefaultRatelimiter.Config() does not report the response-size estimate
// the limiter was built with, so comparing configurations cannot see whether
// the estimate survived the way through the converter or the file cache.  The
// probe observes it: a response of a fixed size is counted, then requests are
// checked until the first one is dropped.

var (
	rlProbeMsg = func() *dns.Msg {
		m := &dns.Msg{}
		m.SetQuestion("probe.c14.example.", dns.TypeTXT)
		m.Response = true
		for i := 0; i < 12; i++ {
			m.Answer = append(m.Answer, &dns.TXT{
				Hdr: dns.RR_Header{Name: "probe.c14.example.", Rrtype: dns.TypeTXT, Class: dns.ClassINET, Ttl: 10},
				Txt: []string{strings.Repeat(string(rune('a'+i)), 250)},
			})
		}

		return m
	}()
	rlOutside = netip.MustParseAddr("203.0.113.250")
)

// rlProbe renders the observable behaviour of rl on a fresh second.
func rlProbe(rl agd.Ratelimiter) (out string) {
	out, _ = rlProbeN(rl)

	return out
}

// rlProbeN is rlProbe; passes is the number of requests that passed after the
// probe response was counted (-1 if unknown).
func rlProbeN(rl agd.Ratelimiter) (out string, passes int) {
	passes = -1
	dr, ok := rl.(*agd.DefaultRatelimiter)
	if !ok {
		return fmt.Sprintf("%T", rl), -1
	}
	defer func() {
		if v := recover(); v != nil {
			out = fmt.Sprintf("panic: %v", v)
		}
	}()
	ctx := context.Background()
	in := netip.MustParseAddr("198.51.100.7")
	if sn := dr.Config().ClientSubnets; len(sn) > 0 {
		in = sn[0].Addr()
	}
	for attempt := 0; attempt < 4; attempt++ {
		agd.VerifC09Age(dr, time.Hour)
		t0 := time.Now()
		dr.CountResponses(ctx, rlProbeMsg, in)
		passes = 0
		for passes < 130 && dr.Check(ctx, rlProbeMsg, in) == agd.RatelimitResultPass {
			passes++
		}
		outside := dr.Check(ctx, rlProbeMsg, rlOutside)
		el := time.Since(t0)
		agd.VerifC09Age(dr, time.Hour)
		if el < 300*time.Millisecond {
			return fmt.Sprintf("%T: after a %d-byte response %d more requests pass (130 tried), a client outside gets result %d", rl, rlProbeMsg.Len(), passes, outside), passes
		}
	}

	return "slow", -1
}

// rlWanted is the behaviour of a limiter with rl's configuration that was
// built with the estimate est.
func rlWanted(rl agd.Ratelimiter, est datasize.ByteSize) string {
	dr, ok := rl.(*agd.DefaultRatelimiter)
	if !ok {
		return fmt.Sprintf("%T", rl)
	}

	return rlProbe(agd.NewDefaultRatelimiter(dr.Config(), est))
}

// rlCheck compares the behaviour of a limiter with the one its configuration
// and the configured estimate call for.
func (h *harness) rlCheck(rl agd.Ratelimiter, est datasize.ByteSize, bucket string) (what string, bad bool) {
	if _, ok := rl.(*agd.DefaultRatelimiter); !ok {
		return "", false
	}
	got, want := rlProbe(rl), rlWanted(rl, est)
	if got == "slow" || want == "slow" {
		h.r.Count(bucket + ":ratelimiter-probe-too-slow")

		return "", false
	}
	h.r.Count(bucket + ":ratelimiter-behaviour-probed")
	if got != want {
		return fmt.Sprintf("custom rate limiter (rps %d) with response_size_estimate %s:\n wanted %s\n found  %s", rl.Config().RPS, est, want, got), true
	}

	return "", false
}

// ---------------------------------------------------------------------------
// Wiring campaign: the database as internal/cmd builds it.
//
// Every case writes a configuration file section (backend.*,
// ratelimit.response_size_estimate) and an environment (PROFILES_URL,
// PROFILES_CACHE_PATH, …), lets the unchanged builder code initialise the
// profile database against the in-process gRPC backend (initial refresh with
// the configured timeout, refresh worker, debug refresher), refreshes through
// the refresher the builder registered with the context constructor the
// builder uses, and restarts the "process" (a second builder on the same
// environment) while the backend is up, stalled or failing.

type wiringConf struct {
	timeout, fullIvl, retryIvl, refreshIvl string
	est                                    string
	singleIP                               bool
}

func (c wiringConf) yaml() []byte {
	return []byte(fmt.Sprintf("ratelimit:\n    response_size_estimate: %s\nbackend:\n    timeout: %s\n    refresh_interval: %s\n"+
		"    full_refresh_interval: %s\n    full_refresh_retry_interval: %s\n    bill_stat_interval: 1m\n",
		c.est, c.timeout, c.refreshIvl, c.fullIvl, c.retryIvl))
}

func mustDur(s string) time.Duration {
	d, err := time.ParseDuration(s)
	if err != nil {
		panic(err)
	}

	return d
}

type wiringSrv struct {
	srv  *pipeServer
	gs   *grpc.Server
	addr string
}

func newWiringSrv() (w *wiringSrv, err error) {
	l, err := net.Listen("tcp", "127.0.0.1:0")
	if err != nil {
		return nil, err
	}
	w = &wiringSrv{srv: &pipeServer{}, addr: l.Addr().String()}
	w.gs = grpc.NewServer(grpc.ConnectionTimeout(1*time.Second), grpc.Creds(insecure.NewCredentials()))
	backendpb.RegisterDNSServiceServer(w.gs, w.srv)
	go func() { _ = w.gs.Serve(l) }()

	return w, nil
}

func (h *harness) wiringCampaign() {
	r := h.r
	ws, err := newWiringSrv()
	if err != nil {
		r.Notes = append(r.Notes, "wiring campaign skipped: cannot listen on loopback: "+err.Error())

		return
	}
	defer ws.gs.Stop()
	rng := h.o.Rand("wiring")
	n := 36
	if h.o.Thorough() {
		n = 400
	}
	saved := respSzEst
	defer func() { timeBase, respSzEst = 1700000000, saved }()
	for i := 0; i < n; i++ {
		timeBase = 1700000000
		if rng.IntN(2) == 0 {
			timeBase = time.Now().Unix() - 1000
		}
		h.newLayout("wiring", true)
		c := wiringConf{
			timeout:    []string{"0s", "0s", "10s", "1m"}[rng.IntN(4)],
			fullIvl:    []string{"1ns", "1h", "100000h"}[rng.IntN(3)],
			retryIvl:   []string{"1ns", "1h"}[rng.IntN(2)],
			refreshIvl: "1000h",
			est:        []string{"64B", "1KB", "4KB"}[rng.IntN(3)],
			singleIP:   rng.IntN(4) == 0,
		}
		stalls := i%3 == 2
		if stalls {
			c.timeout = "250ms"
		}
		h.runWiringCase(rng, ws, c, i, stalls, false)
	}
	// The refresh worker the builder starts: two cases with a short refresh
	// interval on a server of their own (the worker outlives the case).
	for i, to := range []string{"0s", "20s"} {
		own, err := newWiringSrv()
		if err != nil {
			break
		}
		h.newLayout("wiring", true)
		h.runWiringCase(rng, own, wiringConf{timeout: to, fullIvl: "1h", retryIvl: "1h", refreshIvl: "30ms", est: "1KB"}, n+i, false, true)
		own.gs.Stop()
	}
	h.workerLifecycle(rng)
}

// workerLifecycle runs the real agdservice.RefreshWorker (the type the builder
// starts for the profile database) over scripted refreshers whose k-th refresh
// panics, and compares the number of refreshes that ever happen with the
// model's workerEvs: the recover is outside the loop, so the first panic is
// the last refresh, while the process lives on.
func (h *harness) workerLifecycle(rng *rand.Rand) {
	r := h.r
	n := 4
	if h.o.Thorough() {
		n = 16
	}
	var mlines, mwant []string
	for i := 0; i < n; i++ {
		script := make([]byte, 3+rng.IntN(5))
		for k := range script {
			script[k] = 'e'
		}
		if i%4 != 3 {
			script[rng.IntN(len(script)-1)] = 'p'
		}
		var calls atomic.Int64
		w := agdservice.NewRefreshWorker(&agdservice.RefreshWorkerConfig{
			Context: func() (context.Context, context.CancelFunc) { return context.WithCancel(context.Background()) },
			Refresher: agdservice.RefresherFunc(func(context.Context) error {
				k := int(calls.Add(1)) - 1
				if k < len(script) && script[k] == 'p' {
					panic("scripted panic inside Refresh")
				}

				return nil
			}),
			Logger:   slogutil.NewDiscardLogger(),
			Interval: 2 * time.Millisecond,
		})
		_ = w.Start(context.Background())
		want := len(script)
		if k := strings.IndexByte(string(script), 'p'); k >= 0 {
			want = k + 1
		}
		deadline := time.Now().Add(5 * time.Second)
		for int(calls.Load()) < want && time.Now().Before(deadline) {
			time.Sleep(time.Millisecond)
		}
		// Ticks go on for some time: does anything still refresh?
		time.Sleep(40 * time.Millisecond)
		got := min(int(calls.Load()), len(script))
		_ = w.Shutdown(context.Background())
		mlines = append(mlines, "worker "+string(script))
		mwant = append(mwant, strconv.Itoa(got))
		r.Count("wiring:worker-lifecycle-cases")
		if got < len(script) {
			r.Count("wiring:worker-stopped-by-panic")
		}
	}
	ans := h.m.Batch(mlines)
	r.ModelOps += len(mlines)
	for k := range mlines {
		if ans[k] != mwant[k] {
			r.Disagree("model-vs-refresh-worker", fmt.Sprintf("%q: model applies %s refreshes, the real RefreshWorker ran %s", mlines[k], ans[k], mwant[k]), map[string]any{"campaign": "wiring", "line": mlines[k]})

			break
		}
	}
}

// guardPanic runs f and returns what it panicked with, if anything.
func guardPanic(f func()) (pv any) {
	defer func() { pv = recover() }()
	f()

	return nil
}

func (h *harness) runWiringCase(rng *rand.Rand, ws *wiringSrv, c wiringConf, caseNo int, stalls, worker bool) {
	r := h.r
	srv := ws.srv
	dir := filepath.Join(h.dir, "wiring", strconv.Itoa(caseNo))
	hlib.Must(os.MkdirAll(dir, 0o700))
	path := filepath.Join(dir, "profilecache.pb")
	var est datasize.ByteSize
	hlib.Must(est.UnmarshalText([]byte(c.est)))
	respSzEst = est
	timeout, fullIvl, retryIvl := mustDur(c.timeout), mustDur(c.fullIvl), mustDur(c.retryIvl)

	pb := newPBackend()
	*srv = pipeServer{UnimplementedDNSServiceServer: srv.UnimplementedDNSServiceServer, pb: pb}
	if caseNo%2 == 0 {
		// A message well below PROFILES_MAX_RESP_SIZE, well above a thousandth of it.
		srv.fat = 2000
		r.Count("wiring:profile-of-some-tens-of-kilobytes")
	}
	var log, mlines, mwant []string
	log = append(log, "configuration: "+strings.ReplaceAll(strings.TrimSpace(string(c.yaml())), "\n    ", " "), "PROFILES_CACHE_PATH="+path)
	reported := map[string]bool{}
	violate := func(sig, what string) {
		if reported[sig] {
			return
		}
		reported[sig] = true
		r.Violate("wiring:"+sig, what, map[string]any{"campaign": "wiring", "config": string(c.yaml()), "log": slices.Clone(log), "addresses": layoutText(),
			"how": "cmd.VerifC14InitProfileDB (the builder's setServerGroupProperties, initGRPCMetrics, initProfileDB on this configuration) against an in-process gRPC backend; `refresh` = the refresher the builder registered, run under the builder's refresh context"})
	}
	if err := cmd.VerifC14ValidateBackend(c.yaml()); err != nil {
		violate("documented-configuration-rejected", fmt.Sprintf("the backend section is refused at start-up: %v", err))

		return
	}

	env := &cmd.VerifC14Env{
		ProfilesURL:         &url.URL{Scheme: "grpc", Host: ws.addr},
		ProfilesCachePath:   path,
		ProfilesMaxRespSize: 1 * datasize.MB,
		BindPrefixes: []netip.Prefix{
			netip.MustParsePrefix("198.51.100.0/24"),
			netip.MustParsePrefix("2001:db8:100::/40"),
			netip.MustParsePrefix("::ffff:198.51.100.0/120"),
		},
	}
	if c.singleIP {
		// Only single-address binds: dedicated addresses are checked for
		// validity only.
		env.BindPrefixes = []netip.Prefix{netip.MustParsePrefix("198.51.100.1/32"), netip.MustParsePrefix("2001:db8:100::1/128")}
		r.Count("wiring:bind-single-addresses-only")
	}
	ctx := context.Background()
	var w *cmd.VerifC14Wired
	var x *realDB
	ref := newReference()
	var cacheRef *reference
	cacheT := 0       // sync time of the cache file's content
	lastFullAt := 0   // 0: the process has not completed a full sync; else 1
	fullFailed := false // the last attempt at a full sync of this process failed
	dbT := 0          // sync time the database holds

	// expectFull is the kind of the next refresh as the documentation of the
	// two intervals has it.
	expectFull := func() bool {
		if fullFailed {
			return retryIvl <= time.Millisecond
		}
		var last time.Time
		switch {
		case lastFullAt != 0:
			last = time.Now().Add(-time.Second)
		case dbT != 0:
			last = timeOf(dbT)
		default:
			return true
		}

		return time.Since(last) >= fullIvl
	}

	lookAll := func(fromCacheOnly bool) {
		for _, o := range allLookups() {
			res := x.look(o.kind, o.a, o.b)
			log = append(log, keyText(o)+" -> "+res.kind+" "+res.pid+" "+res.did)
			h.oracle(ref, o, res, false, violate)
			r.Evaluations++
			own := ref.owners(o.kind, o.a, o.b)
			if res.kind != "ok" || len(own) != 1 || res.pid != string(pidStr(own[0].pid)) || res.did != string(didStr(own[0].did)) {
				continue
			}
			r.Count("wiring:lookups-found")
			p := ref.profs[own[0].pid]
			if a, b := canonSettings(p.expected()), canonSettings(res.p); a != b {
				violate("profile-setting-lost", fmt.Sprintf("%s: the settings of profile %s differ from what the backend sent (tag %d):\n expected %s\n found    %s", o.line(), res.pid, p.tag, a, b))
			}
			bucket := "wiring"
			if fromCacheOnly {
				bucket = "wiring:from-cache"
			}
			if what, bad := h.rlCheck(res.p.Ratelimiter, est, bucket); bad {
				violate("ratelimiter-behaviour-differs", fmt.Sprintf("%s: profile %s: %s", o.line(), res.pid, what))
			}
			if dr, isDef := res.p.Ratelimiter.(*agd.DefaultRatelimiter); isDef && len(mlines) < 60 {
				// The model of the limiter made by backendpb and read back from
				// the cache, both with the configured estimate.
				if txt, n := rlProbeN(dr); txt != "slow" && n >= 0 {
					mlines = append(mlines, fmt.Sprintf("rlprobe %d %d %d %d 130", est.Bytes(), est.Bytes(), dr.Config().RPS, rlProbeMsg.Len()))
					if fromCacheOnly {
						mwant = append(mwant, fmt.Sprintf("… %d", n))
					} else {
						mwant = append(mwant, fmt.Sprintf("%d …", n))
					}
				}
			}
		}
	}

	// afterSync examines one refresh (initial or explicit) that was expected to
	// reach the backend and succeed.
	afterSync := func(what string, err error, wantFull bool) (ok bool) {
		switch {
		case err != nil:
			log = append(log, fmt.Sprintf("%s: error %v", what, err))
			violate("refresh-error", fmt.Sprintf("%s failed although the backend answers at once: %v", what, err))

			return false
		case srv.served == nil && timeout == 0:
			log = append(log, what+": the backend was not asked or the request was abandoned")
			violate("backend-timeout-zero-never-syncs", what+": with backend.timeout: 0s (documented: \"Set to 0s to disable timeouts\", accepted by the validation) "+
				"no synchronisation ever succeeds: the request context is created with context.WithTimeout(…, 0) and has expired before it is used; the database keeps answering from its start-up state")

			return false
		case srv.served == nil:
			log = append(log, what+": the backend was not asked or the request was abandoned")
			violate("refresh-never-reaches-backend", what+": the backend was not asked although it is up and the timeout is "+c.timeout)

			return false
		}
		// A partial synchronisation of a database that holds nothing asks for
		// the zero time as well (and neither clears nor stores).
		full := srv.lastSince == 0 && (dbT != 0 || wantFull)
		srv.served.full = full
		if dbT != 0 || lastFullAt != 0 || !fullFailed {
			// needsFullSync of the model on the clock readings of this moment
			// (the margins are hours).
			sinceFull := int64(time.Second)
			switch {
			case lastFullAt != 0:
			case dbT != 0:
				sinceFull = int64(time.Since(timeOf(dbT)))
			default:
				sinceFull = int64(1 << 62)
			}
			sinceErr := "-"
			if fullFailed {
				sinceErr = strconv.FormatInt(int64(time.Millisecond), 10)
			}
			mlines = append(mlines, fmt.Sprintf("needfull %d %d %d %s", int64(fullIvl), int64(retryIvl), sinceFull, sinceErr))
			mwant = append(mwant, b01(full))
		}
		log = append(log, fmt.Sprintf("%s: %s (asked since %d)", what, srv.served.line(), srv.lastSince))
		if srv.hadDeadline != (timeout > 0) {
			violate("backend-timeout-not-applied", fmt.Sprintf("%s: backend.timeout is %s, the request to the backend had a deadline: %t", what, c.timeout, srv.hadDeadline))
		}
		if full != wantFull {
			violate("sync-kind-not-as-configured", fmt.Sprintf("%s asked for the changes since %d; with full_refresh_interval %s, full_refresh_retry_interval %s a %s synchronisation was due (last full attempt failed: %t, sync time held: %d)",
				what, srv.lastSince, c.fullIvl, c.retryIvl, map[bool]string{true: "full", false: "partial"}[wantFull], fullFailed, dbT))
		} else if !full && srv.lastSince != dbT {
			violate("request-sync-point-never-sent", fmt.Sprintf("%s asked for the changes since %d, the database held the data of %d", what, srv.lastSince, dbT))
		}
		ref = pipeReference(pb)
		dbT = srv.served.t
		if full {
			lastFullAt, fullFailed = 1, false
			cacheRef, cacheT = pipeReference(pb), srv.served.t
			if _, serr := os.Stat(path); serr != nil {
				violate("cache-file-not-written", fmt.Sprintf("%s: a full synchronisation succeeded, PROFILES_CACHE_PATH=%s does not exist: %v", what, path, serr))
			}
			r.Count("wiring:sync-full")
		} else {
			r.Count("wiring:sync-partial")
		}

		return true
	}

	dead := false
	open := func(what string) (ok bool) {
		srv.served = nil
		wantFull := expectFull()
		var err error
		if pv := guardPanic(func() {
			w, err = cmd.VerifC14InitProfileDB(ctx, c.yaml(), env, slogutil.NewDiscardLogger(), &errColl{})
		}); pv != nil {
			// cmd.Main recovers with slogutil.RecoverAndExit: the process
			// ends here at every start until the backend's data changes.
			if srv.served != nil {
				log = append(log, srv.served.line(), "wire: "+sparseText(pb, srv.served))
			}
			log = append(log, fmt.Sprintf("%s: builder.initProfileDB PANICS: %v", what, pv))
			violate("start-panics", fmt.Sprintf("%s: the initial refresh panicked on a well-formed answer of the backend: %v", what, pv))
			w, dead = nil, true

			return false
		}
		if err != nil && (srv.fail || w == nil) {
			log = append(log, fmt.Sprintf("%s: start-up error %v", what, err))
			if !srv.fail {
				violate("start-failed", fmt.Sprintf("%s: initialisation failed: %v", what, err))
			}

			return false
		}
		x = &realDB{db: w.DB, st: &storage{}, path: path}
		{
			rctx, cancel := w.NewRefreshCtx()
			_, has := rctx.Deadline()
			cancel()
			mlines = append(mlines, fmt.Sprintf("ctxdl %d", int64(timeout)))
			mwant = append(mwant, map[bool]string{true: "some", false: "none"}[has])
			if has != (timeout > 0) {
				violate("backend-timeout-not-applied", fmt.Sprintf("backend.timeout %s: the refresh context has a deadline: %t", c.timeout, has))
			}
		}
		if w.BackendTimeout != timeout {
			violate("backend-timeout-not-applied", fmt.Sprintf("backend.timeout %s was parsed as %s", c.timeout, w.BackendTimeout))
		}
		if srv.stall {
			// The data of the cache, the sync point of the cache.
			log = append(log, what+": the backend does not answer within backend.timeout")
			if wantFull {
				fullFailed = true
			}

			return true
		}

		return afterSync(what, err, wantFull)
	}

	for _, name := range pb.mutate(rng, 8+rng.IntN(12)) {
		r.Count("wiring:mut:" + name)
	}
	if !open("first start (no cache file)") {
		r.Case("wiring\n"+fmt.Sprint(log), true)

		return
	}
	lookAll(false)

	if worker {
		// The refresh worker started by the builder must bring in the next
		// change by itself.
		pb.mutate(rng, 3)
		before := srv.calls
		srv.served = nil
		deadline := time.Now().Add(8 * time.Second)
		for (srv.calls == before || srv.served == nil) && time.Now().Before(deadline) {
			time.Sleep(5 * time.Millisecond)
		}
		// The next request of the worker starts after the answer was applied.
		for at := srv.calls; srv.served != nil && srv.calls == at && time.Now().Before(deadline); {
			time.Sleep(5 * time.Millisecond)
		}
		srv.stall = true // no further answers
		time.Sleep(20 * time.Millisecond)
		if srv.served == nil {
			sig := "refresh-worker-never-syncs"
			if timeout == 0 {
				sig = "backend-timeout-zero-never-syncs"
			}
			violate(sig, fmt.Sprintf("refresh_interval %s, backend.timeout %s: within 8 s the refresh worker made %d requests, none was answered (its context had expired before the request was sent)", c.refreshIvl, c.timeout, srv.calls-before))
		} else {
			ref = pipeReference(pb)
			log = append(log, "refresh worker synchronised: "+srv.served.line())
			lookAll(false)
			r.Count("wiring:refresh-worker-synchronised")
		}
		r.Case("wiring\n"+fmt.Sprint(log), true)
		r.Count("wiring:cases")

		return
	}

	steps := 3 + rng.IntN(5)
	for k := 0; k < steps; k++ {
		ch := rng.IntN(10)
		if dead {
			break
		}
		if w == nil {
			// The last start was aborted: there is no process to refresh.
			ch = 9
		}
		switch {
		case ch < 5:
			for _, name := range pb.mutate(rng, rng.IntN(4)) {
				r.Count("wiring:mut:" + name)
			}
			srv.served = nil
			wantFull := expectFull()
			rctx, cancel := w.NewRefreshCtx()
			var err error
			pv := guardPanic(func() { err = w.Refresher.Refresh(rctx) })
			cancel()
			if pv != nil {
				if srv.served != nil {
					log = append(log, srv.served.line(), "wire: "+sparseText(pb, srv.served))
				}
				log = append(log, fmt.Sprintf("refresh PANICS: %v", pv))
				violate("refresh-panics", fmt.Sprintf("a refresh panicked on a well-formed answer of the backend: %v (agdservice.RefreshWorker recovers outside its loop: no later synchronisation)", pv))
				r.Case("wiring\n"+fmt.Sprint(log), false)

				return
			}
			if afterSync("refresh", err, wantFull) {
				lookAll(false)
			}
		default:
			mode := rng.IntN(4)
			if !stalls && mode == 1 {
				mode = 0
			} else if stalls && rng.IntN(2) == 0 {
				mode = 1
			}
			lastFullAt, fullFailed = 0, false
			if cacheRef != nil && len(cacheRef.profs) > 0 && len(cacheRef.devs) > 0 {
				dbT = cacheT
			} else {
				dbT = 0
			}
			switch mode {
			case 1:
				// The backend accepts the request and stays silent: start-up
				// goes on with the cache after backend.timeout.
				srv.stall = true
				ok := open("restart, backend silent")
				srv.stall = false
				if !ok {
					continue
				}
				if dbT != 0 {
					ref = &reference{profs: cacheRef.profs, devs: cacheRef.devs, wf: true}
					r.Count("wiring:restart-serves-cache-while-backend-silent")
				} else {
					ref = newReference()
				}
				lookAll(true)
			case 2:
				// The backend refuses: start-up is aborted (no database to ask).
				// (The property asks nothing of a process that does not start.)
				srv.fail = true
				ok := open("restart, backend unavailable")
				srv.fail = false
				if !ok {
					r.Count("wiring:restart-aborted-backend-unavailable")
				}
				if !open("restart") {
					continue
				}
				lookAll(false)
			default:
				if !open("restart") {
					continue
				}
				r.Count("wiring:restart-backend-up")
				lookAll(false)
			}
		}
	}
	ans := h.m.Batch(mlines)
	r.ModelOps += len(mlines)
	for k := range mlines {
		got := ans[k]
		if pre, ok := strings.CutSuffix(mwant[k], " …"); ok {
			got, _, _ = strings.Cut(got, " ")
			mwant[k] = pre
		} else if suf, ok := strings.CutPrefix(mwant[k], "… "); ok {
			_, got, _ = strings.Cut(got, " ")
			mwant[k] = suf
		}
		if got != mwant[k] {
			r.Disagree("model-vs-wiring", fmt.Sprintf("%q: model %q, implementation %q", mlines[k], ans[k], mwant[k]), map[string]any{"campaign": "wiring", "line": mlines[k], "config": string(c.yaml())})

			break
		}
	}
	r.Traces++
	r.Case("wiring\n"+fmt.Sprint(log), true)
	r.Count("wiring:cases")
	r.Count("wiring:timeout-" + c.timeout)
	r.Sample(map[string]any{"campaign": "wiring", "log": log[:min(len(log), 5)]}, 9)
}

