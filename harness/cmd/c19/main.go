// Command c19 is the correspondence harness and property oracle for C19 (the
// linked-IP / dynamic-DNS proxy forwards only its API, with the real client
// address).
package main

import (
	"bufio"
	"bytes"
	"context"
	"crypto/tls"
	"encoding/hex"
	"fmt"
	"io"
	"math/rand/v2"
	"net"
	"net/http"
	"net/http/httptest"
	"net/http/httptrace"
	"net/netip"
	"net/url"
	"os"
	"regexp"
	"runtime"
	"runtime/debug"
	"sort"
	"strings"
	"sync"
	"time"

	"github.com/AdguardTeam/AdGuardDNS/internal/agdhttp"
	"github.com/AdguardTeam/AdGuardDNS/internal/websvc"
	"github.com/AdguardTeam/AdGuardDNS/verifh/hlib"
	aglog "github.com/AdguardTeam/golibs/log"
)

// errColl is a silent error collector.
type errColl struct{}

func (errColl) Collect(_ context.Context, _ error) {}

// seen is what the recording backend received.
type seen struct {
	Method string
	URI    string
	Path   string
	Host   string
	Hdr    http.Header
	// Trailer is what arrived after the body.
	Trailer http.Header `json:",omitempty"`
	// Tunnel marks a request the backend read from a connection after it had
	// answered 101 Switching Protocols on it: bytes the client sent through
	// the raw tunnel of httputil.ReverseProxy.
	Tunnel bool `json:",omitempty"`
}

// view is what the handler under test was given (after net/http's parsing).
type view struct {
	Method string
	Path   string
	Remote string
	Hdr    http.Header
}

// stand is one linked-IP handler in front of the recording backend.
type stand struct {
	base string // path of the target URL
	h    http.Handler
	// shared names the stands whose handlers were built from one and the same
	// *url.URL value, as the handlers of all bind addresses are in websvc.New.
	shared  string
	tcpAddr string
	// svc is true for the stand that is a real websvc.Service (websvc.New +
	// Start): the handler is mounted by the production code and cannot be
	// wrapped, so the view is reconstructed with http.ReadRequest.
	svc bool
	// tls is true for a bind address with certificates: the harness dials it
	// with crypto/tls.
	tls bool
	// dead is true for a stand whose target URL points at a closed port.
	dead bool

	mu    sync.Mutex
	views []view
}

// dial opens a client connection to the stand.
func (st *stand) dial() (conn net.Conn, err error) {
	// The client's end of the connection is one of 127.0.0.2 .. 127.0.0.201, so
	// that the peer's address differs from the address the server listens on
	// (and from the one the proxy dials the backend from).
	dialSeq++
	d := &net.Dialer{LocalAddr: &net.TCPAddr{IP: net.IPv4(127, 0, 0, byte(2+dialSeq%200))}}
	if noSourceAddr {
		d.LocalAddr = nil
	}
	if st.tls {
		return tls.DialWithDialer(d, "tcp", st.tcpAddr, &tls.Config{InsecureSkipVerify: true, NextProtos: []string{"h2", "http/1.1"}})
	}

	return d.Dial("tcp", st.tcpAddr)
}

var (
	dialSeq int
	// noSourceAddr is set when this machine does not let a client bind
	// 127.0.0.x (probed once at start-up).
	noSourceAddr bool
)

// probeSourceAddr finds out whether clients can choose their loopback address.
func probeSourceAddr(addr string) {
	d := &net.Dialer{LocalAddr: &net.TCPAddr{IP: net.IPv4(127, 0, 0, 2)}, Timeout: 2 * time.Second}
	conn, err := d.Dial("tcp", addr)
	if err != nil {
		noSourceAddr = true

		return
	}
	_ = conn.Close()
}

type world struct {
	mu      sync.Mutex
	recs    []seen
	backend *httptest.Server
	stands  []*stand
	ua      string
	svc     *websvc.Service
	// svcIdx are the stands served by the real websvc.Service, twinIdx is the
	// bare stand that shares its target URL value with stand 0.
	svcIdx  []int
	twinIdx int
	// round 4: the decoy server, the web service built by the cmd builder with
	// its linked-IP stands and its non-DoH bind address, the stand whose
	// target is down.
	decoy     *httptest.Server
	decoyHits []seen
	wiredSvc  *websvc.Service
	wiredIdx  []int
	nonLinked *stand
	deadIdx   int

	nextID int
	// recent holds the last cases with their outcomes, by ID; late holds
	// backend records that arrived after their case had been evaluated.
	recent map[int]*pending
	late   []seen
	// byPath and byIP index the requests that are in flight together
	// (interleaved and concurrent campaigns), to name the other request in the
	// description of a violation; they do not influence any verdict.
	byPath map[string]*reqCase
	byIP   map[string]*reqCase
}

// freePort returns a currently free TCP port outside the ephemeral range.
func freePort(skip int) (ap netip.AddrPort) {
	for i := skip; i < 2000; i++ {
		port := 20000 + (os.Getpid()*31+i*7919)%12000
		l, err := net.Listen("tcp", fmt.Sprintf("127.0.0.1:%d", port))
		if err != nil {
			continue
		}
		_ = l.Close()

		return netip.AddrPortFrom(netip.MustParseAddr("127.0.0.1"), uint16(port))
	}
	panic("no free port")
}

// startService adds the stands served by websvc.New(...).Start, the production
// mounting of the linked-IP handler: one service with two bind addresses, that
// is two handlers built from the one configured TargetURL.
func (w *world) startService() {
	u, err := url.Parse(w.backend.URL)
	hlib.Must(err)
	aps := []netip.AddrPort{freePort(0), freePort(1000)}
	w.svc = websvc.New(&websvc.Config{
		LinkedIP:      &websvc.LinkedIPServer{TargetURL: u, Bind: []*websvc.BindData{{Address: aps[0]}, {Address: aps[1]}}},
		StaticContent: http.NotFoundHandler(),
		DNSCheck:      http.NotFoundHandler(),
		ErrColl:       errColl{},
		Timeout:       10 * time.Second,
	})
	hlib.Must(w.svc.Start(context.Background()))
	for _, ap := range aps {
		for i := 0; ; i++ {
			conn, err := net.Dial("tcp", ap.String())
			if err == nil {
				_ = conn.Close()

				break
			}
			if i > 500 {
				panic("websvc linked-ip server did not come up: " + err.Error())
			}
			time.Sleep(10 * time.Millisecond)
		}
		w.svcIdx = append(w.svcIdx, len(w.stands))
		w.stands = append(w.stands, &stand{base: "", tcpAddr: ap.String(), svc: true, shared: "service"})
	}
}

func newWorld() (w *world) {
	w = &world{ua: agdhttp.UserAgent()}
	w.backend = httptest.NewServer(http.HandlerFunc(func(rw http.ResponseWriter, r *http.Request) {
		_, _ = io.Copy(io.Discard, r.Body)
		w.mu.Lock()
		w.recs = append(w.recs, seen{Method: r.Method, URI: r.RequestURI, Path: r.URL.Path, Host: r.Host, Hdr: r.Header.Clone(),
			Trailer: r.Trailer.Clone()})
		w.mu.Unlock()
		if up := r.Header.Get("Upgrade"); up != "" && asksUpgrade(r.Header) {
			// A backend that honours protocol switches (WebSocket, h2c, …):
			// it answers 101 and goes on reading from the same connection.
			// What arrives there is recorded like any other request.
			if hj, ok := rw.(http.Hijacker); ok {
				conn, brw, err := hj.Hijack()
				if err == nil {
					_, _ = fmt.Fprintf(brw, "HTTP/1.1 101 Switching Protocols\r\nConnection: Upgrade\r\nUpgrade: %s\r\n\r\n", up)
					_ = brw.Flush()
					_ = conn.SetReadDeadline(time.Now().Add(2 * time.Second))
					if r2, rerr := http.ReadRequest(brw.Reader); rerr == nil {
						w.mu.Lock()
						w.recs = append(w.recs, seen{Method: r2.Method, URI: r2.RequestURI, Path: r2.URL.Path, Host: r2.Host,
							Hdr: r2.Header.Clone(), Tunnel: true})
						w.mu.Unlock()
					}
					_ = conn.Close()

					return
				}
			}
		}
		if w.backendFault(rw, r) {
			return
		}
		rw.Header().Set("Server", "backend")
		if r.Header.Get(closeHdr) != "" {
			// The backend closes the connection after this answer, so that the
			// proxy's transport has one idle connection less.
			rw.Header().Set("Connection", "close")
		}
		_, _ = io.WriteString(rw, "backend-ok")
	}))
	// The first base path is used twice with one and the same *url.URL value:
	// stand 0 and its twin (the last bare stand).
	var first *url.URL
	for i, base := range []string{"", "/api", "/v1/", ""} {
		u, err := url.Parse(w.backend.URL + base)
		hlib.Must(err)
		st := &stand{base: base}
		switch i {
		case 0:
			first, st.shared = u, "bare"
		case 3:
			u, st.shared = first, "bare"
			w.twinIdx = i
		}
		inner := websvc.VerifC19LinkedIPHandler(u, errColl{}, "verif", 5*time.Second)
		// The snapshot wrapper is the only thing between the server and the
		// handler, like in websvc.New, where the handler is mounted on a bare
		// http.Server; it does not clean the path.
		st.h = http.HandlerFunc(func(rw http.ResponseWriter, r *http.Request) {
			st.mu.Lock()
			st.views = append(st.views, view{Method: r.Method, Path: r.URL.Path, Remote: r.RemoteAddr, Hdr: r.Header.Clone()})
			st.mu.Unlock()
			inner.ServeHTTP(rw, r)
		})
		l, err := net.Listen("tcp", "127.0.0.1:0")
		hlib.Must(err)
		st.tcpAddr = l.Addr().String()
		srv := &http.Server{Handler: st.h, ReadHeaderTimeout: 5 * time.Second}
		go func() { _ = srv.Serve(l) }()
		w.stands = append(w.stands, st)
	}

	return w
}

func (w *world) takeRecs() (recs []seen) {
	w.mu.Lock()
	defer w.mu.Unlock()
	recs, w.recs = w.recs, nil

	return recs
}

func (st *stand) takeViews() (vs []view) {
	st.mu.Lock()
	defer st.mu.Unlock()
	vs, st.views = st.views, nil

	return vs
}

// ----- request cases -----

type hdrKV struct{ K, V string }

type reqCase struct {
	Stand  int     `json:"stand"`
	TCP    bool    `json:"tcp"`
	Method string  `json:"method"`
	Target string  `json:"target"`
	Hdrs   []hdrKV `json:"headers"`
	Remote string  `json:"remote,omitempty"` // in-process only
	WantIP string  `json:"want_ip,omitempty"`
	BadRem bool    `json:"bad_remote,omitempty"`
	// Body is the request body (sent with methods that carry one).
	Body string `json:"body,omitempty"`
	// ID is put on the wire as X-Verif-Case, so that every record of the
	// backend can be attributed to the request that caused it.
	ID int `json:"id,omitempty"`
	// InFlightWith describes the other requests that were in flight together
	// with this one (interleaved and concurrent campaigns).
	InFlightWith string `json:"in_flight_with,omitempty"`
	// Host is the Host header when HostSet ("<none>": no Host header at all);
	// otherwise link-ip.example.
	Host    string `json:"host,omitempty"`
	HostSet bool   `json:"host_set,omitempty"`
	// Proto is the protocol version of the request line (default HTTP/1.1).
	Proto string `json:"proto,omitempty"`
	// Chunked sends the body with chunked transfer coding, followed by the
	// trailer fields Trailers (announced in a Trailer header).
	Chunked  bool    `json:"chunked,omitempty"`
	Trailers []hdrKV `json:"trailers,omitempty"`
	// TLS makes the in-process request look like one that arrived over TLS.
	TLS bool `json:"tls,omitempty"`
	// OddWire marks cases whose request line, Host or header syntax (not the
	// request target) may make net/http refuse the request by itself.
	OddWire bool `json:"odd_wire,omitempty"`
	// Fault is what the recording backend is asked to do with this request
	// (header X-Verif-Fault, see backendFault); Abort makes the client close
	// its connection before the answer.
	Fault string `json:"backend_fault,omitempty"`
	Abort bool   `json:"client_aborts,omitempty"`
	// RawOverride, when set, is what goes on the wire ("<ID>" is replaced by
	// the case number); Method and Target repeat its request line.
	RawOverride string `json:"raw_override,omitempty"`
	// OnConn describes the sequence of requests this one shared a client
	// connection with.
	OnConn string `json:"on_connection,omitempty"`
}

const caseHdr = "X-Verif-Case"

// closeHdr asks the recording backend to close the connection.
const closeHdr = "X-Verif-Close"

func (c *reqCase) raw() []byte {
	if c.RawOverride != "" {
		return []byte(strings.ReplaceAll(c.RawOverride, "<ID>", fmt.Sprint(c.ID)))
	}
	var b bytes.Buffer
	proto := c.Proto
	if proto == "" {
		proto = "HTTP/1.1"
	}
	fmt.Fprintf(&b, "%s %s %s\r\n", c.Method, c.Target, proto)
	switch {
	case !c.HostSet:
		b.WriteString("Host: link-ip.example\r\n")
	case c.Host != "<none>":
		fmt.Fprintf(&b, "Host: %s\r\n", c.Host)
	}
	for _, kv := range c.Hdrs {
		fmt.Fprintf(&b, "%s: %s\r\n", kv.K, kv.V)
	}
	if c.ID != 0 {
		fmt.Fprintf(&b, "%s: %d\r\n", caseHdr, c.ID)
	}
	hasBody := c.Method == "POST" || c.Method == "PUT" || c.Method == "PATCH"
	switch {
	case c.Chunked:
		b.WriteString("Transfer-Encoding: chunked\r\n")
		if len(c.Trailers) > 0 {
			var names []string
			for _, kv := range c.Trailers {
				names = append(names, kv.K)
			}
			fmt.Fprintf(&b, "Trailer: %s\r\n", strings.Join(names, ", "))
		}
		b.WriteString("\r\n")
		if c.Body != "" {
			fmt.Fprintf(&b, "%x\r\n%s\r\n", len(c.Body), c.Body)
		}
		b.WriteString("0\r\n")
		for _, kv := range c.Trailers {
			fmt.Fprintf(&b, "%s: %s\r\n", kv.K, kv.V)
		}
		b.WriteString("\r\n")
	case hasBody:
		fmt.Fprintf(&b, "Content-Length: %d\r\n\r\n%s", len(c.Body), c.Body)
	default:
		b.WriteString("\r\n")
	}

	return b.Bytes()
}

func (c *reqCase) canon() string {
	var b strings.Builder
	fmt.Fprintf(&b, "%d|%v|%s|%s|%s", c.Stand, c.TCP, c.Method, c.Target, c.Remote)
	if c.HostSet || c.Proto != "" || c.Chunked || c.TLS {
		fmt.Fprintf(&b, "|host:%v:%s|%s|chunked:%v:%v|tls:%v", c.HostSet, c.Host, c.Proto, c.Chunked, c.Trailers, c.TLS)
	}
	if c.Body != "" {
		fmt.Fprintf(&b, "|body:%s", c.Body)
	}
	if c.RawOverride != "" {
		fmt.Fprintf(&b, "|raw:%s", c.RawOverride)
	}
	if c.Abort {
		b.WriteString("|abort")
	}
	for _, kv := range c.Hdrs {
		fmt.Fprintf(&b, "|%s:%s", kv.K, kv.V)
	}

	return b.String()
}

// outcome is the observable result of one case on the real code.
type outcome struct {
	parsed   bool // the handler was reached
	v        view
	status   int
	body     string
	recs     []seen
	panicked any
	ioErr    error
}

func (w *world) run(c *reqCase) (o outcome) {
	st := w.stands[c.Stand]
	w.late = append(w.late, w.takeRecs()...)
	st.takeViews()
	w.nextID++
	c.ID = w.nextID
	var svcView *view
	if st.svc && !c.TCP {
		panic("the real-service stand is reachable over TCP only")
	}
	if c.TCP {
		conn, err := st.dial()
		hlib.Must(err)
		defer conn.Close()
		c.WantIP = conn.LocalAddr().(*net.TCPAddr).IP.String()
		if st.svc {
			// "OPTIONS *" is answered by net/http's server itself (200, empty)
			// and never reaches any handler, on every stand.
			if req, rerr := http.ReadRequest(bufio.NewReader(bytes.NewReader(c.raw()))); rerr == nil && !(req.Method == "OPTIONS" && req.RequestURI == "*") {
				svcView = &view{Method: req.Method, Path: req.URL.Path, Remote: conn.LocalAddr().String(), Hdr: req.Header}
			}
		}
		// (A write error is not fatal: the server may have answered and closed
		// the connection before it had read the whole request.)
		_, werr := conn.Write(c.raw())
		_ = conn.SetReadDeadline(time.Now().Add(10 * time.Second))
		if c.Abort {
			// The client goes away while the backend is still busy.
			time.Sleep(30 * time.Millisecond)
			_ = conn.Close()
			time.Sleep(150 * time.Millisecond)
		}
		br := bufio.NewReader(conn)
		resp, err := http.ReadResponse(br, &http.Request{Method: c.Method})
		for err == nil && resp.StatusCode >= 100 && resp.StatusCode < 200 && resp.StatusCode != http.StatusSwitchingProtocols {
			// 100 Continue and other interim answers
			resp, err = http.ReadResponse(br, &http.Request{Method: c.Method})
		}
		if err != nil {
			o.ioErr = err
			if werr != nil {
				o.ioErr = werr
			}
		} else if resp.StatusCode == http.StatusSwitchingProtocols {
			// The proxy has joined this connection and a backend connection:
			// show what that means by sending a request no client may make.
			o.status = resp.StatusCode
			_, _ = fmt.Fprintf(conn, "POST /admin/link/victim-device HTTP/1.1\r\nHost: backend\r\nX-Connecting-Ip: 6.6.6.6\r\n"+
				"%s: %d\r\nContent-Length: 0\r\n\r\n", caseHdr, c.ID)
			for i := 0; i < 200; i++ {
				w.mu.Lock()
				n := 0
				for _, rec := range w.recs {
					if rec.Tunnel {
						n++
					}
				}
				w.mu.Unlock()
				if n > 0 {
					break
				}
				time.Sleep(10 * time.Millisecond)
			}
		} else {
			b, _ := io.ReadAll(resp.Body)
			_ = resp.Body.Close()
			o.status, o.body = resp.StatusCode, string(b)
		}
	} else {
		req, err := http.ReadRequest(bufio.NewReader(bytes.NewReader(c.raw())))
		if err != nil {
			o.status = 400

			return o
		}
		req.RemoteAddr = c.Remote
		if c.TLS {
			req.TLS = &tls.ConnectionState{Version: tls.VersionTLS13, HandshakeComplete: true, ServerName: "link-ip.example"}
		}
		rec := httptest.NewRecorder()
		func() {
			defer func() { o.panicked = recover() }()
			st.h.ServeHTTP(rec, req)
		}()
		o.status, o.body = rec.Code, rec.Body.String()
	}
	vs := st.takeViews()
	if len(vs) > 0 {
		o.parsed, o.v = true, vs[0]
	}
	if svcView != nil && o.ioErr == nil && !(c.OddWire && (o.status == 400 || o.status == 505)) {
		// (The server refuses some requests that http.ReadRequest accepts - a
		// malformed or missing Host, an unsupported version - with 400 or 505,
		// which the handler never answers.)
		o.parsed, o.v = true, *svcView
	}
	for _, rec := range w.takeRecs() {
		if rec.Hdr.Get(caseHdr) == fmt.Sprint(c.ID) {
			o.recs = append(o.recs, rec)
		} else {
			w.late = append(w.late, rec)
		}
	}
	if !o.parsed && svcView != nil && o.ioErr != nil && len(o.recs) > 0 {
		// No (complete) answer came back, but the backend was contacted: the
		// handler did see the request.
		o.parsed, o.v = true, *svcView
	}

	return o
}

// settleLate evaluates backend records that turned up after their own case
// had been evaluated (the proxy's transport may send an idempotent request
// again after a connection error): the oracle is run on the record with its
// own case.  A record for a case that was answered locally is a violation like
// any other forwarded request.
func (w *world) settleLate(r *hlib.Result) {
	late := w.late
	w.late = nil
	for _, rec := range late {
		r.Count("backend.late-record")
		var id int
		_, _ = fmt.Sscan(rec.Hdr.Get(caseHdr), &id)
		p := w.recent[id]
		if p == nil {
			// Every request this harness sends carries the number of its case;
			// requests hidden in bodies carry the marker "smuggled".  A record
			// that belongs to no case is a request the backend received
			// although no client request (as net/http and the handler read the
			// connection) stands for it.
			r.Count("backend.late-record.case-unknown")
			r.Violate("backend-request-without-client-request", fmt.Sprintf("the backend received %s %q with marker %q and X-Connecting-IP %q, "+
				"which is not the forwarded form of any request a client sent", rec.Method, rec.URI, rec.Hdr.Get(caseHdr), rec.Hdr["X-Connecting-Ip"]),
				map[string]any{"backend_saw": rec})

			continue
		}
		if len(p.o.recs) > 0 {
			r.Count("backend.late-record.duplicate-delivery")
		}
		o := p.o
		o.recs = []seen{rec}
		w.oracle(r, p.c, o)
	}
}

// ----- canonical forms shared with the model driver -----

func hx(s string) string {
	if s == "" {
		return "-"
	}

	return hex.EncodeToString([]byte(s))
}

var forwardingNames = []string{
	"Cf-Connecting-Ip", "Forwarded", "True-Client-Ip", "X-Real-Ip", "X-Forwarded-For", "X-Forwarded-Host",
	"X-Forwarded-Proto",
}

var watched = append(append([]string{"X-Connecting-Ip", "X-Request-Id"}, forwardingNames...),
	"User-Agent", "X-Custom", "X-Client-Ip", "Connection", "Upgrade")

func looksGeneratedID(v string) bool {
	if len(v) != 22 {
		return false
	}
	for _, c := range v {
		if !(c >= 'a' && c <= 'z' || c >= 'A' && c <= 'Z' || c >= '0' && c <= '9' || c == '-' || c == '_') {
			return false
		}
	}

	return true
}

func showHdrs(h http.Header) string {
	var items []string
	for _, n := range watched {
		vs := h[n]
		if len(vs) == 0 {
			continue
		}
		hs := make([]string, len(vs))
		for i, v := range vs {
			if n == "X-Request-Id" && looksGeneratedID(v) {
				v = "ID"
			}
			hs[i] = hx(v)
		}
		items = append(items, n+"="+strings.Join(hs, ","))
	}
	if len(items) == 0 {
		return "-"
	}

	return strings.Join(items, ";")
}

// modelLine is the op line for one case.  For an origin-form request target
// the model is given the raw target (op wreq) and derives the path itself, so
// that net/http's percent-decoding, query cut and refusals are inside the
// comparison; for the other forms it is given the parsed path (op req).
func (w *world) modelLine(c *reqCase, o outcome) string {
	var b strings.Builder
	v := o.v
	if w.stands[c.Stand].dead {
		// nobody listens on the target: op dreq / dwreq
		b.WriteString("d")
	}
	if simpleTarget(c.Method, c.Target) {
		method, remote := c.Method, c.Remote
		if o.parsed {
			method, remote = v.Method, v.Remote
		}
		fmt.Fprintf(&b, "wreq %s %s %s %s %s", hx(w.stands[c.Stand].base), hx(w.ua), hx(method), hx(c.Target), hx(remote))
	} else {
		fmt.Fprintf(&b, "req %s %s %s %s %s", hx(w.stands[c.Stand].base), hx(w.ua), hx(v.Method), hx(v.Path), hx(v.Remote))
	}
	names := make([]string, 0, len(v.Hdr))
	for n := range v.Hdr {
		names = append(names, n)
	}
	sort.Strings(names)
	for _, n := range names {
		for _, val := range v.Hdr[n] {
			fmt.Fprintf(&b, " %s %s", hx(n), hx(val))
		}
	}

	return b.String()
}

var (
	reSchemeAuthority = regexp.MustCompile(`^[A-Za-z][A-Za-z0-9+.-]*://([^/]*)`)
	reSimpleAuthority = regexp.MustCompile(`^[A-Za-z0-9.-]*(:[0-9]*)?$`)
)

// simpleTarget reports whether the model covers the request target as it is on
// the wire: every form except an absolute URL whose authority has userinfo, a
// bracketed IP literal, escapes or other characters with validation rules of
// their own in net/url (for those the model is given the parsed path).
func simpleTarget(method, target string) bool {
	t := target
	if method == "CONNECT" && !strings.HasPrefix(t, "/") {
		t = "http://" + t
	}
	m := reSchemeAuthority.FindStringSubmatch(t)

	return m == nil || reSimpleAuthority.MatchString(m[1])
}

const robotsBody = agdhttp.RobotsDisallowAll

// isRobots reports whether the answer is the robots file (a HEAD answer over
// a real connection has no body).
func isRobots(o outcome) bool {
	return o.status == 200 && (o.body == robotsBody || (o.body == "" && o.v.Method == "HEAD"))
}

func realLine(o outcome) string {
	switch {
	case len(o.recs) >= 1:
		return "proxy " + hx(o.recs[0].Path) + " " + showHdrs(o.recs[0].Hdr)
	case o.status == 404:
		return "404"
	case o.status == 200 && o.body == "" && o.v.Method != "HEAD":
		// The error handler of linkedIPHandler writes nothing.
		return "proxy-error"
	case isRobots(o):
		return "robots"
	case o.status == 500:
		return "500"
	default:
		return fmt.Sprintf("status-%d", o.status)
	}
}

// ----- the property oracle (does not consult the model) -----

// rfcRemoveDots is a literal transcription of RFC 3986 section 5.2.4.
func rfcRemoveDots(in string) (out string) {
	removeLast := func(s string) string {
		i := strings.LastIndexByte(s, '/')
		if i < 0 {
			return ""
		}

		return s[:i]
	}
	for len(in) > 0 {
		switch {
		case strings.HasPrefix(in, "../"):
			in = in[3:]
		case strings.HasPrefix(in, "./"):
			in = in[2:]
		case strings.HasPrefix(in, "/./"):
			in = in[2:]
		case in == "/.":
			in = "/"
		case strings.HasPrefix(in, "/../"):
			in = in[3:]
			out = removeLast(out)
		case in == "/..":
			in = "/"
			out = removeLast(out)
		case in == "." || in == "..":
			in = ""
		default:
			i := 0
			if in[0] == '/' {
				i = 1
			}
			j := strings.IndexByte(in[i:], '/')
			if j < 0 {
				out += in
				in = ""
			} else {
				out += in[:i+j]
				in = in[i+j:]
			}
		}
	}

	return out
}

// documentedShape reports whether method and the absolute path rel have one of
// the four documented shapes.  Segments are whatever lies between slashes.
func documentedShape(method, rel string) bool {
	if !strings.HasPrefix(rel, "/") {
		return false
	}
	segs := strings.Split(rel[1:], "/")
	switch {
	case method == "GET" && len(segs) == 3 && segs[0] == "linkip":
	case method == "GET" && len(segs) == 4 && segs[0] == "linkip" && segs[3] == "status":
	case method == "POST" && len(segs) == 4 && segs[0] == "ddns":
	case method == "POST" && len(segs) == 3 && segs[0] == "linkip":
	default:
		return false
	}

	return true
}

func underPrefix(p string) bool {
	return strings.HasPrefix(p, "/linkip/") || strings.HasPrefix(p, "/ddns/")
}

// pathClass names the input class of a path for violation signatures.
func pathClass(p string) string {
	for _, s := range strings.Split(p, "/") {
		if s == "." || s == ".." {
			return "dot-segment"
		}
	}
	if strings.Contains(p, "//") {
		return "empty-segment"
	}

	return "other"
}

// checkForwardedPath checks the allow-list clauses for one request that
// reached the backend: method, the path the client put on the wire (decoded)
// and the path the backend received, relative to the target's base path.
func checkForwardedPath(r *hlib.Result, method, clientPath, backendRel string, replay any) {
	for _, p := range []string{clientPath, backendRel} {
		if !documentedShape(method, "/"+strings.TrimPrefix(p, "/")) {
			r.Violate("forwarded-undocumented-shape:"+pathClass(p),
				fmt.Sprintf("backend contacted for %s %q, which is none of the four documented shapes", method, p), replay)
		}
		n := rfcRemoveDots("/" + strings.TrimPrefix(p, "/"))
		if !underPrefix(n) || !documentedShape(method, n) {
			r.Violate("forwarded-path-escapes-prefix:"+pathClass(p),
				fmt.Sprintf("backend contacted for %s %q, which normalises to %q: outside /linkip, /ddns or not an API shape", method, p, n), replay)
		}
	}
}

func (w *world) oracle(r *hlib.Result, c *reqCase, o outcome) {
	replay := map[string]any{"case": c, "raw_request": string(c.raw()), "status": o.status, "backend_saw": o.recs,
		"how": "send raw_request to an http.Server whose Handler is websvc.linkedIPHandler(target = recording backend + base path)"}
	if c.InFlightWith != "" {
		replay["how"] = "requests in flight together, all through websvc.linkedIPHandler(target = recording backend + base path of the stand; " +
			"stand 0 and the last bare stand are two handlers built from one *url.URL value, like the handlers of several bind addresses in websvc.New): " +
			c.InFlightWith + ". '#a ... [at its P: #b ...]' means: request #b is served completely, in-process, from inside the hook P of request #a " +
			"(rw.* = method of the http.ResponseWriter given to ServeHTTP, Body.Read = the request body, every other P = the net/http/httptrace.ClientTrace " +
			"hook of that name in the request's context); no goroutines are needed. 'round ...' means real parallel requests"
	}
	if c.OnConn != "" {
		replay["how"] = "write the requests of the sequence to ONE client connection of an http.Server whose Handler is websvc.linkedIPHandler: " + c.OnConn
	}
	if c.Fault != "" {
		replay["backend_behaviour"] = "the backend is asked (header " + faultHdr + ") to: " + c.Fault +
			" (hangup = close without answer; partial = answer cut short; 101-unasked/101-bare = switch protocols although not asked; " +
			"redirect = 307 to another server; early-hints = 103 first; slow = answer after 120 ms)"
	}
	if o.panicked != nil {
		r.Violate("handler-panic", fmt.Sprintf("handler panicked: %v", o.panicked), replay)

		return
	}
	if len(o.recs) == 0 {
		// Answered locally: 404, robots, or 500 when the peer address is unusable.
		switch {
		case !o.parsed:
			// net/http refused the request before the handler; nothing to check
			// but that the backend stayed untouched (it did).
		case o.ioErr != nil:
			// The client read no answer (it went away, or the connection
			// ended): there is no answer to judge; the backend stayed untouched.
			r.Count("req.no-answer-read.backend-untouched")
		case o.status == 404:
		case isRobots(o) && o.v.Path == "/robots.txt":
		case o.status == 500 && c.BadRem:
		case o.status == 200 && o.body == "" && unprintableUpgrade(o.v.Hdr) &&
			documentedShape(o.v.Method, "/"+strings.TrimPrefix(o.v.Path, "/")):
			// An API request that httputil.ReverseProxy refuses by itself (the
			// client asks to switch to a protocol with an unprintable name):
			// the error handler of linkedIPHandler writes nothing.  Not one of
			// the "everything else" requests that must get 404.
			r.Count("req.api-shaped.refused-by-reverse-proxy")
		case o.status == 200 && o.body == "" && w.stands[c.Stand].dead && !c.BadRem &&
			documentedShape(o.v.Method, "/"+strings.TrimPrefix(o.v.Path, "/")):
			// Nobody listens on the target: the error handler writes nothing.
			r.Count("req.api-shaped.target-down.empty-answer")
		case o.status == http.StatusSwitchingProtocols:
			r.Violate("protocol-switch-tunnel", fmt.Sprintf("client got 101 Switching Protocols for %s %q", o.v.Method, o.v.Path), replay)
		default:
			r.Violate("local-answer-not-404", fmt.Sprintf("request %s %q not forwarded but answered %d %q", o.v.Method, o.v.Path, o.status, o.body), replay)
		}

		return
	}
	if len(o.recs) > 1 {
		// Not forbidden by the property (the transport may repeat an idempotent
		// request); every delivery is checked.
		r.Count("backend.duplicate-delivery")
		for _, rec := range o.recs[1:] {
			o2 := o
			o2.recs = []seen{rec}
			w.oracle(r, c, o2)
		}
	}
	b := o.recs[0]
	st := w.stands[c.Stand]
	base := strings.TrimSuffix(st.base, "/")
	if b.Tunnel {
		r.Violate("protocol-switch-tunnel", fmt.Sprintf("the backend accepted the protocol switch that was forwarded to it and then received, "+
			"on the same connection, %s %q with X-Connecting-IP = %q from the client (peer %s): neither an API request nor the peer's address",
			b.Method, b.Path, b.Hdr["X-Connecting-Ip"], c.WantIP), replay)

		return
	}
	if asksUpgrade(b.Hdr) || len(b.Hdr["Upgrade"]) > 0 {
		r.Violate("protocol-switch-forwarded", fmt.Sprintf("forwarded request asks the backend to switch protocols (Connection: %q, Upgrade: %q); "+
			"on a 101 answer httputil.ReverseProxy joins client and backend with a raw tunnel", b.Hdr["Connection"], b.Hdr["Upgrade"]), replay)
	}
	if o.status == http.StatusSwitchingProtocols {
		r.Violate("protocol-switch-tunnel", fmt.Sprintf("client got 101 Switching Protocols for %s %q", o.v.Method, o.v.Path), replay)
	}
	for n, vs := range b.Trailer {
		if len(vs) == 0 {
			continue
		}
		for _, f := range append([]string{"X-Connecting-Ip"}, forwardingNames...) {
			if strings.EqualFold(n, f) {
				r.Violate("forged-forwarding-trailer-forwarded:"+f, fmt.Sprintf("client-supplied trailer field %s: %q reached the backend", n, vs), replay)
			}
		}
	}
	if !strings.HasPrefix(b.Path, base+"/") {
		r.Violate("forwarded-path-escapes-prefix:base", fmt.Sprintf("backend path %q not under the target path %q", b.Path, st.base), replay)

		return
	}
	if b.Method != o.v.Method {
		r.Violate("forwarded-method-changed", fmt.Sprintf("client sent %s, backend saw %s", o.v.Method, b.Method), replay)
	}
	checkForwardedPath(r, b.Method, o.v.Path, b.Path[len(base):], replay)
	// The request that reaches the backend is the client's own: the decoded
	// path below the target's base path is the decoded path the client sent.
	if own := "/" + strings.TrimPrefix(o.v.Path, "/"); b.Path[len(base):] != own {
		what := fmt.Sprintf("client %s sent %s %q, the backend was contacted for %s %q on its behalf", c.WantIP, o.v.Method, own, b.Method, b.Path[len(base):])
		if other := w.byPath[b.Path[len(base):]]; other != nil && other != c {
			what += fmt.Sprintf(": the path of the request of client %s that was in flight at the same time", other.WantIP)
		}
		r.Violate("forwarded-path-not-the-clients:"+pathClass(o.v.Path), what, replay)
	}
	// The raw request line of the backend must decode to the same path.
	if u, err := url.ParseRequestURI(b.URI); err != nil || u.Path != b.Path {
		r.Violate("backend-uri-mismatch", fmt.Sprintf("backend request URI %q does not decode to %q", b.URI, b.Path), replay)
	}
	// No segment of the raw request line may decode to a dot segment either (a
	// backend may decode before or after it normalises).
	rawPath, _, _ := strings.Cut(b.URI, "?")
	for _, seg := range strings.Split(rawPath, "/") {
		if d, err := url.PathUnescape(seg); err == nil && (d == "." || d == ".." || strings.HasPrefix(d, "../") || strings.HasSuffix(d, "/..") || strings.Contains(d, "/../")) {
			r.Violate("forwarded-path-escapes-prefix:encoded-dot-segment", fmt.Sprintf("backend request line %q has the segment %q, which decodes to a dot segment", b.URI, seg), replay)
		}
	}
	// Client address.
	got := b.Hdr["X-Connecting-Ip"]
	switch {
	case c.BadRem:
		r.Violate("forwarded-without-peer-address", fmt.Sprintf("peer address %q has no usable host part, but the request was forwarded with X-Connecting-IP = %q", c.Remote, got), replay)
	case len(got) == 0:
		r.Violate("client-ip-header-missing", fmt.Sprintf("forwarded request carries no X-Connecting-IP (peer %s)", c.WantIP), replay)
	case len(got) != 1 || got[0] != c.WantIP:
		what := fmt.Sprintf("forwarded X-Connecting-IP = %q, peer is %s", got, c.WantIP)
		if len(got) == 1 {
			if other := w.byIP[got[0]]; other != nil && other != c {
				what += fmt.Sprintf(": the address of the peer that sent %s %q at the same time", other.Method, other.Target)
			}
		}
		r.Violate("client-ip-header-wrong", what, replay)
	}
	for _, n := range forwardingNames {
		if vs, ok := b.Hdr[n]; ok {
			r.Violate("forged-forwarding-header-forwarded:"+n, fmt.Sprintf("client-supplied %s: %q reached the backend", n, vs), replay)
		}
	}
	// Any other spelling of the same names (HTTP names are case-insensitive,
	// Go canonicalises them; this guards the canonicalisation assumption).
	for n, vs := range b.Hdr {
		ln := strings.ToLower(n)
		for _, f := range forwardingNames {
			if ln == strings.ToLower(f) && n != f {
				r.Violate("forged-forwarding-header-forwarded:"+f, fmt.Sprintf("client-supplied %s: %q reached the backend", n, vs), replay)
			}
		}
		if ln == "x-connecting-ip" && n != "X-Connecting-Ip" {
			r.Violate("client-ip-header-wrong", fmt.Sprintf("second client-IP header %s: %q reached the backend", n, vs), replay)
		}
	}
}

// asksUpgrade reports whether some Connection value lists the token
// "upgrade" (own reading of RFC 9110 section 7.6.1 / 7.8: comma-separated,
// optional whitespace, case-insensitive).
func asksUpgrade(h http.Header) bool {
	for _, v := range h["Connection"] {
		for _, tok := range strings.Split(v, ",") {
			if strings.EqualFold(strings.Trim(tok, " \t"), "upgrade") {
				return true
			}
		}
	}

	return false
}

// unprintableUpgrade reports whether the request asks for a switch to a
// protocol whose name has a byte outside printable ASCII.
func unprintableUpgrade(h http.Header) bool {
	if !asksUpgrade(h) {
		return false
	}
	for _, c := range []byte(h.Get("Upgrade")) {
		if c < 0x20 || c > 0x7e {
			return true
		}
	}

	return false
}

// ----- generators -----

var methods = []string{"GET", "POST"}
var oddMethods = []string{"HEAD", "PUT", "DELETE", "OPTIONS", "PATCH", "get", "Post", "CONNECT", "TRACE", "GETX"}

var firstSegs = []string{"linkip", "ddns", "linkip", "ddns", "Linkip", "LINKIP", "linkip%2e", "", ".", "..", "%2e%2e",
	"%2E.", "robots.txt", "other", "linkip;x", "dns", "%6cinkip", "ddns%2F.."}

var segs = []string{"dev1234", "0123456789", "a", "b", "example.com", "status", "", ".", "..", "%2e", "%2e%2e", ".%2E",
	"%2E%2E", "...", "a%2Fb", "%2F", "..%2F", "%2F..", "a%20b", "x.y", "~", "a;b", "a%3Fb", "status%2F..", "%2e%2e%2fstatus",
	"..;", ". ", "%00", "\\..", "%5c..", "linkip", "ddns",
	// escapes of escapes (a second decoding would turn them into dot segments
	// or slashes), overlong and raw non-ASCII bytes
	"%252e%252e", "%252E", "%252e", "a%252Fb", "%252F..", "..%252F", "%25%32%65%25%32%65", "%2%32e", "%c0%ae%c0%ae", "%C0%AE",
	"\xc0\xae\xc0\xae", "%ff", "\xe9", "%e2%80%ae", "%2e%252e", "status%252F..", "%u002e%u002e"}

func pick(rng *rand.Rand, xs []string) string { return xs[rng.IntN(len(xs))] }

// nearMiss returns strings at a small distance from the keyword kw: the class
// of inputs that a comparison weakened to a prefix, suffix, substring,
// case-insensitive or trimmed match would wrongly accept.  raw is true for
// strings put on the wire as part of a request target (percent-escapes are
// allowed there).
func nearMiss(kw string, raw bool) (out []string) {
	if kw == "" {
		return []string{"x", ".", "%20"}
	}
	up, low := strings.ToUpper(kw), strings.ToLower(kw)
	out = []string{kw + "x", "x" + kw, kw[:len(kw)-1], kw[1:], up, low, strings.ToUpper(kw[:1]) + kw[1:],
		kw[:len(kw)-1] + strings.ToUpper(kw[len(kw)-1:]), kw + kw, kw + ".", "." + kw, kw + "-", kw + "_", kw + "1"}
	if raw {
		out = append(out, kw+"%20", "%20"+kw, kw+"%00", kw+"%09", kw+"%2F", kw+"%2Fx", "x%2F"+kw, kw+";x", kw+"%3F",
			fmt.Sprintf("%%%02x", kw[0])+kw[1:], fmt.Sprintf("%%25%02x", kw[0])+kw[1:], kw+"%252Fx", kw+"\xc2\xa0",
			strings.Replace(kw, "k", "\xe2\x84\xaa", 1), strings.Replace(kw, "s", "\xc5\xbf", 1))
	}

	return out
}

func init() {
	for _, kw := range []string{"linkip", "ddns"} {
		firstSegs = append(firstSegs, nearMiss(kw, true)...)
	}
	statusNear = nearMiss("status", true)
	segs = append(segs, statusNear...)
	for _, kw := range []string{"GET", "POST"} {
		oddMethods = append(oddMethods, nearMiss(kw, false)...)
	}
	// Only tokens are methods (RFC 9110); everything else is refused by
	// net/http before the handler, which is generated on purpose, but rarely.
	robotsNear = append([]string{"/robots.txt", "/robots.txt", "/robots.txt/", "//robots.txt", "/x/robots.txt", "/robots.txt/x"},
		func() (xs []string) {
			for _, v := range nearMiss("robots.txt", true) {
				xs = append(xs, "/"+v)
			}

			return xs
		}()...)
}

var statusNear, robotsNear []string

// idParamNames are parameter names under which dynamic-DNS and "what is my
// IP" APIs commonly accept an address from the client (query string or form
// body).  The proxy must take the address from the connection only.
var idParamNames = []string{"ip", "myip", "myipv6", "ipv4", "ipv6", "address", "addr", "client_ip", "clientip", "remote_addr",
	"remote", "real_ip", "x-connecting-ip", "X-Connecting-Ip", "x_connecting_ip", "x-real-ip", "x-forwarded-for", "forwarded",
	"hostname", "host", "device_id", "linked_ip", "connecting_ip"}

func idParams(rng *rand.Rand) string {
	var ps []string
	for k := 1 + rng.IntN(3); k > 0; k-- {
		ps = append(ps, pick(rng, idParamNames)+"="+pick(rng, []string{"6.6.6.6", "2001:db8::6", "6.6.6.6%2C1.1.1.1", ""}))
	}

	return strings.Join(ps, pick(rng, []string{"&", "&", ";"}))
}

func genTarget(rng *rand.Rand) (method, target string) {
	method = pick(rng, methods)
	var parts []string
	switch rng.IntN(10) {
	case 0, 1, 2, 3, 4, 5:
		// a documented shape, then up to two mutations
		switch rng.IntN(4) {
		case 0:
			method, parts = "GET", []string{"linkip", "dev1234", "0123456789"}
		case 1:
			method, parts = "GET", []string{"linkip", "dev1234", "0123456789", "status"}
		case 2:
			method, parts = "POST", []string{"ddns", "dev1234", "0123456789", "example.com"}
		default:
			method, parts = "POST", []string{"linkip", "dev1234", "0123456789"}
		}
		for k := rng.IntN(3); k > 0; k-- {
			i := rng.IntN(len(parts))
			switch rng.IntN(9) {
			case 7:
				// a near miss of the keyword (or identifier) in this position
				parts[i] = pick(rng, nearMiss(parts[i], true))
			case 8:
				method = pick(rng, nearMiss(method, false))
			case 0, 1, 2:
				parts[i] = pick(rng, segs)
			case 3:
				parts = append(parts[:i], append([]string{pick(rng, segs)}, parts[i:]...)...)
			case 4:
				if len(parts) > 1 {
					parts = append(parts[:i], parts[i+1:]...)
				}
			case 5:
				parts = append(parts, pick(rng, segs))
			default:
				method = pick(rng, methods)
			}
		}
	case 6, 7, 8:
		parts = []string{pick(rng, firstSegs)}
		for k := rng.IntN(6); k > 0; k-- {
			parts = append(parts, pick(rng, segs))
		}
	default:
		// special targets
		if rng.IntN(3) == 0 {
			return pick(rng, append(methods, oddMethods...)), pick(rng, robotsNear)
		}

		return pick(rng, append(methods, oddMethods...)), pick(rng, []string{"/", "/robots.txt", "*", "", "/linkip", "/ddns", "/linkip/",
			"//linkip/a/b", "/robots.txt/", "linkip/a/b", "/linkip/a/b/status/", "/linkip/a/b/status/more/stuff",
			"http://evil.example/linkip/a/b", "http://evil.example", "http://evil.example/linkip/../x",
			"/linkip/" + strings.Repeat("a", 3000) + "/b", "/" + strings.Repeat("../", 40) + "linkip/a/b"})
	}
	if rng.IntN(12) == 0 {
		method = pick(rng, oddMethods)
	}
	lead := "/"
	switch rng.IntN(20) {
	case 0:
		lead = "//"
	case 1:
		lead = pick(rng, []string{"http://evil.example/", "http://evil.example/", "HTTP://h:80/", "https://a.b-c.d:/", "x-1+y.z://h/", "http:///",
			"http:/", "http:", "http://h", "http://u:p@h/", "http://[::1]:80/", "http://h%41/", "1http://h/", "://h/", "ws://h:8/", "http://h:x/"})
	case 2:
		lead = "/./"
	case 3:
		lead = "/../"
	}
	target = lead + strings.Join(parts, "/")
	switch rng.IntN(14) {
	case 12, 13:
		target += "?" + idParams(rng)
	case 0:
		target += "/"
	case 1:
		target += "?x=1"
	case 2:
		target += "?p=/../../x"
	case 3:
		target += "/.."
	}

	return method, target
}

var hdrNames = []string{"X-Connecting-IP", "x-connecting-ip", "X-CONNECTING-IP", "CF-Connecting-IP", "cf-connecting-ip",
	"Forwarded", "forwarded", "True-Client-IP", "true-client-ip", "X-Real-IP", "x-real-ip", "X-Forwarded-For",
	"x-forwarded-for", "X-Forwarded-Host", "X-Forwarded-Proto", "X-Request-ID", "x-request-id", "X-Custom", "X-Client-IP",
	"User-Agent", "X_Connecting_IP", "Keep-Alive", "Proxy-Connection",
	// headers a handler could (wrongly) take as a sign of a trusted caller, and the protocol switch
	"Upgrade", "upgrade", "HTTP2-Settings", "Origin", "Referer", "Authorization", "Admin-Token", "Cookie", "Via",
	"X-Proxy-Target", "X-Requested-With", "Te", "Sec-WebSocket-Key"}

// overrideNames are widely used request-override and client-address headers
// of proxies, frameworks and CDNs other than the ones the code knows: a handler
// that honoured one of them would decide on one request and forward another,
// or take the client's address from the client.
var overrideNames = []string{"X-HTTP-Method-Override", "X-Method-Override", "X-HTTP-Method", "X-Original-Method", "X-Original-URL",
	"X-Rewrite-URL", "X-Original-URI", "X-Forwarded-Uri", "X-Forwarded-Path", "X-Forwarded-Prefix", "X-Forwarded-Method",
	"X-Forwarded-Port", "X-Forwarded-Server", "X-Forwarded-Scheme", "X-Forwarded-Ssl", "X-Forwarded", "Forwarded-For",
	"Client-IP", "X-Client-IP", "X-Cluster-Client-IP", "X-Originating-IP", "X-Remote-IP", "X-Remote-Addr", "X-Host",
	"Fastly-Client-IP", "X-Azure-ClientIP", "X-Envoy-External-Address", "X-Appengine-User-IP", "X-ProxyUser-IP",
	"Proxy", "X-Real-Port", "X-Linked-IP", "X-Device-ID"}

var overrideVals = []string{"GET", "POST", "DELETE", "/linkip/dev1234/0123456789", "/ddns/a/b/c", "/admin/link/victim-device",
	"/linkip/../admin", "6.6.6.6", "2001:db8::6", "for=6.6.6.6", "https", "on", "443", "<backend>", "dev1234"}

var hdrVals = []string{"6.6.6.6", "for=6.6.6.6;proto=https", "", "evil.example", "https", "1.1.1.1, 2.2.2.2", "::1",
	"10.0.0.1", "ID", "timeout=5", "websocket", "h2c", "WebSocket, h2c", "a\tb", "w\xe9b", "trailers", "127.0.0.1",
	"1.1.1.1\r\n 6.6.6.6", "\t6.6.6.6\t", "<backend>", "http://<backend>/", "1.1 <backend>", "Basic YWRtaW46YWRtaW4=",
	"AAMAAABkAARAAAAAAAIAAAAA"}

var connTokens = []string{"close", "keep-alive", "X-Connecting-IP", "x-connecting-ip", "X-Request-ID", "X-Custom",
	"x-real-ip", "User-Agent", "", " ", "X-Forwarded-For", "upgrade", "Connection", "x_connecting_ip", "X-Client-IP", "b@d",
	"Upgrade", "UPGRADE", "\tupgrade\t", "HTTP2-Settings", "upgrade;x", "upgradex", "Te"}

func genHdrs(rng *rand.Rand) (hs []hdrKV) {
	n := 0
	switch rng.IntN(4) {
	case 0:
	case 1:
		n = 1
	default:
		n = 1 + rng.IntN(6)
	}
	for i := 0; i < n; i++ {
		hs = append(hs, hdrKV{K: pick(rng, hdrNames), V: pick(rng, hdrVals)})
	}
	for k := 0; k < 2; k++ {
		if rng.IntN(4) == 0 {
			var toks []string
			for j := 1 + rng.IntN(3); j > 0; j-- {
				toks = append(toks, pick(rng, connTokens))
			}
			sep := pick(rng, []string{",", ", ", " ,"})
			hs = append(hs, hdrKV{K: pick(rng, []string{"Connection", "connection"}), V: strings.TrimSpace(strings.Join(toks, sep))})
		}
	}
	if rng.IntN(5) == 0 {
		hs = append(hs, hdrKV{K: pick(rng, overrideNames), V: pick(rng, overrideVals)})
	}
	if rng.IntN(12) == 0 {
		// a protocol switch, well formed or nearly so
		hs = append(hs, hdrKV{K: pick(rng, []string{"Connection", "connection"}),
			V: pick(rng, []string{"Upgrade", "upgrade", "keep-alive, Upgrade", "Upgrade, HTTP2-Settings", "close,upgrade", "UPGRADE , x-connecting-ip"})})
		if rng.IntN(6) != 0 {
			hs = append(hs, hdrKV{K: pick(rng, []string{"Upgrade", "upgrade"}),
				V: pick(rng, []string{"websocket", "h2c", "WebSocket", "TLS/1.0, HTTP/1.1", "a\tb", "w\xe9b", "", "x"})})
		}
	}
	rng.Shuffle(len(hs), func(i, j int) { hs[i], hs[j] = hs[j], hs[i] })

	return hs
}

// hostVals are Host header values besides the default one; "<backend>" and
// "<self>" stand for the addresses of the recording backend and of the stand.
var hostVals = []string{"<backend>", "<backend>", "<self>", "localhost", "127.0.0.1", "", "<none>", "evil.example", "[::1]:80",
	"LINK-IP.example", "link-ip.example:80", "link-ip.example.", "a b", "api.internal"}

var trailerNames = []string{"X-Connecting-IP", "X-Real-IP", "CF-Connecting-IP", "True-Client-IP", "Forwarded", "X-Forwarded-For",
	"X-Custom", "x-connecting-ip"}

// wireVariation changes the parts of the request around target and headers
// that the handler must not care about: Host, protocol version, the framing of
// the body, trailer fields, TLS.
func (w *world) wireVariation(rng *rand.Rand, c *reqCase) {
	st := w.stands[c.Stand]
	backendHost := strings.TrimPrefix(w.backend.URL, "http://")
	subst := func(v string) string {
		v = strings.ReplaceAll(v, "<backend>", backendHost)

		return strings.ReplaceAll(v, "<self>", st.tcpAddr)
	}
	for i := range c.Hdrs {
		c.Hdrs[i].V = subst(c.Hdrs[i].V)
	}
	if strings.HasPrefix(c.Target, "http://evil.example") && rng.IntN(2) == 0 {
		c.Target = "http://" + backendHost + strings.TrimPrefix(c.Target, "http://evil.example")
	}
	if rng.IntN(5) == 0 {
		c.HostSet, c.Host = true, subst(pick(rng, hostVals))
		if c.Host == "a b" || c.Host == "<none>" || c.Host == "" {
			c.OddWire = true
		}
	}
	switch rng.IntN(14) {
	case 0, 1:
		c.Proto = "HTTP/1.0"
		if rng.IntN(2) == 0 {
			c.HostSet, c.Host = true, "<none>"
		}
	case 2:
		c.Proto, c.OddWire = pick(rng, []string{"HTTP/1.2", "HTTP/2.0", "HTTP/0.9", "HTTP/1.10", "http/1.1"}), true
	}
	if rng.IntN(8) == 0 {
		c.Chunked = true
		c.Body = pick(rng, []string{"", "abc", "x=1&y=2"})
		for k := rng.IntN(4); k > 0; k-- {
			c.Trailers = append(c.Trailers, hdrKV{K: pick(rng, trailerNames), V: pick(rng, []string{"6.6.6.6", "for=6.6.6.6", "x"})})
		}
	} else if rng.IntN(8) == 0 && (c.Method == "POST" || c.Method == "PUT" || c.Method == "PATCH") {
		c.Body = pick(rng, []string{"abc", "ip=6.6.6.6", strings.Repeat("z", 5000), idParams(rng), idParams(rng)})
		if strings.Contains(c.Body, "=") {
			c.Hdrs = append(c.Hdrs, hdrKV{K: "Content-Type", V: "application/x-www-form-urlencoded"})
		}
		if rng.IntN(3) == 0 {
			c.Hdrs = append(c.Hdrs, hdrKV{K: "Expect", V: "100-continue"})
			c.OddWire = true
		}
	}
	if !c.TCP && rng.IntN(4) == 0 {
		c.TLS = true
	}
	if c.Chunked && c.Proto != "" {
		c.OddWire = true
	}
	for _, kv := range c.Hdrs {
		if strings.ContainsAny(kv.V, "\t\r") || strings.ContainsAny(kv.K, " ") {
			c.OddWire = true
		}
	}
}

type remote struct {
	addr, ip string
	bad      bool
}

var remotes = []remote{
	{"192.0.2.7:4711", "192.0.2.7", false},
	{"192.0.2.7:4711", "192.0.2.7", false},
	{"10.1.2.3:1", "10.1.2.3", false},
	{"[2001:db8::1]:65535", "2001:db8::1", false},
	{"[::1]:80", "::1", false},
	{"[fe80::1%eth0]:443", "fe80::1%eth0", false},
	{"[2001:db8::2]:65535", "2001:db8::2", false},
	{"[2001:db8:1::1]:1", "2001:db8:1::1", false},
	{"[fe80::2%eth0]:443", "fe80::2%eth0", false},
	{"[fe80::1%eth1]:443", "fe80::1%eth1", false},
	{"[::ffff:192.0.2.9]:80", "::ffff:192.0.2.9", false},
	{"127.0.0.1:9", "127.0.0.1", false},
	{"10.0.0.1:80", "10.0.0.1", false},
	{"192.0.2.70:4711", "192.0.2.70", false},
	{"198.51.100.1", "198.51.100.1", false}, // no port: used as it is
	{"2001:db8::1:80", "", true},
	{"[::1", "", true},
	{"1.2.3.4]:5", "", true},
	{"[1.2.3.4]:x:5", "", true},
}

func genCase(rng *rand.Rand, nStands int) (c *reqCase) {
	c = &reqCase{Stand: 0}
	if rng.IntN(4) == 0 {
		c.Stand = rng.IntN(nStands)
	}
	c.Method, c.Target = genTarget(rng)
	c.Hdrs = genHdrs(rng)
	if rng.IntN(5) == 0 {
		c.TCP = true
	} else {
		rm := remotes[rng.IntN(len(remotes))]
		c.Remote, c.WantIP, c.BadRem = rm.addr, rm.ip, rm.bad
	}

	return c
}

// ----- campaigns -----

type pending struct {
	c *reqCase
	o outcome
}

func (w *world) classify(r *hlib.Result, c *reqCase, o outcome) (nontrivial bool) {
	switch {
	case !o.parsed && o.status == 200 && c.Method == "OPTIONS" && c.Target == "*":
		r.Count("req.options-star-answered-by-net/http")
	case !o.parsed:
		r.Count("req.rejected-by-net/http")
	case len(o.recs) > 0:
		r.Count("req.forwarded")
		nontrivial = true
	case o.status == 500:
		r.Count("req.500-bad-peer-address")
		nontrivial = true
	case o.status == 200:
		r.Count("req.robots")
		nontrivial = true
	default:
		r.Count("req.local-404")
		p := strings.TrimPrefix(o.v.Path, "/")
		if strings.HasPrefix(p, "linkip/") || strings.HasPrefix(p, "ddns/") {
			r.Count("req.local-404.under-api-prefix")
			nontrivial = true
		}
	}
	if o.parsed {
		if pathClass(o.v.Path) == "dot-segment" {
			r.Count("path.dot-segment")
		}
		if strings.Contains(o.v.Path, "//") {
			r.Count("path.empty-segment")
		}
		if strings.Contains(c.Target, "%2F") || strings.Contains(c.Target, "%2f") {
			r.Count("path.encoded-slash")
		}
		for n := range o.v.Hdr {
			switch n {
			case "X-Connecting-Ip":
				r.Count("hdr.forged-x-connecting-ip")
			case "Connection":
				r.Count("hdr.connection-tokens")
			}
			for _, f := range forwardingNames {
				if f == n {
					r.Count("hdr.forged-forwarding")

					break
				}
			}
		}
		if len(o.recs) > 0 {
			if _, ok := o.v.Hdr["Connection"]; ok {
				r.Count("req.forwarded.with-connection-tokens")
			}
		}
	}
	if o.parsed {
		if c.HostSet {
			r.Count("wire.host-varied")
			if strings.HasPrefix(c.Host, "127.0.0.1:") {
				r.Count("wire.host-is-backend-or-self")
			}
		}
		if c.Proto == "HTTP/1.0" {
			r.Count("wire.http/1.0")
		}
		if c.Chunked {
			r.Count("wire.chunked-body")
			if len(c.Trailers) > 0 {
				r.Count("wire.trailer-fields")
			}
		}
		if c.TLS {
			r.Count("wire.tls-in-process")
		}
		if asksUpgrade(o.v.Hdr) {
			r.Count("hdr.protocol-switch")
			if len(o.recs) > 0 {
				r.Count("req.forwarded.with-protocol-switch")
			}
		}
		if i := strings.IndexByte(c.Target, '?'); i >= 0 && strings.Contains(c.Target[i:], "6.6.6.6") {
			r.Count("query.address-parameter")
		}
		if strings.Contains(c.Body, "6.6.6.6") {
			r.Count("body.address-parameter")
		}
		if strings.Contains(c.Target, "%25") {
			r.Count("path.double-encoded")
		}
		for _, ch := range []byte(c.Target) {
			if ch >= 0x80 {
				r.Count("path.non-ascii-byte")

				break
			}
		}
	}
	if c.TCP {
		r.Count("mode.tcp")
	} else {
		r.Count("mode.in-process")
	}
	if c.Stand != 0 {
		r.Count("target.with-base-path-or-real-service")
	}
	if w.stands[c.Stand].svc {
		r.Count("target.real-websvc-service")
		if len(o.recs) > 0 {
			r.Count("target.real-websvc-service.forwarded")
		}
	}

	return nontrivial
}

func (w *world) flush(r *hlib.Result, m *hlib.Model, batch []pending) {
	var lines []string
	var idx []int
	for i, p := range batch {
		if p.o.panicked != nil || p.o.ioErr != nil {
			continue
		}
		if !p.o.parsed && p.c.OddWire {
			// net/http may have refused the request for its request line, Host
			// or header syntax, which the model of the request target does not
			// cover; the oracle has seen the case.
			r.Count("req.odd-wire-form.refused-by-net/http")

			continue
		}
		if !p.o.parsed && p.o.status == 200 && p.c.Method == "OPTIONS" && p.c.Target == "*" {
			// answered by net/http's server itself; the handler is not called
			continue
		}
		if p.o.parsed || simpleTarget(p.c.Method, p.c.Target) {
			lines = append(lines, w.modelLine(p.c, p.o))
			idx = append(idx, i)
		}
	}
	if len(lines) == 0 {
		return
	}
	answers := m.Batch(lines)
	for k, i := range idx {
		p := batch[i]
		real := realLine(p.o)
		if strings.HasPrefix(lines[k], "wreq ") {
			r.Count("model.wire-target-op")
			if !strings.HasPrefix(p.c.Target, "/") {
				r.Count("model.wire-target-op.not-origin-form")
			}
		} else {
			r.Count("model.parsed-path-op")
		}
		if !p.o.parsed {
			r.Count("model.wire-target-op.rejected-by-net/http")
			real = "rejected"
			if p.o.status != 400 {
				real = fmt.Sprintf("rejected-with-status-%d", p.o.status)
			}
		}
		r.Traces++
		if answers[k] != real {
			r.Disagree("req", fmt.Sprintf("request %q: model says %q, real code %q", string(p.c.raw()), answers[k], real),
				map[string]any{"case": p.c, "model_line": lines[k]})
		}
	}
}

func (w *world) reqCampaign(o *hlib.Opts, r *hlib.Result, m *hlib.Model, cases []*reqCase) {
	var batch []pending
	for _, c := range cases {
		out := w.run(c)
		if w.recent == nil {
			w.recent = map[int]*pending{}
		}
		w.recent[c.ID] = &pending{c, out}
		delete(w.recent, c.ID-5000)
		// Property oracle first, independently of the model.
		w.oracle(r, c, out)
		if len(w.late) > 0 {
			w.settleLate(r)
		}
		r.Case(c.canon(), w.classify(r, c, out))
		if len(out.recs) > 0 {
			r.Sample(map[string]any{"request": strings.SplitN(string(c.raw()), "\r\n", 2)[0], "headers": c.Hdrs, "peer": c.WantIP,
				"backend_path": out.recs[0].Path, "backend_headers": showHdrs(out.recs[0].Hdr)}, 5)
		}
		batch = append(batch, pending{c, out})
		if len(batch) >= 400 {
			w.flush(r, m, batch)
			batch = batch[:0]
		}
	}
	w.flush(r, m, batch)
	w.late = append(w.late, w.takeRecs()...)
	w.settleLate(r)
}

// ----- exhaustive edit neighbourhood of the documented requests -----

// edits returns every string at edit distance one from s: deletions,
// duplications, case flips, and insertions / replacements with every element
// of alpha (which may be longer than one byte).
func edits(s string, alpha []string) (out []string) {
	for i := 0; i <= len(s); i++ {
		for _, a := range alpha {
			out = append(out, s[:i]+a+s[i:])
			if i < len(s) {
				out = append(out, s[:i]+a+s[i+1:])
			}
		}
		if i < len(s) {
			out = append(out, s[:i]+s[i+1:], s[:i]+s[i:i+1]+s[i:])
			if c := s[i]; c >= 'a' && c <= 'z' || c >= 'A' && c <= 'Z' {
				out = append(out, s[:i]+string(c^0x20)+s[i+1:])
			}
		}
	}

	return out
}

type docReq struct{ method, path string }

var docReqs = []docReq{{"GET", "/linkip/d1/e2"}, {"GET", "/linkip/d1/e2/status"}, {"POST", "/ddns/d1/e2/x.y"}, {"POST", "/linkip/d1/e2"}}

var pathEditAlpha = []string{"/", ".", "..", "%2e", "%2E%2e", "%2F", "%2f..", "x", "?", "%", " ", "%00", "//", "/./", "/../", ";", "%20", "\\", "#", "+"}

var methodEditAlpha = []string{"X", "x", "-", "T"}

// editTargets is the distance-one neighbourhood of the four documented
// requests (method and request target edited separately), plus, when n > 0, n
// random distance-two neighbours.
func editTargets(rng *rand.Rand, n int) (out []docReq) {
	for _, d := range docReqs {
		out = append(out, d)
		for _, t := range edits(d.path, pathEditAlpha) {
			out = append(out, docReq{d.method, t})
		}
		for _, m := range edits(d.method, methodEditAlpha) {
			if m != "" {
				out = append(out, docReq{m, d.path})
			}
		}
		// the other method with every path edit that keeps the path: covered by
		// the method swap below
		for _, m := range []string{"GET", "POST", "HEAD", "PUT"} {
			out = append(out, docReq{m, d.path})
		}
	}
	for i := 0; i < n; i++ {
		d := docReqs[rng.IntN(len(docReqs))]
		e1 := edits(d.path, pathEditAlpha)
		t := e1[rng.IntN(len(e1))]
		e2 := edits(t, pathEditAlpha)
		t = e2[rng.IntN(len(e2))]
		m := d.method
		if rng.IntN(4) == 0 {
			m = pick(rng, []string{"GET", "POST"})
		}
		out = append(out, docReq{m, t})
	}

	return out
}

func editCases(rng *rand.Rand, n int) (cs []*reqCase) {
	forged := []hdrKV{{"X-Connecting-IP", "6.6.6.6"}, {"X-Real-IP", "6.6.6.6"}, {"X-Forwarded-For", "6.6.6.6"}}
	for _, d := range editTargets(rng, n) {
		cs = append(cs, &reqCase{Method: d.method, Target: d.path, Hdrs: forged, Remote: "192.0.2.7:4711", WantIP: "192.0.2.7"})
	}

	return cs
}

// ----- requests in flight together: identities, evaluation -----

// idIP is the peer address of the in-process case with the given ID: every
// case of the interleaved and concurrent campaigns has its own address, device
// ID (path segment) and marker (X-Verif-Case), so that a backend request
// assembled from two client requests shows.
func idIP(id int, v6 bool) (ip, remote string) {
	if v6 {
		ip = fmt.Sprintf("2001:db8:19::%x", id)

		return ip, "[" + ip + "]:4711"
	}
	ip = fmt.Sprintf("198.%d.%d.%d", 18+id>>16&1, id>>8&255, id&255)

	return ip, ip + ":4711"
}

func idIPOf(id int) (remote, ip string) {
	ip, remote = idIP(id, false)

	return remote, ip
}

// flightKinds are the kinds of requests of the in-flight campaigns: the four
// documented requests and requests that must be answered locally.
var flightKinds = []struct {
	method, format string
	forward        bool
}{
	{"GET", "/linkip/d%d/e%d", true},
	{"GET", "/linkip/d%d/e%d/status", true},
	{"POST", "/ddns/d%d/e%d/h%d.example.org", true},
	{"POST", "/linkip/d%d/e%d", true},
	{"GET", "/linkip/d%d/e%d/other", false},
	{"PUT", "/ddns/d%d/e%d/h%d.example.org", false},
	{"GET", "/ddns/d%d/e%d/h%d.example.org", false},
	{"POST", "/linkip/d%d/e%d/status", false},
	{"GET", "/linkip/d%d/../e%d", false},
	{"GET", "/robots.txt", false},
}

// genFlightCase returns a case with its own identity.  kind < 0 chooses the
// kind at random (documented requests three times out of four).
func (w *world) genFlightCase(rng *rand.Rand, standIdx, kind int) (c *reqCase) {
	w.nextID++
	id := w.nextID
	if kind < 0 {
		kind = rng.IntN(4)
		if rng.IntN(4) == 0 {
			kind = 4 + rng.IntN(len(flightKinds)-4)
		}
	}
	k := flightKinds[kind]
	c = &reqCase{Stand: standIdx, ID: id, Method: k.method}
	c.Target = k.format
	if n := strings.Count(k.format, "%d"); n > 0 {
		args := make([]any, n)
		for i := range args {
			args[i] = id
		}
		c.Target = fmt.Sprintf(k.format, args...)
	}
	c.WantIP, c.Remote = idIP(id, rng.IntN(4) == 0)
	if rng.IntN(12) == 0 {
		// an unusable peer address: 500, never forwarded
		c.Remote, c.WantIP, c.BadRem = c.WantIP+"]:5", "", true
	}
	for _, n := range []string{"X-Connecting-IP", "X-Real-IP", "X-Forwarded-For", "CF-Connecting-IP", "Forwarded", "True-Client-IP"} {
		if rng.IntN(3) == 0 {
			c.Hdrs = append(c.Hdrs, hdrKV{n, pick(rng, []string{"6.6.6.6", "198.18.0.1", "for=6.6.6.6"})})
		}
	}
	if rng.IntN(4) == 0 {
		c.Hdrs = append(c.Hdrs, hdrKV{"Connection", pick(rng, []string{"X-Connecting-IP", "close", "x-request-id, X-Connecting-Ip", "keep-alive"})})
	}
	if rng.IntN(3) == 0 {
		c.Hdrs = append(c.Hdrs, hdrKV{"X-Custom", fmt.Sprintf("m%d", id)})
	}
	if c.Method != "GET" && rng.IntN(2) == 0 {
		c.Body = fmt.Sprintf("ip=%d", id)
	}

	return c
}

// parseCase parses the raw request of a case like the server would.
func parseCase(c *reqCase) (req *http.Request, v view) {
	req, err := http.ReadRequest(bufio.NewReader(bytes.NewReader(c.raw())))
	hlib.Must(err)
	req.RemoteAddr = c.Remote

	return req, view{Method: req.Method, Path: req.URL.Path, Remote: c.Remote, Hdr: req.Header.Clone()}
}

// evaluate runs the oracle, the bookkeeping and the model comparison for cases
// that were served outside w.run.  The backend records are attributed by the
// X-Verif-Case marker; the oracle then checks method, path and client address
// of every record against the very request that carried the marker, so a
// backend request put together from two client requests fails whichever part
// was taken from the other one.
func (w *world) evaluate(r *hlib.Result, m *hlib.Model, ps []*pending, recs []seen, bucket string) {
	if w.recent == nil {
		w.recent = map[int]*pending{}
	}
	byID := map[string]*pending{}
	w.byPath, w.byIP = map[string]*reqCase{}, map[string]*reqCase{}
	for _, p := range ps {
		byID[fmt.Sprint(p.c.ID)] = p
		w.recent[p.c.ID] = p
		if p.o.parsed {
			w.byPath["/"+strings.TrimPrefix(p.o.v.Path, "/")] = p.c
		}
		if p.c.WantIP != "" && !p.c.TCP {
			w.byIP[p.c.WantIP] = p.c
		}
	}
	for _, rec := range recs {
		if p := byID[rec.Hdr.Get(caseHdr)]; p != nil {
			p.o.recs = append(p.o.recs, rec)
		} else {
			w.late = append(w.late, rec)
		}
	}
	batch := make([]pending, 0, len(ps))
	for _, p := range ps {
		w.oracle(r, p.c, p.o)
		nontrivial := w.classify(r, p.c, p.o)
		r.Case(bucket+"|"+p.c.canon()+"|"+p.c.InFlightWith, nontrivial)
		if len(p.o.recs) > 0 {
			r.Count(bucket + ".forwarded")
		}
		batch = append(batch, *p)
	}
	w.flush(r, m, batch)
	w.settleLate(r)
	w.byPath, w.byIP = nil, nil
}

// ----- interleaved requests: deterministic schedules -----

// ilvPoints are the points of a request in flight at which the harness can
// serve other requests completely, all of them reached through public API: the
// ResponseWriter (Header is the first thing ServeHTTP calls; CloseNotify is
// asked by httputil.ReverseProxy before it clones the request and runs
// Rewrite), net/http/httptrace hooks carried by the request context (GetConn …
// GotFirstResponseByte: the phases of the transport between Rewrite and the
// backend's answer) and the request body.
var ilvPoints = []string{"rw.Header", "rw.CloseNotify", "GetConn", "ConnectStart", "ConnectDone", "GotConn",
	"WroteHeaderField", "WroteHeaders", "Body.Read", "WroteRequest", "GotFirstResponseByte", "rw.WriteHeader"}

// ilvNode is a request and the requests that are served completely when it
// reaches the point At for the first time.
type ilvNode struct {
	C    *reqCase   `json:"request"`
	At   string     `json:"at,omitempty"`
	Kids []*ilvNode `json:"then_serve,omitempty"`

	fired bool
	o     outcome
}

func (n *ilvNode) describe(b *strings.Builder) {
	fmt.Fprintf(b, "#%d %s %s from %s on stand %d", n.C.ID, n.C.Method, n.C.Target, n.C.Remote, n.C.Stand)
	if len(n.Kids) > 0 {
		fmt.Fprintf(b, " [at its %s: ", n.At)
		for i, k := range n.Kids {
			if i > 0 {
				b.WriteString("; then ")
			}
			k.describe(b)
		}
		b.WriteString("]")
	}
}

func (n *ilvNode) walk(f func(*ilvNode)) {
	f(n)
	for _, k := range n.Kids {
		k.walk(f)
	}
}

// ilvRun is one schedule being executed.
type ilvRun struct {
	w       *world
	mu      sync.Mutex
	cond    *sync.Cond
	running int
	closed  bool
}

type hookRW struct {
	rec  *httptest.ResponseRecorder
	fire func(string)
}

func (h *hookRW) Header() http.Header         { h.fire("rw.Header"); return h.rec.Header() }
func (h *hookRW) Write(b []byte) (int, error) { return h.rec.Write(b) }
func (h *hookRW) WriteHeader(code int)        { h.fire("rw.WriteHeader"); h.rec.WriteHeader(code) }
func (h *hookRW) Flush()                      { h.rec.Flush() }
func (h *hookRW) CloseNotify() <-chan bool    { h.fire("rw.CloseNotify"); return make(chan bool) }

type hookBody struct {
	io.ReadCloser
	fire func(string)
}

func (h *hookBody) Read(p []byte) (int, error) { h.fire("Body.Read"); return h.ReadCloser.Read(p) }

// serve serves the request of n on its stand; when the request reaches n.At
// for the first time, the children are served, one after the other, by the
// goroutine that reached the point (the handler's, or the transport's dial,
// write or read goroutine), which continues afterwards.
func (run *ilvRun) serve(n *ilvNode) {
	st := run.w.stands[n.C.Stand]
	fire := func(pt string) {
		if pt != n.At {
			return
		}
		run.mu.Lock()
		if n.fired || run.closed {
			run.mu.Unlock()

			return
		}
		n.fired = true
		run.running++
		run.mu.Unlock()
		for _, k := range n.Kids {
			run.serve(k)
		}
		run.mu.Lock()
		run.running--
		run.cond.Broadcast()
		run.mu.Unlock()
	}
	req, v := parseCase(n.C)
	trace := &httptrace.ClientTrace{
		GetConn:              func(string) { fire("GetConn") },
		GotConn:              func(httptrace.GotConnInfo) { fire("GotConn") },
		ConnectStart:         func(_, _ string) { fire("ConnectStart") },
		ConnectDone:          func(_, _ string, _ error) { fire("ConnectDone") },
		WroteHeaderField:     func(string, []string) { fire("WroteHeaderField") },
		WroteHeaders:         func() { fire("WroteHeaders") },
		WroteRequest:         func(httptrace.WroteRequestInfo) { fire("WroteRequest") },
		GotFirstResponseByte: func() { fire("GotFirstResponseByte") },
	}
	// context.Background has no Done channel, which makes ReverseProxy consult
	// the ResponseWriter's CloseNotify.
	req = req.WithContext(httptrace.WithClientTrace(context.Background(), trace))
	if req.ContentLength > 0 {
		req.Body = &hookBody{req.Body, fire}
	}
	rw := &hookRW{rec: httptest.NewRecorder(), fire: fire}
	var panicked any
	func() {
		defer func() { panicked = recover() }()
		st.h.ServeHTTP(rw, req)
	}()
	n.o = outcome{parsed: true, v: v, status: rw.rec.Code, body: rw.rec.Body.String(), panicked: panicked}
}

// schedResult is an executed schedule.
type schedResult struct {
	ps   []*pending
	recs []seen
	// flLine is the model op for the whole schedule and flReal what the backend
	// received, in order; ordered is false when the order of arrival at the
	// backend is not determined by the schedule.
	flLine, flReal string
	ordered        bool
}

// pointPhase places a point relative to the two events of the model's
// schedules: before Rewrite ("pre"), between Rewrite and the arrival of the
// request at the backend ("mid"), after that ("post"); "racy" points lie in
// between, but children served there run concurrently with the parent's
// delivery (the dial goroutine; the flush that follows WroteRequest).
func pointPhase(pt string) string {
	switch pt {
	case "rw.Header", "rw.CloseNotify":
		return "pre"
	case "GetConn", "GotConn", "WroteHeaderField", "WroteHeaders", "Body.Read":
		return "mid"
	case "GotFirstResponseByte", "rw.WriteHeader":
		return "post"
	default:
		return "racy"
	}
}

func (run *ilvRun) wait() {
	run.mu.Lock()
	for run.running > 0 {
		run.cond.Wait()
	}
	run.closed = true
	run.mu.Unlock()
}

func newRun(w *world) (run *ilvRun) {
	run = &ilvRun{w: w}
	run.cond = sync.NewCond(&run.mu)

	return run
}

// runSchedule executes the schedule rooted at root.
func (w *world) runSchedule(r *hlib.Result, root *ilvNode, drain []*ilvNode) (res *schedResult) {
	res = &schedResult{ordered: true}
	w.late = append(w.late, w.takeRecs()...)
	var desc strings.Builder
	root.describe(&desc)
	root.walk(func(n *ilvNode) { n.C.InFlightWith = desc.String() })
	idx := map[*ilvNode]int{}
	var evs []string
	for _, d := range drain {
		// Served before the schedule: the backend closes their connections,
		// which leaves the transport of the stand without idle connections, so
		// that the root has to dial (ConnectStart, ConnectDone).
		d.C.InFlightWith = "before " + desc.String()
		run0 := newRun(w)
		run0.serve(d)
		run0.wait()
		idx[d] = len(idx)
		evs = append(evs, fmt.Sprintf("r%d,s%d", idx[d], idx[d]))
	}
	run := newRun(w)
	run.serve(root)
	// A point reached on a goroutine of the transport may still be serving its
	// children (ConnectDone of a dial that lost against an idle connection).
	run.wait()
	var seq []*ilvNode
	root.walk(func(n *ilvNode) {
		idx[n] = len(idx)
		seq = append(seq, n)
	})
	// events lists the model events of n and of the children served at its
	// point.
	var events func(n *ilvNode)
	events = func(n *ilvNode) {
		rw, sd := fmt.Sprintf("r%d", idx[n]), fmt.Sprintf("s%d", idx[n])
		kids := func() {
			for _, k := range n.Kids {
				events(k)
			}
		}
		phase := pointPhase(n.At)
		switch {
		case !n.fired:
			evs = append(evs, rw, sd)
		case phase == "pre":
			kids()
			evs = append(evs, rw, sd)
		case phase == "post":
			evs = append(evs, rw, sd)
			kids()
		default:
			if phase == "racy" {
				res.ordered = false
			}
			evs = append(evs, rw)
			kids()
			evs = append(evs, sd)
		}
	}
	events(root)
	// Children of a point that was never reached (no body, no dial, answered
	// locally) are served afterwards, on their own.
	for i := 0; i < len(seq); i++ {
		n := seq[i]
		if !n.fired {
			for _, k := range n.Kids {
				run2 := newRun(w)
				run2.serve(k)
				run2.wait()
				events(k)
			}
		}
	}
	sameBase := true
	for _, n := range append(append([]*ilvNode{}, drain...), seq...) {
		if n.fired {
			r.Count("ilv.point-reached." + n.At)
		} else if len(n.Kids) > 0 {
			r.Count("ilv.point-not-reached." + n.At)
		}
		res.ps = append(res.ps, &pending{n.C, n.o})
		sameBase = sameBase && w.stands[n.C.Stand].base == w.stands[root.C.Stand].base
	}
	res.recs = w.takeRecs()
	if !sameBase {
		// The model's schedules have one target URL.
		r.Count("ilv.schedule-over-several-base-paths")

		return res
	}
	var fl strings.Builder
	fmt.Fprintf(&fl, "fl %s %s %s", hx(w.stands[root.C.Stand].base), hx(w.ua), strings.Join(evs, ","))
	byID := map[string]int{}
	for i, p := range res.ps {
		byID[fmt.Sprint(p.c.ID)] = i
		v := p.o.v
		fmt.Fprintf(&fl, " %s %s %s %d", hx(v.Method), hx(p.c.Target), hx(v.Remote), func() (n int) {
			for _, vs := range v.Hdr {
				n += len(vs)
			}

			return n
		}())
		names := make([]string, 0, len(v.Hdr))
		for n := range v.Hdr {
			names = append(names, n)
		}
		sort.Strings(names)
		for _, n := range names {
			for _, val := range v.Hdr[n] {
				fmt.Fprintf(&fl, " %s %s", hx(n), hx(val))
			}
		}
	}
	var real []string
	for _, rec := range res.recs {
		if i, ok := byID[rec.Hdr.Get(caseHdr)]; ok {
			real = append(real, fmt.Sprintf("%d:%s:proxy %s %s", i, hx(rec.Method), hx(rec.Path), showHdrs(rec.Hdr)))
		}
	}
	res.flLine, res.flReal = fl.String(), strings.Join(real, " | ")
	if len(real) == 0 {
		res.flReal = "-"
	}

	return res
}

// sortedLog orders the entries of a backend log.
func sortedLog(s string) string {
	parts := strings.Split(s, " | ")
	sort.Strings(parts)

	return strings.Join(parts, " | ")
}

// genDrain returns the requests that empty the idle pool of the root's stand
// (net/http keeps two idle connections per host), or nil.
func (w *world) genDrain(rng *rand.Rand, root *ilvNode, cold bool) (drain []*ilvNode) {
	if !cold {
		return nil
	}
	for i := 0; i < 3; i++ {
		c := w.genFlightCase(rng, root.C.Stand, rng.IntN(4))
		c.Remote, c.WantIP = idIPOf(c.ID)
		c.BadRem = false
		c.Hdrs = append(c.Hdrs, hdrKV{closeHdr, "1"})
		drain = append(drain, &ilvNode{C: c})
	}

	return drain
}

// bareStands are the stands with a wrapped in-process handler.
func (w *world) bareStands() (idx []int) {
	for i, st := range w.stands {
		if !st.svc && !st.dead {
			idx = append(idx, i)
		}
	}

	return idx
}

// ilvCampaign serves requests while other requests are in flight, at chosen
// points, without any real concurrency: (1) every ordered pair of kinds of
// requests x every point x {same handler, the twin handler that shares the
// target URL value}; (2) random schedules up to depth three with several
// children, over all bare stands.
func (w *world) ilvCampaign(o *hlib.Opts, r *hlib.Result, m *hlib.Model, rng *rand.Rand) {
	var ps []*pending
	var recs []seen
	var scheds []*schedResult
	add := func(res *schedResult) {
		ps, recs = append(ps, res.ps...), append(recs, res.recs...)
		if res.flLine != "" {
			scheds = append(scheds, res)
		}
	}
	flushPs := func() {
		for _, st := range w.stands {
			st.takeViews()
		}
		w.evaluate(r, m, ps, recs, "ilv")
		// The whole schedule against the model: what the backend received, in
		// order (as a multiset where the schedule does not determine the order).
		lines := make([]string, len(scheds))
		for i, sc := range scheds {
			lines[i] = sc.flLine
		}
		for i, ans := range m.Batch(lines) {
			sc := scheds[i]
			r.Traces++
			want, got := ans, sc.flReal
			if sc.ordered {
				r.Count("ilv.schedule-compared-in-order")
			} else {
				r.Count("ilv.schedule-compared-as-multiset")
				want, got = sortedLog(want), sortedLog(got)
			}
			if want != got {
				r.Disagree("flight", fmt.Sprintf("schedule %s: model says the backend receives %q, it received %q", sc.ps[len(sc.ps)-1].c.InFlightWith, want, got),
					map[string]any{"model_line": sc.flLine})
			}
		}
		ps, recs, scheds = nil, nil, nil
	}
	w.late = append(w.late, w.takeRecs()...)
	nKinds := 6
	if o.Thorough() {
		nKinds = len(flightKinds)
	}
	// Points at which nothing runs in parallel come first; once a schedule has
	// produced a failing input the campaign stops: code that shares state
	// between requests can take the process down when requests really run in
	// parallel (concurrent map writes are fatal, not a panic).
	found := func() bool { return len(r.Violations) > 0 }
	for _, racy := range []bool{false, true} {
		for a := 0; a < nKinds && !found(); a++ {
			for b := 0; b < nKinds; b++ {
				if !flightKinds[a].forward && !flightKinds[b].forward {
					continue
				}
				for _, pt := range ilvPoints {
					if (pointPhase(pt) == "racy") != racy {
						continue
					}
					if !flightKinds[a].forward && !strings.HasPrefix(pt, "rw.") {
						// a request answered locally never reaches the transport
						continue
					}
					for _, sb := range []int{0, w.twinIdx} {
						root := &ilvNode{C: w.genFlightCase(rng, 0, a), At: pt, Kids: []*ilvNode{{C: w.genFlightCase(rng, sb, b)}}}
						if pt == "Body.Read" && root.C.Method != "GET" {
							root.C.Body = fmt.Sprintf("ip=%d", root.C.ID)
						}
						add(w.runSchedule(r, root, w.genDrain(rng, root, sb == 0 || racy)))
					}
				}
			}
			flushPs()
		}
	}
	if found() {
		r.Count("ilv.stopped-after-violation")

		return
	}
	r.Count("ilv.pairs-x-points-exhaustive")
	n := 1200
	if o.Thorough() {
		n = 12000
	}
	bare := w.bareStands()
	pickStand := func() int {
		switch rng.IntN(8) {
		case 0:
			return bare[rng.IntN(len(bare))]
		case 1, 2, 3:
			return w.twinIdx
		default:
			return 0
		}
	}
	var gen func(depth int) *ilvNode
	gen = func(depth int) *ilvNode {
		nd := &ilvNode{C: w.genFlightCase(rng, pickStand(), -1)}
		if depth < 3 && (depth == 0 || rng.IntN(2) == 0) {
			nd.At = pick(rng, ilvPoints)
			if nd.C.BadRem || !websvc.VerifC19ShouldProxy(nd.C.Method, nd.C.Target) {
				// answered locally: only the ResponseWriter's points are reached
				nd.At = pick(rng, []string{"rw.Header", "rw.WriteHeader"})
			} else if nd.At == "Body.Read" && nd.C.Method != "GET" {
				nd.C.Body = fmt.Sprintf("ip=%d", nd.C.ID)
			}
			for k := 1 + rng.IntN(2); k > 0; k-- {
				nd.Kids = append(nd.Kids, gen(depth+1))
			}
		}

		return nd
	}
	for i := 0; i < n; i++ {
		root := gen(0)
		add(w.runSchedule(r, root, w.genDrain(rng, root, rng.IntN(2) == 0 || strings.HasPrefix(root.At, "Connect"))))
		if len(ps) >= 400 {
			flushPs()
			if found() {
				r.Count("ilv.stopped-after-violation")

				return
			}
		}
	}
	flushPs()
}

// ----- concurrent requests (real parallelism) -----

var errNotSent = fmt.Errorf("not sent")

// concCampaign sends requests at the same time, in many short rounds that
// start behind a barrier: in-process through the bare stands (every request
// with its own peer address) and over TCP through the two bind addresses of the
// real websvc.Service.  Rounds alternate between one, two and all processors:
// with one processor a goroutine is left only where it blocks, which for a
// proxied request is the dial of the backend connection, between Rewrite and
// the writing of the request line.  Every backend record is checked by the
// full oracle against the request that carried its marker.
func (w *world) concCampaign(o *hlib.Opts, r *hlib.Result, m *hlib.Model, rng *rand.Rand) {
	rounds, inproc, tcp, per := 24, 12, 6, 12
	if o.Thorough() {
		rounds, inproc, tcp, per = 150, 24, 8, 16
	}
	procs := runtime.GOMAXPROCS(0)
	defer runtime.GOMAXPROCS(procs)
	bare := w.bareStands()
	for round := 0; round < rounds; round++ {
		switch round % 3 {
		case 0:
			runtime.GOMAXPROCS(1)
		case 1:
			runtime.GOMAXPROCS(2)
		default:
			runtime.GOMAXPROCS(procs)
		}
		workers := inproc + tcp
		plans := make([][]*pending, workers)
		var ps []*pending
		for k := 0; k < workers; k++ {
			standIdx := 0
			switch {
			case k >= inproc:
				standIdx = w.svcIdx[k%len(w.svcIdx)]
			case k%4 == 1:
				standIdx = w.twinIdx
			case k%8 == 2:
				standIdx = bare[rng.IntN(len(bare))]
			}
			for i := 0; i < per; i++ {
				c := w.genFlightCase(rng, standIdx, -1)
				c.InFlightWith = fmt.Sprintf("round %d: %d goroutines with %d requests each through the bare handlers, %d TCP clients of the real service; GOMAXPROCS %d",
					round, inproc, per, tcp, runtime.GOMAXPROCS(0))
				if k >= inproc {
					c.TCP, c.Remote, c.BadRem = true, "", false
				}
				p := &pending{c: c, o: outcome{ioErr: errNotSent}}
				plans[k] = append(plans[k], p)
				ps = append(ps, p)
			}
		}
		w.late = append(w.late, w.takeRecs()...)
		start := make(chan struct{})
		var wg sync.WaitGroup
		for k := 0; k < workers; k++ {
			wg.Add(1)
			go func(k int) {
				defer wg.Done()
				var conn net.Conn
				var br *bufio.Reader
				if k >= inproc {
					var err error
					conn, err = net.Dial("tcp", w.stands[plans[k][0].c.Stand].tcpAddr)
					hlib.Must(err)
					defer conn.Close()
					br = bufio.NewReader(conn)
				}
				<-start
				for _, p := range plans[k] {
					req, v := parseCase(p.c)
					p.o = outcome{parsed: true, v: v}
					if conn == nil {
						rec := httptest.NewRecorder()
						func() {
							defer func() { p.o.panicked = recover() }()
							w.stands[p.c.Stand].h.ServeHTTP(rec, req)
						}()
						p.o.status, p.o.body = rec.Code, rec.Body.String()

						continue
					}
					p.c.WantIP = conn.LocalAddr().(*net.TCPAddr).IP.String()
					p.o.v.Remote = conn.LocalAddr().String()
					_, err := conn.Write(p.c.raw())
					hlib.Must(err)
					_ = conn.SetReadDeadline(time.Now().Add(30 * time.Second))
					resp, err := http.ReadResponse(br, &http.Request{Method: p.c.Method})
					if err != nil {
						p.o.ioErr, p.o.parsed = err, false

						return
					}
					b, _ := io.ReadAll(resp.Body)
					_ = resp.Body.Close()
					p.o.status, p.o.body = resp.StatusCode, string(b)
					if resp.Close {
						// "Connection: close" of the client was honoured.
						conn.Close()
						conn, err = net.Dial("tcp", w.stands[p.c.Stand].tcpAddr)
						hlib.Must(err)
						br = bufio.NewReader(conn)
					}
				}
			}(k)
		}
		close(start)
		wg.Wait()
		runtime.GOMAXPROCS(procs)
		for _, st := range w.stands {
			st.takeViews()
		}
		for _, p := range ps {
			if p.o.ioErr != nil {
				r.Count("conc.tcp-io-error")
			}
		}
		w.evaluate(r, m, ps, w.takeRecs(), "conc")
	}
	r.Count(fmt.Sprintf("conc.rounds-%d.workers-%d+%d", rounds, inproc, tcp))
}

// fixedCases are always run: the documented shapes, the Lean counter-example
// witnesses and the design-round inputs.
func fixedCases() (cs []*reqCase) {
	add := func(method, target string, hs ...hdrKV) {
		for _, tcp := range []bool{false, true} {
			c := &reqCase{Method: method, Target: target, Hdrs: hs, TCP: tcp}
			if !tcp {
				c.Remote, c.WantIP = "192.0.2.7:4711", "192.0.2.7"
			}
			cs = append(cs, c)
		}
	}
	forged := []hdrKV{{"X-Connecting-IP", "6.6.6.6"}, {"CF-Connecting-IP", "6.6.6.6"}, {"Forwarded", "for=6.6.6.6"},
		{"True-Client-IP", "6.6.6.6"}, {"X-Real-IP", "6.6.6.6"}, {"X-Forwarded-For", "6.6.6.6"},
		{"X-Forwarded-Host", "evil.example"}, {"X-Forwarded-Proto", "https"}}
	add("GET", "/linkip/dev1234/0123456789")
	add("GET", "/linkip/dev1234/0123456789/status", forged...)
	add("POST", "/ddns/dev1234/0123456789/example.com", forged...)
	add("POST", "/linkip/dev1234/0123456789")
	add("GET", "/robots.txt")
	add("GET", "/linkip/../x")
	add("GET", "/linkip/../../status")
	add("POST", "/ddns/../a/b")
	add("GET", "/linkip/%2e%2e/x")
	add("GET", "/linkip/a/..")
	add("GET", "/linkip/./x")
	add("POST", "/ddns/a/b/..")
	add("GET", "/linkip/a/b", hdrKV{"Connection", "X-Connecting-IP"})
	add("GET", "/linkip/a/b", hdrKV{"Connection", "close, x-connecting-ip"}, hdrKV{"X-Connecting-IP", "6.6.6.6"})
	add("POST", "/ddns/a/b/c", hdrKV{"X-Connecting-IP", "6.6.6.6"}, hdrKV{"Connection", "X-Request-ID , X-Connecting-Ip"})
	add("GET", "/linkip/a/b", hdrKV{"Connection", "Upgrade"}, hdrKV{"Upgrade", "websocket"})
	add("POST", "/ddns/a/b/c", hdrKV{"Connection", "keep-alive, upgrade"}, hdrKV{"Upgrade", "h2c"}, hdrKV{"HTTP2-Settings", "AAMAAABkAARAAAAAAAIAAAAA"})
	add("GET", "/linkip/a/b/status", hdrKV{"Connection", "Upgrade"}, hdrKV{"Upgrade", "a\tb"})
	add("POST", "/ddns/a%252Fb/c")
	add("GET", "/linkip/%252e%252e/x")
	add("DELETE", "/linkip/dev1234/0123456789/status")
	add("GET", "/linkip/dev1234/0123456789/status/more/stuff")

	return cs
}

// hdrSweepCases is an exhaustive small scope over the header pipeline: every
// identity header name (the client-IP header and the seven forwarding headers)
// x spelling x multiplicity (once; twice with an empty first value; twice with
// two addresses) x Connection variant (none; naming that header; naming the
// two headers the proxy sets; a protocol switch) x the four documented
// requests; and the same names as trailer fields of a chunked request.
func hdrSweepCases() (cs []*reqCase) {
	names := append([]string{"X-Connecting-IP"}, "CF-Connecting-IP", "Forwarded", "True-Client-IP", "X-Real-IP", "X-Forwarded-For",
		"X-Forwarded-Host", "X-Forwarded-Proto")
	docs := []docReq{{"GET", "/linkip/dev1234/0123456789"}, {"GET", "/linkip/dev1234/0123456789/status"},
		{"POST", "/ddns/dev1234/0123456789/example.com"}, {"POST", "/linkip/dev1234/0123456789"}}
	for _, n := range names {
		for _, spell := range []string{n, strings.ToLower(n), strings.ToUpper(n)} {
			for mult := 0; mult < 3; mult++ {
				for conn := 0; conn < 4; conn++ {
					for _, d := range docs {
						var hs []hdrKV
						switch mult {
						case 0:
							hs = []hdrKV{{spell, "6.6.6.6"}}
						case 1:
							hs = []hdrKV{{spell, ""}, {spell, "6.6.6.6"}}
						default:
							hs = []hdrKV{{spell, "6.6.6.6"}, {n, "1.1.1.1"}}
						}
						switch conn {
						case 1:
							hs = append(hs, hdrKV{"Connection", spell})
						case 2:
							hs = append([]hdrKV{{"Connection", "x-connecting-ip, X-Request-ID"}}, hs...)
						case 3:
							hs = append(hs, hdrKV{"Connection", "Upgrade, " + n}, hdrKV{"Upgrade", "websocket"})
						}
						cs = append(cs, &reqCase{Method: d.method, Target: d.path, Hdrs: hs, Remote: "192.0.2.7:4711", WantIP: "192.0.2.7"})
					}
				}
			}
			cs = append(cs, &reqCase{Method: "POST", Target: "/ddns/dev1234/0123456789/example.com", Remote: "192.0.2.7:4711",
				WantIP: "192.0.2.7", Chunked: true, Body: "abc", Trailers: []hdrKV{{spell, "6.6.6.6"}}})
		}
	}

	return cs
}

// spCampaign: shouldProxy alone, real vs model vs oracle, many more paths.
func spCampaign(o *hlib.Opts, r *hlib.Result, m *hlib.Model, rng *rand.Rand) {
	type sp struct{ m, p string }
	var cases []sp
	n := 40000
	if o.Thorough() {
		n = 150000
	}
	for i := 0; i < n; i++ {
		method, target := genTarget(rng)
		// shouldProxy sees the decoded path.
		p := target
		if u, err := url.ParseRequestURI(target); err == nil {
			p = u.Path
		}
		cases = append(cases, sp{method, p})
	}
	// The edit neighbourhood of the documented requests (decoded like net/http
	// does), and the same edits applied to the decoded path directly.
	nEdit2 := 20000
	if o.Thorough() {
		nEdit2 = 400000
	}
	for _, d := range editTargets(rng, nEdit2) {
		if u, err := url.ParseRequestURI(d.path); err == nil {
			cases = append(cases, sp{d.method, u.Path})
		}
		cases = append(cases, sp{d.method, d.path})
	}
	r.Count("sp.edit-distance-1-exhaustive")
	// Exhaustive small scope: every path of up to k segments over a small
	// alphabet (keywords, near misses of the keywords, dot and empty segments),
	// every method of a small set.
	alpha := []string{"linkip", "ddns", "a", "status", ".", "..", "", "linkipx", "xddns", "statusx", "Status", "xlinkip"}
	k := 4
	if o.Thorough() {
		k = 5
	}
	var rec func(prefix []string, depth int)
	rec = func(prefix []string, depth int) {
		p := "/" + strings.Join(prefix, "/")
		for _, method := range []string{"GET", "POST", "PUT"} {
			cases = append(cases, sp{method, p})
		}
		if len(prefix) > 0 {
			cases = append(cases, sp{"GET", strings.Join(prefix, "/")}, sp{"POST", strings.Join(prefix, "/")})
		}
		if depth == k {
			return
		}
		for _, a := range alpha {
			rec(append(append([]string{}, prefix...), a), depth+1)
		}
	}
	rec(nil, 0)
	r.Count(fmt.Sprintf("sp.exhaustive-alphabet%d-depth%d", len(alpha), k))

	for start := 0; start < len(cases); start += 5000 {
		chunk := cases[start:min(start+5000, len(cases))]
		lines := make([]string, len(chunk))
		for i, c := range chunk {
			lines[i] = "sp " + hx(c.m) + " " + hx(c.p)
		}
		answers := m.Batch(lines)
		for i, c := range chunk {
			got := websvc.VerifC19ShouldProxy(c.m, c.p)
			if got {
				r.Count("sp.accepted")
				checkForwardedPath(r, c.m, c.p, "/"+strings.TrimPrefix(c.p, "/"), map[string]any{"shouldProxy": []string{c.m, c.p}})
			} else {
				r.Count("sp.refused")
				if pathClass(c.p) == "dot-segment" {
					r.Count("sp.refused.dot-segment")
				}
			}
			want := "0"
			if got {
				want = "1"
			}
			r.Traces++
			if answers[i] != want {
				r.Disagree("sp", fmt.Sprintf("shouldProxy(%q, %q): model %s, real %s", c.m, c.p, answers[i], want), lines[i])
			}
			r.Case("sp|"+c.m+"|"+c.p, got || strings.HasPrefix(strings.TrimPrefix(c.p, "/"), "linkip/") || strings.HasPrefix(strings.TrimPrefix(c.p, "/"), "ddns/"))
		}
	}
}

// normCampaign ties the Lean normaliser to RFC 3986 5.2.4 (literal
// transcription) and to net/url's ResolveReference.
func normCampaign(o *hlib.Opts, r *hlib.Result, m *hlib.Model, rng *rand.Rand) {
	n := 4000
	if o.Thorough() {
		n = 40000
	}
	alpha := []string{"a", "b", ".", "..", "", "...", "linkip", ".a", "a.", "status"}
	var paths []string
	for i := 0; i < n; i++ {
		var parts []string
		for k := rng.IntN(8); k > 0; k-- {
			parts = append(parts, pick(rng, alpha))
		}
		paths = append(paths, "/"+strings.Join(parts, "/"))
	}
	lines := make([]string, len(paths))
	for i, p := range paths {
		lines[i] = "norm " + hx(p)
	}
	answers := m.Batch(lines)
	base := &url.URL{Scheme: "http", Host: "h", Path: "/"}
	for i, p := range paths {
		want := rfcRemoveDots(p)
		r.Traces++
		if answers[i] != hx(want) {
			r.Disagree("norm", fmt.Sprintf("normalize(%q): model %s, RFC 3986 transcription %q", p, answers[i], want), lines[i])
		}
		if got := base.ResolveReference(&url.URL{Path: p}).Path; got == want {
			r.Count("norm.agrees-with-net/url")
		} else {
			r.Count("norm.net/url-differs(empty-segments)")
		}
		r.Case("norm|"+p, want != p)
	}
}

// hostCampaign: netutil.SplitHost model vs net.SplitHostPort.
func hostCampaign(r *hlib.Result, m *hlib.Model, rng *rand.Rand) {
	var addrs []string
	for _, rm := range remotes {
		addrs = append(addrs, rm.addr)
	}
	pieces := []string{"1.2.3.4", ":", "[", "]", "::1", "80", "%eth0", "x", ""}
	for i := 0; i < 1500; i++ {
		var b strings.Builder
		for k := 1 + rng.IntN(5); k > 0; k-- {
			b.WriteString(pick(rng, pieces))
		}
		addrs = append(addrs, b.String())
	}
	lines := make([]string, len(addrs))
	for i, a := range addrs {
		lines[i] = "host " + hx(a)
	}
	answers := m.Batch(lines)
	for i, a := range addrs {
		want := "err"
		host, _, err := net.SplitHostPort(a)
		if err == nil {
			want = "ok " + hx(host)
			r.Count("host.ok")
		} else if ae, ok := err.(*net.AddrError); ok && ae.Err == "missing port in address" {
			want = "ok " + hx(a)
			r.Count("host.missing-port")
		} else {
			r.Count("host.error")
		}
		r.Traces++
		if answers[i] != want {
			r.Disagree("host", fmt.Sprintf("SplitHost(%q): model %q, real %q", a, answers[i], want), lines[i])
		}
		r.Case("host|"+a, err != nil)
	}
}

func main() {
	o := hlib.ParseFlags()
	r := hlib.NewResult("C19", o)
	r.Rule = "raw HTTP requests (method x request-target grammar with empty, dot, percent-encoded-dot, twice-escaped, non-ASCII, encoded-slash and " +
		"extra segments, origin and absolute form, address parameters in query and body x forged client-IP/forwarding/Connection/Upgrade headers " +
		"x Host / HTTP version / chunked body with trailer fields / TLS flag) are sent in-process (chosen peer address) and over " +
		"real TCP to the real linkedIPHandler mounted on a bare http.Server in front of a recording backend that honours protocol switches " +
		"(101, then records what arrives through the tunnel); the outcome " +
		"(404/robots/500/forwarded path + watched headers) is compared with the Lean model and checked by an independent oracle; " +
		"requests in flight together: (a) deterministic schedules - a request is served completely from inside a hook of another one " +
		"(ResponseWriter.Header/CloseNotify/WriteHeader, httptrace GetConn/ConnectStart/ConnectDone/GotConn/WroteHeaderField/WroteHeaders/" +
		"WroteRequest/GotFirstResponseByte, Body.Read), every ordered pair of request kinds x every point x {same handler, twin handler sharing " +
		"the target URL value}, plus random schedules of depth <= 3, each compared with the Lean schedule model (op fl: backend log in order) " +
		"and (b) rounds of really parallel requests (bare handlers and two bind addresses of a real websvc.Service; GOMAXPROCS 1, 2, all); " +
		"every request there has its own peer address, device segment and marker, and every backend record is checked by the same oracle " +
		"against the request that carried its marker (method, decoded path = the client's own, X-Connecting-IP = its peer); " +
		"shouldProxy, the dot-segment normaliser and SplitHost are additionally compared on their own; a case is non-trivial when " +
		"it was forwarded, answered 500/robots, or refused under an API prefix; distinct = distinct canonical requests"
	m := hlib.StartModel(o.Model, "C19")
	defer m.Close()
	defer func() {
		// The check quotes the last line of a failed run: make it the reason.
		if p := recover(); p != nil {
			fmt.Fprintf(os.Stderr, "%s\nharness panic: %v\n", debug.Stack(), p)
			os.Exit(2)
		}
	}()
	// The error log of the proxy quotes request paths byte for byte; the
	// harness output must stay valid UTF-8.
	aglog.SetOutput(io.Discard)
	w := newWorld()
	defer w.backend.Close()
	w.startService()
	svcIdx := w.svcIdx[0]
	defer func() { _ = w.svc.Shutdown(context.Background()) }()
	w.startDecoy()
	defer w.decoy.Close()
	probeSourceAddr(w.stands[0].tcpAddr)
	if noSourceAddr {
		r.Count("tcp.client-source-address.not-available")
	} else {
		r.Count("tcp.client-source-address.127.0.0.x")
	}
	nRandomStands := len(w.stands)
	cleanupWired := w.startWired()
	defer cleanupWired()
	w.deadIdx = w.addBareStand("http://127.0.0.1:1/api", 2*time.Second)
	w.stands[w.deadIdx].dead = true

	fc := fixedCases()
	for _, c := range fixedCases() {
		if c.TCP {
			c.Stand = svcIdx
			fc = append(fc, c)
		}
	}
	w.reqCampaign(o, r, m, fc)
	rng := o.Rand("req")
	n := 30000
	if o.Thorough() {
		n = 400000
	}
	cases := make([]*reqCase, n)
	for i := range cases {
		cases[i] = genCase(rng, nRandomStands)
		if c := cases[i]; w.stands[c.Stand].svc {
			c.TCP, c.Remote, c.WantIP, c.BadRem = true, "", "", false
		}
		w.wireVariation(rng, cases[i])
	}
	w.reqCampaign(o, r, m, cases)
	nEdit2 := 3000
	if o.Thorough() {
		nEdit2 = 60000
	}
	ec := editCases(o.Rand("edit"), nEdit2)
	w.reqCampaign(o, r, m, ec)
	r.Count("req.edit-distance-1-exhaustive")
	w.reqCampaign(o, r, m, hdrSweepCases())
	r.Count("hdr.exhaustive-name-x-spelling-x-multiplicity-x-connection")
	osc := overrideSweepCases()
	for _, c := range osc {
		for i := range c.Hdrs {
			c.Hdrs[i].V = strings.ReplaceAll(c.Hdrs[i].V, "<backend>", strings.TrimPrefix(w.backend.URL, "http://"))
		}
	}
	w.reqCampaign(o, r, m, osc)
	r.Count("hdr.exhaustive-override-name-x-value-x-request")
	w.reqCampaign(o, r, m, boundaryCases())
	r.Count("req.length-boundaries")
	w.wiredCampaign(o, r, m, o.Rand("wired"))
	w.faultCampaign(o, r, m, o.Rand("fault"))
	w.connCampaign(o, r, m, o.Rand("conn"))
	w.ilvCampaign(o, r, m, o.Rand("ilv"))
	if len(r.Violations) == 0 {
		// Real parallelism adds no information once a schedule without any
		// parallelism has produced a failing input, and code that shares state
		// between requests can take the whole process down with it (concurrent
		// map writes are fatal, not a panic).
		w.concCampaign(o, r, m, o.Rand("conc"))
	} else {
		r.Count("conc.skipped-after-violation")
	}
	if o.Thorough() {
		// Exhaustive small scope through the whole handler.
		var ex []*reqCase
		alpha := []string{"linkip", "ddns", "a", "status", ".", "..", "", "%2e%2e"}
		var rec func(prefix []string)
		rec = func(prefix []string) {
			for _, method := range []string{"GET", "POST", "PUT"} {
				ex = append(ex, &reqCase{Method: method, Target: "/" + strings.Join(prefix, "/"), Remote: "192.0.2.7:4711", WantIP: "192.0.2.7",
					Hdrs: []hdrKV{{"X-Connecting-IP", "6.6.6.6"}, {"Connection", "x-connecting-ip"}}})
			}
			if len(prefix) == 5 {
				return
			}
			for _, a := range alpha {
				rec(append(append([]string{}, prefix...), a))
			}
		}
		rec(nil)
		w.reqCampaign(o, r, m, ex)
		r.Count("req.exhaustive-alphabet8-depth5")
		r.Exhaustive = true
	}
	spCampaign(o, r, m, o.Rand("sp"))
	normCampaign(o, r, m, o.Rand("norm"))
	hostCampaign(r, m, o.Rand("host"))

	r.ModelOps = r.Traces
	r.Finish()
}
