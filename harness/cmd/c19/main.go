// Command c19 is the correspondence harness and property oracle for C19 (the
// linked-IP / dynamic-DNS proxy forwards only its API, with the real client
// address).
package main

import (
	"bufio"
	"bytes"
	"context"
	"encoding/hex"
	"fmt"
	"io"
	"math/rand/v2"
	"net"
	"net/http"
	"net/http/httptest"
	"net/netip"
	"net/url"
	"os"
	"sort"
	"strings"
	"sync"
	"time"

	"github.com/AdguardTeam/AdGuardDNS/internal/agdhttp"
	"github.com/AdguardTeam/AdGuardDNS/internal/websvc"
	"github.com/AdguardTeam/AdGuardDNS/verifh/hlib"
)

// errColl is a silent error collector.
type errColl struct{}

func (errColl) Collect(_ context.Context, _ error) {}

// seen is what the recording backend received.
type seen struct {
	Method string
	URI    string
	Path   string
	Host   string
	Hdr    http.Header
}

// view is what the handler under test was given (after net/http's parsing).
type view struct {
	Method string
	Path   string
	Remote string
	Hdr    http.Header
}

// stand is one linked-IP handler in front of the recording backend.
type stand struct {
	base    string // path of the target URL
	h       http.Handler
	tcpAddr string
	// svc is true for the stand that is a real websvc.Service (websvc.New +
	// Start): the handler is mounted by the production code and cannot be
	// wrapped, so the view is reconstructed with http.ReadRequest.
	svc bool

	mu    sync.Mutex
	views []view
}

type world struct {
	mu      sync.Mutex
	recs    []seen
	backend *httptest.Server
	stands  []*stand
	ua      string
	svc     *websvc.Service

	nextID int
	// recent holds the last cases with their outcomes, by ID; late holds
	// backend records that arrived after their case had been evaluated.
	recent map[int]*pending
	late   []seen
}

// freePort returns a currently free TCP port outside the ephemeral range.
func freePort() (ap netip.AddrPort) {
	for i := 0; i < 2000; i++ {
		port := 20000 + (os.Getpid()*31+i*7919)%12000
		l, err := net.Listen("tcp", fmt.Sprintf("127.0.0.1:%d", port))
		if err != nil {
			continue
		}
		_ = l.Close()

		return netip.AddrPortFrom(netip.MustParseAddr("127.0.0.1"), uint16(port))
	}
	panic("no free port")
}

// startService adds a stand served by websvc.New(...).Start, the production
// mounting of the linked-IP handler.
func (w *world) startService() {
	u, err := url.Parse(w.backend.URL)
	hlib.Must(err)
	ap := freePort()
	w.svc = websvc.New(&websvc.Config{
		LinkedIP:      &websvc.LinkedIPServer{TargetURL: u, Bind: []*websvc.BindData{{Address: ap}}},
		StaticContent: http.NotFoundHandler(),
		DNSCheck:      http.NotFoundHandler(),
		ErrColl:       errColl{},
		Timeout:       10 * time.Second,
	})
	hlib.Must(w.svc.Start(context.Background()))
	for i := 0; ; i++ {
		conn, err := net.Dial("tcp", ap.String())
		if err == nil {
			_ = conn.Close()

			break
		}
		if i > 500 {
			panic("websvc linked-ip server did not come up: " + err.Error())
		}
		time.Sleep(10 * time.Millisecond)
	}
	w.stands = append(w.stands, &stand{base: "", tcpAddr: ap.String(), svc: true})
}

func newWorld() (w *world) {
	w = &world{ua: agdhttp.UserAgent()}
	w.backend = httptest.NewServer(http.HandlerFunc(func(rw http.ResponseWriter, r *http.Request) {
		_, _ = io.Copy(io.Discard, r.Body)
		w.mu.Lock()
		w.recs = append(w.recs, seen{Method: r.Method, URI: r.RequestURI, Path: r.URL.Path, Host: r.Host, Hdr: r.Header.Clone()})
		w.mu.Unlock()
		rw.Header().Set("Server", "backend")
		_, _ = io.WriteString(rw, "backend-ok")
	}))
	for _, base := range []string{"", "/api", "/v1/"} {
		u, err := url.Parse(w.backend.URL + base)
		hlib.Must(err)
		st := &stand{base: base}
		inner := websvc.VerifC19LinkedIPHandler(u, errColl{}, "verif", 5*time.Second)
		// The snapshot wrapper is the only thing between the server and the
		// handler, like in websvc.New, where the handler is mounted on a bare
		// http.Server; it does not clean the path.
		st.h = http.HandlerFunc(func(rw http.ResponseWriter, r *http.Request) {
			st.mu.Lock()
			st.views = append(st.views, view{Method: r.Method, Path: r.URL.Path, Remote: r.RemoteAddr, Hdr: r.Header.Clone()})
			st.mu.Unlock()
			inner.ServeHTTP(rw, r)
		})
		l, err := net.Listen("tcp", "127.0.0.1:0")
		hlib.Must(err)
		st.tcpAddr = l.Addr().String()
		srv := &http.Server{Handler: st.h, ReadHeaderTimeout: 5 * time.Second}
		go func() { _ = srv.Serve(l) }()
		w.stands = append(w.stands, st)
	}

	return w
}

func (w *world) takeRecs() (recs []seen) {
	w.mu.Lock()
	defer w.mu.Unlock()
	recs, w.recs = w.recs, nil

	return recs
}

func (st *stand) takeViews() (vs []view) {
	st.mu.Lock()
	defer st.mu.Unlock()
	vs, st.views = st.views, nil

	return vs
}

// ----- request cases -----

type hdrKV struct{ K, V string }

type reqCase struct {
	Stand  int     `json:"stand"`
	TCP    bool    `json:"tcp"`
	Method string  `json:"method"`
	Target string  `json:"target"`
	Hdrs   []hdrKV `json:"headers"`
	Remote string  `json:"remote,omitempty"` // in-process only
	WantIP string  `json:"want_ip,omitempty"`
	BadRem bool    `json:"bad_remote,omitempty"`
	// ID is put on the wire as X-Verif-Case, so that every record of the
	// backend can be attributed to the request that caused it.
	ID int `json:"id,omitempty"`
}

const caseHdr = "X-Verif-Case"

func (c *reqCase) raw() []byte {
	var b bytes.Buffer
	fmt.Fprintf(&b, "%s %s HTTP/1.1\r\nHost: link-ip.example\r\n", c.Method, c.Target)
	for _, kv := range c.Hdrs {
		fmt.Fprintf(&b, "%s: %s\r\n", kv.K, kv.V)
	}
	if c.ID != 0 {
		fmt.Fprintf(&b, "%s: %d\r\n", caseHdr, c.ID)
	}
	if c.Method == "POST" || c.Method == "PUT" || c.Method == "PATCH" {
		b.WriteString("Content-Length: 0\r\n")
	}
	b.WriteString("\r\n")

	return b.Bytes()
}

func (c *reqCase) canon() string {
	var b strings.Builder
	fmt.Fprintf(&b, "%d|%v|%s|%s|%s", c.Stand, c.TCP, c.Method, c.Target, c.Remote)
	for _, kv := range c.Hdrs {
		fmt.Fprintf(&b, "|%s:%s", kv.K, kv.V)
	}

	return b.String()
}

// outcome is the observable result of one case on the real code.
type outcome struct {
	parsed   bool // the handler was reached
	v        view
	status   int
	body     string
	recs     []seen
	panicked any
	ioErr    error
}

func (w *world) run(c *reqCase) (o outcome) {
	st := w.stands[c.Stand]
	w.late = append(w.late, w.takeRecs()...)
	st.takeViews()
	w.nextID++
	c.ID = w.nextID
	var svcView *view
	if st.svc && !c.TCP {
		panic("the real-service stand is reachable over TCP only")
	}
	if c.TCP {
		conn, err := net.Dial("tcp", st.tcpAddr)
		hlib.Must(err)
		defer conn.Close()
		c.WantIP = conn.LocalAddr().(*net.TCPAddr).IP.String()
		if st.svc {
			// "OPTIONS *" is answered by net/http's server itself (200, empty)
			// and never reaches any handler, on every stand.
			if req, rerr := http.ReadRequest(bufio.NewReader(bytes.NewReader(c.raw()))); rerr == nil && !(req.Method == "OPTIONS" && req.RequestURI == "*") {
				svcView = &view{Method: req.Method, Path: req.URL.Path, Remote: conn.LocalAddr().String(), Hdr: req.Header}
			}
		}
		_, err = conn.Write(c.raw())
		hlib.Must(err)
		_ = conn.SetReadDeadline(time.Now().Add(10 * time.Second))
		resp, err := http.ReadResponse(bufio.NewReader(conn), &http.Request{Method: c.Method})
		if err != nil {
			o.ioErr = err
		} else {
			b, _ := io.ReadAll(resp.Body)
			_ = resp.Body.Close()
			o.status, o.body = resp.StatusCode, string(b)
		}
	} else {
		req, err := http.ReadRequest(bufio.NewReader(bytes.NewReader(c.raw())))
		if err != nil {
			o.status = 400

			return o
		}
		req.RemoteAddr = c.Remote
		rec := httptest.NewRecorder()
		func() {
			defer func() { o.panicked = recover() }()
			st.h.ServeHTTP(rec, req)
		}()
		o.status, o.body = rec.Code, rec.Body.String()
	}
	vs := st.takeViews()
	if len(vs) > 0 {
		o.parsed, o.v = true, vs[0]
	}
	if svcView != nil && o.ioErr == nil {
		o.parsed, o.v = true, *svcView
	}
	for _, rec := range w.takeRecs() {
		if rec.Hdr.Get(caseHdr) == fmt.Sprint(c.ID) {
			o.recs = append(o.recs, rec)
		} else {
			w.late = append(w.late, rec)
		}
	}

	return o
}

// settleLate evaluates backend records that turned up after their own case
// had been evaluated (the proxy's transport may send an idempotent request
// again after a connection error): the oracle is run on the record with its
// own case.  A record for a case that was answered locally is a violation like
// any other forwarded request.
func (w *world) settleLate(r *hlib.Result) {
	late := w.late
	w.late = nil
	for _, rec := range late {
		r.Count("backend.late-record")
		var id int
		_, _ = fmt.Sscan(rec.Hdr.Get(caseHdr), &id)
		p := w.recent[id]
		if p == nil {
			r.Count("backend.late-record.case-unknown")

			continue
		}
		if len(p.o.recs) > 0 {
			r.Count("backend.late-record.duplicate-delivery")
		}
		o := p.o
		o.recs = []seen{rec}
		w.oracle(r, p.c, o)
	}
}

// ----- canonical forms shared with the model driver -----

func hx(s string) string {
	if s == "" {
		return "-"
	}

	return hex.EncodeToString([]byte(s))
}

var forwardingNames = []string{
	"Cf-Connecting-Ip", "Forwarded", "True-Client-Ip", "X-Real-Ip", "X-Forwarded-For", "X-Forwarded-Host",
	"X-Forwarded-Proto",
}

var watched = append(append([]string{"X-Connecting-Ip", "X-Request-Id"}, forwardingNames...),
	"User-Agent", "X-Custom", "X-Client-Ip")

func looksGeneratedID(v string) bool {
	if len(v) != 22 {
		return false
	}
	for _, c := range v {
		if !(c >= 'a' && c <= 'z' || c >= 'A' && c <= 'Z' || c >= '0' && c <= '9' || c == '-' || c == '_') {
			return false
		}
	}

	return true
}

func showHdrs(h http.Header) string {
	var items []string
	for _, n := range watched {
		vs := h[n]
		if len(vs) == 0 {
			continue
		}
		hs := make([]string, len(vs))
		for i, v := range vs {
			if n == "X-Request-Id" && looksGeneratedID(v) {
				v = "ID"
			}
			hs[i] = hx(v)
		}
		items = append(items, n+"="+strings.Join(hs, ","))
	}
	if len(items) == 0 {
		return "-"
	}

	return strings.Join(items, ";")
}

// modelLine is the op line for one case.  For an origin-form request target
// the model is given the raw target (op wreq) and derives the path itself, so
// that net/http's percent-decoding, query cut and refusals are inside the
// comparison; for the other forms it is given the parsed path (op req).
func (w *world) modelLine(c *reqCase, o outcome) string {
	var b strings.Builder
	v := o.v
	if strings.HasPrefix(c.Target, "/") {
		method, remote := c.Method, c.Remote
		if o.parsed {
			method, remote = v.Method, v.Remote
		}
		fmt.Fprintf(&b, "wreq %s %s %s %s %s", hx(w.stands[c.Stand].base), hx(w.ua), hx(method), hx(c.Target), hx(remote))
	} else {
		fmt.Fprintf(&b, "req %s %s %s %s %s", hx(w.stands[c.Stand].base), hx(w.ua), hx(v.Method), hx(v.Path), hx(v.Remote))
	}
	names := make([]string, 0, len(v.Hdr))
	for n := range v.Hdr {
		names = append(names, n)
	}
	sort.Strings(names)
	for _, n := range names {
		for _, val := range v.Hdr[n] {
			fmt.Fprintf(&b, " %s %s", hx(n), hx(val))
		}
	}

	return b.String()
}

const robotsBody = agdhttp.RobotsDisallowAll

// isRobots reports whether the answer is the robots file (a HEAD answer over
// a real connection has no body).
func isRobots(o outcome) bool {
	return o.status == 200 && (o.body == robotsBody || (o.body == "" && o.v.Method == "HEAD"))
}

func realLine(o outcome) string {
	switch {
	case len(o.recs) >= 1:
		return "proxy " + hx(o.recs[0].Path) + " " + showHdrs(o.recs[0].Hdr)
	case o.status == 404:
		return "404"
	case isRobots(o):
		return "robots"
	case o.status == 500:
		return "500"
	default:
		return fmt.Sprintf("status-%d", o.status)
	}
}

// ----- the property oracle (does not consult the model) -----

// rfcRemoveDots is a literal transcription of RFC 3986 section 5.2.4.
func rfcRemoveDots(in string) (out string) {
	removeLast := func(s string) string {
		i := strings.LastIndexByte(s, '/')
		if i < 0 {
			return ""
		}

		return s[:i]
	}
	for len(in) > 0 {
		switch {
		case strings.HasPrefix(in, "../"):
			in = in[3:]
		case strings.HasPrefix(in, "./"):
			in = in[2:]
		case strings.HasPrefix(in, "/./"):
			in = in[2:]
		case in == "/.":
			in = "/"
		case strings.HasPrefix(in, "/../"):
			in = in[3:]
			out = removeLast(out)
		case in == "/..":
			in = "/"
			out = removeLast(out)
		case in == "." || in == "..":
			in = ""
		default:
			i := 0
			if in[0] == '/' {
				i = 1
			}
			j := strings.IndexByte(in[i:], '/')
			if j < 0 {
				out += in
				in = ""
			} else {
				out += in[:i+j]
				in = in[i+j:]
			}
		}
	}

	return out
}

// documentedShape reports whether method and the absolute path rel have one of
// the four documented shapes.  Segments are whatever lies between slashes.
func documentedShape(method, rel string) bool {
	if !strings.HasPrefix(rel, "/") {
		return false
	}
	segs := strings.Split(rel[1:], "/")
	switch {
	case method == "GET" && len(segs) == 3 && segs[0] == "linkip":
	case method == "GET" && len(segs) == 4 && segs[0] == "linkip" && segs[3] == "status":
	case method == "POST" && len(segs) == 4 && segs[0] == "ddns":
	case method == "POST" && len(segs) == 3 && segs[0] == "linkip":
	default:
		return false
	}

	return true
}

func underPrefix(p string) bool {
	return strings.HasPrefix(p, "/linkip/") || strings.HasPrefix(p, "/ddns/")
}

// pathClass names the input class of a path for violation signatures.
func pathClass(p string) string {
	for _, s := range strings.Split(p, "/") {
		if s == "." || s == ".." {
			return "dot-segment"
		}
	}
	if strings.Contains(p, "//") {
		return "empty-segment"
	}

	return "other"
}

// checkForwardedPath checks the allow-list clauses for one request that
// reached the backend: method, the path the client put on the wire (decoded)
// and the path the backend received, relative to the target's base path.
func checkForwardedPath(r *hlib.Result, method, clientPath, backendRel string, replay any) {
	for _, p := range []string{clientPath, backendRel} {
		if !documentedShape(method, "/"+strings.TrimPrefix(p, "/")) {
			r.Violate("forwarded-undocumented-shape:"+pathClass(p),
				fmt.Sprintf("backend contacted for %s %q, which is none of the four documented shapes", method, p), replay)
		}
		n := rfcRemoveDots("/" + strings.TrimPrefix(p, "/"))
		if !underPrefix(n) || !documentedShape(method, n) {
			r.Violate("forwarded-path-escapes-prefix:"+pathClass(p),
				fmt.Sprintf("backend contacted for %s %q, which normalises to %q: outside /linkip, /ddns or not an API shape", method, p, n), replay)
		}
	}
}

func (w *world) oracle(r *hlib.Result, c *reqCase, o outcome) {
	replay := map[string]any{"case": c, "raw_request": string(c.raw()), "status": o.status, "backend_saw": o.recs,
		"how": "send raw_request to an http.Server whose Handler is websvc.linkedIPHandler(target = recording backend + base path)"}
	if o.panicked != nil {
		r.Violate("handler-panic", fmt.Sprintf("handler panicked: %v", o.panicked), replay)

		return
	}
	if len(o.recs) == 0 {
		// Answered locally: 404, robots, or 500 when the peer address is unusable.
		switch {
		case !o.parsed:
			// net/http refused the request before the handler; nothing to check
			// but that the backend stayed untouched (it did).
		case o.status == 404:
		case isRobots(o) && o.v.Path == "/robots.txt":
		case o.status == 500 && c.BadRem:
		default:
			r.Violate("local-answer-not-404", fmt.Sprintf("request %s %q not forwarded but answered %d %q", o.v.Method, o.v.Path, o.status, o.body), replay)
		}

		return
	}
	if len(o.recs) > 1 {
		// Not forbidden by the property (the transport may repeat an idempotent
		// request); every delivery is checked.
		r.Count("backend.duplicate-delivery")
		for _, rec := range o.recs[1:] {
			o2 := o
			o2.recs = []seen{rec}
			w.oracle(r, c, o2)
		}
	}
	b := o.recs[0]
	st := w.stands[c.Stand]
	base := strings.TrimSuffix(st.base, "/")
	if !strings.HasPrefix(b.Path, base+"/") {
		r.Violate("forwarded-path-escapes-prefix:base", fmt.Sprintf("backend path %q not under the target path %q", b.Path, st.base), replay)

		return
	}
	if b.Method != o.v.Method {
		r.Violate("forwarded-method-changed", fmt.Sprintf("client sent %s, backend saw %s", o.v.Method, b.Method), replay)
	}
	checkForwardedPath(r, b.Method, o.v.Path, b.Path[len(base):], replay)
	// The raw request line of the backend must decode to the same path.
	if u, err := url.ParseRequestURI(b.URI); err != nil || u.Path != b.Path {
		r.Violate("backend-uri-mismatch", fmt.Sprintf("backend request URI %q does not decode to %q", b.URI, b.Path), replay)
	}
	// No segment of the raw request line may decode to a dot segment either (a
	// backend may decode before or after it normalises).
	rawPath, _, _ := strings.Cut(b.URI, "?")
	for _, seg := range strings.Split(rawPath, "/") {
		if d, err := url.PathUnescape(seg); err == nil && (d == "." || d == ".." || strings.HasPrefix(d, "../") || strings.HasSuffix(d, "/..") || strings.Contains(d, "/../")) {
			r.Violate("forwarded-path-escapes-prefix:encoded-dot-segment", fmt.Sprintf("backend request line %q has the segment %q, which decodes to a dot segment", b.URI, seg), replay)
		}
	}
	// Client address.
	got := b.Hdr["X-Connecting-Ip"]
	switch {
	case c.BadRem:
		r.Violate("forwarded-without-peer-address", fmt.Sprintf("peer address %q has no usable host part, but the request was forwarded with X-Connecting-IP = %q", c.Remote, got), replay)
	case len(got) == 0:
		r.Violate("client-ip-header-missing", fmt.Sprintf("forwarded request carries no X-Connecting-IP (peer %s)", c.WantIP), replay)
	case len(got) != 1 || got[0] != c.WantIP:
		r.Violate("client-ip-header-wrong", fmt.Sprintf("forwarded X-Connecting-IP = %q, peer is %s", got, c.WantIP), replay)
	}
	for _, n := range forwardingNames {
		if vs, ok := b.Hdr[n]; ok {
			r.Violate("forged-forwarding-header-forwarded:"+n, fmt.Sprintf("client-supplied %s: %q reached the backend", n, vs), replay)
		}
	}
	// Any other spelling of the same names (HTTP names are case-insensitive,
	// Go canonicalises them; this guards the canonicalisation assumption).
	for n, vs := range b.Hdr {
		ln := strings.ToLower(n)
		for _, f := range forwardingNames {
			if ln == strings.ToLower(f) && n != f {
				r.Violate("forged-forwarding-header-forwarded:"+f, fmt.Sprintf("client-supplied %s: %q reached the backend", n, vs), replay)
			}
		}
		if ln == "x-connecting-ip" && n != "X-Connecting-Ip" {
			r.Violate("client-ip-header-wrong", fmt.Sprintf("second client-IP header %s: %q reached the backend", n, vs), replay)
		}
	}
}

// ----- generators -----

var methods = []string{"GET", "POST"}
var oddMethods = []string{"HEAD", "PUT", "DELETE", "OPTIONS", "PATCH", "get", "Post", "CONNECT", "TRACE", "GETX"}

var firstSegs = []string{"linkip", "ddns", "linkip", "ddns", "Linkip", "LINKIP", "linkip%2e", "", ".", "..", "%2e%2e",
	"%2E.", "robots.txt", "other", "linkip;x", "dns", "%6cinkip", "ddns%2F.."}

var segs = []string{"dev1234", "0123456789", "a", "b", "example.com", "status", "", ".", "..", "%2e", "%2e%2e", ".%2E",
	"%2E%2E", "...", "a%2Fb", "%2F", "..%2F", "%2F..", "a%20b", "x.y", "~", "a;b", "a%3Fb", "status%2F..", "%2e%2e%2fstatus",
	"..;", ". ", "%00", "\\..", "%5c..", "linkip", "ddns"}

func pick(rng *rand.Rand, xs []string) string { return xs[rng.IntN(len(xs))] }

// nearMiss returns strings at a small distance from the keyword kw: the class
// of inputs that a comparison weakened to a prefix, suffix, substring,
// case-insensitive or trimmed match would wrongly accept.  raw is true for
// strings put on the wire as part of a request target (percent-escapes are
// allowed there).
func nearMiss(kw string, raw bool) (out []string) {
	if kw == "" {
		return []string{"x", ".", "%20"}
	}
	up, low := strings.ToUpper(kw), strings.ToLower(kw)
	out = []string{kw + "x", "x" + kw, kw[:len(kw)-1], kw[1:], up, low, strings.ToUpper(kw[:1]) + kw[1:],
		kw[:len(kw)-1] + strings.ToUpper(kw[len(kw)-1:]), kw + kw, kw + ".", "." + kw, kw + "-", kw + "_", kw + "1"}
	if raw {
		out = append(out, kw+"%20", "%20"+kw, kw+"%00", kw+"%09", kw+"%2F", kw+"%2Fx", "x%2F"+kw, kw+";x", kw+"%3F",
			fmt.Sprintf("%%%02x", kw[0])+kw[1:])
	}

	return out
}

func init() {
	for _, kw := range []string{"linkip", "ddns"} {
		firstSegs = append(firstSegs, nearMiss(kw, true)...)
	}
	statusNear = nearMiss("status", true)
	segs = append(segs, statusNear...)
	for _, kw := range []string{"GET", "POST"} {
		oddMethods = append(oddMethods, nearMiss(kw, false)...)
	}
	// Only tokens are methods (RFC 9110); everything else is refused by
	// net/http before the handler, which is generated on purpose, but rarely.
	robotsNear = append([]string{"/robots.txt", "/robots.txt", "/robots.txt/", "//robots.txt", "/x/robots.txt", "/robots.txt/x"},
		func() (xs []string) {
			for _, v := range nearMiss("robots.txt", true) {
				xs = append(xs, "/"+v)
			}

			return xs
		}()...)
}

var statusNear, robotsNear []string

func genTarget(rng *rand.Rand) (method, target string) {
	method = pick(rng, methods)
	var parts []string
	switch rng.IntN(10) {
	case 0, 1, 2, 3, 4, 5:
		// a documented shape, then up to two mutations
		switch rng.IntN(4) {
		case 0:
			method, parts = "GET", []string{"linkip", "dev1234", "0123456789"}
		case 1:
			method, parts = "GET", []string{"linkip", "dev1234", "0123456789", "status"}
		case 2:
			method, parts = "POST", []string{"ddns", "dev1234", "0123456789", "example.com"}
		default:
			method, parts = "POST", []string{"linkip", "dev1234", "0123456789"}
		}
		for k := rng.IntN(3); k > 0; k-- {
			i := rng.IntN(len(parts))
			switch rng.IntN(9) {
			case 7:
				// a near miss of the keyword (or identifier) in this position
				parts[i] = pick(rng, nearMiss(parts[i], true))
			case 8:
				method = pick(rng, nearMiss(method, false))
			case 0, 1, 2:
				parts[i] = pick(rng, segs)
			case 3:
				parts = append(parts[:i], append([]string{pick(rng, segs)}, parts[i:]...)...)
			case 4:
				if len(parts) > 1 {
					parts = append(parts[:i], parts[i+1:]...)
				}
			case 5:
				parts = append(parts, pick(rng, segs))
			default:
				method = pick(rng, methods)
			}
		}
	case 6, 7, 8:
		parts = []string{pick(rng, firstSegs)}
		for k := rng.IntN(6); k > 0; k-- {
			parts = append(parts, pick(rng, segs))
		}
	default:
		// special targets
		if rng.IntN(3) == 0 {
			return pick(rng, append(methods, oddMethods...)), pick(rng, robotsNear)
		}

		return pick(rng, append(methods, oddMethods...)), pick(rng, []string{"/", "/robots.txt", "*", "", "/linkip", "/ddns", "/linkip/",
			"//linkip/a/b", "/robots.txt/", "linkip/a/b", "/linkip/a/b/status/", "/linkip/a/b/status/more/stuff",
			"http://evil.example/linkip/a/b", "http://evil.example", "http://evil.example/linkip/../x",
			"/linkip/" + strings.Repeat("a", 3000) + "/b", "/" + strings.Repeat("../", 40) + "linkip/a/b"})
	}
	if rng.IntN(12) == 0 {
		method = pick(rng, oddMethods)
	}
	lead := "/"
	switch rng.IntN(20) {
	case 0:
		lead = "//"
	case 1:
		lead = "http://evil.example/"
	case 2:
		lead = "/./"
	case 3:
		lead = "/../"
	}
	target = lead + strings.Join(parts, "/")
	switch rng.IntN(12) {
	case 0:
		target += "/"
	case 1:
		target += "?x=1"
	case 2:
		target += "?p=/../../x"
	case 3:
		target += "/.."
	}

	return method, target
}

var hdrNames = []string{"X-Connecting-IP", "x-connecting-ip", "X-CONNECTING-IP", "CF-Connecting-IP", "cf-connecting-ip",
	"Forwarded", "forwarded", "True-Client-IP", "true-client-ip", "X-Real-IP", "x-real-ip", "X-Forwarded-For",
	"x-forwarded-for", "X-Forwarded-Host", "X-Forwarded-Proto", "X-Request-ID", "x-request-id", "X-Custom", "X-Client-IP",
	"User-Agent", "X_Connecting_IP", "Keep-Alive", "Proxy-Connection"}

var hdrVals = []string{"6.6.6.6", "for=6.6.6.6;proto=https", "", "evil.example", "https", "1.1.1.1, 2.2.2.2", "::1",
	"10.0.0.1", "ID", "timeout=5"}

var connTokens = []string{"close", "keep-alive", "X-Connecting-IP", "x-connecting-ip", "X-Request-ID", "X-Custom",
	"x-real-ip", "User-Agent", "", " ", "X-Forwarded-For", "upgrade", "Connection", "x_connecting_ip", "X-Client-IP", "b@d"}

func genHdrs(rng *rand.Rand) (hs []hdrKV) {
	n := 0
	switch rng.IntN(4) {
	case 0:
	case 1:
		n = 1
	default:
		n = 1 + rng.IntN(6)
	}
	for i := 0; i < n; i++ {
		hs = append(hs, hdrKV{K: pick(rng, hdrNames), V: pick(rng, hdrVals)})
	}
	for k := 0; k < 2; k++ {
		if rng.IntN(4) == 0 {
			var toks []string
			for j := 1 + rng.IntN(3); j > 0; j-- {
				toks = append(toks, pick(rng, connTokens))
			}
			sep := pick(rng, []string{",", ", ", " ,"})
			hs = append(hs, hdrKV{K: pick(rng, []string{"Connection", "connection"}), V: strings.TrimSpace(strings.Join(toks, sep))})
		}
	}
	rng.Shuffle(len(hs), func(i, j int) { hs[i], hs[j] = hs[j], hs[i] })

	return hs
}

type remote struct {
	addr, ip string
	bad      bool
}

var remotes = []remote{
	{"192.0.2.7:4711", "192.0.2.7", false},
	{"192.0.2.7:4711", "192.0.2.7", false},
	{"10.1.2.3:1", "10.1.2.3", false},
	{"[2001:db8::1]:65535", "2001:db8::1", false},
	{"[::1]:80", "::1", false},
	{"[fe80::1%eth0]:443", "fe80::1%eth0", false},
	{"198.51.100.1", "198.51.100.1", false}, // no port: used as it is
	{"2001:db8::1:80", "", true},
	{"[::1", "", true},
	{"1.2.3.4]:5", "", true},
	{"[1.2.3.4]:x:5", "", true},
}

func genCase(rng *rand.Rand, nStands int) (c *reqCase) {
	c = &reqCase{Stand: 0}
	if rng.IntN(4) == 0 {
		c.Stand = rng.IntN(nStands)
	}
	c.Method, c.Target = genTarget(rng)
	c.Hdrs = genHdrs(rng)
	if rng.IntN(5) == 0 {
		c.TCP = true
	} else {
		rm := remotes[rng.IntN(len(remotes))]
		c.Remote, c.WantIP, c.BadRem = rm.addr, rm.ip, rm.bad
	}

	return c
}

// ----- campaigns -----

type pending struct {
	c *reqCase
	o outcome
}

func classify(r *hlib.Result, c *reqCase, o outcome) (nontrivial bool) {
	switch {
	case !o.parsed && o.status == 200 && c.Method == "OPTIONS" && c.Target == "*":
		r.Count("req.options-star-answered-by-net/http")
	case !o.parsed:
		r.Count("req.rejected-by-net/http")
	case len(o.recs) > 0:
		r.Count("req.forwarded")
		nontrivial = true
	case o.status == 500:
		r.Count("req.500-bad-peer-address")
		nontrivial = true
	case o.status == 200:
		r.Count("req.robots")
		nontrivial = true
	default:
		r.Count("req.local-404")
		p := strings.TrimPrefix(o.v.Path, "/")
		if strings.HasPrefix(p, "linkip/") || strings.HasPrefix(p, "ddns/") {
			r.Count("req.local-404.under-api-prefix")
			nontrivial = true
		}
	}
	if o.parsed {
		if pathClass(o.v.Path) == "dot-segment" {
			r.Count("path.dot-segment")
		}
		if strings.Contains(o.v.Path, "//") {
			r.Count("path.empty-segment")
		}
		if strings.Contains(c.Target, "%2F") || strings.Contains(c.Target, "%2f") {
			r.Count("path.encoded-slash")
		}
		for n := range o.v.Hdr {
			switch n {
			case "X-Connecting-Ip":
				r.Count("hdr.forged-x-connecting-ip")
			case "Connection":
				r.Count("hdr.connection-tokens")
			}
			for _, f := range forwardingNames {
				if f == n {
					r.Count("hdr.forged-forwarding")

					break
				}
			}
		}
		if len(o.recs) > 0 {
			if _, ok := o.v.Hdr["Connection"]; ok {
				r.Count("req.forwarded.with-connection-tokens")
			}
		}
	}
	if c.TCP {
		r.Count("mode.tcp")
	} else {
		r.Count("mode.in-process")
	}
	if c.Stand != 0 {
		r.Count("target.with-base-path-or-real-service")
	}
	if c.Stand == 3 {
		r.Count("target.real-websvc-service")
		if len(o.recs) > 0 {
			r.Count("target.real-websvc-service.forwarded")
		}
	}

	return nontrivial
}

func (w *world) flush(r *hlib.Result, m *hlib.Model, batch []pending) {
	var lines []string
	var idx []int
	for i, p := range batch {
		if p.o.panicked != nil || p.o.ioErr != nil {
			continue
		}
		if p.o.parsed || strings.HasPrefix(p.c.Target, "/") {
			lines = append(lines, w.modelLine(p.c, p.o))
			idx = append(idx, i)
		}
	}
	if len(lines) == 0 {
		return
	}
	answers := m.Batch(lines)
	for k, i := range idx {
		p := batch[i]
		real := realLine(p.o)
		if strings.HasPrefix(lines[k], "wreq ") {
			r.Count("model.wire-target-op")
		} else {
			r.Count("model.parsed-path-op")
		}
		if !p.o.parsed {
			r.Count("model.wire-target-op.rejected-by-net/http")
			real = "rejected"
			if p.o.status != 400 {
				real = fmt.Sprintf("rejected-with-status-%d", p.o.status)
			}
		}
		r.Traces++
		if answers[k] != real {
			r.Disagree("req", fmt.Sprintf("request %q: model says %q, real code %q", string(p.c.raw()), answers[k], real),
				map[string]any{"case": p.c, "model_line": lines[k]})
		}
	}
}

func (w *world) reqCampaign(o *hlib.Opts, r *hlib.Result, m *hlib.Model, cases []*reqCase) {
	var batch []pending
	for _, c := range cases {
		out := w.run(c)
		if w.recent == nil {
			w.recent = map[int]*pending{}
		}
		w.recent[c.ID] = &pending{c, out}
		delete(w.recent, c.ID-5000)
		// Property oracle first, independently of the model.
		w.oracle(r, c, out)
		if len(w.late) > 0 {
			w.settleLate(r)
		}
		r.Case(c.canon(), classify(r, c, out))
		if len(out.recs) > 0 {
			r.Sample(map[string]any{"request": strings.SplitN(string(c.raw()), "\r\n", 2)[0], "headers": c.Hdrs, "peer": c.WantIP,
				"backend_path": out.recs[0].Path, "backend_headers": showHdrs(out.recs[0].Hdr)}, 5)
		}
		batch = append(batch, pending{c, out})
		if len(batch) >= 400 {
			w.flush(r, m, batch)
			batch = batch[:0]
		}
	}
	w.flush(r, m, batch)
	w.late = append(w.late, w.takeRecs()...)
	w.settleLate(r)
}

// ----- exhaustive edit neighbourhood of the documented requests -----

// edits returns every string at edit distance one from s: deletions,
// duplications, case flips, and insertions / replacements with every element
// of alpha (which may be longer than one byte).
func edits(s string, alpha []string) (out []string) {
	for i := 0; i <= len(s); i++ {
		for _, a := range alpha {
			out = append(out, s[:i]+a+s[i:])
			if i < len(s) {
				out = append(out, s[:i]+a+s[i+1:])
			}
		}
		if i < len(s) {
			out = append(out, s[:i]+s[i+1:], s[:i]+s[i:i+1]+s[i:])
			if c := s[i]; c >= 'a' && c <= 'z' || c >= 'A' && c <= 'Z' {
				out = append(out, s[:i]+string(c^0x20)+s[i+1:])
			}
		}
	}

	return out
}

type docReq struct{ method, path string }

var docReqs = []docReq{{"GET", "/linkip/d1/e2"}, {"GET", "/linkip/d1/e2/status"}, {"POST", "/ddns/d1/e2/x.y"}, {"POST", "/linkip/d1/e2"}}

var pathEditAlpha = []string{"/", ".", "..", "%2e", "%2E%2e", "%2F", "%2f..", "x", "?", "%", " ", "%00", "//", "/./", "/../", ";", "%20", "\\", "#", "+"}

var methodEditAlpha = []string{"X", "x", "-", "T"}

// editTargets is the distance-one neighbourhood of the four documented
// requests (method and request target edited separately), plus, when n > 0, n
// random distance-two neighbours.
func editTargets(rng *rand.Rand, n int) (out []docReq) {
	for _, d := range docReqs {
		out = append(out, d)
		for _, t := range edits(d.path, pathEditAlpha) {
			out = append(out, docReq{d.method, t})
		}
		for _, m := range edits(d.method, methodEditAlpha) {
			if m != "" {
				out = append(out, docReq{m, d.path})
			}
		}
		// the other method with every path edit that keeps the path: covered by
		// the method swap below
		for _, m := range []string{"GET", "POST", "HEAD", "PUT"} {
			out = append(out, docReq{m, d.path})
		}
	}
	for i := 0; i < n; i++ {
		d := docReqs[rng.IntN(len(docReqs))]
		e1 := edits(d.path, pathEditAlpha)
		t := e1[rng.IntN(len(e1))]
		e2 := edits(t, pathEditAlpha)
		t = e2[rng.IntN(len(e2))]
		m := d.method
		if rng.IntN(4) == 0 {
			m = pick(rng, []string{"GET", "POST"})
		}
		out = append(out, docReq{m, t})
	}

	return out
}

func editCases(rng *rand.Rand, n int) (cs []*reqCase) {
	forged := []hdrKV{{"X-Connecting-IP", "6.6.6.6"}, {"X-Real-IP", "6.6.6.6"}, {"X-Forwarded-For", "6.6.6.6"}}
	for _, d := range editTargets(rng, n) {
		cs = append(cs, &reqCase{Method: d.method, Target: d.path, Hdrs: forged, Remote: "192.0.2.7:4711", WantIP: "192.0.2.7"})
	}

	return cs
}

// ----- concurrent requests from different peers (oracle only) -----

// concCampaign sends requests from several peers at the same time through one
// handler and checks that every request that reached the backend carries the
// address of its own peer.  Requests are correlated by an X-Custom marker.
func (w *world) concCampaign(o *hlib.Opts, r *hlib.Result, rng *rand.Rand) {
	workers, per := 8, 1000
	if o.Thorough() {
		workers, per = 16, 1500
	}
	type want struct {
		c       *reqCase
		forward bool // must not be forwarded when false
	}
	wants := map[string]want{}
	plans := make([][]*reqCase, workers)
	for k := 0; k < workers; k++ {
		for i := 0; i < per; i++ {
			ip := fmt.Sprintf("198.18.%d.%d", k, i%250+1)
			remote := ip + ":4711"
			if k%4 == 3 {
				ip = fmt.Sprintf("2001:db8:%x::%x", k, i+1)
				remote = "[" + ip + "]:4711"
			}
			marker := fmt.Sprintf("c%d-%d", k, i)
			c := &reqCase{Remote: remote, WantIP: ip}
			forward := true
			switch rng.IntN(6) {
			case 0:
				c.Method, c.Target = "GET", "/linkip/dev/enc"
			case 1:
				c.Method, c.Target = "GET", "/linkip/dev/enc/status"
			case 2:
				c.Method, c.Target = "POST", "/ddns/dev/enc/example.com"
			case 3:
				c.Method, c.Target = "POST", "/linkip/dev/enc"
			case 4:
				c.Method, c.Target, forward = "GET", "/linkip/dev/enc/other", false
			default:
				c.Method, c.Target, forward = "PUT", "/ddns/dev/enc/example.com", false
			}
			c.Hdrs = []hdrKV{{"X-Custom", marker}}
			for _, n := range []string{"X-Connecting-IP", "X-Real-IP", "X-Forwarded-For", "CF-Connecting-IP"} {
				if rng.IntN(2) == 0 {
					c.Hdrs = append(c.Hdrs, hdrKV{n, "6.6.6.6"})
				}
			}
			if rng.IntN(4) == 0 {
				c.Hdrs = append(c.Hdrs, hdrKV{"Connection", "X-Connecting-IP"})
			}
			wants[marker] = want{c, forward}
			plans[k] = append(plans[k], c)
		}
	}
	st := w.stands[0]
	w.takeRecs()
	st.takeViews()
	var wg sync.WaitGroup
	panics := make([]any, workers)
	for k := 0; k < workers; k++ {
		wg.Add(1)
		go func(k int) {
			defer wg.Done()
			defer func() { panics[k] = recover() }()
			for _, c := range plans[k] {
				req, err := http.ReadRequest(bufio.NewReader(bytes.NewReader(c.raw())))
				hlib.Must(err)
				req.RemoteAddr = c.Remote
				st.h.ServeHTTP(httptest.NewRecorder(), req)
			}
		}(k)
	}
	wg.Wait()
	st.takeViews()
	recs := w.takeRecs()
	for k, p := range panics {
		if p != nil {
			r.Violate("handler-panic", fmt.Sprintf("handler panicked under concurrent requests: %v", p), map[string]any{"worker": k})
		}
	}
	seenMarker := map[string]int{}
	for _, b := range recs {
		if b.Hdr.Get(caseHdr) != "" {
			w.late = append(w.late, b)

			continue
		}
		marker := b.Hdr.Get("X-Custom")
		wt, ok := wants[marker]
		replay := map[string]any{"backend_saw": b, "how": fmt.Sprintf("%d goroutines, each sending %d requests with its own RemoteAddr through one linkedIPHandler", workers, per)}
		if !ok {
			r.Violate("backend-contacted-twice", fmt.Sprintf("backend saw a request with unknown marker %q", marker), replay)

			continue
		}
		replay["case"], replay["raw_request"] = wt.c, string(wt.c.raw())
		seenMarker[marker]++
		if seenMarker[marker] > 1 {
			r.Violate("backend-contacted-twice", "one request caused several backend requests (concurrent)", replay)
		}
		if !wt.forward {
			r.Violate("forwarded-undocumented-shape:concurrent", fmt.Sprintf("backend contacted for %s %q", wt.c.Method, wt.c.Target), replay)
		}
		if got := b.Hdr["X-Connecting-Ip"]; len(got) != 1 || got[0] != wt.c.WantIP {
			r.Violate("client-ip-header-wrong:concurrent", fmt.Sprintf("forwarded X-Connecting-IP = %q, peer of this request is %s", got, wt.c.WantIP), replay)
		}
		for _, n := range forwardingNames {
			if vs, ok := b.Hdr[n]; ok {
				r.Violate("forged-forwarding-header-forwarded:"+n, fmt.Sprintf("client-supplied %s: %q reached the backend (concurrent)", n, vs), replay)
			}
		}
		r.Count("conc.forwarded")
	}
	for marker, wt := range wants {
		r.Case("conc|"+wt.c.canon(), wt.forward)
		if wt.forward && seenMarker[marker] == 0 {
			r.Count("conc.documented-request-not-forwarded")
		}
	}
	r.Count(fmt.Sprintf("conc.workers-%d", workers))
	w.settleLate(r)
}

// fixedCases are always run: the documented shapes, the Lean counter-example
// witnesses and the design-round inputs.
func fixedCases() (cs []*reqCase) {
	add := func(method, target string, hs ...hdrKV) {
		for _, tcp := range []bool{false, true} {
			c := &reqCase{Method: method, Target: target, Hdrs: hs, TCP: tcp}
			if !tcp {
				c.Remote, c.WantIP = "192.0.2.7:4711", "192.0.2.7"
			}
			cs = append(cs, c)
		}
	}
	forged := []hdrKV{{"X-Connecting-IP", "6.6.6.6"}, {"CF-Connecting-IP", "6.6.6.6"}, {"Forwarded", "for=6.6.6.6"},
		{"True-Client-IP", "6.6.6.6"}, {"X-Real-IP", "6.6.6.6"}, {"X-Forwarded-For", "6.6.6.6"},
		{"X-Forwarded-Host", "evil.example"}, {"X-Forwarded-Proto", "https"}}
	add("GET", "/linkip/dev1234/0123456789")
	add("GET", "/linkip/dev1234/0123456789/status", forged...)
	add("POST", "/ddns/dev1234/0123456789/example.com", forged...)
	add("POST", "/linkip/dev1234/0123456789")
	add("GET", "/robots.txt")
	add("GET", "/linkip/../x")
	add("GET", "/linkip/../../status")
	add("POST", "/ddns/../a/b")
	add("GET", "/linkip/%2e%2e/x")
	add("GET", "/linkip/a/..")
	add("GET", "/linkip/./x")
	add("POST", "/ddns/a/b/..")
	add("GET", "/linkip/a/b", hdrKV{"Connection", "X-Connecting-IP"})
	add("GET", "/linkip/a/b", hdrKV{"Connection", "close, x-connecting-ip"}, hdrKV{"X-Connecting-IP", "6.6.6.6"})
	add("POST", "/ddns/a/b/c", hdrKV{"X-Connecting-IP", "6.6.6.6"}, hdrKV{"Connection", "X-Request-ID , X-Connecting-Ip"})
	add("DELETE", "/linkip/dev1234/0123456789/status")
	add("GET", "/linkip/dev1234/0123456789/status/more/stuff")

	return cs
}

// spCampaign: shouldProxy alone, real vs model vs oracle, many more paths.
func spCampaign(o *hlib.Opts, r *hlib.Result, m *hlib.Model, rng *rand.Rand) {
	type sp struct{ m, p string }
	var cases []sp
	n := 40000
	if o.Thorough() {
		n = 150000
	}
	for i := 0; i < n; i++ {
		method, target := genTarget(rng)
		// shouldProxy sees the decoded path.
		p := target
		if u, err := url.ParseRequestURI(target); err == nil {
			p = u.Path
		}
		cases = append(cases, sp{method, p})
	}
	// The edit neighbourhood of the documented requests (decoded like net/http
	// does), and the same edits applied to the decoded path directly.
	nEdit2 := 20000
	if o.Thorough() {
		nEdit2 = 400000
	}
	for _, d := range editTargets(rng, nEdit2) {
		if u, err := url.ParseRequestURI(d.path); err == nil {
			cases = append(cases, sp{d.method, u.Path})
		}
		cases = append(cases, sp{d.method, d.path})
	}
	r.Count("sp.edit-distance-1-exhaustive")
	// Exhaustive small scope: every path of up to k segments over a small
	// alphabet (keywords, near misses of the keywords, dot and empty segments),
	// every method of a small set.
	alpha := []string{"linkip", "ddns", "a", "status", ".", "..", "", "linkipx", "xddns", "statusx", "Status", "xlinkip"}
	k := 4
	if o.Thorough() {
		k = 5
	}
	var rec func(prefix []string, depth int)
	rec = func(prefix []string, depth int) {
		p := "/" + strings.Join(prefix, "/")
		for _, method := range []string{"GET", "POST", "PUT"} {
			cases = append(cases, sp{method, p})
		}
		if len(prefix) > 0 {
			cases = append(cases, sp{"GET", strings.Join(prefix, "/")}, sp{"POST", strings.Join(prefix, "/")})
		}
		if depth == k {
			return
		}
		for _, a := range alpha {
			rec(append(append([]string{}, prefix...), a), depth+1)
		}
	}
	rec(nil, 0)
	r.Count(fmt.Sprintf("sp.exhaustive-alphabet%d-depth%d", len(alpha), k))

	for start := 0; start < len(cases); start += 5000 {
		chunk := cases[start:min(start+5000, len(cases))]
		lines := make([]string, len(chunk))
		for i, c := range chunk {
			lines[i] = "sp " + hx(c.m) + " " + hx(c.p)
		}
		answers := m.Batch(lines)
		for i, c := range chunk {
			got := websvc.VerifC19ShouldProxy(c.m, c.p)
			if got {
				r.Count("sp.accepted")
				checkForwardedPath(r, c.m, c.p, "/"+strings.TrimPrefix(c.p, "/"), map[string]any{"shouldProxy": []string{c.m, c.p}})
			} else {
				r.Count("sp.refused")
				if pathClass(c.p) == "dot-segment" {
					r.Count("sp.refused.dot-segment")
				}
			}
			want := "0"
			if got {
				want = "1"
			}
			r.Traces++
			if answers[i] != want {
				r.Disagree("sp", fmt.Sprintf("shouldProxy(%q, %q): model %s, real %s", c.m, c.p, answers[i], want), lines[i])
			}
			r.Case("sp|"+c.m+"|"+c.p, got || strings.HasPrefix(strings.TrimPrefix(c.p, "/"), "linkip/") || strings.HasPrefix(strings.TrimPrefix(c.p, "/"), "ddns/"))
		}
	}
}

// normCampaign ties the Lean normaliser to RFC 3986 5.2.4 (literal
// transcription) and to net/url's ResolveReference.
func normCampaign(o *hlib.Opts, r *hlib.Result, m *hlib.Model, rng *rand.Rand) {
	n := 4000
	if o.Thorough() {
		n = 40000
	}
	alpha := []string{"a", "b", ".", "..", "", "...", "linkip", ".a", "a.", "status"}
	var paths []string
	for i := 0; i < n; i++ {
		var parts []string
		for k := rng.IntN(8); k > 0; k-- {
			parts = append(parts, pick(rng, alpha))
		}
		paths = append(paths, "/"+strings.Join(parts, "/"))
	}
	lines := make([]string, len(paths))
	for i, p := range paths {
		lines[i] = "norm " + hx(p)
	}
	answers := m.Batch(lines)
	base := &url.URL{Scheme: "http", Host: "h", Path: "/"}
	for i, p := range paths {
		want := rfcRemoveDots(p)
		r.Traces++
		if answers[i] != hx(want) {
			r.Disagree("norm", fmt.Sprintf("normalize(%q): model %s, RFC 3986 transcription %q", p, answers[i], want), lines[i])
		}
		if got := base.ResolveReference(&url.URL{Path: p}).Path; got == want {
			r.Count("norm.agrees-with-net/url")
		} else {
			r.Count("norm.net/url-differs(empty-segments)")
		}
		r.Case("norm|"+p, want != p)
	}
}

// hostCampaign: netutil.SplitHost model vs net.SplitHostPort.
func hostCampaign(r *hlib.Result, m *hlib.Model, rng *rand.Rand) {
	var addrs []string
	for _, rm := range remotes {
		addrs = append(addrs, rm.addr)
	}
	pieces := []string{"1.2.3.4", ":", "[", "]", "::1", "80", "%eth0", "x", ""}
	for i := 0; i < 1500; i++ {
		var b strings.Builder
		for k := 1 + rng.IntN(5); k > 0; k-- {
			b.WriteString(pick(rng, pieces))
		}
		addrs = append(addrs, b.String())
	}
	lines := make([]string, len(addrs))
	for i, a := range addrs {
		lines[i] = "host " + hx(a)
	}
	answers := m.Batch(lines)
	for i, a := range addrs {
		want := "err"
		host, _, err := net.SplitHostPort(a)
		if err == nil {
			want = "ok " + hx(host)
			r.Count("host.ok")
		} else if ae, ok := err.(*net.AddrError); ok && ae.Err == "missing port in address" {
			want = "ok " + hx(a)
			r.Count("host.missing-port")
		} else {
			r.Count("host.error")
		}
		r.Traces++
		if answers[i] != want {
			r.Disagree("host", fmt.Sprintf("SplitHost(%q): model %q, real %q", a, answers[i], want), lines[i])
		}
		r.Case("host|"+a, err != nil)
	}
}

func main() {
	o := hlib.ParseFlags()
	r := hlib.NewResult("C19", o)
	r.Rule = "raw HTTP/1.1 requests (method x request-target grammar with empty, dot, percent-encoded-dot, encoded-slash and " +
		"extra segments x forged client-IP/forwarding/Connection headers) are sent in-process (chosen peer address) and over " +
		"real TCP to the real linkedIPHandler mounted on a bare http.Server in front of a recording backend; the outcome " +
		"(404/robots/500/forwarded path + watched headers) is compared with the Lean model and checked by an independent oracle; " +
		"shouldProxy, the dot-segment normaliser and SplitHost are additionally compared on their own; a case is non-trivial when " +
		"it was forwarded, answered 500/robots, or refused under an API prefix; distinct = distinct canonical requests"
	m := hlib.StartModel(o.Model, "C19")
	defer m.Close()
	w := newWorld()
	defer w.backend.Close()
	w.startService()
	svcIdx := len(w.stands) - 1
	defer func() { _ = w.svc.Shutdown(context.Background()) }()

	fc := fixedCases()
	for _, c := range fixedCases() {
		if c.TCP {
			c.Stand = svcIdx
			fc = append(fc, c)
		}
	}
	w.reqCampaign(o, r, m, fc)
	rng := o.Rand("req")
	n := 30000
	if o.Thorough() {
		n = 400000
	}
	cases := make([]*reqCase, n)
	for i := range cases {
		cases[i] = genCase(rng, len(w.stands))
		if c := cases[i]; w.stands[c.Stand].svc {
			c.TCP, c.Remote, c.WantIP, c.BadRem = true, "", "", false
		}
	}
	w.reqCampaign(o, r, m, cases)
	nEdit2 := 3000
	if o.Thorough() {
		nEdit2 = 60000
	}
	ec := editCases(o.Rand("edit"), nEdit2)
	w.reqCampaign(o, r, m, ec)
	r.Count("req.edit-distance-1-exhaustive")
	w.concCampaign(o, r, o.Rand("conc"))
	if o.Thorough() {
		// Exhaustive small scope through the whole handler.
		var ex []*reqCase
		alpha := []string{"linkip", "ddns", "a", "status", ".", "..", "", "%2e%2e"}
		var rec func(prefix []string)
		rec = func(prefix []string) {
			for _, method := range []string{"GET", "POST", "PUT"} {
				ex = append(ex, &reqCase{Method: method, Target: "/" + strings.Join(prefix, "/"), Remote: "192.0.2.7:4711", WantIP: "192.0.2.7",
					Hdrs: []hdrKV{{"X-Connecting-IP", "6.6.6.6"}, {"Connection", "x-connecting-ip"}}})
			}
			if len(prefix) == 5 {
				return
			}
			for _, a := range alpha {
				rec(append(append([]string{}, prefix...), a))
			}
		}
		rec(nil)
		w.reqCampaign(o, r, m, ex)
		r.Count("req.exhaustive-alphabet8-depth5")
		r.Exhaustive = true
	}
	spCampaign(o, r, m, o.Rand("sp"))
	normCampaign(o, r, m, o.Rand("norm"))
	hostCampaign(r, m, o.Rand("host"))

	r.ModelOps = r.Traces
	r.Finish()
}
