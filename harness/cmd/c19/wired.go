package main

// Round 4: production wiring (the web service built by the real cmd builder
// from YAML and the environment), fault paths of the backend side, client
// connections that carry more than one request, and length boundaries.

import (
	"bufio"
	"bytes"
	"context"
	"crypto/ecdsa"
	"crypto/elliptic"
	crand "crypto/rand"
	"crypto/tls"
	"crypto/x509"
	"crypto/x509/pkix"
	"encoding/pem"
	"fmt"
	"io"
	"log/slog"
	"math/big"
	"math/rand/v2"
	"net"
	"net/http"
	"net/http/httptest"
	"net/url"
	"os"
	"path/filepath"
	"strings"
	"time"

	"github.com/AdguardTeam/AdGuardDNS/internal/cmd"
	"github.com/AdguardTeam/AdGuardDNS/internal/websvc"
	"github.com/AdguardTeam/AdGuardDNS/verifh/hlib"
)

// faultHdr asks the recording backend to misbehave (see backendFault).
const faultHdr = "X-Verif-Fault"

var faultModes = []string{"hangup", "partial", "101-unasked", "101-bare", "redirect", "early-hints", "slow"}

// backendFault makes the recording backend misbehave the way the request (already
// recorded) asks for; done reports that the answer has been dealt with.
func (w *world) backendFault(rw http.ResponseWriter, r *http.Request) (done bool) {
	mode := r.Header.Get(faultHdr)
	hijack := func(f func(conn net.Conn, brw *bufio.ReadWriter)) bool {
		hj, ok := rw.(http.Hijacker)
		if !ok {
			return false
		}
		conn, brw, err := hj.Hijack()
		if err != nil {
			return false
		}
		f(conn, brw)
		_ = conn.Close()

		return true
	}
	readTunnel := func(conn net.Conn, brw *bufio.ReadWriter) {
		_ = brw.Flush()
		_ = conn.SetReadDeadline(time.Now().Add(300 * time.Millisecond))
		if r2, rerr := http.ReadRequest(brw.Reader); rerr == nil {
			w.mu.Lock()
			w.recs = append(w.recs, seen{Method: r2.Method, URI: r2.RequestURI, Path: r2.URL.Path, Host: r2.Host,
				Hdr: r2.Header.Clone(), Tunnel: true})
			w.mu.Unlock()
		}
	}
	switch mode {
	case "hangup":
		// The connection breaks before any answer.
		return hijack(func(net.Conn, *bufio.ReadWriter) {})
	case "partial":
		return hijack(func(_ net.Conn, brw *bufio.ReadWriter) {
			_, _ = brw.WriteString("HTTP/1.1 200 OK\r\nContent-Length: 100\r\n\r\nshort")
			_ = brw.Flush()
		})
	case "101-unasked":
		// A protocol switch nobody asked for.
		return hijack(func(conn net.Conn, brw *bufio.ReadWriter) {
			_, _ = brw.WriteString("HTTP/1.1 101 Switching Protocols\r\nConnection: Upgrade\r\nUpgrade: websocket\r\n\r\n")
			readTunnel(conn, brw)
		})
	case "101-bare":
		return hijack(func(conn net.Conn, brw *bufio.ReadWriter) {
			_, _ = brw.WriteString("HTTP/1.1 101 Switching Protocols\r\n\r\n")
			readTunnel(conn, brw)
		})
	case "redirect":
		// The proxy must hand the redirect to the client, not follow it.
		rw.Header().Set("Location", w.decoy.URL+"/admin/link/victim-device")
		rw.WriteHeader(http.StatusTemporaryRedirect)

		return true
	case "early-hints":
		rw.Header().Set("Link", "</x>; rel=preload")
		rw.WriteHeader(http.StatusEarlyHints)
	case "slow":
		time.Sleep(120 * time.Millisecond)
	}

	return false
}

// startDecoy starts a server no request may ever reach: every URL of the
// environment except LINKED_IP_TARGET_URL points at it, and so do the redirects
// of the recording backend.
func (w *world) startDecoy() {
	w.decoy = httptest.NewServer(http.HandlerFunc(func(rw http.ResponseWriter, r *http.Request) {
		w.mu.Lock()
		w.decoyHits = append(w.decoyHits, seen{Method: r.Method, URI: r.RequestURI, Path: r.URL.Path, Host: r.Host, Hdr: r.Header.Clone()})
		w.mu.Unlock()
		_, _ = io.WriteString(rw, "decoy")
	}))
}

// checkDecoy reports requests that reached a server other than the configured
// target.
func (w *world) checkDecoy(r *hlib.Result, where string) {
	w.mu.Lock()
	hits := w.decoyHits
	w.decoyHits = nil
	w.mu.Unlock()
	for _, h := range hits {
		r.Violate("forwarded-to-other-than-target", fmt.Sprintf("%s: %s %q with X-Connecting-IP %q reached a server that is not LINKED_IP_TARGET_URL",
			where, h.Method, h.URI, h.Hdr["X-Connecting-Ip"]), map[string]any{"decoy_saw": h, "campaign": where})
	}
	r.Count("decoy.checked." + where)
}

// addBareStand mounts a linked-IP handler for target on a bare http.Server
// behind the recording wrapper.
func (w *world) addBareStand(target string, timeout time.Duration) (idx int) {
	u, err := url.Parse(target)
	hlib.Must(err)
	st := &stand{base: u.Path}
	inner := websvc.VerifC19LinkedIPHandler(u, errColl{}, "verif", timeout)
	st.h = http.HandlerFunc(func(rw http.ResponseWriter, r *http.Request) {
		st.mu.Lock()
		st.views = append(st.views, view{Method: r.Method, Path: r.URL.Path, Remote: r.RemoteAddr, Hdr: r.Header.Clone()})
		st.mu.Unlock()
		inner.ServeHTTP(rw, r)
	})
	l, err := net.Listen("tcp", "127.0.0.1:0")
	hlib.Must(err)
	st.tcpAddr = l.Addr().String()
	srv := &http.Server{Handler: st.h, ReadHeaderTimeout: 5 * time.Second}
	go func() { _ = srv.Serve(l) }()
	w.stands = append(w.stands, st)

	return len(w.stands) - 1
}

// writeCert writes a self-signed certificate and its key into dir.
func writeCert(dir string) (certPath, keyPath string) {
	key, err := ecdsa.GenerateKey(elliptic.P256(), crand.Reader)
	hlib.Must(err)
	tmpl := &x509.Certificate{
		SerialNumber: big.NewInt(19),
		Subject:      pkix.Name{CommonName: "link-ip.example"},
		DNSNames:     []string{"link-ip.example"},
		NotBefore:    time.Now().Add(-time.Hour),
		NotAfter:     time.Now().Add(24 * time.Hour),
		KeyUsage:     x509.KeyUsageDigitalSignature,
		ExtKeyUsage:  []x509.ExtKeyUsage{x509.ExtKeyUsageServerAuth},
	}
	der, err := x509.CreateCertificate(crand.Reader, tmpl, tmpl, &key.PublicKey, key)
	hlib.Must(err)
	kb, err := x509.MarshalECPrivateKey(key)
	hlib.Must(err)
	certPath, keyPath = filepath.Join(dir, "cert.pem"), filepath.Join(dir, "key.pem")
	hlib.Must(os.WriteFile(certPath, pem.EncodeToMemory(&pem.Block{Type: "CERTIFICATE", Bytes: der}), 0o600))
	hlib.Must(os.WriteFile(keyPath, pem.EncodeToMemory(&pem.Block{Type: "EC PRIVATE KEY", Bytes: kb}), 0o600))

	return certPath, keyPath
}

// urlEnvNames are the URL-valued variables of internal/cmd's environment
// other than LINKED_IP_TARGET_URL.
var urlEnvNames = []string{"ADULT_BLOCKING_URL", "BACKEND_RATELIMIT_URL", "BILLSTAT_URL", "BLOCKED_SERVICE_INDEX_URL",
	"CONSUL_ALLOWLIST_URL", "CONSUL_DNSCHECK_KV_URL", "CONSUL_DNSCHECK_SESSION_URL", "DNSCHECK_REMOTEKV_URL", "FILTER_INDEX_URL",
	"GENERAL_SAFE_SEARCH_URL", "NEW_REG_DOMAINS_URL", "PROFILES_URL", "RULESTAT_URL", "SAFE_BROWSING_URL", "YOUTUBE_SAFE_SEARCH_URL"}

// wiredBase is the path of LINKED_IP_TARGET_URL in the wired campaign.
const wiredBase = "/api/v2"

// startWired builds and starts the web service with the real cmd builder
// (parseEnvironment, webConfig.validate, initTLSManager, initWeb) from a YAML
// configuration with three linked-IP bind addresses (plain, TLS with a
// certificate file, plain) and one non-DoH bind address, and the environment
// LINKED_IP_TARGET_URL = recording backend + wiredBase, every other URL = decoy.
func (w *world) startWired() (cleanup func()) {
	dir, err := os.MkdirTemp("", "verif-c19-*")
	hlib.Must(err)
	certPath, keyPath := writeCert(dir)
	for _, n := range urlEnvNames {
		hlib.Must(os.Setenv(n, w.decoy.URL+"/"+strings.ToLower(n)))
	}
	hlib.Must(os.Setenv("LINKED_IP_TARGET_URL", w.backend.URL+wiredBase))
	aps := []string{freePort(300).String(), freePort(600).String(), freePort(900).String(), freePort(1300).String()}
	conf := fmt.Sprintf(`web:
    linked_ip:
        bind:
          - address: '%s'
          - address: '%s'
            certificates:
              - certificate: '%s'
                key: '%s'
          - address: '%s'
    non_doh_bind:
      - address: '%s'
    root_redirect_url: '%s/root'
    timeout: 10s
`, aps[0], aps[1], certPath, keyPath, aps[2], aps[3], w.decoy.URL)
	wired, err := cmd.VerifC19InitWeb(context.Background(), []byte(conf), slog.New(slog.NewTextHandler(io.Discard, nil)), errColl{})
	hlib.Must(err)
	w.wiredSvc = wired.Service
	for i, ap := range aps {
		for k := 0; ; k++ {
			conn, derr := net.Dial("tcp", ap)
			if derr == nil {
				_ = conn.Close()

				break
			}
			if k > 500 {
				panic("wired web service did not come up on " + ap + ": " + derr.Error())
			}
			time.Sleep(10 * time.Millisecond)
		}
		st := &stand{base: wiredBase, tcpAddr: ap, svc: true, shared: "wired", tls: i == 1}
		if i == 3 {
			w.nonLinked = st

			continue
		}
		w.wiredIdx = append(w.wiredIdx, len(w.stands))
		w.stands = append(w.stands, st)
	}

	return func() {
		_ = w.wiredSvc.Shutdown(context.Background())
		_ = os.RemoveAll(dir)
	}
}

// wiredCampaign drives the web service the cmd builder has built: the fixed
// cases, the header sweep on one documented request and random cases on every
// linked-IP bind address (model + oracle as everywhere), and API-shaped
// requests on the addresses that are not linked-IP binds (the non-DoH bind
// address and the handler the DNS-over-HTTPS servers get for non-DNS
// requests), which must never reach any backend.
func (w *world) wiredCampaign(o *hlib.Opts, r *hlib.Result, m *hlib.Model, rng *rand.Rand) {
	// The TLS bind address speaks HTTP/1.1 whatever the client offers.
	for _, i := range w.wiredIdx {
		st := w.stands[i]
		if !st.tls {
			continue
		}
		conn, err := st.dial()
		hlib.Must(err)
		proto := conn.(*tls.Conn).ConnectionState().NegotiatedProtocol
		_ = conn.Close()
		r.Count("wired.tls.alpn=" + proto)
		if proto == "h2" {
			r.Disagree("wired-tls-h2", "the TLS bind address of the linked-IP server negotiated HTTP/2, which this harness does not drive", nil)
		}
	}
	var cases []*reqCase
	for _, i := range w.wiredIdx {
		for _, c := range fixedCases() {
			if c.TCP {
				c.Stand = i
				cases = append(cases, c)
			}
		}
	}
	n := 1500
	if o.Thorough() {
		n = 30000
	}
	for k := 0; k < n; k++ {
		c := genCase(rng, 1)
		c.Stand = w.wiredIdx[rng.IntN(len(w.wiredIdx))]
		c.TCP, c.Remote, c.WantIP, c.BadRem = true, "", "", false
		w.wireVariation(rng, c)
		cases = append(cases, c)
	}
	for k, c := range hdrSweepCases() {
		if k%7 != 0 && !o.Thorough() {
			continue
		}
		c.Stand = w.wiredIdx[k%len(w.wiredIdx)]
		c.TCP, c.Remote, c.WantIP = true, "", ""
		cases = append(cases, c)
	}
	before := r.Distribution["req.forwarded"]
	w.reqCampaign(o, r, m, cases)
	r.Distribution["wired.linked-ip-bind.forwarded"] += r.Distribution["req.forwarded"] - before
	r.Count("wired.cmd-builder-initWeb")

	// Addresses that are not linked-IP binds.
	probe := fixedCases()
	for k := 0; k < 300; k++ {
		probe = append(probe, genCase(rng, 1))
	}
	for _, c := range probe {
		w.late = append(w.late, w.takeRecs()...)
		w.nextID++
		c.ID = w.nextID
		c.TCP, c.Remote, c.BadRem = true, "", false
		var o outcome
		parsedReq, perr := http.ReadRequest(bufio.NewReader(bytes.NewReader(c.raw())))
		where := "web.non_doh_bind"
		if c.ID%2 == 0 {
			d := &net.Dialer{LocalAddr: &net.TCPAddr{IP: net.IPv4(127, 0, 0, byte(2+c.ID%200))}}
			if noSourceAddr {
				d.LocalAddr = nil
			}
			conn, err := d.Dial("tcp", w.nonLinked.tcpAddr)
			hlib.Must(err)
			c.WantIP = conn.LocalAddr().(*net.TCPAddr).IP.String()
			_, _ = conn.Write(c.raw())
			_ = conn.SetReadDeadline(time.Now().Add(10 * time.Second))
			if resp, rerr := http.ReadResponse(bufio.NewReader(conn), &http.Request{Method: c.Method}); rerr == nil {
				b, _ := io.ReadAll(resp.Body)
				o.status, o.body = resp.StatusCode, string(b)
			}
			_ = conn.Close()
			r.Count("wired.non-doh-bind.request")
		} else {
			if perr != nil || parsedReq.URL.Path == "/dnscheck/test" {
				continue
			}
			where = "Service.ServeHTTP (the handler of non-DNS requests of the DNS-over-HTTPS servers)"
			req, _ := http.ReadRequest(bufio.NewReader(bytes.NewReader(c.raw())))
			req.RemoteAddr, c.WantIP = "192.0.2.7:4711", "192.0.2.7"
			rec := httptest.NewRecorder()
			w.wiredSvc.ServeHTTP(rec, req)
			o.status, o.body = rec.Code, rec.Body.String()
			r.Count("wired.doh-non-dns-handler.request")
		}
		for _, rec := range w.takeRecs() {
			if rec.Hdr.Get(caseHdr) != fmt.Sprint(c.ID) {
				w.late = append(w.late, rec)

				continue
			}
			o.recs = append(o.recs, rec)
		}
		if len(o.recs) > 0 || o.body == "backend-ok" {
			// The wiring is wrong (correspondence): only the linked_ip bind
			// addresses serve the API.  Whether the property is broken as well
			// is for the oracle to say, on what the backend received.
			r.Disagree("non-linked-ip-address-forwards", fmt.Sprintf("%s %q sent to %s, which is not a linked-IP bind address, was forwarded to the backend (answer %d %q)",
				c.Method, c.Target, where, o.status, o.body), map[string]any{"case": c, "raw_request": string(c.raw()), "backend_saw": o.recs,
				"how": "web service built by cmd (builder.initWeb) from YAML with web.linked_ip.bind and web.non_doh_bind; request sent to " + where})
			if perr == nil && len(o.recs) > 0 {
				c.Stand = w.wiredIdx[0]
				o.parsed, o.v = true, view{Method: parsedReq.Method, Path: parsedReq.URL.Path, Hdr: parsedReq.Header}
				w.oracle(r, c, o)
			}
		}
		r.Case("nonlinked|"+c.canon(), false)
	}
	w.settleLate(r)
	w.checkDecoy(r, "wired")
}

// faultCampaign: API-shaped and other requests, with forged identity headers,
// against a backend that breaks the connection, answers partially, switches
// protocols unasked, redirects to another server, sends interim answers or is
// slow while the client goes away - and against a target nobody listens on.
// The property demands the same in all of them: whatever reaches the backend
// (also when the transport sends a request again) is the client's own API
// request with the peer's address, nothing reaches any other server, no tunnel
// opens, and a request that is not API-shaped is still answered locally.
func (w *world) faultCampaign(o *hlib.Opts, r *hlib.Result, m *hlib.Model, rng *rand.Rand) {
	forged := []hdrKV{{"X-Connecting-IP", "6.6.6.6"}, {"X-Forwarded-For", "6.6.6.6"}, {"X-Real-IP", "6.6.6.6"},
		{"Forwarded", "for=6.6.6.6"}, {"Connection", "x-connecting-ip"}}
	docs := []docReq{{"GET", "/linkip/dev1234/0123456789"}, {"GET", "/linkip/dev1234/0123456789/status"},
		{"POST", "/ddns/dev1234/0123456789/example.com"}, {"POST", "/linkip/dev1234/0123456789"},
		{"GET", "/linkip/../admin/x"}, {"DELETE", "/linkip/dev1234/0123456789"}, {"POST", "/admin/link/victim-device"}, {"GET", "/robots.txt"}}
	targets := append([]int{0, 1}, w.wiredIdx...)
	targets = append(targets, w.svcIdx[0])
	reps := 2
	if o.Thorough() {
		reps = 12
	}
	var cases []*reqCase
	for rep := 0; rep < reps; rep++ {
		for _, mode := range faultModes {
			for di, d := range docs {
				st := targets[(rep+di)%len(targets)]
				c := &reqCase{Stand: st, TCP: true, Method: d.method, Target: d.path, Fault: mode}
				if !w.stands[st].svc && (rep+di)%3 == 0 && mode != "101-unasked" && mode != "101-bare" {
					c.TCP, c.Remote, c.WantIP = false, "192.0.2.7:4711", "192.0.2.7"
				}
				c.Hdrs = append(c.Hdrs, hdrKV{faultHdr, mode})
				if rng.IntN(2) == 0 {
					c.Hdrs = append(c.Hdrs, forged[rng.IntN(len(forged))])
				}
				if rng.IntN(4) == 0 {
					// Makes the transport treat a POST as idempotent, hence
					// repeat it after a connection error.
					c.Hdrs = append(c.Hdrs, hdrKV{"X-Idempotency-Key", "k1"})
				}
				if mode == "slow" && c.TCP && rng.IntN(2) == 0 {
					c.Abort = true
				}
				cases = append(cases, c)
			}
		}
	}
	before := r.Distribution["req.forwarded"]
	w.reqCampaign(o, r, m, cases)
	r.Distribution["fault.backend-misbehaves.forwarded"] += r.Distribution["req.forwarded"] - before

	// Nobody listens on the target.
	cases = cases[:0]
	nDead := 300
	if o.Thorough() {
		nDead = 5000
	}
	for _, c := range fixedCases() {
		c.Stand = w.deadIdx
		cases = append(cases, c)
	}
	for k := 0; k < nDead; k++ {
		c := genCase(rng, 1)
		c.Stand = w.deadIdx
		cases = append(cases, c)
	}
	w.reqCampaign(o, r, m, cases)
	r.Count("fault.target-down.campaign")
	w.checkDecoy(r, "fault")

	// Shutdown racing with requests: a service of its own is shut down while
	// clients keep sending; whatever it still forwards must be right.
	w.shutdownRace(r, rng)
}

func (w *world) shutdownRace(r *hlib.Result, rng *rand.Rand) {
	u, err := url.Parse(w.backend.URL)
	hlib.Must(err)
	ap := freePort(1600)
	svc := websvc.New(&websvc.Config{
		LinkedIP:      &websvc.LinkedIPServer{TargetURL: u, Bind: []*websvc.BindData{{Address: ap}}},
		StaticContent: http.NotFoundHandler(),
		DNSCheck:      http.NotFoundHandler(),
		ErrColl:       errColl{},
		Timeout:       5 * time.Second,
	})
	hlib.Must(svc.Start(context.Background()))
	st := &stand{base: "", tcpAddr: ap.String(), svc: true, shared: "race"}
	for k := 0; ; k++ {
		conn, derr := net.Dial("tcp", st.tcpAddr)
		if derr == nil {
			_ = conn.Close()

			break
		}
		if k > 500 {
			panic("race service did not come up: " + derr.Error())
		}
		time.Sleep(10 * time.Millisecond)
	}
	w.stands = append(w.stands, st)
	idx := len(w.stands) - 1
	type res struct {
		c *reqCase
		o outcome
	}
	const workers, per = 4, 40
	out := make(chan res, workers*per)
	w.late = append(w.late, w.takeRecs()...)
	baseID := w.nextID
	w.nextID += workers * per
	for g := 0; g < workers; g++ {
		go func(g int) {
			for k := 0; k < per; k++ {
				c := &reqCase{Stand: idx, TCP: true, Method: "GET", Target: fmt.Sprintf("/linkip/race%d/%d", g, k), ID: baseID + 1 + g*per + k,
					Hdrs: []hdrKV{{"X-Connecting-IP", "6.6.6.6"}, {"X-Forwarded-For", "6.6.6.6"}}}
				if k%3 == 0 {
					c.Method, c.Target = "POST", fmt.Sprintf("/admin/race%d/%d", g, k)
				}
				var o outcome
				conn, derr := net.Dial("tcp", st.tcpAddr)
				if derr != nil {
					o.ioErr = derr
					out <- res{c, o}

					continue
				}
				c.WantIP = conn.LocalAddr().(*net.TCPAddr).IP.String()
				_, _ = conn.Write(c.raw())
				_ = conn.SetReadDeadline(time.Now().Add(5 * time.Second))
				resp, rerr := http.ReadResponse(bufio.NewReader(conn), &http.Request{Method: c.Method})
				if rerr != nil {
					o.ioErr = rerr
				} else {
					b, _ := io.ReadAll(resp.Body)
					o.status, o.body = resp.StatusCode, string(b)
					o.parsed, o.v = true, view{Method: c.Method, Path: c.Target, Remote: conn.LocalAddr().String(), Hdr: http.Header{}}
				}
				_ = conn.Close()
				out <- res{c, o}
			}
		}(g)
	}
	time.Sleep(time.Duration(2+rng.IntN(6)) * time.Millisecond)
	ctx, cancel := context.WithTimeout(context.Background(), 5*time.Second)
	_ = svc.Shutdown(ctx)
	cancel()
	byID := map[int]*res{}
	for k := 0; k < workers*per; k++ {
		x := <-out
		byID[x.c.ID] = &x
	}
	time.Sleep(20 * time.Millisecond)
	served, refused := 0, 0
	for _, rec := range w.takeRecs() {
		var id int
		_, _ = fmt.Sscan(rec.Hdr.Get(caseHdr), &id)
		x := byID[id]
		if x == nil {
			w.late = append(w.late, rec)

			continue
		}
		x.o.recs = append(x.o.recs, rec)
	}
	for _, x := range byID {
		if x.o.ioErr != nil && len(x.o.recs) == 0 {
			refused++

			continue
		}
		if !x.o.parsed {
			x.o.parsed, x.o.v = true, view{Method: x.c.Method, Path: x.c.Target, Hdr: http.Header{}}
		}
		served++
		w.oracle(r, x.c, x.o)
	}
	r.Distribution["fault.shutdown-race.served"] += served
	r.Distribution["fault.shutdown-race.refused-after-shutdown"] += refused
	w.settleLate(r)
}

// ----- more than one request on a client connection -----

// connSeq is a sequence of requests written to one client connection.
type connSeq struct {
	name      string
	cases     []*reqCase
	pipelined bool
}

func smuggled(method, target string) string {
	return fmt.Sprintf("%s %s HTTP/1.1\r\nHost: backend\r\nX-Connecting-Ip: 6.6.6.6\r\n%s: smuggled\r\nContent-Length: 0\r\n\r\n", method, target, caseHdr)
}

// connSeqs builds the sequences: keep-alive and pipelined mixes of API and other
// requests from the pools, bodies the handler never reads, and requests whose
// body framing is ambiguous or hides a complete request (with the marker
// "smuggled", which no backend record may ever carry).
func connSeqs(rng *rand.Rand, n int) (seqs []*connSeq) {
	api := func(id string) *reqCase {
		return &reqCase{Method: "GET", Target: "/linkip/" + id + "/0123456789", Hdrs: []hdrKV{{"X-Connecting-IP", "6.6.6.6"}}}
	}
	rawCase := func(method, target, raw string, odd bool) *reqCase {
		return &reqCase{Method: method, Target: target, RawOverride: raw, OddWire: odd}
	}
	hidden := smuggled("POST", "/admin/link/victim-device")
	add := func(name string, pipelined bool, cs ...*reqCase) {
		seqs = append(seqs, &connSeq{name: name, cases: cs, pipelined: pipelined})
	}
	for _, pl := range []bool{false, true} {
		add("api,other,api", pl, api("k1"), &reqCase{Method: "GET", Target: "/admin/x"}, api("k2"))
		add("unread-small-body,api", pl, &reqCase{Method: "POST", Target: "/admin/upload", Body: strings.Repeat("u", 2000)}, api("k3"))
		add("unread-large-body,api", pl, &reqCase{Method: "POST", Target: "/admin/upload", Body: strings.Repeat("u", 300<<10)}, api("k4"))
		add("api-post-body-hides-request,api", pl,
			&reqCase{Method: "POST", Target: "/linkip/k5/0123456789", Body: hidden}, api("k6"))
		add("get-with-body-hiding-request,api", pl, rawCase("GET", "/linkip/k7/0123456789",
			fmt.Sprintf("GET /linkip/k7/0123456789 HTTP/1.1\r\nHost: link-ip.example\r\n%s: <ID>\r\nContent-Length: %d\r\n\r\n%s", caseHdr, len(hidden), hidden), false),
			api("k8"))
		add("content-length+chunked", pl, rawCase("POST", "/linkip/k9/0123456789",
			fmt.Sprintf("POST /linkip/k9/0123456789 HTTP/1.1\r\nHost: link-ip.example\r\n%s: <ID>\r\nContent-Length: 4\r\nTransfer-Encoding: chunked\r\n\r\n0\r\n\r\n", caseHdr), true),
			rawCase("POST", "/admin/link/victim-device", hidden, true), api("k10"))
		add("chunked+content-length-short", pl, rawCase("POST", "/ddns/k11/0123456789/example.com",
			fmt.Sprintf("POST /ddns/k11/0123456789/example.com HTTP/1.1\r\nHost: link-ip.example\r\n%s: <ID>\r\nTransfer-Encoding: chunked\r\nContent-Length: 3\r\n\r\n%x\r\n%s\r\n0\r\n\r\n",
				caseHdr, len(hidden), hidden), true), api("k12"))
		for _, te := range []string{"xchunked", "chunked, identity", "identity", "chunked, chunked", " chunked", "Chunked"} {
			add("transfer-encoding="+te, pl, rawCase("POST", "/linkip/k13/0123456789",
				fmt.Sprintf("POST /linkip/k13/0123456789 HTTP/1.1\r\nHost: link-ip.example\r\n%s: <ID>\r\nTransfer-Encoding: %s\r\n\r\n0\r\n\r\n", caseHdr, te), true),
				rawCase("POST", "/admin/link/victim-device", hidden, true))
		}
		for _, cl := range []string{"Content-Length: 0\r\nContent-Length: " + fmt.Sprint(len(hidden)), "Content-Length: +0", "Content-Length: 0, 0",
			"Content-Length: 0x0", "Content-Length : 0", "Content-Length: -1"} {
			add("content-length-variant", pl, rawCase("POST", "/linkip/k14/0123456789",
				fmt.Sprintf("POST /linkip/k14/0123456789 HTTP/1.1\r\nHost: link-ip.example\r\n%s: <ID>\r\n%s\r\n\r\n", caseHdr, cl), true),
				rawCase("POST", "/admin/link/victim-device", hidden, true))
		}
		add("bare-lf-line-ends,api", pl, rawCase("GET", "/linkip/k15/0123456789",
			fmt.Sprintf("GET /linkip/k15/0123456789 HTTP/1.1\nHost: link-ip.example\n%s: <ID>\nX-Connecting-IP: 6.6.6.6\n\n", caseHdr), true), api("k16"))
		add("http/1.0-keep-alive,api", pl, &reqCase{Method: "GET", Target: "/linkip/k17/0123456789", Proto: "HTTP/1.0",
			Hdrs: []hdrKV{{"Connection", "keep-alive"}}}, api("k18"))
		add("connection-close,api", pl, &reqCase{Method: "GET", Target: "/linkip/k19/0123456789", Hdrs: []hdrKV{{"Connection", "close"}}}, api("k20"))
	}
	for k := 0; k < n; k++ {
		s := &connSeq{name: "random", pipelined: rng.IntN(2) == 0}
		for j := 2 + rng.IntN(3); j > 0; j-- {
			c := genCase(rng, 1)
			if c.Method == "OPTIONS" || c.Method == "CONNECT" {
				c.Method = "GET"
			}
			if rng.IntN(3) == 0 && (c.Method == "POST" || c.Method == "PUT") {
				c.Body = pick(rng, []string{"abc", hidden, strings.Repeat("z", 5000)})
			}
			s.cases = append(s.cases, c)
		}
		seqs = append(seqs, s)
	}

	return seqs
}

// runConn sends the requests of one sequence over a single client connection.
func (w *world) runConn(st *stand, s *connSeq) (outs []outcome) {
	w.late = append(w.late, w.takeRecs()...)
	st.takeViews()
	outs = make([]outcome, len(s.cases))
	conn, err := st.dial()
	hlib.Must(err)
	defer conn.Close()
	local := conn.LocalAddr().(*net.TCPAddr)
	var all []byte
	for _, c := range s.cases {
		w.nextID++
		c.ID = w.nextID
		c.TCP, c.Remote, c.BadRem = true, "", false
		c.WantIP = local.IP.String()
		c.InFlightWith = ""
		all = append(all, c.raw()...)
	}
	br := bufio.NewReader(conn)
	_ = conn.SetDeadline(time.Now().Add(10 * time.Second))
	if s.pipelined {
		_, _ = conn.Write(all)
	}
	dead := false
	for i, c := range s.cases {
		if dead {
			outs[i].ioErr = io.ErrUnexpectedEOF

			continue
		}
		if !s.pipelined {
			if _, werr := conn.Write(c.raw()); werr != nil {
				outs[i].ioErr, dead = werr, true

				continue
			}
		}
		resp, rerr := http.ReadResponse(br, &http.Request{Method: c.Method})
		for rerr == nil && resp.StatusCode >= 100 && resp.StatusCode < 200 && resp.StatusCode != http.StatusSwitchingProtocols {
			resp, rerr = http.ReadResponse(br, &http.Request{Method: c.Method})
		}
		if rerr != nil {
			outs[i].ioErr, dead = rerr, true

			continue
		}
		b, berr := io.ReadAll(resp.Body)
		_ = resp.Body.Close()
		outs[i].status, outs[i].body = resp.StatusCode, string(b)
		if berr != nil || resp.Close {
			dead = true
		}
	}
	// The handler saw the requests in the order of the connection; a request
	// net/http refuses ends the connection, so the views are those of a prefix
	// of the answered requests.
	vs := st.takeViews()
	k := 0
	for i := range s.cases {
		if outs[i].ioErr != nil || k >= len(vs) {
			break
		}
		if outs[i].status == 400 || outs[i].status == 501 || outs[i].status == 505 || outs[i].status == 431 {
			// net/http's own answer; the connection ends here.
			break
		}
		outs[i].parsed, outs[i].v = true, vs[k]
		k++
	}
	time.Sleep(2 * time.Millisecond)
	for _, rec := range w.takeRecs() {
		found := false
		for i, c := range s.cases {
			if rec.Hdr.Get(caseHdr) == fmt.Sprint(c.ID) {
				outs[i].recs = append(outs[i].recs, rec)
				found = true
			}
		}
		if !found {
			w.late = append(w.late, rec)
		}
	}

	return outs
}

// connCampaign: state that outlives a request on the client side (one
// connection, several requests, unread and ambiguous bodies) and on the backend
// side (the transport's idle connections are reused across clients).
func (w *world) connCampaign(o *hlib.Opts, r *hlib.Result, m *hlib.Model, rng *rand.Rand) {
	n := 150
	if o.Thorough() {
		n = 4000
	}
	var batch []pending
	for k, s := range connSeqs(rng, n) {
		st := w.stands[[]int{0, 1, 2}[k%3]]
		for _, c := range s.cases {
			c.Stand = []int{0, 1, 2}[k%3]
		}
		outs := w.runConn(st, s)
		desc := fmt.Sprintf("sequence %q on one client connection (pipelined: %v): ", s.name, s.pipelined)
		for _, c := range s.cases {
			desc += fmt.Sprintf("#%d %s %s; ", c.ID, c.Method, c.Target)
		}
		for i, c := range s.cases {
			if w.recent == nil {
				w.recent = map[int]*pending{}
			}
			c.OnConn = desc
			w.recent[c.ID] = &pending{c, outs[i]}
			delete(w.recent, c.ID-5000)
			if outs[i].ioErr != nil && len(outs[i].recs) == 0 {
				r.Count("conn.no-answer-after-connection-end")

				continue
			}
			w.oracle(r, c, outs[i])
			r.Case("conn|"+s.name+"|"+c.canon(), w.classify(r, c, outs[i]))
			if outs[i].parsed {
				batch = append(batch, pending{c, outs[i]})
				if i > 0 {
					r.Count("conn.request-after-first.reached-handler")
					if len(outs[i].recs) > 0 {
						r.Count("conn.request-after-first.forwarded")
					}
				}
			} else if outs[i].ioErr == nil {
				r.Count(fmt.Sprintf("conn.refused-by-net/http.status-%d", outs[i].status))
			}
		}
		if len(w.late) > 0 {
			w.settleLate(r)
		}
		r.Count("conn.sequence." + strings.SplitN(s.name, "=", 2)[0])
	}
	w.flush(r, m, batch)
	w.late = append(w.late, w.takeRecs()...)
	w.settleLate(r)
	w.checkDecoy(r, "conn")
}

// ----- length boundaries -----

// boundaryCases are request targets whose length sits on and around the usual
// buffer and limit sizes, with the part that matters (an extra segment, a dot
// segment, the status keyword) beyond the boundary.
func boundaryCases() (cs []*reqCase) {
	lens := []int{254, 255, 256, 257, 1023, 1024, 1025, 2047, 2048, 2049, 4095, 4096, 4097, 8191, 8192, 8193, 16384, 32768, 65535, 65536, 65537}
	tails := []struct{ method, head, tail string }{
		{"GET", "/linkip/dev1234/", ""},
		{"GET", "/linkip/dev1234/", "/status"},
		{"GET", "/linkip/dev1234/", "/status/extra"},
		{"GET", "/linkip/dev1234/", "/../../../admin"},
		{"POST", "/ddns/dev1234/0123456789/", ""},
		{"POST", "/ddns/dev1234/0123456789/", "/extra"},
		{"POST", "/ddns/dev1234/0123456789/", "/../../../../admin/link"},
		{"POST", "/ddns/dev1234/0123456789/", "/%2e%2e/x"},
		{"POST", "/linkip/dev1234/", "/.."},
		{"DELETE", "/linkip/dev1234/", ""},
	}
	for _, l := range lens {
		for _, t := range tails {
			for _, at := range []int{0, 1} {
				// at 0: the padded segment ends exactly at length l; at 1: the
				// whole target has length l.
				pad := l - len(t.head)
				if at == 1 {
					pad -= len(t.tail)
				}
				if pad < 1 {
					continue
				}
				c := &reqCase{Method: t.method, Target: t.head + strings.Repeat("p", pad) + t.tail, Remote: "192.0.2.7:4711", WantIP: "192.0.2.7",
					Hdrs: []hdrKV{{"X-Connecting-IP", "6.6.6.6"}}}
				if (l+at)%2 == 0 {
					c.TCP, c.Remote, c.WantIP = true, "", ""
				}
				cs = append(cs, c)
			}
		}
	}
	// Many segments, many headers, long header values.
	cs = append(cs, &reqCase{Method: "GET", Target: "/linkip" + strings.Repeat("/a", 3000), Remote: "192.0.2.7:4711", WantIP: "192.0.2.7"})
	cs = append(cs, &reqCase{Method: "GET", Target: "/linkip/a/b" + strings.Repeat("/", 3000), Remote: "192.0.2.7:4711", WantIP: "192.0.2.7"})
	cs = append(cs, &reqCase{Method: "GET", Target: "/linkip/a/b?" + strings.Repeat("q=/../&", 2000), Remote: "192.0.2.7:4711", WantIP: "192.0.2.7"})
	var many []hdrKV
	for k := 0; k < 400; k++ {
		many = append(many, hdrKV{"X-Forwarded-For", fmt.Sprintf("6.6.%d.%d", k/250, k%250)})
	}
	many = append(many, hdrKV{"X-Connecting-IP", strings.Repeat("6", 9000)})
	cs = append(cs, &reqCase{Method: "POST", Target: "/ddns/a/b/c", Hdrs: many, Remote: "[2001:db8::1]:65535", WantIP: "2001:db8::1"})
	cs = append(cs, &reqCase{Method: "POST", Target: "/ddns/a/b/c", Hdrs: many, TCP: true})

	return cs
}

// overrideSweepCases: every override header name x every value x six requests
// (the four documented ones and two that must be answered locally).
func overrideSweepCases() (cs []*reqCase) {
	reqs := []docReq{{"GET", "/linkip/dev1234/0123456789"}, {"GET", "/linkip/dev1234/0123456789/status"},
		{"POST", "/ddns/dev1234/0123456789/example.com"}, {"POST", "/linkip/dev1234/0123456789"},
		{"DELETE", "/linkip/dev1234/0123456789"}, {"GET", "/admin/link/victim-device"}}
	k := 0
	for _, n := range overrideNames {
		for _, v := range overrideVals {
			for _, d := range reqs {
				c := &reqCase{Method: d.method, Target: d.path, Hdrs: []hdrKV{{n, v}}, Remote: "192.0.2.7:4711", WantIP: "192.0.2.7"}
				if k%9 == 0 {
					c.TCP, c.Remote, c.WantIP = true, "", ""
				}
				k++
				cs = append(cs, c)
			}
		}
	}

	return cs
}
