// Command c10 is the correspondence harness and property oracle for C10
// (access-blocked clients and names are dropped silently and leave no trace).
//
// Three campaigns:
//
//   - mw: the real ratelimitmw.Middleware (built through the hook
//     dnssvc.VerifC10NewMw) with the real access.Global / access.DefaultProfile
//     and fakes at every other edge; compared with the model's `wrap`.
//   - api: Global.IsBlockedIP / IsBlockedHost and DefaultProfile.IsBlocked
//     called directly; thorough tier: exhaustive small scope of overlapping
//     allowed/blocked subnet and ASN sets.
//   - stack: the production handler stack (dnssvc.NewHandlers) with counting
//     fakes behind it: a blocked request must change none of the downstream
//     counters and must not populate the cache.
//
// The property oracle (ref*) is written from the property statement and
// consults neither the model nor netip.Prefix.Contains / urlfilter.
package main

import (
	"bytes"
	"context"
	"fmt"
	"math/big"
	"math/rand/v2"
	"net"
	"net/netip"
	"os"
	"slices"
	"strings"
	"time"

	"github.com/AdguardTeam/AdGuardDNS/internal/access"
	"github.com/AdguardTeam/AdGuardDNS/internal/agd"
	"github.com/AdguardTeam/AdGuardDNS/internal/agdpasswd"
	"github.com/AdguardTeam/AdGuardDNS/internal/agdtest"
	"github.com/AdguardTeam/AdGuardDNS/internal/dnsmsg"
	"github.com/AdguardTeam/AdGuardDNS/internal/dnsserver"
	"github.com/AdguardTeam/AdGuardDNS/internal/dnssvc"
	"github.com/AdguardTeam/AdGuardDNS/internal/filter"
	"github.com/AdguardTeam/AdGuardDNS/internal/geoip"
	"github.com/AdguardTeam/AdGuardDNS/internal/profiledb"
	"github.com/AdguardTeam/AdGuardDNS/verifh/hlib"
	"github.com/AdguardTeam/AdGuardDNS/verifh/hlib/stack"
	"github.com/AdguardTeam/golibs/logutil/slogutil"
	"github.com/miekg/dns"
	"github.com/prometheus/client_golang/prometheus"
)

func main() {
	o := hlib.ParseFlags()
	r := hlib.NewResult("C10", o)
	r.Rule = "mw: random global/profile access configurations (overlapping allowed/blocked subnets and ASNs, " +
		"name rules from the grammar dom | ||dom^ | * with @@, $important, $dnstype) and requests (addresses at " +
		"prefix boundaries, v4/v6/4in6, names equal to / below / above / beside rule domains, root, bad ECS, every " +
		"device-finder result; profiles and devices with filtering, query log and IP log switched off, deleted, other blocking modes, " +
		"linked/dedicated addresses, authentication; every protocol) through the real middleware, the Lean model and an oracle written from the property " +
		"statement; api: the access package called directly (thorough: exhaustive overlap scope); stack: the " +
		"production handler stack with counting fakes. A case is non-trivial when it contains a blocked and a " +
		"served request; distinct = distinct canonical op logs"
	m := hlib.StartModel(o.Model, "C10")
	defer m.Close()

	// VERIF_C10_CAMPAIGNS=mw,stack,… restricts a run to some campaigns (debugging aid; the check runs all).
	only := os.Getenv("VERIF_C10_CAMPAIGNS")
	on := func(name string) bool { return only == "" || slices.Contains(strings.Split(only, ","), name) }
	for _, cp := range []struct {
		name string
		run  func()
	}{
		{"mw", func() { mwCampaign(o, r, m) }},
		{"table", func() { tableCampaign(r, m) }},
		{"api", func() { apiCampaign(o, r, m) }},
		{"conv", func() { convCampaign(o, r, m) }},
		{"stack", func() { stackCampaign(o, r, m) }},
		{"autodev", func() { autodevCampaign(o, r, m) }},
		{"seeded", func() { seededCases(r, m) }},
		{"onechar", func() { oneCharPatternCase(r) }},
		{"geo", func() { geoCampaign(o, r, m) }},
		{"rx", func() { rxCampaign(o, r, m) }},
		{"yaml", func() { yamlCampaign(o, r, m) }},
		{"wire", func() { wireCampaign(o, r, m) }},
	} {
		if on(cp.name) {
			cp.run()
		}
	}

	r.ModelOps = len(m.Log)
	r.Finish()
}

// ---------------------------------------------------------------------------
// Configuration, rules, requests
// ---------------------------------------------------------------------------

type rule struct {
	kind byte // 'h' hosts-style, 'n' network-style, 'j' a list entry that is no rule (junk holds its text)
	// junk: an empty or blank entry, a comment.  It is part of the configuration, never of the
	// rules: the model does not get it and the oracle ignores it.
	junk string
	// pad: the rule text is surrounded by blanks in the configuration.
	pad bool
	// hosts-style: the names; ipStyle writes "0.0.0.0 name1 name2" instead of a bare name.
	hosts   []string
	ipStyle bool
	// network-style: anchor 'd' (||), 's' (|), 'n' (none); body of literals, '*' and '^'; a final '|'.
	anchor      byte
	body        string
	end         bool
	allow       bool
	imp         bool
	perm, restr []uint16
}

var typeNames = map[uint16]string{dns.TypeA: "A", dns.TypeNS: "NS", dns.TypeTXT: "TXT", dns.TypeAAAA: "AAAA", dns.TypeHTTPS: "HTTPS",
	dns.TypeMX: "MX", dns.TypeCAA: "CAA"}

// domRule is ||dom^ ; anyRule is *$dnstype=T.
func domRule(dom string) rule { return rule{kind: 'n', anchor: 'd', body: dom + "^"} }
func anyRule(t uint16) rule   { return rule{kind: 'n', anchor: 'n', body: "*", perm: []uint16{t}} }

// text is the rule as it appears in the configuration.
func (ru rule) text() string {
	if ru.kind == 'j' {
		return ru.junk
	}
	if ru.pad {
		ru.pad = false

		return "  " + ru.text() + " \t"
	}
	if ru.kind == 'h' {
		if ru.ipStyle {
			return "0.0.0.0 " + strings.Join(ru.hosts, " ")
		}

		return ru.hosts[0]
	}
	var mods []string
	if ru.imp {
		mods = append(mods, "important")
	}
	if len(ru.perm)+len(ru.restr) > 0 {
		var ts []string
		for _, t := range ru.perm {
			ts = append(ts, typeNames[t])
		}
		for _, t := range ru.restr {
			ts = append(ts, "~"+typeNames[t])
		}
		mods = append(mods, "dnstype="+strings.Join(ts, "|"))
	}
	t := ""
	if ru.allow {
		t = "@@"
	}
	switch ru.anchor {
	case 'd':
		t += "||"
	case 's':
		t += "|"
	}
	t += ru.body
	if ru.end {
		t += "|"
	}
	if len(mods) > 0 {
		t += "$" + strings.Join(mods, ",")
	}

	return t
}

func u16s(ts []uint16) string {
	if len(ts) == 0 {
		return "-"
	}
	var ss []string
	for _, t := range ts {
		ss = append(ss, fmt.Sprint(t))
	}

	return strings.Join(ss, ",")
}

func dash(s string) string {
	if s == "" {
		return "-"
	}

	return s
}

func (ru rule) args() string {
	if ru.kind == 'h' {
		return "h 0 0 - - n 0 " + strings.Join(ru.hosts, ",")
	}

	return fmt.Sprintf("n %s %s %s %s %c %s %s", b2s(ru.allow), b2s(ru.imp), u16s(ru.perm), u16s(ru.restr), ru.anchor, b2s(ru.end), dash(ru.body))
}

type pcfg struct {
	an, bn []netip.Prefix
	aa, ba []geoip.ASN
	rules  []rule
}

func (p *pcfg) conf() *access.ProfileConfig {
	c := &access.ProfileConfig{AllowedNets: p.an, BlockedNets: p.bn, AllowedASN: p.aa, BlockedASN: p.ba}
	for _, ru := range p.rules {
		c.BlocklistDomainRules = append(c.BlocklistDomainRules, ru.text())
	}

	return c
}

type cfg struct {
	gnets  []netip.Prefix
	grules []rule
	profs  []*pcfg
}

func (c *cfg) global() *access.Global {
	var texts []string
	for _, ru := range c.grules {
		texts = append(texts, ru.text())
	}
	g, err := access.NewGlobal(texts, c.gnets)
	hlib.Must(err)

	return g
}

func (c *cfg) lines() (lines []string) {
	lines = append(lines, "reset")
	for _, p := range c.gnets {
		lines = append(lines, "gnet "+prefArgs(p))
	}
	for _, ru := range c.grules {
		if ru.kind != 'j' {
			lines = append(lines, "grule "+ru.args())
		}
	}
	for k, p := range c.profs {
		lines = append(lines, fmt.Sprintf("pnew %d", k))
		for _, n := range p.an {
			lines = append(lines, fmt.Sprintf("pan %d %s", k, prefArgs(n)))
		}
		for _, n := range p.bn {
			lines = append(lines, fmt.Sprintf("pbn %d %s", k, prefArgs(n)))
		}
		for _, a := range p.aa {
			lines = append(lines, fmt.Sprintf("paa %d %d", k, a))
		}
		for _, a := range p.ba {
			lines = append(lines, fmt.Sprintf("pba %d %d", k, a))
		}
		for _, ru := range p.rules {
			if ru.kind != 'j' {
				lines = append(lines, fmt.Sprintf("prule %d %s", k, ru.args()))
			}
		}
	}

	return lines
}

// describe renders the configuration for replays.
func (c *cfg) describe() map[string]any {
	rt := func(rs []rule) (out []string) {
		for _, ru := range rs {
			out = append(out, ru.text())
		}

		return out
	}
	d := map[string]any{"global_blocked_subnets": fmt.Sprint(c.gnets), "global_blocked_rules": rt(c.grules)}
	for k, p := range c.profs {
		d[fmt.Sprintf("profile_%d", k)] = map[string]any{"allowed_nets": fmt.Sprint(p.an), "blocked_nets": fmt.Sprint(p.bn),
			"allowed_asn": fmt.Sprint(p.aa), "blocked_asn": fmt.Sprint(p.ba), "rules": rt(p.rules)}
	}

	return d
}

type request struct {
	remote netip.AddrPort
	qname  string
	qtype  uint16
	qclass uint16
	loc    *geoip.Location
	// ecsLoc is the location of the ECS subnet address: GeoIP answers per
	// address, and the access decision must use the client's location only.
	ecsLoc *geoip.Location
	ecs    int // 0 none, 1 well-formed, 2 malformed
	// dev is the device finder's result: nil | empty[:<flags>] | auth | unk | err | ok:<k>[:<flags>].
	// The flags name the switches of the profile and device records that differ
	// from the usual (see attrFlags): the access decision must not depend on any.
	dev string
	// badDevID adds a dnsmasq CPE-ID option that is not a valid device ID: the
	// real device finder of a plain-DNS server fails on it.
	badDevID bool
	// packable: see malform.
	packable bool
}

// ecsAddr is the address inside the ECS option of generated requests.
var ecsAddr = netip.MustParseAddr("198.51.100.0")

// geoFor is the fake GeoIP database for one request.
func (q *request) geoFor(ip netip.Addr) *geoip.Location {
	if ip == ecsAddr {
		return q.ecsLoc
	}

	return q.loc
}

// malform makes the ECS option e one that dnsmsg.ECSFromMsg rejects: a source
// prefix length beyond the family's, or — when the message has to survive
// packing for a real socket — address bits set beyond the prefix.
func (q *request) malform(e *dns.EDNS0_SUBNET) {
	if q.packable {
		// (miekg/dns masks the address while packing: wireCampaign sets the stray bit in
		// the packed bytes.)
		e.SourceNetmask, e.Address = 23, net.IP{198, 51, 101, 0}

		return
	}
	e.SourceNetmask = 33
}

func (q *request) class() uint16 {
	if q.qclass == 0 {
		return dns.ClassINET
	}

	return q.qclass
}

// eff is the address the middleware sees: the transport layer unmaps 4in6
// (netutil.NetAddrToAddrPort).
func (q *request) eff() netip.Addr { return q.remote.Addr().Unmap() }

func (q *request) line() string {
	asn := "-"
	if q.loc != nil {
		asn = fmt.Sprint(q.loc.ASN)
	}

	return fmt.Sprintf("req %s %d %s %d %d %s %d %s", addrArgs(q.eff()), q.remote.Port(), q.qname, q.qtype, q.class(), asn, q.ecs, q.dev)
}

func (q *request) msg() *dns.Msg {
	m := &dns.Msg{}
	m.Id = 77
	m.RecursionDesired = true
	m.Question = []dns.Question{{Name: q.qname, Qtype: q.qtype, Qclass: q.class()}}
	if q.badDevID {
		o := &dns.OPT{Hdr: dns.RR_Header{Name: ".", Rrtype: dns.TypeOPT, Class: 1232}}
		o.Option = append(o.Option, &dns.EDNS0_LOCAL{Code: 65074, Data: []byte("!not a device id!")})
		if q.ecs != 0 {
			e := &dns.EDNS0_SUBNET{Code: dns.EDNS0SUBNET, Family: 1, SourceNetmask: 24, Address: net.IP{198, 51, 100, 0}}
			if q.ecs == 2 {
				q.malform(e)
			}
			o.Option = append(o.Option, e)
		}
		m.Extra = append(m.Extra, o)

		return m
	}
	if q.ecs != 0 {
		o := &dns.OPT{Hdr: dns.RR_Header{Name: ".", Rrtype: dns.TypeOPT, Class: 1232}}
		e := &dns.EDNS0_SUBNET{Code: dns.EDNS0SUBNET, Family: 1, SourceNetmask: 24, Address: net.IP{198, 51, 100, 0}}
		if q.ecs == 2 {
			q.malform(e)
		}
		o.Option = append(o.Option, e)
		m.Extra = append(m.Extra, o)
	}

	return m
}

func (q *request) profIdx() int {
	var k int
	if _, err := fmt.Sscanf(q.dev, "ok:%d", &k); err == nil {
		return k
	}

	return -1
}

func b2s(b bool) string {
	if b {
		return "1"
	}

	return "0"
}

// addrArgs renders an address for the model: family (1 IPv4, 0 IPv6, z IPv6
// with a zone) and value.
func addrArgs(ip netip.Addr) string {
	fam := b2s(ip.Is4())
	if ip.Zone() != "" {
		fam = "z"
	}

	return fmt.Sprintf("%s %s", fam, new(big.Int).SetBytes(ip.AsSlice()).String())
}

func prefArgs(p netip.Prefix) string { return fmt.Sprintf("%s %d", addrArgs(p.Addr()), p.Bits()) }

// ---------------------------------------------------------------------------
// The rest of the profile and device records
// ---------------------------------------------------------------------------

// attrFlags: one letter per switch of agd.Profile / agd.Device that a request
// handler has in its hands next to the access settings.  The statement
// quantifies over every profile, so over every value of these; none of them is
// an access setting.
//
//	F Profile.FilteringEnabled off     f Device.FilteringEnabled off
//	Q Profile.QueryLogEnabled off      I Profile.IPLogEnabled off
//	X Profile.Deleted                  A Profile.AutoDevicesEnabled
//	P Block{ChromePrefetch,FirefoxCanary,PrivateRelay}
//	M Profile.BlockingMode REFUSED     S FilterConfig: parental, safe browsing, rule lists on
//	G Profile.Ratelimiter is agd.GlobalRatelimiter (no rate limit of its own)
//	l Device.LinkedIP = the client     d Device.DedicatedIPs set
//	a Device.Auth enabled, DoH only
const attrFlags = "FfQIXAPMSGlda"

// stackFlags are the switches the stack campaign varies: those the real device
// finder does not act on itself (it treats a deleted profile as no profile:
// the stack campaign has a case of its own for that).
const stackFlags = "FfQIAPMSG"

// splitDev splits a device-result name into the result and the flags.
func splitDev(dev string) (base, flags string) {
	parts := strings.Split(dev, ":")
	switch {
	case parts[0] == "ok" && len(parts) == 3:
		return parts[0] + ":" + parts[1], parts[2]
	case parts[0] == "empty" && len(parts) == 2:
		return parts[0], parts[1]
	}

	return dev, ""
}

// withFlags adds flags to a device-result name that has a profile.
func withFlags(dev, flags string) string {
	base, _ := splitDev(dev)
	if flags == "" || !(strings.HasPrefix(base, "ok:") || base == "empty") {
		return base
	}

	return base + ":" + flags
}

// genFlags draws a set of switches: usually none or one, the two filtering
// switches in every combination, sometimes many.
func genFlags(rng *rand.Rand, pool string) string {
	switch x := rng.IntN(10); {
	case x < 4:
		return ""
	case x < 6:
		return pool[rng.IntN(len(pool)):][:1]
	case x < 8:
		return []string{"F", "f", "Ff"}[rng.IntN(3)]
	}
	var b strings.Builder
	for _, c := range pool {
		if rng.IntN(3) == 0 {
			b.WriteRune(c)
		}
	}

	return b.String()
}

// applyFlags returns copies of the profile and the device with the switches
// named by flags set; client is the address of the request's client.
func applyFlags(p *agd.Profile, d *agd.Device, flags string, client netip.Addr) (*agd.Profile, *agd.Device) {
	if flags == "" {
		return p, d
	}
	pc, dc := *p, *d
	for _, c := range flags {
		switch c {
		case 'F':
			pc.FilteringEnabled = false
		case 'f':
			dc.FilteringEnabled = false
		case 'Q':
			pc.QueryLogEnabled = false
		case 'I':
			pc.IPLogEnabled = false
		case 'X':
			pc.Deleted = true
		case 'A':
			pc.AutoDevicesEnabled = true
		case 'P':
			pc.BlockChromePrefetch, pc.BlockFirefoxCanary, pc.BlockPrivateRelay = true, true, true
		case 'M':
			pc.BlockingMode = &dnsmsg.BlockingModeREFUSED{}
		case 'S':
			pc.FilterConfig = &filter.ConfigClient{Custom: &filter.ConfigCustom{},
				Parental:     &filter.ConfigParental{Enabled: true, AdultBlockingEnabled: true, SafeSearchGeneralEnabled: true},
				RuleList:     &filter.ConfigRuleList{Enabled: true},
				SafeBrowsing: &filter.ConfigSafeBrowsing{Enabled: true, DangerousDomainsEnabled: true}}
		case 'G':
			pc.Ratelimiter = agd.GlobalRatelimiter{}
		case 'l':
			dc.LinkedIP = client
		case 'd':
			dc.DedicatedIPs = []netip.Addr{netip.MustParseAddr("192.0.2.2")}
		case 'a':
			dc.Auth = &agd.AuthSettings{PasswordHash: agdpasswd.AllowAuthenticator{}, Enabled: true, DoHAuthOnly: true}
		default:
			panic("verif: unknown device flag " + string(c))
		}
	}

	return &pc, &dc
}

// ---------------------------------------------------------------------------
// The oracle: the property statement, written out independently
// ---------------------------------------------------------------------------

// refContains: the first p.Bits() bits of ip equal those of the prefix address,
// same address family.
func refContains(p netip.Prefix, ip netip.Addr) bool {
	if p.Addr().Is4() != ip.Is4() {
		return false
	}
	a, b := p.Addr().AsSlice(), ip.AsSlice()
	full, rem := p.Bits()/8, p.Bits()%8
	if !bytes.Equal(a[:full], b[:full]) {
		return false
	}
	if rem == 0 {
		return true
	}
	mask := byte(0xff << (8 - rem))

	return a[full]&mask == b[full]&mask
}

func refInNets(nets []netip.Prefix, ip netip.Addr) bool {
	for _, n := range nets {
		if refContains(n, ip) {
			return true
		}
	}

	return false
}

func refInASNs(asns []geoip.ASN, l *geoip.Location) bool {
	if l == nil {
		return false
	}
	for _, a := range asns {
		if a == l.ASN {
			return true
		}
	}

	return false
}

// refHost is the question name as rules see it: lower case, no final dot; the
// root stays ".".
func refHost(qname string) string {
	if qname == "." {
		return "."
	}

	return strings.ToLower(strings.TrimSuffix(qname, "."))
}

// refSepClass: a character the separator ^ does not accept (letters, digits and " .%_-").
func refSepClass(c byte) bool {
	return c >= 'a' && c <= 'z' || c >= 'A' && c <= 'Z' || c >= '0' && c <= '9' || strings.IndexByte(" .%_-", c) >= 0
}

// refBodyAt: can the body of the pattern be laid over host[from:] (a prefix of it, all of it with a
// final '|')?  Dynamic programming over (token, position), written from the adblock syntax
// documentation: '*' is any string, '^' is one separator character or the end of the name.
func refBodyAt(body string, end bool, host string, from int) bool {
	n, m := len(body), len(host)
	// can[i][j]: body[i:] can be laid starting at host[j:].
	can := make([][]bool, n+1)
	for i := range can {
		can[i] = make([]bool, m+1)
	}
	for j := 0; j <= m; j++ {
		can[n][j] = !end || j == m
	}
	for i := n - 1; i >= 0; i-- {
		for j := m; j >= 0; j-- {
			switch c := body[i]; c {
			case '*':
				can[i][j] = can[i+1][j] || j < m && can[i][j+1]
			case '^':
				if j == m {
					can[i][j] = can[i+1][m]
				} else {
					can[i][j] = !refSepClass(host[j]) && can[i+1][j+1]
				}
			default:
				can[i][j] = j < m && strings.EqualFold(host[j:j+1], string(c)) && can[i+1][j+1]
			}
		}
	}

	return can[0][from]
}

// refPatternMatches: where the body may start is decided by the anchor: || at the beginning of the
// name or after any dot that ends a non-empty run of name characters, | at the beginning, nothing
// anywhere.
func refPatternMatches(ru rule, host string) bool {
	switch ru.anchor {
	case 's':
		return refBodyAt(ru.body, ru.end, host, 0)
	case 'd':
		if refBodyAt(ru.body, ru.end, host, 0) {
			return true
		}
		for k := 0; k < len(host); k++ {
			c := host[k]
			if !(c >= 'a' && c <= 'z' || c >= 'A' && c <= 'Z' || c >= '0' && c <= '9' || c == '-' || c == '_' || c == '.') {
				return false
			}
			if k >= 1 && c == '.' && refBodyAt(ru.body, ru.end, host, k+1) {
				return true
			}
		}

		return false
	}
	for k := 0; k <= len(host); k++ {
		if refBodyAt(ru.body, ru.end, host, k) {
			return true
		}
	}

	return false
}

// refRuleValid: a network rule whose pattern text is shorter than three characters is refused as
// too wide unless $dnstype restricts it.
func refRuleValid(ru rule) bool {
	if ru.kind == 'h' {
		return true
	}
	l := len(ru.body)
	switch ru.anchor {
	case 'd':
		l += 2
	case 's':
		l++
	}
	if ru.end {
		l++
	}

	return l >= 3 || len(ru.perm)+len(ru.restr) > 0
}

func refRuleMatches(ru rule, host string, qt uint16) bool {
	if ru.kind == 'j' {
		// An empty entry or a comment is no rule.
		return false
	}
	if ru.kind == 'h' {
		for _, h := range ru.hosts {
			if host == strings.ToLower(h) {
				return true
			}
		}

		return false
	}
	if !refRuleValid(ru) || !refPatternMatches(ru, host) {
		return false
	}
	for _, t := range ru.restr {
		if t == qt {
			return false
		}
	}
	if len(ru.perm) == 0 {
		return true
	}
	for _, t := range ru.perm {
		if t == qt {
			return true
		}
	}

	return false
}

// refNameBlocked: the question matches a blocked-name rule in the adblock sense:
// an important exception wins, then an important blocking rule, then an
// exception, then a blocking rule (network style or hosts style).
func refNameBlocked(rules []rule, qname string, qt uint16) bool {
	host := refHost(qname)
	var impAllow, impBlock, allow, block bool
	for _, ru := range rules {
		if !refRuleMatches(ru, host, qt) {
			continue
		}
		switch {
		case ru.kind != 'h' && ru.allow && ru.imp:
			impAllow = true
		case ru.kind != 'h' && ru.imp:
			impBlock = true
		case ru.kind != 'h' && ru.allow:
			allow = true
		default:
			block = true
		}
	}
	switch {
	case impAllow:
		return false
	case impBlock:
		return true
	case allow:
		return false
	}

	return block
}

type verdict struct {
	blocked bool
	// class names the clause of the statement that decides.
	class string
}

func refVerdict(c *cfg, q *request) verdict {
	ip := q.eff()
	if refInNets(c.gnets, ip) {
		return verdict{true, "global-subnet"}
	}
	if refNameBlocked(c.grules, q.qname, q.qtype) {
		return verdict{true, "global-name"}
	}
	k := q.profIdx()
	if k < 0 {
		return verdict{false, "no-rule"}
	}
	p := c.profs[k]
	allowed := refInASNs(p.aa, q.loc) || refInNets(p.an, ip)
	blockedNet := refInASNs(p.ba, q.loc) || refInNets(p.bn, ip)
	if !allowed && refInASNs(p.ba, q.loc) {
		return verdict{true, "profile-asn"}
	}
	if !allowed && refInNets(p.bn, ip) {
		return verdict{true, "profile-subnet"}
	}
	if refNameBlocked(p.rules, q.qname, q.qtype) {
		return verdict{true, "profile-name"}
	}
	if allowed && blockedNet {
		return verdict{false, "allowed-over-blocked"}
	}

	return verdict{false, "no-rule"}
}

// sigSuffix names the input class of a request for violation signatures.
func sigSuffix(v verdict, q *request) string {
	s := v.class
	if q.ecs == 2 {
		s += "+bad-ecs"
	}
	if q.qname == "." {
		s += "+root"
	}
	if q.dev == "err" {
		s += "+device-error"
	}
	if q.qclass != 0 {
		s += "+class"
	}
	if q.remote.Addr().Zone() != "" {
		s += "+zoned"
	}
	if _, flags := splitDev(q.dev); flags != "" {
		// The switches that make people think "nothing applies to this profile" get their own class.
		switch {
		case strings.ContainsAny(flags, "Ff"):
			s += "+filtering-off"
		case strings.ContainsAny(flags, "QIX"):
			s += "+logging-off-or-deleted"
		default:
			s += "+profile-switches"
		}
	}

	return s
}

// ---------------------------------------------------------------------------
// Generators
// ---------------------------------------------------------------------------

var v4pool = []string{"10.0.0.0/8", "10.1.0.0/16", "10.1.2.0/24", "10.1.2.128/25", "10.1.2.3/32", "192.0.2.0/31",
	"10.1.2.77/24", "128.0.0.0/1", "10.1.3.0/24", "10.1.2.0/23"}
var v6pool = []string{"2001:db8::/32", "2001:db8:1::/48", "2001:db8:1::1/128", "2001:db8::/33", "fe80::/10",
	"2001:db8:1:0:8000::/65", "2001:db8:1::5/64", "::ffff:10.1.2.0/120", "2001:db8:1::/127"}
// (65578 = 42 + 2^16 and 4294967338 does not exist: ASNs that differ only above bit 16 must stay different.)
var asnPool = []geoip.ASN{0, 1, 42, 64512, 4294967295, 65578, 65536}
var labelPool = []string{"a", "b", "ab", "test", "blk", "x-y", "www", "a1", "z", "az9"}
// (CAA = 257 = 256 + A and the private-use type 65280 = 255 << 8: types that differ from a rule's type only above bit 8.)
var qtypePool = []uint16{dns.TypeA, dns.TypeAAAA, dns.TypeNS, dns.TypeTXT, dns.TypeHTTPS, dns.TypeANY, dns.TypeMX, dns.TypeCAA, 65280}
var ruleTypes = []uint16{dns.TypeA, dns.TypeAAAA, dns.TypeNS, dns.TypeTXT, dns.TypeHTTPS, dns.TypeCAA}

func genPrefix(rng *rand.Rand) netip.Prefix {
	switch x := rng.IntN(20); {
	case x == 0:
		return netip.MustParsePrefix([]string{"0.0.0.0/0", "::/0"}[rng.IntN(2)])
	case x < 14:
		if rng.IntN(2) == 0 {
			return netip.MustParsePrefix(v4pool[rng.IntN(len(v4pool))])
		}

		return netip.MustParsePrefix(v6pool[rng.IntN(len(v6pool))])
	}
	a := genPoolAddr(rng)
	bits := rng.IntN(a.BitLen() + 1)
	p := netip.PrefixFrom(a, bits)
	if rng.IntN(2) == 0 {
		p = p.Masked()
	}

	return p
}

func genPoolAddr(rng *rand.Rand) netip.Addr {
	if rng.IntN(2) == 0 {
		return netip.AddrFrom4([4]byte{[]byte{10, 10, 10, 192, 138}[rng.IntN(5)], byte(rng.IntN(3)), byte(rng.IntN(4)), byte(rng.IntN(256))})
	}
	var b [16]byte
	b[0], b[1], b[2], b[3] = 0x20, 0x01, 0x0d, 0xb8
	b[5] = byte(rng.IntN(3))
	b[8] = byte(rng.IntN(2) * 0x80)
	b[15] = byte(rng.IntN(8))
	if rng.IntN(10) == 0 {
		b[0], b[1] = 0xfe, 0x80
	}

	return netip.AddrFrom16(b)
}

// genAddrNear returns an address at or next to a boundary of one of the
// configured prefixes, or a pool address.
func genAddrNear(rng *rand.Rand, nets []netip.Prefix) netip.Addr {
	if len(nets) == 0 || rng.IntN(5) == 0 {
		return genPoolAddr(rng)
	}
	p := nets[rng.IntN(len(nets))]
	w := p.Addr().BitLen()
	base := new(big.Int).SetBytes(p.Masked().Addr().AsSlice())
	size := new(big.Int).Lsh(big.NewInt(1), uint(w-p.Bits()))
	v := new(big.Int)
	switch rng.IntN(6) {
	case 0:
		v.Set(base)
	case 1:
		v.Add(base, size).Sub(v, big.NewInt(1))
	case 2:
		v.Sub(base, big.NewInt(1))
	case 3:
		v.Add(base, size)
	case 4:
		v.Set(new(big.Int).SetBytes(p.Addr().AsSlice()))
	default:
		off := new(big.Int).SetUint64(rng.Uint64())
		if size.BitLen() <= 64 {
			off.Mod(off, size)
		}
		v.Add(base, off)
	}
	max := new(big.Int).Lsh(big.NewInt(1), uint(w))
	if v.Sign() < 0 || v.Cmp(max) >= 0 {
		v.Set(base)
	}
	buf := make([]byte, w/8)
	v.FillBytes(buf)
	a, _ := netip.AddrFromSlice(buf)

	return a
}

func genDom(rng *rand.Rand, minLabels int) string {
	n := minLabels + rng.IntN(3)
	if n > 3 {
		n = 3
	}
	var ls []string
	for i := 0; i < n; i++ {
		ls = append(ls, labelPool[rng.IntN(len(labelPool))])
	}
	d := strings.Join(ls, ".")
	if rng.IntN(6) == 0 {
		d = strings.ToUpper(d[:1]) + d[1:]
	}

	return d
}

// genTypes draws a $dnstype list: nothing, one permitted, one restricted, several, mixed.
func genTypes(rng *rand.Rand) (perm, restr []uint16) {
	t := func() uint16 { return ruleTypes[rng.IntN(len(ruleTypes))] }
	switch rng.IntN(8) {
	case 0:
		return []uint16{t()}, nil
	case 1:
		return nil, []uint16{t()}
	case 2:
		return []uint16{t(), t()}, nil
	case 3:
		return nil, []uint16{t(), t()}
	case 4:
		return []uint16{t(), t()}, []uint16{t()}
	}

	return nil, nil
}

func genRule(rng *rand.Rand) (ru rule) {
	tld := func() string { return []string{"test", "ab", "blk", "www"}[rng.IntN(4)] }
	switch x := rng.IntN(20); {
	case x < 4:
		// urlfilter takes a bare name for a hosts-style rule only if it is a domain name
		// whose last label is alphabetic and at least two characters long; anything
		// else would be a pattern.
		ru.kind, ru.hosts = 'h', []string{genDom(rng, 1) + "." + tld()}
		if rng.IntN(3) == 0 {
			ru.ipStyle = true
			for i := rng.IntN(3); i > 0; i-- {
				ru.hosts = append(ru.hosts, genDom(rng, 1)+"."+tld())
			}
		}

		return ru
	case x < 11:
		// ||dom^ : the classic.
		ru = domRule(genDom(rng, 1))
	case x < 12:
		ru.kind, ru.anchor, ru.body = 'n', 'n', "*"
		ru.perm = []uint16{ruleTypes[rng.IntN(len(ruleTypes))]}
	default:
		// A free pattern: anchor, body pieces with wildcards and separators, end anchor.
		ru.kind = 'n'
		ru.anchor = "dsn"[rng.IntN(3)]
		d := strings.ToLower(genDom(rng, 1))
		switch rng.IntN(9) {
		case 0:
			ru.body = "*." + d + "^"
		case 1:
			ru.body = d
		case 2:
			ru.body = d + "."
		case 3:
			i := 1 + rng.IntN(len(d))
			ru.body = d[:i] + "*" + d[i:]
		case 4:
			ru.body = d + "^*"
		case 5:
			ru.body = "." + d + "^"
		case 6:
			ru.body = d[:1] + "*" + labelPool[rng.IntN(len(labelPool))] + "^"
		case 7:
			// Short patterns: too wide without $dnstype.
			// (A pattern of exactly one character other than "*" and "|" makes urlfilter panic
			// when it is first matched: see oneCharPatternCase.)
			ru.body = []string{"", "*", "a.", "a^", "ab", "^^", ".", "a*"}[rng.IntN(8)]
			if ru.anchor == 'n' && ru.body == "." {
				ru.end = true
			}
		default:
			ru.body = d + "^"
		}
		ru.end = ru.end || rng.IntN(5) == 0
	}
	if ru.anchor == 's' && ru.body == "" && ru.end {
		// "|" + "" + "|" would read as the anchor "||".
		ru.anchor, ru.end = 'd', false
	}
	if tl := len(ru.body) + map[byte]int{'d': 2, 's': 1, 'n': 0}[ru.anchor] + map[bool]int{true: 1}[ru.end]; tl == 1 && ru.body != "*" && ru.body != "" {
		// A pattern of exactly one character other than "*" and "|" makes urlfilter panic when
		// it is first matched (oneCharPatternCase shows it): keep it out of the random runs.
		ru.body += "^"
	}
	ru.allow = rng.IntN(4) == 0
	ru.imp = rng.IntN(5) == 0
	if len(ru.perm) == 0 {
		ru.perm, ru.restr = genTypes(rng)
	}
	// A bare name would be read as a hosts-style rule, and so would anything that looks like one:
	// give a pattern without any special character a modifier.
	if ru.anchor == 'n' && !ru.end && !ru.allow && !strings.ContainsAny(ru.body, "*^") && !ru.imp && len(ru.perm)+len(ru.restr) == 0 {
		ru.imp = true
	}

	return ru
}

// junkEntries are entries of a rule list that are not rules: empty and blank strings, comments
// (also ones that contain a rule text).
var junkEntries = []string{"", " ", "\t", "# ||blk.test^", "! blk.test", "#", "!", "# *$dnstype=A", "####"}

func genRules(rng *rand.Rand, max int) (rs []rule) {
	for i := rng.IntN(max + 1); i > 0; i-- {
		ru := genRule(rng)
		ru.pad = rng.IntN(10) == 0
		rs = append(rs, ru)
		if rng.IntN(8) == 0 {
			// … anywhere in the list: in front of, between and behind the rules.
			j := rule{kind: 'j', junk: junkEntries[rng.IntN(len(junkEntries))]}
			at := rng.IntN(len(rs) + 1)
			rs = append(rs[:at], append([]rule{j}, rs[at:]...)...)
		}
	}

	return rs
}

func genASNs(rng *rand.Rand) (as []geoip.ASN) {
	for i := rng.IntN(3); i > 0; i-- {
		as = append(as, asnPool[rng.IntN(len(asnPool))])
	}

	return as
}

func genPrefixes(rng *rand.Rand, max int) (ps []netip.Prefix) {
	for i := rng.IntN(max + 1); i > 0; i-- {
		ps = append(ps, genPrefix(rng))
	}

	return ps
}

func genCfg(rng *rand.Rand, nprof int) (c *cfg) {
	c = &cfg{}
	if rng.IntN(3) > 0 {
		c.gnets = genPrefixes(rng, 3)
	}
	if rng.IntN(3) > 0 {
		c.grules = genRules(rng, 4)
	}
	for k := 0; k < nprof; k++ {
		p := &pcfg{}
		if rng.IntN(5) > 0 {
			p.bn = genPrefixes(rng, 3)
			p.an = genPrefixes(rng, 2)
			// Overlap on purpose: an allowed prefix inside / around / equal to a blocked one.
			if len(p.bn) > 0 && rng.IntN(2) == 0 {
				b := p.bn[rng.IntN(len(p.bn))]
				bits := b.Bits()
				switch rng.IntN(3) {
				case 0:
					bits = min(bits+1+rng.IntN(4), b.Addr().BitLen())
				case 1:
					bits = max(bits-1-rng.IntN(4), 0)
				}
				p.an = append(p.an, netip.PrefixFrom(b.Addr(), bits))
			}
		}
		if rng.IntN(3) > 0 {
			p.ba, p.aa = genASNs(rng), genASNs(rng)
		}
		if rng.IntN(2) == 0 {
			p.rules = genRules(rng, 3)
		}
		c.profs = append(c.profs, p)
	}

	return c
}

func (c *cfg) allNets() (ps []netip.Prefix) {
	ps = append(ps, c.gnets...)
	for _, p := range c.profs {
		ps = append(ps, p.an...)
		ps = append(ps, p.bn...)
	}

	return ps
}

func (c *cfg) allRules() (rs []rule) {
	rs = append(rs, c.grules...)
	for _, p := range c.profs {
		rs = append(rs, p.rules...)
	}

	return rs
}

func genName(rng *rand.Rand, rules []rule) string {
	if rng.IntN(16) == 0 {
		return "."
	}
	// Names made from the rules: a hosts-style name, or a pattern body with every '*' replaced by a
	// few name characters and every '^' removed.
	var doms []string
	for _, ru := range rules {
		if ru.kind == 'j' {
			continue
		}
		if ru.kind == 'h' {
			doms = append(doms, ru.hosts...)

			continue
		}
		var b strings.Builder
		for _, c := range ru.body {
			switch c {
			case '*':
				b.WriteString([]string{"", "x", "a.b", ".", "zz"}[rng.IntN(5)])
			case '^':
			default:
				b.WriteRune(c)
			}
		}
		d := strings.Trim(b.String(), ".")
		if d != "" && !strings.Contains(d, "..") {
			doms = append(doms, d)
		}
	}
	name := genDom(rng, 1)
	if len(doms) > 0 && rng.IntN(3) > 0 {
		d := doms[rng.IntN(len(doms))]
		switch rng.IntN(6) {
		case 0, 1:
			name = d
		case 2:
			name = labelPool[rng.IntN(len(labelPool))] + "." + d
		case 3:
			if i := strings.IndexByte(d, '.'); i >= 0 {
				name = d[i+1:]
			} else {
				name = d
			}
		case 4:
			name = "x" + d
		default:
			name = d + "." + labelPool[rng.IntN(len(labelPool))]
		}
	}
	switch rng.IntN(8) {
	case 0:
		name = strings.ToUpper(name)
	case 1:
		name = strings.ToUpper(name[:1]) + name[1:]
	}
	if rng.IntN(12) == 0 {
		// Legal on the wire, unusual in a name: characters outside letters, digits, '-', '_' and '.'
		// (the separator '^' of a pattern accepts most of them; '||' does not skip over them).
		sp := specialChars[rng.IntN(len(specialChars))]
		switch i := rng.IntN(len(name) + 1); rng.IntN(4) {
		case 0:
			name = name[:i] + sp + name[i:]
		case 1:
			name = sp + "." + name
		case 2:
			name = name + sp
		default:
			if j := strings.IndexByte(name, '.'); j >= 0 {
				name = name[:j] + sp + name[j+1:]
			} else {
				name = name + sp + "test"
			}
		}
	}

	return name + "."
}

// specialChars: see genName.  (No blank: a name is one word of the model's line protocol.)
var specialChars = []string{"*", "@", "/", ":", "%", "~", "!", "$", "=", "+", "|", "^", "\\", "\\.", "\\@", "\\032", "\\200", "(", "'", "?", "&", "#", ",", ";"}

func genLoc(rng *rand.Rand, c *cfg) *geoip.Location {
	if rng.IntN(6) == 0 {
		return nil
	}
	asn := asnPool[rng.IntN(len(asnPool))]
	var cfgASNs []geoip.ASN
	for _, p := range c.profs {
		cfgASNs = append(cfgASNs, p.aa...)
		cfgASNs = append(cfgASNs, p.ba...)
	}
	if len(cfgASNs) > 0 && rng.IntN(2) == 0 {
		asn = cfgASNs[rng.IntN(len(cfgASNs))]
	}

	return &geoip.Location{Country: geoip.CountryAD, Continent: geoip.ContinentEU, ASN: asn}
}

func genRemote(rng *rand.Rand, c *cfg) netip.AddrPort {
	ip := genAddrNear(rng, c.allNets())
	if ip.Is4() && rng.IntN(8) == 0 {
		ip = netip.AddrFrom16(ip.As16())
	} else if ip.Is6() && rng.IntN(5) == 0 {
		// What the kernel reports for a link-local client: an address with a zone.  The
		// statement speaks about the address; a zone moves no client out of a subnet.
		ip = ip.WithZone([]string{"eth0", "2"}[rng.IntN(2)])
	}
	port := uint16(1 + rng.IntN(65535))
	if rng.IntN(40) == 0 {
		port = 0
	}

	return netip.AddrPortFrom(ip, port)
}

func genRequest(rng *rand.Rand, c *cfg, devs []string) (q *request) {
	q = &request{
		remote: genRemote(rng, c),
		qname:  genName(rng, c.allRules()),
		qtype:  qtypePool[rng.IntN(len(qtypePool))],
		loc:    genLoc(rng, c),
		ecsLoc: genLoc(rng, c),
		dev:    devs[rng.IntN(len(devs))],
	}
	q.dev = withFlags(q.dev, genFlags(rng, attrFlags))
	if rng.IntN(8) == 0 {
		q.qclass = []uint16{dns.ClassCHAOS, dns.ClassHESIOD, dns.ClassANY, dns.ClassNONE, dns.ClassCSNET}[rng.IntN(5)]
	}
	switch rng.IntN(12) {
	case 0, 3:
		q.ecs = 1
	case 1, 2:
		q.ecs = 2
	}

	return q
}

// ---------------------------------------------------------------------------
// Campaign mw: the real middleware
// ---------------------------------------------------------------------------

// recMetrics records which events the middleware reported.
type recMetrics struct {
	bySubnet, byHost, byProfile, rlProfile, unkDed, rateLimited, allowlisted int
}

var _ dnssvc.VerifC10Metrics = (*recMetrics)(nil)

func (m *recMetrics) IncrementAccessBlockedByHost(context.Context)    { m.byHost++ }
func (m *recMetrics) IncrementAccessBlockedByProfile(context.Context) { m.byProfile++ }
func (m *recMetrics) IncrementAccessBlockedBySubnet(context.Context)  { m.bySubnet++ }
func (m *recMetrics) IncrementRatelimitedByProfile(context.Context)   { m.rlProfile++ }
func (m *recMetrics) IncrementUnknownDedicated(context.Context)       { m.unkDed++ }
func (m *recMetrics) OnRateLimited(context.Context, *dns.Msg, dnsserver.ResponseWriter) {
	m.rateLimited++
}
func (m *recMetrics) OnAllowlisted(context.Context, *dns.Msg, dnsserver.ResponseWriter) {
	m.allowlisted++
}

// fixture is the real middleware with fakes around it.
type fixture struct {
	h       dnsserver.Handler
	metrics *recMetrics
	profs   []*agd.Profile
	dev     agd.DeviceResult
	loc     *geoip.Location

	nextCalls, limCalls, countCalls int
	nextHadRI                       bool
	// nextRI is a copy of the request information the next stage found in its
	// context.
	nextRI *agd.RequestInfo
	// cur is the request being served (for the per-address GeoIP fake).
	cur *request
	// Traces outside the next handler: calls of the profiles' rate limiters and
	// errors reported to the error collector.
	profRL, errColl int
	// lookups: calls of the device finder and of the (fake) GeoIP database for the current request.
	findCalls, geoCalls int
}

// countingRL is a profile rate limiter that defers to the global one and
// counts how often it is consulted: its counters are state that other requests
// of the profile depend on, so a rejected request must not touch it.
type countingRL struct{ n *int }

var _ agd.Ratelimiter = countingRL{}

func (c countingRL) Check(context.Context, *dns.Msg, netip.Addr) agd.RatelimitResult {
	*c.n++

	return agd.RatelimitResultUseGlobal
}
func (c countingRL) Config() *agd.RatelimitConfig                         { return &agd.RatelimitConfig{} }
func (c countingRL) CountResponses(context.Context, *dns.Msg, netip.Addr) { *c.n++ }

func newMessages() *dnsmsg.Constructor {
	c, err := dnsmsg.NewConstructor(&dnsmsg.ConstructorConfig{
		Cloner:              agdtest.NewCloner(),
		BlockingMode:        &dnsmsg.BlockingModeNullIP{},
		StructuredErrors:    agdtest.NewSDEConfig(true),
		FilteredResponseTTL: 10 * time.Second,
		EDEEnabled:          true,
	})
	hlib.Must(err)

	return c
}

func newProfile(k int, acc access.Profile, rl agd.Ratelimiter) *agd.Profile {
	if rl == nil {
		rl = agd.GlobalRatelimiter{}
	}

	return &agd.Profile{
		FilterConfig: &filter.ConfigClient{Custom: &filter.ConfigCustom{}, Parental: &filter.ConfigParental{},
			RuleList: &filter.ConfigRuleList{}, SafeBrowsing: &filter.ConfigSafeBrowsing{}},
		Access: acc, BlockingMode: &dnsmsg.BlockingModeNullIP{}, Ratelimiter: rl,
		ID: agd.ProfileID(fmt.Sprintf("prof%d", k)), DeviceIDs: []agd.DeviceID{agd.DeviceID(fmt.Sprintf("dev%d", k))},
		FilteredResponseTTL: 10 * time.Second, FilteringEnabled: true, QueryLogEnabled: true, IPLogEnabled: true,
	}
}

func newDevice(k int, linked netip.Addr) *agd.Device {
	return &agd.Device{Auth: &agd.AuthSettings{PasswordHash: agdpasswd.AllowAuthenticator{}},
		ID: agd.DeviceID(fmt.Sprintf("dev%d", k)), LinkedIP: linked, FilteringEnabled: true}
}

func newFixture(c *cfg, proto agd.Protocol) (f *fixture) {
	f = &fixture{metrics: &recMetrics{}}
	for k, p := range c.profs {
		f.profs = append(f.profs, newProfile(k, access.NewDefaultProfile(p.conf()), countingRL{&f.profRL}))
	}
	fake := agdtest.NewGeoIP()
	fake.OnData = func(_ string, ip netip.Addr) (*geoip.Location, error) {
		f.geoCalls++

		return f.cur.geoFor(ip), nil
	}
	var geo geoip.Interface = fake
	if geoOverride != nil {
		// Campaign geo: the real geoip.File.
		geo = geoOverride
	}
	mw := dnssvc.VerifC10NewMw(&dnssvc.VerifC10MwConfig{
		Logger:           slogutil.NewDiscardLogger(),
		Messages:         newMessages(),
		FilteringGroup:   &agd.FilteringGroup{},
		ServerGroup:      &agd.ServerGroup{},
		Server:           &agd.Server{Name: "verif", Protocol: proto},
		StructuredErrors: agdtest.NewSDEConfig(true),
		AccessManager:    c.global(),
		DeviceFinder: &agdtest.DeviceFinder{OnFind: func(context.Context, *dns.Msg, netip.AddrPort, netip.AddrPort) agd.DeviceResult {
			f.findCalls++

			return f.dev
		}},
		ErrColl: &agdtest.ErrorCollector{OnCollect: func(context.Context, error) { f.errColl++ }},
		GeoIP:   geo,
		Metrics: f.metrics,
		Limiter: &agdtest.RateLimit{
			OnIsRateLimited: func(context.Context, *dns.Msg, netip.Addr) (bool, bool, error) {
				f.limCalls++

				return false, false, nil
			},
			OnCountResponses: func(context.Context, *dns.Msg, netip.Addr) { f.countCalls++ },
		},
		Protocols:  []agd.Protocol{agd.ProtoDNS},
		EDEEnabled: true,
	})
	f.h = mw.Wrap(dnsserver.HandlerFunc(func(ctx context.Context, rw dnsserver.ResponseWriter, req *dns.Msg) error {
		f.nextCalls++
		var ri *agd.RequestInfo
		ri, f.nextHadRI = agd.RequestInfoFromContext(ctx)
		if ri != nil {
			cp := *ri
			f.nextRI = &cp
		}
		resp := (&dns.Msg{}).SetReply(req)
		resp.Answer = append(resp.Answer, &dns.TXT{Hdr: dns.RR_Header{Name: req.Question[0].Name, Rrtype: dns.TypeTXT,
			Class: dns.ClassINET, Ttl: 10}, Txt: []string{"from-next"}})

		return rw.WriteMsg(ctx, req, resp)
	}))

	return f
}

var errDev = fmt.Errorf("verif: device finder failure")

func (f *fixture) devResult(dev string, client netip.Addr) agd.DeviceResult {
	dev, flags := splitDev(dev)
	switch dev {
	case "nil":
		return nil
	case "empty":
		p, d := applyFlags(newProfile(99, access.EmptyProfile{}, countingRL{&f.profRL}), newDevice(99, netip.Addr{}), flags, client)

		return &agd.DeviceResultOK{Device: d, Profile: p}
	case "auth":
		return &agd.DeviceResultAuthenticationFailure{Err: errDev}
	case "unk":
		return &agd.DeviceResultUnknownDedicated{Err: errDev}
	case "err":
		return &agd.DeviceResultError{Err: errDev}
	}
	var k int
	_, err := fmt.Sscanf(dev, "ok:%d", &k)
	hlib.Must(err)

	p, d := applyFlags(f.profs[k], newDevice(k, netip.Addr{}), flags, client)

	return &agd.DeviceResultOK{Device: d, Profile: p}
}

// obs is what one request did, as seen from outside the middleware.
type obs struct {
	resp      *dns.Msg
	err       error
	next, lim int
	hadRI     bool
	why       string
	panicked  any
	// ri is the request information the next stage received, rendered like the
	// model renders it; dev is the device result in it.
	ri    string
	riDev agd.DeviceResult
	riLoc *geoip.Location
	// riDevSame: the device result the next stage received is the very one the
	// device finder returned (profile and device with all their switches).
	riDevSame       bool
	profRL, errColl int
	// lookups before the decision: device finder and GeoIP calls.
	findCalls, geoCalls int
	// rlMetrics: events of the rate-limiting stage reported to the metrics.
	rlMetrics int
}

// riString renders the request-dependent part of a request information.
func riString(ri *agd.RequestInfo) string {
	asn := "-"
	if ri.Location != nil {
		asn = fmt.Sprint(ri.Location.ASN)
	}
	dev := "?"
	switch ri.DeviceResult.(type) {
	case nil:
		dev = "nil"
	case *agd.DeviceResultOK:
		dev = "ok"
	case *agd.DeviceResultAuthenticationFailure:
		dev = "auth"
	case *agd.DeviceResultUnknownDedicated:
		dev = "unk"
	case *agd.DeviceResultError:
		dev = "err"
	}

	return fmt.Sprintf("[%s] %d %d %s %s %s %s", ri.Host, ri.QType, ri.QClass, addrArgs(ri.RemoteIP), asn, b2s(ri.ECS != nil), dev)
}

// refRI is the request information the statement's "processed normally" calls
// for, written from the request as it was sent.
func refRI(q *request) string {
	asn := "-"
	if q.loc != nil {
		asn = fmt.Sprint(q.loc.ASN)
	}
	host := strings.ToLower(strings.TrimSuffix(q.qname, "."))
	dev, _ := splitDev(q.dev)
	if strings.HasPrefix(dev, "ok") || dev == "empty" {
		dev = "ok"
	}

	return fmt.Sprintf("[%s] %d %d %s %s %s %s", host, q.qtype, q.class(), addrArgs(q.eff()), asn, b2s(q.ecs == 1), dev)
}

func (f *fixture) serve(ctx context.Context, q *request) (o obs) {
	f.dev, f.loc, f.cur = f.devResult(q.dev, q.eff()), q.loc, q
	*f.metrics = recMetrics{}
	f.nextCalls, f.limCalls, f.countCalls, f.nextHadRI, f.nextRI = 0, 0, 0, false, nil
	f.profRL, f.errColl, f.findCalls, f.geoCalls = 0, 0, 0, 0
	rw := dnsserver.NewNonWriterResponseWriter(net.UDPAddrFromAddrPort(netip.MustParseAddrPort("192.0.2.2:53")),
		net.UDPAddrFromAddrPort(q.remote))
	func() {
		defer func() { o.panicked = recover() }()
		o.err = f.h.ServeDNS(ctx, rw, q.msg())
	}()
	// Every method of the shared rate limiter counts: its counters are state other clients depend on.
	o.resp, o.next, o.lim, o.hadRI = rw.Msg(), f.nextCalls, f.limCalls+f.countCalls, f.nextHadRI
	o.rlMetrics = f.metrics.rateLimited + f.metrics.allowlisted + f.metrics.rlProfile
	o.profRL, o.errColl, o.findCalls, o.geoCalls = f.profRL, f.errColl, f.findCalls, f.geoCalls
	if f.nextRI != nil {
		o.ri, o.riDev, o.riLoc = riString(f.nextRI), f.nextRI.DeviceResult, f.nextRI.Location
		o.riDevSame = o.riDev == f.dev
	}
	m := f.metrics
	switch {
	case m.bySubnet > 0:
		o.why = "global-ip"
	case m.byHost > 0:
		o.why = "global-host"
	case m.byProfile > 0:
		o.why = "profile"
	case m.unkDed > 0:
		o.why = "unknown-dedicated"
	case o.next > 0:
		o.why = "next"
	case o.resp != nil && o.resp.Rcode == dns.RcodeFormatError:
		o.why = "formerr"
	case m.rateLimited > 0 && o.lim == 0:
		o.why = "spoof"
	case o.err != nil:
		o.why = "device-error"
	default:
		o.why = "?"
	}

	return o
}

// canon is the observation in the model's output format.
func (o *obs) canon() string {
	eff := "-"
	switch {
	case o.next == 1 && o.resp != nil:
		eff = "N"
	case o.next == 0 && o.resp != nil:
		eff = "F"
	case o.next != 0:
		eff = "?"
	}

	info := ""
	if o.ri != "" {
		info = " | " + o.ri
	}

	return fmt.Sprintf("%s %s %s%s", o.why, eff, b2s(o.err != nil), info)
}

// judge is the property oracle for one request on the real middleware.
func judge(r *hlib.Result, campaign string, c *cfg, q *request, o *obs, replay func() any) (v verdict) {
	v = refVerdict(c, q)
	suffix := sigSuffix(v, q)
	if o.panicked != nil {
		r.Violate("panic:"+suffix, fmt.Sprintf("%s: request %q panicked: %v", campaign, q.line(), o.panicked), replay())

		return v
	}
	if v.blocked {
		r.Count(campaign + ".ref.blocked." + v.class)
		if o.resp != nil {
			r.Violate("blocked-request-answered:"+suffix, fmt.Sprintf("%s: the property rejects this request (%s) but the client "+
				"received a response with rcode %d", campaign, v.class, o.resp.Rcode), replay())
		}
		if o.next != 0 || o.lim != 0 {
			r.Violate("blocked-request-reached-next:"+suffix, fmt.Sprintf("%s: the property rejects this request (%s) but it reached "+
				"a later stage (next handler calls %d, rate limiter calls %d)", campaign, v.class, o.next, o.lim), replay())
		}
		if o.err != nil {
			// The server answers a handler error with SERVFAIL (and logs and reports it).
			r.Violate("blocked-request-answered:"+suffix+"+handler-error", fmt.Sprintf("%s: the property rejects this request (%s) but the "+
				"handler returned an error, which the server answers with SERVFAIL: %v", campaign, v.class, o.err), replay())
		}
		if q.remote.Port() != 0 && o.rlMetrics != 0 {
			r.Violate("blocked-request-left-trace:"+suffix+"+ratelimit-metrics", fmt.Sprintf("%s: the property rejects this request (%s) but the "+
				"rate-limiting stage reported %d event(s) for it", campaign, v.class, o.rlMetrics), replay())
		}
		if o.profRL != 0 || o.errColl != 0 {
			r.Violate("blocked-request-left-trace:"+suffix, fmt.Sprintf("%s: the property rejects this request (%s) but it left a trace: "+
				"profile rate limiter calls %d, errors reported %d", campaign, v.class, o.profRL, o.errColl), replay())
		}
		if strings.HasPrefix(v.class, "global-") && (o.findCalls != 0 || o.geoCalls != 0) {
			// The global clauses need nothing but the request: a lookup for such a client — the device finder can create an
			// automatic device through the backend, a failing GeoIP lookup is reported — is a trace.
			r.Violate("blocked-request-left-trace:"+suffix+"+lookup-before-global-decision", fmt.Sprintf("%s: the global settings reject "+
				"this request (%s) but the client was looked up first: device finder calls %d, GeoIP calls %d", campaign, v.class,
				o.findCalls, o.geoCalls), replay())
		}

		return v
	}
	r.Count(campaign + ".ref.unblocked." + v.class)
	switch {
	case q.remote.Port() == 0, q.dev == "unk", q.dev == "err":
		// Dropped before access control for reasons outside this property.
		r.Count(campaign + ".ref.unblocked.dropped-earlier")
	case q.ecs == 2:
		if o.resp == nil || o.next != 0 {
			r.Violate("unblocked-request-dropped:"+suffix, fmt.Sprintf("%s: no rule rejects this request with a malformed ECS option, "+
				"normal processing answers FORMERR, but resp=%v next=%d", campaign, o.resp != nil, o.next), replay())
		}
	default:
		if o.next != 1 || o.resp == nil || !o.hadRI {
			r.Violate("unblocked-request-dropped:"+suffix, fmt.Sprintf("%s: no rule rejects this request (%s) but it was not processed "+
				"normally: next handler calls %d, response %v, request info in context %v, err %v", campaign, v.class, o.next,
				o.resp != nil, o.hadRI, o.err), replay())
		} else if want := refRI(q); o.ri != want || o.riLoc != q.loc && geoOverride == nil || !o.riDevSame {
			r.Violate("unblocked-request-wrong-info:"+suffix, fmt.Sprintf("%s: the next stage received request information [host qtype "+
				"qclass family addr asn ecs device] %q (location is the client's: %v, device result is the finder's: %v), the request says %q",
				campaign, o.ri, o.riLoc == q.loc, o.riDevSame, want), replay())
		}
	}

	return v
}

var mwDevs = []string{"nil", "nil", "nil", "ok:0", "ok:0", "ok:0", "ok:1", "ok:1", "empty", "auth", "unk", "err"}

func mwCampaign(o *hlib.Opts, r *hlib.Result, m *hlib.Model) {
	rng := o.Rand("mw")
	n := 5000
	if o.Thorough() {
		n = 60000
	}
	for i := 0; i < n; i++ {
		c := genCfg(rng, 2)
		var qs []*request
		for j := 4 + rng.IntN(16); j > 0; j-- {
			qs = append(qs, genRequest(rng, c, mwDevs))
		}
		// Half of the cases on plain DNS (the only protocol the rate limiter applies to), the rest on
		// the encrypted protocols: access control is the same on all of them.
		proto := agd.ProtoDNS
		if rng.IntN(2) == 0 {
			proto = []agd.Protocol{agd.ProtoDoT, agd.ProtoDoH, agd.ProtoDoQ, agd.ProtoDNSCrypt}[rng.IntN(4)]
		}
		r.Count(fmt.Sprintf("mw.proto.%v", proto))
		runMwCase(r, m, "mw", c, qs, proto)
	}
}

func runMwCase(r *hlib.Result, m *hlib.Model, campaign string, c *cfg, qs []*request, proto agd.Protocol) {
	ctx := context.Background()
	f := newFixture(c, proto)
	lines := c.lines()
	pre := len(lines)
	var got []string
	nBlocked, nServed := 0, 0
	for j, q := range qs {
		// The request context may already be cancelled or past its deadline when the handler runs (a client
		// that went away, a slow queue): the access decision and the silence of a rejected request must not
		// depend on it.  (Derived from the request, not from a random stream: replays stay exact.)
		rctx, cancel := ctx, context.CancelFunc(func() {})
		switch (int(q.remote.Port()) + len(q.qname) + j) % 7 {
		case 0:
			rctx, cancel = context.WithCancel(ctx)
			cancel()
			r.Count(campaign + ".fault.ctx-cancelled")
		case 1:
			rctx, cancel = context.WithDeadline(ctx, time.Unix(1, 0))
			r.Count(campaign + ".fault.ctx-deadline")
		}
		ob := f.serve(rctx, q)
		cancel()
		lines = append(lines, q.line())
		got = append(got, ob.canon())
		// A later stage also means the rate limiter, which only applies to plain DNS.
		if proto != agd.ProtoDNS {
			ob.lim = 0
		}
		v := judge(r, campaign, c, q, &ob, func() any {
			// The whole history of the case up to the failing request: the middleware pools
			// its request information, so an earlier request may matter.
			return map[string]any{"campaign": campaign, "config": c.describe(), "request": q.line(), "remote": q.remote.String(),
				"observed": ob.canon(), "failing_request_index": j, "ops": append([]string{}, lines[:pre+j+1]...)}
		})
		r.Count(campaign + ".real." + ob.why)
		if q.remote.Addr().Zone() != "" {
			r.Count(campaign + ".input.zoned-client." + v.class)
		}
		if strings.ContainsFunc(q.qname, func(c rune) bool {
			return !(c >= 'a' && c <= 'z' || c >= 'A' && c <= 'Z' || c >= '0' && c <= '9' || c == '-' || c == '_' || c == '.')
		}) {
			r.Count(campaign + ".input.special-name." + v.class)
		}
		if _, flags := splitDev(q.dev); flags != "" {
			// Which switches met which verdict: the access decision must be the same with and without them.
			kind := "other-switches"
			if strings.ContainsAny(flags, "Ff") {
				kind = "filtering-off"
			}
			r.Count(fmt.Sprintf("%s.switches.%s.%s", campaign, kind, v.class))
		}
		if v.blocked {
			nBlocked++
		} else if ob.next == 1 {
			nServed++
		}
	}
	answers := m.Batch(lines)[pre:]
	for j := range got {
		if got[j] != answers[j] {
			r.Disagree(campaign, fmt.Sprintf("%s: real=%q model=%q for %q", campaign, got[j], answers[j], lines[pre+j]),
				map[string]any{"campaign": campaign, "config": c.describe(), "failing_request_index": j, "ops": append([]string{}, lines[:pre+j+1]...)})

			break
		}
	}
	for _, ru := range c.allRules() {
		if ru.kind == 'j' {
			r.Count(campaign + ".input.junk-entry-in-rule-list")
		} else if ru.pad {
			r.Count(campaign + ".input.padded-rule")
		}
	}
	nt := nBlocked > 0 && nServed > 0
	r.Case(strings.Join(lines, ";"), nt)
	r.Count(campaign + ".cases")
	if nt {
		r.Count(campaign + ".cases.mixed")
		r.Sample(map[string]any{"campaign": campaign, "ops": truncate(lines, 14), "real": truncate(got, 6)}, 6)
	}
	r.Traces++
}

func truncate(s []string, n int) []string {
	if len(s) <= n {
		return s
	}

	return append(append([]string{}, s[:n]...), fmt.Sprintf("… %d more", len(s)-n))
}

// ---------------------------------------------------------------------------
// Campaign table: the complete decision table of the handler
// ---------------------------------------------------------------------------

// tableCampaign realises every combination of the atoms the handler's decision
// depends on — address family; client in a globally blocked subnet; name blocked
// by a global rule; profile: allowed ASN, allowed subnet, blocked ASN, blocked
// subnet, blocked name; device-finder result; ECS option absent / well-formed /
// malformed; source port zero or not; client location known or not — with a
// concrete configuration and request, and runs each through the real
// middleware, the model and the oracle.
func tableCampaign(r *hlib.Result, m *hlib.Model) {
	pp := netip.MustParsePrefix
	n := 0
	for code := 0; code < 1<<8; code++ {
		bit := func(i int) bool { return code>>i&1 == 1 }
		v4, gIP, gName := bit(0), bit(1), bit(2)
		aASN, aNet, bASN, bNet, pName := bit(3), bit(4), bit(5), bit(6), bit(7)
		client, inside, outside := "10.1.2.3", pp("10.1.2.0/25"), pp("10.1.2.128/25")
		if !v4 {
			client, inside, outside = "2001:db8:1::1", pp("2001:db8:1::/65"), pp("2001:db8:1:0:8000::/65")
		}
		pick := func(in bool) []netip.Prefix {
			if in {
				return []netip.Prefix{outside, inside}
			}

			return []netip.Prefix{outside}
		}
		asns := func(in bool) []geoip.ASN {
			if in {
				return []geoip.ASN{9, 7}
			}

			return []geoip.ASN{9}
		}
		c := &cfg{gnets: pick(gIP), grules: []rule{domRule("other.test")}}
		if gName {
			c.grules = append(c.grules, domRule("blk.test"))
		}
		p := &pcfg{an: pick(aNet), bn: pick(bNet), aa: asns(aASN), ba: asns(bASN)}
		if pName {
			p.rules = []rule{{kind: 'n', anchor: 'd', body: "X.blk.test^", perm: []uint16{dns.TypeA}}}
		}
		c.profs = []*pcfg{p, {}}
		var qs []*request
		// (The profile and device switches: each filtering switch alone, both, the logging switches
		// and a deleted profile, everything at once.)
		for _, dev := range []string{"nil", "empty", "auth", "unk", "err", "ok:0", "ok:0:F", "ok:0:f", "ok:0:Ff", "ok:0:QIX",
			"ok:0:" + attrFlags, "empty:Ff"} {
			for ecs := 0; ecs < 3; ecs++ {
				for _, port := range []uint16{0, 4000} {
					for _, loc := range []*geoip.Location{nil, {ASN: 7}} {
						qs = append(qs, &request{remote: netip.AddrPortFrom(netip.MustParseAddr(client), port), qname: "x.Blk.test.",
							qtype: dns.TypeA, loc: loc, ecsLoc: &geoip.Location{ASN: 9}, ecs: ecs, dev: dev})
					}
				}
			}
		}
		n += len(qs)
		runMwCase(r, m, "table", c, qs, agd.ProtoDNS)
	}
	r.Notes = append(r.Notes, fmt.Sprintf("table: all 256 combinations of {family, global subnet, global name, profile allowed/blocked ASN, "+
		"allowed/blocked subnet, blocked name} x 12 device results (6 kinds; with a profile: filtering off for the profile, the device, both, "+
		"logging off and deleted, every switch) x 3 ECS states x port zero/non-zero x location known/unknown = %d requests", n))
}

// ---------------------------------------------------------------------------
// Campaign api: the access package directly
// ---------------------------------------------------------------------------

func apiCampaign(o *hlib.Opts, r *hlib.Result, m *hlib.Model) {
	rng := o.Rand("api")
	n := 2500
	if o.Thorough() {
		n = 25000
	}
	for i := 0; i < n; i++ {
		c := genCfg(rng, 1)
		runAPICase(r, m, rng, c, 24)
	}
	if o.Thorough() {
		exhaustiveNets(r, m)
	}
}

// guarded calls f, which runs real code that must not panic, and reports a panic
// as a violation instead of letting it kill the harness.
func guarded(r *hlib.Result, what string, replay func() any, f func() bool) (b bool) {
	defer func() {
		if p := recover(); p != nil {
			r.Violate("panic:api", fmt.Sprintf("api: %s panicked: %v", what, p), replay())
		}
	}()

	return f()
}

func runAPICase(r *hlib.Result, m *hlib.Model, rng *rand.Rand, c *cfg, nq int) {
	g := c.global()
	p := access.NewDefaultProfile(c.profs[0].conf())
	lines := c.lines()
	pre := len(lines)
	var got []string
	seenT, seenF := false, false
	for j := 0; j < nq; j++ {
		q := genRequest(rng, c, []string{"ok:0"})
		ip := q.eff()
		replay := func(line string) any {
			return map[string]any{"campaign": "api", "config": c.describe(), "ops": append(append([]string{}, lines[:pre]...), line)}
		}
		switch rng.IntN(3) {
		case 0:
			line := "gip " + addrArgs(ip)
			b := guarded(r, line, func() any { return replay(line) }, func() bool { return g.IsBlockedIP(ip) })
			if want := refInNets(c.gnets, ip); b != want {
				r.Violate(fmt.Sprintf("global-subnet-verdict:want-%v", want), fmt.Sprintf("api: Global.IsBlockedIP(%v) = %v with blocked subnets %v",
					ip, b, c.gnets), replay(line))
			}
			lines, got = append(lines, line), append(got, b2s(b))
			seenT, seenF = seenT || b, seenF || !b
		case 1:
			// The middleware hands over NormalizeQueryDomain(q.Name).
			host := refHost(q.qname)
			line := fmt.Sprintf("ghost %s %d", host, q.qtype)
			b := guarded(r, line, func() any { return replay(line) }, func() bool { return g.IsBlockedHost(host, q.qtype) })
			if want := refNameBlocked(c.grules, q.qname, q.qtype); b != want {
				r.Violate(fmt.Sprintf("global-name-verdict:want-%v", want), fmt.Sprintf("api: Global.IsBlockedHost(%q, %d) = %v with rules %v",
					host, q.qtype, b, c.describe()["global_blocked_rules"]), replay(line))
			}
			lines, got = append(lines, line), append(got, b2s(b))
			seenT, seenF = seenT || b, seenF || !b
		default:
			asn := "-"
			if q.loc != nil {
				asn = fmt.Sprint(q.loc.ASN)
			}
			line := fmt.Sprintf("pblk 0 %s %s %s %d", addrArgs(ip), asn, q.qname, q.qtype)
			b := guarded(r, line, func() any { return replay(line) }, func() bool { return p.IsBlocked(q.msg(), netip.AddrPortFrom(ip, 53), q.loc) })
			cc := &cfg{profs: c.profs}
			v := refVerdict(cc, q)
			if b != v.blocked {
				r.Violate(fmt.Sprintf("profile-verdict:%s", v.class), fmt.Sprintf("api: DefaultProfile.IsBlocked(%q %d from %v, %v) = %v, the "+
					"statement says %v (%s)", q.qname, q.qtype, ip, q.loc, b, v.blocked, v.class), replay(line))
			}
			r.Count("api.profile." + v.class)
			lines, got = append(lines, line), append(got, b2s(b))
			seenT, seenF = seenT || b, seenF || !b
		}
	}
	answers := m.Batch(lines)[pre:]
	for j := range got {
		if got[j] != answers[j] {
			r.Disagree("api", fmt.Sprintf("api: real=%s model=%s for %q", got[j], answers[j], lines[pre+j]),
				map[string]any{"campaign": "api", "config": c.describe(), "ops": append(append([]string{}, lines[:pre]...), lines[pre+j])})

			break
		}
	}
	r.Case(strings.Join(lines, ";"), seenT && seenF)
	r.Count("api.cases")
	r.Traces++
}

// exhaustiveNets enumerates every assignment of four nested/overlapping
// prefixes and two ASNs to {unused, allowed, blocked, both} and checks the
// allow-over-block precedence for every boundary address and location.
func exhaustiveNets(r *hlib.Result, m *hlib.Model) {
	prefs := []netip.Prefix{netip.MustParsePrefix("10.1.0.0/16"), netip.MustParsePrefix("10.1.2.0/24"),
		netip.MustParsePrefix("10.1.2.128/25"), netip.MustParsePrefix("2001:db8::/32")}
	asns := []geoip.ASN{1, 42}
	addrs := []string{"10.1.0.0", "10.1.1.255", "10.1.2.0", "10.1.2.127", "10.1.2.128", "10.1.2.255", "10.1.3.0", "10.0.255.255",
		"10.2.0.0", "2001:db8::", "2001:db7:ffff:ffff:ffff:ffff:ffff:ffff", "2001:db8:ffff:ffff:ffff:ffff:ffff:ffff", "2001:db9::"}
	locs := []*geoip.Location{nil, {ASN: 1}, {ASN: 42}, {ASN: 7}}
	total := 1 << (2 * (len(prefs) + len(asns)))
	for code := 0; code < total; code++ {
		p := &pcfg{}
		x := code
		for _, pr := range prefs {
			if x&1 != 0 {
				p.an = append(p.an, pr)
			}
			if x&2 != 0 {
				p.bn = append(p.bn, pr)
			}
			x >>= 2
		}
		for _, a := range asns {
			if x&1 != 0 {
				p.aa = append(p.aa, a)
			}
			if x&2 != 0 {
				p.ba = append(p.ba, a)
			}
			x >>= 2
		}
		c := &cfg{profs: []*pcfg{p}}
		real := access.NewDefaultProfile(p.conf())
		lines := c.lines()
		pre := len(lines)
		var got []string
		for _, as := range addrs {
			ip := netip.MustParseAddr(as)
			for _, l := range locs {
				q := &request{remote: netip.AddrPortFrom(ip, 53), qname: "a.test.", qtype: dns.TypeA, loc: l, dev: "ok:0"}
				v := refVerdict(c, q)
				asn := "-"
				if l != nil {
					asn = fmt.Sprint(l.ASN)
				}
				line := fmt.Sprintf("pblk 0 %s %s a.test. 1", addrArgs(ip), asn)
				b := guarded(r, line, func() any {
					return map[string]any{"campaign": "api-exhaustive", "config": c.describe(), "ops": append(append([]string{}, lines[:pre]...), line)}
				}, func() bool { return real.IsBlocked(q.msg(), q.remote, l) })
				if b != v.blocked {
					r.Violate("profile-verdict:"+v.class, fmt.Sprintf("api/exhaustive: DefaultProfile.IsBlocked(from %v, %v) = %v, the statement "+
						"says %v (%s)", ip, l, b, v.blocked, v.class),
						map[string]any{"campaign": "api-exhaustive", "config": c.describe(), "ops": append(append([]string{}, lines[:pre]...), line)})
				}
				lines, got = append(lines, line), append(got, b2s(b))
				r.Count("api.exhaustive." + v.class)
			}
		}
		answers := m.Batch(lines)[pre:]
		for j := range got {
			if got[j] != answers[j] {
				r.Disagree("api-exhaustive", fmt.Sprintf("real=%s model=%s for %q", got[j], answers[j], lines[pre+j]),
					map[string]any{"config": c.describe(), "ops": append(append([]string{}, lines[:pre]...), lines[pre+j])})

				break
			}
		}
		r.Case(strings.Join(lines, ";"), len(p.an)+len(p.aa) > 0 && len(p.bn)+len(p.ba) > 0)
	}
	r.Exhaustive = true
	r.Notes = append(r.Notes, fmt.Sprintf("api/exhaustive: all %d assignments of 4 nested prefixes and 2 ASNs to "+
		"{unused, allowed, blocked, both} x %d boundary addresses x %d locations", total, len(addrs), len(locs)))
}

// ---------------------------------------------------------------------------
// Campaign stack: the production handler stack
// ---------------------------------------------------------------------------

var linkedIPs = []netip.Addr{netip.MustParseAddr("10.1.2.3"), netip.MustParseAddr("10.1.2.130"), netip.MustParseAddr("2001:db8:1::1"),
	netip.MustParseAddr("10.1.3.9"), netip.MustParseAddr("192.0.2.1"), netip.MustParseAddr("2001:db8:8000::5")}

func stackCampaign(o *hlib.Opts, r *hlib.Result, m *hlib.Model) {
	rng := o.Rand("stack")
	n := 700
	if o.Thorough() {
		n = 7000
	}
	for i := 0; i < n; i++ {
		runStackCase(r, m, rng)
	}
}

func runStackCase(r *hlib.Result, m *hlib.Model, rng *rand.Rand) {
	ctx := context.Background()
	c := genCfg(rng, 2)
	profRL := 0
	var cur *request
	// curFlags: the switches of the profile and device records the profile database returns for the
	// current request.
	curFlags := ""
	// Linked addresses 0..2 belong to profile 0, 3..5 to profile 1.
	var profs []*agd.Profile
	for k, p := range c.profs {
		profs = append(profs, newProfile(k, access.NewDefaultProfile(p.conf()), countingRL{&profRL}))
	}
	pdb := stack.NotFoundProfileDB()
	pdb.OnProfileByDeviceID = func(_ context.Context, id agd.DeviceID) (*agd.Profile, *agd.Device, error) {
		for k := range profs {
			if id == agd.DeviceID(fmt.Sprintf("dev%d", k)) {
				p, d := applyFlags(profs[k], newDevice(k, netip.Addr{}), curFlags, netip.Addr{})

				return p, d, nil
			}
		}

		return nil, nil, profiledb.ErrDeviceNotFound
	}
	pdb.OnProfileByLinkedIP = func(_ context.Context, ip netip.Addr) (*agd.Profile, *agd.Device, error) {
		for i, l := range linkedIPs {
			if l == ip {
				p, d := applyFlags(profs[i/3], newDevice(i/3, ip), curFlags, ip)

				return p, d, nil
			}
		}

		return nil, nil, profiledb.ErrDeviceNotFound
	}
	limCalls := 0
	cacheCfg := &dnssvc.CacheConfig{Type: dnssvc.CacheTypeNone}
	cached := rng.IntN(2) == 0
	if cached {
		cacheCfg = &dnssvc.CacheConfig{Type: dnssvc.CacheTypeSimple, NoECSCount: 100, MinTTL: time.Second}
	}
	// The cache metrics register with the default registerer: give every stack a fresh one.
	prometheus.DefaultRegisterer = prometheus.NewRegistry()
	srvDNS := stack.NewServer("dns", agd.ProtoDNS, true)
	srvDoT := stack.NewServer("dot", agd.ProtoDoT, true, &agd.ServerBindData{AddrPort: netip.MustParseAddrPort("192.0.2.2:853")})
	st := stack.New(&stack.Config{
		Access:    c.global(),
		ProfileDB: pdb,
		Servers:   []*agd.Server{srvDNS, srvDoT},
		Cache:     cacheCfg,
		GeoData:   func(_ string, ip netip.Addr) (*geoip.Location, error) { return cur.geoFor(ip), nil },
		RateLimit: &agdtest.RateLimit{
			OnIsRateLimited: func(context.Context, *dns.Msg, netip.Addr) (bool, bool, error) {
				limCalls++

				return false, false, nil
			},
			OnCountResponses: func(context.Context, *dns.Msg, netip.Addr) { limCalls++ },
		},
	})
	lines := c.lines()
	pre := len(lines)
	var got []string
	reached := map[string]bool{}
	nBlocked, nServed := 0, 0
	for j := 6 + rng.IntN(25); j > 0; j-- {
		q := genRequest(rng, c, []string{"nil"})
		if q.remote.Port() == 0 {
			q.remote = netip.AddrPortFrom(q.remote.Addr(), 4000)
		}
		srv, tlsName := srvDNS, ""
		if rng.IntN(3) == 0 {
			srv = srvDoT
		}
		if rng.IntN(2) == 0 {
			// A profile request: by linked address on plain DNS, by device ID in the TLS
			// server name on DoT (then from any address).
			k := rng.IntN(2)
			if srv == srvDNS {
				q.remote = netip.AddrPortFrom(linkedIPs[3*k+rng.IntN(3)], q.remote.Port())
			} else {
				tlsName = fmt.Sprintf("dev%d.%s", k, stack.DeviceDomain)
				q.dev = fmt.Sprintf("ok:%d", k)
			}
		}
		if srv == srvDNS {
			for i, l := range linkedIPs {
				if l == q.eff() {
					q.dev = fmt.Sprintf("ok:%d", i/3)
				}
			}
		}
		if q.loc == nil {
			// The downstream stages of the fixture need a location for billing.
			q.loc = &geoip.Location{Country: geoip.CountryAD, Continent: geoip.ContinentEU, ASN: 64512}
		}
		if rng.IntN(10) == 0 {
			// Make the real device finder fail: a malformed device ID in the dnsmasq
			// CPE-ID option (plain DNS) or in the TLS server name (DoT).
			q.dev = "err"
			if srv == srvDNS {
				q.badDevID = true
			} else {
				tlsName = "not!a!device!id." + stack.DeviceDomain
			}
		}
		// The switches of the profile and the device: what the later stages do depends on them, what
		// access control does must not.
		q.dev = withFlags(q.dev, genFlags(rng, stackFlags))
		_, curFlags = splitDev(q.dev)
		if q.profIdx() >= 0 && rng.IntN(12) == 0 {
			// A deleted profile is no profile: the real device finder answers "not found", so
			// the settings of the profile, access included, are nobody's.
			q.dev, curFlags = "nil", "X"
			r.Count("stack.deleted-profile")
		}
		cur = q
		limCalls, profRL = 0, 0
		before := st.Effects.Snapshot()
		var out stack.Outcome
		var panicked any
		func() {
			defer func() { panicked = recover() }()
			out = st.Serve(ctx, &stack.Req{Server: srv, Msg: q.msg(), Remote: q.remote, Local: netip.MustParseAddrPort("192.0.2.2:53"),
				TLSServerName: tlsName})
		}()
		after := st.Effects.Snapshot()
		var delta [7]int64
		touched := false
		for i := range delta {
			delta[i] = after[i] - before[i]
			touched = touched || delta[i] != 0
		}
		line := q.line()
		replay := func() any {
			return map[string]any{"campaign": "stack", "config": c.describe(), "request": line, "remote": q.remote.String(), "cache": cached,
				"server": string(srv.Name), "tls_server_name": tlsName, "downstream_delta[upstream,querylog,billing,rulestat,dnsdb,filter_req,filter_resp]": fmt.Sprint(delta),
				"ops": append(append([]string{}, lines...), line)}
		}
		v := refVerdict(c, q)
		suffix := sigSuffix(v, q)
		key := fmt.Sprintf("%s/%d", strings.ToLower(q.qname), q.qtype)
		switch {
		case panicked != nil:
			r.Violate("panic:"+suffix, fmt.Sprintf("stack: request %q panicked: %v", line, panicked), replay())
		case v.blocked:
			nBlocked++
			r.Count("stack.ref.blocked." + v.class)
			if curFlags != "" {
				r.Count("stack.switches.blocked." + v.class)
			}
			if out.Resp != nil {
				r.Violate("blocked-request-answered:"+suffix, fmt.Sprintf("stack: the property rejects this request (%s) but the client "+
					"received a response with rcode %d", v.class, out.Resp.Rcode), replay())
			}
			if touched || limCalls != 0 || profRL != 0 {
				r.Violate("blocked-request-left-trace:"+suffix, fmt.Sprintf("stack: the property rejects this request (%s) but downstream "+
					"counters moved: upstream,querylog,billing,rulestat,dnsdb,filter_req,filter_resp = %v, rate limiter calls %d, profile "+
					"rate limiter calls %d", v.class, delta, limCalls, profRL), replay())
			}
			if out.Err != nil {
				r.Violate("blocked-request-answered:"+suffix+"+handler-error", fmt.Sprintf("stack: the property rejects this request (%s) but "+
					"the handler returned an error, which the server answers with SERVFAIL: %v", v.class, out.Err), replay())
			}
		case q.dev == "err":
			r.Count("stack.ref.unblocked.device-error")
			if out.Err == nil || out.Resp != nil || touched {
				r.Violate("unblocked-request-dropped:"+suffix, fmt.Sprintf("stack: no rule rejects this request with a malformed device ID: "+
					"normal processing returns the device finder's error, but err=%v resp=%v downstream %v", out.Err, out.Resp != nil, delta), replay())
			}
		case q.ecs == 2:
			r.Count("stack.ref.unblocked.formerr")
			if out.Resp == nil || out.Resp.Rcode != dns.RcodeFormatError {
				r.Violate("unblocked-request-dropped:"+suffix, "stack: no rule rejects this request with a malformed ECS option but it got no FORMERR", replay())
			}
		default:
			r.Count("stack.ref.unblocked." + v.class)
			nServed++
			if out.Resp == nil || out.Err != nil {
				r.Violate("unblocked-request-dropped:"+suffix, fmt.Sprintf("stack: no rule rejects this request (%s) but resp=%v err=%v",
					v.class, out.Resp != nil, out.Err), replay())
			}
			if !reached[key] && delta[0] != 1 {
				// Nothing unblocked has asked this before: the answer can only come from
				// upstream, unless a blocked request populated a cache.
				r.Violate("blocked-request-cached:"+suffix, fmt.Sprintf("stack: first unblocked request for %s was not resolved upstream "+
					"(upstream calls %d)", key, delta[0]), replay())
			}
			// (Only for the Internet class: what the later stages do with other classes is
			// not this property's business.)
			// A profile with its query log switched off is billed and not logged.
			wantLog := int64(1)
			if strings.Contains(curFlags, "Q") {
				wantLog = 0
			}
			if q.profIdx() >= 0 && q.class() == dns.ClassINET && (delta[1] != wantLog || delta[2] != 1) {
				r.Violate("unblocked-request-not-logged:"+suffix, fmt.Sprintf("stack: profile request processed without exactly %d query-log "+
					"entry and one billing record: %v", wantLog, delta), replay())
			}
			if curFlags != "" {
				r.Count("stack.switches.served")
			}
			reached[key] = true
		}
		g := "dropped"
		if out.Resp != nil {
			g = "answered"
		}
		lines, got = append(lines, line), append(got, g)
	}
	answers := m.Batch(lines)[pre:]
	for j := range got {
		want := "dropped"
		if strings.Contains(answers[j], " N ") || strings.Contains(answers[j], " F ") {
			want = "answered"
		}
		if got[j] != want {
			r.Disagree("stack", fmt.Sprintf("stack: real=%s model=%q for %q", got[j], answers[j], lines[pre+j]),
				map[string]any{"campaign": "stack", "config": c.describe(), "ops": append(append([]string{}, lines[:pre]...), lines[pre+j])})

			break
		}
	}
	nt := nBlocked > 0 && nServed > 0
	r.Case("stack;"+strings.Join(lines, ";"), nt)
	r.Count("stack.cases")
	if nt {
		r.Count("stack.cases.mixed")
		r.Sample(map[string]any{"campaign": "stack", "ops": truncate(lines, 12), "real": truncate(got, 6)}, 9)
	}
	r.Traces++
}

// ---------------------------------------------------------------------------
// Seeded cases: the witnesses of the two repaired defects and the
// counter-example theorems, always run.
// ---------------------------------------------------------------------------

func seededCases(r *hlib.Result, m *hlib.Model) {
	any := anyRule
	c := &cfg{
		gnets:  []netip.Prefix{netip.MustParsePrefix("10.1.2.0/24"), netip.MustParsePrefix("fe80::/64")},
		grules: []rule{any(dns.TypeNS), domRule("blk.test")},
		profs: []*pcfg{
			{bn: []netip.Prefix{netip.MustParsePrefix("192.0.2.0/24"), netip.MustParsePrefix("fe80:0:0:1::/64")},
				an: []netip.Prefix{netip.MustParsePrefix("192.0.2.1/32"), netip.MustParsePrefix("fe80:0:0:2::/64")},
				ba: []geoip.ASN{42}, aa: []geoip.ASN{1}, rules: []rule{any(dns.TypeTXT)}},
			{},
		},
	}
	ap := netip.MustParseAddrPort
	l := func(a geoip.ASN) *geoip.Location { return &geoip.Location{ASN: a} }
	qs := []*request{
		// Blocked client with a malformed ECS option (was answered with FORMERR).
		{remote: ap("10.1.2.9:4000"), qname: "ok.test.", qtype: dns.TypeA, loc: l(7), ecs: 2, dev: "nil"},
		{remote: ap("9.9.9.9:4000"), qname: "x.blk.test.", qtype: dns.TypeA, loc: l(7), ecs: 2, dev: "nil"},
		{remote: ap("192.0.2.7:4000"), qname: "ok.test.", qtype: dns.TypeA, loc: l(7), ecs: 2, dev: "ok:0"},
		// Root query against a global name rule (was answered).
		{remote: ap("9.9.9.9:4000"), qname: ".", qtype: dns.TypeNS, loc: l(7), dev: "nil"},
		{remote: ap("9.9.9.9:4000"), qname: "com.", qtype: dns.TypeNS, loc: l(7), dev: "nil"},
		{remote: ap("9.9.9.9:4000"), qname: ".", qtype: dns.TypeTXT, loc: l(7), dev: "ok:0"},
		{remote: ap("9.9.9.9:4000"), qname: ".", qtype: dns.TypeA, loc: l(7), dev: "ok:0"},
		// Precedence.
		{remote: ap("192.0.2.1:4000"), qname: "ok.test.", qtype: dns.TypeA, loc: l(42), dev: "ok:0"},
		{remote: ap("192.0.2.2:4000"), qname: "ok.test.", qtype: dns.TypeA, loc: l(1), dev: "ok:0"},
		{remote: ap("192.0.2.2:4000"), qname: "ok.test.", qtype: dns.TypeA, loc: l(7), dev: "ok:0"},
		{remote: ap("192.0.2.2:4000"), qname: "ok.test.", qtype: dns.TypeA, loc: l(7), dev: "ok:1"},
		{remote: ap("[::ffff:10.1.2.9]:4000"), qname: "ok.test.", qtype: dns.TypeA, loc: l(7), dev: "nil"},
		{remote: ap("9.9.9.9:4000"), qname: "ok.test.", qtype: dns.TypeA, loc: nil, ecs: 2, dev: "nil"},
		// Profile access settings apply whatever the other switches of the profile and the device say:
		// blocked subnet / ASN / name with filtering off, logging off, profile deleted; allowed over
		// blocked likewise; and an unrejected request of such a profile is served.
		{remote: ap("192.0.2.2:4000"), qname: "ok.test.", qtype: dns.TypeA, loc: l(7), dev: "ok:0:F"},
		{remote: ap("192.0.2.2:4000"), qname: "ok.test.", qtype: dns.TypeA, loc: l(7), dev: "ok:0:f"},
		{remote: ap("9.9.9.9:4000"), qname: "ok.test.", qtype: dns.TypeA, loc: l(42), dev: "ok:0:Ff"},
		{remote: ap("9.9.9.9:4000"), qname: "ok.test.", qtype: dns.TypeTXT, loc: l(7), dev: "ok:0:Ff"},
		{remote: ap("9.9.9.9:4000"), qname: "ok.test.", qtype: dns.TypeTXT, loc: l(7), dev: "ok:0:QI"},
		{remote: ap("9.9.9.9:4000"), qname: "ok.test.", qtype: dns.TypeTXT, loc: l(7), dev: "ok:0:X"},
		{remote: ap("9.9.9.9:4000"), qname: "ok.test.", qtype: dns.TypeTXT, loc: l(7), dev: "ok:0:la"},
		{remote: ap("192.0.2.1:4000"), qname: "ok.test.", qtype: dns.TypeA, loc: l(42), dev: "ok:0:Ff"},
		{remote: ap("9.9.9.9:4000"), qname: "ok.test.", qtype: dns.TypeA, loc: l(7), dev: "ok:0:Ff"},
		{remote: ap("10.1.2.9:4000"), qname: "ok.test.", qtype: dns.TypeA, loc: l(7), dev: "ok:1:Ff"},
		{remote: ap("9.9.9.9:4000"), qname: "x.blk.test.", qtype: dns.TypeA, loc: l(7), dev: "empty:Ff"},
		// Link-local clients, as the kernel reports them (with a zone): globally blocked subnet, blocked
		// subnet of the profile, allowed subnet over a blocked ASN, no rule (were matched by no subnet).
		{remote: ap("[fe80::1%eth0]:4000"), qname: "ok.test.", qtype: dns.TypeA, loc: l(7), dev: "nil"},
		{remote: ap("[fe80:0:0:1::1%eth0]:4000"), qname: "ok.test.", qtype: dns.TypeA, loc: l(7), dev: "ok:0"},
		{remote: ap("[fe80:0:0:2::1%2]:4000"), qname: "ok.test.", qtype: dns.TypeA, loc: l(42), dev: "ok:0"},
		{remote: ap("[fe80:0:0:3::1%eth0]:4000"), qname: "ok.test.", qtype: dns.TypeA, loc: l(7), dev: "ok:0"},
	}
	runMwCase(r, m, "seeded", c, qs, agd.ProtoDNS)
	runMwCase(r, m, "seeded", c, qs, agd.ProtoDoH)
}

// ---------------------------------------------------------------------------
// Known finding: a one-character pattern makes urlfilter panic
// ---------------------------------------------------------------------------

const sigOneCharPattern = "panic:one-character-pattern-rule"

// oneCharPatternCase: a network rule whose pattern is exactly one character other than "*" and "|"
// (accepted by urlfilter when a $dnstype modifier restricts it) panics in rules.patternToRegexp
// (regex[1:0]) the first time a request gets as far as matching the pattern.  With the exception rule
// "@@a$dnstype=A" in a profile, a request that no rule rejects is not processed normally.
func oneCharPatternCase(r *hlib.Result) {
	c := &cfg{profs: []*pcfg{{rules: []rule{{kind: 'n', anchor: 'n', body: "a", allow: true, perm: []uint16{dns.TypeA}}}}, {}}}
	f := newFixture(c, agd.ProtoDNS)
	q := &request{remote: netip.MustParseAddrPort("9.9.9.9:4000"), qname: "a.test.", qtype: dns.TypeA, dev: "ok:0"}
	ob := f.serve(context.Background(), q)
	v := refVerdict(c, q)
	r.Count("onechar.cases")
	if !v.blocked && ob.panicked != nil {
		r.Violate(sigOneCharPattern, fmt.Sprintf("no rule rejects %q (the only rule is the exception %q) but the handler panicked instead of "+
			"processing it: %v", q.line(), c.profs[0].rules[0].text(), ob.panicked),
			map[string]any{"campaign": "onechar", "config": c.describe(), "request": q.line(), "ops": append(c.lines(), q.line())})
	} else if !v.blocked && (ob.next != 1 || ob.resp == nil) {
		r.Violate("unblocked-request-dropped:"+sigSuffix(v, q), "onechar: not processed normally", map[string]any{"config": c.describe(), "request": q.line()})
	}
}
