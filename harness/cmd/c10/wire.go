package main

import (
	"bytes"
	"context"
	"crypto/ecdsa"
	"crypto/elliptic"
	crand "crypto/rand"
	"crypto/tls"
	"crypto/x509"
	"crypto/x509/pkix"
	"encoding/binary"
	"fmt"
	"io"
	"math/big"
	"net"
	"net/http"
	"net/netip"
	"strings"
	"sync"
	"time"

	"github.com/AdguardTeam/AdGuardDNS/internal/agd"
	"github.com/AdguardTeam/AdGuardDNS/internal/dnsserver"
	"github.com/AdguardTeam/AdGuardDNS/internal/geoip"
	"github.com/AdguardTeam/AdGuardDNS/verifh/hlib"
	"github.com/ameshkov/dnscrypt/v2"
	"github.com/miekg/dns"
	"github.com/quic-go/quic-go"
)

// ---------------------------------------------------------------------------
// Campaign wire: the real middleware behind real listeners on loopback sockets
// (plain DNS over UDP and TCP, DoT, DoH, DoQ, DNSCrypt)
// ---------------------------------------------------------------------------
//
// Whatever the server does around the handler is part of what is observed:
// acceptMsg's FORMERR/NOTIMP before the handler runs, SERVFAIL for a returned
// error, and each protocol's reaction when nothing was written (UDP: nothing;
// TCP, DoT: the connection is closed; DoH: HTTP 500; DoQ, DNSCrypt: SERVFAIL).
// Clients bind 127.0.0.2 (globally blocked) or 127.0.0.1.
//
// On UDP only positive evidence counts (a datagram that does not arrive proves
// nothing); the stream protocols are deterministic: a closed connection, an HTTP
// status or a DNS message is always observed, and a read that times out is
// counted as inconclusive and never judged.

// Signatures of the two known findings (see known_findings.d/C10.json).
const (
	sigServerRejected = "blocked-client-answered-by-server:rejected-message"
	sigNoRespServfail = "blocked-client-answered-by-server:no-response-servfail"
)

// recHandler records what the handler did with the current message.
type recHandler struct {
	mu    sync.Mutex
	h     dnsserver.Handler
	calls int
	wrote bool
	err   error
}

func (x *recHandler) ServeDNS(ctx context.Context, rw dnsserver.ResponseWriter, req *dns.Msg) (err error) {
	x.mu.Lock()
	defer x.mu.Unlock()
	rec := dnsserver.NewRecorderResponseWriter(rw)
	err = x.h.ServeDNS(ctx, rec, req)
	x.calls++
	x.wrote, x.err = rec.Resp != nil, err

	return err
}

// shape is a way to bend the message so that acceptMsg sees something else than a plain query.
type shape struct {
	name                  string
	response              bool
	opcode, nq, nans, nns int
}

var shapes = []shape{
	{name: "query", nq: 1},
	{name: "opcode-status", opcode: dns.OpcodeStatus, nq: 1},
	{name: "opcode-update", opcode: dns.OpcodeUpdate, nq: 1},
	{name: "opcode-notify", opcode: dns.OpcodeNotify, nq: 1},
	{name: "two-questions", nq: 2},
	{name: "no-question", nq: 0},
	{name: "two-answers", nq: 1, nans: 2},
	{name: "one-answer", nq: 1, nans: 1},
	{name: "two-authority", nq: 1, nns: 2},
	{name: "response-flag", response: true, nq: 1},
}

func (sh shape) apply(m *dns.Msg) {
	m.Response, m.Opcode = sh.response, sh.opcode
	switch sh.nq {
	case 0:
		m.Question = nil
	case 2:
		m.Question = append(m.Question, dns.Question{Name: "second.test.", Qtype: dns.TypeA, Qclass: dns.ClassINET})
	}
	for i := 0; i < sh.nans; i++ {
		m.Answer = append(m.Answer, &dns.A{Hdr: dns.RR_Header{Name: "rr.test.", Rrtype: dns.TypeA, Class: dns.ClassINET, Ttl: 5}, A: net.IP{192, 0, 2, byte(i)}})
	}
	for i := 0; i < sh.nns; i++ {
		m.Ns = append(m.Ns, &dns.NS{Hdr: dns.RR_Header{Name: "rr.test.", Rrtype: dns.TypeNS, Class: dns.ClassINET, Ttl: 5}, Ns: fmt.Sprintf("ns%d.test.", i)})
	}
}

// refServerVerdict is the reading of RFC 1035 the statement's "request" leaves open: what a server
// that insists on one question does with this shape before any policy is looked at.  "" = served.
func (sh shape) refServerVerdict() string {
	switch {
	case sh.response:
		return "ignored"
	case sh.opcode != dns.OpcodeQuery && sh.opcode != dns.OpcodeNotify:
		return "NOTIMP"
	case sh.nq != 1 || sh.nans > 1 || sh.nns > 1:
		return "FORMERR"
	}

	return ""
}

func selfSigned() tls.Certificate {
	key, err := ecdsa.GenerateKey(elliptic.P256(), crand.Reader)
	hlib.Must(err)
	tmpl := &x509.Certificate{SerialNumber: big.NewInt(10), Subject: pkix.Name{Organization: []string{"verif"}},
		NotBefore: time.Now().Add(-time.Hour), NotAfter: time.Now().Add(24 * time.Hour), DNSNames: []string{"verif.test"},
		KeyUsage: x509.KeyUsageDigitalSignature, ExtKeyUsage: []x509.ExtKeyUsage{x509.ExtKeyUsageServerAuth}}
	der, err := x509.CreateCertificate(crand.Reader, tmpl, tmpl, &key.PublicKey, key)
	hlib.Must(err)

	return tls.Certificate{Certificate: [][]byte{der}, PrivateKey: key}
}

// wireServer is one real listener with its own middleware fixture.
type wireServer struct {
	proto string
	f     *fixture
	rec   *recHandler
	addr  string
	stop  func()
	// DNSCrypt only.
	crypt *dnscrypt.ResolverInfo
}

var wireProtos = map[string]agd.Protocol{"udp": agd.ProtoDNS, "tcp": agd.ProtoDNS, "dot": agd.ProtoDoT, "doh": agd.ProtoDoH,
	"doq": agd.ProtoDoQ, "dnscrypt": agd.ProtoDNSCrypt}

func startWireServer(ctx context.Context, proto string, c *cfg, cert tls.Certificate) (ws *wireServer, err error) {
	ws = &wireServer{proto: proto, f: newFixture(c, wireProtos[proto])}
	ws.rec = &recHandler{h: ws.f.h}
	base := dnsserver.ConfigBase{Name: "verif-c10-" + proto, Addr: "127.0.0.1:0", Handler: ws.rec}
	var srv dnsserver.Server
	switch proto {
	case "udp":
		base.Network = dnsserver.NetworkUDP
		s := dnsserver.NewServerDNS(dnsserver.ConfigDNS{ConfigBase: base, MaxUDPRespSize: dns.MaxMsgSize})
		srv = s
		defer func() {
			if err == nil {
				ws.addr = s.LocalUDPAddr().String()
			}
		}()
	case "tcp":
		base.Network = dnsserver.NetworkTCP
		s := dnsserver.NewServerDNS(dnsserver.ConfigDNS{ConfigBase: base})
		srv = s
		defer func() {
			if err == nil {
				ws.addr = s.LocalTCPAddr().String()
			}
		}()
	case "dot":
		base.Network = dnsserver.NetworkTCP
		s := dnsserver.NewServerTLS(dnsserver.ConfigTLS{ConfigDNS: dnsserver.ConfigDNS{ConfigBase: base},
			TLSConfig: &tls.Config{Certificates: []tls.Certificate{cert}}})
		srv = s
		defer func() {
			if err == nil {
				ws.addr = s.LocalTCPAddr().String()
			}
		}()
	case "doh":
		base.Network = dnsserver.NetworkTCP
		s := dnsserver.NewServerHTTPS(dnsserver.ConfigHTTPS{ConfigBase: base,
			TLSConfDefault: &tls.Config{Certificates: []tls.Certificate{cert}, NextProtos: dnsserver.NextProtoDoH}})
		srv = s
		defer func() {
			if err == nil {
				ws.addr = s.LocalTCPAddr().String()
			}
		}()
	case "doq":
		s := dnsserver.NewServerQUIC(dnsserver.ConfigQUIC{ConfigBase: base,
			TLSConfig: &tls.Config{Certificates: []tls.Certificate{cert}, NextProtos: dnsserver.NextProtoDoQ}})
		srv = s
		defer func() {
			if err == nil {
				ws.addr = s.LocalUDPAddr().String()
			}
		}()
	case "dnscrypt":
		base.Network = dnsserver.NetworkAny
		rc, gerr := dnscrypt.GenerateResolverConfig("verif.test", nil)
		if gerr != nil {
			return nil, gerr
		}
		crt, gerr := rc.CreateCert()
		if gerr != nil {
			return nil, gerr
		}
		s := dnsserver.NewServerDNSCrypt(dnsserver.ConfigDNSCrypt{ConfigBase: base, DNSCryptResolverCert: crt, DNSCryptProviderName: rc.ProviderName})
		srv = s
		defer func() {
			if err != nil {
				return
			}
			ws.addr = s.LocalUDPAddr().String()
			stamp, serr := rc.CreateStamp(ws.addr)
			if serr != nil {
				err = serr

				return
			}
			cl := &dnscrypt.Client{Net: "udp", Timeout: 2 * time.Second}
			ws.crypt, err = cl.DialStamp(stamp)
		}()
	}
	if err = srv.Start(ctx); err != nil {
		return nil, err
	}
	ws.stop = func() {
		sctx, cancel := context.WithTimeout(context.Background(), 2*time.Second)
		defer cancel()
		_ = srv.Shutdown(sctx)
	}

	return ws, nil
}

// observed is what came back for one message.
type observed struct {
	// replies: "NOERROR", "FORMERR", "NOTIMP", "SERVFAIL", "RCODE<n>", "HTTP<status>".
	replies []string
	// inconclusive: a read timed out (stream protocols) — nothing is judged.
	inconclusive bool
	note         string
}

func rcodeName(rc int) string {
	switch rc {
	case dns.RcodeSuccess:
		return "NOERROR"
	case dns.RcodeFormatError:
		return "FORMERR"
	case dns.RcodeNotImplemented:
		return "NOTIMP"
	case dns.RcodeServerFailure:
		return "SERVFAIL"
	}

	return fmt.Sprintf("RCODE%d", rc)
}

func readPrefixed(conn net.Conn, first time.Duration) (ob observed) {
	wait := first
	for {
		_ = conn.SetReadDeadline(time.Now().Add(wait))
		var l [2]byte
		if _, err := io.ReadFull(conn, l[:]); err != nil {
			if ne, ok := err.(net.Error); ok && ne.Timeout() && len(ob.replies) == 0 {
				ob.inconclusive = true
			}

			return ob
		}
		buf := make([]byte, binary.BigEndian.Uint16(l[:]))
		if _, err := io.ReadFull(conn, buf); err != nil {
			return ob
		}
		resp := &dns.Msg{}
		if resp.Unpack(buf) == nil {
			ob.replies = append(ob.replies, rcodeName(resp.Rcode))
		}
		// Anything further (the server's SERVFAIL after the middleware's FORMERR) follows at once.
		wait = 120 * time.Millisecond
	}
}

// exchange sends wire from src over the server's protocol and collects what comes back.
func (ws *wireServer) exchange(src netip.Addr, wire []byte, expectSilence bool) (ob observed, remote netip.AddrPort) {
	prefixed := append(binary.BigEndian.AppendUint16(nil, uint16(len(wire))), wire...)
	tlsConf := &tls.Config{InsecureSkipVerify: true, ServerName: "verif.test"}
	switch ws.proto {
	case "udp":
		conn, err := net.ListenUDP("udp4", &net.UDPAddr{IP: src.AsSlice()})
		if err != nil {
			return observed{inconclusive: true, note: err.Error()}, remote
		}
		defer func() { _ = conn.Close() }()
		remote = conn.LocalAddr().(*net.UDPAddr).AddrPort()
		dst, _ := net.ResolveUDPAddr("udp4", ws.addr)
		_, err = conn.WriteToUDP(wire, dst)
		hlib.Must(err)
		wait := 2 * time.Second
		if expectSilence {
			wait = 150 * time.Millisecond
		}
		in := make([]byte, 4096)
		for {
			_ = conn.SetReadDeadline(time.Now().Add(wait))
			n, _, rerr := conn.ReadFromUDP(in)
			if rerr != nil {
				return ob, remote
			}
			resp := &dns.Msg{}
			if resp.Unpack(in[:n]) == nil {
				ob.replies = append(ob.replies, rcodeName(resp.Rcode))
			}
			wait = 100 * time.Millisecond
		}
	case "tcp", "dot":
		d := net.Dialer{LocalAddr: &net.TCPAddr{IP: src.AsSlice()}, Timeout: 2 * time.Second}
		raw, err := d.Dial("tcp4", ws.addr)
		if err != nil {
			return observed{inconclusive: true, note: err.Error()}, remote
		}
		defer func() { _ = raw.Close() }()
		remote = raw.LocalAddr().(*net.TCPAddr).AddrPort()
		conn := raw
		if ws.proto == "dot" {
			tc := tls.Client(raw, tlsConf)
			_ = tc.SetDeadline(time.Now().Add(3 * time.Second))
			if err = tc.Handshake(); err != nil {
				return observed{inconclusive: true, note: err.Error()}, remote
			}
			conn = tc
		}
		if _, err = conn.Write(prefixed); err != nil {
			return observed{inconclusive: true, note: err.Error()}, remote
		}

		return readPrefixed(conn, 3*time.Second), remote
	case "doh":
		d := &net.Dialer{LocalAddr: &net.TCPAddr{IP: src.AsSlice()}, Timeout: 2 * time.Second}
		var mu sync.Mutex
		tr := &http.Transport{TLSClientConfig: tlsConf, ForceAttemptHTTP2: true,
			DialContext: func(ctx context.Context, network, addr string) (net.Conn, error) {
				c, derr := d.DialContext(ctx, "tcp4", addr)
				if derr == nil {
					mu.Lock()
					remote = c.LocalAddr().(*net.TCPAddr).AddrPort()
					mu.Unlock()
				}

				return c, derr
			}}
		defer tr.CloseIdleConnections()
		cl := &http.Client{Transport: tr, Timeout: 3 * time.Second}
		req, err := http.NewRequest(http.MethodPost, "https://"+ws.addr+"/dns-query", bytes.NewReader(wire))
		hlib.Must(err)
		req.Header.Set("Content-Type", "application/dns-message")
		req.Header.Set("Accept", "application/dns-message")
		resp, err := cl.Do(req)
		if err != nil {
			return observed{inconclusive: true, note: err.Error()}, remote
		}
		body, _ := io.ReadAll(resp.Body)
		_ = resp.Body.Close()
		if resp.StatusCode != http.StatusOK {
			ob.replies = append(ob.replies, fmt.Sprintf("HTTP%d", resp.StatusCode))

			return ob, remote
		}
		m := &dns.Msg{}
		if m.Unpack(body) == nil {
			ob.replies = append(ob.replies, rcodeName(m.Rcode))
		}

		return ob, remote
	case "doq":
		pc, err := net.ListenUDP("udp4", &net.UDPAddr{IP: src.AsSlice()})
		if err != nil {
			return observed{inconclusive: true, note: err.Error()}, remote
		}
		defer func() { _ = pc.Close() }()
		remote = pc.LocalAddr().(*net.UDPAddr).AddrPort()
		dst, _ := net.ResolveUDPAddr("udp4", ws.addr)
		ctx, cancel := context.WithTimeout(context.Background(), 3*time.Second)
		defer cancel()
		qc := tlsConf.Clone()
		qc.NextProtos = dnsserver.NextProtoDoQ
		conn, err := quic.Dial(ctx, pc, dst, qc, nil)
		if err != nil {
			return observed{inconclusive: true, note: err.Error()}, remote
		}
		defer func() { _ = conn.CloseWithError(0, "") }()
		stream, err := conn.OpenStreamSync(ctx)
		if err != nil {
			return observed{inconclusive: true, note: err.Error()}, remote
		}
		if _, err = stream.Write(prefixed); err != nil {
			return observed{inconclusive: true, note: err.Error()}, remote
		}
		_ = stream.Close()
		_ = stream.SetReadDeadline(time.Now().Add(3 * time.Second))
		data, rerr := io.ReadAll(stream)
		if len(data) < 2 {
			if ne, ok := rerr.(net.Error); ok && ne.Timeout() {
				return observed{inconclusive: true, note: "timeout"}, remote
			}
			// The server closed the stream or the connection without a message.
			ob.note = fmt.Sprint("closed: ", rerr)

			return ob, remote
		}
		m := &dns.Msg{}
		if m.Unpack(data[2:]) == nil {
			ob.replies = append(ob.replies, rcodeName(m.Rcode))
		}

		return ob, remote
	case "dnscrypt":
		conn, err := net.DialUDP("udp4", &net.UDPAddr{IP: src.AsSlice()}, net.UDPAddrFromAddrPort(netip.MustParseAddrPort(ws.addr)))
		if err != nil {
			return observed{inconclusive: true, note: err.Error()}, remote
		}
		defer func() { _ = conn.Close() }()
		remote = conn.LocalAddr().(*net.UDPAddr).AddrPort()
		m := &dns.Msg{}
		hlib.Must(m.Unpack(wire))
		cl := &dnscrypt.Client{Net: "udp", Timeout: 2 * time.Second}
		if expectSilence {
			cl.Timeout = 300 * time.Millisecond
		}
		resp, err := cl.ExchangeConn(conn, m, ws.crypt)
		if err != nil {
			// A timeout proves nothing.
			return observed{inconclusive: !expectSilence, note: err.Error()}, remote
		}
		ob.replies = append(ob.replies, rcodeName(resp.Rcode))

		return ob, remote
	}

	return ob, remote
}

type probe struct {
	src string
	q   request
	sh  shape
}

func wireCampaign(o *hlib.Opts, r *hlib.Result, m *hlib.Model) {
	c := &cfg{
		gnets:  []netip.Prefix{netip.MustParsePrefix("127.0.0.2/32")},
		grules: []rule{domRule("blk.test")},
		profs:  []*pcfg{{ba: []geoip.ASN{42}}, {}},
	}
	ctx := context.Background()
	cert := selfSigned()
	l := func(a geoip.ASN) *geoip.Location { return &geoip.Location{ASN: a} }
	plain := shapes[0]
	var probes []probe
	// Every message shape from the blocked address and, with a blocked name, from the other one.
	for _, sh := range shapes {
		probes = append(probes, probe{"127.0.0.2", request{qname: "ok.test.", qtype: dns.TypeA, dev: "nil"}, sh})
		if sh.nq == 1 {
			probes = append(probes, probe{"127.0.0.1", request{qname: "x.blk.test.", qtype: dns.TypeA, dev: "nil"}, sh})
		}
	}
	probes = append(probes,
		probe{"127.0.0.2", request{qname: "ok.test.", qtype: dns.TypeA, dev: "err"}, plain},
		probe{"127.0.0.2", request{qname: "ok.test.", qtype: dns.TypeA, dev: "nil", ecs: 2}, plain},
		probe{"127.0.0.1", request{qname: "x.blk.test.", qtype: dns.TypeA, dev: "err"}, plain},
		probe{"127.0.0.1", request{qname: "ok.test.", qtype: dns.TypeA, loc: l(42), dev: "ok:0", ecs: 2}, plain},
		probe{"127.0.0.1", request{qname: "ok.test.", qtype: dns.TypeA, loc: l(42), dev: "err"}, plain},
		probe{"127.0.0.1", request{qname: "ok.test.", qtype: dns.TypeA, loc: l(42), dev: "ok:0"}, plain},
		probe{"127.0.0.1", request{qname: "ok.test.", qtype: dns.TypeA, loc: l(7), dev: "ok:0"}, plain},
		// The profile's access settings with filtering (and everything else) switched off.
		probe{"127.0.0.1", request{qname: "ok.test.", qtype: dns.TypeA, loc: l(42), dev: "ok:0:Ff"}, plain},
		probe{"127.0.0.1", request{qname: "ok.test.", qtype: dns.TypeA, loc: l(42), dev: "ok:0:" + attrFlags, ecs: 2}, plain},
		probe{"127.0.0.1", request{qname: "ok.test.", qtype: dns.TypeA, loc: l(7), dev: "ok:0:Ff"}, plain},
		probe{"127.0.0.1", request{qname: "ok.test.", qtype: dns.TypeA, dev: "err"}, plain},
		probe{"127.0.0.1", request{qname: "ok.test.", qtype: dns.TypeA, dev: "nil", ecs: 2}, plain},
		probe{"127.0.0.1", request{qname: "ok.test.", qtype: dns.TypeA, dev: "unk"}, plain},
		probe{"127.0.0.1", request{qname: "ok.test.", qtype: dns.TypeA, dev: "nil"}, shapes[1]},
		probe{"127.0.0.1", request{qname: "ok.test.", qtype: dns.TypeA, dev: "nil"}, shapes[4]},
		probe{"127.0.0.1", request{qname: "ok.test.", qtype: dns.TypeA, dev: "nil"}, shapes[9]},
	)
	protos := []string{"udp", "tcp", "dot", "doh", "doq", "dnscrypt"}
	for _, proto := range protos {
		ws, err := startWireServer(ctx, proto, c, cert)
		for try := 0; err != nil && try < 5; try++ {
			// (DNSCrypt listens on the same port number for UDP and TCP: the TCP one may be taken.)
			ws, err = startWireServer(ctx, proto, c, cert)
		}
		if err != nil {
			r.Notes = append(r.Notes, "wire: could not start a "+proto+" listener, protocol skipped: "+err.Error())

			continue
		}
		t0 := time.Now()
		runWire(r, m, c, ws, probes)
		ws.stop()
		r.Notes = append(r.Notes, fmt.Sprintf("wire/%s: %d messages in %.1fs", proto, len(probes), time.Since(t0).Seconds()))
	}
}

func runWire(r *hlib.Result, m *hlib.Model, c *cfg, ws *wireServer, probes []probe) {
	lines := c.lines()
	pre := len(lines)
	type row struct {
		ob          observed
		calls, next int
		judged      bool
	}
	var rows []row
	for i := range probes {
		pb := probes[i]
		q := pb.q
		q.packable = true
		if ws.proto == "dnscrypt" && (q.ecs == 2 || pb.sh.nq != 1 || pb.sh.response) {
			// The DNSCrypt client packs the message itself, and packing repairs the option; the
			// DNSCrypt library drops messages without exactly one question and responses before
			// dnsserver sees them.
			continue
		}
		src := netip.MustParseAddr(pb.src)
		q.remote = netip.AddrPortFrom(src, 4000)
		msg := q.msg()
		pb.sh.apply(msg)
		if ws.proto == "doq" {
			msg.Id = 0
		}
		buf, err := msg.Pack()
		hlib.Must(err)
		if q.ecs == 2 {
			// Family 1, source prefix length 23, scope 0, address 198.51.100 -> 198.51.101.
			buf = bytes.Replace(buf, []byte{0, 1, 23, 0, 198, 51, 100}, []byte{0, 1, 23, 0, 198, 51, 101}, 1)
		}
		f := ws.f
		ws.rec.mu.Lock()
		f.dev, f.loc, f.cur = f.devResult(q.dev, q.eff()), q.loc, &q
		f.nextCalls, f.limCalls = 0, 0
		ws.rec.calls, ws.rec.wrote, ws.rec.err = 0, false, nil
		ws.rec.mu.Unlock()

		// The client-address clause needs no question; the name clauses need exactly one.
		v := refVerdict(c, &q)
		if pb.sh.nq != 1 && v.class != "global-subnet" {
			v = verdict{false, "no-rule"}
		}
		srvVerdict := pb.sh.refServerVerdict()
		silence := (v.blocked && srvVerdict == "" || srvVerdict == "ignored" || q.dev == "unk") && ws.proto != "dnscrypt"
		ob, remote := ws.exchange(src, buf, silence)
		ws.rec.mu.Lock()
		calls, wrote, herr, next := ws.rec.calls, ws.rec.wrote, ws.rec.err, f.nextCalls
		ws.rec.mu.Unlock()

		line := fmt.Sprintf("srv %s %s %d %d %d %d 1 %s", ws.proto, b2s(pb.sh.response), pb.sh.opcode, pb.sh.nq, pb.sh.nans, pb.sh.nns,
			strings.TrimPrefix(q.line(), "req "))
		lines = append(lines, line)
		rows = append(rows, row{ob, calls, next, !ob.inconclusive})
		r.Count("wire." + ws.proto + ".requests")
		if ob.inconclusive {
			r.Count("wire." + ws.proto + ".inconclusive")

			continue
		}
		replay := func() any {
			return map[string]any{"campaign": "wire", "protocol": ws.proto, "config": c.describe(), "request": q.line(), "message_shape": pb.sh.name,
				"source": remote.String(), "replies": ob.replies, "handler_calls": calls, "handler_wrote": wrote, "handler_err": fmt.Sprint(herr),
				"next_stage_calls": next, "ops": append(append([]string{}, lines[:pre]...), line)}
		}
		var dnsReplies []string
		for _, x := range ob.replies {
			if !strings.HasPrefix(x, "HTTP") {
				dnsReplies = append(dnsReplies, x)
			}
		}
		suffix := sigSuffix(v, &q) + "+wire-" + ws.proto
		switch {
		case v.blocked:
			r.Count("wire." + ws.proto + ".ref.blocked." + v.class + "." + pb.sh.name)
			if next != 0 {
				r.Violate("blocked-request-reached-next:"+suffix, fmt.Sprintf("wire/%s: the property rejects this message (%s, shape %s) but the next "+
					"stage was called %d time(s)", ws.proto, v.class, pb.sh.name, next), replay())
			}
			switch {
			case len(dnsReplies) == 0:
				r.Count("wire." + ws.proto + ".blocked.silent")
				if ws.proto == "dnscrypt" || ws.proto == "doq" {
					r.Count("wire." + ws.proto + ".blocked.silent." + pb.sh.name + "." + ob.note)
				}
				if len(ob.replies) > 0 {
					r.Count("wire." + ws.proto + ".blocked." + ob.replies[0])
				}
			case srvVerdict != "" && srvVerdict != "ignored" && calls == 0 && len(dnsReplies) == 1 && dnsReplies[0] == srvVerdict:
				// Known finding: the server answers a message it does not accept before any
				// middleware — the access check included — has seen it.
				r.Violate(sigServerRejected, fmt.Sprintf("wire/%s: a %s message from a rejected client (%s) was answered %s by the server "+
					"itself; the handler was never called", ws.proto, pb.sh.name, v.class, dnsReplies[0]), replay())
			case (ws.proto == "doq" || ws.proto == "dnscrypt") && calls == 1 && !wrote && herr == nil && len(dnsReplies) == 1 &&
				dnsReplies[0] == "SERVFAIL" && (srvVerdict == "" || srvVerdict == "ignored"):
				// Known finding: the handler dropped the request silently and the protocol
				// server turned the silence into SERVFAIL.
				r.Violate(sigNoRespServfail, fmt.Sprintf("wire/%s: the handler dropped the rejected request (%s) without a response and without "+
					"an error, and the %s server answered SERVFAIL in its place", ws.proto, v.class, ws.proto), replay())
			case srvVerdict == "ignored" && (ws.proto == "doq" || ws.proto == "dnscrypt") && calls == 0 && len(dnsReplies) == 1 && dnsReplies[0] == "SERVFAIL":
				r.Violate(sigNoRespServfail, fmt.Sprintf("wire/%s: an ignored message (QR set) from a rejected client (%s) was answered SERVFAIL "+
					"by the %s server", ws.proto, v.class, ws.proto), replay())
			default:
				r.Violate("blocked-request-answered:"+suffix, fmt.Sprintf("wire/%s: the property rejects this message (%s, shape %s) but the "+
					"client received %v (handler calls %d, wrote %v, err %v)", ws.proto, v.class, pb.sh.name, ob.replies, calls, wrote, herr), replay())
			}
		case srvVerdict == "" && q.dev != "unk" && q.dev != "err" && q.ecs != 2 && ws.proto != "udp":
			r.Count("wire." + ws.proto + ".ref.unblocked.served")
			if len(dnsReplies) != 1 || dnsReplies[0] != "NOERROR" || next != 1 {
				r.Violate("unblocked-request-dropped:"+suffix, fmt.Sprintf("wire/%s: no rule rejects this request but the client received %v and the "+
					"next stage was called %d time(s)", ws.proto, ob.replies, next), replay())
			}
		default:
			r.Count(fmt.Sprintf("wire.%s.ref.unblocked.other%v", ws.proto, ob.replies))
		}
	}
	// Correspondence with the model's server layer.  UDP: positive evidence only (what arrived must be
	// a prefix-closed part of what the model sends); stream protocols: equality.
	answers := m.Batch(lines)[pre:]
	for j, rw := range rows {
		if !rw.judged {
			continue
		}
		fields := strings.Fields(answers[j])
		if len(fields) != 2 {
			r.Disagree("wire", fmt.Sprintf("wire/%s: model answered %q for %q", ws.proto, answers[j], lines[pre+j]), map[string]any{"ops": lines[:pre+j+1]})

			continue
		}
		var want []string
		if fields[0] != "-" {
			for _, x := range strings.Split(fields[0], ",") {
				if x == "NEXT" {
					x = "NOERROR"
				}
				want = append(want, x)
			}
		}
		got := rw.ob.replies
		ok := fmt.Sprint(got) == fmt.Sprint(want)
		if ws.proto == "udp" || ws.proto == "dnscrypt" && len(got) == 0 {
			// A lost or late datagram is not evidence: every reply seen must be expected.
			ok = true
			for _, x := range got {
				found := false
				for _, y := range want {
					found = found || x == y
				}
				ok = ok && found
			}
		}
		wantNext := fields[1] == "1"
		if ws.proto != "udp" && (rw.next == 1) != wantNext || ws.proto == "udp" && rw.next == 1 && !wantNext {
			ok = false
		}
		if !ok {
			r.Disagree("wire", fmt.Sprintf("wire/%s: real replies %v, next-stage calls %d; model %q for %q", ws.proto, got, rw.next, answers[j], lines[pre+j]),
				map[string]any{"campaign": "wire", "protocol": ws.proto, "config": c.describe(), "ops": append(append([]string{}, lines[:pre]...), lines[pre+j])})
		}
	}
	r.Case("wire;"+ws.proto+";"+strings.Join(lines, ";"), true)
	r.Traces++
}
