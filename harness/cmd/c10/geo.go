package main

import (
	"context"
	"fmt"
	"net/netip"
	"os"
	"path/filepath"

	"github.com/AdguardTeam/AdGuardDNS/internal/agd"
	"github.com/AdguardTeam/AdGuardDNS/internal/agdcache"
	"github.com/AdguardTeam/AdGuardDNS/internal/geoip"
	"github.com/AdguardTeam/AdGuardDNS/verifh/hlib"
	"github.com/AdguardTeam/golibs/container"
	"github.com/AdguardTeam/golibs/logutil/slogutil"
	"github.com/miekg/dns"
	"github.com/oschwald/maxminddb-golang"
)

// ---------------------------------------------------------------------------
// Campaign geo: the real middleware and access.DefaultProfile with the client's
// ASN coming from the real geoip.File over the repository's test databases
// ---------------------------------------------------------------------------
//
// The oracle does not ask geoip.File: it reads the ASN database once with the
// MaxMind reader, lists every network with its ASN and decides by longest
// prefix (refContains).  geoip.File caches locations per /24 (IPv4) and /56
// (IPv6): addresses whose cache block holds more than one database network are
// not generated (no routed prefix is that small; assumption in props).

// geoOverride replaces the per-request GeoIP fake of newFixture.
var geoOverride geoip.Interface

type asnNet struct {
	pref netip.Prefix
	asn  geoip.ASN
}

type geoDB struct {
	nets []asnNet
	file *geoip.File
}

func (g *geoDB) refASN(ip netip.Addr) (asn geoip.ASN) {
	best := -1
	for _, n := range g.nets {
		if refContains(n.pref, ip) && n.pref.Bits() > best {
			best, asn = n.pref.Bits(), n.asn
		}
	}

	return asn
}

// ambiguous: the address shares its cache block with a database network smaller than the block.
func (g *geoDB) ambiguous(ip netip.Addr) bool {
	blockBits := 24
	if !ip.Is4() {
		blockBits = 56
	}
	block := netip.PrefixFrom(ip, blockBits).Masked()
	for _, n := range g.nets {
		if n.pref.Addr().Is4() == ip.Is4() && n.pref.Bits() > blockBits && refContains(block, n.pref.Addr()) {
			return true
		}
	}

	return false
}

func openGeoDB() (g *geoDB, err error) {
	repo := os.Getenv("VERIF_REPO")
	if repo == "" {
		repo = "/repo"
	}
	dir := filepath.Join(repo, "internal", "geoip", "testdata")
	asnPath, ctryPath := filepath.Join(dir, "GeoIP2-ISP-Test.mmdb"), filepath.Join(dir, "GeoIP2-Country-Test.mmdb")
	rd, err := maxminddb.Open(asnPath)
	if err != nil {
		return nil, err
	}
	defer func() { _ = rd.Close() }()
	g = &geoDB{}
	it := rd.Networks(maxminddb.SkipAliasedNetworks)
	for it.Next() {
		var rec struct {
			ASN uint32 `maxminddb:"autonomous_system_number"`
		}
		ipn, nerr := it.Network(&rec)
		if nerr != nil {
			return nil, nerr
		}
		ones, _ := ipn.Mask.Size()
		a, ok := netip.AddrFromSlice(ipn.IP)
		if !ok {
			continue
		}
		if a.Is4In6() {
			a, ones = a.Unmap(), ones-96
		}
		if ones < 0 {
			continue
		}
		g.nets = append(g.nets, asnNet{netip.PrefixFrom(a, ones), geoip.ASN(rec.ASN)})
	}
	if it.Err() != nil {
		return nil, it.Err()
	}
	g.file = geoip.NewFile(&geoip.FileConfig{
		Logger:         slogutil.NewDiscardLogger(),
		CacheManager:   agdcache.EmptyManager{},
		AllTopASNs:     container.NewMapSet[geoip.ASN](),
		CountryTopASNs: map[geoip.Country]geoip.ASN{},
		ASNPath:        asnPath,
		CountryPath:    ctryPath,
		HostCacheCount: 0,
		IPCacheCount:   64,
	})
	ctx, cancel := context.WithTimeout(context.Background(), 20e9)
	defer cancel()
	if err = g.file.Refresh(ctx); err != nil {
		return nil, err
	}

	return g, nil
}

func geoCampaign(o *hlib.Opts, r *hlib.Result, m *hlib.Model) {
	g, err := openGeoDB()
	if err != nil {
		r.Notes = append(r.Notes, "geo: cannot open the test GeoIP databases, campaign skipped: "+err.Error())

		return
	}
	var withASN []asnNet
	for _, n := range g.nets {
		if n.asn != 0 {
			withASN = append(withASN, n)
		}
	}
	r.Notes = append(r.Notes, fmt.Sprintf("geo: %d networks in the ASN test database, %d with an ASN", len(g.nets), len(withASN)))
	if len(withASN) == 0 {
		return
	}
	geoOverride = g.file
	defer func() { geoOverride = nil }()
	rng := o.Rand("geo")
	n := 400
	if o.Thorough() {
		n = 5000
	}
	pickASN := func() geoip.ASN {
		if rng.IntN(6) == 0 {
			return asnPool[rng.IntN(len(asnPool))]
		}

		return withASN[rng.IntN(len(withASN))].asn
	}
	for i := 0; i < n; i++ {
		c := genCfg(rng, 2)
		for _, p := range c.profs {
			p.aa, p.ba = nil, nil
			for j := rng.IntN(3); j > 0; j-- {
				p.ba = append(p.ba, pickASN())
			}
			for j := rng.IntN(2); j > 0; j-- {
				p.aa = append(p.aa, pickASN())
			}
			if rng.IntN(3) == 0 {
				// A subnet of the database on the allowed or the blocked side.
				dn := withASN[rng.IntN(len(withASN))].pref
				if rng.IntN(2) == 0 {
					p.an = append(p.an, dn)
				} else {
					p.bn = append(p.bn, dn)
				}
			}
		}
		var dbNets []netip.Prefix
		for j := 0; j < 4; j++ {
			dbNets = append(dbNets, withASN[rng.IntN(len(withASN))].pref)
		}
		var qs []*request
		for j := 6 + rng.IntN(10); j > 0; j-- {
			q := genRequest(rng, c, []string{"nil", "ok:0", "ok:0", "ok:1", "ok:1", "empty"})
			if rng.IntN(4) > 0 {
				ip := genAddrNear(rng, dbNets)
				q.remote = netip.AddrPortFrom(ip, max(q.remote.Port(), 1))
			}
			if g.ambiguous(q.eff()) {
				r.Count("geo.skipped-ambiguous-cache-block")

				continue
			}
			// What the database says, read independently: never "no location".
			q.loc = &geoip.Location{ASN: g.refASN(q.eff())}
			if q.loc.ASN != 0 {
				r.Count("geo.client-with-asn")
			}
			qs = append(qs, q)
		}
		runMwCase(r, m, "geo", c, qs, agd.ProtoDNS)
	}
	_ = dns.TypeA
}
