package main

// Fourth deepening: what lies between the configuration file and the access
// engines, and between the engines and every server.
//
//   - rx: regular-expression rules.  access.lowerRule (hook VerifC10LowerRule)
//     against the model's lowerRuleL on rule texts of every shape, and the
//     verdicts of access.Global / access.DefaultProfile / the middleware for
//     rules of the fragment /^item…$/ (literals in both cases, \d \D \w \W \s \S,
//     escaped punctuation, +) against an oracle that reads the *configured*
//     text with Go's regexp package, and against the model's rxRuleBlocks.
//   - yaml: the access section of the configuration file through the real
//     yaml.Unmarshal, accessConfig.validate and builder.initAccess (hook
//     cmd.VerifC10Global): subnets written as prefixes (masked or not), bare
//     addresses (also zoned), upper-case and expanded IPv6, empty entries,
//     entries that must stop the program; rules of the whole grammar; the
//     resulting manager is handed to dnssvc.NewHandlers with several server
//     groups (profiles on/off) and servers of every protocol, and every handler
//     must drop what the file blocks — also when GeoIP fails and when the
//     request context is already cancelled or past its deadline.

import (
	"context"
	"fmt"
	"math/rand/v2"
	"net"
	"net/netip"
	"net/url"
	"regexp"
	"strconv"
	"strings"
	"sync/atomic"
	"time"

	"github.com/AdguardTeam/AdGuardDNS/internal/access"
	"github.com/AdguardTeam/AdGuardDNS/internal/agd"
	"github.com/AdguardTeam/AdGuardDNS/internal/agdcache"
	"github.com/AdguardTeam/AdGuardDNS/internal/agdtest"
	"github.com/AdguardTeam/AdGuardDNS/internal/cmd"
	"github.com/AdguardTeam/AdGuardDNS/internal/dnsserver"
	"github.com/AdguardTeam/AdGuardDNS/internal/dnssvc"
	"github.com/AdguardTeam/AdGuardDNS/internal/filter"
	"github.com/AdguardTeam/AdGuardDNS/internal/filter/hashprefix"
	"github.com/AdguardTeam/AdGuardDNS/internal/geoip"
	"github.com/AdguardTeam/AdGuardDNS/internal/querylog"
	"github.com/AdguardTeam/AdGuardDNS/verifh/hlib"
	"github.com/AdguardTeam/AdGuardDNS/verifh/hlib/stack"
	"github.com/AdguardTeam/golibs/logutil/slogutil"
	"github.com/AdguardTeam/golibs/netutil"
	"github.com/miekg/dns"
	"github.com/prometheus/client_golang/prometheus"
)

// pts renders a text for the model's line protocol: dot-separated code points.
func pts(s string) string {
	if s == "" {
		return "-"
	}
	var out []string
	for _, c := range []byte(s) {
		out = append(out, strconv.Itoa(int(c)))
	}

	return strings.Join(out, ".")
}

func unpts(s string) string {
	if s == "-" {
		return ""
	}
	var b []byte
	for _, x := range strings.Split(s, ".") {
		n, _ := strconv.Atoi(x)
		b = append(b, byte(n))
	}

	return string(b)
}

// ---------------------------------------------------------------------------
// Campaign rx
// ---------------------------------------------------------------------------

type rxItem struct {
	atom string // one character, or a backslash and one character
	plus bool
}

type rxRule struct {
	items []rxItem
	allow bool
	pad   bool
	// opts is the option text after "$" as configured; typ/neg what it means.
	opts string
	typ  uint16
	neg  bool
}

var rxAtoms = []string{"a", "b", "c", "A", "B", "Z", "0", "7", "-", "_", `\d`, `\D`, `\w`, `\W`, `\s`, `\S`, `\.`, `\-`, `\d`, `\D`, `\W`, `\S`,
	"blk", "BLK", "Test", "x9", `\.`, `\.`}

// sigRxShortcut is the signature of the known defect of the dependency: urlfilter looks for the longest
// run of ordinary characters in a regular expression and demands it in the name before it tries the
// expression, but it splits at the backslash only, so that the letter of \d, \w, \s … counts as an ordinary
// character: /^\d+$/ demands a "d" in the name and never matches 123.
const sigRxShortcut = "name-verdict:regex-rule+escape-before-longest-literal"

// rxEscapeBeforeLongestLiteral names that input class from the rule text alone: the first longest run of
// characters that are not special in a regular expression starts right after a backslash.
func rxEscapeBeforeLongestLiteral(body string) bool {
	body = "^" + body + "$"
	longest, at, start := "", -1, 0
	for i := 0; i <= len(body); i++ {
		if i == len(body) || strings.IndexByte(`\^$*+?.()|[]{}`, body[i]) >= 0 {
			if i-start > len(longest) {
				longest, at = body[start:i], start
			}
			start = i + 1
		}
	}

	return at > 0 && body[at-1] == '\\'
}

func genRxRule(rng *rand.Rand) (ru rxRule) {
	for n := 1 + rng.IntN(4); n > 0; n-- {
		ru.items = append(ru.items, rxItem{rxAtoms[rng.IntN(len(rxAtoms))], rng.IntN(3) == 0})
	}
	if rng.IntN(2) == 0 {
		// Most interesting names look like names.
		ru.items = append(ru.items, rxItem{`\.`, false}, rxItem{"t", false})
	}
	ru.allow = rng.IntN(8) == 0
	ru.pad = rng.IntN(6) == 0
	switch rng.IntN(8) {
	case 0:
		ru.opts, ru.typ = "dnstype=TXT", dns.TypeTXT
	case 1:
		ru.opts, ru.typ, ru.neg = "DNSTYPE=~TXT", dns.TypeTXT, true
	case 2:
		ru.opts = "Important"
	}

	return ru
}

func (ru rxRule) body() string {
	b := ""
	for _, it := range ru.items {
		b += it.atom
		if it.plus {
			b += "+"
		}
	}

	return b
}

func (ru rxRule) text() string {
	t := "/^" + ru.body() + "$/"
	if ru.allow {
		t = "@@" + t
	}
	if ru.opts != "" {
		t += "$" + ru.opts
	}
	if ru.pad {
		t = " \t" + t + "  "
	}

	return t
}

// refRxBlocks: the rule as configured, read with Go's regexp package (urlfilter
// matches regular-expression rules case-insensitively), rejects the name.
func refRxBlocks(ru rxRule, host string, qt uint16) bool {
	applies := regexp.MustCompile("(?i)^"+ru.body()+"$").MatchString(host) && !(ru.typ != 0 && (qt == ru.typ) == ru.neg)
	if ru.allow {
		// Next to the rule that blocks every name: rejected unless the exception applies.
		return !applies
	}

	return applies
}

// genRxHost draws a name that matches the items, then perhaps spoils it.
func genRxHost(rng *rand.Rand, ru rxRule) string {
	pick := func(s string) byte { return s[rng.IntN(len(s))] }
	var b []byte
	for _, it := range ru.items {
		n := 1
		if it.plus {
			n += rng.IntN(3)
		}
		for first := true; n > 0; n, first = n-1, false {
			switch it.atom {
			case `\d`:
				b = append(b, pick("0379"))
			case `\D`:
				b = append(b, pick("abz-_"))
			case `\w`:
				b = append(b, pick("az09_"))
			case `\W`:
				b = append(b, pick("-."))
			case `\s`:
				b = append(b, 'x')
			case `\S`:
				b = append(b, pick("a0-_"))
			default:
				if first {
					b = append(b, strings.TrimPrefix(it.atom, `\`)...)
				} else {
					b = append(b, it.atom[len(it.atom)-1])
				}
			}
		}
	}
	switch rng.IntN(5) {
	case 0:
		if len(b) > 0 {
			b[rng.IntN(len(b))] = pick("a5-_.z")
		}
	case 1:
		b = append(b, pick("a5-"))
	case 2:
		if len(b) > 1 {
			b = b[1:]
		}
	}

	return strings.Trim(strings.ToLower(string(b)), ".")
}

// otherRuleTexts: rule texts that are no regular expressions, or only look
// like one, for the comparison of lowerRule with the model.
var otherRuleTexts = []string{"||Example.ORG^", "@@||X.test^$Important", "/Path", "/", "//", "@@/", "@@", "@", "", "  ", "Host.Test",
	"0.0.0.0 A.test B.test", "/A/B", "/^A$/$DNSTYPE=A", " /^\\D$/ ", "\t@@/^\\W+$/$dnstype=~A\r", "|HTTP://x/Y/", "! /Comment/", "# X", "@@@/A/",
	"/A\\/B/", "/^A$/$denyallow=X.test|Y/z", "*$dnstype=NS", "||a.test^$DNSTYPE=a|Aaaa"}

func rxCampaign(o *hlib.Opts, r *hlib.Result, m *hlib.Model) {
	rng := o.Rand("rx")
	n := 400
	if o.Thorough() {
		n = 6000
	}
	ctx := context.Background()
	var lines, real []string
	var what []string
	flush := func() {
		answers := m.Batch(lines)
		for i := range lines {
			if answers[i] != real[i] {
				r.Disagree("rx", fmt.Sprintf("rx: %s: real=%q model=%q", what[i], real[i], answers[i]),
					map[string]any{"campaign": "rx", "what": what[i], "ops": []string{lines[i]}})

				break
			}
		}
		lines, real, what = nil, nil, nil
	}
	// The known defect of the dependency, reproduced in every run: /^\d+$/ never matches 123.
	if g, err := access.NewGlobal([]string{`/^\d+$/`}, nil); err == nil && !g.IsBlockedHost("123", dns.TypeA) {
		r.Violate(sigRxShortcut, "rx: the global rule /^\\d+$/ as configured rejects \"123\", the engine does not (urlfilter demands the shortcut \"d\" in the name)",
			map[string]any{"campaign": "rx", "rule": `/^\d+$/`, "host": "123", "qtype": dns.TypeA, "want_blocked": true})
	}
	for _, t := range otherRuleTexts {
		lines, real, what = append(lines, "lrule "+pts(t)), append(real, pts(access.VerifC10LowerRule(t))), append(what, fmt.Sprintf("lowerRule(%q)", t))
		r.Count("rx.lower-rule.other-shapes")
	}
	for i := 0; i < n; i++ {
		ru := genRxRule(rng)
		text := ru.text()
		lines, real, what = append(lines, "lrule "+pts(text)), append(real, pts(access.VerifC10LowerRule(text))), append(what, fmt.Sprintf("lowerRule(%q)", text))
		// An exception rule shows only against a rule that blocks: "everything of these three types".
		ruleList := []string{"||always.blk^", text}
		if ru.allow {
			ruleList = append(ruleList, "*$dnstype=A|AAAA|TXT")
		}
		g, err := access.NewGlobal(ruleList, nil)
		hlib.Must(err)
		prof := access.NewDefaultProfile(&access.ProfileConfig{BlocklistDomainRules: ruleList[1:]})
		upper := strings.ToLower(text) != text
		shortcutDefect := rxEscapeBeforeLongestLiteral(ru.body())
		if shortcutDefect {
			r.Count("rx.input.escape-before-longest-literal")
		}
		nB, nP := 0, 0
		for j := 0; j < 6; j++ {
			host := genRxHost(rng, ru)
			if host == "" {
				continue
			}
			qt := []uint16{dns.TypeA, dns.TypeTXT, dns.TypeAAAA}[rng.IntN(3)]
			want := refRxBlocks(ru, host, qt)
			replay := func() any {
				return map[string]any{"campaign": "rx", "rule": text, "host": host, "qtype": qt, "want_blocked": want}
			}
			cls := "regex-rule"
			if upper {
				cls = "regex-rule+upper-case"
			}
			gotG := guarded(r, "Global.IsBlockedHost", replay, func() bool { return g.IsBlockedHost(host, qt) })
			if shortcutDefect && (want != ru.allow) && (gotG == ru.allow) {
				r.Violate(sigRxShortcut, fmt.Sprintf("rx: rule %q as configured rejects %q, the engine does not (known defect of urlfilter's "+
					"shortcut extraction)", text, host), replay())
			} else if gotG != want {
				r.Violate("global-name-verdict:"+cls, fmt.Sprintf("rx: global rule %q as configured %s %q (qtype %d), Global.IsBlockedHost = %v",
					text, map[bool]string{true: "rejects", false: "does not reject"}[want], host, qt, gotG), replay())
			}
			qname := host + "."
			if rng.IntN(2) == 0 {
				qname = strings.ToUpper(qname)
			}
			msg := &dns.Msg{Question: []dns.Question{{Name: qname, Qtype: qt, Qclass: dns.ClassINET}}}
			gotP := guarded(r, "DefaultProfile.IsBlocked", replay, func() bool {
				return prof.IsBlocked(msg, netip.MustParseAddrPort("9.9.9.9:4000"), nil)
			})
			if shortcutDefect && (want != ru.allow) && (gotP == ru.allow) {
				r.Count("rx.known.profile-missed")
			} else if gotP != want {
				r.Violate("profile-verdict:"+cls, fmt.Sprintf("rx: profile rule %q as configured %s %q (qtype %d), DefaultProfile.IsBlocked = %v",
					text, map[bool]string{true: "rejects", false: "does not reject"}[want], qname, qt, gotP), replay())
			}
			if !ru.allow && ru.opts == "" && !shortcutDefect {
				lines, real, what = append(lines, fmt.Sprintf("rxblk %s %s", pts(text), pts(host))), append(real, b2s(gotG)),
					append(what, fmt.Sprintf("rule %q name %q", text, host))
			}
			if want {
				nB++
				r.Count("rx.ref.blocked")
			} else {
				nP++
				r.Count("rx.ref.passed")
			}
			if upper {
				r.Count("rx.input.upper-case-in-regex")
			}
			if j == 0 && !shortcutDefect {
				// End to end: dropped silently or processed normally by the middleware.
				rxThroughMw(ctx, r, ruleList, qname, qt, want, replay)
			}
		}
		r.Case("rx;"+text, nB > 0 && nP > 0)
		r.Count("rx.cases")
		if len(lines) > 400 {
			flush()
		}
	}
	flush()
	r.Traces++
}

// rxThroughMw: one request through the real middleware with the rules as the
// global rules.
func rxThroughMw(ctx context.Context, r *hlib.Result, texts []string, qname string, qt uint16, want bool, replay func() any) {
	c := &cfg{profs: []*pcfg{{}, {}}}
	for _, t := range texts {
		c.grules = append(c.grules, rule{kind: 'j', junk: t})
	}
	text := strings.Join(texts, " , ")
	f := newFixture(c, agd.ProtoDNS)
	q := &request{remote: netip.MustParseAddrPort("9.9.9.9:4000"), qname: qname, qtype: qt, dev: "nil"}
	ob := f.serve(ctx, q)
	switch {
	case ob.panicked != nil:
		r.Violate("panic:regex-rule", fmt.Sprintf("rx: middleware panicked: %v", ob.panicked), replay())
	case want && (ob.resp != nil || ob.next != 0 || ob.lim != 0 || ob.err != nil):
		r.Violate("blocked-request-answered:global-name+regex-rule", fmt.Sprintf("rx: the global rule %q rejects %q but resp=%v next=%d "+
			"limiter=%d err=%v", text, qname, ob.resp != nil, ob.next, ob.lim, ob.err), replay())
	case !want && (ob.resp == nil || ob.next != 1):
		r.Violate("unblocked-request-dropped:no-rule+regex-rule", fmt.Sprintf("rx: the global rule %q does not reject %q but resp=%v next=%d",
			text, qname, ob.resp != nil, ob.next), replay())
	}
	r.Count("rx.mw.requests")
}

// ---------------------------------------------------------------------------
// Campaign yaml
// ---------------------------------------------------------------------------

// yamlNet is one entry of blocked_client_subnets.
type yamlNet struct {
	text string
	// p is what the entry means (oracle): a prefix; valid false: the program must not start.
	p     netip.Prefix
	valid bool
	// empty: the empty string, which covers nobody.
	empty bool
	bare  bool
	// tooLong: a well-formed address with a prefix length beyond its width (the one rejection the model knows).
	tooLong bool
}

func genYamlNet(rng *rand.Rand) (y yamlNet) {
	p := genPrefix(rng)
	y = yamlNet{p: p, valid: true}
	switch x := rng.IntN(20); {
	case x < 8:
		y.text = p.String()
	case x < 12:
		// A bare address: exactly that client.
		y.bare, y.p = true, netip.PrefixFrom(p.Addr(), p.Addr().BitLen())
		y.text = p.Addr().String()
		if p.Addr().Is6() && !p.Addr().Is4In6() && rng.IntN(3) == 0 {
			y.text += "%eth0"
		}
	case x < 14:
		y.text = strings.ToUpper(p.String())
		if p.Addr().Is6() && !p.Addr().Is4In6() {
			y.text = strings.ToUpper(p.Addr().StringExpanded()) + "/" + strconv.Itoa(p.Bits())
		}
	case x == 14:
		y.text, y.empty = "", true
	case x == 15:
		y.text, y.valid, y.tooLong = p.Addr().String()+"/"+strconv.Itoa(p.Addr().BitLen()+1+rng.IntN(3)), false, true
	case x == 16:
		y.text, y.valid = []string{"10.1.2/24", "10.1.2.0/-1", "10.1.2.0/", "fe80::1%eth0/64", "example.test", "10.1.2.0/24/1", "10.1.2.256",
			"10.1.2.0/08", "1.2.3.4 ", "010.1.2.3"}[rng.IntN(10)], false
	default:
		y.text = p.String()
	}

	return y
}

// yq quotes a YAML scalar (double-quoted style understands Go's escapes for ASCII).
func yq(s string) string { return strconv.Quote(s) }

func yamlCampaign(o *hlib.Opts, r *hlib.Result, m *hlib.Model) {
	rng := o.Rand("yaml")
	n := 500
	if o.Thorough() {
		n = 5000
	}
	for i := 0; i < n; i++ {
		runYamlCase(r, m, rng, i)
	}
	// The distributed configuration file itself: 1.2.3.0/8 (unmasked) and test.org.
	dist := "access:\n    blocked_question_domains:\n        - 'test.org'\n    blocked_client_subnets:\n        - '1.2.3.0/8'\n"
	g, err := cmd.VerifC10Global([]byte(dist))
	if err != nil || !g.IsBlockedIP(netip.MustParseAddr("1.200.0.1")) || g.IsBlockedIP(netip.MustParseAddr("2.2.3.0")) ||
		!g.IsBlockedHost("test.org", dns.TypeA) || g.IsBlockedHost("xtest.org", dns.TypeA) {
		r.Violate("global-subnet-verdict:from-yaml+dist", fmt.Sprintf("yaml: the access section of config.dist.yaml is not applied as written (err %v)", err),
			map[string]any{"campaign": "yaml", "yaml": dist})
	}
	_, err = cmd.VerifC10Global([]byte("cache:\n    type: simple\n"))
	if err == nil {
		r.Violate("yaml:missing-access-section-accepted", "yaml: a configuration file without an access section passed validation",
			map[string]any{"campaign": "yaml"})
	}
	r.Count("yaml.fixed-cases")
}

func runYamlCase(r *hlib.Result, m *hlib.Model, rng *rand.Rand, idx int) {
	var nets []yamlNet
	for k := rng.IntN(5); k > 0; k-- {
		nets = append(nets, genYamlNet(rng))
	}
	rules := genRules(rng, 4)
	var sb strings.Builder
	sb.WriteString("access:\n")
	omitRules := len(rules) == 0 && rng.IntN(2) == 0
	if !omitRules {
		sb.WriteString("    blocked_question_domains:")
		if len(rules) == 0 {
			sb.WriteString(" []")
		}
		sb.WriteString("\n")
		for _, ru := range rules {
			sb.WriteString("        - " + yq(ru.text()) + "\n")
		}
	}
	if !(len(nets) == 0 && rng.IntN(2) == 0) {
		sb.WriteString("    blocked_client_subnets:")
		if len(nets) == 0 {
			sb.WriteString(" []")
		}
		sb.WriteString("\n")
		for _, y := range nets {
			sb.WriteString("        - " + yq(y.text) + "\n")
		}
	}
	if len(nets) == 0 && omitRules {
		// An access section without keys is a null value.
		sb.WriteString("    blocked_client_subnets: []\n")
	}
	doc := sb.String()
	replay := func(extra map[string]any) map[string]any {
		extra["campaign"], extra["yaml"] = "yaml", doc

		return extra
	}
	wantOK := true
	for _, y := range nets {
		wantOK = wantOK && y.valid
	}
	var g *access.Global
	var err error
	func() {
		defer func() {
			if p := recover(); p != nil {
				err = fmt.Errorf("panic: %v", p)
				r.Violate("panic:yaml", fmt.Sprintf("yaml: building the access manager panicked: %v", p), replay(map[string]any{}))
			}
		}()
		g, err = cmd.VerifC10Global([]byte(doc))
	}()
	lines := []string{"reset"}
	var want []string
	for _, y := range nets {
		switch {
		case y.empty:
			continue
		case !y.valid:
			// Only the width rule is modelled; other malformed texts are the oracle's alone.
			if y.tooLong {
				lines, want = append(lines, fmt.Sprintf("ynet %s %s", addrArgs(y.p.Addr()), y.text[strings.IndexByte(y.text, '/')+1:])), append(want, "rejected")
			}
		case y.bare:
			lines, want = append(lines, fmt.Sprintf("ynet %s -", addrArgs(y.p.Addr()))), append(want, "ok")
		default:
			lines, want = append(lines, fmt.Sprintf("ynet %s", prefArgs(y.p))), append(want, "ok")
		}
	}
	if !wantOK {
		r.Count("yaml.ref.invalid-subnet")
		if err == nil {
			r.Violate("yaml:invalid-subnet-accepted", "yaml: an entry of blocked_client_subnets is no address and no prefix, but the "+
				"access manager was built (whom does it block?)", replay(map[string]any{}))
		}
		answers := m.Batch(lines)
		for i, w := range want {
			if answers[i+1] != w {
				r.Disagree("yaml", fmt.Sprintf("yaml: model=%q want %q for %q", answers[i+1], w, lines[i+1]), replay(map[string]any{"ops": lines}))
			}
		}
		r.Case("yaml;"+doc, false)

		return
	}
	if err != nil {
		r.Violate("yaml:valid-access-section-rejected", fmt.Sprintf("yaml: every entry is an address or a prefix, but: %v", err), replay(map[string]any{}))

		return
	}
	var pfx []netip.Prefix
	for _, y := range nets {
		if !y.empty {
			pfx = append(pfx, y.p)
		}
		switch {
		case y.empty:
			r.Count("yaml.input.empty-entry")
		case y.bare:
			r.Count("yaml.input.bare-address")
		case y.p != y.p.Masked():
			r.Count("yaml.input.unmasked-prefix")
		default:
			r.Count("yaml.input.prefix")
		}
	}
	c := &cfg{gnets: pfx, grules: rules, profs: []*pcfg{{}, {}}}
	for _, ru := range rules {
		if ru.kind != 'j' {
			lines, want = append(lines, "grule "+ru.args()), append(want, "ok")
		}
	}
	nB, nP := 0, 0
	var real []string
	for j := 0; j < 8; j++ {
		ip := genAddrNear(rng, pfx)
		if ip.Is6() && rng.IntN(5) == 0 {
			ip = ip.WithZone("eth0")
		}
		wantB := refInNets(pfx, ip)
		got := guarded(r, "Global.IsBlockedIP", func() any { return replay(map[string]any{"ip": ip.String()}) }, func() bool { return g.IsBlockedIP(ip) })
		if got != wantB {
			r.Violate("global-subnet-verdict:from-yaml", fmt.Sprintf("yaml: blocked_client_subnets as written %s %v, the access manager built "+
				"from the file says %v", map[bool]string{true: "cover", false: "do not cover"}[wantB], ip, got), replay(map[string]any{"ip": ip.String()}))
		}
		lines, want, real = append(lines, "gip "+addrArgs(ip)), append(want, ""), append(real, b2s(got))
		qname := genName(rng, rules)
		qt := qtypePool[rng.IntN(len(qtypePool))]
		host := refHost(qname)
		wantN := refNameBlocked(rules, qname, qt)
		gotN := guarded(r, "Global.IsBlockedHost", func() any { return replay(map[string]any{"host": host, "qtype": qt}) }, func() bool { return g.IsBlockedHost(host, qt) })
		if gotN != wantN {
			r.Violate("global-name-verdict:from-yaml", fmt.Sprintf("yaml: blocked_question_domains as written %s %q type %d, the access manager "+
				"built from the file says %v", map[bool]string{true: "reject", false: "do not reject"}[wantN], host, qt, gotN),
				replay(map[string]any{"host": host, "qtype": qt}))
		}
		if !strings.ContainsAny(host, " \t") {
			lines, want, real = append(lines, fmt.Sprintf("ghost %s %d", dash(host), qt)), append(want, ""), append(real, b2s(gotN))
		}
		if wantB || wantN {
			nB++
		} else {
			nP++
		}
	}
	answers := m.Batch(lines)
	k := 0
	for i := 1; i < len(lines); i++ {
		w := want[i-1]
		if w == "" {
			w, k = real[k], k+1
		}
		if answers[i] != w {
			r.Disagree("yaml", fmt.Sprintf("yaml: real/expected=%q model=%q for %q", w, answers[i], lines[i]), replay(map[string]any{"ops": lines[:i+1]}))

			break
		}
	}
	if idx%4 == 0 {
		wiredHandlers(r, rng, c, g, doc)
	}
	r.Case("yaml;"+doc, nB > 0 && nP > 0)
	r.Count("yaml.cases")
	if nB > 0 && nP > 0 && idx%50 == 0 {
		r.Sample(map[string]any{"campaign": "yaml", "yaml": doc, "ops": truncate(lines, 10)}, 9)
	}
	r.Traces++
}

// ---------------------------------------------------------------------------
// The manager built from the file behind every server of every server group
// ---------------------------------------------------------------------------

var wiredNS atomic.Int64

// wiredHandlers builds the production handlers (dnssvc.NewHandlers) for two
// server groups — profiles enabled and disabled — with servers of all six
// protocols, gives them the access manager built from the configuration file,
// and sends a few requests to every handler; some with a failing GeoIP
// database, some with a request context that is cancelled or past its deadline.
func wiredHandlers(r *hlib.Result, rng *rand.Rand, c *cfg, g *access.Global, doc string) {
	var touched atomic.Int64
	var geoFail bool
	cloner := agdtest.NewCloner()
	geo := agdtest.NewGeoIP()
	loc := &geoip.Location{Country: geoip.CountryAD, Continent: geoip.ContinentEU, ASN: 64512}
	geo.OnData = func(string, netip.Addr) (*geoip.Location, error) {
		if geoFail {
			return nil, fmt.Errorf("verif: geoip database is being replaced")
		}

		return loc, nil
	}
	geo.OnSubnetByLocation = func(_ *geoip.Location, fam netutil.AddrFamily) (netip.Prefix, error) {
		if fam == netutil.AddrFamilyIPv6 {
			return netip.MustParsePrefix("2001:db8::/48"), nil
		}

		return netip.MustParsePrefix("198.51.100.0/24"), nil
	}
	flt := &agdtest.Filter{
		OnFilterRequest:  func(context.Context, *filter.Request) (filter.Result, error) { touched.Add(1); return nil, nil },
		OnFilterResponse: func(context.Context, *filter.Response) (filter.Result, error) { touched.Add(1); return nil, nil },
	}
	protos := []agd.Protocol{agd.ProtoDNS, agd.ProtoDoT, agd.ProtoDoH, agd.ProtoDoQ, agd.ProtoDNSCrypt}
	var groups []*agd.ServerGroup
	for gi, name := range []string{"verif_group_profiles", "verif_group_plain", "verif_group_second"} {
		var srvs []*agd.Server
		for _, p := range protos {
			if gi == 2 && rng.IntN(2) == 0 {
				continue
			}
			srvs = append(srvs, stack.NewServer(fmt.Sprintf("%s_%v", name, p), p, gi == 0))
		}
		groups = append(groups, &agd.ServerGroup{DDR: &agd.DDR{}, DeviceDomains: []string{stack.DeviceDomain}, Name: agd.ServerGroupName(name),
			FilteringGroup: agd.FilteringGroupID(fmt.Sprintf("fg%d", gi%2)), Servers: srvs, ProfilesEnabled: gi == 0})
	}
	fgs := map[agd.FilteringGroupID]*agd.FilteringGroup{}
	for _, id := range []agd.FilteringGroupID{"fg0", "fg1"} {
		fgs[id] = &agd.FilteringGroup{ID: id, FilterConfig: &filter.ConfigGroup{Parental: &filter.ConfigParental{}, RuleList: &filter.ConfigRuleList{},
			SafeBrowsing: &filter.ConfigSafeBrowsing{}}}
	}
	prometheus.DefaultRegisterer = prometheus.NewRegistry()
	hc := &dnssvc.HandlersConfig{
		BaseLogger:       slogutil.NewDiscardLogger(),
		Cache:            &dnssvc.CacheConfig{Type: dnssvc.CacheTypeSimple, NoECSCount: 100, MinTTL: time.Second},
		StructuredErrors: agdtest.NewSDEConfig(true),
		Cloner:           cloner,
		HumanIDParser:    agd.NewHumanIDParser(),
		Messages:         newMessages(),
		AccessManager:    g,
		BillStat: &agdtest.BillStatRecorder{OnRecord: func(context.Context, agd.DeviceID, geoip.Country, geoip.ASN, time.Time, agd.Protocol) {
			touched.Add(1)
		}},
		CacheManager: agdcache.EmptyManager{},
		DNSCheck:     &agdtest.DNSCheck{OnCheck: func(context.Context, *dns.Msg, *agd.RequestInfo) (*dns.Msg, error) { return nil, nil }},
		DNSDB:        &agdtest.DNSDB{OnRecord: func(context.Context, *dns.Msg, *agd.RequestInfo) { touched.Add(1) }},
		ErrColl:      &agdtest.ErrorCollector{OnCollect: func(context.Context, error) {}},
		FilterStorage: &agdtest.FilterStorage{OnForConfig: func(context.Context, filter.Config) filter.Interface { return flt },
			OnHasListID: func(filter.ID) bool { return true }},
		GeoIP:                geo,
		Handler:              stack.DefaultUpstream(nil),
		HashMatcher:          hashprefix.NewMatcher(nil),
		ProfileDB:            stack.NotFoundProfileDB(),
		PrometheusRegisterer: prometheus.NewRegistry(),
		QueryLog:             &agdtest.QueryLog{OnWrite: func(context.Context, *querylog.Entry) error { touched.Add(1); return nil }},
		RateLimit: &agdtest.RateLimit{
			OnIsRateLimited:  func(context.Context, *dns.Msg, netip.Addr) (bool, bool, error) { touched.Add(1); return false, false, nil },
			OnCountResponses: func(context.Context, *dns.Msg, netip.Addr) { touched.Add(1) },
		},
		RuleStat:         &agdtest.RuleStat{OnCollect: func(context.Context, filter.ID, filter.RuleText) { touched.Add(1) }},
		MetricsNamespace: fmt.Sprintf("verifc10w%d", wiredNS.Add(1)),
		FilteringGroups:  fgs,
		ServerGroups:     groups,
		EDEEnabled:       true,
	}
	handlers, err := dnssvc.NewHandlers(context.Background(), hc)
	hlib.Must(err)
	for _, grp := range groups {
		for _, srv := range grp.Servers {
			h, ok := handlers[dnssvc.HandlerKey{Server: srv, ServerGroup: grp}]
			if !ok {
				r.Violate("wired:no-handler", fmt.Sprintf("no handler for server %s of group %s", srv.Name, grp.Name), map[string]any{"campaign": "yaml"})

				continue
			}
			for j := 0; j < 3; j++ {
				q := genRequest(rng, c, []string{"nil"})
				q.ecs, q.qclass, q.dev = 0, 0, "nil"
				if q.remote.Port() == 0 {
					q.remote = netip.AddrPortFrom(q.remote.Addr(), 4000)
				}
				q.loc = loc
				v := refVerdict(c, q)
				fault := []string{"", "", "geoip-error", "ctx-cancelled", "ctx-deadline"}[rng.IntN(5)]
				geoFail = fault == "geoip-error"
				ctx := context.Background()
				var cancel context.CancelFunc = func() {}
				switch fault {
				case "ctx-cancelled":
					ctx, cancel = context.WithCancel(ctx)
					cancel()
				case "ctx-deadline":
					ctx, cancel = context.WithDeadline(ctx, time.Unix(1, 0))
				}
				ctx = dnsserver.ContextWithServerInfo(ctx, &dnsserver.ServerInfo{Name: string(srv.Name), Addr: "192.0.2.2:53", Proto: srv.Protocol})
				ctx = dnsserver.ContextWithRequestInfo(ctx, &dnsserver.RequestInfo{StartTime: time.Now(), URL: &url.URL{Path: "/dns-query"}})
				var laddr, raddr net.Addr
				if srv.Protocol == agd.ProtoDNS {
					laddr, raddr = net.UDPAddrFromAddrPort(netip.MustParseAddrPort("192.0.2.2:53")), net.UDPAddrFromAddrPort(q.remote)
				} else {
					laddr, raddr = net.TCPAddrFromAddrPort(netip.MustParseAddrPort("192.0.2.2:53")), net.TCPAddrFromAddrPort(q.remote)
				}
				rw := dnsserver.NewNonWriterResponseWriter(laddr, raddr)
				before := touched.Load()
				var herr error
				var panicked any
				func() {
					defer func() { panicked = recover() }()
					herr = h.ServeDNS(ctx, rw, q.msg())
				}()
				cancel()
				delta := touched.Load() - before
				suffix := v.class + "+wired"
				if fault != "" {
					suffix += "+" + fault
				}
				replay := map[string]any{"campaign": "yaml", "yaml": doc, "server": string(srv.Name), "group": string(grp.Name), "request": q.line(),
					"remote": q.remote.String(), "fault": fault}
				r.Count(fmt.Sprintf("wired.%v.%s", srv.Protocol, map[bool]string{true: "blocked", false: "unblocked"}[v.blocked]))
				if fault != "" {
					r.Count("wired.fault." + fault + "." + map[bool]string{true: "blocked", false: "unblocked"}[v.blocked])
				}
				switch {
				case panicked != nil:
					r.Violate("panic:"+suffix, fmt.Sprintf("wired: handler of %s panicked: %v", srv.Name, panicked), replay)
				case v.blocked && rw.Msg() != nil:
					r.Violate("blocked-request-answered:"+suffix, fmt.Sprintf("wired: the configuration file rejects this request (%s) but the "+
						"handler of server %s (group %s) answered it with rcode %d", v.class, srv.Name, grp.Name, rw.Msg().Rcode), replay)
				case v.blocked && herr != nil:
					r.Violate("blocked-request-answered:"+suffix+"+handler-error", fmt.Sprintf("wired: the configuration file rejects this request "+
						"(%s) but the handler of server %s returned an error (SERVFAIL): %v", v.class, srv.Name, herr), replay)
				case v.blocked && delta != 0:
					r.Violate("blocked-request-left-trace:"+suffix, fmt.Sprintf("wired: the configuration file rejects this request (%s) but "+
						"%d downstream effects happened on server %s", v.class, delta, srv.Name), replay)
				case !v.blocked && fault == "" && (rw.Msg() == nil || herr != nil):
					r.Violate("unblocked-request-dropped:"+suffix, fmt.Sprintf("wired: nothing in the configuration file rejects this request "+
						"but server %s gave resp=%v err=%v", srv.Name, rw.Msg() != nil, herr), replay)
				}
			}
		}
	}
	r.Count("wired.stacks")
}
