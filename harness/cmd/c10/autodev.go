// Campaign autodev (fifth deepening): a request rejected by access control must leave no trace in
// the profile database and the backend either.  The production handler stack (dnssvc.NewHandlers)
// with the real device finder over a real profiledb.Default whose storage is a counting fake backend;
// the clients name a device by an extended human-readable ID in the TLS server name
// (`<type>-<profile>-<human-id>.d.dns.example`, DoT / DoH / DoQ), which makes the finder create an
// automatic device through the backend when the profile allows it and the device does not exist yet.
//
// Oracle (from the statement, not from the code): a request that a global subnet, a global name rule
// or the access settings of the profile it names rejects causes no CreateAutoDevice call, leaves
// the set of devices the database knows unchanged, is not answered and moves no downstream counter;
// a request that nothing rejects, names an existing profile with automatic devices and a new ID is
// answered and billed to exactly one newly created device; the same ID again (in any case) creates
// nothing.
package main

import (
	"context"
	"fmt"
	"math/rand/v2"
	"net/netip"
	"net/url"
	"os"
	"runtime/debug"
	"strings"
	"sync"
	"time"

	"github.com/AdguardTeam/AdGuardDNS/internal/access"
	"github.com/AdguardTeam/AdGuardDNS/internal/agd"
	"github.com/AdguardTeam/AdGuardDNS/internal/agdpasswd"
	"github.com/AdguardTeam/AdGuardDNS/internal/agdtest"
	"github.com/AdguardTeam/AdGuardDNS/internal/dnsserver"
	"github.com/AdguardTeam/AdGuardDNS/internal/dnssvc"
	"github.com/AdguardTeam/AdGuardDNS/internal/geoip"
	"github.com/AdguardTeam/AdGuardDNS/internal/profiledb"
	"github.com/AdguardTeam/AdGuardDNS/verifh/hlib"
	"github.com/AdguardTeam/AdGuardDNS/verifh/hlib/stack"
	"github.com/AdguardTeam/golibs/logutil/slogutil"
	"github.com/c2h5oh/datasize"
	"github.com/miekg/dns"
	"github.com/prometheus/client_golang/prometheus"
)

// autoBackend is the backend behind the profile database: it serves the profiles once and creates
// automatic devices on demand, counting the calls.
type autoBackend struct {
	mu       sync.Mutex
	profs    []*agd.Profile
	devs     []*agd.Device
	creates  int
	created  []string // "<profile>/<human id>" per call
	failNext bool
	owner    []agd.ProfileID
	syncs    int
}

func (b *autoBackend) CreateAutoDevice(_ context.Context, req *profiledb.StorageCreateAutoDeviceRequest) (
	*profiledb.StorageCreateAutoDeviceResponse, error) {
	b.mu.Lock()
	defer b.mu.Unlock()
	b.creates++
	b.created = append(b.created, fmt.Sprintf("%s/%s", req.ProfileID, req.HumanID))
	if b.failNext {
		b.failNext = false

		return nil, fmt.Errorf("backend unavailable")
	}
	d := &agd.Device{
		Auth: &agd.AuthSettings{PasswordHash: agdpasswdAllow()}, ID: agd.DeviceID(fmt.Sprintf("au%d", b.creates)),
		HumanIDLower: agd.HumanIDToLower(req.HumanID), FilteringEnabled: true,
	}
	b.devs = append(b.devs, d)
	b.owner = append(b.owner, req.ProfileID)

	return &profiledb.StorageCreateAutoDeviceResponse{Device: d}, nil
}

// Profiles answers every synchronisation with fresh profile records that list the devices created so far.
func (b *autoBackend) Profiles(_ context.Context, _ *profiledb.StorageProfilesRequest) (*profiledb.StorageProfilesResponse, error) {
	b.mu.Lock()
	defer b.mu.Unlock()
	b.syncs++
	var ps []*agd.Profile
	for _, p := range b.profs {
		cp := *p
		cp.DeviceIDs = nil
		for i, d := range b.devs {
			if b.owner[i] == p.ID {
				cp.DeviceIDs = append(cp.DeviceIDs, d.ID)
			}
		}
		ps = append(ps, &cp)
	}

	return &profiledb.StorageProfilesResponse{SyncTime: time.Unix(1_700_000_000+int64(b.syncs), 0), Profiles: ps,
		Devices: append([]*agd.Device{}, b.devs...)}, nil
}

func agdpasswdAllow() agdpasswd.Authenticator { return agdpasswd.AllowAuthenticator{} }

var autoHumanIDs = []string{"phone", "My-Laptop", "tv", "a--b", "Kitchen-Pad", "x1"}
var autoTypes = []string{"otr", "adr", "mac", "OTR"}

func autodevCampaign(o *hlib.Opts, r *hlib.Result, m *hlib.Model) {
	rng := o.Rand("autodev")
	n := 120
	if o.Thorough() {
		n = 1500
	}
	for i := 0; i < n; i++ {
		runAutodevCase(r, m, rng)
	}
}

func runAutodevCase(r *hlib.Result, m *hlib.Model, rng *rand.Rand) {
	ctx := context.Background()
	c := genCfg(rng, 2)
	be := &autoBackend{}
	auto := []bool{rng.IntN(4) != 0, rng.IntN(4) != 0}
	for k, p := range c.profs {
		pr := newProfile(k, access.NewDefaultProfile(p.conf()), nil)
		pr.AutoDevicesEnabled = auto[k]
		be.profs = append(be.profs, pr)
		be.devs = append(be.devs, newDevice(k, netip.Addr{}))
		be.owner = append(be.owner, pr.ID)
	}
	db, err := profiledb.New(&profiledb.Config{
		Logger: slogutil.NewDiscardLogger(), Storage: be, ErrColl: agdtest.NewErrorCollector(), Metrics: profiledb.EmptyMetrics{},
		CacheFilePath: "none", FullSyncIvl: time.Hour, FullSyncRetryIvl: time.Hour, ResponseSizeEstimate: datasize.KB,
	})
	hlib.Must(err)
	hlib.Must(db.Refresh(ctx))

	var cur *request
	prometheus.DefaultRegisterer = prometheus.NewRegistry()
	bind := &agd.ServerBindData{AddrPort: netip.MustParseAddrPort("192.0.2.2:853")}
	srvs := []*agd.Server{stack.NewServer("dot", agd.ProtoDoT, false, bind), stack.NewServer("doh", agd.ProtoDoH, false, bind),
		stack.NewServer("doq", agd.ProtoDoQ, false, bind)}
	limCalls := 0
	st := stack.New(&stack.Config{
		Access: c.global(), ProfileDB: db, Servers: srvs, Cache: &dnssvc.CacheConfig{Type: dnssvc.CacheTypeNone},
		GeoData: func(_ string, ip netip.Addr) (*geoip.Location, error) { return cur.geoFor(ip), nil },
		RateLimit: &agdtest.RateLimit{
			OnIsRateLimited: func(context.Context, *dns.Msg, netip.Addr) (bool, bool, error) {
				limCalls++

				return false, false, nil
			},
			OnCountResponses: func(context.Context, *dns.Msg, netip.Addr) { limCalls++ },
		},
	})

	lines := c.lines()
	for k := range c.profs {
		lines = append(lines, fmt.Sprintf("fprof %d %s", k, b2s(auto[k])))
	}
	pre := len(lines)
	// known: the devices with a human-readable ID that exist, by "<profile>/<lower-case id>" (the oracle's own book).
	known := map[string]bool{}
	var got []string
	nBlockedNew, nCreated := 0, 0
	for j := 5 + rng.IntN(12); j > 0; j-- {
		q := genRequest(rng, c, []string{"nil"})
		q.dev, q.badDevID = "nil", false
		if q.remote.Port() == 0 {
			q.remote = netip.AddrPortFrom(q.remote.Addr(), 4000)
		}
		if q.loc == nil {
			q.loc = &geoip.Location{Country: geoip.CountryAD, Continent: geoip.ContinentEU, ASN: 64512}
		}
		srv := srvs[rng.IntN(len(srvs))]
		// Which profile the server name names: 0, 1, one that does not exist, or no device data at all.
		k, tlsName, hid := rng.IntN(4), "", autoHumanIDs[rng.IntN(len(autoHumanIDs))]
		if rng.IntN(3) == 0 {
			hid = strings.ToUpper(hid)
		}
		profName := fmt.Sprintf("prof%d", k)
		if k < 3 {
			if rng.IntN(5) == 0 {
				profName = strings.ToUpper(profName)
			}
			tlsName = fmt.Sprintf("%s-%s-%s.%s", autoTypes[rng.IntN(len(autoTypes))], profName, hid, stack.DeviceDomain)
		}
		key := fmt.Sprintf("%d/%s", k, strings.ToLower(hid))
		// The oracle's reading of who the client is: the profile named, if it exists and either
		// knows the device or creates devices automatically.
		exists := k < 2 && known[key]
		wouldCreate := k < 2 && !exists && auto[k]
		if exists || wouldCreate {
			q.dev = fmt.Sprintf("ok:%d", k)
		}
		fail := wouldCreate && rng.IntN(9) == 0
		if fail {
			// The backend will refuse to create the device: the finder fails, the request has no profile.
			q.dev = "err"
		}
		cur = q
		limCalls = 0
		inPath := rng.IntN(2) == 0
		be.mu.Lock()
		createsBefore := be.creates
		be.failNext = fail
		be.mu.Unlock()
		before := st.Effects.Snapshot()
		var out stack.Outcome
		var panicked any
		func() {
			defer func() {
				panicked = recover()
				if panicked != nil && os.Getenv("VERIF_C10_DEBUG") != "" {
					fmt.Fprintf(os.Stderr, "%v\n%s\n", panicked, debug.Stack())
				}
			}()
			sq := &stack.Req{Server: srv, Msg: q.msg(), Remote: q.remote, Local: bind.AddrPort, TLSServerName: tlsName}
			if srv.Protocol == agd.ProtoDoH {
				// The DoH server always hands the URL on; every second DoH client names its device in the path instead.
				sq.ReqInfo = &dnsserver.RequestInfo{URL: &url.URL{Path: "/dns-query"}}
				if inPath && tlsName != "" {
					sq.ReqInfo.URL.Path = "/dns-query/" + strings.TrimSuffix(tlsName, "."+stack.DeviceDomain)
					sq.TLSServerName = "dns.example"
				}
			}
			out = st.Serve(ctx, sq)
		}()
		after := st.Effects.Snapshot()
		bills := st.Effects.BillRecs
		touched := false
		var delta [7]int64
		for i := range delta {
			delta[i] = after[i] - before[i]
			touched = touched || delta[i] != 0
		}
		be.mu.Lock()
		creates := be.creates - createsBefore
		be.failNext = false
		be.mu.Unlock()
		if creates != 0 {
			// The next synchronisation brings the profile record that lists the new device.
			hlib.Must(db.Refresh(ctx))
		}
		// Does the database know the device now?
		inDB := false
		if k < 2 {
			_, d, dbErr := db.ProfileByHumanID(ctx, agd.ProfileID(fmt.Sprintf("prof%d", k)), agd.HumanIDLower(strings.ToLower(hid)))
			inDB = dbErr == nil && d != nil
		}

		pk := "-"
		if k < 3 {
			pk = fmt.Sprint(k)
		}
		asn := fmt.Sprint(q.loc.ASN)
		line := fmt.Sprintf("freq %s %s %s %s %d %s %d %d %s %d", pk, strings.ToLower(hid), b2s(fail), addrArgs(q.eff()), q.remote.Port(),
			q.qname, q.qtype, q.class(), asn, q.ecs)
		replay := func() any {
			return map[string]any{"campaign": "autodev", "config": c.describe(), "auto_devices_enabled": auto, "server": string(srv.Name),
				"tls_server_name": tlsName, "remote": q.remote.String(), "request": line, "backend_create_calls": creates,
				"device_known_before": exists, "device_known_after": inDB, "backend_fails": fail,
				"downstream_delta[upstream,querylog,billing,rulestat,dnsdb,filter_req,filter_resp]": fmt.Sprint(delta),
				"ops": append(append([]string{}, lines...), line)}
		}
		v := refVerdict(c, q)
		suffix := sigSuffix(v, q)
		switch {
		case panicked != nil:
			r.Violate("panic:"+suffix+"+auto-device", fmt.Sprintf("autodev: request %q panicked: %v", line, panicked), replay())
		case v.blocked:
			r.Count("autodev.ref.blocked." + v.class)
			if wouldCreate {
				nBlockedNew++
				r.Count("autodev.blocked.new-human-id." + v.class)
			}
			if creates != 0 || inDB != exists {
				sig := "blocked-request-left-trace:" + suffix + "+auto-device-created"
				if strings.HasPrefix(v.class, "profile-") {
					// Known finding (one exact signature): the profile's access settings are known only after the
					// lookup that creates the device.
					sig = "blocked-request-left-trace:profile+auto-device-created"
				}
				r.Violate(sig, fmt.Sprintf("autodev: the property rejects this "+
					"request (%s), yet it made the server create an automatic device: %d CreateAutoDevice call(s) to the backend, the "+
					"database knew the device before: %v, after: %v", v.class, creates, exists, inDB), replay())
			}
			if out.Resp != nil || out.Err != nil {
				r.Violate("blocked-request-answered:"+suffix+"+auto-device", fmt.Sprintf("autodev: the property rejects this request (%s) but "+
					"resp=%v err=%v", v.class, out.Resp != nil, out.Err), replay())
			}
			if strings.HasPrefix(v.class, "global-") && after[7] != before[7] {
				r.Violate("blocked-request-left-trace:"+suffix+"+lookup-before-global-decision", fmt.Sprintf("autodev: the global settings "+
					"reject this request (%s) but the GeoIP database was asked %d time(s) for it", v.class, after[7]-before[7]), replay())
			}
			if touched || limCalls != 0 {
				r.Violate("blocked-request-left-trace:"+suffix+"+auto-device", fmt.Sprintf("autodev: the property rejects this request (%s) but "+
					"downstream counters moved: %v, rate limiter calls %d", v.class, delta, limCalls), replay())
			}
		case fail:
			// The backend refuses: the finder's error is returned to the server; nothing is created.
			r.Count("autodev.ref.unblocked.backend-fails")
			if creates != 1 || inDB || out.Err == nil || out.Resp != nil {
				r.Violate("unblocked-request-dropped:"+suffix+"+auto-device-backend-error", fmt.Sprintf("autodev: nothing rejects this "+
					"request and the backend fails to create its device: expected one call, no device, the error returned; calls=%d "+
					"known=%v err=%v resp=%v", creates, inDB, out.Err, out.Resp != nil), replay())
			}
		default:
			r.Count("autodev.ref.unblocked." + v.class)
			wantCreates := 0
			if wouldCreate {
				wantCreates = 1
				nCreated++
			}
			if creates != wantCreates || inDB != (exists || wouldCreate) {
				r.Violate("unblocked-request-dropped:"+suffix+"+auto-device-not-created", fmt.Sprintf("autodev: nothing rejects this "+
					"request; expected %d CreateAutoDevice call(s) and the device known afterwards: %v; got %d and %v", wantCreates,
					exists || wouldCreate, creates, inDB), replay())
			}
			if q.ecs != 2 && (out.Resp == nil || out.Err != nil) {
				r.Violate("unblocked-request-dropped:"+suffix+"+auto-device", fmt.Sprintf("autodev: nothing rejects this request (%s) but "+
					"resp=%v err=%v", v.class, out.Resp != nil, out.Err), replay())
			}
			if q.ecs != 2 && q.profIdx() >= 0 && q.class() == dns.ClassINET && delta[2] != 1 {
				r.Violate("unblocked-request-not-logged:"+suffix+"+auto-device", fmt.Sprintf("autodev: profile request processed without "+
					"exactly one billing record: %v (records %d)", delta, len(bills)), replay())
			}
		}
		if k < 2 {
			// The book follows the database, also after a reported violation.
			known[key] = inDB
		}
		g := "dropped"
		if out.Resp != nil {
			g = "answered"
		} else if out.Err != nil {
			g = "error"
		}
		lines, got = append(lines, line), append(got, fmt.Sprintf("%s %d", g, creates))
	}
	answers := m.Batch(lines)[pre:]
	for j := range got {
		// model: "<why> <eff> <err> <creates>"
		f := strings.Fields(answers[j])
		want := "bad-model-answer"
		if len(f) == 4 {
			switch {
			case f[1] == "N" || f[1] == "F":
				want = "answered " + f[3]
			case f[2] == "1":
				want = "error " + f[3]
			default:
				want = "dropped " + f[3]
			}
		}
		if got[j] != want {
			r.Disagree("autodev", fmt.Sprintf("autodev: real=%q model=%q for %q", got[j], answers[j], lines[pre+j]),
				map[string]any{"campaign": "autodev", "config": c.describe(), "ops": append(append([]string{}, lines[:pre+j]...), lines[pre+j])})

			break
		}
	}
	nt := nBlockedNew > 0 && nCreated > 0
	r.Case("autodev;"+strings.Join(lines, ";"), nt)
	r.Count("autodev.cases")
	if nt {
		r.Count("autodev.cases.mixed")
		r.Sample(map[string]any{"campaign": "autodev", "ops": truncate(lines, 14), "real": truncate(got, 8)}, 6)
	}
	r.Traces++
}
