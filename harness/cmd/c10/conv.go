package main

// Campaign conv: where a profile's access settings come from.
//
// The access settings of a profile reach access.DefaultProfile through two
// converters of the repository: backendpb.AccessSettings.toInternal (the
// message of the backend; the "enabled" switch, CidrRange byte strings and
// prefix lengths, ASN lists, rule texts) and — after a restart — the cache
// file (DefaultProfile.Config, filecachepb.accessToProtobuf /
// Access.toInternal).  Both are driven through public API only: an in-process
// gRPC backend read by the real backendpb.ProfileStorage, a real
// profiledb.Default that writes the cache file, and a second one that starts
// from that file with a backend that is down.  The verdict of the resulting
// profile on every request is compared with the model (accessFromBackend,
// confOfCache ∘ cacheOfConf) and with an oracle that reads the *message*.

import (
	"bytes"
	"context"
	"fmt"
	"math/big"
	"math/rand/v2"
	"net"
	"net/netip"
	"net/url"
	"os"
	"path/filepath"
	"strconv"
	"strings"
	"time"

	"github.com/AdguardTeam/AdGuardDNS/internal/agd"
	"github.com/AdguardTeam/AdGuardDNS/internal/agdtest"
	"github.com/AdguardTeam/AdGuardDNS/internal/backendpb"
	"github.com/AdguardTeam/AdGuardDNS/internal/geoip"
	"github.com/AdguardTeam/AdGuardDNS/internal/profiledb"
	"github.com/AdguardTeam/AdGuardDNS/verifh/hlib"
	"github.com/AdguardTeam/golibs/logutil/slogutil"
	"github.com/AdguardTeam/golibs/netutil"
	"github.com/c2h5oh/datasize"
	"google.golang.org/grpc"
	"google.golang.org/grpc/codes"
	"google.golang.org/grpc/credentials/insecure"
	"google.golang.org/grpc/metadata"
	"google.golang.org/grpc/status"
	"google.golang.org/protobuf/types/known/durationpb"
)

// wcidr is a CidrRange message.
type wcidr struct {
	addr []byte
	bits uint32
}

func (c wcidr) String() string { return fmt.Sprintf("%x/%d", c.addr, c.bits) }

// wireAcc is the access part of a DNSProfile message.
type wireAcc struct {
	present, enabled bool
	an, bn           []wcidr
	aa, ba           []uint32
	rules            []rule
}

func (w *wireAcc) msg() *backendpb.AccessSettings {
	if !w.present {
		return nil
	}
	cs := func(l []wcidr) (out []*backendpb.CidrRange) {
		for _, c := range l {
			out = append(out, &backendpb.CidrRange{Address: c.addr, Prefix: c.bits})
		}

		return out
	}
	out := &backendpb.AccessSettings{Enabled: w.enabled, AllowlistCidr: cs(w.an), BlocklistCidr: cs(w.bn),
		AllowlistAsn: w.aa, BlocklistAsn: w.ba}
	for _, ru := range w.rules {
		out.BlocklistDomainRules = append(out.BlocklistDomainRules, ru.text())
	}

	return out
}

func (w *wireAcc) lines(k int) (lines []string) {
	e := "-"
	if w.present {
		e = b2s(w.enabled)
	}
	lines = append(lines, fmt.Sprintf("wnew %d %s", k, e))
	if !w.present {
		return lines
	}
	for i, l := range [][]wcidr{w.an, w.bn} {
		for _, c := range l {
			lines = append(lines, fmt.Sprintf("wcidr %d %c %d %s %d", k, "ab"[i], len(c.addr), new(big.Int).SetBytes(c.addr).String(), c.bits))
		}
	}
	for i, l := range [][]uint32{w.aa, w.ba} {
		for _, a := range l {
			lines = append(lines, fmt.Sprintf("wasn %d %c %d", k, "ab"[i], a))
		}
	}
	for _, ru := range w.rules {
		if ru.kind != 'j' {
			lines = append(lines, fmt.Sprintf("wrule %d %s", k, ru.args()))
		}
	}

	return lines
}

func (w *wireAcc) describe() map[string]any {
	if !w.present {
		return map[string]any{"access": "absent"}
	}
	var rs []string
	for _, ru := range w.rules {
		rs = append(rs, ru.text())
	}

	return map[string]any{"enabled": w.enabled, "allowlist_cidr": fmt.Sprint(w.an), "blocklist_cidr": fmt.Sprint(w.bn),
		"allowlist_asn": fmt.Sprint(w.aa), "blocklist_asn": fmt.Sprint(w.ba), "blocklist_domain_rules": rs}
}

// refCidrHas reads the message: the range covers ip when the address has the
// byte length of ip's family, the prefix length is within the family's width,
// and the leading bits agree.
func refCidrHas(c wcidr, ip netip.Addr) bool {
	b := ip.AsSlice()
	if len(c.addr) != len(b) || uint64(c.bits) > uint64(8*len(b)) {
		return false
	}
	full, rem := int(c.bits)/8, int(c.bits)%8
	if !bytes.Equal(c.addr[:full], b[:full]) {
		return false
	}

	return rem == 0 || c.addr[full]>>(8-rem) == b[full]>>(8-rem)
}

func refWireVerdict(w *wireAcc, q *request) verdict {
	if !w.present {
		return verdict{false, "no-settings"}
	}
	if !w.enabled {
		return verdict{false, "settings-disabled"}
	}
	ip := q.eff()
	inC := func(l []wcidr) bool {
		for _, c := range l {
			if refCidrHas(c, ip) {
				return true
			}
		}

		return false
	}
	inA := func(l []uint32) bool {
		for _, a := range l {
			if q.loc != nil && uint32(q.loc.ASN) == a {
				return true
			}
		}

		return false
	}
	allowed := inA(w.aa) || inC(w.an)
	switch {
	case !allowed && inA(w.ba):
		return verdict{true, "profile-asn"}
	case !allowed && inC(w.bn):
		return verdict{true, "profile-subnet"}
	case refNameBlocked(w.rules, q.qname, q.qtype):
		return verdict{true, "profile-name"}
	case allowed && (inA(w.ba) || inC(w.bn)):
		return verdict{false, "allowed-over-blocked"}
	}

	return verdict{false, "no-rule"}
}

func genWCidr(rng *rand.Rand) wcidr {
	p := genPrefix(rng)
	c := wcidr{addr: p.Addr().AsSlice(), bits: uint32(p.Bits())}
	switch rng.IntN(14) {
	case 0:
		// Prefix length beyond the family's width.
		c.bits = []uint32{33, 129, 200, 4294967295, uint32(8*len(c.addr) + 1)}[rng.IntN(5)]
	case 1:
		// An address that is neither 4 nor 16 bytes long.
		c.addr = [][]byte{nil, {10}, {10, 1, 2}, {10, 1, 2, 3, 4}, bytes.Repeat([]byte{0x20}, 17)}[rng.IntN(5)]
	case 2:
		// An IPv4 range sent as an IPv4-mapped IPv6 one.
		if p.Addr().Is4() {
			a16 := p.Addr().As16()
			c.addr, c.bits = a16[:], uint32(p.Bits()+96)
		}
	case 3:
		c.bits = uint32(8 * len(c.addr))
	case 4:
		c.bits = 0
	}

	return c
}

func genWireAcc(rng *rand.Rand) (w *wireAcc) {
	w = &wireAcc{present: rng.IntN(8) != 0, enabled: rng.IntN(4) != 0}
	for i := rng.IntN(4); i > 0; i-- {
		w.an = append(w.an, genWCidr(rng))
	}
	for i := rng.IntN(4); i > 0; i-- {
		w.bn = append(w.bn, genWCidr(rng))
	}
	for _, a := range genASNs(rng) {
		w.aa = append(w.aa, uint32(a))
	}
	for _, a := range genASNs(rng) {
		w.ba = append(w.ba, uint32(a))
	}
	if rng.IntN(2) == 0 {
		w.rules = genRules(rng, 3)
	}

	return w
}

// convBackend is the in-process backend.
type convBackend struct {
	backendpb.UnimplementedDNSServiceServer
	profs []*wireAcc
	down  bool
}

func (s *convBackend) GetDNSProfiles(_ *backendpb.DNSProfilesRequest, srv grpc.ServerStreamingServer[backendpb.DNSProfile]) (err error) {
	if s.down {
		return status.Error(codes.Unavailable, "verif: backend is down")
	}
	for k, w := range s.profs {
		err = srv.Send(&backendpb.DNSProfile{
			DnsId:               fmt.Sprintf("prof%d", k),
			FilteringEnabled:    true,
			QueryLogEnabled:     true,
			FilteredResponseTtl: durationpb.New(10 * time.Second),
			BlockingMode:        &backendpb.DNSProfile_BlockingModeNullIp{BlockingModeNullIp: &backendpb.BlockingModeNullIP{}},
			Devices:             []*backendpb.DeviceSettings{{Id: fmt.Sprintf("dev%d", k), Name: fmt.Sprintf("n%d", k), FilteringEnabled: true}},
			Access:              w.msg(),
		})
		if err != nil {
			return err
		}
	}
	srv.SetTrailer(metadata.Pairs("sync_time", strconv.FormatInt(time.Unix(1700000000, 0).UnixMilli(), 10)))

	return nil
}

func convCampaign(o *hlib.Opts, r *hlib.Result, m *hlib.Model) {
	l, err := net.Listen("tcp", "127.0.0.1:0")
	if err != nil {
		r.Notes = append(r.Notes, "conv campaign skipped: cannot listen on loopback: "+err.Error())

		return
	}
	srv := &convBackend{}
	gs := grpc.NewServer(grpc.ConnectionTimeout(time.Second), grpc.Creds(insecure.NewCredentials()))
	backendpb.RegisterDNSServiceServer(gs, srv)
	go func() { _ = gs.Serve(l) }()
	defer gs.Stop()

	reported := 0
	ec := &agdtest.ErrorCollector{OnCollect: func(context.Context, error) { reported++ }}
	ps, err := backendpb.NewProfileStorage(&backendpb.ProfileStorageConfig{
		BindSet:              netutil.SliceSubnetSet{netip.MustParsePrefix("0.0.0.0/0"), netip.MustParsePrefix("::/0")},
		ErrColl:              ec,
		Logger:               slogutil.NewDiscardLogger(),
		GRPCMetrics:          backendpb.EmptyGRPCMetrics{},
		Metrics:              backendpb.EmptyProfileDBMetrics{},
		Endpoint:             &url.URL{Scheme: "grpc", Host: l.Addr().String()},
		ResponseSizeEstimate: datasize.KB,
		MaxProfilesSize:      16 * datasize.MB,
	})
	if err != nil {
		r.Notes = append(r.Notes, "conv campaign skipped: "+err.Error())

		return
	}
	dir, err := os.MkdirTemp("", "verif-c10-conv")
	hlib.Must(err)
	defer func() { _ = os.RemoveAll(dir) }()
	path := filepath.Join(dir, "cache.pb")

	rng := o.Rand("conv")
	n := 150
	if o.Thorough() {
		n = 3000
	}
	for i := 0; i < n; i++ {
		runConvCase(r, m, rng, srv, ps, ec, path, []*wireAcc{genWireAcc(rng), genWireAcc(rng), genWireAcc(rng)}, nil)
	}
	convTable(r, m, rng, srv, ps, ec, path)
	r.Notes = append(r.Notes, fmt.Sprintf("conv: %d cases through gRPC backend -> backendpb.ProfileStorage -> profiledb (cache file written) -> "+
		"profiledb restarted from the cache file with the backend down; converter reports: %d", n, reported))
}

func newConvDB(ps profiledb.Storage, ec *agdtest.ErrorCollector, path string) (db *profiledb.Default) {
	db, err := profiledb.New(&profiledb.Config{
		Logger: slogutil.NewDiscardLogger(), Storage: ps, ErrColl: ec, Metrics: profiledb.EmptyMetrics{}, CacheFilePath: path,
		FullSyncIvl: time.Hour, FullSyncRetryIvl: time.Hour, ResponseSizeEstimate: datasize.KB,
	})
	hlib.Must(err)

	return db
}

// convTable: the complete table of CidrRange shapes — address length 0, 3, 4, 5, 16 (plain and
// IPv4-mapped), 17 bytes × prefix length 0, 1, 8, 24, 31, 32, 33, 96, 120, 127, 128, 129, 2^32-1 — each
// taken from the address of a fixed client (so that it covers the client whenever it denotes a range
// of the client's family at all), × settings enabled / disabled × the range blocked, or allowed
// against a blocked ASN; one profile per combination, all in one synchronisation and one cache file;
// every profile is asked about an IPv4 client, an IPv6 client and a link-local client with a zone.
func convTable(r *hlib.Result, m *hlib.Model, rng *rand.Rand, srv *convBackend, ps *backendpb.ProfileStorage,
	ec *agdtest.ErrorCollector, path string) {
	v4, v6, ll := netip.MustParseAddr("10.1.2.3"), netip.MustParseAddr("2001:db8:1::5"), netip.MustParseAddr("fe80::1%eth0")
	clients := []netip.Addr{v4, v6, ll}
	m4 := v4.As16()
	b6, bl := v6.As16(), ll.As16()
	addrs := [][]byte{nil, {10, 1, 2}, v4.AsSlice(), {10, 1, 2, 3, 4}, b6[:], bl[:], m4[:], append(append([]byte{}, b6[:]...), 0)}
	bitss := []uint32{0, 1, 8, 24, 31, 32, 33, 96, 120, 127, 128, 129, 4294967295}
	var profs []*wireAcc
	for _, a := range addrs {
		for _, b := range bitss {
			for _, en := range []bool{true, false} {
				c := wcidr{addr: a, bits: b}
				profs = append(profs, &wireAcc{present: true, enabled: en, bn: []wcidr{c}},
					&wireAcc{present: true, enabled: en, an: []wcidr{c}, ba: []uint32{42}})
			}
		}
	}
	profs = append(profs, &wireAcc{}, &wireAcc{present: true}, &wireAcc{present: true, enabled: true})
	runConvCase(r, m, rng, srv, ps, ec, path, profs, clients)
	r.Notes = append(r.Notes, fmt.Sprintf("conv table: %d profiles (8 address shapes x 13 prefix lengths x enabled/disabled x blocked / allowed-over-blocked-ASN) x 3 clients, "+
		"each judged after the backend converter and after a restart from the cache file", len(profs)))
}

// runConvCase: clients == nil draws 8 random requests per profile; otherwise every profile is asked
// about every client (question ok.test. A, location ASN 42).
func runConvCase(r *hlib.Result, m *hlib.Model, rng *rand.Rand, srv *convBackend, ps *backendpb.ProfileStorage,
	ec *agdtest.ErrorCollector, path string, profs []*wireAcc, clients []netip.Addr) {
	ctx := context.Background()
	_ = os.Remove(path)
	srv.profs, srv.down = profs, false
	lines := []string{"reset"}
	desc := map[string]any{}
	for k, w := range srv.profs {
		lines = append(lines, w.lines(k)...)
		desc[fmt.Sprintf("profile_%d_access", k)] = w.describe()
	}
	pre := len(lines)
	replay := func(upto int) any {
		return map[string]any{"campaign": "conv", "backend_message": desc, "ops": append([]string{}, lines[:upto]...),
			"how": "in-process gRPC backend -> backendpb.ProfileStorage -> profiledb.Default.Refresh (stage b; writes the cache file) -> " +
				"second profiledb.Default started from the cache file, backend down (stage c) -> Profile.Access.IsBlocked"}
	}

	db1 := newConvDB(ps, ec, path)
	if err := db1.Refresh(ctx); err != nil {
		r.Violate("conv:refresh-failed", "conv: refreshing the profile database from the in-process backend failed: "+err.Error(), replay(pre))

		return
	}
	srv.down = true
	db2 := newConvDB(ps, ec, path)

	// A configuration for the request generator: the ranges and rules of the messages, so that
	// addresses and names are drawn at their boundaries.
	c := &cfg{}
	for _, w := range srv.profs {
		pc := &pcfg{rules: w.rules}
		for _, cr := range append(append([]wcidr{}, w.an...), w.bn...) {
			if a, ok := netip.AddrFromSlice(cr.addr); ok && uint64(cr.bits) <= uint64(a.BitLen()) {
				pc.bn = append(pc.bn, netip.PrefixFrom(a.Unmap(), max(0, int(cr.bits)-(a.BitLen()-a.Unmap().BitLen()))))
				pc.bn = append(pc.bn, netip.PrefixFrom(a, int(cr.bits)))
			}
		}
		for _, a := range append(append([]uint32{}, w.aa...), w.ba...) {
			pc.ba = append(pc.ba, geoip.ASN(a))
		}
		c.profs = append(c.profs, pc)
	}

	var got []string
	seenT, seenF := false, false
	for k, w := range srv.profs {
		id := agd.DeviceID(fmt.Sprintf("dev%d", k))
		p1, _, err1 := db1.ProfileByDeviceID(ctx, id)
		p2, _, err2 := db2.ProfileByDeviceID(ctx, id)
		if err1 != nil || err2 != nil {
			r.Violate("conv:profile-lost", fmt.Sprintf("conv: profile of device %s not found after refresh (%v) / after restart from the cache file (%v)",
				id, err1, err2), replay(pre))

			return
		}
		nq := 8
		if clients != nil {
			nq = len(clients)
		}
		for j := 0; j < nq; j++ {
			q := genRequest(rng, c, []string{fmt.Sprintf("ok:%d", k)})
			if clients != nil {
				q = &request{remote: netip.AddrPortFrom(clients[j], 4000), qname: "ok.test.", qtype: 1, loc: &geoip.Location{ASN: 42},
					dev: fmt.Sprintf("ok:%d", k)}
			}
			ip := q.eff()
			asn := "-"
			if q.loc != nil {
				asn = fmt.Sprint(q.loc.ASN)
			}
			v := refWireVerdict(w, q)
			if clients != nil {
				r.Count("conv.table." + v.class)
			} else {
				r.Count("conv.ref." + v.class)
			}
			for si, p := range []*agd.Profile{p1, p2} {
				stage := "bc"[si]
				line := fmt.Sprintf("wblk %d %c %s %s %s %d", k, stage, addrArgs(ip), asn, q.qname, q.qtype)
				lines = append(lines, line)
				upto := len(lines)
				b := guarded(r, line, func() any { return replay(upto) }, func() bool {
					return p.Access.IsBlocked(q.msg(), netip.AddrPortFrom(ip, 53), q.loc)
				})
				got = append(got, b2s(b))
				seenT, seenF = seenT || b, seenF || !b
				if b != v.blocked {
					where := map[byte]string{'b': "backend", 'c': "cache-file"}[stage]
					sig := "profile-verdict:" + v.class + "+from-" + where
					if q.remote.Addr().Zone() != "" {
						sig += "+zoned"
					}
					r.Violate(sig, fmt.Sprintf("conv: the profile built from the %s says blocked=%v for %q %d from %v (ASN %s); the access settings "+
						"of the backend's message say %v (%s): %v", where, b, q.qname, q.qtype, ip, asn, v.blocked, v.class, w.describe()), replay(upto))
				}
				r.Evaluations++
			}
		}
	}
	answers := m.Batch(lines)[pre:]
	for j := range got {
		if got[j] != answers[j] {
			r.Disagree("conv", fmt.Sprintf("conv: real=%s model=%s for %q", got[j], answers[j], lines[pre+j]),
				map[string]any{"campaign": "conv", "backend_message": desc, "ops": append([]string{}, lines[:pre+j+1]...)})

			break
		}
	}
	r.Case(strings.Join(lines, ";"), seenT && seenF)
	r.Count("conv.cases")
	r.Traces++
}
