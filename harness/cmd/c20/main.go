// Command c20 is the correspondence harness and property oracle for C20 (a
// configuration that passes validation cannot make request handling fail).
//
// Every case is config.dist.yaml of the tree under test with a set of scalar
// fields replaced (boundary, zero, negative, huge, unparsable, absent) and a
// set of sections removed.  The YAML goes through the real parser and the real
// validate(); the same case goes to the Lean model as one `cfg` line.  Accepted
// configurations are converted with the real toInternal methods, the real
// objects are built and driven with queries.
package main

import (
	"context"
	"fmt"
	"io"
	stdlog "log"
	"log/slog"
	"math/big"
	"math/rand/v2"
	"net"
	"net/http"
	"net/http/httptest"
	"net/netip"
	"net/url"
	"os"
	"path/filepath"
	"regexp"
	"runtime"
	"runtime/pprof"
	"sort"
	"strconv"
	"strings"
	"sync"
	"sync/atomic"
	"time"

	"github.com/AdguardTeam/AdGuardDNS/internal/agd"
	"github.com/AdguardTeam/AdGuardDNS/internal/agdcache"
	"github.com/AdguardTeam/AdGuardDNS/internal/cmd"
	"github.com/AdguardTeam/AdGuardDNS/internal/connlimiter"
	"github.com/AdguardTeam/AdGuardDNS/internal/dnsserver"
	"github.com/AdguardTeam/AdGuardDNS/internal/dnsserver/ratelimit"
	"github.com/AdguardTeam/AdGuardDNS/internal/dnssvc"
	"github.com/AdguardTeam/AdGuardDNS/internal/errcoll"
	"github.com/AdguardTeam/AdGuardDNS/verifh/hlib"
	"github.com/AdguardTeam/AdGuardDNS/verifh/hlib/stack"
	"github.com/miekg/dns"
	"github.com/prometheus/client_golang/prometheus"
	"gopkg.in/yaml.v2"
)

type kind int

const (
	kU kind = iota // uint / uint64
	kI             // int
	kD             // timeutil.Duration, value in ns
	kB             // datasize.ByteSize, value in bytes
	kE             // enum string
	kT             // bool
	kP             // uint16 port
	kS             // string that must not be empty
	kX             // identifier that refers to (or is referred to by) another part of the file, or protocol name
)

// field is one mutable scalar of the configuration file.
type field struct {
	path  string
	kind  kind
	dist  string   // value in the distributed example (decimal / string / 1|0)
	extra []string // additional interesting values (decimal) or enum candidates
}

const (
	sec = int64(1000000000)
	ms  = int64(1000000)
)

func d(n int64) string { return strconv.FormatInt(n, 10) }

var fields = []field{
	{"ratelimit.allowlist.type", kE, "consul", []string{"backend", "consul", "redis", "Consul", ""}},
	{"ratelimit.allowlist.refresh_interval", kD, d(3600 * sec), nil},
	{"ratelimit.connection_limit.enabled", kT, "1", nil},
	{"ratelimit.connection_limit.stop", kU, "1000", []string{"799", "800", "801", "3", "4", "5", "6", "7", "8"}},
	{"ratelimit.connection_limit.resume", kU, "800", []string{"999", "1000", "1001", "3", "4", "5", "6", "7", "8"}},
	{"ratelimit.ipv4.count", kU, "300", nil},
	{"ratelimit.ipv4.interval", kD, d(10 * sec), nil},
	{"ratelimit.ipv4.subnet_key_len", kI, "24", []string{"31", "32", "33", "48", "128"}},
	{"ratelimit.ipv6.count", kU, "3000", nil},
	{"ratelimit.ipv6.interval", kD, d(10 * sec), nil},
	{"ratelimit.ipv6.subnet_key_len", kI, "48", []string{"32", "33", "127", "128", "129"}},
	{"ratelimit.quic.enabled", kT, "1", nil},
	{"ratelimit.quic.max_streams_per_peer", kI, "100", nil},
	{"ratelimit.tcp.enabled", kT, "1", nil},
	{"ratelimit.tcp.max_pipeline_count", kU, "100", nil},
	{"ratelimit.backoff_count", kU, "1000", nil},
	{"ratelimit.backoff_duration", kD, d(1800 * sec), nil},
	{"ratelimit.backoff_period", kD, d(600 * sec), nil},
	{"ratelimit.response_size_estimate", kB, "1024", []string{"64", "100000"}},
	{"upstream.servers.0.timeout", kD, d(2 * sec), nil},
	{"upstream.servers.1.timeout", kD, d(2 * sec), nil},
	{"upstream.fallback.servers.0.timeout", kD, d(1 * sec), nil},
	{"upstream.fallback.servers.1.timeout", kD, d(1 * sec), nil},
	{"upstream.healthcheck.enabled", kT, "1", nil},
	{"upstream.healthcheck.interval", kD, d(2 * sec), nil},
	{"upstream.healthcheck.timeout", kD, d(1 * sec), nil},
	{"upstream.healthcheck.backoff_duration", kD, d(30 * sec), nil},
	{"cache.type", kE, "simple", []string{"simple", "ecs", "none", "ECS", ""}},
	{"cache.size", kI, "10000", nil},
	{"cache.ecs_size", kI, "10000", nil},
	{"cache.ttl_override.enabled", kT, "1", nil},
	{"cache.ttl_override.min", kD, d(60 * sec), nil},
	{"dnsdb.enabled", kT, "1", nil},
	{"dnsdb.max_size", kI, "500000", nil},
	{"dns.read_timeout", kD, d(2 * sec), nil},
	{"dns.tcp_idle_timeout", kD, d(30 * sec), []string{d(6553500 * ms), d(6553500*ms - 1), d(6553500*ms + 1)}},
	{"dns.write_timeout", kD, d(2 * sec), nil},
	{"dns.handle_timeout", kD, d(1 * sec), nil},
	{"dns.max_udp_response_size", kB, "1024", []string{"511", "512", "65534", "65535", "65536"}},
	{"backend.timeout", kD, d(10 * sec), nil},
	{"backend.refresh_interval", kD, d(15 * sec), nil},
	{"backend.full_refresh_interval", kD, d(86400 * sec), nil},
	{"backend.full_refresh_retry_interval", kD, d(3600 * sec), nil},
	{"backend.bill_stat_interval", kD, d(15 * sec), nil},
	{"geoip.host_cache_size", kI, "100000", nil},
	{"geoip.ip_cache_size", kI, "100000", nil},
	{"geoip.refresh_interval", kD, d(3600 * sec), nil},
	{"check.kv.type", kE, "cache", []string{"backend", "cache", "consul", "redis", "memory", ""}},
	{"check.kv.ttl", kD, d(30 * sec), []string{d(ms - 1), d(ms), d(10*sec - 1), d(10 * sec), d(86400 * sec), d(86400*sec + 1)}},
	{"web.timeout", kD, d(60 * sec), nil},
	{"safe_browsing.cache_size", kI, "1024", nil},
	{"safe_browsing.cache_ttl", kD, d(3600 * sec), nil},
	{"safe_browsing.refresh_interval", kD, d(3600 * sec), nil},
	{"safe_browsing.refresh_timeout", kD, d(60 * sec), nil},
	{"adult_blocking.cache_size", kI, "1024", nil},
	{"adult_blocking.cache_ttl", kD, d(3600 * sec), nil},
	{"adult_blocking.refresh_interval", kD, d(3600 * sec), nil},
	{"adult_blocking.refresh_timeout", kD, d(60 * sec), nil},
	{"filters.custom_filter_cache_size", kI, "1024", nil},
	{"filters.safe_search_cache_size", kI, "1024", nil},
	{"filters.response_ttl", kD, d(300 * sec), nil},
	{"filters.refresh_interval", kD, d(3600 * sec), nil},
	{"filters.refresh_timeout", kD, d(300 * sec), nil},
	{"filters.index_refresh_timeout", kD, d(60 * sec), nil},
	{"filters.rule_list_refresh_timeout", kD, d(60 * sec), nil},
	{"filters.max_size", kB, "268435456", nil},
	{"filters.ede_enabled", kT, "1", nil},
	{"filters.sde_enabled", kT, "1", nil},
	{"filters.rule_list_cache.enabled", kT, "1", nil},
	{"filters.rule_list_cache.size", kI, "10000", nil},
	{"interface_listeners.channel_buffer_size", kI, "1000", []string{"35184372088820", "35184372088821", "35184372088832"}},
	{"network.so_sndbuf", kB, "0", []string{"2147483646", "2147483647", "2147483648"}},
	{"network.so_rcvbuf", kB, "0", []string{"2147483646", "2147483647", "2147483648"}},
	// Second wave: strings that must not be empty, ports, DDR port consistency.
	{"upstream.healthcheck.domain_template", kS, "${RANDOM}.neverssl.com", nil},
	{"check.node_location", kS, "ams", nil},
	{"check.node_name", kS, "eu-1.dns.example.com", nil},
	{"server_groups.0.ddr.device_records.https_port", kP, "443", nil},
	{"server_groups.0.ddr.device_records.quic_port", kP, "853", nil},
	{"server_groups.0.ddr.device_records.tls_port", kP, "853", nil},
	{"server_groups.0.ddr.public_records.https_port", kP, "443", nil},
	{"server_groups.0.ddr.public_records.quic_port", kP, "853", nil},
	{"server_groups.0.ddr.public_records.tls_port", kP, "853", nil},
	{"interface_listeners.list.eth0_plain_dns.port", kP, "53", nil},
	{"interface_listeners.list.eth0_plain_dns_secondary.port", kP, "5353", nil},
	// Third wave: cross-references and the protocols of the servers bound to addresses.
	{"server_groups.0.filtering_group", kX, "default", []string{"default", "family", "non_filtering", "nope", ""}},
	{"filtering_groups.0.id", kX, "default", []string{"default", "family", "non_filtering", "other", ""}},
	{"filtering_groups.0.rule_lists.0", kX, "adguard_dns_filter", []string{"adguard_dns_filter", "unknown_list", ""}},
	{"server_groups.0.servers.0.bind_interfaces.0.id", kX, "eth0_plain_dns",
		[]string{"eth0_plain_dns", "eth0_plain_dns_secondary", "nope", ""}},
	{"server_groups.0.servers.1.protocol", kX, "tls", protoPool},
	{"server_groups.0.servers.2.protocol", kX, "https", protoPool},
	{"server_groups.0.servers.3.protocol", kX, "quic", protoPool},
}

var protoPool = []string{"dns", "tls", "https", "quic", "dnscrypt", "bogus", "TLS", ""}

// indexIDs is the content of the filter index offered to the conversion of
// the filtering groups.
var indexIDs = []string{"adguard_dns_filter"}

// yamlSegs gives the YAML path of the fields whose canonical name (the one the
// error messages use) differs from the path in the file.
var yamlSegs = map[string][]string{
	"filtering_groups.0.rule_lists.0": {"filtering_groups", "0", "rule_lists", "ids", "0"},
}

// mapKeys gives the YAML path of the fields whose canonical name leaves out a
// map key that contains dots.
var mapKeys = map[string]string{
	"server_groups.0.ddr.device_records": "*.d.dns.example.com",
	"server_groups.0.ddr.public_records": "dns.example.com",
}

// segsOf splits a canonical path into YAML path segments.
func segsOf(path string) (segs []string) {
	if ys, ok := yamlSegs[path]; ok {
		return ys
	}
	for pre, key := range mapKeys {
		if strings.HasPrefix(path, pre+".") {
			segs = append(strings.Split(pre, "."), key)

			return append(segs, strings.Split(strings.TrimPrefix(path, pre+"."), ".")...)
		}
	}

	return strings.Split(path, ".")
}

// sections that can be removed; optional ones are accepted when absent.
var sections = []string{
	"ratelimit", "ratelimit.allowlist", "ratelimit.connection_limit", "ratelimit.ipv4", "ratelimit.ipv6",
	"ratelimit.quic", "ratelimit.tcp", "upstream", "upstream.fallback", "upstream.healthcheck", "cache",
	"cache.ttl_override", "dnsdb", "dns", "backend", "geoip", "check", "check.kv", "web", "safe_browsing",
	"adult_blocking", "filters", "filters.rule_list_cache", "interface_listeners", "network",
	"upstream.servers", "upstream.fallback.servers", "query_log", "query_log.file", "filtering_groups",
	"filtering_groups.0.parental", "filtering_groups.0.rule_lists", "filtering_groups.0.safe_browsing",
	"server_groups", "server_groups.0.ddr", "server_groups.0.servers", "server_groups.0.tls",
	"connectivity_check", "access", "additional_metrics_info", "interface_listeners.list",
}

var optionalSection = map[string]bool{"web": true, "interface_listeners": true, "additional_metrics_info": true}

var fieldByPath = map[string]*field{}

// pool returns the candidate values of f: decimal strings, "-" meaning absent.
func pool(f *field) (vals []string) {
	switch f.kind {
	case kU:
		vals = []string{"-", "-1", "0", "1", "2", "2147483648", "4294967295", "4294967296", "4294967297",
			"9223372036854775807", "9223372036854775808", "18446744073709551615", "36893488147419103232"}
	case kI:
		vals = []string{"-", "-9223372036854775808", "-4294967297", "-4294967295", "-2147483649", "-2147483647",
			"-1", "0", "1", "2", "2147483647", "2147483648", "4294967297", "9223372036854775807", "9223372036854775808"}
	case kD:
		vals = []string{"-", "-9223372036854775808", "-4294967295", d(-sec), "-1", "0", "1", d(ms), d(sec),
			"4294967297", "9223372036854775807", "9223372036854775808"}
	case kB:
		vals = []string{"-", "-1", "0", "1", "512", "4294967296", "18446744073709551615", "18446744073709551616"}
	case kE, kX:
		return append([]string{"-"}, f.extra...)
	case kT:
		return []string{"-", "0", "1"}
	case kP:
		vals = []string{"-", "-1", "0", "1", "53", "443", "853", "5353", "65535", "65536"}
	case kS:
		return []string{"-", "", "x.example", f.dist}
	}

	return append(append(vals, f.extra...), f.dist)
}

// mut is one replaced scalar; val "-" means the key is removed.
type mut struct {
	path string
	val  string
}

type kase struct {
	muts  []mut
	drops []string
}

// canon is the model op line and canonical text of the case.
func (k *kase) canon() string {
	toks := []string{"cfg"}
	for _, m := range k.muts {
		toks = append(toks, m.path+"="+m.val)
	}
	for _, s := range k.drops {
		toks = append(toks, "-"+s)
	}

	return strings.Join(toks, " ")
}

// raw renders a value as YAML scalar text.
func raw(f *field, v string) string {
	switch f.kind {
	case kD:
		return v + "ns"
	case kB:
		return v + "B"
	case kE, kS, kX:
		return strconv.Quote(v)
	case kT:
		if v == "1" {
			return "true"
		}

		return "false"
	default:
		return v
	}
}

// YAML tree helpers ----------------------------------------------------------

func getChild(n any, seg string) (child any, ok bool) {
	switch t := n.(type) {
	case yaml.MapSlice:
		for _, it := range t {
			if fmt.Sprint(it.Key) == seg {
				return it.Value, true
			}
		}
	case []any:
		i, err := strconv.Atoi(seg)
		if err == nil && i < len(t) {
			return t[i], true
		}
	}

	return nil, false
}

// setPath returns n with the value at segs replaced by v (del: key removed).
func setPath(n any, segs []string, v any, del bool) any {
	switch t := n.(type) {
	case yaml.MapSlice:
		out := make(yaml.MapSlice, 0, len(t)+1)
		found := false
		for _, it := range t {
			if fmt.Sprint(it.Key) != segs[0] {
				out = append(out, it)

				continue
			}
			found = true
			if len(segs) == 1 {
				if !del {
					out = append(out, yaml.MapItem{Key: it.Key, Value: v})
				}
			} else {
				out = append(out, yaml.MapItem{Key: it.Key, Value: setPath(it.Value, segs[1:], v, del)})
			}
		}
		if !found && len(segs) == 1 && !del {
			out = append(out, yaml.MapItem{Key: segs[0], Value: v})
		}

		return out
	case []any:
		i, err := strconv.Atoi(segs[0])
		if err != nil || i >= len(t) {
			return n
		}
		out := append([]any{}, t...)
		if len(segs) == 1 {
			out[i] = v
		} else {
			out[i] = setPath(t[i], segs[1:], v, del)
		}

		return out
	}

	return n
}

var distTree yaml.MapSlice

// render produces the YAML text of the case.
func (k *kase) render() []byte {
	var tree any = distTree
	repl := []string{}
	for i, m := range k.muts {
		f := fieldByPath[m.path]
		segs := segsOf(m.path)
		if m.val == "-" {
			tree = setPath(tree, segs, nil, true)

			continue
		}
		ph := fmt.Sprintf("ZZPH%dZZ", i)
		tree = setPath(tree, segs, ph, false)
		repl = append(repl, ph, raw(f, m.val))
	}
	for _, s := range k.drops {
		tree = setPath(tree, strings.Split(s, "."), nil, true)
	}
	b, err := yaml.Marshal(tree)
	hlib.Must(err)

	return []byte(strings.NewReplacer(repl...).Replace(string(b)))
}

// Independent specification of the documented constraints --------------------

// vals is the effective content of the mutated file as the harness wrote it.
type vals struct {
	v       map[string]string
	dropped map[string]bool
}

func (k *kase) vals() *vals {
	vs := &vals{v: map[string]string{}, dropped: map[string]bool{}}
	for i := range fields {
		vs.v[fields[i].path] = fields[i].dist
	}
	for _, m := range k.muts {
		f := fieldByPath[m.path]
		if m.val == "-" {
			// An absent key is the Go zero value.
			switch f.kind {
			case kE, kS, kX:
				vs.v[m.path] = ""
			default:
				vs.v[m.path] = "0"
			}
		} else {
			vs.v[m.path] = m.val
		}
	}
	for _, s := range k.drops {
		vs.dropped[s] = true
	}

	return vs
}

func (vs *vals) n(p string) *big.Int {
	x, ok := new(big.Int).SetString(vs.v[p], 10)
	if !ok {
		panic("not a number: " + p + "=" + vs.v[p])
	}

	return x
}
func (vs *vals) s(p string) string { return vs.v[p] }
func (vs *vals) b(p string) bool   { return vs.v[p] == "1" }

// present reports whether every section on the way to path p exists.
func (vs *vals) present(p string) bool {
	segs := strings.Split(p, ".")
	for i := 1; i <= len(segs); i++ {
		if vs.dropped[strings.Join(segs[:i], ".")] {
			return false
		}
	}

	return true
}

func bi(n int64) *big.Int { return big.NewInt(n) }

var (
	maxU64 = new(big.Int).SetUint64(^uint64(0))
	minI64 = bi(-1 << 63)
	maxI64 = bi(1<<63 - 1)
)

// fitsType reports whether the value can be decoded into the Go type.
func fitsType(f *field, v string) bool {
	if v == "-" || f.kind == kE || f.kind == kT || f.kind == kS || f.kind == kX {
		return true
	}
	x, _ := new(big.Int).SetString(v, 10)
	switch f.kind {
	case kP:
		return x.Sign() >= 0 && x.Cmp(bi(65535)) <= 0
	case kU, kB:
		return x.Sign() >= 0 && x.Cmp(maxU64) <= 0
	default:
		return x.Cmp(minI64) >= 0 && x.Cmp(maxI64) <= 0
	}
}

func le0(x *big.Int) bool { return x.Sign() <= 0 }

// positive lists the properties that are documented as positive without a
// condition.
var positive = []string{
	"ratelimit.allowlist.refresh_interval", "ratelimit.ipv4.count", "ratelimit.ipv4.interval",
	"ratelimit.ipv4.subnet_key_len", "ratelimit.ipv6.count", "ratelimit.ipv6.interval",
	"ratelimit.ipv6.subnet_key_len", "ratelimit.quic.max_streams_per_peer", "ratelimit.tcp.max_pipeline_count",
	"ratelimit.backoff_count", "ratelimit.backoff_duration", "ratelimit.backoff_period",
	"ratelimit.response_size_estimate", "upstream.servers.0.timeout", "upstream.servers.1.timeout",
	"upstream.fallback.servers.0.timeout", "upstream.fallback.servers.1.timeout", "cache.ttl_override.min",
	"dns.read_timeout", "dns.tcp_idle_timeout", "dns.write_timeout", "dns.handle_timeout",
	"dns.max_udp_response_size", "backend.refresh_interval", "backend.full_refresh_interval",
	"backend.full_refresh_retry_interval", "backend.bill_stat_interval", "geoip.host_cache_size",
	"geoip.ip_cache_size", "geoip.refresh_interval", "web.timeout", "safe_browsing.cache_size",
	"safe_browsing.cache_ttl", "safe_browsing.refresh_interval", "safe_browsing.refresh_timeout",
	"adult_blocking.cache_size", "adult_blocking.cache_ttl", "adult_blocking.refresh_interval",
	"adult_blocking.refresh_timeout", "filters.custom_filter_cache_size", "filters.safe_search_cache_size",
	"filters.response_ttl", "filters.refresh_interval", "filters.refresh_timeout", "filters.index_refresh_timeout",
	"filters.rule_list_refresh_timeout", "filters.max_size", "filters.rule_list_cache.size",
	"interface_listeners.channel_buffer_size",
}

// offenders returns the paths whose value breaks a documented constraint, and
// the required sections that are missing.
func (vs *vals) offenders() (bad []string) {
	add := func(p string, cond bool) {
		if cond && vs.present(p) {
			bad = append(bad, p)
		}
	}
	for _, s := range sections {
		if s == "server_groups.0.tls" {
			// Required exactly when a server speaks an encrypted protocol.
			continue
		}
		if vs.dropped[s] && !optionalSection[s] && vs.present(parent(s)) {
			bad = append(bad, s)
		}
	}
	if vs.present("server_groups.0.servers") && vs.present("server_groups") {
		if tlsThere := !vs.dropped["server_groups.0.tls"]; tlsThere != vs.needsTLS() {
			bad = append(bad, "server_groups.0.tls")
		}
	}
	for _, p := range positive {
		add(p, le0(vs.n(p)))
	}
	add("ratelimit.allowlist.type", vs.s("ratelimit.allowlist.type") != "backend" && vs.s("ratelimit.allowlist.type") != "consul")
	if vs.b("ratelimit.connection_limit.enabled") {
		stop, resume := vs.n("ratelimit.connection_limit.stop"), vs.n("ratelimit.connection_limit.resume")
		add("ratelimit.connection_limit.stop", le0(stop))
		add("ratelimit.connection_limit.resume", le0(resume) || resume.Cmp(stop) > 0)
	}
	add("ratelimit.ipv4.subnet_key_len", vs.n("ratelimit.ipv4.subnet_key_len").Cmp(bi(32)) > 0)
	add("ratelimit.ipv6.subnet_key_len", vs.n("ratelimit.ipv6.subnet_key_len").Cmp(bi(128)) > 0)
	if vs.b("upstream.healthcheck.enabled") {
		for _, p := range []string{"interval", "timeout", "backoff_duration"} {
			add("upstream.healthcheck."+p, le0(vs.n("upstream.healthcheck."+p)))
		}
	}
	ct := vs.s("cache.type")
	add("cache.type", ct != "simple" && ct != "ecs")
	add("cache.size", vs.n("cache.size").Sign() < 0)
	add("cache.ecs_size", ct == "ecs" && le0(vs.n("cache.ecs_size")))
	add("dnsdb.max_size", vs.b("dnsdb.enabled") && le0(vs.n("dnsdb.max_size")))
	add("dns.tcp_idle_timeout", vs.n("dns.tcp_idle_timeout").Cmp(bi(6553500*ms)) > 0)
	add("dns.max_udp_response_size", vs.n("dns.max_udp_response_size").Cmp(bi(65535)) > 0)
	add("backend.timeout", vs.n("backend.timeout").Sign() < 0)
	ttl := vs.n("check.kv.ttl")
	switch vs.s("check.kv.type") {
	case "backend":
		add("check.kv.ttl", le0(ttl))
	case "cache":
	case "consul":
		add("check.kv.ttl", ttl.Cmp(bi(10*sec)) < 0 || ttl.Cmp(bi(86400*sec)) > 0)
	case "redis":
		add("check.kv.ttl", ttl.Cmp(bi(ms)) < 0)
	default:
		add("check.kv.type", true)
	}
	add("filters.sde_enabled", vs.b("filters.sde_enabled") && !vs.b("filters.ede_enabled"))
	add("upstream.healthcheck.domain_template", vs.b("upstream.healthcheck.enabled") &&
		vs.s("upstream.healthcheck.domain_template") == "")
	add("check.node_location", vs.s("check.node_location") == "")
	add("check.node_name", vs.s("check.node_name") == "")
	for _, rec := range []string{"server_groups.0.ddr.device_records", "server_groups.0.ddr.public_records"} {
		// doc/configuration.md: a non-zero https_port should not be the same as
		// tls_port; a record without any port announces nothing.
		https, quic, tls := vs.n(rec+".https_port"), vs.n(rec+".quic_port"), vs.n(rec+".tls_port")
		add(rec+".https_port", https.Sign() != 0 && https.Cmp(tls) == 0)
		add(rec, https.Sign() == 0 && quic.Sign() == 0 && tls.Sign() == 0)
	}
	if vs.present("interface_listeners") {
		add("interface_listeners.list.eth0_plain_dns.port", vs.n("interface_listeners.list.eth0_plain_dns.port").Sign() == 0)
		add("interface_listeners.list.eth0_plain_dns_secondary.port",
			vs.n("interface_listeners.list.eth0_plain_dns_secondary.port").Sign() == 0)
	}
	// Cross-references and protocols (doc/configuration.md, "Server groups",
	// "Filtering groups"; the note on connection limits: every bound stream
	// address occupies one slot of the limiter).
	add("server_groups.0.filtering_group", vs.s("server_groups.0.filtering_group") == "")
	add("filtering_groups.0.id", vs.s("filtering_groups.0.id") == "")
	add("filtering_groups.1.id", vs.s("filtering_groups.0.id") == "family")
	add("filtering_groups.2.id", vs.s("filtering_groups.0.id") == "non_filtering")
	add("filtering_groups.0.rule_lists.0", vs.s("filtering_groups.0.rule_lists.0") == "")
	add("server_groups.0.servers.0.bind_interfaces.0.id", vs.s("server_groups.0.servers.0.bind_interfaces.0.id") == "")
	for _, i := range []string{"1", "2", "3"} {
		p := "server_groups.0.servers." + i + ".protocol"
		switch vs.s(p) {
		case "dns", "tls", "https", "quic":
		default:
			// dnscrypt is a protocol, but these servers have no dnscrypt settings.
			add(p, true)
		}
	}
	if vs.b("ratelimit.connection_limit.enabled") && vs.present("server_groups.0.servers") && vs.present("server_groups") {
		add("ratelimit.connection_limit.resume",
			vs.n("ratelimit.connection_limit.resume").Cmp(bi(int64(vs.streamAddrs()))) < 0)
	}
	add("network.so_sndbuf", vs.n("network.so_sndbuf").Cmp(bi(1<<31-1)) > 0)
	add("network.so_rcvbuf", vs.n("network.so_rcvbuf").Cmp(bi(1<<31-1)) > 0)

	return bad
}

// needsTLS reports whether one of the servers speaks an encrypted protocol.
func (vs *vals) needsTLS() bool {
	for _, i := range []string{"1", "2", "3"} {
		switch vs.s("server_groups.0.servers." + i + ".protocol") {
		case "tls", "https", "quic":
			return true
		}
	}

	return false
}

// streamAddrs is the number of addresses on which the servers of the mutated
// file accept stream connections, counted from the file as distributed: two
// interface subnets for the plain-DNS server, one address each for servers 1, 2,
// 4 and 5, two for server 3; DNS-over-QUIC uses no stream socket.
func (vs *vals) streamAddrs() (n int) {
	n = 2 + 1 + 1
	for i, addrs := range map[string]int{"1": 1, "2": 1, "3": 2} {
		if vs.s("server_groups.0.servers."+i+".protocol") != "quic" {
			n += addrs
		}
	}

	return n
}

// dangling lists, for a file that passes validation, the cross-references that
// cannot be resolved at start-up, each with the words its report must contain.
func (vs *vals) dangling() (bad [][]string) {
	ifaces := vs.present("interface_listeners")
	if ifaces && vs.n("interface_listeners.list.eth0_plain_dns.port").Cmp(vs.n("interface_listeners.list.eth0_plain_dns_secondary.port")) == 0 {
		bad = append(bad, []string{"eth0_plain_dns", "already exists"})
	}
	if id := vs.s("filtering_groups.0.rule_lists.0"); id != indexIDs[0] {
		bad = append(bad, []string{strconv.Quote(id), "not in the index"})
	}
	fg := vs.s("server_groups.0.filtering_group")
	if fg != vs.s("filtering_groups.0.id") && fg != "family" && fg != "non_filtering" {
		bad = append(bad, []string{"filtering group " + strconv.Quote(fg)})
	}
	if !ifaces {
		bad = append(bad, []string{"bind_interfaces", "interface_listeners"})
	}
	switch id := vs.s("server_groups.0.servers.0.bind_interfaces.0.id"); id {
	case "eth0_plain_dns":
	case "eth0_plain_dns_secondary":
		bad = append(bad, []string{strconv.Quote(id), "already registered"})
	default:
		bad = append(bad, []string{strconv.Quote(id), "no interface listener"})
	}

	return bad
}

func parent(p string) string {
	i := strings.LastIndex(p, ".")
	if i < 0 {
		return ""
	}

	return p[:i]
}

// names reports whether the error text names property p: its top-level section
// leads the message, list indexes appear as "at index N" and the property's own
// key appears as a whole word.
func names(msg, p string) bool {
	segs := strings.Split(p, ".")
	if !strings.HasPrefix(msg, segs[0]+":") && !strings.HasPrefix(msg, segs[0]+" ") {
		return false
	}
	for i, s := range segs[1:] {
		if s == "list" && i+2 < len(segs) {
			// interface_listeners.list.<id> is reported as `interface "<id>"`.
			continue
		}
		if _, err := strconv.Atoi(s); err == nil {
			if !strings.Contains(msg, "at index "+s) {
				return false
			}

			continue
		}
		tok := s
		if s == "sde_enabled" {
			tok = "sde"
		}
		re := regexp.MustCompile(`(^|[^a-z_0-9])` + regexp.QuoteMeta(tok) + `([^a-z_0-9]|$)`)
		if !re.MatchString(msg) {
			return false
		}
	}

	return true
}

// Canonical form of the real error ------------------------------------------

var kindPhrases = []struct{ prefix, kind string }{
	{"not positive", "notpositive"},
	{"negative value", "negative"},
	{"out of range", "range"},
	{"bad enum value", "enum"},
	{"no value", "novalue"},
	{"empty value", "empty"},
	{"must be less than or equal to stop", "cross"},
	{"cannot be same as", "cross"},
	{"all ports are zero", "allzero"},
	{"no servers", "empty"},
	{"server group requires tls", "novalue"},
	{"server group does not require tls", "cross"},
	{"protocol dnscrypt requires", "cross"},
	{"duplicated value", "dup"},
	{"bad filter id", "badid"},
}

// canonErr maps a validation error to `path:kind[;path:kind…]`.
func canonErr(msg string) string {
	var out []string
	top := ""
	for i, ln := range strings.Split(msg, "\n") {
		var path []string
		kind := "other"
	segs:
		for _, s := range strings.Split(ln, ": ") {
			for _, kp := range kindPhrases {
				if strings.HasPrefix(s, kp.prefix) {
					kind = kp.kind

					break segs
				}
			}
			switch {
			case strings.HasPrefix(s, "at index "):
				path = append(path, strings.TrimPrefix(s, "at index "))
			case strings.HasPrefix(s, `interface "`):
				path = append(path, "list", strings.Trim(strings.TrimPrefix(s, "interface "), `"`))
			case strings.HasPrefix(s, `wildcard "`), strings.HasPrefix(s, `domain "`):
				// The map key of a DDR record is not part of the canonical path.
			case len(path) > 0 && path[len(path)-1] == s:
				// `filtering_groups: filtering_groups: empty value`.
			case strings.HasPrefix(s, "max_udp_response_size must be less than"):
				path = append(path, "max_udp_response_size")
				kind = "range"

				break segs
			case s == "ede must be enabled to enable sde":
				path = append(path, "sde_enabled")
				kind = "cross"

				break segs
			default:
				path = append(path, s)
			}
		}
		if i == 0 && len(path) > 0 {
			top = path[0]
		} else if i > 0 {
			path = append([]string{top}, path...)
		}
		out = append(out, strings.Join(path, ".")+":"+kind)
	}

	return strings.Join(out, ";")
}

// Real-code side --------------------------------------------------------------

type outcome struct {
	verdict string // ok | parse | err … | panic …
	errText string
	conv    string
	build   string
	handle  []string
	// xconv is the result of the conversions that resolve cross-references
	// ("ok <stream listeners>", "xerr stage:what", "panic …"; empty: not run),
	// xerrText the start-up error, lsn the "<accepting> <parked>" listeners.
	xconv    string
	xerrText string
	lsn      string
	// v and data are the parsed configuration and its text, for the stages
	// that follow an accepted case.
	v    *cmd.VerifC20Conf
	data []byte
}

var discard = slog.New(slog.NewTextHandler(io.Discard, nil))

func catch(what string, f func()) (p string) {
	defer func() {
		if v := recover(); v != nil {
			p = fmt.Sprintf("panic %s: %v", what, v)
		}
	}()
	f()

	return ""
}

func mkResp(req *dns.Msg, l int) *dns.Msg {
	resp := new(dns.Msg).SetReply(req)
	resp.Answer = append(resp.Answer, &dns.A{
		Hdr: dns.RR_Header{Name: req.Question[0].Name, Rrtype: dns.TypeA, Class: dns.ClassINET, Ttl: 100},
		A:   net.IP{192, 0, 2, 1},
	})
	for resp.Len() < l {
		txt := strings.Repeat("x", min(200, max(1, l-resp.Len()-20)))
		resp.Extra = append(resp.Extra, &dns.TXT{
			Hdr: dns.RR_Header{Name: "p.", Rrtype: dns.TypeTXT, Class: dns.ClassINET, Ttl: 1},
			Txt: []string{txt},
		})
	}

	return resp
}

type query struct {
	ip      netip.Addr
	tcp     bool
	respLen int
}

var queries = []query{
	{netip.MustParseAddr("1.2.3.4"), false, 60},
	{netip.MustParseAddr("2001:db8::1"), false, 3000},
	{netip.MustParseAddr("200.1.2.3"), true, 700},
}

func cacheTypeName(t dnssvc.CacheType) string {
	switch t {
	case dnssvc.CacheTypeNone:
		return "none"
	case dnssvc.CacheTypeSimple:
		return "simple"
	case dnssvc.CacheTypeECS:
		return "ecs"
	}

	return fmt.Sprint(t)
}

func b2s(b bool) string {
	if b {
		return "1"
	}

	return "0"
}

// panicListener records panics recovered inside the server.
type panicListener struct {
	dnsserver.EmptyMetricsListener
	got chan string
}

func (l *panicListener) OnPanic(_ context.Context, v any) {
	select {
	case l.got <- fmt.Sprint(v):
	default:
	}
}

// tcpServiceable starts a real TCP server with the converted settings and
// reports whether one query gets an answer.
func tcpServiceable(s *agd.Server) (ok bool, panicked string) {
	pl := &panicListener{got: make(chan string, 1)}
	defer func() {
		select {
		case v := <-pl.got:
			panicked = "panic tcp-conn: " + v
		default:
		}
	}()
	panicked = catch("newServerDNS", func() {
		h := dnsserver.HandlerFunc(func(ctx context.Context, rw dnsserver.ResponseWriter, req *dns.Msg) error {
			return rw.WriteMsg(ctx, req, mkResp(req, 40))
		})
		// The production constructor of the listeners, dnssvc.NewListener, on
		// the converted server.  The verdict must not depend on scheduling:
		// the configured (possibly nanosecond) timeouts are checked by the
		// conversion comparison and by the constructor step, not here.
		tc := *s.TCPConf
		tc.IdleTimeout = 2 * time.Second
		s2 := &agd.Server{
			Name: s.Name, Protocol: s.Protocol, TCPConf: &tc, UDPConf: s.UDPConf,
			ReadTimeout: 2 * time.Second, WriteTimeout: 2 * time.Second,
		}
		srv, lerr := dnssvc.NewListener(s2, dnsserver.ConfigBase{
			Name: "verif", Addr: "127.0.0.1:0", Handler: h, Network: dnsserver.NetworkTCP, Metrics: pl,
		}, nil)
		hlib.Must(lerr)
		ctx := context.Background()
		hlib.Must(srv.Start(ctx))
		defer func() {
			sctx, cancel := context.WithTimeout(ctx, 200*time.Millisecond)
			defer cancel()
			_ = srv.Shutdown(sctx)
		}()
		conn, err := net.DialTimeout("tcp", srv.LocalTCPAddr().String(), time.Second)
		hlib.Must(err)
		defer conn.Close()
		c := &dns.Conn{Conn: conn}
		req := new(dns.Msg).SetQuestion("example.org.", dns.TypeA)
		_ = conn.SetDeadline(time.Now().Add(1500 * time.Millisecond))
		if err = c.WriteMsg(req); err != nil {
			return
		}
		resp, err := c.ReadMsg()
		ok = err == nil && resp != nil && resp.Id == req.Id
	})

	return ok, panicked
}

// chanAllocLimit is the number of pointer-sized elements from which makechan
// refuses a buffer on a 64-bit platform: 8n > maxAlloc (2^48) - hchanSize (96).
const chanAllocLimit = 1<<45 - 11

type runner struct {
	o   *hlib.Opts
	r   *hlib.Result
	rng *rand.Rand
	// tcpBudget bounds the number of real TCP servers started.
	tcpBudget int
	// bs is the backend stage (nil: the loopback cannot be used), fs the
	// full-build stage, sc the scratch directory both use.
	bs *backendStage
	fs *fullStage
	sc *scratch
	// gates are the gates of the finished cases: a goroutine may panic after
	// its case has been judged.
	gates []*gate
}

// runReal parses, validates and, when accepted, builds and drives the real
// objects.
func (rn *runner) runReal(k *kase, vs *vals) (oc outcome) {
	data := k.render()
	var v *cmd.VerifC20Conf
	var perr, verr error
	if p := catch("parse", func() { v, perr = cmd.VerifC20Parse(data) }); p != "" {
		oc.verdict = p

		return oc
	}
	if perr != nil {
		oc.verdict, oc.errText = "parse", perr.Error()

		return oc
	}
	if p := catch("validate", func() { verr = v.VerifC20Validate() }); p != "" {
		oc.verdict = p

		return oc
	}
	if verr != nil {
		oc.verdict, oc.errText = "err "+canonErr(verr.Error()), verr.Error()

		return oc
	}
	oc.verdict = "ok"
	oc.v, oc.data = v, data
	leaveCrumb("main-campaign", k.canon(), nil)

	// Conversions.
	al := ratelimit.NewDynamicAllowlist(nil, nil)
	var srvs []*agd.Server
	var cc *dnssvc.CacheConfig
	var bc *ratelimit.BackoffConfig
	p := catch("toInternal", func() {
		cc = v.VerifC20Cache()
		bc = v.VerifC20BackoffConf(al)
		// NewForwardMetricsListener registers its collectors on every call.
		prometheus.DefaultRegisterer = prometheus.NewRegistry()
		fw := v.VerifC20Forward(discard)
		var err error
		srvs, err = v.VerifC20Servers(netip.MustParseAddrPort("127.0.0.1:0"))
		hlib.Must(err)
		sd, sdot, sq := srvs[0], srvs[1], srvs[2]
		// The thresholds the built limiter really works with.
		connLim := "0"
		if lim := v.VerifC20ConnLimiter(discard); lim != nil {
			_, stop, resume, _ := connlimiter.VerifC18Snapshot(lim)
			connLim = fmt.Sprintf("1,%d,%d", stop, resume)
		}
		oc.conv = fmt.Sprintf("cache=%s noecs=%d ecs=%d minttl=%d override=%s connlim=%s hcinit=%d "+
			"bk=%d,%d,%d,%d v4=%d,%d,%d v6=%d,%d,%d tcp=%s,%d quic=%s,%d dns=%d,%d,%d,%d dot=%s,%d,%d,%d,%d",
			cacheTypeName(cc.Type), cc.NoECSCount, cc.ECSCount, cc.MinTTL, b2s(cc.OverrideCacheTTL),
			connLim, fw.HealthcheckInitDuration,
			bc.Count, bc.Period, bc.Duration, uint64(bc.ResponseSizeEstimate),
			bc.IPv4Count, bc.IPv4Interval, bc.IPv4SubnetKeyLen, bc.IPv6Count, bc.IPv6Interval, bc.IPv6SubnetKeyLen,
			b2s(sd.TCPConf.MaxPipelineEnabled), sd.TCPConf.MaxPipelineCount,
			b2s(sq.QUICConf.QUICLimitsEnabled), sq.QUICConf.MaxStreamsPerPeer,
			sd.ReadTimeout, sd.WriteTimeout, sd.TCPConf.IdleTimeout, sd.UDPConf.MaxRespSize,
			b2s(sdot.TCPConf.MaxPipelineEnabled), sdot.TCPConf.MaxPipelineCount, sdot.TCPConf.IdleTimeout,
			sdot.ReadTimeout, sdot.WriteTimeout)
	})
	if p != "" {
		oc.conv, oc.build = p, p

		return oc
	}

	// Sizes beyond 2^20 entries are validated and converted, but the caches
	// and buffers are not allocated here: whether that succeeds depends on the
	// memory of the machine, not on the configuration logic.
	// The decision uses the converted values, i.e. what the constructors
	// would really receive.
	ints := v.VerifC20Ints()
	_, dbMax := v.VerifC20DNSDB()
	sizes := []int{cc.NoECSCount, cc.ECSCount, dbMax}
	const chanName = "interface_listeners.channel_buffer_size"
	for name, n := range ints {
		if name != chanName {
			sizes = append(sizes, n)
		}
	}
	// A channel of 2^45-11 pointers or more is refused by the runtime before
	// anything is allocated (makechan: size out of range): that is decided by
	// the configuration alone and is run on the real code.
	if n := ints[chanName]; n > 1<<20 && n < chanAllocLimit {
		sizes = append(sizes, n)
	}
	for _, n := range sizes {
		if n > 1<<20 {
			rn.r.Count("skipped-huge-alloc")
			oc.build = "skipped"

			return oc
		}
	}

	// Start-up constructors.
	var st *stack.Stack
	var respLen int
	steps := []struct {
		what string
		f    func()
	}{
		{"connlimiter", func() {
			lim := v.VerifC20ConnLimiter(discard)
			if (lim != nil) != vs.b("ratelimit.connection_limit.enabled") {
				panic("limiter presence does not follow `enabled`")
			}
		}},
		{"dns-handlers", func() {
			st = stack.New(&stack.Config{
				RateLimit: v.VerifC20Backoff(al),
				Cache:     cc,
				Upstream: dnsserver.HandlerFunc(func(ctx context.Context, rw dnsserver.ResponseWriter, req *dns.Msg) error {
					return rw.WriteMsg(ctx, req, mkResp(req, respLen))
				}),
				Servers: []*agd.Server{stack.NewServer("dns", agd.ProtoDNS, true)},
			})
		}},
		{"lru", func() {
			for _, name := range hlib.SortedKeys(ints) {
				n := ints[name]
				if name == chanName {
					// The real builder step that creates the channels of
					// the interface listeners; its errors (duplicate
					// listeners) belong to the cross-reference stage.
					if q := catch(name, func() { _, _ = v.VerifC20InterfaceListeners(discard) }); q != "" {
						panic(q)
					}
					if n >= chanAllocLimit {
						rn.r.Count("real-huge-channel-buffer")
					}

					continue
				}
				if q := catch(name, func() { agdcache.NewLRU[string, int](&agdcache.LRUConfig{Count: n}) }); q != "" {
					panic(q)
				}
			}
		}},
		{"listeners", func() {
			// The production constructor of the listeners of every converted
			// server (plain DNS, DoT, DoQ); nothing is bound before Start.
			for _, s := range srvs {
				if q := catch("listener "+string(s.Name), func() {
					_, lerr := dnssvc.NewListener(s, dnsserver.ConfigBase{
						Name: string(s.Name), Addr: "127.0.0.1:0", Network: dnsserver.NetworkAny,
					}, nil)
					hlib.Must(lerr)
				}); q != "" {
					panic(q)
				}
			}
		}},
	}
	oc.build = "ok"
	for _, s := range steps {
		if p = catch(s.what, s.f); p != "" {
			oc.build = p

			return oc
		}
	}

	// Queries.
	ctx := context.Background()
	for _, q := range queries {
		respLen = q.respLen
		got := ""
		cnt := bc.IPv6Count
		if q.ip.Is4() {
			cnt = bc.IPv4Count
		}
		if cnt > 1<<20 && cnt < 1<<45 {
			// A ring of this many stamps per subnet: memory-dependent.
			rn.r.Count("skipped-huge-alloc")
			oc.handle = append(oc.handle, "skipped")

			continue
		}
		p = catch("handle", func() {
			if q.tcp && vs.b("ratelimit.tcp.enabled") {
				pc := vs.n("ratelimit.tcp.max_pipeline_count")
				small := pc.Cmp(bi(2)) <= 0 || pc.Cmp(maxI64) > 0
				if small || (rn.tcpBudget > 0 && rn.rng.IntN(8) == 0) {
					rn.tcpBudget--
					rn.r.Count("real-tcp-server")
					ok, pp := tcpServiceable(srvs[0])
					if pp != "" {
						panic(pp)
					}
					if !ok {
						got = "stuck ratelimit.tcp.max_pipeline_count"

						return
					}
				}
			}
			req := new(dns.Msg).SetQuestion(fmt.Sprintf("h%d.example.org.", q.respLen), dns.TypeA)
			out := st.Serve(ctx, &stack.Req{Server: st.Servers[0], Msg: req, Remote: netip.AddrPortFrom(q.ip, 4321),
				Local: netip.MustParseAddrPort("192.0.2.2:53")})
			switch {
			case out.Err != nil:
				got = "error " + out.Err.Error()
			case out.Resp == nil:
				got = "stuck ratelimit"
			default:
				got = "served"
			}
		})
		if p != "" {
			got = p
		}
		oc.handle = append(oc.handle, got)
	}

	rn.crossRefs(v, &oc)

	return oc
}

// xerrKinds classifies the start-up errors of the conversions.
var xerrKinds = []struct{ phrase, kind string }{
	{"unknown filtering group", "unknown-filtering-group"},
	{"is not in the index", "unknown-list"},
	{"no interface listener found", "unknown-interface"},
	{"already registered", "duplicate-bind"},
	{"already exists", "duplicate-port"},
	{"only supported when interface_listeners are set", "no-interface-listeners"},
}

// crossRefs runs the conversions that resolve the cross-references of an
// accepted configuration and, when they succeed, starts one accepting
// goroutine per stream listener of the converted servers on the configured
// connection limiter.
func (rn *runner) crossRefs(v *cmd.VerifC20Conf, oc *outcome) {
	var grps []*agd.ServerGroup
	var stage string
	var err error
	if p := catch("cross-references", func() {
		grps, stage, err = v.VerifC20ServerGroups(context.Background(), discard, indexIDs)
	}); p != "" {
		oc.xconv = p

		return
	}
	if err != nil {
		kind := "other"
		for _, k := range xerrKinds {
			if strings.Contains(err.Error(), k.phrase) {
				kind = k.kind

				break
			}
		}
		oc.xconv, oc.xerrText = "xerr "+stage+":"+kind, err.Error()

		return
	}
	n := 0
	for _, g := range grps {
		for _, s := range g.Servers {
			if s.Protocol != agd.ProtoDoQ {
				n += len(s.BindData())
			}
		}
	}
	oc.xconv = fmt.Sprintf("ok %d", n)
	var lim *connlimiter.Limiter
	if p := catch("connlimiter", func() { lim = v.VerifC20ConnLimiter(discard) }); p != "" {
		oc.lsn = p

		return
	}
	acc, parked := startListeners(lim, n)
	oc.lsn = fmt.Sprintf("%d %d", acc, parked)
}

// fakeListener is an idle stream socket: Accept blocks until Close.
type fakeListener struct {
	entered *atomic.Int64
	done    chan struct{}
	once    sync.Once
}

func (f *fakeListener) Accept() (net.Conn, error) {
	f.entered.Add(1)
	<-f.done

	return nil, net.ErrClosed
}
func (f *fakeListener) Close() error   { f.once.Do(func() { close(f.done) }); return nil }
func (f *fakeListener) Addr() net.Addr { return &net.TCPAddr{IP: net.IP{127, 0, 0, 1}} }

// startListeners wraps n idle listeners with the limiter the way
// connlimiter.ListenConfig does, lets one goroutine per listener call Accept
// and reports, once nothing can move any more, how many reached the socket and
// how many are parked inside the limiter.  No connection is ever made, so a
// parked listener stays parked: the answer does not depend on timing.
func startListeners(lim *connlimiter.Limiter, n int) (accepting, parked int) {
	if lim == nil || n == 0 {
		return n, 0
	}
	entered := &atomic.Int64{}
	var ls []net.Listener
	for i := 0; i < n; i++ {
		f := &fakeListener{entered: entered, done: make(chan struct{})}
		ls = append(ls, lim.Limit(f, &dnsserver.ServerInfo{Name: "verif", Addr: fmt.Sprintf("l%d", i), Proto: agd.ProtoDNS}))
	}
	var wg sync.WaitGroup
	started := &atomic.Int64{}
	for _, l := range ls {
		wg.Add(1)
		go func() {
			defer wg.Done()
			started.Add(1)
			_, _ = l.Accept()
		}()
	}
	// Quiescence: every goroutine runs, and either all of them hold a slot or
	// the counter accepts nothing more; every slot holder sits in its socket.
	deadline := time.Now().Add(10 * time.Second)
	for stable := 0; stable < 3 && time.Now().Before(deadline); {
		cur, _, _, isAcc := connlimiter.VerifC18Snapshot(lim)
		if started.Load() == int64(n) && (cur == uint64(n) || !isAcc) && entered.Load() == int64(cur) {
			stable++
			time.Sleep(200 * time.Microsecond)
		} else {
			stable = 0
			runtime.Gosched()
		}
	}
	accepting = int(entered.Load())
	for _, l := range ls {
		_ = l.Close()
	}
	wg.Wait()

	return accepting, n - accepting
}

// class is the coarse form of a build/handle answer compared with the model.
func class(s string) string {
	f := strings.Fields(s)
	if len(f) == 0 {
		return ""
	}

	return f[0]
}

func (rn *runner) run(k *kase, m *hlib.Model) {
	const chanName = "interface_listeners.channel_buffer_size"
	r := rn.r
	// Keys below a removed section are not in the file.
	kept := k.muts[:0:0]
	for _, mu := range k.muts {
		under := false
		for _, s := range k.drops {
			under = under || strings.HasPrefix(mu.path, s+".")
		}
		if !under {
			kept = append(kept, mu)
		}
	}
	k.muts = kept
	canon := k.canon()
	vs := k.vals()
	leaveCrumb("load", canon, nil)
	defer leaveCrumb("", "", nil)
	oc := rn.runReal(k, vs)
	replay := map[string]any{"case": canon, "how": "apply the tokens to config.dist.yaml: path=value sets a scalar " +
		"(durations in ns, sizes in bytes, `-` removes the key), -path removes a section", "real_error": oc.errText}

	// Property oracle (no model involved).
	bad := vs.offenders()
	parseBad := false
	for _, mu := range k.muts {
		if vs.present(mu.path) && !fitsType(fieldByPath[mu.path], mu.val) {
			parseBad = true
		}
	}
	switch {
	case strings.HasPrefix(oc.verdict, "panic"):
		r.Violate("crash-instead-of-report", "loading the configuration panics: "+oc.verdict, replay)
	case oc.verdict == "ok":
		for _, p := range bad {
			r.Violate("accepted-bad-value:"+p, fmt.Sprintf("validation accepts a configuration whose %s breaks its "+
				"documented constraint (value %q)", p, vs.v[p]), replay)
		}
		if strings.HasPrefix(oc.build, "panic") {
			sig := "accepted-then-panic:" + firstOr(bad, "?")
			if strings.Contains(oc.build, "makechan") && strings.Contains(oc.build, chanName) {
				sig = "accepted-then-panic:huge-channel-buffer-size"
			}
			r.Violate(sig, "accepted configuration panics at start-up: "+oc.build, replay)
		}
		for i, h := range oc.handle {
			q := queries[i]
			switch class(h) {
			case "panic":
				sig := "accepted-then-query-panic:" + firstOr(bad, "?")
				if strings.Contains(h, "makeslice") {
					sig = "accepted-then-query-panic:huge-ratelimit-count"
				} else if strings.Contains(h, "makechan") {
					sig = "accepted-then-query-panic:huge-tcp-pipeline-count"
				}
				r.Violate(sig,
					fmt.Sprintf("accepted configuration panics on a query from %s (response %d bytes): %s", q.ip, q.respLen, h), replay)
			case "stuck", "error":
				r.Violate("accepted-unserviceable:"+firstOr(bad, "?"),
					fmt.Sprintf("accepted configuration cannot serve the first query from %s: %s", q.ip, h), replay)
			}
		}
		dang := vs.dangling()
		switch {
		case strings.HasPrefix(oc.xconv, "panic"):
			r.Violate("accepted-then-panic:cross-reference", "accepted configuration panics while its "+
				"cross-references are resolved: "+oc.xconv, replay)
		case strings.HasPrefix(oc.xconv, "xerr"):
			// A start-up error is a rejection: it must be justified and name
			// the offender.
			replay["startup_error"] = oc.xerrText
			named := false
			for _, words := range dang {
				all := true
				for _, w := range words {
					all = all && strings.Contains(oc.xerrText, w)
				}
				named = named || all
			}
			if len(dang) == 0 {
				r.Violate("startup-error-without-offender", "start-up fails although every reference resolves: "+oc.xerrText, replay)
			} else if !named {
				r.Violate("startup-error-misnamed:"+strings.TrimPrefix(oc.xconv, "xerr "),
					fmt.Sprintf("the start-up error %q names none of the dangling references %v", oc.xerrText, dang), replay)
			}
		case strings.HasPrefix(oc.xconv, "ok"):
			if len(dang) > 0 {
				r.Violate("accepted-dangling-reference", fmt.Sprintf("start-up succeeds although %v cannot be resolved", dang), replay)
			}
			if want := fmt.Sprintf("ok %d", vs.streamAddrs()); oc.xconv != want {
				r.Violate("stream-listeners-miscounted", fmt.Sprintf("the converted servers have %q stream listeners, the file "+
					"describes %q", oc.xconv, want), replay)
			}
			if strings.HasPrefix(oc.lsn, "panic") {
				r.Violate("accepted-then-panic:connection-limit", oc.lsn, replay)
			} else if f := strings.Fields(oc.lsn); len(f) == 2 && f[1] != "0" {
				r.Violate("accepted-unserviceable:ratelimit.connection_limit", fmt.Sprintf("of the stream listeners of the "+
					"accepted configuration %s accept connections and %s wait for ever on the connection limiter "+
					"(stop %s, resume %s)", f[0], f[1], vs.v["ratelimit.connection_limit.stop"],
					vs.v["ratelimit.connection_limit.resume"]), replay)
			}
		}
	case oc.verdict == "parse":
		// Reported by the YAML decoder without a crash; nothing else is promised.
	default:
		named := false
		for _, p := range bad {
			named = named || names(oc.errText, p)
		}
		if len(bad) == 0 && !parseBad {
			r.Violate("rejected-without-offender", "validation rejects a configuration in which every value meets its "+
				"documented constraint: "+oc.errText, replay)
		} else if !named {
			r.Violate("reject-misnamed:"+canonErr(oc.errText), fmt.Sprintf("the error %q names none of the offending "+
				"properties %v", oc.errText, bad), replay)
		}
	}

	// Backend stage: the builder steps that talk to the backend and the first
	// queries of a profile (oracle inside, model lines returned).
	var blines, breals []string
	if oc.verdict == "ok" && oc.build == "ok" && rn.backendWanted(k) {
		example := len(k.muts)+len(k.drops) == 0
		leaveCrumb("backend-stage", canon, nil)
		bo, done := rn.runBackend(oc.v, oc.data, vs, example)
		if bo.flaky() && timeoutJudged(vs) {
			done()
			r.Count("backend:second-attempt")
			bo, done = rn.runBackend(oc.v, oc.data, vs, example)
		}
		blines, breals = rn.judgeBackend(bo, vs, replay)
		bo.gate.canon = canon
		rn.gates = append(rn.gates, bo.gate)
		if rn.fullWanted(&oc) {
			k2, added := fullCase(k)
			data2 := k2.render()
			replay2 := map[string]any{"full_build_also_sets": added}
			for key, v := range replay {
				replay2[key] = v
			}
			leaveCrumb("full-build", k2.canon(), rn.fs.sandboxText(rn.sc, data2))
			fo := rn.fs.run(rn.sc, data2, bo.lastDB())
			if fo.flaky() && fullJudged(vs) {
				r.Count("full:second-attempt")
				fo = rn.fs.run(rn.sc, data2, bo.lastDB())
			}
			rn.judgeFull(fo, vs, replay2)
			fo.gate.canon = k2.canon()
			rn.gates = append(rn.gates, fo.gate)
		}
		done()
	}

	// Correspondence with the model.
	lines := []string{canon}
	if oc.verdict == "ok" {
		lines = append(lines, "conv", "build")
		for _, q := range queries {
			lines = append(lines, fmt.Sprintf("handle %s %s %d", b2s(q.ip.Is4()), b2s(q.tcp), q.respLen))
		}
		lines = append(lines, "xconv", "listeners")
		lines = append(lines, blines...)
	}
	ans := m.Batch(lines)
	r.ModelOps += len(lines)
	if ans[0] != oc.verdict {
		r.Disagree("verdict", fmt.Sprintf("case %q: real %q (%s), model %q", canon, oc.verdict, oc.errText, ans[0]), replay)
	} else if oc.verdict == "ok" {
		if ans[1] != oc.conv {
			r.Disagree("conv", fmt.Sprintf("case %q: real toInternal %q, model %q", canon, oc.conv, ans[1]), replay)
		}
		if oc.build != "skipped" && class(ans[2]) != class(oc.build) {
			r.Disagree("build", fmt.Sprintf("case %q: real %q, model %q", canon, oc.build, ans[2]), replay)
		}
		for i, h := range oc.handle {
			if h != "skipped" && class(ans[3+i]) != class(h) {
				r.Disagree("handle", fmt.Sprintf("case %q query %d: real %q, model %q", canon, i, h, ans[3+i]), replay)
			}
		}
		nq := 3 + len(queries)
		if oc.xconv != "" && ans[nq] != oc.xconv {
			r.Disagree("xconv", fmt.Sprintf("case %q: real conversions %q (%s), model %q", canon, oc.xconv, oc.xerrText, ans[nq]), replay)
		}
		if oc.lsn != "" && ans[nq+1] != oc.lsn {
			r.Disagree("listeners", fmt.Sprintf("case %q: real listeners accepting/parked %q, model %q", canon, oc.lsn, ans[nq+1]), replay)
		}
		for i, real := range breals {
			got := ans[nq+2+i]
			if real != got && !(class(real) == "panic" && class(got) == "panic") {
				r.Disagree("backend", fmt.Sprintf("case %q, %s: real %q, model %q", canon, blines[i], real, got), replay)
			}
		}
		if oc.xconv != "" {
			r.Count("xconv:" + strings.TrimPrefix(oc.xconv, "xerr "))
		}
		r.Traces++
	}

	// The janitors of a limiter with a backoff period or duration below a
	// second keep waking up until the limiter is collected.
	if oc.verdict == "ok" && (vs.n("ratelimit.backoff_period").Cmp(bi(sec)) < 0 || vs.n("ratelimit.backoff_duration").Cmp(bi(sec)) < 0) {
		oc.v = nil
		runtime.GC()
		r.Count("gc-after-subsecond-backoff")
	}

	// Accounting.
	vclass := class(oc.verdict)
	r.Count("verdict:" + vclass)
	if vclass == "err" {
		for _, e := range strings.Split(strings.TrimPrefix(oc.verdict, "err "), ";") {
			r.Count("kind:" + e[strings.LastIndex(e, ":")+1:])
		}
		if strings.Contains(oc.verdict, ";") {
			r.Count("joined-errors")
		}
	}
	r.Count(fmt.Sprintf("mutations:%d", min(len(k.muts)+len(k.drops), 6)))
	if oc.verdict == "ok" && len(oc.conv) > 0 {
		r.Count("accepted-cache:" + strings.TrimPrefix(strings.Fields(oc.conv)[0], "cache="))
	}
	r.Case(canon, len(k.muts)+len(k.drops) > 0)
	if len(k.muts)+len(k.drops) >= 2 {
		r.Sample(map[string]any{"case": canon, "real": oc.verdict, "model": ans[0]}, 9)
	}
}

// adaptBase makes the two environment-dependent strings of the distributed
// example resolvable in the sandbox, so that the real conversions can run: the
// interface listeners use the loopback device (which owns 127.0.0.0/8, the
// subnet the example binds), and the DNSCrypt server that reads ./test/dnscrypt.yml
// gets the inline settings of its neighbour.  No mutated field is touched.
func adaptBase() {
	var tree any = distTree
	for _, id := range []string{"eth0_plain_dns", "eth0_plain_dns_secondary"} {
		tree = setPath(tree, []string{"interface_listeners", "list", id, "interface"}, "lo", false)
	}
	var inline any
	n := tree
	for _, seg := range []string{"server_groups", "0", "servers", "5", "dnscrypt"} {
		n, _ = getChild(n, seg)
	}
	inline = n
	if inline != nil {
		tree = setPath(tree, []string{"server_groups", "0", "servers", "4", "dnscrypt"}, inline, false)
	}
	distTree = tree.(yaml.MapSlice)
}

// limiterCampaign compares the real limiter with the model on explicit
// thresholds and listener counts, including the starving ones that validation
// rejects.
func (rn *runner) limiterCampaign(m *hlib.Model) {
	type lc struct{ stop, resume, n int }
	var cases []lc
	for stop := 1; stop <= 7; stop++ {
		for _, resume := range []int{1, stop} {
			for n := 1; n <= 8; n++ {
				cases = append(cases, lc{stop, resume, n})
			}
		}
	}
	var lines []string
	for _, c := range cases {
		lines = append(lines, fmt.Sprintf("lim %d %d %d", c.stop, c.resume, c.n))
	}
	ans := m.Batch(lines)
	rn.r.ModelOps += len(lines)
	for i, c := range cases {
		lim, err := connlimiter.New(&connlimiter.Config{Logger: discard, Stop: uint64(c.stop), Resume: uint64(c.resume)})
		hlib.Must(err)
		acc, parked := startListeners(lim, c.n)
		got := fmt.Sprintf("%d %d", acc, parked)
		if got != ans[i] {
			rn.r.Disagree("limiter", fmt.Sprintf("%s: real accepting/parked %q, model %q", lines[i], got, ans[i]), lines[i])
		}
		// Independent reading: a listener waiting for a connection holds a slot,
		// so at most `stop` of them can wait at the same time.
		if acc > c.stop || acc+parked != c.n || (c.n <= c.stop && parked != 0) {
			rn.r.Violate("limiter-slots", fmt.Sprintf("%s: %d accepting, %d parked", lines[i], acc, parked), lines[i])
		}
		rn.r.Count("limiter-cases")
		if parked > 0 {
			rn.r.Count("limiter-starved")
		}
		rn.r.Case(lines[i], true)
		rn.r.Traces++
	}
}

// Environment campaign ---------------------------------------------------------

// envCase is the part of the process environment that the enumerations
// check.kv.type and ratelimit.allowlist.type refer to.
type envCase struct {
	kvURL, rlURL, consulURL                string // absent | bad | good
	kvSize, redisIdle, maxActive, maxIdle int64
	redisAddr                              bool
}

func (e *envCase) line() string {
	return fmt.Sprintf("env %s %s %s %d %s %d %d %d", e.kvURL, e.rlURL, e.consulURL, e.kvSize, b2s(e.redisAddr),
		e.redisIdle, e.maxActive, e.maxIdle)
}

// envOffenders is the harness' own reading of doc/environment.md: which
// variables the chosen types need and do not get.
func envOffenders(kv, al string, e *envCase) (bad []string) {
	switch kv {
	case "backend":
		if e.kvURL != "good" {
			bad = append(bad, "DNSCHECK_REMOTEKV_URL")
		}
	case "cache":
		if e.kvSize < 1 {
			bad = append(bad, "DNSCHECK_CACHE_KV_SIZE")
		}
	case "redis":
		if !e.redisAddr {
			bad = append(bad, "REDIS_ADDR")
		}
		if e.redisIdle < 1 {
			bad = append(bad, "REDIS_IDLE_TIMEOUT")
		}
		if e.maxActive < 0 {
			bad = append(bad, "REDIS_MAX_ACTIVE")
		}
		if e.maxIdle < 0 {
			bad = append(bad, "REDIS_MAX_IDLE")
		}
	}
	if al == "consul" {
		if e.consulURL != "good" {
			bad = append(bad, "CONSUL_ALLOWLIST_URL")
		}
	} else if e.rlURL != "good" {
		bad = append(bad, "BACKEND_RATELIMIT_URL")
	}

	return bad
}

var envVarNames = []string{"DNSCHECK_REMOTEKV_URL", "DNSCHECK_CACHE_KV_SIZE", "REDIS_ADDR", "REDIS_IDLE_TIMEOUT",
	"REDIS_MAX_ACTIVE", "REDIS_MAX_IDLE", "BACKEND_RATELIMIT_URL", "CONSUL_ALLOWLIST_URL"}

// canonEnvErr lists the variables an error text names, in the order of their
// first appearance.
func canonEnvErr(msg string) string {
	type hit struct {
		at   int
		name string
	}
	var hits []hit
	for _, n := range envVarNames {
		if i := strings.Index(msg, n); i >= 0 {
			hits = append(hits, hit{i, n})
		}
	}
	sort.Slice(hits, func(i, j int) bool { return hits[i].at < hits[j].at })
	var names []string
	for _, h := range hits {
		names = append(names, h.name)
	}

	return strings.Join(names, ";")
}

func mustURL(s string) *url.URL {
	u, err := url.Parse(s)
	hlib.Must(err)

	return u
}

// envCampaign drives the checks of the environment that depend on the
// enumerations of the configuration file, and the real builder steps that
// dereference the selected variables: builder.initDNSCheck (newRemoteKV) and
// builder.initRateLimiter (allowlist updater, refresh, connection limiter and
// rate limiter as production creates them).
func (rn *runner) envCampaign(m *hlib.Model, n int) {
	r := rn.r
	rng := rn.o.Rand("c20-env")
	ts := httptest.NewServer(http.HandlerFunc(func(w http.ResponseWriter, _ *http.Request) {
		w.Header().Set("Content-Type", "application/json")
		_, _ = w.Write([]byte("[]"))
	}))
	defer ts.Close()
	grpcURL, httpURL := "grpc://127.0.0.1:1", ts.URL
	pickURL := func(st, good, bad string) *url.URL {
		switch st {
		case "good":
			return mustURL(good)
		case "bad":
			return mustURL(bad)
		}

		return nil
	}
	states := []string{"absent", "bad", "good"}
	kvs, als := []string{"backend", "cache", "consul", "redis"}, []string{"consul", "backend"}
	nums := func(vals ...int64) int64 { return vals[rng.IntN(len(vals))] }
	for i := 0; i < n; i++ {
		kv, al := kvs[i%4], als[(i/4)%2]
		e := &envCase{
			kvURL: states[rng.IntN(3)], rlURL: states[rng.IntN(3)], consulURL: states[rng.IntN(3)],
			kvSize: nums(-1, 0, 1, 1000), redisIdle: nums(-1, 0, 1, 30*sec), maxActive: nums(-1, 0, 10),
			maxIdle: nums(-1, 0, 3), redisAddr: rng.IntN(3) > 0,
		}
		if rng.IntN(2) == 0 {
			// Mostly usable environments, so that the builder steps run.
			e.kvURL, e.rlURL, e.consulURL, e.kvSize, e.redisAddr = "good", "good", "good", 1000, true
			e.redisIdle, e.maxActive, e.maxIdle = 30*sec, 10, 3
			switch rng.IntN(9) {
			case 0:
				e.kvURL = states[rng.IntN(2)]
			case 1:
				e.rlURL = states[rng.IntN(2)]
			case 2:
				e.consulURL = states[rng.IntN(2)]
			case 3:
				e.kvSize = nums(-1, 0)
			case 4:
				e.redisAddr = false
			case 5:
				e.redisIdle = nums(-1, 0)
			}
		}
		k := &kase{muts: []mut{{"check.kv.type", kv}, {"ratelimit.allowlist.type", al}}}
		if rng.IntN(4) == 0 {
			k.muts = append(k.muts, mut{"ratelimit.connection_limit.stop", "4000"},
				mut{"ratelimit.connection_limit.resume", []string{"6", "7", "3999", "4000"}[rng.IntN(4)]})
		}
		if rng.IntN(6) == 0 {
			k.muts = append(k.muts, mut{"ratelimit.connection_limit.enabled", "0"})
		}
		vs := k.vals()
		canon := k.canon()
		replay := map[string]any{"case": canon, "env": e.line(), "how": "the configuration as in the other replays; env: state " +
			"of DNSCHECK_REMOTEKV_URL, BACKEND_RATELIMIT_URL, CONSUL_ALLOWLIST_URL (absent|bad scheme|good), then " +
			"DNSCHECK_CACHE_KV_SIZE, REDIS_ADDR set, REDIS_IDLE_TIMEOUT (ns), REDIS_MAX_ACTIVE, REDIS_MAX_IDLE"}
		v, perr := cmd.VerifC20Parse(k.render())
		hlib.Must(perr)
		if verr0 := v.VerifC20Validate(); verr0 != nil {
			// Every value of these files meets its documented constraint.
			replay["real_error"] = verr0.Error()
			r.Violate("rejected-without-offender", "validation rejects a configuration in which every value meets its "+
				"documented constraint: "+verr0.Error(), replay)
			r.Case(canon+" | "+e.line(), true)

			continue
		}
		env := &cmd.VerifC20Env{
			ConsulAllowlistURL:  pickURL(e.consulURL, httpURL, grpcURL),
			BackendRateLimitURL: pickURL(e.rlURL, grpcURL, httpURL),
			DNSCheckRemoteKVURL: pickURL(e.kvURL, grpcURL, httpURL),
			BillStatURL:         mustURL(grpcURL),
			ProfilesURL:         mustURL(grpcURL),
			RedisIdleTimeout:    time.Duration(e.redisIdle),
			DNSCheckCacheKVSize: int(e.kvSize),
			RedisMaxActive:      int(e.maxActive),
			RedisMaxIdle:        int(e.maxIdle),
		}
		if e.redisAddr {
			env.RedisAddr = "127.0.0.1"
		}
		var verr error
		verdict, build := "ok", ""
		if p := catch("env-validate", func() { verr = v.VerifC20EnvValidate(env) }); p != "" {
			verdict = p
		} else if verr != nil {
			verdict = "err " + canonEnvErr(verr.Error())
			replay["real_error"] = verr.Error()
		}

		// Property oracle (model not consulted).
		bad := envOffenders(kv, al, e)
		switch {
		case strings.HasPrefix(verdict, "panic"):
			r.Violate("crash-instead-of-report:environment", verdict, replay)
		case verdict == "ok":
			for _, b := range bad {
				r.Violate("env-accepted-unusable:"+b, "the start-up checks accept an environment in which "+b+
					", which the configured type needs, is missing or unusable", replay)
			}
			ns := fmt.Sprintf("verifenv%d", i)
			ctx, cancel := context.WithTimeout(context.Background(), 3*time.Second)
			var stage string
			var serr error
			build = "ok"
			if p := catch("initDNSCheck", func() {
				stage, serr = v.VerifC20InitDNSCheck(ctx, env, discard, errcoll.NewWriterErrorCollector(io.Discard), ns)
			}); p != "" {
				build = p
			} else if serr != nil && len(bad) == 0 {
				r.Violate("startup-error-without-offender:"+stage, "the builder fails although the environment provides "+
					"everything the configuration selects: "+serr.Error(), replay)
			}
			if build == "ok" {
				var lims *cmd.VerifC20Limits
				if p := catch("initRateLimiter", func() {
					lims, stage, serr = v.VerifC20InitRateLimiter(ctx, env, discard, errcoll.NewWriterErrorCollector(io.Discard), ns+"r")
				}); p != "" {
					build = p
				} else if serr != nil && al == "consul" && len(bad) == 0 {
					r.Violate("startup-error-without-offender:"+stage, "the rate limiter cannot be built although the "+
						"allowlist source answers: "+serr.Error(), replay)
				} else if serr == nil {
					r.Count("builder-ratelimiter-built")
					// What production hands to the DNS service.
					want := "0"
					if vs.b("ratelimit.connection_limit.enabled") {
						want = "1," + vs.s("ratelimit.connection_limit.stop") + "," + vs.s("ratelimit.connection_limit.resume")
					}
					got := "0"
					if lims.ConnLimit != nil {
						_, stop, resume, _ := connlimiter.VerifC18Snapshot(lims.ConnLimit)
						got = fmt.Sprintf("1,%d,%d", stop, resume)
					}
					if got != want {
						r.Violate("builder-miswired:connection_limit", fmt.Sprintf("the builder's connection limiter is %q, the "+
							"file says %q", got, want), replay)
					}
					req := new(dns.Msg).SetQuestion("example.org.", dns.TypeA)
					if p := catch("builder-ratelimit", func() {
						drop, _, lerr := lims.RateLimit.IsRateLimited(ctx, req, netip.MustParseAddr("1.2.3.4"))
						if drop || lerr != nil {
							panic(fmt.Sprintf("first query dropped=%v err=%v", drop, lerr))
						}
						lims.RateLimit.CountResponses(ctx, mkResp(req, 3000), netip.MustParseAddr("2001:db8::1"))
					}); p != "" {
						r.Violate("accepted-then-query-panic:builder-ratelimit", p, replay)
					}
				}
			}
			cancel()
			if strings.HasPrefix(build, "panic") {
				r.Violate("accepted-then-panic:environment", "configuration and environment pass every start-up check and "+
					"the builder panics: "+build, replay)
			}
		default:
			named := false
			for _, b := range bad {
				named = named || strings.Contains(verdict, b)
			}
			if len(bad) == 0 {
				r.Violate("env-rejected-without-offender", "the environment provides everything the configuration selects "+
					"and is rejected: "+verdict, replay)
			} else if !named {
				r.Violate("env-reject-misnamed", fmt.Sprintf("the report %q names none of %v", verdict, bad), replay)
			}
		}

		// Correspondence.
		lines := []string{canon, e.line()}
		if verdict == "ok" {
			lines = append(lines, "envbuild")
		}
		ans := m.Batch(lines)
		r.ModelOps += len(lines)
		if ans[0] != "ok" {
			r.Disagree("verdict", fmt.Sprintf("env case %q: real ok, model %q", canon, ans[0]), replay)
		} else if ans[1] != verdict {
			r.Disagree("env", fmt.Sprintf("case %q %q: real %q, model %q", canon, e.line(), verdict, ans[1]), replay)
		} else if verdict == "ok" && class(ans[2]) != class(build) {
			r.Disagree("envbuild", fmt.Sprintf("case %q %q: real %q, model %q", canon, e.line(), build, ans[2]), replay)
		}
		r.Count("env:" + class(verdict) + ":" + kv + "/" + al)
		r.Case(canon+" | "+e.line(), true)
		r.Traces++
	}
}

func firstOr(l []string, def string) string {
	if len(l) > 0 {
		return l[0]
	}

	return def
}

// Generators ------------------------------------------------------------------

func (rn *runner) randomCase() *kase {
	rng := rn.rng
	k := &kase{}
	seen := map[string]bool{}
	n := 1 + rng.IntN(6)
	for i := 0; i < n; i++ {
		f := &fields[rng.IntN(len(fields))]
		if seen[f.path] {
			continue
		}
		seen[f.path] = true
		p := pool(f)
		v := p[rng.IntN(len(p))]
		// Mostly valid: half of the numeric picks are small positive numbers.
		if f.kind != kE && f.kind != kT && f.kind != kX && f.kind != kS && rng.IntN(2) == 0 {
			v = strconv.Itoa(1 + rng.IntN(40))
		}
		k.muts = append(k.muts, mut{f.path, v})
	}
	if rng.IntN(6) == 0 {
		k.drops = append(k.drops, sections[rng.IntN(len(sections))])
	}

	return k
}

func main() {
	stdlog.SetOutput(io.Discard)
	o := hlib.ParseFlags()
	if os.Getenv(envChild) == "" {
		// The campaign runs in a child; see supervise.go.
		os.Exit(supervise(o))
	}
	if pf := os.Getenv("VERIF_C20_CPUPROF"); pf != "" {
		f, err := os.Create(pf)
		hlib.Must(err)
		hlib.Must(pprof.StartCPUProfile(f))
		defer pprof.StopCPUProfile()
	}
	r := hlib.NewResult("C20", o)
	r.Rule = "config.dist.yaml of the tree under test with scalar fields replaced by pool values (absent, negative, 0, 1, " +
		"boundaries, huge, not fitting the Go type) and sections removed; every single-field mutation and section " +
		"removal exhaustively, then random subsets of 1-6 fields (thorough: also all pairs of boundary mutations); " +
		"real parse+validate verdict and named property vs model; accepted configurations are converted by the real " +
		"toInternal methods, the limiter/caches/handlers/servers are built and three queries (IPv4 UDP small, IPv6 UDP " +
		"large, IPv4 TCP) are served; round 6: the example, every single boundary mutation, every accepted case touching backend.*, " +
		"ratelimit.response_size_estimate or ratelimit.allowlist.* and a sample of the rest (520 per quick run) also go through the unchanged " +
		"initBillStat, initProfileDB (first start, then a restart from the profile cache file; in-process gRPC backend with a profile " +
		"that has a custom rate limit: Check, CountResponses, Check on its limiter), initRateLimiter, initDNSCheck and every builder step " +
		"up to initDNS (all optional filters on), with three queries through the built DNS service; a case is non-trivial when it " +
		"mutates something; distinct = distinct op lines"
	m := hlib.StartModel(o.Model, "C20")
	defer m.Close()

	for i := range fields {
		fieldByPath[fields[i].path] = &fields[i]
	}
	data, err := os.ReadFile(filepath.Join(cmd.VerifC20RepoRoot(), "config.dist.yaml"))
	hlib.Must(err)
	hlib.Must(yaml.Unmarshal(data, &distTree))
	adaptBase()

	rn := &runner{o: o, r: r, rng: o.Rand("c20"), tcpBudget: 40, bs: newBackendStage(o, r)}
	defer rn.bs.close()
	rn.fs = newFullStage(o, r)
	defer rn.fs.close()
	if o.Thorough() {
		rn.tcpBudget = 400
	}

	rn.limiterCampaign(m)
	if o.Thorough() {
		rn.envCampaign(m, 2400)
	} else {
		rn.envCampaign(m, 320)
	}

	// Structure of the tree: server groups rebuilt from scratch and every node
	// of the example set to null, removed or emptied, through the real builder
	// steps of Main.
	sc := newScratch()
	defer os.RemoveAll(sc.dir)
	rn.sc = sc
	if o.Thorough() {
		rn.shapeCampaign(sc, m, 6000)
		rn.pruneCampaign(sc, 3000)
	} else {
		rn.shapeCampaign(sc, m, 500)
		rn.pruneCampaign(sc, 200)
	}

	// The distributed example itself.
	rn.run(&kase{}, m)

	// Exhaustive single mutations.
	for i := range fields {
		f := &fields[i]
		seen := map[string]bool{}
		for _, v := range pool(f) {
			if seen[v] {
				continue
			}
			seen[v] = true
			rn.run(&kase{muts: []mut{{f.path, v}}}, m)
		}
	}
	for _, s := range sections {
		rn.run(&kase{drops: []string{s}}, m)
	}
	// Enum and flag context for the conditional constraints.
	ctxs := [][]mut{
		{{"cache.type", "ecs"}}, {{"cache.type", "ecs"}, {"cache.size", "0"}},
		{{"check.kv.type", "backend"}}, {{"check.kv.type", "consul"}}, {{"check.kv.type", "redis"}},
		{{"ratelimit.connection_limit.enabled", "0"}}, {{"upstream.healthcheck.enabled", "0"}},
		{{"dnsdb.enabled", "0"}}, {{"ratelimit.tcp.enabled", "0"}}, {{"ratelimit.quic.enabled", "0"}},
		{{"filters.ede_enabled", "0"}}, {{"filters.rule_list_cache.enabled", "0"}},
		{{"server_groups.0.servers.1.protocol", "quic"}, {"server_groups.0.servers.2.protocol", "quic"}},
		{{"server_groups.0.servers.1.protocol", "dns"}, {"server_groups.0.servers.2.protocol", "dns"}},
		{{"filtering_groups.0.id", "other"}},
	}
	for _, c := range ctxs {
		pre := strings.SplitN(c[0].path, ".", 2)[0]
		for i := range fields {
			f := &fields[i]
			if !strings.HasPrefix(f.path, pre) || f.path == c[0].path {
				continue
			}
			for _, v := range pool(f) {
				rn.run(&kase{muts: append(append([]mut{}, c...), mut{f.path, v})}, m)
			}
		}
	}
	r.Exhaustive = true

	n := 1500
	if o.Thorough() {
		n = 30000
		// All pairs of boundary mutations.
		type fv struct{ p, v string }
		var bs []fv
		for i := range fields {
			f := &fields[i]
			switch f.kind {
			case kX:
				for _, e := range f.extra {
					bs = append(bs, fv{f.path, e})
				}
			case kE:
				bs = append(bs, fv{f.path, f.extra[0]}, fv{f.path, f.extra[1]}, fv{f.path, "bogus"})
			case kT:
				bs = append(bs, fv{f.path, "0"})
			default:
				bs = append(bs, fv{f.path, "0"}, fv{f.path, "1"})
				for _, e := range f.extra {
					bs = append(bs, fv{f.path, e})
				}
			}
		}
		for i := range bs {
			for j := i + 1; j < len(bs); j++ {
				if bs[i].p == bs[j].p {
					continue
				}
				rn.run(&kase{muts: []mut{{bs[i].p, bs[i].v}, {bs[j].p, bs[j].v}}}, m)
			}
		}
		r.Notes = append(r.Notes, fmt.Sprintf("all pairs of %d boundary mutations run", len(bs)))
	}
	for i := 0; i < n; i++ {
		rn.run(rn.randomCase(), m)
	}

	if pf := os.Getenv("VERIF_C20_HEAPPROF"); pf != "" {
		runtime.GC()
		f, err := os.Create(pf)
		hlib.Must(err)
		hlib.Must(pprof.Lookup("heap").WriteTo(f, 0))
		_ = f.Close()
	}
	for _, g := range rn.gates {
		if text := g.recovered(false); text != "" && !g.reported {
			r.Violate("accepted-then-crash:"+g.stage, "a goroutine started for an accepted configuration panics after its first queries "+
				"have been served (the program logs `recovered from panic`): "+text, map[string]any{"case": g.canon, "stage": g.stage,
				"how": "apply the tokens to config.dist.yaml: path=value sets a scalar (durations in ns, sizes in bytes, `-` removes the key), "+
					"-path removes a section"})
		}
	}
	keys := hlib.SortedKeys(r.Distribution)
	sort.Strings(keys)
	r.Finish()
}
