package main

// Supervisor (round 6).  Some start-up steps of the builder run in goroutines
// of their own (startGeoIP) and the DNS service starts worker pools: a panic
// there cannot be recovered by the caller and takes the whole process down —
// which is exactly what the property forbids for an accepted configuration.
// The campaign therefore runs in a child process that leaves a note about the
// case and the stage it is working on; when the child dies of a panic the
// parent turns the note into a violation with that case as the failing input.

import (
	"bytes"
	"encoding/json"
	"fmt"
	"os"
	"os/exec"
	"strings"
	"sync"

	"github.com/AdguardTeam/AdGuardDNS/verifh/hlib"
)

const (
	envChild = "VERIF_C20_CHILD"
	envCrumb = "VERIF_C20_CRUMB"
)

// crumb is the note of the child.
type crumb struct {
	Stage string `json:"stage"`
	Case  string `json:"case"`
	YAML  string `json:"yaml,omitempty"`
	// LastError is the last record of level error that the code under test
	// has logged during the stage (a recovered panic that ends in os.Exit is
	// announced this way only).
	LastError string `json:"last_error,omitempty"`
}

var (
	crumbPath = os.Getenv(envCrumb)
	crumbMu   sync.Mutex
	crumbNow  crumb
)

func writeCrumb() {
	if crumbNow.Stage == "" {
		_ = os.WriteFile(crumbPath, nil, 0o600)

		return
	}
	b, _ := json.Marshal(&crumbNow)
	_ = os.WriteFile(crumbPath, b, 0o600)
}

// leaveCrumb records what the process is about to do; an empty stage clears
// the note.
func leaveCrumb(stage, canon string, data []byte) {
	if crumbPath == "" {
		return
	}
	crumbMu.Lock()
	defer crumbMu.Unlock()
	crumbNow = crumb{Stage: stage, Case: canon, YAML: string(data)}
	writeCrumb()
}

// noteError adds an error record of the code under test to the note.
func noteError(text string) {
	if crumbPath == "" {
		return
	}
	crumbMu.Lock()
	defer crumbMu.Unlock()
	if crumbNow.Stage != "" {
		crumbNow.LastError = text
		writeCrumb()
	}
}

// tail keeps the last bytes written to it and passes everything on.
type tail struct {
	mu  sync.Mutex
	buf bytes.Buffer
}

func (t *tail) Write(p []byte) (n int, err error) {
	t.mu.Lock()
	defer t.mu.Unlock()
	t.buf.Write(p)
	if t.buf.Len() > 1<<20 {
		b := t.buf.Bytes()
		t.buf = *bytes.NewBuffer(append([]byte{}, b[len(b)-(1<<19):]...))
	}

	return os.Stderr.Write(p)
}

// supervise runs the campaign in a child process.  It returns the exit code of
// the harness.
func supervise(o *hlib.Opts) (code int) {
	f, err := os.CreateTemp("", "verif-c20-crumb-")
	hlib.Must(err)
	path := f.Name()
	_ = f.Close()
	defer os.Remove(path)
	child := exec.Command(os.Args[0], os.Args[1:]...)
	child.Env = append(os.Environ(), envChild+"=1", envCrumb+"="+path)
	child.Stdout = os.Stdout
	errTail := &tail{}
	child.Stderr = errTail
	err = child.Run()
	if err == nil {
		return 0
	}
	code = 2
	if ee, ok := err.(*exec.ExitError); ok && ee.ExitCode() > 0 {
		code = ee.ExitCode()
	}
	note, _ := os.ReadFile(path)
	c := &crumb{}
	if len(note) == 0 || json.Unmarshal(note, c) != nil || c.Stage == "" {
		// The child was not working on a case.
		return code
	}
	text := errTail.buf.String()
	at := strings.Index(text, "panic: ")
	if at < 0 {
		at = strings.Index(text, "fatal error: ")
	}
	first := fmt.Sprintf("exit code %d", code)
	var trace []string
	if at >= 0 {
		lines := strings.Split(text[at:], "\n")
		first = lines[0]
		for _, ln := range lines[1:] {
			if ln = strings.TrimSpace(ln); strings.Contains(ln, "AdGuardDNS/") && !strings.HasPrefix(ln, "/") {
				trace = append(trace, ln)
			}
			if len(trace) == 6 {
				break
			}
		}
		if len(trace) > 0 && strings.Contains(trace[0], "verifh/") {
			// The harness itself has failed.
			return code
		}
	} else if c.LastError != "" {
		first += ", last error logged: " + c.LastError
	}
	r := hlib.NewResult("C20", o)
	r.Rule = "the campaign process died; the parent reports the case it was working on"
	sig := "accepted-then-crash:" + c.Stage
	if c.Stage == "load" {
		sig = "crash-instead-of-report"
	}
	r.Violate(sig, "the process dies in a way no caller can recover from (a panic in a goroutine started by the code under test, or its "+
		"recover-and-exit handler) while the stage `"+c.Stage+"` works on this configuration: "+first+" "+strings.Join(trace, " <- "),
		map[string]any{"case": c.Case, "stage": c.Stage, "yaml": c.YAML, "how": "apply the tokens to config.dist.yaml: path=value sets a " +
			"scalar (durations in ns, sizes in bytes, `-` removes the key), -path removes a section; yaml (when given) is the file as the stage " +
			"received it", "panic": first, "trace": trace})
	r.Notes = append(r.Notes, "the campaign ended with this crash: counts and samples of the run are lost")
	r.Finish()

	return 0
}
