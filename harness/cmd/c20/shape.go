package main

// Structure campaigns (round 5): the shape of the configuration tree instead of
// its scalars.  shapeCampaign builds the server_groups list from scratch (one to
// three groups; only plain-DNS, only DNSCrypt, encrypted and mixed servers; the
// tls and ddr sections absent, null, empty, partial or complete) together with
// the optional top-level sections, and runs every accepted file through the
// unchanged builder methods of Main that need no backend (hook VerifC20StartUp:
// initAccess … initTLSManager, initServerGroups, initTicketRotator, initWeb,
// queryLog) and through the shutdown of what they registered.  pruneCampaign
// sets every single node of the distributed example to null, removes it or
// empties it: whatever validation lets through must not crash any conversion
// or start-up step.

import (
	"context"
	"crypto/ecdsa"
	"crypto/elliptic"
	"crypto/tls"
	crand "crypto/rand"
	"crypto/x509"
	"crypto/x509/pkix"
	"encoding/pem"
	"fmt"
	"io"
	"math/big"
	"math/rand/v2"
	"net/http"
	"net/http/httptest"
	"net/netip"
	"os"
	"path/filepath"
	"regexp"
	"sort"
	"strings"
	"time"

	"github.com/AdguardTeam/AdGuardDNS/internal/agd"
	"github.com/AdguardTeam/AdGuardDNS/internal/cmd"
	"github.com/AdguardTeam/AdGuardDNS/internal/dnsserver/ratelimit"
	"github.com/AdguardTeam/AdGuardDNS/internal/errcoll"
	"github.com/AdguardTeam/AdGuardDNS/verifh/hlib"
	"github.com/prometheus/client_golang/prometheus"
	"gopkg.in/yaml.v2"
)

// grpShape is one server group.
type grpShape struct {
	ddr      string   // full | empty | nullmaps | absent | null
	tls      string   // absent | null | empty | full | nokeys | nowild | nocerts | nullcert | shared
	srvs     []string // dns | dnsif | tls | https | quic | dnscrypt
	profiles bool
}

type shape struct {
	groups    []grpShape
	web       string // full | absent | null | timeout | nolinked | noadult | nogeneral | nosb | nobind | nocerts | bare
	ifaces    bool
	access    string // full | empty
	qlog      bool
	linkedURL bool
}

var (
	ddrKinds = []string{"full", "full", "empty", "nullmaps", "absent", "null"}
	tlsKinds = []string{"absent", "null", "empty", "full", "full", "nokeys", "nowild", "nocerts", "nullcert", "shared"}
	srvKinds = []string{"dns", "dns", "dnsif", "tls", "https", "quic", "dnscrypt"}
	webKinds = []string{"full", "full", "absent", "null", "timeout", "nolinked", "noadult", "nogeneral", "nosb", "nobind", "nocerts", "bare"}
)

func (s *shape) line() string {
	toks := []string{"shape", "if=" + b2s(s.ifaces), "web=" + s.web, "lurl=" + b2s(s.linkedURL), "qlog=" + b2s(s.qlog), "ac=" + s.access}
	for _, g := range s.groups {
		toks = append(toks, fmt.Sprintf("g=%s/%s/%s/%s", g.ddr, g.tls, strings.Join(g.srvs, ","), b2s(g.profiles)))
	}

	return strings.Join(toks, " ")
}

func needsTLSKind(k string) bool { return k == "tls" || k == "https" || k == "quic" }

func (g *grpShape) needsTLS() bool {
	for _, k := range g.srvs {
		if needsTLSKind(k) {
			return true
		}
	}

	return false
}

// tlsPresent reports whether the file has a tls mapping for the group.
func (g *grpShape) tlsPresent() bool { return g.tls != "absent" && g.tls != "null" }

// keyNames are the session-key files of group i with the given tls kind; "k9"
// is shared by all groups of kind "shared".
func keyNames(i int, kind string) []string {
	switch kind {
	case "full", "nowild", "nocerts", "nullcert":
		return []string{fmt.Sprintf("k%d", 2*i+1), fmt.Sprintf("k%d", 2*i)}
	case "shared":
		return []string{"k9", fmt.Sprintf("k%d", 2*i), "k9"}
	}

	return nil
}

// scratch is the directory with the files the example refers to.
type scratch struct {
	// env is an environment that provides everything the example selects.
	env  *cmd.VerifC20Env
	dir  string
	base string // the example with its paths and web addresses adapted
	grp0 yaml.MapSlice
}

var webAddrRe = regexp.MustCompile(`127\.0\.0\.1:9\d\d\d`)

func newScratch() *scratch {
	dir, err := os.MkdirTemp("", "verif-c20-shape-")
	hlib.Must(err)
	key, err := ecdsa.GenerateKey(elliptic.P256(), crand.Reader)
	hlib.Must(err)
	tmpl := &x509.Certificate{SerialNumber: big.NewInt(1), Subject: pkix.Name{CommonName: "verif"}, NotBefore: time.Now().Add(-time.Hour),
		NotAfter: time.Now().Add(24 * time.Hour), DNSNames: []string{"*.dns.example.com"}}
	der, err := x509.CreateCertificate(crand.Reader, tmpl, tmpl, &key.PublicKey, key)
	hlib.Must(err)
	kb, err := x509.MarshalECPrivateKey(key)
	hlib.Must(err)
	w := func(name string, data []byte) { hlib.Must(os.WriteFile(filepath.Join(dir, name), data, 0o600)) }
	w("cert.crt", pem.EncodeToMemory(&pem.Block{Type: "CERTIFICATE", Bytes: der}))
	w("cert.key", pem.EncodeToMemory(&pem.Block{Type: "EC PRIVATE KEY", Bytes: kb}))
	for _, n := range []string{"tls_key_1", "tls_key_2", "k0", "k1", "k2", "k3", "k4", "k5", "k9"} {
		w(n, []byte(strings.Repeat(n+"-", 16)[:48]))
	}
	for _, n := range []string{"block_page_adult.html", "block_page_general.html", "block_page_sb.html", "error_404.html", "error_500.html"} {
		w(n, []byte("<html>"+n+"</html>"))
	}
	b, err := yaml.Marshal(distTree)
	hlib.Must(err)
	text := strings.ReplaceAll(string(b), "./test/", dir+"/")
	text = webAddrRe.ReplaceAllString(text, "127.0.0.1:0")
	sc := &scratch{dir: dir, base: text}
	ts := httptest.NewServer(http.HandlerFunc(func(w http.ResponseWriter, _ *http.Request) {
		w.Header().Set("Content-Type", "application/json")
		_, _ = w.Write([]byte("[]"))
	}))
	sc.env = &cmd.VerifC20Env{BillStatURL: mustURL("grpc://127.0.0.1:1"), ProfilesURL: mustURL("grpc://127.0.0.1:1"),
		ConsulAllowlistURL: mustURL(ts.URL), BackendRateLimitURL: mustURL("grpc://127.0.0.1:1"),
		DNSCheckRemoteKVURL: mustURL("grpc://127.0.0.1:1"), DNSCheckCacheKVSize: 100, RedisAddr: "127.0.0.1",
		RedisIdleTimeout: 30 * time.Second, RedisMaxActive: 10, RedisMaxIdle: 3}
	var tree yaml.MapSlice
	hlib.Must(yaml.Unmarshal([]byte(text), &tree))
	g, _ := getChild(tree, "server_groups")
	g0, _ := getChild(g, "0")
	sc.grp0 = g0.(yaml.MapSlice)

	return sc
}

func (sc *scratch) tree() (tree yaml.MapSlice) {
	hlib.Must(yaml.Unmarshal([]byte(sc.base), &tree))

	return tree
}

// render builds the YAML of a shape.
func (sc *scratch) render(s *shape) []byte {
	var tree any = sc.tree()
	exDDR, _ := getChild(sc.grp0, "ddr")
	exSrvs, _ := getChild(sc.grp0, "servers")
	exInline, _ := getChild(exSrvs.([]any)[5], "dnscrypt")
	var groups []any
	port := 20000
	for i, g := range s.groups {
		m := yaml.MapSlice{{Key: "name", Value: fmt.Sprintf("grp%d", i)}, {Key: "filtering_group", Value: "default"},
			{Key: "profiles_enabled", Value: g.profiles}}
		switch g.ddr {
		case "full":
			m = append(m, yaml.MapItem{Key: "ddr", Value: exDDR})
		case "empty":
			m = append(m, yaml.MapItem{Key: "ddr", Value: yaml.MapSlice{{Key: "enabled", Value: true}}})
		case "nullmaps":
			m = append(m, yaml.MapItem{Key: "ddr", Value: yaml.MapSlice{{Key: "enabled", Value: false},
				{Key: "device_records", Value: nil}, {Key: "public_records", Value: nil}}})
		case "null":
			m = append(m, yaml.MapItem{Key: "ddr", Value: nil})
		}
		certs := []any{yaml.MapSlice{{Key: "certificate", Value: sc.dir + "/cert.crt"}, {Key: "key", Value: sc.dir + "/cert.key"}}}
		var keys []any
		for _, k := range keyNames(i, g.tls) {
			keys = append(keys, sc.dir+"/"+k)
		}
		wild := []any{fmt.Sprintf("*.g%d.dns.example.com", i), "*.dns.example.com"}
		t := yaml.MapSlice{}
		switch g.tls {
		case "null":
			m = append(m, yaml.MapItem{Key: "tls", Value: nil})
		case "empty":
			m = append(m, yaml.MapItem{Key: "tls", Value: t})
		case "full", "shared":
			t = yaml.MapSlice{{Key: "certificates", Value: certs}, {Key: "session_keys", Value: keys}, {Key: "device_id_wildcards", Value: wild}}
		case "nokeys":
			t = yaml.MapSlice{{Key: "certificates", Value: certs}, {Key: "device_id_wildcards", Value: wild}}
		case "nowild":
			t = yaml.MapSlice{{Key: "certificates", Value: certs}, {Key: "session_keys", Value: keys}}
		case "nocerts":
			t = yaml.MapSlice{{Key: "session_keys", Value: keys}, {Key: "device_id_wildcards", Value: wild}}
		case "nullcert":
			t = yaml.MapSlice{{Key: "certificates", Value: []any{nil}}, {Key: "session_keys", Value: keys}}
		}
		if len(t) > 0 {
			m = append(m, yaml.MapItem{Key: "tls", Value: t})
		}
		var srvs []any
		for j, k := range g.srvs {
			port++
			sm := yaml.MapSlice{{Key: "name", Value: fmt.Sprintf("s%d_%d", i, j)}, {Key: "linked_ip_enabled", Value: j%2 == 0}}
			proto := k
			if k == "dnsif" {
				proto = "dns"
				// Every interface listener can bind a subnet once: each dnsif
				// server gets its own subnet of the loopback network.
				sm = append(sm, yaml.MapItem{Key: "bind_interfaces", Value: []any{yaml.MapSlice{{Key: "id", Value: "eth0_plain_dns"},
					{Key: "subnets", Value: []any{fmt.Sprintf("127.%d.%d.0/24", i+1, j)}}}}})
			} else {
				sm = append(sm, yaml.MapItem{Key: "bind_addresses", Value: []any{fmt.Sprintf("127.0.0.1:%d", port)}})
			}
			sm = append(sm, yaml.MapItem{Key: "protocol", Value: proto})
			if k == "dnscrypt" {
				sm = append(sm, yaml.MapItem{Key: "dnscrypt", Value: exInline})
			}
			srvs = append(srvs, sm)
		}
		m = append(m, yaml.MapItem{Key: "servers", Value: srvs})
		groups = append(groups, m)
	}
	tree = setPath(tree, []string{"server_groups"}, groups, false)
	if !s.ifaces {
		tree = setPath(tree, []string{"interface_listeners"}, nil, true)
	}
	if s.access == "empty" {
		tree = setPath(tree, []string{"access"}, yaml.MapSlice{}, false)
	}
	tree = setPath(tree, []string{"query_log", "file", "enabled"}, s.qlog, false)
	switch s.web {
	case "absent":
		tree = setPath(tree, []string{"web"}, nil, true)
	case "null":
		tree = setPath(tree, []string{"web"}, nil, false)
	case "timeout":
		tree = setPath(tree, []string{"web"}, yaml.MapSlice{{Key: "timeout", Value: "1m"}}, false)
	case "nolinked":
		tree = setPath(tree, []string{"web", "linked_ip"}, nil, true)
	case "noadult":
		tree = setPath(tree, []string{"web", "adult_blocking"}, nil, true)
	case "nogeneral":
		tree = setPath(tree, []string{"web", "general_blocking"}, nil, false)
	case "nosb":
		tree = setPath(tree, []string{"web", "safe_browsing"}, nil, true)
	case "nobind":
		tree = setPath(tree, []string{"web", "non_doh_bind"}, nil, true)
	case "nocerts":
		for _, p := range []string{"linked_ip", "adult_blocking", "general_blocking", "safe_browsing"} {
			tree = setPath(tree, []string{"web", p, "bind", "1", "certificates"}, nil, true)
		}
		tree = setPath(tree, []string{"web", "non_doh_bind", "1", "certificates"}, nil, false)
	case "bare":
		for _, p := range []string{"root_redirect_url", "static_content", "error_404", "error_500"} {
			tree = setPath(tree, []string{"web", p}, nil, true)
		}
	}
	b, err := yaml.Marshal(tree)
	hlib.Must(err)

	return b
}

func (s *shape) webPresent() bool { return s.web != "absent" && s.web != "null" }
func (s *shape) webLinked() bool  { return s.webPresent() && s.web != "timeout" && s.web != "nolinked" }

// offenders is the harness' own reading of doc/configuration.md, "Server
// groups": ddr is required; tls must be there exactly when one of the servers
// of the group is tls, https or quic, and then it needs certificates.
func (s *shape) offenders() (bad []string) {
	if len(s.groups) == 0 {
		return []string{"server_groups"}
	}
	for i, g := range s.groups {
		p := fmt.Sprintf("server_groups.%d", i)
		if g.ddr == "absent" || g.ddr == "null" {
			bad = append(bad, p+".ddr")
		}
		if len(g.srvs) == 0 {
			bad = append(bad, p+".servers")
		}
		switch {
		case g.tlsPresent() != g.needsTLS():
			bad = append(bad, p+".tls")
		case g.tlsPresent() && (g.tls == "empty" || g.tls == "nocerts"):
			bad = append(bad, p+".tls.certificates")
		case g.tls == "nullcert":
			bad = append(bad, p+".tls.certificates.0")
		}
	}

	return bad
}

// expectStart is what the harness expects of the start-up of an accepted shape:
// the words an admissible start-up error must contain (nil: must start), the
// sorted ticket files, and the number of servers that must have a TLS
// configuration.
func (s *shape) expectStart() (errWords [][]string, tickets []string, tlsSrvs int) {
	set := map[string]bool{}
	for i, g := range s.groups {
		for _, k := range g.srvs {
			if k == "dnsif" && !s.ifaces {
				errWords = append(errWords, []string{"bind_interfaces", "interface_listeners"})
			}
			if needsTLSKind(k) {
				tlsSrvs++
			}
		}
		if g.tlsPresent() {
			for _, k := range keyNames(i, g.tls) {
				set[k] = true
			}
		}
	}
	if s.webLinked() && !s.linkedURL {
		errWords = append(errWords, []string{"LINKED_IP_TARGET_URL", "linked_ip"})
	}
	for k := range set {
		tickets = append(tickets, k)
	}
	sort.Strings(tickets)

	return errWords, tickets, tlsSrvs
}

// startUp runs the hook under recover and renders the result.
func startUp(v *cmd.VerifC20Conf, linkedURL bool, ns string) (res string, st *cmd.VerifC20Started, errText string) {
	st = &cmd.VerifC20Started{}
	if linkedURL {
		st.LinkedIPTargetURL = mustURL("https://link.example.com")
	}
	env := &cmd.VerifC20Env{BillStatURL: mustURL("grpc://127.0.0.1:1"), ProfilesURL: mustURL("grpc://127.0.0.1:1"),
		ConsulAllowlistURL: mustURL("http://127.0.0.1:1"), DNSCheckCacheKVSize: 100}
	prometheus.DefaultRegisterer = prometheus.NewRegistry()
	ctx, cancel := context.WithTimeout(context.Background(), 5*time.Second)
	defer cancel()
	var err error
	if p := catch("startup", func() {
		err = v.VerifC20StartUp(ctx, st, env, discard, errcoll.NewWriterErrorCollector(io.Discard), ns, indexIDs)
	}); p != "" {
		res = "panic " + st.Stage
		errText = p
	} else if err != nil {
		res = "xerr " + st.Stage
		errText = err.Error()
	} else {
		var names []string
		for _, p := range st.TicketPaths {
			names = append(names, filepath.Base(p))
		}
		res = fmt.Sprintf("ok tickets=%s tls=%d web=%s qlog=%s prof=%s groups=%d", strings.Join(names, ","), st.TLSClones,
			b2s(st.WebPresent), b2s(st.QueryLogFile), b2s(st.ProfilesEnabled), len(st.Groups))
	}
	// Whatever has been registered so far is shut down the way the program
	// does on SIGTERM.
	code := -2
	if p := catch("shutdown", func() { code = st.VerifC20Shutdown(ctx) }); p != "" {
		res += " shutdown-panic"
		errText += " | " + p
	} else if code != 0 {
		res += fmt.Sprintf(" shutdown-code-%d", code)
	}

	return res, st, errText
}

func (rn *runner) runShape(sc *scratch, s *shape, m *hlib.Model, seq int) {
	r := rn.r
	line := s.line()
	data := sc.render(s)
	replay := map[string]any{"case": line, "how": "server_groups rebuilt: g=<ddr>/<tls>/<servers>/<profiles_enabled>; if: " +
		"interface_listeners present; web: which part of the web section is there; lurl: LINKED_IP_TARGET_URL set; yaml is the " +
		"complete file (paths point to a scratch directory with a certificate, session keys and pages)", "yaml": string(data)}
	verdict, errText, start, startErr := "", "", "", ""
	var v *cmd.VerifC20Conf
	var perr, verr error
	var st *cmd.VerifC20Started
	if p := catch("parse", func() { v, perr = cmd.VerifC20Parse(data) }); p != "" {
		verdict = p
	} else if perr != nil {
		verdict, errText = "parse", perr.Error()
	} else if p = catch("validate", func() { verr = v.VerifC20Validate() }); p != "" {
		verdict = p
	} else if verr != nil {
		verdict, errText = "err "+canonErr(verr.Error()), verr.Error()
	} else {
		verdict = "ok"
		leaveCrumb("startup", line, data)
		start, st, startErr = startUp(v, s.linkedURL, fmt.Sprintf("verifshape%d", seq))
		leaveCrumb("", "", nil)
	}
	replay["real_error"] = errText

	// Property oracle (model not consulted).
	bad := s.offenders()
	switch {
	case strings.HasPrefix(verdict, "panic"):
		r.Violate("crash-instead-of-report", "loading the configuration panics: "+verdict, replay)
	case verdict == "parse":
		r.Violate("shape-unparsable", "the generated file does not parse: "+errText, replay)
	case verdict == "ok":
		for _, p := range bad {
			r.Violate("accepted-bad-value:"+shapeSig(p), "validation accepts a configuration whose "+p+" breaks its documented constraint", replay)
		}
		replay["startup"] = start
		replay["startup_error"] = startErr
		words, tickets, tlsSrvs := s.expectStart()
		switch class(start) {
		case "panic":
			r.Violate("accepted-then-panic:startup:"+strings.TrimPrefix(strings.Fields(start)[1], "panic "),
				"a configuration that passes validation crashes the start-up step "+start+": "+startErr, replay)
		case "xerr":
			named := false
			for _, ws := range words {
				all := true
				for _, w := range ws {
					all = all && strings.Contains(startErr, w)
				}
				named = named || all
			}
			if len(words) == 0 {
				r.Violate("startup-error-without-offender:"+strings.Fields(start)[1], "start-up fails although the file is complete: "+startErr, replay)
			} else if !named {
				r.Violate("startup-error-misnamed:"+strings.Fields(start)[1], fmt.Sprintf("%q names none of %v", startErr, words), replay)
			}
		case "ok":
			if len(words) > 0 {
				r.Violate("accepted-dangling-reference", fmt.Sprintf("start-up succeeds although %v", words), replay)
			}
			var got []string
			for _, p := range st.TicketPaths {
				got = append(got, filepath.Base(p))
			}
			if strings.Join(got, ",") != strings.Join(tickets, ",") {
				r.Violate("builder-miswired:session-tickets", fmt.Sprintf("the TLS manager gets the ticket files %v, the groups list %v", got, tickets), replay)
			}
			if st.TLSClones != tlsSrvs {
				r.Violate("builder-miswired:tls-config", fmt.Sprintf("%d servers have a TLS configuration, %d are encrypted", st.TLSClones, tlsSrvs), replay)
			}
			if st.WebPresent != s.webPresent() || st.QueryLogFile != s.qlog || len(st.Groups) != len(s.groups) {
				r.Violate("builder-miswired:optional-sections", "web / query log / number of groups: "+start, replay)
			}
			anyProf := false
			for i, g := range s.groups {
				anyProf = anyProf || g.profiles
				if i < len(st.Groups) {
					checkGroup(r, replay, i, &g, st.Groups[i])
				}
			}
			if st.ProfilesEnabled != anyProf {
				r.Violate("builder-miswired:profiles_enabled", fmt.Sprintf("the builder's summary of profiles_enabled is %v although the groups say %v: %s",
					st.ProfilesEnabled, anyProf, start), replay)
			}
		}
		if strings.Contains(start, "shutdown-") {
			r.Violate("shutdown-after-startup", "shutting down what the start-up registered fails: "+start+" "+startErr, replay)
		}
	default:
		named := false
		for _, p := range bad {
			named = named || names(errText, p)
		}
		if len(bad) == 0 {
			r.Violate("rejected-without-offender", "validation rejects a well-formed set of server groups: "+errText, replay)
		} else if !named {
			r.Violate("reject-misnamed:"+canonErr(errText), fmt.Sprintf("%q names none of %v", errText, bad), replay)
		}
	}

	// Correspondence.
	lines := []string{line}
	if verdict == "ok" {
		lines = append(lines, "startup")
	}
	ans := m.Batch(lines)
	r.ModelOps += len(lines)
	if ans[0] != verdict {
		r.Disagree("shape-verdict", fmt.Sprintf("%q: real %q (%s), model %q", line, verdict, errText, ans[0]), replay)
	} else if verdict == "ok" && ans[1] != start {
		r.Disagree("shape-startup", fmt.Sprintf("%q: real %q (%s), model %q", line, start, startErr, ans[1]), replay)
	}
	r.Count("shape:" + class(verdict))
	if verdict == "ok" {
		r.Count("shape-startup:" + class(start))
		plain := false
		for _, g := range s.groups {
			plain = plain || !g.needsTLS()
		}
		if plain {
			r.Count("shape-accepted-group-without-tls")
		}
		r.Traces++
	}
	r.Case(line, true)
}

// shapeSig drops the group index from a path.
func shapeSig(p string) string {
	f := strings.Split(p, ".")
	if len(f) > 2 {
		return f[0] + ".N." + strings.Join(f[2:], ".")
	}

	return p
}

// checkGroup compares a converted group with the file.
func checkGroup(r *hlib.Result, replay any, i int, g *grpShape, got *agd.ServerGroup) {
	var wantDom []string
	switch g.tls {
	case "full", "shared", "nokeys":
		wantDom = []string{fmt.Sprintf("g%d.dns.example.com", i), "dns.example.com"}
	}
	if strings.Join(got.DeviceDomains, ",") != strings.Join(wantDom, ",") || got.ProfilesEnabled != g.profiles ||
		len(got.Servers) != len(g.srvs) || string(got.Name) != fmt.Sprintf("grp%d", i) {
		r.Violate("builder-miswired:server-group", fmt.Sprintf("group %d: device domains %v (want %v), profiles %v, %d servers",
			i, got.DeviceDomains, wantDom, got.ProfilesEnabled, len(got.Servers)), replay)

		return
	}
	protos := map[string]agd.Protocol{"dns": agd.ProtoDNS, "dnsif": agd.ProtoDNS, "tls": agd.ProtoDoT, "https": agd.ProtoDoH,
		"quic": agd.ProtoDoQ, "dnscrypt": agd.ProtoDNSCrypt}
	for j, k := range g.srvs {
		s := got.Servers[j]
		hasTLS := s.TLS != nil && s.TLS.Default != nil
		if s.Protocol != protos[k] || hasTLS != needsTLSKind(k) || (s.DNSCrypt != nil) != (k == "dnscrypt") ||
			s.LinkedIPEnabled != (j%2 == 0) || (hasTLS && k == "https") != (s.TLS != nil && s.TLS.H3 != nil) {
			r.Violate("builder-miswired:server", fmt.Sprintf("group %d server %d (%s): protocol %v, tls %v, dnscrypt %v", i, j, k,
				s.Protocol, hasTLS, s.DNSCrypt != nil), replay)

			continue
		}
		// Every encrypted transport negotiates its own application protocol
		// (RFC 8484 over h2, HTTP/3 "h3", RFC 9250 "doq"), on its own copy of
		// the TLS settings.
		has := func(c *tls.Config, p string) bool {
			for _, np := range c.NextProtos {
				if np == p {
					return true
				}
			}

			return false
		}
		bad := ""
		switch k {
		case "https":
			if !has(s.TLS.Default, "h2") || has(s.TLS.Default, "h3") || !has(s.TLS.H3, "h3") || s.TLS.H3 == s.TLS.Default {
				bad = fmt.Sprintf("default ALPN %v, h3 ALPN %v, shared object %v", s.TLS.Default.NextProtos, s.TLS.H3.NextProtos, s.TLS.H3 == s.TLS.Default)
			}
		case "quic":
			if !has(s.TLS.Default, "doq") {
				bad = fmt.Sprintf("ALPN %v", s.TLS.Default.NextProtos)
			}
		case "tls":
			if has(s.TLS.Default, "h3") || has(s.TLS.Default, "doq") || has(s.TLS.Default, "h2") {
				bad = fmt.Sprintf("ALPN %v", s.TLS.Default.NextProtos)
			}
		}
		if bad != "" {
			r.Violate("builder-miswired:alpn", fmt.Sprintf("group %d server %d (%s): %s", i, j, k, bad), replay)
		}
	}
}

func randShape(rng *rand.Rand) *shape {
	s := &shape{web: webKinds[rng.IntN(len(webKinds))], ifaces: rng.IntN(4) > 0, access: []string{"full", "empty"}[rng.IntN(2)],
		qlog: rng.IntN(2) == 0, linkedURL: rng.IntN(4) > 0}
	n := 1 + rng.IntN(3)
	for i := 0; i < n; i++ {
		g := grpShape{ddr: ddrKinds[rng.IntN(len(ddrKinds))], profiles: rng.IntN(2) == 0}
		if rng.IntN(3) > 0 {
			g.ddr = "full"
		}
		ns := 1 + rng.IntN(3)
		if rng.IntN(12) == 0 {
			ns = 0
		}
		for j := 0; j < ns; j++ {
			g.srvs = append(g.srvs, srvKinds[rng.IntN(len(srvKinds))])
		}
		// Mostly the section that fits the servers, so that many shapes pass.
		if rng.IntN(3) > 0 {
			if g.needsTLS() {
				g.tls = []string{"full", "nokeys", "nowild", "shared"}[rng.IntN(4)]
			} else {
				g.tls = []string{"absent", "null"}[rng.IntN(2)]
			}
		} else {
			g.tls = tlsKinds[rng.IntN(len(tlsKinds))]
		}
		s.groups = append(s.groups, g)
	}

	return s
}

// shapeCampaign: every single-group shape of one server kind × every tls kind,
// the pairs of server kinds, then random shapes of one to three groups.
func (rn *runner) shapeCampaign(sc *scratch, m *hlib.Model, n int) {
	rng := rn.o.Rand("c20-shape")
	seq := 0
	run := func(s *shape) { seq++; rn.runShape(sc, s, m, seq) }
	base := func(g grpShape) *shape {
		return &shape{groups: []grpShape{g}, web: "full", ifaces: true, access: "full", qlog: true, linkedURL: true}
	}
	for _, k := range []string{"dns", "dnsif", "tls", "https", "quic", "dnscrypt"} {
		for _, t := range []string{"absent", "null", "empty", "full", "nokeys", "nowild", "nocerts", "nullcert", "shared"} {
			run(base(grpShape{ddr: "full", tls: t, srvs: []string{k}, profiles: true}))
			for _, k2 := range []string{"dns", "tls", "dnscrypt", "quic"} {
				run(base(grpShape{ddr: "full", tls: t, srvs: []string{k, k2}}))
			}
		}
	}
	for _, dk := range []string{"full", "empty", "nullmaps", "absent", "null"} {
		run(base(grpShape{ddr: dk, tls: "absent", srvs: []string{"dns"}}))
		run(base(grpShape{ddr: dk, tls: "full", srvs: []string{"tls"}}))
	}
	for _, w := range []string{"full", "absent", "null", "timeout", "nolinked", "noadult", "nogeneral", "nosb", "nobind", "nocerts", "bare"} {
		for _, lurl := range []bool{true, false} {
			s := base(grpShape{ddr: "full", tls: "full", srvs: []string{"dns", "https"}, profiles: true})
			s.web, s.linkedURL = w, lurl
			run(s)
			s = &shape{groups: []grpShape{{ddr: "full", tls: "absent", srvs: []string{"dns"}}, {ddr: "empty", tls: "shared", srvs: []string{"quic"}}},
				web: w, ifaces: false, access: "empty", linkedURL: lurl}
			run(s)
		}
	}
	run(&shape{web: "full", ifaces: true, access: "full"})
	for i := 0; i < n; i++ {
		run(randShape(rng))
	}
}

// Prune campaign ----------------------------------------------------------------

// nodePaths lists the paths of all nodes of the tree.
func nodePaths(n any, pre []string, out *[][]string) {
	switch t := n.(type) {
	case yaml.MapSlice:
		for _, it := range t {
			p := append(append([]string{}, pre...), fmt.Sprint(it.Key))
			*out = append(*out, p)
			nodePaths(it.Value, p, out)
		}
	case []any:
		for i, v := range t {
			p := append(append([]string{}, pre...), fmt.Sprint(i))
			*out = append(*out, p)
			nodePaths(v, p, out)
		}
	}
}

type prune struct {
	path []string
	op   string // null | del | emptymap | emptylist
}

func (rn *runner) runPrune(sc *scratch, plain bool, ps []prune, seq int) {
	r := rn.r
	var tree any = sc.tree()
	toks := []string{"prune"}
	if plain {
		// The context in which no server needs TLS: every optional section of
		// the group may then be left out.
		for _, i := range []string{"1", "2", "3"} {
			tree = setPath(tree, []string{"server_groups", "0", "servers", i, "protocol"}, "dns", false)
		}
		tree = setPath(tree, []string{"server_groups", "0", "tls"}, nil, true)
		toks = append(toks, "plain")
	}
	for _, p := range ps {
		switch p.op {
		case "null":
			tree = setPath(tree, p.path, nil, false)
		case "del":
			tree = setPath(tree, p.path, nil, true)
		case "emptymap":
			tree = setPath(tree, p.path, yaml.MapSlice{}, false)
		case "emptylist":
			tree = setPath(tree, p.path, []any{}, false)
		}
		toks = append(toks, p.op+":"+strings.Join(p.path, "/"))
	}
	line := strings.Join(toks, " ")
	data, err := yaml.Marshal(tree)
	hlib.Must(err)
	replay := map[string]any{"case": line, "how": "config.dist.yaml (plain: servers 1-3 speak dns, no tls section) with the node at " +
		"the path set to null / removed / replaced by {} or []", "yaml": string(data)}
	var v *cmd.VerifC20Conf
	var perr, verr error
	verdict := ""
	if p := catch("parse", func() { v, perr = cmd.VerifC20Parse(data) }); p != "" {
		verdict = p
	} else if perr != nil {
		verdict = "parse"
	} else if p = catch("validate", func() { verr = v.VerifC20Validate() }); p != "" {
		verdict = p
	} else if verr != nil {
		verdict = "err"
		if strings.TrimSpace(verr.Error()) == "" {
			r.Violate("rejected-without-offender", "empty error text", replay)
		}
	} else {
		verdict = "ok"
	}
	r.Count("prune:" + class(verdict))
	r.Case(line, true)
	if strings.HasPrefix(verdict, "panic") {
		r.Violate("crash-instead-of-report", "loading the configuration panics: "+verdict, replay)

		return
	}
	if verdict != "ok" {
		return
	}
	r.Traces++
	leaveCrumb("startup", line, data)
	defer leaveCrumb("", "", nil)
	// Every conversion and start-up step the sandbox can run; errors are
	// reports, panics are crashes.
	al := ratelimit.NewDynamicAllowlist(nil, nil)
	steps := []struct {
		what string
		f    func()
	}{
		{"cache", func() { v.VerifC20Cache() }},
		{"ratelimit", func() { v.VerifC20Backoff(al) }},
		{"connlimit", func() { v.VerifC20ConnLimiter(discard) }},
		{"upstream", func() { prometheus.DefaultRegisterer = prometheus.NewRegistry(); v.VerifC20Forward(discard) }},
		{"servers", func() { _, _ = v.VerifC20Servers(netip.MustParseAddrPort("127.0.0.1:0")) }},
		{"sizes", func() { v.VerifC20Ints(); v.VerifC20DNSDB() }},
		{"ticket-paths", func() { v.VerifC20SessTicketPaths() }},
		{"cross-references", func() { _, _, _ = v.VerifC20ServerGroups(context.Background(), discard, indexIDs) }},
		{"environment", func() { _ = v.VerifC20EnvValidate(sc.env) }},
		{"dnscheck", func() {
			ctx, cancel := context.WithTimeout(context.Background(), 3*time.Second)
			defer cancel()
			_, _ = v.VerifC20InitDNSCheck(ctx, sc.env, discard, errcoll.NewWriterErrorCollector(io.Discard), fmt.Sprintf("verifprunec%d", seq))
		}},
		{"ratelimiter", func() {
			ctx, cancel := context.WithTimeout(context.Background(), 3*time.Second)
			defer cancel()
			_, _, _ = v.VerifC20InitRateLimiter(ctx, sc.env, discard, errcoll.NewWriterErrorCollector(io.Discard), fmt.Sprintf("verifpruner%d", seq))
		}},
	}
	for _, s := range steps {
		if p := catch(s.what, s.f); p != "" {
			r.Violate("accepted-then-panic:conversion:"+s.what, "a configuration that passes validation crashes a conversion: "+p, replay)
		}
	}
	start, _, startErr := startUp(v, true, fmt.Sprintf("verifprune%d", seq))
	replay["startup"], replay["startup_error"] = start, startErr
	if class(start) == "panic" {
		r.Violate("accepted-then-panic:startup:"+strings.Fields(start)[1], "a configuration that passes validation crashes the start-up step "+
			start+": "+startErr, replay)
	}
	if strings.Contains(start, "shutdown-") {
		r.Violate("shutdown-after-startup", start+" "+startErr, replay)
	}
	r.Count("prune-startup:" + class(start))
}

// pruneCampaign: every node × {null, removed, {}, []} in both contexts, then
// random pairs.
func (rn *runner) pruneCampaign(sc *scratch, n int) {
	rng := rn.o.Rand("c20-prune")
	var paths [][]string
	nodePaths(sc.tree(), nil, &paths)
	seq := 0
	ops := []string{"null", "del", "emptymap", "emptylist"}
	for _, plain := range []bool{false, true} {
		for _, p := range paths {
			for _, op := range ops {
				if plain && !rn.o.Thorough() && op != "null" && len(p) > 0 && p[0] != "server_groups" && p[0] != "web" {
					// Quick tier: the second context repeats only the null
					// operation outside the sections it changes.
					continue
				}
				seq++
				rn.runPrune(sc, plain, []prune{{p, op}}, seq)
			}
		}
	}
	rn.r.Notes = append(rn.r.Notes, fmt.Sprintf("prune: %d nodes of the example, each set to null / removed / {} / []", len(paths)))
	for i := 0; i < n; i++ {
		seq++
		a, b := paths[rng.IntN(len(paths))], paths[rng.IntN(len(paths))]
		rn.runPrune(sc, rng.IntN(2) == 0, []prune{{a, ops[rng.IntN(4)]}, {b, ops[rng.IntN(4)]}}, seq)
	}
}
