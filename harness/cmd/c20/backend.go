package main

// Backend stage (round 6): the start-up steps of Main that talk to the backend,
// run by the unchanged builder methods over accepted configurations, and the
// first queries of a profile through what they have built.
//
//   - builder.initBillStat (cmd.VerifC16InitBillStat): bill_stat_interval and
//     timeout of the backend section; one record is made, uploaded through the
//     debug refresher and the recorder is shut down by the signal handler.
//   - builder.initProfileDB (cmd.VerifC14InitProfileDB): the profile storage and
//     the profile database with its file cache and refresh worker, against an
//     in-process gRPC backend.  Two runs of the program: the first one has no
//     cache file and gets the profiles from the backend, the second one (a
//     restart) finds the cache file of the first.  In both, the profile of a
//     device is looked up and its rate limiter is driven the way ratelimitmw
//     does: Check, CountResponses on the response, Check.
//   - builder.initRateLimiter and builder.initDNSCheck (cmd.VerifC20Init…) on
//     the mutated file (the environment campaign runs them on the example only).
//
// The oracle knows the file and the documentation only: an accepted
// configuration starts, the profile the backend has is served in both runs,
// its first query passes, the response weighs floor(len / response_size_estimate)
// events, nothing panics.

import (
	"context"
	"errors"
	"fmt"
	"io"
	"log/slog"
	"math/big"
	"math/rand/v2"
	"net"
	"net/http"
	"net/http/httptest"
	"net/netip"
	"net/url"
	"os"
	"path/filepath"
	"runtime"
	"strconv"
	"strings"
	"sync"
	"sync/atomic"
	"time"

	"github.com/AdguardTeam/AdGuardDNS/internal/agd"
	"github.com/AdguardTeam/AdGuardDNS/internal/backendpb"
	"github.com/AdguardTeam/AdGuardDNS/internal/cmd"
	"github.com/AdguardTeam/AdGuardDNS/internal/connlimiter"
	"github.com/AdguardTeam/AdGuardDNS/internal/geoip"
	"github.com/AdguardTeam/AdGuardDNS/internal/profiledb"
	"github.com/AdguardTeam/AdGuardDNS/verifh/hlib"
	"github.com/c2h5oh/datasize"
	"github.com/miekg/dns"
	"google.golang.org/grpc"
	"google.golang.org/grpc/credentials/insecure"
	"google.golang.org/grpc/metadata"
	"google.golang.org/protobuf/types/known/emptypb"
)

// gate ends the goroutines that a finished case has left behind.  The hooks
// of the other properties give no handle on the refresh workers the builder
// starts; every refresher of the repository logs when a refresh begins and
// reports its errors to the collector, so a logger and a collector that block
// once the case is over end a worker at its next tick, whatever its interval.
//
// The gate also watches for the record `recovered from panic`, which
// slogutil.RecoverAndLog (refresh workers: the worker is dead from then on) and
// slogutil.RecoverAndExit (start-up goroutines: the program exits) write: the
// goroutine is parked there — so that the exit does not take the campaign down
// — and the stage reports the panic.
type gate struct {
	closed atomic.Bool
	mu     sync.Mutex
	panic  string
	// stage and canon say what the gate belongs to (for panics that are
	// noticed after the case is over).
	stage, canon string
	reported     bool
}

// recovered returns the panic a goroutine of the case has logged, waiting a
// moment for a goroutine that is on its way there.
func (g *gate) recovered(wait bool) (text string) {
	deadline := time.Now().Add(time.Millisecond)
	for {
		g.mu.Lock()
		text = g.panic
		g.mu.Unlock()
		if text != "" || !wait || !time.Now().Before(deadline) {
			return text
		}
		runtime.Gosched()
	}
}

func (g *gate) pass() {
	if g.closed.Load() {
		// The goroutine of a finished case ends here (deferred calls run, the
		// process is not affected), so that what it refers to can be
		// collected.
		runtime.Goexit()
	}
}

type gateHandler struct{ g *gate }

// debugLog prints the error records of the code under test (VERIF_C20_DEBUG=1).
var debugLog = os.Getenv("VERIF_C20_DEBUG") != ""

func (h gateHandler) Enabled(context.Context, slog.Level) bool { return true }
func (h gateHandler) Handle(_ context.Context, rec slog.Record) error {
	if rec.Message == "recovered from panic" {
		text := ""
		rec.Attrs(func(a slog.Attr) bool {
			text += a.Value.String()

			return true
		})
		h.g.mu.Lock()
		if h.g.panic == "" {
			h.g.panic = text
		}
		h.g.mu.Unlock()
		runtime.Goexit()
	}
	h.g.pass()
	if rec.Level >= slog.LevelError {
		text := rec.Message
		rec.Attrs(func(a slog.Attr) bool {
			text += " " + a.String()

			return true
		})
		noteError(text)
		if debugLog {
			fmt.Fprintln(os.Stderr, "verif-c20: error logged by the code under test:", text)
		}
	}

	return nil
}
func (h gateHandler) WithAttrs([]slog.Attr) slog.Handler { return h }
func (h gateHandler) WithGroup(string) slog.Handler      { return h }

type gateErrColl struct {
	g *gate
	n atomic.Int64
}

func (c *gateErrColl) Collect(_ context.Context, _ error) { c.g.pass(); c.n.Add(1) }

// backendSrv is the in-process backend: profiles, billing statistics and the
// rate-limit allowlist.
type backendSrv struct {
	backendpb.UnimplementedDNSServiceServer
	backendpb.UnimplementedRateLimitServiceServer

	mu                   sync.Mutex
	profs                []*backendpb.DNSProfile
	full, partial, bills int
}

func (s *backendSrv) GetDNSProfiles(
	req *backendpb.DNSProfilesRequest,
	srv grpc.ServerStreamingServer[backendpb.DNSProfile],
) (err error) {
	srv.SetTrailer(metadata.Pairs("sync_time", strconv.FormatInt(time.Now().UnixMilli(), 10)))
	s.mu.Lock()
	profs := s.profs
	if req.GetSyncTime().AsTime().After(time.Unix(0, 0)) {
		// Changes since the last synchronisation: none.
		s.partial++
		profs = nil
	} else {
		s.full++
	}
	s.mu.Unlock()
	for _, p := range profs {
		if err = srv.Send(p); err != nil {
			return err
		}
	}

	return nil
}

func (s *backendSrv) SaveDevicesBillingStat(
	srv grpc.ClientStreamingServer[backendpb.DeviceBillingStat, emptypb.Empty],
) (err error) {
	for {
		_, err = srv.Recv()
		if errors.Is(err, io.EOF) {
			return srv.SendAndClose(&emptypb.Empty{})
		} else if err != nil {
			return err
		}
		s.mu.Lock()
		s.bills++
		s.mu.Unlock()
	}
}

func (s *backendSrv) GetRateLimitSettings(
	_ context.Context,
	_ *backendpb.RateLimitSettingsRequest,
) (*backendpb.RateLimitSettingsResponse, error) {
	return &backendpb.RateLimitSettingsResponse{}, nil
}

func (s *backendSrv) counts() (full, partial, bills int) {
	s.mu.Lock()
	defer s.mu.Unlock()

	return s.full, s.partial, s.bills
}

// backendStage is the shared state of the stage.
type backendStage struct {
	srv     *backendSrv
	grpcURL *url.URL
	httpURL *url.URL
	dir     string
	rng     *rand.Rand
	seq     int
	// budget bounds the number of cases that are run through the stage only
	// because the dice said so.
	budget int
	// total bounds the number of cases that go through the stage at all.
	total int
	ts    *httptest.Server
	stop  []func()
}

const (
	bDevCustom = "devcust1"
	bDevPlain  = "devplain"
	// bDevFull is the device the full-build stage sends its queries for: it
	// is recognised by its dedicated address (the local address of the
	// plain-DNS server bound to the loopback interface) and by its name in
	// the TLS server name; its profile has a custom limit that a few requests
	// cannot exhaust.
	bDevFull = "devfull1"
)

// bFullClient is the client of the full-build stage, bFullLocal the dedicated
// address of bDevFull.
var (
	bFullClient = netip.MustParseAddr("198.51.100.7")
	bFullLocal  = netip.MustParseAddr("127.0.0.1")
)

var bClient = netip.MustParseAddr("203.0.113.5")

func newBackendStage(o *hlib.Opts, r *hlib.Result) (bs *backendStage) {
	l, err := net.Listen("tcp", "127.0.0.1:0")
	if err != nil {
		r.Notes = append(r.Notes, "backend stage skipped: cannot listen on loopback: "+err.Error())

		return nil
	}
	_ = l.Close()
	bs = &backendStage{srv: &backendSrv{}, rng: o.Rand("c20-backend"), budget: 100, total: 520}
	if o.Thorough() {
		bs.budget, bs.total = 500, 1500
	}
	bs.ts = httptest.NewServer(http.HandlerFunc(func(w http.ResponseWriter, _ *http.Request) {
		w.Header().Set("Content-Type", "application/json")
		_, _ = w.Write([]byte("[]"))
	}))
	bs.httpURL = mustURL(bs.ts.URL)
	bs.dir, err = os.MkdirTemp("", "verif-c20-backend-")
	hlib.Must(err)
	bs.stop = []func(){bs.ts.Close, func() { _ = os.RemoveAll(bs.dir) }}

	return bs
}

// serve starts the backend of one case on a port of its own.  The builder
// steps give no handle on the gRPC connections they open; stopping the server
// when the case is over closes them from the other side, so that a finished
// case holds no sockets.
func (bs *backendStage) serve() (stop func()) {
	l, err := net.Listen("tcp", "127.0.0.1:0")
	hlib.Must(err)
	gs := grpc.NewServer(grpc.ConnectionTimeout(1*time.Second), grpc.Creds(insecure.NewCredentials()))
	backendpb.RegisterDNSServiceServer(gs, bs.srv)
	backendpb.RegisterRateLimitServiceServer(gs, bs.srv)
	go func() { _ = gs.Serve(l) }()
	bs.grpcURL = &url.URL{Scheme: "grpc", Host: l.Addr().String()}

	return func() {
		gs.Stop()
		bs.ts.CloseClientConnections()
	}
}

func (bs *backendStage) close() {
	if bs == nil {
		return
	}
	for _, f := range bs.stop {
		f()
	}
}

// profPlan is what the backend knows about the profile with a custom limit
// and what the probe sends.
type profPlan struct {
	rps     uint32
	cidr    string // none | in | out: client_cidr of the custom limit relative to the probing client
	respLen int
	cache   string // file | none: PROFILES_CACHE_PATH
}

func (p *profPlan) text() string {
	return fmt.Sprintf("rps=%d client_cidr=%s resp=%d cache=%s", p.rps, p.cidr, p.respLen, p.cache)
}

// applies reports whether the custom limit covers the probing client
// (doc: "if empty, the custom limit is applied to all clients").
func (p *profPlan) applies() bool { return p.cidr != "out" }

func (bs *backendStage) plan() (p *profPlan) {
	rng := bs.rng
	p = &profPlan{
		rps:     []uint32{1, 2, 3, 5, 12, 60}[rng.IntN(6)],
		cidr:    []string{"none", "none", "in", "in", "out"}[rng.IntN(5)],
		respLen: []int{60, 700, 3000, 5000}[rng.IntN(4)],
		cache:   "file",
	}
	if rng.IntN(8) == 0 {
		p.cache = "none"
	}

	return p
}

func (p *profPlan) profiles() (profs []*backendpb.DNSProfile) {
	rl := &backendpb.RateLimitSettings{Enabled: true, Rps: p.rps}
	switch p.cidr {
	case "in":
		rl.ClientCidr = []*backendpb.CidrRange{{Address: []byte{203, 0, 113, 0}, Prefix: 24}}
	case "out":
		rl.ClientCidr = []*backendpb.CidrRange{{Address: []byte{198, 51, 100, 0}, Prefix: 24}}
	}

	return []*backendpb.DNSProfile{{
		DnsId: "profcust", FilteringEnabled: true, RateLimit: rl,
		Devices: []*backendpb.DeviceSettings{{Id: bDevCustom, Name: "custom limit", FilteringEnabled: true}},
	}, {
		DnsId: "profplai", FilteringEnabled: true,
		Devices: []*backendpb.DeviceSettings{{Id: bDevPlain, Name: "no custom limit", FilteringEnabled: true}},
	}, {
		DnsId: "proffull", FilteringEnabled: true, RateLimit: &backendpb.RateLimitSettings{Enabled: true, Rps: 1000},
		Devices: []*backendpb.DeviceSettings{{Id: bDevFull, Name: "dedicated address", FilteringEnabled: true,
			DedicatedIps: [][]byte{bFullLocal.AsSlice()}}},
	}}
}

var rlResultNames = map[agd.RatelimitResult]string{agd.RatelimitResultPass: "pass", agd.RatelimitResultDrop: "drop",
	agd.RatelimitResultUseGlobal: "global"}

// probeLimiter does for one request what ratelimitmw does with the limiter of
// the profile: check the request, count the response, and checks a second
// request.
func probeLimiter(lim agd.Ratelimiter, respLen int) (res string, el time.Duration) {
	ctx := context.Background()
	req := new(dns.Msg).SetQuestion("probe.example.org.", dns.TypeA)
	resp := mkResp(req, respLen)
	t0 := time.Now()
	if p := catch("profile-ratelimit", func() {
		r1 := lim.Check(ctx, req, bClient)
		lim.CountResponses(ctx, resp, bClient)
		r2 := lim.Check(ctx, req, bClient)
		res = rlResultNames[r1] + " " + rlResultNames[r2]
	}); p != "" {
		res = p
	}

	return res, time.Since(t0)
}

// respWeight is the length of the response the probe counts.
func respWeight(respLen int) int {
	return mkResp(new(dns.Msg).SetQuestion("probe.example.org.", dns.TypeA), respLen).Len()
}

// bRun is one run of the program as far as the profile database goes.
type bRun struct {
	phase  string // first-start | restart
	start  string // ok | xerr … | panic …
	source string // backend | cache: where the served profiles come from, by the backend's own count of full synchronisations
	custom string // the probe of the device with the custom limit; notfound; error …
	plain  string // the same for the device without one
	slow   bool
	db     profiledb.Interface
}

func (bs *backendStage) runProfiles(data []byte, cachePath, phase string, p *profPlan, g *gate) (br bRun) {
	br.phase = phase
	ctx := context.Background()
	env := &cmd.VerifC14Env{ProfilesURL: bs.grpcURL, ProfilesAPIKey: "verif", ProfilesCachePath: cachePath,
		ProfilesMaxRespSize: 16 * datasize.MB, BindPrefixes: []netip.Prefix{netip.MustParsePrefix("198.51.100.0/24"), netip.MustParsePrefix("127.0.0.0/8")}}
	fullBefore, _, _ := bs.srv.counts()
	var w *cmd.VerifC14Wired
	var err error
	if q := catch("initProfileDB", func() {
		w, err = cmd.VerifC14InitProfileDB(ctx, data, env, slog.New(gateHandler{g}), &gateErrColl{g: g})
	}); q != "" {
		br.start = q

		return br
	} else if err != nil {
		br.start = "xerr " + err.Error()

		return br
	}
	br.start = "ok"
	br.db = w.DB
	br.source = "cache"
	if full, _, _ := bs.srv.counts(); full > fullBefore {
		br.source = "backend"
	}
	look := func(id string) (res string) {
		var prof *agd.Profile
		var lerr error
		if q := catch("profile-lookup", func() { prof, _, lerr = w.DB.ProfileByDeviceID(ctx, agd.DeviceID(id)) }); q != "" {
			return q
		} else if lerr != nil {
			if strings.Contains(lerr.Error(), "not found") {
				return "notfound"
			}

			return "error " + lerr.Error()
		}
		var el time.Duration
		res, el = probeLimiter(prof.Ratelimiter, p.respLen)
		br.slow = br.slow || el > 300*time.Millisecond

		return res
	}
	br.custom = look(bDevCustom)
	br.plain = look(bDevPlain)

	return br
}

// bOutcome is what the stage has seen of one accepted configuration.
type bOutcome struct {
	plan     *profPlan
	bill     string // ok | xerr … | panic … | lost <n>
	limiter  string // ok | xerr … | panic …
	dnscheck string
	runs     []bRun
	// recovered is the panic that a goroutine started by one of the steps has
	// logged (empty: none).
	recovered string
	gate      *gate
}

// flaky reports whether a step has failed in a way that a busy machine can
// cause (an error, a profile that is not there); panics and wrong answers are
// not of that kind.  Such a case is run a second time before it is judged.
func (bo *bOutcome) flaky() bool {
	res := []string{bo.bill, bo.limiter, bo.dnscheck}
	for _, br := range bo.runs {
		res = append(res, br.start, br.custom, br.plain)
	}
	for _, s := range res {
		switch class(s) {
		case "xerr", "lost", "error", "notfound":
			return true
		}
	}

	return false
}

// lastDB is the profile database of the last run that started.
func (bo *bOutcome) lastDB() (db profiledb.Interface) {
	for _, br := range bo.runs {
		if br.db != nil {
			db = br.db
		}
	}

	return db
}

// boundaryVal reports whether v is an extreme of the pool of f: absent, zero,
// one, an extra value of the field, or huge; every enum, flag and name.
func boundaryVal(f *field, v string) bool {
	switch f.kind {
	case kE, kT, kS, kX:
		return true
	}
	if v == "-" || v == "0" || v == "1" {
		return true
	}
	for _, e := range f.extra {
		if e == v {
			return true
		}
	}
	x, ok := new(big.Int).SetString(v, 10)

	return ok && x.Cmp(bi(1<<31)) >= 0
}

// backendWanted says whether the case goes through the stage: always when it
// touches what the backend-facing steps read, otherwise now and then.
func (rn *runner) backendWanted(k *kase) bool {
	bs := rn.bs
	if bs == nil || bs.total <= 0 {
		return false
	}
	for _, m := range k.muts {
		// The two go-cache janitors of a Backoff tick with backoff_period and
		// backoff_duration and stop only when the limiter is garbage-collected.
		// What the builder makes stays reachable from the workers it has
		// started, so a limiter with a period below a second would keep a
		// processor busy for the rest of the run: such files are left to the main campaign.
		if m.path == "ratelimit.backoff_period" || m.path == "ratelimit.backoff_duration" {
			if x, ok := new(big.Int).SetString(m.val, 10); ok && x.Cmp(bi(sec)) < 0 {
				return false
			}
		}
	}
	for _, m := range k.muts {
		if strings.HasPrefix(m.path, "backend.") || m.path == "ratelimit.response_size_estimate" ||
			strings.HasPrefix(m.path, "ratelimit.allowlist.") {
			return true
		}
	}
	if len(k.muts)+len(k.drops) == 0 {
		return true
	}
	if len(k.muts) == 1 && len(k.drops) == 0 && boundaryVal(fieldByPath[k.muts[0].path], k.muts[0].val) {
		// Every single boundary mutation of the example: every field is read
		// by some step of the builder.
		return true
	}
	if bs.budget > 0 && bs.rng.IntN(12) == 0 {
		bs.budget--

		return true
	}

	return false
}

// runBackend runs the stage on the file of an accepted case.  The caller must
// call done.
func (rn *runner) runBackend(v *cmd.VerifC20Conf, data []byte, vs *vals, example bool) (bo *bOutcome, done func()) {
	bs := rn.bs
	bs.seq++
	bs.total--
	// done parks what the case leaves behind and closes its backend; the
	// caller runs it when it has finished with the profile database.
	g := &gate{stage: "backend-stage"}
	stop := bs.serve()
	done = func() {
		g.closed.Store(true)
		stop()
	}
	bo = &bOutcome{plan: bs.plan(), gate: g}
	if example {
		// The distributed example is always restarted from its cache file.
		bo.plan.cache = "file"
	}
	bs.srv.mu.Lock()
	bs.srv.profs = bo.plan.profiles()
	bs.srv.mu.Unlock()
	logger := slog.New(gateHandler{g})

	// Billing statistics.
	_, _, billsBefore := bs.srv.counts()
	var w16 *cmd.VerifC16Wired
	var err error
	if q := catch("initBillStat", func() {
		w16, err = cmd.VerifC16InitBillStat(context.Background(), data, &cmd.VerifC16Env{BillStatURL: bs.grpcURL, BillStatAPIKey: "verif",
			ProfilesURL: bs.grpcURL, ProfilesAPIKey: "verif"}, []bool{true}, logger, &gateErrColl{g: g})
	}); q != "" {
		bo.bill = q
	} else if err != nil {
		bo.bill = "xerr " + err.Error()
	} else {
		bo.bill = "ok"
		if q = catch("billstat", func() {
			ctx, cancel := context.WithTimeout(context.Background(), 3*time.Second)
			defer cancel()
			w16.Recorder.Record(ctx, bDevCustom, geoip.CountryNone, 0, time.Now(), agd.ProtoDNS)
			if w16.DebugRefresher != nil {
				_ = w16.DebugRefresher.Refresh(ctx)
			}
			done := make(chan int, 1)
			go func() { done <- int(w16.Shutdown(context.Background())) }()
			select {
			case code := <-done:
				if code != 0 {
					panic(fmt.Sprintf("shutdown code %d", code))
				}
			case <-time.After(10 * time.Second):
				panic("shutdown does not return")
			}
		}); q != "" {
			bo.bill = q
		} else if _, _, bills := bs.srv.counts(); bills-billsBefore != 1 {
			bo.bill = fmt.Sprintf("lost %d", bills-billsBefore)
		}
	}

	// Profile database: first start, then a restart.
	cachePath := "none"
	if bo.plan.cache == "file" {
		cachePath = filepath.Join(bs.dir, fmt.Sprintf("profiles%d.pb", bs.seq))
	}
	for _, phase := range []string{"first-start", "restart"} {
		br := bs.runProfiles(data, cachePath, phase, bo.plan, g)
		bo.runs = append(bo.runs, br)
		if br.start != "ok" {
			break
		}
	}
	if cachePath != "none" {
		_ = os.Remove(cachePath)
	}

	// Rate limiter and DNS checker as the builder makes them of this file.
	env := &cmd.VerifC20Env{ConsulAllowlistURL: bs.httpURL, BackendRateLimitURL: bs.grpcURL, DNSCheckRemoteKVURL: bs.grpcURL,
		BillStatURL: bs.grpcURL, ProfilesURL: bs.grpcURL, DNSCheckCacheKVSize: 100, RedisAddr: "127.0.0.1",
		RedisIdleTimeout: 30 * time.Second, RedisMaxActive: 10, RedisMaxIdle: 3}
	ctx, cancel := context.WithTimeout(context.Background(), 3*time.Second)
	defer cancel()
	var lims *cmd.VerifC20Limits
	if q := catch("initRateLimiter", func() {
		lims, _, err = v.VerifC20InitRateLimiter(ctx, env, logger, &gateErrColl{g: g}, fmt.Sprintf("verifbe%dr", bs.seq))
	}); q != "" {
		bo.limiter = q
	} else if err != nil {
		bo.limiter = "xerr " + err.Error()
	} else {
		bo.limiter = checkLimits(lims, vs)
	}
	if q := catch("initDNSCheck", func() {
		_, err = v.VerifC20InitDNSCheck(ctx, env, logger, &gateErrColl{g: g}, fmt.Sprintf("verifbe%dc", bs.seq))
	}); q != "" {
		bo.dnscheck = q
	} else if err != nil {
		bo.dnscheck = "xerr " + err.Error()
	} else {
		bo.dnscheck = "ok"
	}
	bo.recovered = g.recovered(true)

	return bo, done
}

// checkLimits compares the limiters the builder has made with the file and
// sends the first queries through the rate limiter.
func checkLimits(lims *cmd.VerifC20Limits, vs *vals) (res string) {
	want := "0"
	if vs.b("ratelimit.connection_limit.enabled") {
		want = "1," + vs.s("ratelimit.connection_limit.stop") + "," + vs.s("ratelimit.connection_limit.resume")
	}
	got := "0"
	if lims.ConnLimit != nil {
		_, stop, resume, _ := connlimiter.VerifC18Snapshot(lims.ConnLimit)
		got = fmt.Sprintf("1,%d,%d", stop, resume)
	}
	if got != want {
		return fmt.Sprintf("miswired connection limiter %q, the file says %q", got, want)
	}
	for _, c := range []string{"ratelimit.ipv4.count", "ratelimit.ipv6.count"} {
		if n := vs.n(c); n.Cmp(bi(1<<20)) > 0 {
			// A ring of this many stamps per subnet: see the main campaign.
			return "ok"
		}
	}
	ctx := context.Background()
	req := new(dns.Msg).SetQuestion("example.org.", dns.TypeA)
	if p := catch("builder-ratelimit", func() {
		drop, _, lerr := lims.RateLimit.IsRateLimited(ctx, req, netip.MustParseAddr("1.2.3.4"))
		if drop || lerr != nil {
			panic(fmt.Sprintf("first query dropped=%v err=%v", drop, lerr))
		}
		lims.RateLimit.CountResponses(ctx, mkResp(req, 3000), netip.MustParseAddr("2001:db8::1"))
	}); p != "" {
		return p
	}

	return "ok"
}

// timeoutJudged reports whether backend.timeout leaves the backend the time to
// answer on the loopback: zero is documented as "no timeout"; below a second
// the outcome of a synchronisation is a matter of scheduling.
func timeoutJudged(vs *vals) bool {
	t := vs.n("backend.timeout")

	return t.Sign() == 0 || t.Cmp(bi(sec)) >= 0
}

// wantProbe is the harness' own reading of the documentation: the custom limit
// is rps requests per second for the clients it covers; a response counts as
// floor(len / response_size_estimate) further requests.
func wantProbe(p *profPlan, vs *vals) string {
	if !p.applies() {
		return "global global"
	}
	weight := new(big.Int).Div(bi(int64(respWeight(p.respLen))), vs.n("ratelimit.response_size_estimate"))
	if new(big.Int).Add(weight, bi(2)).Cmp(bi(int64(p.rps))) > 0 {
		return "pass drop"
	}

	return "pass pass"
}

// judgeBackend is the property oracle of the stage (no model involved).  It
// returns the op lines for the model and the answers the real code gave.
func (rn *runner) judgeBackend(bo *bOutcome, vs *vals, replay map[string]any) (lines, reals []string) {
	r := rn.r
	judged := timeoutJudged(vs)
	phase := ""
	violate := func(sig, what string) {
		rp := map[string]any{}
		for k, v := range replay {
			rp[k] = v
		}
		rp["backend_stage"] = "the unchanged builder.initBillStat / initProfileDB (hooks VerifC16InitBillStat, VerifC14InitProfileDB) / " +
			"initRateLimiter / initDNSCheck on this file against an in-process gRPC backend; the first start has no profile cache " +
			"file, the restart finds the one the first start wrote; profile with a custom rate limit: " + bo.plan.text() +
			"; probe: Check, CountResponses(response), Check from " + bClient.String()
		if phase != "" {
			rp["phase"] = phase
		}
		r.Violate(sig, what, rp)
	}
	r.Count("backend:cases")
	if !judged {
		r.Count("backend:timeout-below-1s-not-judged")
	}
	started := "ok"
	step := func(name, res, offender string) {
		switch class(res) {
		case "panic":
			started = "panic " + name
			violate("accepted-then-panic:backend:"+name, "a configuration that passes validation crashes "+name+": "+res)
		case "xerr":
			if judged {
				violate("startup-error-without-offender:"+name, "start-up fails although every value meets its documented constraint and "+
					"the backend answers: "+res)
			}
		case "lost":
			if judged {
				violate("accepted-unserviceable:"+offender, "one billing record made, uploaded and the recorder shut down: the backend got "+
					strings.TrimPrefix(res, "lost ")+" records")
			}
		case "miswired":
			violate("builder-miswired:connection_limit", res)
		}
	}
	if bo.recovered != "" {
		bo.gate.reported = true
		violate("accepted-then-crash:backend-stage", "a goroutine started by the backend-facing builder steps for an accepted configuration "+
			"panics (the program logs `recovered from panic`; a worker is dead from then on, a start-up goroutine exits the program): "+
			bo.recovered)
	}
	step("initBillStat", bo.bill, "backend.bill_stat_interval")
	step("initRateLimiter", bo.limiter, "ratelimit")
	step("initDNSCheck", bo.dnscheck, "check")
	for _, br := range bo.runs {
		phase = br.phase
		step("initProfileDB", br.start, "backend")
		if br.start != "ok" {
			continue
		}
		r.Count("backend:" + br.phase + ":from-" + br.source)
		want := wantProbe(bo.plan, vs)
		for _, d := range []struct{ dev, got, want string }{{"custom", br.custom, want}, {"plain", br.plain, "global global"}} {
			what := fmt.Sprintf("%s, profiles served from the %s, device with %s rate limit: ", br.phase, br.source,
				map[string]string{"custom": "a custom", "plain": "no custom"}[d.dev])
			switch {
			case class(d.got) == "panic":
				violate("accepted-then-query-panic:profile-ratelimit:"+br.source, what+"handling its query panics: "+d.got)
			case d.got == "notfound" || class(d.got) == "error":
				if judged {
					violate("accepted-unserviceable:profile-not-loaded:"+br.phase, what+"the profile the backend has is not in the database: "+d.got)
				}
			case strings.HasPrefix(d.got, "drop"):
				violate("accepted-unserviceable:profile-ratelimit:"+br.source, what+"the first query is not served: "+d.got)
			case d.got != d.want && !(br.slow && strings.HasSuffix(d.want, "drop")):
				violate("builder-miswired:profile-response-weight:"+br.source, fmt.Sprintf("%sa query, a response of %d bytes and a second "+
					"query gave %q, the file (response_size_estimate %s, limit %d/s) says %q", what, respWeight(bo.plan.respLen), d.got,
					vs.s("ratelimit.response_size_estimate"), bo.plan.rps, d.want))
			}
			r.Evaluations++
		}
		// The model is asked about the limiter with the custom limit.
		if class(br.custom) == "panic" || (strings.Count(br.custom, " ") == 1 && !br.slow) {
			src := map[string]string{"backend": "backend", "cache": "cache"}[br.source]
			lines = append(lines, fmt.Sprintf("bprof %s %s %d %d", src, b2s(bo.plan.applies()), bo.plan.rps, respWeight(bo.plan.respLen)))
			reals = append(reals, br.custom)
		}
	}
	lines = append([]string{"bstart"}, lines...)
	reals = append([]string{started}, reals...)

	return lines, reals
}
