package main

// Full-build stage (round 6): every start-up step of Main up to and including
// builder.initDNS, run by the unchanged builder (cmd.VerifC15Build:
// parseEnvironment, validation, startGeoIP, initHashPrefixFilters,
// initFilterStorage, initFilteringGroups, initAccess, initBindToDevice,
// initMsgConstructor, initTLSManager, initServerGroups, waitGeoIP, initDNS,
// hence dnssvc.NewHandlers and dnssvc.New) on the mutated file, with every
// optional filter of the environment switched on and served by a local HTTP
// server, the GeoIP test databases of the repository and an upstream on the
// loopback.  One plain-DNS query then goes through dnssvc.Service.Handle.
//
// The oracle: an accepted configuration is built without a panic; a start-up
// error needs a reference that cannot be resolved (or a refresh timeout below a
// second, which is a matter of scheduling); the query is answered.

import (
	"context"
	"fmt"
	"log/slog"
	"net"
	"net/http"
	"net/http/httptest"
	"net/netip"
	"net/url"
	"os"
	"path/filepath"
	"strings"
	"time"

	"github.com/AdguardTeam/AdGuardDNS/internal/agd"
	"github.com/AdguardTeam/AdGuardDNS/internal/agdtest"
	"github.com/AdguardTeam/AdGuardDNS/internal/billstat"
	"github.com/AdguardTeam/AdGuardDNS/internal/cmd"
	"github.com/AdguardTeam/AdGuardDNS/internal/dnsserver"
	"github.com/AdguardTeam/AdGuardDNS/internal/profiledb"
	"github.com/AdguardTeam/AdGuardDNS/internal/rulestat"
	"github.com/AdguardTeam/AdGuardDNS/verifh/hlib"
	"github.com/AdguardTeam/AdGuardDNS/verifh/hlib/stack"
	"github.com/miekg/dns"
)

type fullStage struct {
	dir      string
	upstream string
	httpURL  string
	budget   int
	seq      int
	ts       *httptest.Server
	stop     []func()
}

// fullUpstreams are the upstream addresses of the distributed example; the
// stage replaces them by the upstream on the loopback.
var fullUpstreams = []string{"'tcp://1.1.1.1:53'", "'8.8.4.4:53'", "'1.1.1.1:53'", "'8.8.8.8:53'", "tcp://1.1.1.1:53", "8.8.4.4:53",
	"1.1.1.1:53", "8.8.8.8:53"}

func newFullStage(o *hlib.Opts, r *hlib.Result) (fs *fullStage) {
	pc, err := net.ListenPacket("udp", "127.0.0.1:0")
	if err != nil {
		r.Notes = append(r.Notes, "full-build stage skipped: cannot listen on loopback: "+err.Error())

		return nil
	}
	fs = &fullStage{budget: 40}
	if o.Thorough() {
		fs.budget = 400
	}
	h := dns.HandlerFunc(func(w dns.ResponseWriter, req *dns.Msg) { _ = w.WriteMsg(mkResp(req, 40)) })
	usrv := &dns.Server{PacketConn: pc, Handler: h}
	go func() { _ = usrv.ActivateAndServe() }()
	fs.upstream = pc.LocalAddr().String()
	fs.stop = append(fs.stop, func() { _ = usrv.Shutdown() })
	if ln, lerr := net.Listen("tcp", fs.upstream); lerr == nil {
		tsrv := &dns.Server{Listener: ln, Handler: h}
		go func() { _ = tsrv.ActivateAndServe() }()
		fs.stop = append(fs.stop, func() { _ = tsrv.Shutdown() })
	}
	ts := httptest.NewServer(http.HandlerFunc(func(w http.ResponseWriter, req *http.Request) {
		switch req.URL.Path {
		case "/services":
			w.Header().Set("Content-Type", "application/json")
			_, _ = w.Write([]byte(`{"blocked_services":[{"id":"verif_service","rules":["||blocked-service.example^"]}]}`))
		case "/hosts":
			_, _ = w.Write([]byte("bad-host.example\n"))
		default:
			_, _ = w.Write([]byte("||blocked-by-list.example^\n"))
		}
	}))
	fs.httpURL = ts.URL
	fs.ts = ts
	fs.stop = append(fs.stop, ts.Close)
	fs.dir, err = os.MkdirTemp("", "verif-c20-full-")
	hlib.Must(err)
	fs.stop = append(fs.stop, func() { _ = os.RemoveAll(fs.dir) })
	hlib.Must(os.MkdirAll(filepath.Join(fs.dir, "filters"), 0o755))
	index := fmt.Sprintf(`{"filters":[{"filterKey":%q,"downloadUrl":%q}]}`, indexIDs[0], ts.URL+"/rules")
	hlib.Must(os.WriteFile(filepath.Join(fs.dir, "index.json"), []byte(index), 0o600))
	root := cmd.VerifC20RepoRoot()
	set := func(k, v string) { hlib.Must(os.Setenv(k, v)) }
	set("GEOIP_ASN_PATH", filepath.Join(root, "internal/geoip/testdata/GeoIP2-ISP-Test.mmdb"))
	set("GEOIP_COUNTRY_PATH", filepath.Join(root, "internal/geoip/testdata/GeoIP2-Country-Test.mmdb"))
	set("FILTER_INDEX_URL", (&url.URL{Scheme: "file", Path: filepath.Join(fs.dir, "index.json")}).String())
	set("FILTER_CACHE_PATH", filepath.Join(fs.dir, "filters"))
	set("QUERYLOG_PATH", filepath.Join(fs.dir, "querylog.jsonl"))
	set("BLOCKED_SERVICE_INDEX_URL", ts.URL+"/services")
	for _, k := range []string{"SAFE_BROWSING_URL", "ADULT_BLOCKING_URL", "NEW_REG_DOMAINS_URL"} {
		set(k, ts.URL+"/hosts")
	}
	for _, k := range []string{"GENERAL_SAFE_SEARCH_URL", "YOUTUBE_SAFE_SEARCH_URL"} {
		set(k, ts.URL+"/rules")
	}

	return fs
}

func (fs *fullStage) close() {
	if fs == nil {
		return
	}
	for _, f := range fs.stop {
		f()
	}
}

// fullRW is the response writer of the one query.
type fullRW struct {
	resp          *dns.Msg
	remote, local netip.AddrPort
	tcp           bool
}

func (w *fullRW) addr(ap netip.AddrPort) net.Addr {
	if w.tcp {
		return net.TCPAddrFromAddrPort(ap)
	}

	return net.UDPAddrFromAddrPort(ap)
}

func (w *fullRW) LocalAddr() net.Addr  { return w.addr(w.local) }
func (w *fullRW) RemoteAddr() net.Addr { return w.addr(w.remote) }
func (w *fullRW) WriteMsg(_ context.Context, _, resp *dns.Msg) error {
	w.resp = resp

	return nil
}

// fullSmall are the big tables of the example (a GeoIP cache of 100000 entries
// is allocated up front).  The workers that the builder starts keep what they
// refresh alive for the rest of the run, so the stage gives these fields a
// small value — itself a mutation of the example — unless the case says
// otherwise.
var fullSmall = []mut{{"geoip.host_cache_size", "100"}, {"geoip.ip_cache_size", "100"}, {"dnsdb.max_size", "100"},
	{"cache.size", "100"}, {"cache.ecs_size", "100"}, {"filters.rule_list_cache.size", "100"}, {"filters.custom_filter_cache_size", "100"},
	{"filters.safe_search_cache_size", "100"}, {"safe_browsing.cache_size", "100"}, {"adult_blocking.cache_size", "100"}}

// fullCase is k with the small tables where k leaves them alone.
func fullCase(k *kase) (k2 *kase, added []string) {
	k2 = &kase{muts: append([]mut{}, k.muts...), drops: k.drops}
next:
	for _, sm := range fullSmall {
		for _, m := range k.muts {
			if m.path == sm.path || strings.HasPrefix(m.path, "cache.") && strings.HasPrefix(sm.path, "cache.") {
				continue next
			}
		}
		for _, d := range k.drops {
			if strings.HasPrefix(sm.path, d+".") {
				continue next
			}
		}
		k2.muts = append(k2.muts, sm)
		added = append(added, sm.path+"="+sm.val)
	}

	return k2, added
}

// fullOutcome is what the stage has seen.
type fullOutcome struct {
	build string // ok | xerr … | panic …
	// handle: the three queries: served | error … | stuck | panic …
	handle  []string
	profile bool
	elapsed time.Duration
	// recovered: see bOutcome.
	recovered string
	gate      *gate
}

// sandboxText adapts the rendered file to the sandbox: the files the example
// refers to are in the scratch directory, the upstreams are on the loopback.
func (fs *fullStage) sandboxText(sc *scratch, data []byte) []byte {
	text := strings.ReplaceAll(string(data), "./test/", sc.dir+"/")
	text = webAddrRe.ReplaceAllString(text, "127.0.0.1:0")
	for _, u := range fullUpstreams {
		text = strings.ReplaceAll(text, "address: "+u+"\n", "address: 'udp://"+fs.upstream+"'\n")
	}

	return []byte(text)
}

// run builds the DNS service from the file and sends the queries.  db is the
// profile database that initProfileDB has made of the same file (nil: one
// without profiles).
func (fs *fullStage) run(sc *scratch, data []byte, db profiledb.Interface) (fo fullOutcome) {
	fs.seq++
	g := &gate{stage: "full-build"}
	fo.gate = g
	defer func() {
		fo.recovered = g.recovered(true)
		g.closed.Store(true)
		fs.ts.CloseClientConnections()
	}()
	t0 := time.Now()
	defer func() { fo.elapsed = time.Since(t0) }()
	fo.profile = db != nil
	if db == nil {
		db = stack.NotFoundProfileDB()
	}
	deps := &cmd.VerifC15Deps{
		ProfileDB: db,
		BillStat:  billstat.EmptyRecorder{},
		RuleStat:  rulestat.Empty{},
		DNSCheck:  &agdtest.DNSCheck{OnCheck: func(context.Context, *dns.Msg, *agd.RequestInfo) (*dns.Msg, error) { return nil, nil }},
	}
	var w *cmd.VerifC15Wired
	var err error
	if q := catch("build", func() {
		w, err = cmd.VerifC15Build(context.Background(), fs.sandboxText(sc, data), deps, slog.New(gateHandler{g}),
			&gateErrColl{g: g}, fmt.Sprintf("veriffull%d", fs.seq))
	}); q != "" {
		fo.build = q

		return fo
	} else if err != nil {
		fo.build = "xerr " + err.Error()

		return fo
	}
	fo.build = "ok"
	if len(w.Groups) == 0 || len(w.Groups[0].Servers) == 0 {
		fo.handle = []string{"error no server group"}

		return fo
	}
	// Query 0 goes to the plain-DNS server bound to the loopback interface:
	// its local address is the dedicated address of a device, so the request
	// is checked and its response counted by the custom limiter of the
	// profile (ratelimitmw limits plain DNS only).  Queries 1 and 2 go to the
	// second server, which is bound to an address and whose protocol is one
	// of the mutated fields: over an encrypted protocol the device is named by
	// the TLS server name (device_id_wildcards); query 2 is anonymous.
	grp := w.Groups[0]
	for i := 0; i < 3; i++ {
		srv, local, tcp := grp.Servers[0], netip.AddrPortFrom(bFullLocal, 53), false
		if i > 0 {
			srv, local = grp.Servers[min(1, len(grp.Servers)-1)], netip.MustParseAddrPort("127.0.0.1:853")
			tcp = srv.Protocol == agd.ProtoDoT || srv.Protocol == agd.ProtoDoH
		}
		ctx := dnsserver.ContextWithServerInfo(context.Background(), &dnsserver.ServerInfo{Name: string(srv.Name), Addr: local.String(),
			Proto: srv.Protocol})
		sri := &dnsserver.RequestInfo{StartTime: time.Now()}
		if i == 1 && (srv.Protocol == agd.ProtoDoT || srv.Protocol == agd.ProtoDoH || srv.Protocol == agd.ProtoDoQ) {
			sri.TLSServerName = bDevFull + ".dns.example.com"
		}
		if srv.Protocol == agd.ProtoDoH {
			sri.URL = &url.URL{Path: "/dns-query"}
		}
		ctx = dnsserver.ContextWithRequestInfo(ctx, sri)
		ctx = agd.WithRequestID(ctx, agd.NewRequestID())
		rw := &fullRW{remote: netip.AddrPortFrom(bFullClient, 40000), local: local, tcp: tcp}
		req := new(dns.Msg).SetQuestion(fmt.Sprintf("full-build-%d.example.org.", i), dns.TypeA)
		res := ""
		if q := catch("handle", func() { err = w.Svc.Handle(ctx, grp.Name, srv.Name, rw, req) }); q != "" {
			res = q
		} else if err != nil {
			res = "error " + err.Error()
		} else if rw.resp == nil {
			res = "stuck"
		} else if rw.resp.Rcode != dns.RcodeSuccess || len(rw.resp.Answer) == 0 {
			res = "error rcode " + dns.RcodeToString[rw.resp.Rcode]
		} else {
			res = "served"
		}
		fo.handle = append(fo.handle, res)
	}

	return fo
}

// flaky: see bOutcome.flaky.
func (fo *fullOutcome) flaky() bool {
	if class(fo.build) == "xerr" {
		return true
	}
	for _, h := range fo.handle {
		if c := class(h); c == "error" || c == "stuck" {
			return true
		}
	}

	return false
}

// fullTimeouts are the properties that bound an exchange the stage makes on
// the loopback (filter downloads, the backend, the upstream, the whole
// request): below a second the outcome is a matter of scheduling.
var fullTimeouts = []string{"filters.refresh_timeout", "filters.index_refresh_timeout", "safe_browsing.refresh_timeout",
	"adult_blocking.refresh_timeout", "upstream.servers.0.timeout", "upstream.servers.1.timeout", "upstream.fallback.servers.0.timeout",
	"upstream.fallback.servers.1.timeout", "dns.handle_timeout"}

func fullJudged(vs *vals) bool {
	for _, p := range fullTimeouts {
		if vs.n(p).Cmp(bi(sec)) < 0 {
			return false
		}
	}

	return timeoutJudged(vs)
}

// fullWanted: the stage follows a case that the main campaign has built,
// served and whose references all resolve.
func (rn *runner) fullWanted(oc *outcome) bool {
	if rn.fs == nil || rn.sc == nil || oc.build != "ok" || !strings.HasPrefix(oc.xconv, "ok") {
		return false
	}
	for _, h := range oc.handle {
		if h != "served" {
			return false
		}
	}

	return true
}

// judgeFull is the property oracle of the stage.
func (rn *runner) judgeFull(fo fullOutcome, vs *vals, replay map[string]any) {
	r := rn.r
	judged := fullJudged(vs)
	violate := func(sig, what string) {
		rp := map[string]any{}
		for k, v := range replay {
			rp[k] = v
		}
		rp["full_build_stage"] = "cmd.VerifC15Build on this file (paths of the example in a scratch directory, upstreams and filter " +
			"sources on the loopback): the unchanged builder up to initDNS; the profile database is the one initProfileDB made of the " +
			"same file after a restart; queries through dnssvc.Service.Handle from " + bFullClient.String() + ": to the plain-DNS server " +
			"on the dedicated address of a device whose profile has a custom rate limit, to the second server with that device in " +
			"the TLS server name, to the second server without a device"
		r.Violate(sig, what, rp)
	}
	r.Count("full:cases")
	if !judged {
		r.Count("full:timeout-below-1s-not-judged")
	}
	if fo.recovered != "" {
		fo.gate.reported = true
		violate("accepted-then-crash:full-build", "a goroutine started by the builder for an accepted configuration panics (the program "+
			"logs `recovered from panic`; a start-up goroutine then exits the program, a worker is dead from then on): "+fo.recovered)
	}
	switch class(fo.build) {
	case "panic":
		violate("accepted-then-panic:full-build", "a configuration that passes validation crashes the start-up: "+fo.build)
	case "xerr":
		if strings.Contains(fo.build, "cannot read more than") {
			// The sources this harness serves are larger than the configured
			// filters.max_size (a legal value): the download limit did its
			// job; how large the real lists are is not a matter of the file.
			r.Count("full:build-error-source-over-max-size-not-judged")
		} else if judged {
			violate("startup-error-without-offender:full-build", "start-up fails although every value meets its documented constraint, "+
				"every reference resolves and every source answers: "+fo.build)
		}
		r.Count("full:build-error")
	}
	for i, h := range fo.handle {
		who := []string{"the device with a dedicated address (custom limit of its profile, plain DNS)",
			"the device named in the TLS server name", "an unknown client"}[min(i, 2)]
		if !fo.profile {
			who = "an unknown client"
		}
		switch class(h) {
		case "panic":
			violate("accepted-then-query-panic:full-build", fmt.Sprintf("the query of %s panics in the DNS service built from an accepted "+
				"configuration: %s", who, h))
		case "error", "stuck":
			if judged {
				violate("accepted-unserviceable:full-build", fmt.Sprintf("the query of %s is not answered by the DNS service built from an "+
					"accepted configuration: %s", who, h))
			}
		case "served":
			r.Count("full:served")
		}
		r.Evaluations++
	}
}
