package main

// Campaign "svc" (round 5): the limiter inside the service the program builds.
//
// A complete configuration file — the `ratelimit` object is config.dist.yaml's
// with its scalars replaced (documented property names), the rest a minimal
// service with TWO server groups of one plain-DNS server each — is handed,
// with the process environment, to the real builder (cmd.VerifC15Build:
// parseEnvironment, validation, every builder step up to and including
// builder.initDNS, hence dnssvc.NewHandlers and the ratelimitmw of every
// server).  Requests go through dnssvc.Service.Handle of either server.  The
// statement is judged by ONE reference monitor for both servers (a subnet's
// window does not depend on the server or the group that received the query),
// with the allowlist of the file; the model gets the same history (`mw`).
// Nothing here is assembled by hand between the file and the handler, so a
// limiter that is lost, rebuilt or configured differently on the way from
// builder.initRateLimiter's section to the handlers of some server shows up.

import (
	"context"
	"fmt"
	"net"
	"net/netip"
	"net/url"
	"os"
	"path/filepath"
	"strings"
	"time"

	"github.com/AdguardTeam/AdGuardDNS/internal/agd"
	"github.com/AdguardTeam/AdGuardDNS/internal/agdtest"
	"github.com/AdguardTeam/AdGuardDNS/internal/cmd"
	"github.com/AdguardTeam/AdGuardDNS/internal/dnsserver"
	"github.com/AdguardTeam/AdGuardDNS/internal/filter"
	"github.com/AdguardTeam/AdGuardDNS/internal/geoip"
	"github.com/AdguardTeam/AdGuardDNS/verifh/hlib"
	"github.com/AdguardTeam/AdGuardDNS/verifh/hlib/stack"
	"github.com/AdguardTeam/golibs/logutil/slogutil"
	"github.com/miekg/dns"
)

type svcRW struct {
	laddr, raddr net.Addr
	msg          *dns.Msg
	writes       int
}

func (w *svcRW) LocalAddr() net.Addr  { return w.laddr }
func (w *svcRW) RemoteAddr() net.Addr { return w.raddr }
func (w *svcRW) WriteMsg(_ context.Context, _, resp *dns.Msg) error {
	w.writes++
	w.msg = resp

	return nil
}

// svcEnv prepares the process environment of the builder: an upstream on the
// loopback, an empty filter index, the repository's GeoIP test files.
func svcEnv(dir string) (upstream string, stop func()) {
	pc, err := net.ListenPacket("udp", "127.0.0.1:0")
	hlib.Must(err)
	h := dns.HandlerFunc(func(w dns.ResponseWriter, req *dns.Msg) {
		resp := (&dns.Msg{}).SetReply(req)
		if len(req.Question) == 1 {
			resp.Answer = append(resp.Answer, &dns.A{
				Hdr: dns.RR_Header{Name: req.Question[0].Name, Rrtype: dns.TypeA, Class: dns.ClassINET, Ttl: 60},
				A:   net.IP{198, 18, 0, 1},
			})
		}
		_ = w.WriteMsg(resp)
	})
	srv := &dns.Server{PacketConn: pc, Handler: h}
	go func() { _ = srv.ActivateAndServe() }()
	upstream = pc.LocalAddr().String()
	var tsrv *dns.Server
	if ln, lerr := net.Listen("tcp", upstream); lerr == nil {
		tsrv = &dns.Server{Listener: ln, Handler: h}
		go func() { _ = tsrv.ActivateAndServe() }()
	}
	hlib.Must(os.WriteFile(filepath.Join(dir, "index.json"), []byte(`{"filters":[]}`), 0o600))
	hlib.Must(os.MkdirAll(filepath.Join(dir, "filters"), 0o755))
	root := cmd.VerifC20RepoRoot()
	set := func(k, v string) { hlib.Must(os.Setenv(k, v)) }
	set("GEOIP_ASN_PATH", filepath.Join(root, "internal/geoip/testdata/GeoIP2-ISP-Test.mmdb"))
	set("GEOIP_COUNTRY_PATH", filepath.Join(root, "internal/geoip/testdata/GeoIP2-Country-Test.mmdb"))
	set("FILTER_INDEX_URL", (&url.URL{Scheme: "file", Path: filepath.Join(dir, "index.json")}).String())
	set("FILTER_CACHE_PATH", filepath.Join(dir, "filters"))
	set("QUERYLOG_PATH", filepath.Join(dir, "ql.jsonl"))
	for _, k := range []string{"BLOCKED_SERVICE_INDEX_URL", "GENERAL_SAFE_SEARCH_URL", "YOUTUBE_SAFE_SEARCH_URL", "SAFE_BROWSING_URL",
		"ADULT_BLOCKING_URL", "NEW_REG_DOMAINS_URL"} {
		set(k, "http://127.0.0.1:1/unused")
	}
	for _, k := range []string{"ADULT_BLOCKING_ENABLED", "SAFE_BROWSING_ENABLED", "NEW_REG_DOMAINS_ENABLED", "BLOCKED_SERVICE_ENABLED",
		"GENERAL_SAFE_SEARCH_ENABLED", "YOUTUBE_SAFE_SEARCH_ENABLED"} {
		set(k, "0")
	}

	return upstream, func() {
		_ = srv.Shutdown()
		if tsrv != nil {
			_ = tsrv.Shutdown()
		}
	}
}

// svcYAML is the configuration file: the documented ratelimit object with c's
// values and list as its allowlist, and a minimal rest.
func svcYAML(c *bcfg, list []string, upstream string) string {
	var b strings.Builder
	b.WriteString(ratelimitSection(distRatelimitYAML(c, "consul", list)))
	fmt.Fprintf(&b, `
access:
    blocked_question_domains: ['globally-blocked.example']
    blocked_client_subnets: ['203.0.113.0/24']
cache:
    type: 'ecs'
    size: 1000
    ecs_size: 1000
    ttl_override: {enabled: false, min: 60s}
upstream:
    servers:
      - address: 'udp://%s'
        timeout: 2s
    fallback:
        servers:
          - address: 'udp://%s'
            timeout: 2s
    healthcheck: {enabled: false, interval: 2s, timeout: 1s, backoff_duration: 30s, domain_template: '${RANDOM}.example.com'}
dns: {read_timeout: 2s, tcp_idle_timeout: 30s, write_timeout: 2s, handle_timeout: 5s, max_udp_response_size: 1024B}
dnsdb: {enabled: false, max_size: 1000}
backend: {timeout: 10s, refresh_interval: 15s, full_refresh_interval: 24h, full_refresh_retry_interval: 1h, bill_stat_interval: 15s}
query_log:
    file:
        enabled: false
geoip: {host_cache_size: 100, ip_cache_size: 100, refresh_interval: 1h}
check:
    kv: {type: 'cache', ttl: 30s}
    domains: ['dnscheck.example.com']
    node_location: 'ams'
    node_name: 'eu-1.dns.example.com'
    ipv4: ['1.2.3.4']
    ipv6: ['1234::cdee']
web: {timeout: 1m}
safe_browsing: {block_host: 'sb.example.com', cache_size: 100, cache_ttl: 1h, refresh_interval: 1h, refresh_timeout: 1m}
adult_blocking: {block_host: 'ad.example.com', cache_size: 100, cache_ttl: 1h, refresh_interval: 1h, refresh_timeout: 1m}
filters:
    response_ttl: 10s
    custom_filter_cache_size: 100
    safe_search_cache_size: 100
    refresh_interval: 1h
    refresh_timeout: 1m
    index_refresh_timeout: 1m
    rule_list_refresh_timeout: 1m
    max_size: 1MB
    rule_list_cache: {enabled: true, size: 100}
    ede_enabled: true
    sde_enabled: true
filtering_groups:
  - id: 'fg'
    parental: {enabled: false}
    rule_lists: {enabled: false}
    safe_browsing: {enabled: false, block_dangerous_domains: false, block_newly_registered_domains: false}
    block_chrome_prefetch: false
    block_firefox_canary: false
    block_private_relay: false
connectivity_check: {probe_ipv4: '127.0.0.1:1'}
network: {so_sndbuf: 0, so_rcvbuf: 0}
additional_metrics_info: {}
server_groups:
  - name: 'g0'
    filtering_group: 'fg'
    profiles_enabled: false
    ddr: {enabled: false}
    servers:
      - name: 'dns0'
        protocol: 'dns'
        linked_ip_enabled: false
        bind_addresses: ['127.0.0.1:5300']
  - name: 'g1'
    filtering_group: 'fg'
    profiles_enabled: false
    ddr: {enabled: false}
    servers:
      - name: 'dns1'
        protocol: 'dns'
        linked_ip_enabled: false
        bind_addresses: ['127.0.0.1:5301']
`, upstream, upstream)

	return b.String()
}

func svcCampaign(o *hlib.Opts, r *hlib.Result, m *hlib.Model) {
	rng := o.Rand("svc")
	n := 6
	if o.Thorough() {
		n = 60
	}
	dir, err := os.MkdirTemp("", "c09-svc-")
	hlib.Must(err)
	defer os.RemoveAll(dir)
	upstream, stop := svcEnv(dir)
	defer stop()
	names := []string{"a.example.", "b.example.", "c.example."}
	for i := 0; i < n; i++ {
		c := genCfg(rng)
		// Accepted by the start-up validation, insensitive to the wall clock, and
		// no response weight (answers are far below the estimate).
		c.period, c.duration, c.i4, c.i6 = time.Hour, time.Hour, time.Hour, time.Hour
		c.c4, c.c6, c.count = uint(1+rng.IntN(4)), uint(1+rng.IntN(4)), uint(1+rng.IntN(3))
		c.est = 1024
		c.dyn = nil
		c.allow = nil
		var list []string
		for k := rng.IntN(3); k > 0; k-- {
			a := genAddr(rng).WithZone("").Unmap()
			if rng.IntN(2) == 0 {
				list = append(list, a.String())
				c.allow = append(c.allow, netip.PrefixFrom(a, a.BitLen()))
			} else {
				bits := []int{8, 24}[rng.IntN(2)]
				if !a.Is4() {
					bits = []int{32, 64}[rng.IntN(2)]
				}
				p := netip.PrefixFrom(a, bits)
				list = append(list, p.String())
				c.allow = append(c.allow, p)
			}
		}
		yamlText := svcYAML(c, list, upstream)
		deps := &cmd.VerifC15Deps{
			ProfileDB: stack.NotFoundProfileDB(),
			BillStat: &agdtest.BillStatRecorder{OnRecord: func(context.Context, agd.DeviceID, geoip.Country, geoip.ASN, time.Time,
				agd.Protocol) {
			}},
			RuleStat: &agdtest.RuleStat{OnCollect: func(context.Context, filter.ID, filter.RuleText) {}},
			DNSCheck: &agdtest.DNSCheck{OnCheck: func(context.Context, *dns.Msg, *agd.RequestInfo) (*dns.Msg, error) { return nil, nil }},
		}
		built, err := cmd.VerifC15Build(context.Background(), []byte(yamlText), deps, slogutil.NewDiscardLogger(),
			&agdtest.ErrorCollector{OnCollect: func(context.Context, error) {}}, fmt.Sprintf("verifc09svc%d", i))
		if err != nil {
			r.Violate("svc-build", fmt.Sprintf("the builder rejected a documented configuration: %v", err),
				map[string]any{"campaign": "svc", "ratelimit": ratelimitSection(yamlText)})

			continue
		}
		ref := newRef(c, false)
		lines := append(c.modelLines(), "noprof")
		pre := len(lines)
		var gots, story []string
		var pend *pending
		pool := []netip.Addr{genAddr(rng).Unmap(), genAddr(rng).Unmap(), genAddr(rng).Unmap()}
		for _, p := range c.allow {
			pool = append(pool, p.Addr())
		}
		dropped, served := 0, 0
		for j, nev := 0, 12+rng.IntN(30); j < nev; j++ {
			ip := pool[rng.IntN(len(pool))]
			qt := uint16(dns.TypeA)
			if rng.IntN(8) == 0 {
				qt = dns.TypeANY
			}
			g := rng.IntN(2)
			grp, srvName, port := []string{"g0", "g1"}[g], []string{"dns0", "dns1"}[g], []uint16{5300, 5301}[g]
			local := netip.AddrPortFrom(netip.MustParseAddr("127.0.0.1"), port)
			ctx := dnsserver.ContextWithServerInfo(context.Background(), &dnsserver.ServerInfo{Name: srvName, Addr: local.String(),
				Proto: agd.ProtoDNS})
			ctx = dnsserver.ContextWithRequestInfo(ctx, &dnsserver.RequestInfo{StartTime: time.Now()})
			rw := &svcRW{laddr: net.UDPAddrFromAddrPort(local), raddr: net.UDPAddrFromAddrPort(netip.AddrPortFrom(ip, 40000))}
			req := &dns.Msg{}
			req.SetQuestion(names[rng.IntN(len(names))], qt)
			now := time.Now().UnixNano()
			var herr error
			func() {
				defer func() {
					if p := recover(); p != nil {
						herr = fmt.Errorf("panic: %v", p)
					}
				}()
				herr = built.Svc.Handle(ctx, agd.ServerGroupName(grp), agd.ServerName(srvName), rw, req)
			}()
			eff := ip.WithZone("")
			story = append(story, fmt.Sprintf("%s qtype %d from %s to %s/%s", req.Question[0].Name, qt, ip, grp, srvName))
			if herr != nil {
				r.Disagree("svc-error", fmt.Sprintf("the service returned %v", herr), map[string]any{"campaign": "svc", "history": story})

				break
			}
			got, lenArg := "served", "-"
			if rw.msg == nil {
				got = "dropped"
				dropped++
			} else {
				served++
				lenArg = fmt.Sprint(rw.msg.Len())
			}
			gots = append(gots, got)
			lines = append(lines, fmt.Sprintf("mw 1 %d %s %d %s 0", now, addrArgs(eff), qt, lenArg))
			v, why, inWin := ref.check(now, eff, qt)
			want := "served"
			if v == "drop" {
				want = "dropped"
			}
			if want != got && pend == nil {
				sig := "svc-late-pass"
				if got == "dropped" {
					sig = "svc-early-drop"
				}
				if v == "allow" {
					sig = "svc-allowlist"
				}
				pend = newPending(sig, fmt.Sprintf(
					"service built by internal/cmd from a configuration file (two server groups, one limiter): request %d (%s) was %s, the statement says %s (%s)",
					j, story[len(story)-1], got, want, refWhy(v, why, inWin, limitText(c, eff))),
					map[string]any{"campaign": "svc", "ratelimit": ratelimitSection(yamlText), "history": append([]string{}, story...),
						"expected": want})
			}
		}
		pend.raise(r)
		answers := m.Batch(lines)[pre:]
		for j := range gots {
			if gots[j] != answers[j] {
				r.Disagree("svc", fmt.Sprintf("service=%s model=%s at request %d", gots[j], answers[j], j),
					map[string]any{"campaign": "svc", "ops": lines[:pre+j+1]})

				break
			}
		}
		r.Case(strings.Join(stripTimes(lines), ";"), dropped > 0 && served > 0)
		r.Count("svc.cases")
		if dropped > 0 && served > 0 {
			r.Count("svc.mixed")
			r.Sample(map[string]any{"campaign": "svc", "history": truncate(story, 8)}, 24)
		}
		r.Traces++
	}
}
