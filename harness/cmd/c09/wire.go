package main

// Round 4, part 3: plain DNS over UDP *and TCP* through the real
// dnsserver.ServerDNS (accept path, message checks, SERVFAIL on a handler error)
// in front of the production handler chain, with the real Backoff behind it.
// Datagrams and connections are in-memory (hooks of C01: VerifC01AcceptUDP,
// VerifC01ServeTCPConn), so any client address can be used and nothing sleeps.
// What comes back is raw bytes; the oracle only looks at whether anything came
// back and at the response code.
//
// The statement: a plain-DNS client outside the allowlist gets no response
// exactly when its subnet is over the limit.  Messages the server rejects
// before any handler runs (not exactly one question, an opcode it does not
// implement) are answered FORMERR / NOTIMP without the limiter being asked: the
// recorded deviation `rejected-message-answered-unthrottled`.

import (
	"bytes"
	"context"
	"fmt"
	"io"
	"net"
	"net/netip"
	"strings"
	"sync"
	"time"

	"github.com/AdguardTeam/AdGuardDNS/internal/agd"
	"github.com/AdguardTeam/AdGuardDNS/internal/agdtest"
	"github.com/AdguardTeam/AdGuardDNS/internal/dnsserver"
	"github.com/AdguardTeam/AdGuardDNS/internal/dnssvc"
	"github.com/AdguardTeam/AdGuardDNS/verifh/hlib"
	"github.com/AdguardTeam/AdGuardDNS/verifh/hlib/stack"
	"github.com/miekg/dns"
)

type c09PC struct {
	in     []byte
	remote net.Addr
	read   bool
	mu     sync.Mutex
	writes [][]byte
}

var c09Local = &net.UDPAddr{IP: net.IPv4(192, 0, 2, 2), Port: 53}

func (c *c09PC) ReadFrom(p []byte) (int, net.Addr, error) {
	if c.read {
		return 0, nil, io.EOF
	}
	c.read = true

	return copy(p, c.in), c.remote, nil
}

func (c *c09PC) WriteTo(p []byte, _ net.Addr) (int, error) {
	c.mu.Lock()
	defer c.mu.Unlock()
	c.writes = append(c.writes, bytes.Clone(p))

	return len(p), nil
}
func (c *c09PC) Close() error                     { return nil }
func (c *c09PC) LocalAddr() net.Addr              { return c09Local }
func (c *c09PC) SetDeadline(time.Time) error      { return nil }
func (c *c09PC) SetReadDeadline(time.Time) error  { return nil }
func (c *c09PC) SetWriteDeadline(time.Time) error { return nil }

type c09Conn struct {
	in     *bytes.Reader
	remote net.Addr
	mu     sync.Mutex
	out    bytes.Buffer
}

func (c *c09Conn) Read(p []byte) (int, error) { return c.in.Read(p) }
func (c *c09Conn) Write(p []byte) (int, error) {
	c.mu.Lock()
	defer c.mu.Unlock()

	return c.out.Write(p)
}
func (c *c09Conn) Close() error                     { return nil }
func (c *c09Conn) LocalAddr() net.Addr              { return &net.TCPAddr{IP: net.IPv4(192, 0, 2, 2), Port: 53} }
func (c *c09Conn) RemoteAddr() net.Addr             { return c.remote }
func (c *c09Conn) SetDeadline(time.Time) error      { return nil }
func (c *c09Conn) SetReadDeadline(time.Time) error  { return nil }
func (c *c09Conn) SetWriteDeadline(time.Time) error { return nil }

// wireSeen classifies the bytes that came back: "silent", or the response
// code of the only message.
func wireSeen(msgs [][]byte) string {
	if len(msgs) == 0 {
		return "silent"
	}
	if len(msgs) > 1 {
		return fmt.Sprintf("%d-messages", len(msgs))
	}
	b := msgs[0]
	if len(b) < 12 {
		return "garbage"
	}
	switch b[3] & 0xf {
	case dns.RcodeFormatError:
		return "formerr"
	case dns.RcodeServerFailure:
		return "servfail"
	case dns.RcodeNotImplemented:
		return "notimp"
	default:
		return "upstream"
	}
}

func wireCampaign(o *hlib.Opts, r *hlib.Result, m *hlib.Model) {
	rng := o.Rand("wire")
	n := 60
	if o.Thorough() {
		n = 600
	}
	ctx := context.Background()
	var known *pending
	for i := 0; i < n; i++ {
		c := genCfg(rng)
		// Larger than any FORMERR: what the limiter weighs is the message the
		// middleware built, whose length the wire does not show exactly.
		c.est = uint64(200 + rng.IntN(3)*50)
		lim, _ := c.realDyn()
		ref := newRef(c, false)
		ref.dynamic = c.dyn
		respLen, upLen := 0, 0
		srvDNS := stack.NewServer("dns", agd.ProtoDNS, true)
		st := stack.New(&stack.Config{
			RateLimit: lim,
			Servers:   []*agd.Server{srvDNS},
			Upstream: dnsserver.HandlerFunc(func(ctx context.Context, rw dnsserver.ResponseWriter, req *dns.Msg) error {
				resp := mkResp(req.Question[0].Qtype, respLen)
				// The response code tells the oracle who answered.
				resp.Id, resp.Rcode = req.Id, dns.RcodeSuccess
				upLen = resp.Len()

				return rw.WriteMsg(ctx, req, resp)
			}),
		})
		h := st.Handlers[dnssvc.HandlerKey{Server: srvDNS, ServerGroup: st.Group}]
		srv := dnsserver.NewServerDNS(dnsserver.ConfigDNS{ConfigBase: dnsserver.ConfigBase{Name: "verif_dns", Addr: "192.0.2.2:53",
			Handler: h, Disposer: agdtest.NewCloner()}})
		srv.VerifC01MarkStarted()
		lines := append(c.modelLines(), "noprof")
		pre := len(lines)
		var gots, wantsModel []string
		refOK := true
		var pend *pending
		silent, answered := 0, 0
		pool := []netip.Addr{genAddr(rng), genAddr(rng), genAddr(rng)}
		t0 := time.Now()
		for j := 5 + rng.IntN(30); j > 0; j-- {
			ip := pool[rng.IntN(len(pool))]
			cls := []string{"ok", "ok", "ok", "ok", "ecs", "dev", "twoq", "opcode"}[rng.IntN(8)]
			tr := []string{"udp", "tcp"}[rng.IntN(2)]
			qt := uint16(dns.TypeA)
			if rng.IntN(8) == 0 {
				qt = dns.TypeANY
			}
			msg := mkReq(qt)
			msg.Id = uint16(1 + rng.IntN(65000))
			switch cls {
			case "ecs":
				addBadECSWire(msg, rng.IntN(2))
			case "dev":
				addBadDeviceID(msg, rng.IntN(3))
			case "twoq":
				msg.Question = append(msg.Question, msg.Question[0])
			case "opcode":
				msg.Opcode = dns.OpcodeStatus
			}
			raw, err := msg.Pack()
			hlib.Must(err)
			respLen = genRespLen(rng, c.est, 300)
			r.Count("wire." + tr + "." + cls)
			now := spin()
			var msgs [][]byte
			if tr == "udp" {
				pc := &c09PC{in: raw, remote: &net.UDPAddr{IP: ip.AsSlice(), Port: 4321, Zone: ip.Zone()}}
				if err = srv.VerifC01AcceptUDP(ctx, pc); err != nil {
					r.Disagree("wire-accept", fmt.Sprintf("accept error %v", err), lines)
				}
				msgs = pc.writes
			} else {
				framed := append([]byte{byte(len(raw) >> 8), byte(len(raw))}, raw...)
				cn := &c09Conn{in: bytes.NewReader(framed), remote: &net.TCPAddr{IP: ip.AsSlice(), Port: 4321, Zone: ip.Zone()}}
				srv.VerifC01ServeTCPConn(ctx, cn)
				b := cn.out.Bytes()
				for len(b) >= 2 {
					l := int(b[0])<<8 | int(b[1])
					if len(b) < 2+l {
						break
					}
					msgs = append(msgs, b[2:2+l])
					b = b[2+l:]
				}
			}
			got := wireSeen(msgs)
			if got == "silent" {
				silent++
			} else {
				answered++
			}
			eff := ip.Unmap().WithZone("")
			replay := func() map[string]any {
				return map[string]any{"campaign": "wire", "transport": tr, "ops": append([]string{}, lines...),
					"request": fmt.Sprintf("%s from %s over %s, qtype %d", cls, ip, tr, qt)}
			}
			if cls == "twoq" || cls == "opcode" {
				// Answered by the server itself.  The statement has no exception for
				// them: over the limit means no response.  The limiter is never
				// asked, so the monitor only looks.
				v, why, _ := refPeek(ref, now, eff, qt)
				if v == "drop" && why != "any-refusal" && got != "silent" {
					r.Count("wire.rejected_answered_over_limit")
					known = newPending("rejected-message-answered-unthrottled", fmt.Sprintf(
						"a message the server rejects (%s) from %s over plain DNS/%s was answered %s although the subnet must get no response (%s)",
						cls, eff, tr, got, why), replay())
				}

				continue
			}
			// Model and monitor: one `front` request.
			mcls := map[string]string{"ok": "ok", "ecs": "ecs", "dev": "dev"}[cls]
			lenArg, flen := "-", 40
			if len(msgs) == 1 {
				if cls == "ecs" {
					flen = len(msgs[0])
				} else if cls == "ok" {
					lenArg = fmt.Sprint(upLen)
				}
			}
			if cls == "ok" && lenArg == "-" {
				lenArg = fmt.Sprint(mkResp(qt, respLen).Len())
			}
			lines = append(lines, fmt.Sprintf("front %s 1 %d %s %d %s %d 0", mcls, now, addrArgs(eff), qt, lenArg, flen))
			gots = append(gots, got)
			wantsModel = append(wantsModel, "")
			if !refOK {
				continue
			}
			want := frontAnswer[cls]
			v, why, inWin := ref.check(now, eff, qt)
			how := refWhy(v, why, inWin, limitText(c, eff))
			if v == "drop" {
				want = "silent"
			} else if v == "pass" && len(msgs) == 1 && cls != "dev" {
				// The limiter weighs the message the handler wrote (on the wire it may
				// be shorter: name compression).
				seenLen := upLen
				if cls == "ecs" {
					seenLen = len(msgs[0])
				}
				ref.countResp(now, eff, qt, seenLen)
			}
			if want != got {
				refOK = false
				sig := "wire-wrong-answer"
				if want == "silent" {
					sig = "early-answer-unthrottled"
					if cls == "ok" {
						sig = "wire-late-pass"
					}
				} else if got == "silent" {
					sig = "wire-early-drop"
				}
				rp := replay()
				rp["expected"] = want
				pend = newPending(sig, fmt.Sprintf("%s query (qtype %d) from %s over plain DNS/%s: the client must receive %q (%s) but received %q",
					cls, qt, eff, tr, want, how, got), rp)
			}
		}
		if time.Since(t0) > 400*time.Millisecond {
			r.Count("wire.discarded_slow")

			continue
		}
		pend.raise(r)
		answers := m.Batch(lines)[pre:]
		for j := range gots {
			if gots[j] != answers[j] {
				r.Disagree("wire", fmt.Sprintf("server=%s model=%s at step %d", gots[j], answers[j], j),
					map[string]any{"campaign": "wire", "ops": lines[:pre+j+1]})

				break
			}
		}
		r.Case(strings.Join(stripFront(lines), ";"), silent > 0 && answered > 0)
		r.Count("wire.cases")
		if silent > 0 && answered > 0 {
			r.Sample(map[string]any{"campaign": "wire", "ops": truncate(lines, 8)}, 33)
		}
		r.Traces++
	}
	if known == nil {
		known = wireRejectedProbe(ctx, r)
	}
	known.raise(r)
}

// wireRejectedProbe is the recorded deviation on a fixed input: limit 1 per
// hour, a query (answered), a second one (dropped), then a message with two
// questions from the same client.
func wireRejectedProbe(ctx context.Context, r *hlib.Result) (known *pending) {
	c := &bcfg{count: 1000, period: time.Hour, duration: time.Hour, est: 1000, c4: 1, i4: time.Hour, l4: 24, c6: 1, i6: time.Hour, l6: 48}
	srvDNS := stack.NewServer("dns", agd.ProtoDNS, true)
	st := stack.New(&stack.Config{RateLimit: c.real(), Servers: []*agd.Server{srvDNS}})
	srv := dnsserver.NewServerDNS(dnsserver.ConfigDNS{ConfigBase: dnsserver.ConfigBase{Name: "verif_dns", Addr: "192.0.2.2:53",
		Handler: st.Handlers[dnssvc.HandlerKey{Server: srvDNS, ServerGroup: st.Group}], Disposer: agdtest.NewCloner()}})
	srv.VerifC01MarkStarted()
	send := func(msg *dns.Msg) string {
		raw, err := msg.Pack()
		hlib.Must(err)
		pc := &c09PC{in: raw, remote: &net.UDPAddr{IP: net.IPv4(198, 51, 100, 9), Port: 4321}}
		hlib.Must(srv.VerifC01AcceptUDP(ctx, pc))

		return wireSeen(pc.writes)
	}
	two := mkReq(dns.TypeA)
	two.Question = append(two.Question, two.Question[0])
	seen := []string{send(mkReq(dns.TypeA)), send(mkReq(dns.TypeA)), send(two)}
	r.Evaluations++
	r.Count("wire.rejected_probe")
	if seen[0] != "upstream" || seen[1] != "silent" {
		r.Violate("wire-window-basic", fmt.Sprintf("limit 1 per hour over UDP through the real server: two queries gave %v", seen[:2]), nil)
	}
	if seen[2] != "silent" {
		known = newPending("rejected-message-answered-unthrottled", "limit 1 per hour per /24: after an answered and a dropped query from 198.51.100.9 over plain DNS/UDP, "+
			"a message with two questions from the same client is answered "+seen[2]+" by the server, although its subnet must get no response",
			map[string]any{"limit": "1 per hour, /24", "client": "198.51.100.9", "messages": []string{"example.org. A", "example.org. A", "QDCOUNT=2"}, "observed": seen})
	}

	return known
}

// refPeek asks the monitor what it would say without recording the event.
func refPeek(l *refLimiter, now int64, ip netip.Addr, qt uint16) (v, why string, inWin int) {
	saved := map[string]refBucket{}
	for k, b := range l.b {
		cp := *b
		cp.log = append([]int64{}, b.log...)
		saved[k] = cp
	}
	v, why, inWin = l.check(now, ip, qt)
	l.b = map[string]*refBucket{}
	for k, b := range saved {
		cp := b
		l.b[k] = &cp
	}

	return v, why, inWin
}


// addBadECSWire attaches option 8 as raw bytes (the library would mask the
// address while packing): address bits set beyond the source prefix length,
// which RFC 7871, section 6, calls malformed.
func addBadECSWire(m *dns.Msg, form int) {
	opt := &dns.OPT{Hdr: dns.RR_Header{Name: ".", Rrtype: dns.TypeOPT}}
	opt.SetUDPSize(1232)
	data := []byte{0, 1, 24, 0, 198, 51, 100, 7}
	if form == 1 {
		data = []byte{0, 2, 56, 0, 0x20, 0x01, 0x0d, 0xb8, 0, 1, 0, 2}
	}
	opt.Option = append(opt.Option, &dns.EDNS0_LOCAL{Code: dns.EDNS0SUBNET, Data: data})
	m.Extra = append(m.Extra, opt)
}
