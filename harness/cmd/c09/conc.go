package main

// Concurrency and allowlist-refresh campaigns.

import (
	"context"
	"fmt"
	"net/http"
	"net/http/httptest"
	"net/netip"
	"net/url"
	"strings"
	"sync"
	"time"

	"github.com/AdguardTeam/AdGuardDNS/internal/agdtest"
	"github.com/AdguardTeam/AdGuardDNS/internal/consul"
	"github.com/AdguardTeam/AdGuardDNS/internal/dnsserver/ratelimit"
	"github.com/AdguardTeam/AdGuardDNS/verifh/hlib"
	"github.com/AdguardTeam/golibs/logutil/slogutil"
	"github.com/miekg/dns"
)

// concCampaign: goroutines hammer one RequestCounter / one warm Backoff bucket.
// Whatever the interleaving, the outcome must be that of SOME sequential
// history (Lean: mutex_linearizable).  With all stamps inside one window every
// sequential history lets exactly `limit` events pass, so the number of passes
// is an interleaving-independent observable.
func concCampaign(o *hlib.Opts, r *hlib.Result, m *hlib.Model) {
	rng := o.Rand("conc")
	n := 150
	if o.Thorough() {
		n = 1500
	}
	for i := 0; i < n; i++ {
		num := uint(rng.IntN(6))
		g, k := 2+rng.IntN(7), 1+rng.IntN(20)
		ivl := int64(1000)
		rc := ratelimit.NewRequestCounter(num, time.Duration(ivl))
		base := int64(1 + rng.IntN(1000))
		// Every goroutine adds stamps from [base, base+ivl): all inside one
		// another's window, in any order of arrival (an earlier stamp arriving
		// later has a negative distance to the tail, which is inside too).
		below := make([]int, g)
		stamps := make([][]int64, g)
		for a := range stamps {
			for b := 0; b < k; b++ {
				stamps[a] = append(stamps[a], base+rng.Int64N(ivl))
			}
		}
		var wg sync.WaitGroup
		start := make(chan struct{})
		for a := 0; a < g; a++ {
			wg.Add(1)
			go func(a int) {
				defer wg.Done()
				<-start
				for _, t := range stamps[a] {
					if !rc.Add(time.Unix(0, t)) {
						below[a]++
					}
				}
			}(a)
		}
		close(start)
		wg.Wait()
		tot := 0
		for _, b := range below {
			tot += b
		}
		want := min(int(num), g*k)
		if tot != want {
			r.Violate("concurrent-add-not-sequential", fmt.Sprintf(
				"RequestCounter(limit %d): %d goroutines x %d Adds with stamps inside one window: %d Adds reported `not above`, every sequential history gives %d",
				num, g, k, tot, want), map[string]any{"campaign": "conc", "limit": num, "goroutines": g, "adds_each": k, "stamp": base})
		}
		// One sequential history on the model (every order gives the same count).
		lines := []string{fmt.Sprintf("ctr %d %d", num, ivl)}
		for a := range stamps {
			for _, t := range stamps[a] {
				lines = append(lines, fmt.Sprintf("add %d", t))
			}
		}
		mb := 0
		for _, a := range m.Batch(lines)[1:] {
			if a == "0" {
				mb++
			}
		}
		if mb != tot {
			r.Disagree("conc", fmt.Sprintf("concurrent Adds: %d below the limit, model's sequential history %d", tot, mb),
				map[string]any{"campaign": "conc", "ops": truncate(lines, 6)})
		}
		r.Case(fmt.Sprintf("conc %d %d %d", num, g, k), true)
		r.Count("conc.counter_cases")
		r.Traces++
	}
	// Limit 0 makes every single Add sensitive to atomicity: the ring has one
	// slot, so the tail an Add compares with is the stamp it has just pushed
	// itself and the verdict is `above` in every sequential history.  Each
	// goroutine uses its own stamp, far more than the interval away from the
	// others', so an Add that sees another goroutine's push reports `not above`.
	rounds := 4
	if o.Thorough() {
		rounds = 40
	}
	for i := 0; i < rounds; i++ {
		const g, k = 8, 20000
		rc := ratelimit.NewRequestCounter(0, 10)
		bad := make([]int, g)
		var wg sync.WaitGroup
		start := make(chan struct{})
		for a := 0; a < g; a++ {
			wg.Add(1)
			go func(a int) {
				defer wg.Done()
				t := time.Unix(0, int64(a+1)*1000)
				<-start
				for b := 0; b < k; b++ {
					if !rc.Add(t) {
						bad[a]++
					}
				}
			}(a)
		}
		close(start)
		wg.Wait()
		tot := 0
		for _, b := range bad {
			tot += b
		}
		if tot > 0 {
			r.Violate("concurrent-add-not-sequential", fmt.Sprintf(
				"RequestCounter(limit 0, interval 10 ns): %d goroutines x %d Adds, each goroutine with its own stamp 1 µs from the others: "+
					"%d Adds reported `not above`; in every sequential history each Add compares its stamp with itself and reports `above`",
				g, k, tot), map[string]any{"campaign": "conc", "limit": 0, "goroutines": g, "adds_each": k})
		}
		r.Case(fmt.Sprintf("conc0 %d", i), true)
		r.Count("conc.atomicity_rounds")
		r.Traces++
	}
	// Backoff: a warm bucket (its counter exists) hit from several goroutines.
	ctx := context.Background()
	ip := netip.MustParseAddr("10.0.0.1")
	coldExtra := 0
	for i := 0; i < n; i++ {
		limit := uint(1 + rng.IntN(5))
		g, k := 2+rng.IntN(7), 1+rng.IntN(10)
		warm := i%4 != 0
		if i%50 == 1 {
			// Long contended rounds: lost updates of the hit counter need many
			// simultaneous over-limit queries to show.
			g, k = 8, 5000
		}
		c := &bcfg{count: 100000, period: time.Hour, duration: time.Hour, est: 100000, c4: limit, i4: time.Hour, l4: 24,
			c6: limit, i6: time.Hour, l6: 48}
		lim := c.real()
		passes := make([]int, g)
		pre := 0
		if warm {
			// limit+1 sequential queries: the counter and the hit counter of the
			// subnet both exist before the goroutines start.
			for w := 0; w <= int(limit); w++ {
				d, _, err := lim.IsRateLimited(ctx, mkReq(dns.TypeA), ip)
				hlib.Must(err)
				if !d {
					pre++
				}
			}
		}
		var wg sync.WaitGroup
		start := make(chan struct{})
		for a := 0; a < g; a++ {
			wg.Add(1)
			go func(a int) {
				defer wg.Done()
				req := mkReq(dns.TypeA)
				<-start
				for b := 0; b < k; b++ {
					d, _, _ := lim.IsRateLimited(ctx, req, netip.AddrFrom4([4]byte{10, 0, 0, byte(1 + a)}))
					if !d {
						passes[a]++
					}
				}
			}(a)
		}
		close(start)
		wg.Wait()
		tot := pre
		for _, p := range passes {
			tot += p
		}
		want := min(int(limit), g*k+pre)
		total := g * k
		if warm {
			total += int(limit) + 1
		}
		hits, _ := ratelimit.VerifC09Hits(lim, ip)
		switch {
		case warm && tot != want:
			r.Violate("concurrent-limiter-not-sequential", fmt.Sprintf(
				"Backoff (limit %d per hour, /24): limit+1 warm-up queries then %d goroutines x %d queries from one subnet: %d passed, every sequential history passes %d",
				limit, g, k, tot, want), map[string]any{"campaign": "conc", "limit": limit, "goroutines": g, "queries_each": k})
		case warm && int(hits) != total-tot:
			r.Violate("concurrent-hits-lost", fmt.Sprintf(
				"Backoff (limit %d per hour): %d over-limit queries from concurrent goroutines but the subnet's hit counter is %d",
				limit, total-tot, hits), map[string]any{"campaign": "conc", "limit": limit, "goroutines": g, "queries_each": k})
		case !warm && tot != want:
			// First contact of a subnet from several goroutines at once: the
			// get-or-create of the counter is not atomic (Lean:
			// creation_race_counterexample).  Outside the statement's quantifier
			// (sequences of events); counted, not judged.
			coldExtra++
			r.Count("conc.cold_creation_race_seen")
		}
		r.Case(fmt.Sprintf("concb %d %d %d %v", limit, g, k, warm), true)
		r.Count("conc.backoff_cases")
		r.Traces++
	}
	if coldExtra > 0 {
		r.Notes = append(r.Notes, fmt.Sprintf("conc: in %d cold-bucket cases more than `limit` queries of a subnet's very first concurrent burst passed "+
			"(non-atomic get-or-create of the per-subnet counter; not part of the sequential statement)", coldExtra))
	}
}

// consulCampaign: the allowlist refresh path end to end — an HTTP endpoint
// serving consul records, consul.AllowlistUpdater.Refresh, the
// DynamicAllowlist it updates, and the Backoff limiter that consults it.
func consulCampaign(o *hlib.Opts, r *hlib.Result, m *hlib.Model) {
	rng := o.Rand("consul")
	n := 40
	if o.Thorough() {
		n = 400
	}
	ctx := context.Background()
	var body string
	status := http.StatusOK
	srv := httptest.NewServer(http.HandlerFunc(func(w http.ResponseWriter, _ *http.Request) {
		w.WriteHeader(status)
		_, _ = w.Write([]byte(body))
	}))
	defer srv.Close()
	u, err := url.Parse(srv.URL)
	hlib.Must(err)
	for i := 0; i < n; i++ {
		c := genCfg(rng)
		c.dyn = nil
		lim, al := c.realDyn()
		collected := 0
		upd := consul.NewAllowlistUpdater(&consul.AllowlistUpdaterConfig{
			Logger:    slogutil.NewDiscardLogger(),
			Allowlist: al,
			ConsulURL: u,
			ErrColl:   &agdtest.ErrorCollector{OnCollect: func(_ context.Context, _ error) { collected++ }},
			Metrics:   consul.EmptyMetrics{},
			Timeout:   5 * time.Second,
		})
		ref := newRef(c, false)
		lines := c.modelLines()
		pre := len(lines)
		var gots []string
		refOK := true
		drops, allows := 0, 0
		pool := []netip.Addr{genAddr(rng), genAddr(rng), genAddr(rng), genAddr(rng)}
		for j := 4 + rng.IntN(25); j > 0; j-- {
			if rng.IntN(4) == 0 {
				// A refresh: good records, a bad status, or an undecodable body.
				var addrs []netip.Addr
				for k := rng.IntN(4); k > 0; k-- {
					if rng.IntN(3) == 0 {
						addrs = append(addrs, genAddr(rng))
					} else {
						addrs = append(addrs, pool[rng.IntN(len(pool))])
					}
				}
				var recs []string
				line := "consul 1"
				for _, a := range addrs {
					recs = append(recs, fmt.Sprintf(`{"Address":%q,"Node":"n"}`, a.String()))
					line += " " + addrArgs(a)
				}
				body, status = "["+strings.Join(recs, ",")+"]", http.StatusOK
				ok := true
				switch rng.IntN(8) {
				case 0:
					status, ok = http.StatusInternalServerError, false
				case 1:
					body, ok = body[:len(body)/2]+"{", false
				case 2:
					body, ok = `[{"Address":"not-an-address"}]`, false
				}
				before := collected
				err = upd.Refresh(ctx)
				if ok {
					var nets []netip.Prefix
					for _, a := range addrs {
						nets = append(nets, netip.PrefixFrom(a, a.BitLen()))
					}
					ref.dynamic = nets
					r.Count("consul.refresh_ok")
				} else {
					line = "consul 0"
					r.Count("consul.refresh_failed")
				}
				if (err == nil) != ok || (!ok && collected == before) {
					r.Violate("consul-refresh-status", fmt.Sprintf("allowlist refresh with status %d body %q: error %v (errors collected: %d), expected success=%v",
						status, body, err, collected-before, ok), map[string]any{"campaign": "consul", "ops": append([]string{}, lines...)})
				}
				lines = append(lines, line)
				gots = append(gots, "ok")

				continue
			}
			ip := pool[rng.IntN(len(pool))]
			if rng.IntN(5) == 0 {
				ip = genAddr(rng)
			}
			qt := uint16(dns.TypeA)
			now := spin()
			drop, allowlisted, err2 := lim.IsRateLimited(ctx, mkReq(qt), ip)
			hlib.Must(err2)
			got := verdictText(drop, allowlisted)
			if drop {
				drops++
			} else if allowlisted {
				allows++
			}
			lines = append(lines, fmt.Sprintf("req %d %s %d", now, addrArgs(ip), qt))
			gots = append(gots, got)
			if want, why, inWin := ref.check(now, ip, qt); refOK && want != got {
				refOK = false
				r.Violate(mismatchSig("consul-", got, want), fmt.Sprintf(
					"after consul refreshes (persistent %v, refreshed hosts %v): query from %s %s",
					ref.persistent, ref.dynamic, ip, mismatchText(got, want, why, inWin, limitText(c, ip))),
					map[string]any{"campaign": "consul", "ops": append([]string{}, lines...), "expected": want})
			}
		}
		answers := m.Batch(lines)[pre:]
		for j := range gots {
			if gots[j] != answers[j] {
				r.Disagree("consul", fmt.Sprintf("real=%s model=%s at op %d (%s)", gots[j], answers[j], j, lines[pre+j]),
					map[string]any{"campaign": "consul", "ops": lines[:pre+j+1]})

				break
			}
		}
		r.Case(strings.Join(stripTimes(lines), ";"), allows > 0 && drops > 0)
		r.Count("consul.cases")
		if allows > 0 {
			r.Sample(map[string]any{"campaign": "consul", "ops": truncate(stripTimes(lines), 10)}, 22)
		}
		r.Traces++
	}
}
