package main

import (
	"context"
	"fmt"
	"net"
	"slices"
	"strings"
	"time"

	"github.com/AdguardTeam/AdGuardDNS/internal/dnsserver"
	"github.com/AdguardTeam/AdGuardDNS/internal/dnsserver/ratelimit"
	"github.com/AdguardTeam/AdGuardDNS/verifh/hlib"
	"github.com/AdguardTeam/golibs/netutil"
	"github.com/miekg/dns"
)

// libmwCampaign drives the library middleware ratelimit.Middleware
// (internal/dnsserver/ratelimit/ratelimit.go) around the real Backoff: protocol
// gate, the port-0 spoofing drop, and the drop / allowlisted / counted flow.
// Observed per query: was the next handler called, was anything written.
func libmwCampaign(o *hlib.Opts, r *hlib.Result, m *hlib.Model) {
	rng := o.Rand("libmw")
	n := 150
	if o.Thorough() {
		n = 2000
	}
	protoSets := [][]dnsserver.Protocol{nil, {dnsserver.ProtoDNS}, {dnsserver.ProtoDNS, dnsserver.ProtoDNSCrypt}}
	protos := []dnsserver.Protocol{dnsserver.ProtoDNS, dnsserver.ProtoDNS, dnsserver.ProtoDoT, dnsserver.ProtoDNSCrypt}
	local := &net.UDPAddr{IP: net.IP{192, 0, 2, 2}, Port: 53}
	for i := 0; i < n; i++ {
		c := genCfg(rng)
		c.est = uint64(100 + rng.IntN(3)*100)
		lim, al := c.realDyn()
		ref := newRef(c, false)
		ref.dynamic = c.dyn
		set := protoSets[rng.IntN(len(protoSets))]
		mw, err := ratelimit.NewMiddleware(&ratelimit.MiddlewareConfig{RateLimit: lim, Protocols: set})
		hlib.Must(err)
		respLen, nextCalls := 0, 0
		h := mw.Wrap(dnsserver.HandlerFunc(func(ctx context.Context, rw dnsserver.ResponseWriter, req *dns.Msg) error {
			nextCalls++
			if respLen < 0 {
				return nil
			}

			return rw.WriteMsg(ctx, req, mkResp(req.Question[0].Qtype, respLen))
		}))
		lines := c.modelLines()
		pre := len(lines)
		var gots []string
		var pend *pending
		refOK := true
		dropped, served := 0, 0
		t0 := time.Now()
		for j := 5 + rng.IntN(40); j > 0; j-- {
			if rng.IntN(15) == 0 {
				nets := genNets(rng)
				al.Update(nets)
				ref.dynamic = nets
				lines = append(lines, dynLine(nets))
				gots = append(gots, "ok")

				continue
			}
			ip := genAddr(rng)
			qt := uint16(dns.TypeA)
			if rng.IntN(10) == 0 {
				qt = dns.TypeANY
			}
			respLen = genRespLen(rng, c.est, 500)
			if rng.IntN(8) == 0 {
				respLen = -1
			}
			port := 1234
			if rng.IntN(10) == 0 {
				port = 0
			}
			proto := protos[rng.IntN(len(protos))]
			enabled := len(set) == 0 || slices.Contains(set, proto)
			raddr := &net.UDPAddr{IP: ip.AsSlice(), Port: port}
			eff := netutil.NetAddrToAddrPort(raddr).Addr()
			rw := dnsserver.NewNonWriterResponseWriter(local, raddr)
			ctx := dnsserver.ContextWithServerInfo(context.Background(), &dnsserver.ServerInfo{Name: "s", Addr: "192.0.2.2:53", Proto: proto})
			before := nextCalls
			now := spin()
			if err = h.ServeDNS(ctx, rw, mkReq(qt)); err != nil {
				r.Disagree("libmw-error", fmt.Sprintf("middleware returned error %v", err), append([]string{}, lines...))

				break
			}
			called, written := nextCalls > before, rw.Msg() != nil
			got := "served"
			if !called {
				got = "dropped"
				dropped++
			} else {
				served++
			}
			lenArg, countLen := "-", 0
			if respLen >= 0 {
				countLen = mkResp(qt, respLen).Len()
				lenArg = fmt.Sprint(countLen)
			}
			lines = append(lines, fmt.Sprintf("libmw %s %s %d %s %d %s", b2s(enabled), b2s(port == 0), now, addrArgs(eff), qt, lenArg))
			gots = append(gots, got)
			r.Count("libmw." + got)
			// Property oracle.
			replay := map[string]any{"campaign": "libmw", "protocols": fmt.Sprint(set), "proto": proto.String(), "ops": append([]string{}, lines...)}
			if !called && written {
				pend = newPending("drop-not-silent", fmt.Sprintf("query from %s was not passed on but a response (rcode %d) was written", eff, rw.Msg().Rcode), replay)
			}
			if called && respLen >= 0 && !written {
				pend = newPending("libmw-response-lost", fmt.Sprintf("query from %s was handled but its response was not written", eff), replay)
			}
			if !refOK {
				continue
			}
			want, how := "served", "the protocol is not rate limited"
			if enabled && port == 0 {
				want, how = "dropped", "a remote address without a port is treated as spoofed"
			} else if enabled {
				v, why, inWin := ref.check(now, eff, qt)
				how = refWhy(v, why, inWin, limitText(c, eff))
				if v == "drop" {
					want = "dropped"
				} else if v == "pass" {
					ref.countResp(now, eff, qt, countLen)
				}
			}
			if want != got {
				refOK = false
				sig := "libmw-late-pass"
				if got == "dropped" {
					sig = "libmw-early-drop"
				}
				pend = newPending(sig, fmt.Sprintf("ratelimit.Middleware (protocols %v): %s query from %s (qtype %d) was %s, expected %s (%s)",
					set, proto, eff, qt, got, want, how), replay)
			}
		}
		if time.Since(t0) > 400*time.Millisecond {
			r.Count("libmw.discarded_slow")

			continue
		}
		pend.raise(r)
		answers := m.Batch(lines)[pre:]
		for j := range gots {
			if gots[j] != answers[j] {
				r.Disagree("libmw", fmt.Sprintf("middleware=%s model=%s at step %d", gots[j], answers[j], j),
					map[string]any{"campaign": "libmw", "ops": lines[:pre+j+1]})

				break
			}
		}
		r.Case(strings.Join(stripTimes(lines), ";"), dropped > 0 && served > 0)
		r.Count("libmw.cases")
		if dropped > 0 && served > 0 {
			r.Sample(map[string]any{"campaign": "libmw", "ops": truncate(lines, 8)}, 16)
		}
		r.Traces++
	}
}
