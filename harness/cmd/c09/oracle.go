package main

// Reference monitor for the property itself.  It is written against the
// statement of C09 (window log per masked subnet, backoff after `count`
// over-limit events for `duration`, allowlist, ANY refusal, response weight,
// profile limit for the profile's subnets) and consults neither the Lean model
// nor the code under test.  Addresses are masked on their raw bytes.

import (
	"fmt"
	"net/netip"
	"time"

	"github.com/AdguardTeam/AdGuardDNS/verifh/hlib"
)

// maskKey returns the family and the first bits bits of ip as a map key.
func maskKey(ip netip.Addr, bits int) string {
	raw := ip.AsSlice()
	out := make([]byte, len(raw))
	for i := range raw {
		switch {
		case bits >= 8*(i+1):
			out[i] = raw[i]
		case bits > 8*i:
			out[i] = raw[i] & ^byte(0xff>>(bits-8*i))
		}
	}

	return fmt.Sprintf("%d/%x/%d", len(raw), out, bits)
}

// netHas reports whether ip lies in p: same family (a 4in6-mapped address is
// an IPv6 address) and the same leading bits.  A zone on the client address is
// irrelevant (networks have none); a network whose length does not fit its
// family contains nothing.
func netHas(p netip.Prefix, ip netip.Addr) bool {
	if !p.IsValid() || p.Addr().Is4() != ip.Is4() {
		return false
	}

	return maskKey(p.Addr(), p.Bits()) == maskKey(ip, p.Bits())
}

func anyNetHas(nets []netip.Prefix, ip netip.Addr) bool {
	for _, p := range nets {
		if netHas(p, ip) {
			return true
		}
	}

	return false
}

type refBucket struct {
	// log holds the stamps of the counted events of the subnet.
	log []int64
	// born is the stamp of the first counted event since the last reset; only
	// used when the recorded deviation is reproduced (see refLimiter.reset).
	born   int64
	hasLog bool
	// hits is how often the subnet went over its limit since hitBorn.
	hits    uint64
	hitBorn int64
	hasHits bool
}

type refLimiter struct {
	c *bcfg
	// persistent and dynamic are the current allowlist.
	persistent, dynamic []netip.Prefix
	// reset makes the monitor reproduce the recorded deviation
	// reqcounter-expires-period-after-creation: the window log of a subnet is
	// forgotten `period` after its first event.  The property as stated has
	// reset == false.
	reset bool
	b     map[string]*refBucket
}

func newRef(c *bcfg, reset bool) *refLimiter {
	return &refLimiter{c: c, persistent: c.allow, reset: reset, b: map[string]*refBucket{}}
}

// alive: something created at born with lifetime d still exists at now; a
// non-positive lifetime means forever.
func alive(born int64, d, now int64) bool { return d <= 0 || now <= born+d }

// check is one query event.  It returns the verdict ("drop", "allow", "pass"),
// the reason for a drop and the number of counted events found in the window.
func (l *refLimiter) check(now int64, ip netip.Addr, qtype uint16) (verdict, why string, inWin int) {
	if l.c.refuseAny && qtype == 255 {
		return "drop", "any-refusal", 0
	}
	if anyNetHas(l.persistent, ip) || anyNetHas(l.dynamic, ip) {
		return "allow", "", 0
	}
	limit, ivl, bits := l.c.c4, int64(l.c.i4), l.c.l4
	if !ip.Is4() {
		limit, ivl, bits = l.c.c6, int64(l.c.i6), l.c.l6
	}
	k := maskKey(ip, bits)
	b := l.b[k]
	if b == nil {
		b = &refBucket{}
		l.b[k] = b
	}
	if b.hasHits && !alive(b.hitBorn, int64(l.c.duration), now) {
		b.hasHits, b.hits = false, 0
	}
	if b.hasHits && b.hits >= uint64(l.c.count) {
		return "drop", "backoff", 0
	}
	if l.reset && b.hasLog && !alive(b.born, int64(l.c.period), now) {
		b.hasLog, b.log = false, nil
	}
	if !b.hasLog {
		b.hasLog, b.born = true, now
	}
	for _, t := range b.log {
		if now-t <= ivl {
			inWin++
		}
	}
	b.log = append(b.log, now)
	if inWin >= int(limit) {
		if !b.hasHits {
			b.hasHits, b.hitBorn, b.hits = true, now, 0
		}
		b.hits++

		return "drop", "window", inWin
	}

	return "pass", "", inWin
}

// countResp is a response of respLen bytes: ⌊respLen/est⌋ further events of the
// same client, each a little later than the previous one.
func (l *refLimiter) countResp(now int64, ip netip.Addr, qtype uint16, respLen int) {
	for i := 0; i < respLen/int(l.c.est); i++ {
		l.check(now+2*int64(i+1), ip, qtype)
	}
}

// refProfile is the reference for a profile's own limit: rps events per second
// for the whole profile, applied to the profile's subnets only.
type refProfile struct {
	rps     int
	est     int
	subnets []netip.Prefix
	log     []int64
}

func (p *refProfile) covers(ip netip.Addr) bool {
	return len(p.subnets) == 0 || anyNetHas(p.subnets, ip)
}

func (p *refProfile) check(now int64, ip netip.Addr) (verdict string, inWin int) {
	if !p.covers(ip) {
		return "global", 0
	}
	for _, t := range p.log {
		if now-t <= 1_000_000_000 {
			inWin++
		}
	}
	p.log = append(p.log, now)
	if inWin >= p.rps {
		return "drop", inWin
	}

	return "pass", inWin
}

func (p *refProfile) countResp(now int64, ip netip.Addr, respLen int) {
	for i := 0; i < respLen/p.est; i++ {
		p.check(now+2*int64(i+1), ip)
	}
}

// mismatchSig names the class of a deviation of the real verdict from the
// reference verdict.
func mismatchSig(prefix, real, ref string) string {
	switch {
	case real == "allow" || ref == "allow":
		return prefix + "allowlist"
	case real == "drop":
		return prefix + "early-drop"
	default:
		return prefix + "late-pass"
	}
}

// refWhy says why the reference monitor reached its verdict.
func refWhy(ref, why string, inWin int, limitText string) string {
	switch {
	case ref == "drop" && why == "backoff":
		return "the subnet is in backoff"
	case ref == "drop" && why == "window":
		return fmt.Sprintf("%d counted events of the subnet lie in the window (%s)", inWin, limitText)
	case ref == "drop":
		return "ANY refusal is configured"
	case ref == "allow":
		return "the client is allowlisted"
	default:
		return fmt.Sprintf("the client is not allowlisted, not in backoff and only %d counted events lie in the window (%s)", inWin, limitText)
	}
}

func mismatchText(real, ref, why string, inWin int, limitText string) string {
	return fmt.Sprintf("got %s although %s", real, refWhy(ref, why, inWin, limitText))
}

// crossCampaign compares the reference monitor (with the recorded reset
// deviation switched on, i.e. the behaviour of the code as modelled) with the
// Lean model on synthetic, exactly timed histories that the real limiter cannot
// be driven through: equal stamps, gaps of exactly the window, expiry exactly at
// and one past `period`/`duration`.  It validates the oracle and the model
// against each other; the real code is not involved.
func crossCampaign(o *hlib.Opts, r *hlib.Result, m *hlib.Model) {
	rng := o.Rand("cross")
	ips := []netip.Addr{netip.MustParseAddr("10.0.0.1"), netip.MustParseAddr("10.0.1.1")}
	steps := []int64{0, 9, 10, 11, 25, 26}
	runCase := func(c *bcfg, st []int64, who []int) {
		ref := newRef(c, true)
		lines := c.modelLines()
		pre := len(lines)
		now := int64(1)
		var wants []string
		for j := range st {
			now += st[j]
			ip := ips[who[j]]
			w, _, _ := ref.check(now, ip, 1)
			wants = append(wants, w)
			lines = append(lines, fmt.Sprintf("req %d %s 1", now, addrArgs(ip)))
		}
		answers := m.Batch(lines)[pre:]
		for j := range wants {
			if wants[j] != answers[j] {
				r.Disagree("ref-vs-model", fmt.Sprintf("reference monitor=%s model=%s at step %d of an exactly timed history", wants[j], answers[j], j),
					map[string]any{"campaign": "cross", "ops": lines[:pre+j+1]})

				break
			}
		}
		r.Count("cross.cases")
		r.Evaluations++
	}
	mk := func(limit, count uint, period, duration int64) *bcfg {
		return &bcfg{count: count, period: time.Duration(period), duration: time.Duration(duration), est: 1000,
			c4: limit, i4: 10, l4: 24, c6: 1, i6: 10, l6: 48}
	}
	if o.Thorough() {
		// Exhaustive: limit 1..2, backoff count 0..2, period/duration in {never, 25},
		// horizon 5, one subnet, steps on the 6-point grid.
		for limit := uint(1); limit <= 2; limit++ {
			for count := uint(0); count <= 2; count++ {
				for _, period := range []int64{0, 25} {
					for _, duration := range []int64{0, 25} {
						c := mk(limit, count, period, duration)
						total := 1
						for j := 0; j < 5; j++ {
							total *= len(steps)
						}
						for code := 0; code < total; code++ {
							st, who := make([]int64, 5), make([]int, 5)
							for j, x := 0, code; j < 5; j++ {
								st[j] = steps[x%len(steps)]
								x /= len(steps)
							}
							runCase(c, st, who)
						}
					}
				}
			}
		}
		r.Count("cross.exhaustive_done")
	}
	for i := 0; i < 400; i++ {
		c := mk(uint(1+rng.IntN(3)), uint(rng.IntN(4)), []int64{0, 25, 40}[rng.IntN(3)], []int64{0, 25, 40}[rng.IntN(3)])
		n := 3 + rng.IntN(10)
		st, who := make([]int64, n), make([]int, n)
		for j := range st {
			st[j] = steps[rng.IntN(len(steps))]
			who[j] = rng.IntN(2)
		}
		runCase(c, st, who)
	}
}
