package main

// Round 4, part 1: what ratelimitmw.Middleware.Wrap does in front of the
// limiter.  The statement speaks about responses to plain-DNS clients, whoever
// writes them: the handler behind the limiter, the middleware itself (FORMERR
// for a malformed EDNS Client Subnet option) or the server (SERVFAIL for an
// error the middleware returns, e.g. a malformed device id in the dnsmasq EDNS
// option).  frontCampaign mixes such requests with ordinary ones, spoofed ones
// (port 0) and access-blocked ones through the production stack; the reference
// monitor treats every request that gets past Wrap's own checks as one event,
// the Lean model is `frontStep`.

import (
	"context"
	"fmt"
	"math/rand/v2"
	"net/netip"
	"strings"
	"time"

	"github.com/AdguardTeam/AdGuardDNS/internal/access"
	"github.com/AdguardTeam/AdGuardDNS/internal/agd"
	"github.com/AdguardTeam/AdGuardDNS/internal/agdpasswd"
	"github.com/AdguardTeam/AdGuardDNS/internal/agdtest"
	"github.com/AdguardTeam/AdGuardDNS/internal/dnsmsg"
	"github.com/AdguardTeam/AdGuardDNS/internal/dnsserver"
	"github.com/AdguardTeam/AdGuardDNS/internal/dnsserver/ratelimit"
	"github.com/AdguardTeam/AdGuardDNS/internal/filter"
	"github.com/AdguardTeam/AdGuardDNS/verifh/hlib"
	"github.com/AdguardTeam/AdGuardDNS/verifh/hlib/stack"
	"github.com/c2h5oh/datasize"
	"github.com/miekg/dns"
)

// dnsmasqCPEIDOption is the EDNS option code that carries a device id over
// plain DNS (doc: "dnsmasq --add-cpe-id").
const dnsmasqCPEIDOption = 65074

// badECSForms are EDNS Client Subnet options that RFC 7871 calls malformed.
func addBadECS(m *dns.Msg, form int) {
	opt := &dns.OPT{Hdr: dns.RR_Header{Name: ".", Rrtype: dns.TypeOPT}}
	opt.SetUDPSize(1232)
	e := &dns.EDNS0_SUBNET{Code: dns.EDNS0SUBNET, Family: 1, SourceNetmask: 24, Address: netip.MustParseAddr("198.51.100.7").AsSlice()}
	switch form % 4 {
	case 0:
		// bits set beyond the source prefix length
	case 1:
		e.Family, e.SourceNetmask, e.Address = 2, 56, netip.MustParseAddr("2001:db8:1:2:3::9").AsSlice()
	case 2:
		// a source prefix length beyond the family's width
		e.SourceNetmask, e.Address = 33, netip.MustParseAddr("198.51.100.0").AsSlice()
	case 3:
		// an unknown address family
		e.Family = 3
	}
	opt.Option = append(opt.Option, e)
	m.Extra = append(m.Extra, opt)
}

// addBadDeviceID attaches a dnsmasq CPE-ID option whose value is not a valid
// device id.
func addBadDeviceID(m *dns.Msg, form int) {
	opt := &dns.OPT{Hdr: dns.RR_Header{Name: ".", Rrtype: dns.TypeOPT}}
	opt.SetUDPSize(1232)
	data := [][]byte{[]byte("much-too-long-id"), []byte("bad id!"), []byte("a/b")}[form%3]
	opt.Option = append(opt.Option, &dns.EDNS0_LOCAL{Code: dnsmasqCPEIDOption, Data: data})
	m.Extra = append(m.Extra, opt)
}

// profFixture is a profile recognised by its devices' linked addresses
// (profIPs), optionally with its own rate limit.
type profFixture struct {
	prof   *agd.Profile
	dev    *agd.Device
	own    *agd.DefaultRatelimiter
	ref    *refProfile
	line   string
	hasOwn bool
}

func mkProfFixture(rng *rand.Rand, est uint64, wantOwn bool) (f *profFixture) {
	f = &profFixture{line: "noprof"}
	var lim agd.Ratelimiter = agd.GlobalRatelimiter{}
	if wantOwn {
		rc := &agd.RatelimitConfig{RPS: uint32([]int{0, 1, 2, 3, 6}[rng.IntN(5)]), Enabled: true}
		for k := rng.IntN(3); k > 0; k-- {
			rc.ClientSubnets = append(rc.ClientSubnets, genPrefix(rng))
		}
		lim = agd.NewDefaultRatelimiter(rc, datasize.ByteSize(est))
		f.own, f.hasOwn = lim.(*agd.DefaultRatelimiter), true
		f.ref = &refProfile{rps: int(rc.RPS), est: int(est), subnets: rc.ClientSubnets}
		f.line = fmt.Sprintf("prof %d %d", rc.RPS, est)
		for _, p := range rc.ClientSubnets {
			f.line += " " + prefArgs(p)
		}
	}
	f.dev = &agd.Device{Auth: &agd.AuthSettings{PasswordHash: agdpasswd.AllowAuthenticator{}}, ID: "dev1234",
		LinkedIP: profIPs[0], FilteringEnabled: true}
	f.prof = &agd.Profile{
		FilterConfig: &filter.ConfigClient{Custom: &filter.ConfigCustom{}, Parental: &filter.ConfigParental{},
			RuleList: &filter.ConfigRuleList{}, SafeBrowsing: &filter.ConfigSafeBrowsing{}},
		Access: access.EmptyProfile{}, BlockingMode: &dnsmsg.BlockingModeNullIP{}, Ratelimiter: lim,
		ID: "prof1234", DeviceIDs: []agd.DeviceID{"dev1234"}, FilteredResponseTTL: 10 * time.Second,
		FilteringEnabled: true,
	}

	return f
}

// seenOf is what the client of the stack receives: an error returned to the
// server is answered with SERVFAIL by it.
func seenOf(out stack.Outcome) string {
	switch {
	case out.Err != nil:
		return "servfail"
	case out.Resp == nil:
		return "silent"
	case out.Resp.Rcode == dns.RcodeFormatError:
		return "formerr"
	default:
		return "upstream"
	}
}

var frontAnswer = map[string]string{"ok": "upstream", "ecs": "formerr", "dev": "servfail", "port0": "silent", "blocked": "silent"}

func frontCampaign(o *hlib.Opts, r *hlib.Result, m *hlib.Model) {
	rng := o.Rand("front")
	n := 300
	if o.Thorough() {
		n = 3000
	}
	ctx := context.Background()
	const vtUnit = 10 * time.Millisecond
	vtAges := []int64{1, 5, 10, 11, 20, 25, 26, 30, 31, 40, 41, 60, 99, 100, 101}
	blockedIP := netip.MustParseAddr("203.0.113.66")
	for i := 0; i < n; i++ {
		vt := i%2 == 1
		c := genCfg(rng)
		if vt {
			al0, dyn0 := c.allow, c.dyn
			c = genVtCfg(rng, vtUnit, false)
			c.allow, c.dyn = al0, dyn0
		}
		c.est = uint64(40 + rng.IntN(4)*30)
		lim, _ := c.realDyn()
		ref := newRef(c, false)
		ref.dynamic = c.dyn
		hasProf := rng.IntN(3) == 0
		pf := mkProfFixture(rng, c.est, hasProf && rng.IntN(3) > 0)
		pdb := stack.NotFoundProfileDB()
		if hasProf {
			pdb.OnProfileByLinkedIP = func(_ context.Context, ip netip.Addr) (*agd.Profile, *agd.Device, error) {
				if isProfIP(ip) {
					return pf.prof, pf.dev, nil
				}

				return nil, nil, fmt.Errorf("not found: %w", errNotFound)
			}
		}
		var respLen, upCalls int
		srvDNS := stack.NewServer("dns", agd.ProtoDNS, true)
		srvDoT := stack.NewServer("dot", agd.ProtoDoT, true, &agd.ServerBindData{AddrPort: netip.MustParseAddrPort("192.0.2.2:853")})
		st := stack.New(&stack.Config{
			RateLimit: lim,
			ProfileDB: pdb,
			Access: &agdtest.AccessManager{
				OnIsBlockedHost: func(string, uint16) bool { return false },
				OnIsBlockedIP:   func(ip netip.Addr) bool { return ip == blockedIP },
			},
			Servers: []*agd.Server{srvDNS, srvDoT},
			Upstream: dnsserver.HandlerFunc(func(ctx context.Context, rw dnsserver.ResponseWriter, req *dns.Msg) error {
				upCalls++

				return rw.WriteMsg(ctx, req, mkResp(req.Question[0].Qtype, respLen))
			}),
		})
		lines := append(c.modelLines(), pf.line)
		pre := len(lines)
		var gots []string
		var pend *pending
		refOK := true
		var shift int64
		t0 := time.Now()
		nev := 6 + rng.IntN(40)
		silent, answered := 0, 0
		// A few clients only, so that the early answers pile up in one subnet.
		pool := []netip.Addr{genAddr(rng), genAddr(rng), genAddr(rng)}
		lastFlen := 40
		for j := 0; j < nev; j++ {
			if vt && rng.IntN(5) == 0 {
				d := time.Duration(vtAges[rng.IntN(len(vtAges))]) * vtUnit
				ratelimit.VerifC09AgeBackoff(lim, d)
				if pf.own != nil {
					agd.VerifC09Age(pf.own, d)
				}
				shift += int64(d)
				lines = append(lines, fmt.Sprintf("age %d", int64(d)))
				gots = append(gots, "ok")

				continue
			}
			ip := pool[rng.IntN(len(pool))]
			if hasProf && rng.IntN(2) == 0 {
				ip = profIPs[rng.IntN(len(profIPs))]
			}
			cls := []string{"ok", "ok", "ok", "ecs", "ecs", "dev", "dev", "port0", "blocked"}[rng.IntN(9)]
			srv, limited := srvDNS, true
			if rng.IntN(10) == 0 {
				srv, limited = srvDoT, false
				if cls == "dev" {
					// Over DoT the device id comes from the TLS server name.
					cls = "ecs"
				}
			}
			eff := ip.Unmap()
			isProf := hasProf && isProfIP(eff)
			qt := uint16(dns.TypeA)
			if rng.IntN(10) == 0 && !isProf {
				qt = dns.TypeANY
			}
			msg := mkReq(qt)
			port := uint16(1234)
			switch cls {
			case "ecs":
				addBadECS(msg, rng.IntN(4))
			case "dev":
				addBadDeviceID(msg, rng.IntN(3))
			case "port0":
				port = 0
			case "blocked":
				ip, eff, isProf = blockedIP, blockedIP, false
			}
			r.Count("front.class=" + cls)
			respLen = genRespLen(rng, c.est, 300)
			now := spin() + shift
			callsBefore := upCalls
			out := st.Serve(ctx, &stack.Req{Server: srv, Msg: msg, Remote: netip.AddrPortFrom(ip, port),
				Local: netip.MustParseAddrPort("192.0.2.2:53")})
			calls := upCalls - callsBefore
			got := seenOf(out)
			if got == "silent" {
				silent++
			} else {
				answered++
			}
			gots = append(gots, got)
			lenArg, flen := "-", lastFlen
			if out.Resp != nil {
				if cls == "ecs" {
					flen, lastFlen = out.Resp.Len(), out.Resp.Len()
				} else {
					lenArg = fmt.Sprint(out.Resp.Len())
				}
			}
			if cls == "ok" && lenArg == "-" {
				lenArg = fmt.Sprint(mkResp(qt, respLen).Len())
			}
			if cls == "port0" {
				// The limiter is never asked; any address will do for the model.
				eff = ip.Unmap()
			}
			lines = append(lines, fmt.Sprintf("front %s %s %d %s %d %s %d %s", cls, b2s(limited), now, addrArgs(eff), qt, lenArg, flen,
				b2s(isProf && cls != "dev")))
			replay := func() map[string]any {
				return map[string]any{"campaign": "front", "ops": append([]string{}, lines...)}
			}
			if cls != "ok" && calls > 0 {
				pend = newPending("front-reached-upstream", fmt.Sprintf("request %d (%s) from %s reached the handler behind the limiter", j, cls, ip), replay())
			}
			if !refOK {
				continue
			}
			// Property oracle.  Every request that gets past Wrap's own checks is
			// one event for its subnet, whoever answers it.
			want, how := "silent", "requests with port 0 and access-blocked clients get no response"
			if cls != "port0" && cls != "blocked" {
				want, how = frontAnswer[cls], "the protocol is not rate limited"
				if limited {
					pv := "global"
					if isProf && pf.ref != nil && cls != "dev" {
						pv, _ = pf.ref.check(now, eff)
					}
					countLen := 0
					if out.Resp != nil {
						countLen = out.Resp.Len()
					}
					switch pv {
					case "drop":
						want, how = "silent", "the profile's own limit is exhausted"
					case "pass":
						how = "the profile's own limit applies and is not exhausted"
						pf.ref.countResp(now, eff, countLen)
					default:
						v, why, inWin := ref.check(now, eff, qt)
						how = refWhy(v, why, inWin, limitText(c, eff))
						if v == "drop" {
							want = "silent"
						} else if v == "pass" {
							ref.countResp(now, eff, qt, countLen)
						}
					}
				}
			}
			if want != got {
				refOK = false
				sig := "front-wrong-answer"
				what := fmt.Sprintf("request %d (%s) from %s: the client must receive %q (%s) but received %q", j, cls, eff, want, how, got)
				if want == "silent" {
					sig = "early-answer-unthrottled"
					what = fmt.Sprintf("request %d (class %s, qtype %d) from %s over plain DNS must be dropped without a response (%s) but the client received %q",
						j, cls, qt, eff, how, got)
					if cls == "ok" {
						sig = "front-late-pass"
					}
				} else if got == "silent" {
					sig = "front-early-drop"
				}
				rp := replay()
				rp["expected"] = want
				pend = newPending(sig, what, rp)
			}
		}
		if time.Since(t0) > 400*time.Millisecond || (vt && time.Since(t0) > 4*vtUnit/10) {
			r.Count("front.discarded_slow")

			continue
		}
		pend.raise(r)
		answers := m.Batch(lines)[pre:]
		for j := range gots {
			if gots[j] != answers[j] {
				r.Disagree("front", fmt.Sprintf("stack=%s model=%s at step %d", gots[j], answers[j], j),
					map[string]any{"campaign": "front", "ops": lines[:pre+j+1]})

				break
			}
		}
		r.Case(strings.Join(stripFront(lines), ";"), silent > 0 && answered > 0)
		r.Count("front.cases")
		if silent > 0 && answered > 0 {
			r.Sample(map[string]any{"campaign": "front", "ops": truncate(lines, 8)}, 12)
		}
		r.Traces++
	}
}

func stripFront(log []string) (out []string) {
	for _, l := range stripTimes(log) {
		f := strings.Fields(l)
		if len(f) > 3 && f[0] == "front" {
			f[3] = "t"
		}
		out = append(out, strings.Join(f, " "))
	}

	return out
}

var _ = hlib.Must

// counterUnorderedCampaign runs RequestCounter.Add where the theorems'
// hypotheses (positive, non-decreasing stamps) do not hold: clocks before 1970,
// stamp 0, steps backwards.  The statement says nothing there, so there is no
// oracle verdict; the ring model must still be the code (Tie/TrC09
// counter_add_is_ringAdd is stated for all stamps).
func counterUnorderedCampaign(o *hlib.Opts, r *hlib.Result, m *hlib.Model) {
	rng := o.Rand("counter-unordered")
	n := 300
	if o.Thorough() {
		n = 3000
	}
	for i := 0; i < n; i++ {
		num := uint(rng.IntN(5))
		ivl := []int64{1, 10, 1000, int64(time.Second)}[rng.IntN(4)]
		rc := ratelimit.NewRequestCounter(num, time.Duration(ivl))
		lines := []string{fmt.Sprintf("ctr %d %d", num, ivl)}
		var gots []string
		cur := int64(rng.IntN(2000)) - 1000
		for j := 3 + rng.IntN(40); j > 0; j-- {
			switch rng.IntN(6) {
			case 0:
				cur -= rng.Int64N(3 * ivl)
			case 1:
				cur = 0
			case 2:
				cur = -cur
			default:
				cur += rng.Int64N(2*ivl + 1)
			}
			gots = append(gots, b2s(rc.Add(time.Unix(0, cur))))
			lines = append(lines, fmt.Sprintf("radd %d", cur))
		}
		answers := m.Batch(lines)[1:]
		for j := range gots {
			if gots[j] != answers[j] {
				r.Disagree("counter-unordered", fmt.Sprintf("RequestCounter(limit %d, interval %d) real=%s model=%s at op %d", num, ivl, gots[j], answers[j], j),
					map[string]any{"campaign": "counter-unordered", "ops": lines[:j+2]})

				break
			}
		}
		r.Evaluations++
		r.Case(strings.Join(lines, ";"), true)
		r.Count("counter.unordered_cases")
	}
}
