package main

import "github.com/AdguardTeam/AdGuardDNS/internal/profiledb"

func profiledbNotFound() error { return profiledb.ErrDeviceNotFound }
