package main

// Round 3: the repository's own glue between the backend and the limiters.
//
// backendAllowlistCampaign: gRPC RateLimitService -> backendpb.RateLimiter.Refresh
// -> cidrRangeToInternal -> DynamicAllowlist.Update -> Backoff (the `backend`
// allowlist type; the consul type is consulCampaign).
//
// pbProfileCampaign: gRPC DNSService -> backendpb.ProfileStorage.Profiles ->
// RateLimitSettings.toInternal -> the profile's agd.Ratelimiter, which is then
// driven and compared with the statement (the profile's own limit for its
// configured subnets, the global limiter otherwise and when not enabled).

import (
	"context"
	"fmt"
	"math/rand/v2"
	"net"
	"net/netip"
	"net/url"
	"os"
	"path/filepath"
	"strconv"
	"strings"
	"time"

	"github.com/AdguardTeam/AdGuardDNS/internal/agd"
	"github.com/AdguardTeam/AdGuardDNS/internal/agdtest"
	"github.com/AdguardTeam/AdGuardDNS/internal/backendpb"
	"github.com/AdguardTeam/AdGuardDNS/internal/consul"
	"github.com/AdguardTeam/AdGuardDNS/internal/profiledb"
	"github.com/AdguardTeam/AdGuardDNS/verifh/hlib"
	"github.com/AdguardTeam/golibs/logutil/slogutil"
	"github.com/AdguardTeam/golibs/netutil"
	"github.com/c2h5oh/datasize"
	"github.com/miekg/dns"
	"google.golang.org/grpc"
	"google.golang.org/grpc/codes"
	"google.golang.org/grpc/credentials/insecure"
	"google.golang.org/grpc/metadata"
	"google.golang.org/grpc/status"
)

type glueServer struct {
	backendpb.UnimplementedRateLimitServiceServer
	backendpb.UnimplementedDNSServiceServer

	subnets []*backendpb.CidrRange
	fail    bool
	prof    *backendpb.DNSProfile
}

func (s *glueServer) GetRateLimitSettings(
	_ context.Context,
	_ *backendpb.RateLimitSettingsRequest,
) (*backendpb.RateLimitSettingsResponse, error) {
	if s.fail {
		return nil, status.Error(codes.Unavailable, "verif: scripted backend failure")
	}

	return &backendpb.RateLimitSettingsResponse{AllowedSubnets: s.subnets}, nil
}

func (s *glueServer) GetDNSProfiles(
	_ *backendpb.DNSProfilesRequest,
	srv grpc.ServerStreamingServer[backendpb.DNSProfile],
) (err error) {
	if s.prof != nil {
		if err = srv.Send(s.prof); err != nil {
			return err
		}
	}
	srv.SetTrailer(metadata.Pairs("sync_time", strconv.FormatInt(time.Now().UnixMilli(), 10)))

	return nil
}

// genCidr produces a backend CIDR range and what the statement makes of it:
// ok == false for an entry that names no network at all (address of a wrong
// length; reported and skipped), an invalid netip.Prefix for a length that does
// not fit the family (a network that contains nothing).
func genCidr(rng *rand.Rand) (c *backendpb.CidrRange, p netip.Prefix, ok bool) {
	base := genPrefix(rng)
	a := genAddr(rng).WithZone("")
	bits := a.BitLen()
	if base.IsValid() {
		a, bits = base.Addr(), base.Bits()
	}
	raw := a.AsSlice()
	switch rng.IntN(12) {
	case 0:
		// Wrong address length.
		return &backendpb.CidrRange{Address: raw[:len(raw)-1], Prefix: uint32(bits)}, netip.Prefix{}, false
	case 1:
		return &backendpb.CidrRange{Address: nil, Prefix: 0}, netip.Prefix{}, false
	case 2:
		// Length beyond the family.
		return &backendpb.CidrRange{Address: raw, Prefix: uint32(a.BitLen() + 1 + rng.IntN(200))},
			netip.PrefixFrom(a, a.BitLen()+1), true
	}

	return &backendpb.CidrRange{Address: raw, Prefix: uint32(bits)}, netip.PrefixFrom(a, bits), true
}

func startGlueServer(r *hlib.Result) (srv *glueServer, endpoint *url.URL, stop func()) {
	l, err := net.Listen("tcp", "127.0.0.1:0")
	if err != nil {
		r.Notes = append(r.Notes, "glue campaigns skipped: cannot listen on loopback: "+err.Error())

		return nil, nil, func() {}
	}
	srv = &glueServer{}
	gs := grpc.NewServer(grpc.ConnectionTimeout(1*time.Second), grpc.Creds(insecure.NewCredentials()))
	backendpb.RegisterRateLimitServiceServer(gs, srv)
	backendpb.RegisterDNSServiceServer(gs, srv)
	go func() { _ = gs.Serve(l) }()

	return srv, &url.URL{Scheme: "grpc", Host: l.Addr().String()}, gs.Stop
}

func glueCampaigns(o *hlib.Opts, r *hlib.Result, m *hlib.Model) {
	srv, endpoint, stop := startGlueServer(r)
	if srv == nil {
		return
	}
	defer stop()
	backendAllowlistCampaign(o, r, m, srv, endpoint)
	pbProfileCampaign(o, r, m, srv, endpoint)
}

func backendAllowlistCampaign(o *hlib.Opts, r *hlib.Result, m *hlib.Model, srv *glueServer, endpoint *url.URL) {
	rng := o.Rand("backend-allowlist")
	n := 40
	if o.Thorough() {
		n = 400
	}
	ctx := context.Background()
	for i := 0; i < n; i++ {
		c := genCfg(rng)
		c.dyn = nil
		lim, al := c.realDyn()
		collected := 0
		upd, err := backendpb.NewRateLimiter(&backendpb.RateLimiterConfig{
			Logger:      slogutil.NewDiscardLogger(),
			GRPCMetrics: backendpb.EmptyGRPCMetrics{},
			Metrics:     consul.EmptyMetrics{},
			Allowlist:   al,
			ErrColl:     &agdtest.ErrorCollector{OnCollect: func(_ context.Context, _ error) { collected++ }},
			Endpoint:    endpoint,
		})
		hlib.Must(err)
		ref := newRef(c, false)
		lines := c.modelLines()
		pre := len(lines)
		var gots []string
		refOK := true
		drops, allows := 0, 0
		pool := []netip.Addr{genAddr(rng), genAddr(rng), genAddr(rng), genAddr(rng)}
		for j := 4 + rng.IntN(25); j > 0; j-- {
			if rng.IntN(4) == 0 {
				var nets []netip.Prefix
				bad := 0
				srv.subnets, srv.fail = nil, rng.IntN(6) == 0
				for k := rng.IntN(4); k > 0; k-- {
					cidr, p, ok := genCidr(rng)
					if rng.IntN(2) == 0 {
						// The network of a client of the pool, so that the
						// refreshed list matters.
						ip := pool[rng.IntN(len(pool))].WithZone("")
						b := []int{8, 24, ip.BitLen() - 1, ip.BitLen()}[rng.IntN(4)]
						p, ok = netip.PrefixFrom(ip, b), true
						cidr = &backendpb.CidrRange{Address: ip.AsSlice(), Prefix: uint32(b)}
					}
					srv.subnets = append(srv.subnets, cidr)
					if ok {
						nets = append(nets, p)
					} else {
						bad++
					}
				}
				before := collected
				err = upd.Refresh(ctx)
				line := "consul 0"
				if !srv.fail {
					ref.dynamic = nets
					line = dynLine(nets)
					r.Count("backendal.refresh_ok")
					if bad > 0 {
						r.Count("backendal.bad_cidr_skipped")
					}
				} else {
					r.Count("backendal.refresh_failed")
				}
				if (err == nil) == srv.fail || (!srv.fail && collected-before != bad) {
					r.Violate("backend-allowlist-refresh-status", fmt.Sprintf(
						"backend allowlist refresh (scripted failure %v, %d unusable ranges): error %v, errors collected %d",
						srv.fail, bad, err, collected-before), map[string]any{"campaign": "backendal", "ops": append([]string{}, lines...)})
				}
				lines = append(lines, line)
				gots = append(gots, "ok")

				continue
			}
			ip := pool[rng.IntN(len(pool))]
			if rng.IntN(5) == 0 {
				ip = genAddr(rng)
			}
			if ip.Zone() != "" {
				r.Count("backendal.zoned_client")
			}
			qt := uint16(dns.TypeA)
			now := spin()
			drop, allowlisted, err2 := lim.IsRateLimited(ctx, mkReq(qt), ip)
			hlib.Must(err2)
			got := verdictText(drop, allowlisted)
			if drop {
				drops++
			} else if allowlisted {
				allows++
			}
			lines = append(lines, fmt.Sprintf("req %d %s %d", now, addrArgs(ip), qt))
			gots = append(gots, got)
			if want, why, inWin := ref.check(now, ip, qt); refOK && want != got {
				refOK = false
				r.Violate(mismatchSig("backend-", got, want), fmt.Sprintf(
					"after backend allowlist refreshes (persistent %v, refreshed networks %v): query from %s %s",
					ref.persistent, ref.dynamic, ip, mismatchText(got, want, why, inWin, limitText(c, ip))),
					map[string]any{"campaign": "backendal", "ops": append([]string{}, lines...), "expected": want})
			}
		}
		answers := m.Batch(lines)[pre:]
		for j := range gots {
			if gots[j] != answers[j] {
				r.Disagree("backendal", fmt.Sprintf("real=%s model=%s at op %d (%s)", gots[j], answers[j], j, lines[pre+j]),
					map[string]any{"campaign": "backendal", "ops": lines[:pre+j+1]})

				break
			}
		}
		r.Case(strings.Join(stripTimes(lines), ";"), allows > 0 && drops > 0)
		r.Count("backendal.cases")
		if allows > 0 {
			r.Sample(map[string]any{"campaign": "backendal", "ops": truncate(stripTimes(lines), 10)}, 24)
		}
		r.Traces++
	}
}

func pbProfileCampaign(o *hlib.Opts, r *hlib.Result, m *hlib.Model, srv *glueServer, endpoint *url.URL) {
	rng := o.Rand("pb-profile")
	n := 60
	if o.Thorough() {
		n = 600
	}
	ctx := context.Background()
	collected := 0
	const est = 100
	ps, err := backendpb.NewProfileStorage(&backendpb.ProfileStorageConfig{
		BindSet:              netutil.SliceSubnetSet{netip.MustParsePrefix("198.51.100.0/24")},
		ErrColl:              &agdtest.ErrorCollector{OnCollect: func(_ context.Context, _ error) { collected++ }},
		Logger:               slogutil.NewDiscardLogger(),
		GRPCMetrics:          backendpb.EmptyGRPCMetrics{},
		Metrics:              backendpb.EmptyProfileDBMetrics{},
		Endpoint:             endpoint,
		ResponseSizeEstimate: datasize.ByteSize(est),
		MaxProfilesSize:      16 * datasize.MB,
	})
	if err != nil {
		r.Notes = append(r.Notes, "pb-profile campaign skipped: "+err.Error())

		return
	}
	dir, err := os.MkdirTemp("", "c09-cache")
	hlib.Must(err)
	defer func() { _ = os.RemoveAll(dir) }()
	cachePath := filepath.Join(dir, "cache.pb")
	for i := 0; i < n; i++ {
		// The settings as the backend sends them.
		var rl *backendpb.RateLimitSettings
		var subnets []netip.Prefix
		bad := 0
		form := rng.IntN(6)
		if form > 0 {
			rl = &backendpb.RateLimitSettings{Enabled: form > 1, Rps: uint32([]int{0, 1, 2, 3, 5}[rng.IntN(5)])}
			for k := rng.IntN(3); k > 0; k-- {
				cidr, p, ok := genCidr(rng)
				rl.ClientCidr = append(rl.ClientCidr, cidr)
				if ok {
					subnets = append(subnets, p)
				} else {
					bad++
				}
			}
		}
		srv.prof = &backendpb.DNSProfile{DnsId: "prof1234", FilteringEnabled: true, RateLimit: rl}
		before := collected
		resp, err := ps.Profiles(ctx, &profiledb.StorageProfilesRequest{})
		if err != nil || len(resp.Profiles) != 1 {
			r.Violate("pb-profile-lost", fmt.Sprintf("profile with rate-limit settings %v: error %v", rl, err), nil)

			continue
		}
		lim := resp.Profiles[0].Ratelimiter
		if rng.IntN(2) == 0 {
			// A restart: the profile goes through the protobuf file cache
			// (ratelimiterToProtobuf, Ratelimiter.toInternal) and the limiter that
			// is driven is the one rebuilt from the file.
			fc := &profiledb.VerifC14FileCache{SyncTime: time.Unix(1700000000, 0), Version: profiledb.VerifC14FileCacheVersion,
				Profiles: resp.Profiles}
			hlib.Must(profiledb.VerifC14StoreCache(ctx, slogutil.NewDiscardLogger(), cachePath, fc, datasize.ByteSize(est)))
			loaded, lerr := profiledb.VerifC14LoadCache(ctx, slogutil.NewDiscardLogger(), cachePath, datasize.ByteSize(est))
			if lerr != nil || loaded == nil || len(loaded.Profiles) != 1 {
				r.Violate("pb-profile-lost-in-cache", fmt.Sprintf("profile with rate-limit settings %v did not survive the file cache: %v", rl, lerr), nil)

				continue
			}
			lim = loaded.Profiles[0].Ratelimiter
			r.Count("pbprofile.via_file_cache")
		}
		own := rl != nil && rl.Enabled
		what := fmt.Sprintf("profile rate-limit settings enabled=%v rps=%d client_cidr=%v (usable subnets %v)",
			own, rl.GetRps(), rl.GetClientCidr(), subnets)
		if own && collected-before != bad {
			r.Violate("pb-profile-bad-cidr-unreported", fmt.Sprintf("%s: %d unusable ranges, %d errors collected", what, bad, collected-before), nil)
		}
		// Statement: not enabled => the global limiter decides everything; enabled
		// => rps per second for the configured subnets (everyone when none usable
		// is configured — ClientSubnets "if empty, the custom limit is applied to
		// all clients").
		var refP *refProfile
		profLine := "noprof"
		if own {
			refP = &refProfile{rps: int(rl.Rps), est: est, subnets: subnets}
			profLine = fmt.Sprintf("prof %d %d", rl.Rps, est)
			for _, p := range subnets {
				profLine += " " + prefArgs(p)
			}
		}
		lines := []string{"cfg 0 0 0 1 1 1 32 1 1 128 0", profLine}
		pre := len(lines)
		var gots []string
		t0 := time.Now()
		var pend *pending
		nIn, nOut, drops := 0, 0, 0
		for j := 5 + rng.IntN(25); j > 0; j-- {
			ip := genAddr(rng)
			now := spin()
			if rng.IntN(6) == 0 {
				resp := mkResp(dns.TypeA, genRespLen(rng, est, 400))
				lim.CountResponses(ctx, resp, ip)
				if refP != nil {
					refP.countResp(now, ip, resp.Len())
					lines = append(lines, fmt.Sprintf("presp %d %s %d", now, addrArgs(ip), resp.Len()))
					gots = append(gots, "ok")
				}

				continue
			}
			got := map[agd.RatelimitResult]string{agd.RatelimitResultPass: "pass", agd.RatelimitResultDrop: "drop",
				agd.RatelimitResultUseGlobal: "global"}[lim.Check(ctx, mkReq(dns.TypeA), ip)]
			want, inWin := "global", 0
			if refP != nil {
				want, inWin = refP.check(now, ip)
				lines = append(lines, fmt.Sprintf("pcheck %d %s", now, addrArgs(ip)))
				gots = append(gots, got)
			}
			switch want {
			case "global":
				nOut++
			case "drop":
				drops++
				nIn++
			default:
				nIn++
			}
			if want != got && pend == nil {
				pend = newPending(mismatchSig("pb-profile-limit-", got, want), fmt.Sprintf(
					"%s: check from %s got %s, expected %s with %d events of the profile in the last second", what, ip, got, want, inWin),
					map[string]any{"campaign": "pb-profile", "ops": append([]string{}, lines...), "expected": want})
			}
		}
		if time.Since(t0) > 300*time.Millisecond {
			r.Count("pbprofile.discarded_slow")

			continue
		}
		pend.raise(r)
		answers := m.Batch(lines)[pre:]
		for j := range gots {
			if gots[j] != answers[j] {
				r.Disagree("pb-profile", fmt.Sprintf("converted limiter=%s model=%s at step %d", gots[j], answers[j], j),
					map[string]any{"campaign": "pb-profile", "ops": lines[:pre+j+1]})

				break
			}
		}
		r.Case(fmt.Sprintf("pbprofile %v;", rl)+strings.Join(stripTimes(lines), ";"), nIn > 0 && drops > 0)
		r.Count("pbprofile.cases")
		r.Count(fmt.Sprintf("pbprofile.form=%d", form))
		if nIn > 0 && nOut > 0 && drops > 0 {
			r.Count("pbprofile.mixed")
			r.Sample(map[string]any{"campaign": "pb-profile", "settings": fmt.Sprint(rl), "ops": truncate(stripTimes(lines), 8)}, 26)
		}
		r.Traces++
	}
}
