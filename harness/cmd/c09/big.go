package main

// Campaign "big" (round 5): magnitudes.
//
// Every other campaign keeps limits, backoff counts and response weights tiny
// so that buckets collide — which also means that any number beyond
// limit + backoff count looks the same: a limit that is silently wrapped or
// capped (uint8/uint16 conversions, min(n, k) loops, a ring of the wrong size)
// cannot be told from the configured one.  Here the numbers are the size of
// the distributed configuration (hundreds to thousands of events per window,
// a backoff count of a thousand, responses worth hundreds of events; a
// profile limit beyond 2^16), the histories are bursts, and the oracle is the
// statement applied to a burst: of the events of one subnet inside one window
// exactly the first `limit` pass; after `backoff count` further ones the subnet
// is silent until the backoff duration is over, however empty its window; a
// response of n bytes is ⌊n/estimate⌋ further events.  Time is virtual (ages of
// x.5 s against windows of 10 s), cases slower than 0.4 s are discarded.

import (
	"context"
	"fmt"
	"net/netip"
	"strings"
	"time"

	"github.com/AdguardTeam/AdGuardDNS/internal/agd"
	"github.com/AdguardTeam/AdGuardDNS/internal/dnsserver/ratelimit"
	"github.com/AdguardTeam/AdGuardDNS/verifh/hlib"
	"github.com/c2h5oh/datasize"
	"github.com/miekg/dns"
)

func bigCampaign(o *hlib.Opts, r *hlib.Result, m *hlib.Model) {
	rng := o.Rand("big")
	n := 10
	if o.Thorough() {
		n = 240
	}
	ctx := context.Background()
	pick := func(xs []uint) uint { return xs[rng.IntN(len(xs))] }
	ages := []time.Duration{1500 * time.Millisecond, 4500 * time.Millisecond, 11500 * time.Millisecond, 61 * time.Minute}
	for i := 0; i < n; i++ {
		c := &bcfg{
			count:    pick([]uint{256, 257, 300, 1000}),
			period:   1000 * time.Hour,
			duration: time.Hour,
			est:      []uint64{10, 50, 100, 1024}[rng.IntN(4)],
			c4:       pick([]uint{255, 257, 300, 1000}),
			c6:       pick([]uint{258, 513, 3000}),
			i4:       10 * time.Second,
			i6:       10 * time.Second,
			l4:       24,
			l6:       48,
		}
		// Every other limiter goes through the configuration file and
		// rateLimitConfig.toInternal.
		c.yaml = i%2 == 0
		lim := c.real()
		c.yaml = false
		ref := newRef(c, false)
		pool := []netip.Addr{netip.MustParseAddr("192.0.2.1"), netip.MustParseAddr("192.0.2.200"),
			netip.MustParseAddr("198.51.100.7"), netip.MustParseAddr("2001:db8:1::1"), netip.MustParseAddr("2001:db8:1:ffff::2")}
		lines := c.modelLines()
		pre := len(lines)
		var gots, phases []string
		var pend *pending
		vc := newVclock()
		drops, passes, events := 0, 0, 0
		query := func(ip netip.Addr) {
			now := vc.now2()
			drop, allowlisted, err := lim.IsRateLimited(ctx, mkReq(dns.TypeA), ip)
			hlib.Must(err)
			got := verdictText(drop, allowlisted)
			events++
			if drop {
				drops++
			} else {
				passes++
			}
			lines = append(lines, fmt.Sprintf("req %d %s %d", now, addrArgs(ip), dns.TypeA))
			gots = append(gots, got)
			want, why, inWin := ref.check(now, ip, dns.TypeA)
			if want != got && pend == nil {
				pend = newPending(mismatchSig("big-", got, want), fmt.Sprintf(
					"burst history with production-size numbers (%s; response estimate %d): event %d, a query from %s, %s",
					limitText(c, ip), c.est, events, ip, mismatchText(got, want, why, inWin, limitText(c, ip))),
					map[string]any{"campaign": "big", "config": strings.Join(c.modelLines(), "; "), "phases": append([]string{}, phases...),
						"failing_event": events, "expected": want})
			}
		}
		for step, steps := 0, 5+rng.IntN(6); step < steps && events < 7000; step++ {
			switch k := rng.IntN(10); {
			case k < 2 && step > 0:
				d := ages[rng.IntN(len(ages))]
				if d > time.Hour && rng.IntN(2) == 0 {
					d = ages[2]
				}
				ratelimit.VerifC09AgeBackoff(lim, d)
				vc.shift += int64(d)
				lines = append(lines, fmt.Sprintf("age %d", int64(d)))
				gots = append(gots, "ok")
				phases = append(phases, fmt.Sprintf("the clock advances by %s", d))
			case k < 5:
				// One large response: worth w further events.
				ip := pool[rng.IntN(len(pool))]
				w := []int{9, 17, 64, 255, 300, 600}[rng.IntN(6)]
				if uint64(w)*c.est > 60000 {
					w = int(60000 / c.est)
				}
				resp := mkResp(dns.TypeA, w*int(c.est)+rng.IntN(int(c.est)))
				now := vc.now2()
				lim.CountResponses(ctx, resp, ip)
				ref.countResp(now, ip, dns.TypeA, resp.Len())
				lines = append(lines, fmt.Sprintf("resp %d %s %d %d", now, addrArgs(ip), dns.TypeA, resp.Len()))
				gots = append(gots, "ok")
				phases = append(phases, fmt.Sprintf("a response of %d bytes to %s is counted", resp.Len(), ip))
				events += resp.Len() / int(c.est)
			default:
				ip := pool[rng.IntN(len(pool))]
				limit := c.c4
				if !ip.Is4() {
					limit = c.c6
				}
				cnt := []int{1, 7, int(limit) - 1, int(limit), int(limit) + 1, int(c.count), int(limit) + int(c.count) + 2}[rng.IntN(7)]
				phases = append(phases, fmt.Sprintf("%d queries from %s", cnt, ip))
				for q := 0; q < cnt; q++ {
					query(ip)
				}
			}
		}
		if vc.real() > 400*time.Millisecond {
			r.Count("big.discarded_slow")

			continue
		}
		pend.raise(r)
		answers := m.Batch(lines)[pre:]
		for j := range gots {
			if gots[j] != answers[j] {
				r.Disagree("big", fmt.Sprintf("real=%s model=%s at op %d (%s)", gots[j], answers[j], j, lines[pre+j]),
					map[string]any{"campaign": "big", "config": strings.Join(c.modelLines(), "; "), "phases": phases, "op": j})

				break
			}
		}
		r.Case(strings.Join(phases, ";")+fmt.Sprint(c.c4, c.c6, c.count, c.est), drops > 0 && passes > 0)
		r.Count("big.cases")
		if drops > 0 && passes > 0 {
			r.Count("big.mixed")
			r.Sample(map[string]any{"campaign": "big", "phases": truncate(phases, 8)}, 22)
		}
		r.Traces++
	}
	bigProfile(o, r, m)
}

// now2 is the limiter's clock without the busy wait of vclock.now: the windows
// of this campaign are seconds long, bursts take milliseconds.
func (v *vclock) now2() int64 { return time.Now().UnixNano() + v.shift }

// bigProfile: a profile's own limit of production size (up to beyond 2^16 and
// 2^17): in a burst that takes a fraction of its second exactly the first rps
// events pass; a response of w estimates uses up w of them.
func bigProfile(o *hlib.Opts, r *hlib.Result, m *hlib.Model) {
	rng := o.Rand("big-profile")
	rpss := []uint32{255, 256, 257, 1000, 65535, 65536, 65537, 70001, 131073}
	ctx := context.Background()
	ip := netip.MustParseAddr("192.0.2.1")
	for i, rps := range rpss {
		if !o.Thorough() && i%3 != int(o.Seed%3) && rps != 65537 {
			continue
		}
		est := uint64([]int{10, 100}[rng.IntN(2)])
		w := []int{0, 9, 200, 600}[rng.IntN(4)]
		lim := agd.NewDefaultRatelimiter(&agd.RatelimitConfig{RPS: rps, Enabled: true}, datasize.ByteSize(est))
		t0 := time.Now()
		used := 0
		if w > 0 {
			resp := mkResp(dns.TypeA, w*int(est)+3)
			lim.CountResponses(ctx, resp, ip)
			used = resp.Len() / int(est)
		}
		passed, firstDrop, lateDrop := 0, -1, false
		total := int(rps) + 5
		for q := 0; q < total; q++ {
			if lim.Check(ctx, mkReq(dns.TypeA), ip) == agd.RatelimitResultPass {
				passed++
				if firstDrop >= 0 {
					lateDrop = true
				}
			} else if firstDrop < 0 {
				firstDrop = q
			}
		}
		if time.Since(t0) > 400*time.Millisecond {
			r.Count("big.profile_discarded_slow")

			continue
		}
		r.Count("big.profile_cases")
		want := int(rps) - used
		if want < 0 {
			want = 0
		}
		if passed != want || lateDrop {
			sig := "big-profile-limit-late-pass"
			if passed < want {
				sig = "big-profile-limit-early-drop"
			}
			r.Violate(sig, fmt.Sprintf(
				"profile limiter with %d rps (response estimate %d): after a counted response worth %d events, of %d queries inside one second %d were passed, expected exactly %d (the first drop was query %d)",
				rps, est, used, total, passed, want, firstDrop),
				map[string]any{"campaign": "big-profile", "rps": rps, "estimate": est, "response_events": used, "queries": total,
					"expected_passes": want})
		}
		r.Case(fmt.Sprintf("big-profile %d %d %d", rps, est, w), true)
		r.Traces++
	}
	_ = m
}
