package main

// Round 4, part 2: the production wiring of the limiter.
//
// distRatelimitYAML takes config.dist.yaml of the tree under test — the
// documented shape and the documented property names of the `ratelimit`
// object — and replaces its scalars.  The harness never writes a property name
// of its own: a name the code reads but the documentation does not know (or the
// other way round) therefore shows up as a setting without effect.
//
// builderCampaign hands such a file and an environment to the real start-up
// path (cmd.VerifC09InitRateLimiter: parseConfig, validation of the section and
// of the URLs, builder.initGRPCMetrics, builder.initRateLimiter with the
// allowlist updater of the configured type and its initial refresh) and drives
// the limiter it returns against the reference monitor and the model.

import (
	"context"
	"fmt"
	"net/http"
	"net/http/httptest"
	"net/netip"
	"net/url"
	"os"
	"path/filepath"
	"regexp"
	"strings"
	"sync"
	"time"

	"github.com/AdguardTeam/AdGuardDNS/internal/agdtest"
	"github.com/AdguardTeam/AdGuardDNS/internal/backendpb"
	"github.com/AdguardTeam/AdGuardDNS/internal/cmd"
	"github.com/AdguardTeam/AdGuardDNS/verifh/hlib"
	"github.com/AdguardTeam/AdGuardDNS/internal/agd"
	"github.com/AdguardTeam/golibs/logutil/slogutil"
	"github.com/c2h5oh/datasize"
	"github.com/miekg/dns"
)

var (
	distOnce  sync.Once
	distLines []string
	reScalar  = regexp.MustCompile(`^(\s*)([a-z0-9_]+):(\s*)(\S.*)?$`)
)

// distRatelimitYAML renders config.dist.yaml with the scalars of its
// `ratelimit` object replaced by c's values, the allowlist by list and its
// type by typ.
func distRatelimitYAML(c *bcfg, typ string, list []string) string {
	distOnce.Do(func() {
		b, err := os.ReadFile(filepath.Join(cmd.VerifC20RepoRoot(), "config.dist.yaml"))
		hlib.Must(err)
		distLines = strings.Split(string(b), "\n")
	})
	vals := map[string]string{
		"refuseany":              fmt.Sprint(c.refuseAny),
		"response_size_estimate": fmt.Sprintf("%dB", c.est),
		"backoff_period":         c.period.String(),
		"backoff_count":          fmt.Sprint(c.count),
		"backoff_duration":       c.duration.String(),
		"ipv4.count":             fmt.Sprint(c.c4),
		"ipv4.interval":          c.i4.String(),
		"ipv4.subnet_key_len":    fmt.Sprint(c.l4),
		"ipv6.count":             fmt.Sprint(c.c6),
		"ipv6.interval":          c.i6.String(),
		"ipv6.subnet_key_len":    fmt.Sprint(c.l6),
		"allowlist.type":         "'" + typ + "'",
		"allowlist.list":         "",
	}
	seen := map[string]bool{}
	var out []string
	in, sub, subIndent, skipItems := false, "", 0, false
	for _, l := range distLines {
		if strings.HasPrefix(l, "ratelimit:") {
			in = true
			out = append(out, l)

			continue
		}
		if in && l != "" && l[0] != ' ' && l[0] != '#' {
			in = false
		}
		mm := reScalar.FindStringSubmatch(l)
		if !in || strings.HasPrefix(strings.TrimSpace(l), "#") {
			out = append(out, l)

			continue
		}
		if skipItems {
			if strings.HasPrefix(strings.TrimSpace(l), "- ") {
				continue
			}
			skipItems = false
		}
		if mm == nil {
			out = append(out, l)

			continue
		}
		indent, key := len(mm[1]), mm[2]
		if sub != "" && indent <= subIndent {
			sub = ""
		}
		full := key
		if sub != "" {
			full = sub + "." + key
		}
		if mm[4] == "" && full != "allowlist.list" {
			// the start of a nested object
			if sub == "" {
				sub, subIndent = key, indent
			}
			out = append(out, l)

			continue
		}
		v, ok := vals[full]
		if !ok {
			out = append(out, l)

			continue
		}
		seen[full] = true
		if full == "allowlist.list" {
			out = append(out, mm[1]+key+":")
			for _, it := range list {
				out = append(out, mm[1]+"  - '"+it+"'")
			}
			if len(list) == 0 {
				out[len(out)-1] = mm[1] + key + ": []"
			}
			skipItems = true

			continue
		}
		out = append(out, mm[1]+key+": "+v)
	}
	for k := range vals {
		if !seen[k] {
			panic("fixture: config.dist.yaml documents no ratelimit property " + k)
		}
	}

	return strings.Join(out, "\n")
}

type builderReplayC09 struct {
	Ratelimit string   `json:"ratelimit_object_of_config_dist_yaml"`
	Env       string   `json:"environment"`
	Ops       []string `json:"ops"`
	Expected  string   `json:"expected,omitempty"`
}

// ratelimitSection cuts the rendered file down to the object itself.
func ratelimitSection(y string) string {
	i := strings.Index(y, "\nratelimit:")
	if i < 0 {
		return y
	}
	rest := y[i+1:]
	var keep []string
	for k, l := range strings.Split(rest, "\n") {
		if k > 0 && l != "" && l[0] != ' ' && l[0] != '#' {
			break
		}
		if t := strings.TrimSpace(l); t != "" && !strings.HasPrefix(t, "#") {
			keep = append(keep, l)
		}
	}

	return strings.Join(keep, "\n")
}

func builderCampaign(o *hlib.Opts, r *hlib.Result, m *hlib.Model) {
	rng := o.Rand("builder")
	n := 30
	if o.Thorough() {
		n = 240
	}
	ctx := context.Background()
	dir, err := os.MkdirTemp("", "c09-builder-")
	hlib.Must(err)
	defer os.RemoveAll(dir)

	var body string
	status := http.StatusOK
	hs := httptest.NewServer(http.HandlerFunc(func(w http.ResponseWriter, _ *http.Request) {
		w.WriteHeader(status)
		_, _ = w.Write([]byte(body))
	}))
	defer hs.Close()
	consulURL, err := url.Parse(hs.URL)
	hlib.Must(err)
	gsrv, grpcURL, stop := startGlueServer(r)
	if gsrv == nil {
		return
	}
	defer stop()

	for i := 0; i < n; i++ {
		c := genCfg(rng)
		// What the start-up validation accepts: positive counts, intervals and
		// expiries.
		c.period, c.duration = time.Hour, time.Hour
		if c.count == 0 {
			c.count = 1
		}
		if i%3 == 0 {
			c.i4, c.i6 = []time.Duration{1, 3 * time.Hour, 90 * time.Minute}[rng.IntN(3)], []time.Duration{1, 36 * time.Hour, time.Hour}[rng.IntN(3)]
		}
		c.est = []uint64{1, 60, 100, 1024}[rng.IntN(4)]
		// The allowlist of the file: single addresses and networks, masked or not.
		c.allow, c.dyn = nil, nil
		var list []string
		for k := rng.IntN(4); k > 0; k-- {
			a := genAddr(rng).WithZone("").Unmap()
			switch rng.IntN(3) {
			case 0:
				list = append(list, a.String())
				c.allow = append(c.allow, netip.PrefixFrom(a, a.BitLen()))
			default:
				p := genPrefix(rng)
				if !p.IsValid() || p.Addr().Is4In6() {
					continue
				}
				list = append(list, p.String())
				c.allow = append(c.allow, p)
			}
		}
		typ := []string{"consul", "backend"}[rng.IntN(2)]
		// The dynamic part as the remote end reports it at start-up.
		var hosts []netip.Addr
		for k := rng.IntN(3); k > 0; k-- {
			hosts = append(hosts, genAddr(rng).WithZone("").Unmap())
		}
		setRemote := func(hosts []netip.Addr, fail bool) (nets []netip.Prefix) {
			var recs []string
			gsrv.subnets = nil
			for _, a := range hosts {
				recs = append(recs, fmt.Sprintf(`{"Address":%q,"Node":"n"}`, a.String()))
				gsrv.subnets = append(gsrv.subnets, &backendpb.CidrRange{Address: a.AsSlice(), Prefix: uint32(a.BitLen())})
				nets = append(nets, netip.PrefixFrom(a, a.BitLen()))
			}
			body, status, gsrv.fail = "["+strings.Join(recs, ",")+"]", http.StatusOK, fail
			if fail {
				status = http.StatusInternalServerError
			}

			return nets
		}
		startFails := rng.IntN(10) == 0
		c.dyn = setRemote(hosts, startFails)
		env := &cmd.VerifC09Env{BackendRateLimitAPIKey: "key"}
		envText := "CONSUL_ALLOWLIST_URL=" + consulURL.String()
		wrongEnv := rng.IntN(12) == 0
		switch {
		case typ == "consul" && !wrongEnv, typ == "backend" && wrongEnv:
			env.ConsulAllowlistURL = consulURL
		default:
			env.BackendRateLimitURL = grpcURL
			envText = "BACKEND_RATELIMIT_URL=" + grpcURL.String()
		}
		// One documented constraint violated now and then.
		invalid := ""
		cc := *c
		switch rng.IntN(24) {
		case 0:
			cc.c4, invalid = 0, "ipv4.count: 0"
		case 1:
			cc.l6, invalid = 129, "ipv6.subnet_key_len: 129"
		case 2:
			cc.l4, invalid = 33, "ipv4.subnet_key_len: 33"
		case 3:
			cc.est, invalid = 0, "response_size_estimate: 0"
		case 4:
			cc.i6, invalid = 0, "ipv6.interval: 0s"
		}
		yamlText := distRatelimitYAML(&cc, typ, list)
		section := ratelimitSection(yamlText)
		collected := 0
		rp := &builderReplayC09{Ratelimit: section, Env: envText}
		var w *cmd.VerifC09Wired
		var stage string
		var panicked any
		func() {
			defer func() { panicked = recover() }()
			w, stage, err = cmd.VerifC09InitRateLimiter(ctx, dir, []byte(yamlText), env, slogutil.NewDiscardLogger(),
				&agdtest.ErrorCollector{OnCollect: func(_ context.Context, _ error) { collected++ }})
		}()
		r.Evaluations++
		if panicked != nil {
			r.Violate("builder-panic", fmt.Sprintf("allowlist type %s with %s: building the rate limiter panics: %v", typ, envText, panicked), rp)

			continue
		}
		switch {
		case invalid != "":
			r.Count("builder.invalid_setting")
			if err == nil || stage != "validate" {
				r.Violate("builder-accepts-invalid-setting", fmt.Sprintf("ratelimit object with %s: start-up validation must reject it, got stage %q error %v", invalid, stage, err), rp)
			}

			continue
		case wrongEnv:
			r.Count("builder.wrong_env")
			if err == nil || stage != "env" {
				r.Violate("builder-accepts-missing-url", fmt.Sprintf("allowlist type %s with only %s set: must be rejected at start-up, got stage %q error %v", typ, envText, stage, err), rp)
			}

			continue
		case startFails:
			r.Count("builder.initial_refresh_fails")
			if err == nil {
				r.Violate("builder-starts-without-allowlist", fmt.Sprintf("allowlist type %s, the remote end fails at start-up: the service must not start with an empty allowlist, but initRateLimiter succeeded", typ), rp)
			}

			continue
		case err != nil:
			r.Violate("builder-rejects-valid-setting", fmt.Sprintf("a valid ratelimit object (allowlist type %s) is refused at stage %q: %v", typ, stage, err), rp)

			continue
		}
		r.Count("builder.built_" + typ)
		lim := w.RateLimit
		ref := newRef(c, false)
		ref.dynamic = c.dyn
		lines := c.modelLines()
		pre := len(lines)
		var gots []string
		refOK := true
		drops, passes := 0, 0
		pool := []netip.Addr{genAddr(rng), genAddr(rng), genAddr(rng)}
		for _, p := range c.allow {
			pool = append(pool, p.Addr())
		}
		pool = append(pool, hosts...)
		t0 := time.Now()
		for j := 6 + rng.IntN(30); j > 0; j-- {
			if rng.IntN(8) == 0 {
				// A later refresh through the refresher the debug API knows.
				hosts = nil
				for k := rng.IntN(3); k > 0; k-- {
					hosts = append(hosts, pool[rng.IntN(len(pool))].WithZone("").Unmap())
				}
				fail := rng.IntN(3) == 0
				nets := setRemote(hosts, fail)
				rerr := w.Refresher.Refresh(ctx)
				line := "dyn"
				if !fail {
					ref.dynamic = nets
					line = dynLine(nets)
				} else {
					line = dynLine(ref.dynamic)
				}
				if (rerr == nil) == fail {
					r.Violate("builder-refresh-status", fmt.Sprintf("allowlist type %s, refresh with failing remote=%v returned %v", typ, fail, rerr), rp)
				}
				lines = append(lines, line)
				gots = append(gots, "ok")
				r.Count("builder.refresh")

				continue
			}
			// The transport hands over unmapped addresses.
			ip := pool[rng.IntN(len(pool))].Unmap()
			qt := uint16(dns.TypeA)
			if rng.IntN(6) == 0 {
				qt = dns.TypeANY
			}
			now := spin()
			drop, allowlisted, err2 := lim.IsRateLimited(ctx, mkReq(qt), ip)
			hlib.Must(err2)
			got := verdictText(drop, allowlisted)
			if drop {
				drops++
			} else {
				passes++
			}
			lines = append(lines, fmt.Sprintf("req %d %s %d", now, addrArgs(ip.Unmap()), qt))
			gots = append(gots, got)
			want, why, inWin := ref.check(now, ip.Unmap(), qt)
			if refOK && want != got {
				refOK = false
				rp.Ops, rp.Expected = append([]string{}, lines...), want
				r.Violate(mismatchSig("builder-", got, want), fmt.Sprintf(
					"limiter built by internal/cmd from the ratelimit object (allowlist type %s, list %v, remote hosts %v): query from %s (qtype %d) %s",
					typ, list, ref.dynamic, ip, qt, mismatchText(got, want, why, inWin, limitText(c, ip))), rp)
			}
			if got == "pass" && rng.IntN(3) == 0 {
				l := genRespLen(rng, c.est, 400)
				resp := mkResp(qt, l)
				lim.CountResponses(ctx, resp, ip)
				ref.countResp(now, ip.Unmap(), qt, resp.Len())
				lines = append(lines, fmt.Sprintf("resp %d %s %d %d", now, addrArgs(ip.Unmap()), qt, resp.Len()))
				gots = append(gots, "ok")
			}
		}
		if time.Since(t0) > 300*time.Millisecond {
			r.Count("builder.discarded_slow")

			continue
		}
		answers := m.Batch(lines)[pre:]
		for j := range gots {
			if gots[j] != answers[j] {
				r.Disagree("builder", fmt.Sprintf("real=%s model=%s at op %d (%s)", gots[j], answers[j], j, lines[pre+j]),
					map[string]any{"campaign": "builder", "ratelimit": section, "ops": lines[:pre+j+1]})

				break
			}
		}
		r.Case(section+";"+strings.Join(stripTimes(lines), ";"), drops > 0 && passes > 0)
		r.Count("builder.cases")
		if drops > 0 && passes > 0 {
			r.Sample(map[string]any{"campaign": "builder", "ratelimit": strings.Fields(section), "ops": truncate(stripTimes(lines), 8)}, 30)
		}
		r.Traces++
	}
}

// profileWiringCampaign: the response-size estimate of the configuration file
// must reach the limiters of the profiles — those built from the backend's
// answer and, after a restart without the backend's profile, those rebuilt from
// the file cache.  Real start-up path: cmd.VerifC14InitProfileDB (the unchanged
// builder.initProfileDB, backendpb.NewProfileStorage, profiledb.New).
func profileWiringCampaign(o *hlib.Opts, r *hlib.Result) {
	rng := o.Rand("profile-wiring")
	n := 4
	if o.Thorough() {
		n = 24
	}
	ctx := context.Background()
	gsrv, grpcURL, stop := startGlueServer(r)
	if gsrv == nil {
		return
	}
	defer stop()
	dir, err := os.MkdirTemp("", "c09-profwiring-")
	hlib.Must(err)
	defer os.RemoveAll(dir)
	client := netip.MustParseAddr("203.0.113.5")
	for i := 0; i < n; i++ {
		c := genCfg(rng)
		c.period, c.duration, c.count = time.Hour, time.Hour, 5
		c.est = []uint64{60, 100, 200, 400}[rng.IntN(4)]
		rps := uint32(2 + rng.IntN(4))
		yamlText := distRatelimitYAML(c, "consul", nil)
		gsrv.prof = &backendpb.DNSProfile{DnsId: "prof1234", FilteringEnabled: true,
			RateLimit: &backendpb.RateLimitSettings{Enabled: true, Rps: rps},
			Devices:   []*backendpb.DeviceSettings{{Id: "dev1234", Name: "n", FilteringEnabled: true}}}
		env := &cmd.VerifC14Env{ProfilesURL: grpcURL, ProfilesCachePath: filepath.Join(dir, fmt.Sprintf("cache%d.pb", i)),
			ProfilesMaxRespSize: datasize.MB, BindPrefixes: []netip.Prefix{netip.MustParsePrefix("198.51.100.0/24")}}
		for _, phase := range []string{"backend", "file-cache"} {
			what := fmt.Sprintf("response_size_estimate: %dB, profile with rps %d, limiter taken from the %s", c.est, rps, phase)
			rp := map[string]any{"campaign": "profile-wiring", "ratelimit": ratelimitSection(yamlText), "phase": phase}
			var lim agd.Ratelimiter
			var perr any
			func() {
				defer func() { perr = recover() }()
				w, ierr := cmd.VerifC14InitProfileDB(ctx, []byte(yamlText), env, slogutil.NewDiscardLogger(),
					&agdtest.ErrorCollector{OnCollect: func(context.Context, error) {}})
				if ierr != nil {
					perr = ierr

					return
				}
				prof, _, ferr := w.DB.ProfileByDeviceID(ctx, "dev1234")
				if ferr != nil {
					perr = ferr

					return
				}
				lim = prof.Ratelimiter
				// A query, a response of about k (sometimes k-1) estimates, a second
				// query: the second one is event 2 + floor(len / estimate) of the
				// profile's second.
				k := int(rps) - 1 - rng.IntN(2)
				resp := mkResp(dns.TypeA, k*int(c.est)+3)
				events := 2 + resp.Len()/int(c.est)
				want := agd.RatelimitResultPass
				if events > int(rps) {
					want = agd.RatelimitResultDrop
				}
				seen := []agd.RatelimitResult{lim.Check(ctx, mkReq(dns.TypeA), client)}
				lim.CountResponses(ctx, resp, client)
				seen = append(seen, lim.Check(ctx, mkReq(dns.TypeA), client))
				r.Evaluations++
				r.Count("profwiring." + phase)
				if seen[0] != agd.RatelimitResultPass || seen[1] != want {
					r.Violate("profile-wiring-response-weight", fmt.Sprintf("%s: a query, a response of %d bytes and a second query within a second gave %v "+
						"(1 = pass, 2 = drop); the second query is event %d against a limit of %d", what, resp.Len(), seen, events, rps), rp)
				}
			}()
			if perr != nil {
				r.Violate("profile-wiring-failed", fmt.Sprintf("%s: %v", what, perr), rp)
			}
			// The restart finds no profile at the backend: what is served comes
			// from the file cache.
			gsrv.prof = nil
		}
	}
}
