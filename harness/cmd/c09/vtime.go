package main

// Virtual-time campaigns.  Backoff, RequestCounter users and DefaultRatelimiter
// read the wall clock themselves.  The verif hooks VerifC09AgeBackoff /
// VerifC09Age move everything the limiter remembers (ring stamps, cache expiry
// stamps) d into the past, which the code cannot tell from the clock having
// advanced by d.  A case therefore runs in a few hundred microseconds of real
// time while its virtual history spans many windows, backoff periods and
// backoff durations.  Virtual time = wall clock + sum of the ages applied.
//
// Verdicts do not depend on scheduling: every age is a whole number of `unit`s,
// every boundary (interval, period, duration) is a whole number of units plus
// half a unit (the profile window is exactly one second and ages never sum to
// within a unit below it), and a case whose real duration exceeds 0.4 units is
// discarded.  So no comparison the code makes is ever closer than a tenth of a
// unit to its boundary.

import (
	"context"
	"fmt"
	"math/rand/v2"
	"net/netip"
	"strings"
	"time"

	"github.com/AdguardTeam/AdGuardDNS/internal/agd"
	"github.com/AdguardTeam/AdGuardDNS/internal/dnsserver/ratelimit"
	"github.com/AdguardTeam/AdGuardDNS/verifh/hlib"
	"github.com/c2h5oh/datasize"
	"github.com/miekg/dns"
)

// vclock is the virtual clock of one case.
type vclock struct {
	shift int64
	t0    time.Time
}

func newVclock() *vclock { return &vclock{t0: time.Now()} }

// now returns the virtual time; the wall clock is advanced by at least 2 µs
// first so that consecutive events have distinct, increasing stamps.
func (v *vclock) now() int64 { return spin() + v.shift }

func (v *vclock) real() time.Duration { return time.Since(v.t0) }

// ageGrid are the ages (in units) a case may insert between events: around the
// windows (10.5, 30.5), the expiries (25.5, 40.5) and their sums.
var ageGrid = []int64{1, 2, 4, 5, 6, 9, 10, 11, 14, 15, 16, 20, 24, 25, 26, 29, 30, 31, 35, 40, 41, 45, 70}

func genVtCfg(rng *rand.Rand, unit time.Duration, resets bool) *bcfg {
	h := unit / 2
	ivls := []time.Duration{10*unit + h, 30*unit + h}
	exp := []time.Duration{25*unit + h, 40*unit + h, time.Hour}
	per := []time.Duration{0, time.Hour}
	if resets {
		per = []time.Duration{0, 25*unit + h, 40*unit + h, time.Hour}
	}
	c := &bcfg{
		count:     uint(rng.IntN(4)),
		period:    per[rng.IntN(len(per))],
		duration:  exp[rng.IntN(len(exp))],
		est:       []uint64{60, 100, 150}[rng.IntN(3)],
		c4:        uint(1 + rng.IntN(4)),
		c6:        uint(1 + rng.IntN(4)),
		i4:        ivls[rng.IntN(2)],
		i6:        ivls[rng.IntN(2)],
		l4:        []int{16, 24, 32}[rng.IntN(3)],
		l6:        []int{48, 64, 128}[rng.IntN(3)],
		refuseAny: rng.IntN(4) == 0,
	}
	if rng.IntN(8) == 0 {
		c.duration = 0
	}
	if rng.IntN(3) == 0 {
		c.allow = append(c.allow, genPrefix(rng))
	}
	if rng.IntN(4) == 0 {
		c.dyn = genNets(rng)
	}

	return c
}

// vtimeCampaign: the real Backoff under virtual time against the reference
// monitor (the statement, and the statement plus the recorded reset deviation)
// and the model.
func vtimeCampaign(o *hlib.Opts, r *hlib.Result, m *hlib.Model) {
	rng := o.Rand("vtime")
	n := 6000
	if o.Thorough() {
		n = 30000
	}
	ctx := context.Background()
	const unit = time.Millisecond
	for i := 0; i < n; i++ {
		c := genVtCfg(rng, unit, true)
		// Every fourth limiter is built from a configuration file by internal/cmd
		// (the twin always directly, so the two constructions are also compared).
		c.yaml = i%4 == 0
		lim, al := c.realDyn()
		c.yaml = false
		twin, twinAl := c.realDyn()
		if i%4 == 0 {
			r.Count("vtime.limiter_from_yaml")
		}
		pure, withReset := newRef(c, false), newRef(c, true)
		pure.dynamic, withReset.dynamic = c.dyn, c.dyn
		lines := c.modelLines()
		pre := len(lines)
		var gots []string
		// idx[j] is the index in gots of the j-th query verdict.
		pureBad, resetBad := -1, -1
		var resetWhat, resetWant, pureWhat string
		vc := newVclock()
		nev := 6 + rng.IntN(40)
		// A few clients per case so that buckets fill up.
		pool := []netip.Addr{genAddr(rng), genAddr(rng), genAddr(rng)}
		focus := pool[0]
		fkey := func(ip netip.Addr) string {
			if ip.Is4() {
				return maskKey(ip, c.l4)
			}

			return maskKey(ip, c.l6)
		}
		drops, passes := 0, 0
		for j := 0; j < nev; j++ {
			switch k := rng.IntN(12); {
			case k < 3:
				d := time.Duration(ageGrid[rng.IntN(len(ageGrid))]) * unit
				ratelimit.VerifC09AgeBackoff(lim, d)
				ratelimit.VerifC09AgeBackoff(twin, d)
				vc.shift += int64(d)
				lines = append(lines, fmt.Sprintf("age %d", int64(d)))
				gots = append(gots, "ok")
			case k == 3 && rng.IntN(3) == 0:
				nets := genNets(rng)
				al.Update(nets)
				twinAl.Update(nets)
				pure.dynamic, withReset.dynamic = nets, nets
				lines = append(lines, dynLine(nets))
				gots = append(gots, "ok")
			case k == 4:
				ip := pool[rng.IntN(len(pool))]
				resp := mkResp(dns.TypeA, genRespLen(rng, c.est, 400))
				now := vc.now()
				lim.CountResponses(ctx, resp, ip)
				if fkey(ip) == fkey(focus) {
					twin.CountResponses(ctx, resp, ip)
				}
				pure.countResp(now, ip, dns.TypeA, resp.Len())
				withReset.countResp(now, ip, dns.TypeA, resp.Len())
				lines = append(lines, fmt.Sprintf("resp %d %s %d %d", now, addrArgs(ip), dns.TypeA, resp.Len()))
				gots = append(gots, "ok")
			default:
				ip := pool[rng.IntN(len(pool))]
				qt := uint16(dns.TypeA)
				if rng.IntN(12) == 0 {
					qt = dns.TypeANY
				}
				now := vc.now()
				drop, allowlisted, err := lim.IsRateLimited(ctx, mkReq(qt), ip)
				hlib.Must(err)
				got := verdictText(drop, allowlisted)
				if drop {
					drops++
				} else if !allowlisted {
					passes++
				}
				lines = append(lines, fmt.Sprintf("req %d %s %d", now, addrArgs(ip), qt))
				gots = append(gots, got)
				wantP, whyP, inWinP := pure.check(now, ip, qt)
				wantR, whyR, inWinR := withReset.check(now, ip, qt)
				if wantP != got && pureBad < 0 {
					pureBad = len(lines)
					pureWhat = mismatchText(got, wantP, whyP, inWinP, limitText(c, ip))
				}
				if wantR != got && resetBad < 0 {
					resetBad, resetWant = len(lines), wantR
					resetWhat = fmt.Sprintf("query from %s (qtype %d) %s", ip, qt, mismatchText(got, wantR, whyR, inWinR, limitText(c, ip)))
				}
				if whyR == "backoff" {
					r.Count("vtime.ref_in_backoff")
				}
				// Isolation: the twin sees only the focus subnet's events.
				if fkey(ip) == fkey(focus) {
					d2, a2, err2 := twin.IsRateLimited(ctx, mkReq(qt), ip)
					hlib.Must(err2)
					if (d2 != drop || a2 != allowlisted) && vc.real() < 4*unit/10 {
						r.Violate("isolation", fmt.Sprintf(
							"subnet %s: verdict with other subnets' traffic present (%s) differs from the verdict alone (%s) in a timed history",
							fkey(focus), got, verdictText(d2, a2)), map[string]any{"campaign": "vtime", "ops": append([]string{}, lines...)})
					}
				}
			}
		}
		if vc.real() > 4*unit/10 {
			r.Count("vtime.discarded_slow")

			continue
		}
		desc := fmt.Sprintf("virtual-time history (limit v4 %d per %s /%d, v6 %d per %s /%d, backoff after %d hits for %s, counter period %s)",
			c.c4, c.i4, c.l4, c.c6, c.i6, c.l6, c.count, c.duration, c.period)
		switch {
		case pureBad < 0:
			r.Count("vtime.exact_window")
		case resetBad < 0:
			r.Count("vtime.known_reset_seen")
			r.Violate("reqcounter-expires-period-after-creation", fmt.Sprintf(
				"%s: %s; the subnet's window log is forgotten `period` after its first event", desc, pureWhat),
				map[string]any{"campaign": "vtime", "ops": append([]string{}, lines[:pureBad]...)})
		default:
			r.Violate(mismatchSig("", gots[resetBad-pre-1], resetWant), desc+": "+resetWhat,
				map[string]any{"campaign": "vtime", "ops": append([]string{}, lines[:resetBad]...), "expected": resetWant})
		}
		answers := m.Batch(lines)[pre:]
		for j := range gots {
			if gots[j] != answers[j] {
				r.Disagree("vtime", fmt.Sprintf("real=%s model=%s at op %d (%s)", gots[j], answers[j], j, lines[pre+j]),
					map[string]any{"campaign": "vtime", "ops": lines[:pre+j+1]})

				break
			}
		}
		r.Case(strings.Join(stripTimes(lines), ";"), drops > 0 && passes > 0)
		r.Count("vtime.cases")
		if drops > 0 && passes > 0 {
			r.Count("vtime.mixed")
			r.Sample(map[string]any{"campaign": "vtime", "ops": truncate(stripTimes(lines), 10)}, 18)
		}
		r.Traces++
	}
}

// vtimeExhaustive (thorough tier): every schedule of five queries of one subnet
// with gaps from a 5-point grid around the window (10.5 units) and the expiries
// (25.5 units), for limits 1..2, backoff counts 0..2, period and duration in
// {never, 25.5 units} — on the real Backoff, in virtual time.
func vtimeExhaustive(o *hlib.Opts, r *hlib.Result, m *hlib.Model) {
	if !o.Thorough() {
		return
	}
	ctx := context.Background()
	const unit = time.Millisecond
	h := unit / 2
	gaps := []int64{0, 10, 11, 25, 26}
	ip := netip.MustParseAddr("10.0.0.1")
	const horizon = 5
	total := 1
	for j := 0; j < horizon; j++ {
		total *= len(gaps)
	}
	for limit := uint(1); limit <= 2; limit++ {
		for count := uint(0); count <= 2; count++ {
			for _, period := range []time.Duration{0, 25*unit + h} {
				for _, duration := range []time.Duration{0, 25*unit + h} {
					c := &bcfg{count: count, period: period, duration: duration, est: 100000, c4: limit, i4: 10*unit + h, l4: 24,
						c6: 1, i6: time.Hour, l6: 48}
					for code := 0; code < total; code++ {
						lim := c.real()
						pure, withReset := newRef(c, false), newRef(c, true)
						lines := c.modelLines()
						pre := len(lines)
						var gots []string
						vc := newVclock()
						pureOK := true
						bad := -1
						var badWant, badWhat string
						for j, x := 0, code; j < horizon; j++ {
							if d := time.Duration(gaps[x%len(gaps)]) * unit; d > 0 {
								ratelimit.VerifC09AgeBackoff(lim, d)
								vc.shift += int64(d)
								lines = append(lines, fmt.Sprintf("age %d", int64(d)))
								gots = append(gots, "ok")
							}
							x /= len(gaps)
							now := vc.now()
							drop, al, err := lim.IsRateLimited(ctx, mkReq(dns.TypeA), ip)
							hlib.Must(err)
							got := verdictText(drop, al)
							lines = append(lines, fmt.Sprintf("req %d %s %d", now, addrArgs(ip), dns.TypeA))
							gots = append(gots, got)
							if w, _, _ := pure.check(now, ip, dns.TypeA); w != got {
								pureOK = false
							}
							if w, why, inWin := withReset.check(now, ip, dns.TypeA); w != got && bad < 0 {
								bad, badWant = len(lines), w
								badWhat = mismatchText(got, w, why, inWin, limitText(c, ip))
							}
						}
						if vc.real() > 4*unit/10 {
							r.Count("vtime.exh_discarded_slow")

							continue
						}
						if bad >= 0 {
							r.Violate(mismatchSig("", gots[bad-pre-1], badWant), fmt.Sprintf(
								"exhaustive virtual-time schedule (limit %d per %s, backoff after %d hits for %s, counter period %s): query %s",
								limit, c.i4, count, duration, period, badWhat),
								map[string]any{"campaign": "vtime-exhaustive", "ops": append([]string{}, lines[:bad]...), "expected": badWant})
						} else if !pureOK {
							r.Count("vtime.exh_known_reset_seen")
						}
						answers := m.Batch(lines)[pre:]
						for j := range gots {
							if gots[j] != answers[j] {
								r.Disagree("vtime-exhaustive", fmt.Sprintf("real=%s model=%s at op %d (%s)", gots[j], answers[j], j, lines[pre+j]),
									map[string]any{"campaign": "vtime-exhaustive", "ops": lines[:pre+j+1]})

								break
							}
						}
						r.Case(strings.Join(stripTimes(lines), ";"), true)
						r.Count("vtime.exh_cases")
						r.Traces++
					}
				}
			}
		}
	}
	r.Count("vtime.exhaustive_done")
}

func verdictText(drop, allowlisted bool) string {
	switch {
	case drop:
		return "drop"
	case allowlisted:
		return "allow"
	default:
		return "pass"
	}
}

// vtimeProfCampaign: agd.DefaultRatelimiter (one-second window, the profile's
// subnets, response weighting) under virtual time.
func vtimeProfCampaign(o *hlib.Opts, r *hlib.Result, m *hlib.Model) {
	rng := o.Rand("vtime-prof")
	n := 2000
	if o.Thorough() {
		n = 10000
	}
	ctx := context.Background()
	const unit = time.Millisecond
	ages := []int64{1, 100, 250, 499, 500, 501, 750, 900, 998, 999, 1000, 1001, 1500}
	resName := map[agd.RatelimitResult]string{agd.RatelimitResultPass: "pass", agd.RatelimitResultDrop: "drop",
		agd.RatelimitResultUseGlobal: "global"}
	for i := 0; i < n; i++ {
		rc := &agd.RatelimitConfig{RPS: uint32(rng.IntN(5)), Enabled: true}
		for k := rng.IntN(3); k > 0; k-- {
			rc.ClientSubnets = append(rc.ClientSubnets, genPrefix(rng))
		}
		est := uint64(100 + rng.IntN(3)*100)
		lim := agd.NewDefaultRatelimiter(rc, datasize.ByteSize(est))
		refP := &refProfile{rps: int(rc.RPS), est: int(est), subnets: rc.ClientSubnets}
		profLine := fmt.Sprintf("prof %d %d", rc.RPS, est)
		for _, p := range rc.ClientSubnets {
			profLine += " " + prefArgs(p)
		}
		lines := []string{"cfg 0 0 0 1 1 1 32 1 1 128 0", profLine}
		pre := len(lines)
		var gots []string
		var pend *pending
		vc := newVclock()
		drops, passes := 0, 0
		for j := 6 + rng.IntN(30); j > 0; j-- {
			ip := genAddr(rng)
			if len(rc.ClientSubnets) > 0 && rng.IntN(2) == 0 {
				ip = rc.ClientSubnets[0].Addr()
			}
			switch k := rng.IntN(10); {
			case k < 3:
				d := time.Duration(ages[rng.IntN(len(ages))]) * unit
				agd.VerifC09Age(lim, d)
				vc.shift += int64(d)
				lines = append(lines, fmt.Sprintf("age %d", int64(d)))
				gots = append(gots, "ok")
			case k == 3:
				resp := mkResp(dns.TypeA, genRespLen(rng, est, 500))
				now := vc.now()
				lim.CountResponses(ctx, resp, ip)
				refP.countResp(now, ip, resp.Len())
				lines = append(lines, fmt.Sprintf("presp %d %s %d", now, addrArgs(ip), resp.Len()))
				gots = append(gots, "ok")
			default:
				now := vc.now()
				got := resName[lim.Check(ctx, mkReq(dns.TypeA), ip)]
				lines = append(lines, fmt.Sprintf("pcheck %d %s", now, addrArgs(ip)))
				gots = append(gots, got)
				switch got {
				case "drop":
					drops++
				case "pass":
					passes++
				}
				if want, inWin := refP.check(now, ip); want != got && pend == nil {
					pend = newPending(mismatchSig("profile-limit-", got, want), fmt.Sprintf(
						"profile limiter (rps %d, response estimate %d, subnets %v) in a virtual-time history: check from %s got %s, expected %s with %d counted events of the profile in the preceding second",
						rc.RPS, est, rc.ClientSubnets, ip, got, want, inWin),
						map[string]any{"campaign": "vtime-prof", "ops": append([]string{}, lines...), "expected": want})
				}
			}
		}
		if vc.real() > 4*unit/10 {
			r.Count("vtime.prof_discarded_slow")

			continue
		}
		pend.raise(r)
		answers := m.Batch(lines)[pre:]
		for j := range gots {
			if gots[j] != answers[j] {
				r.Disagree("vtime-prof", fmt.Sprintf("DefaultRatelimiter=%s model=%s at op %d (%s)", gots[j], answers[j], j, lines[pre+j]),
					map[string]any{"campaign": "vtime-prof", "ops": lines[:pre+j+1]})

				break
			}
		}
		r.Case(strings.Join(stripTimes(lines), ";"), drops > 0 && passes > 0)
		r.Count("vtime.prof_cases")
		if drops > 0 && passes > 0 {
			r.Count("vtime.prof_mixed")
			r.Sample(map[string]any{"campaign": "vtime-prof", "ops": truncate(stripTimes(lines), 10)}, 20)
		}
		r.Traces++
	}
}
