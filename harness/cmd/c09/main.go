// Command c09 is the correspondence harness and property oracle for C09
// (rate limiting).
package main

import (
	"errors"
	"context"
	"fmt"
	"math/big"
	"math/rand/v2"
	"net/netip"
	"net/url"
	"strconv"
	"strings"
	"time"

	"github.com/AdguardTeam/AdGuardDNS/internal/dnsserver/ratelimit"
	"github.com/AdguardTeam/AdGuardDNS/internal/access"
	"github.com/AdguardTeam/AdGuardDNS/internal/agd"
	"github.com/AdguardTeam/AdGuardDNS/internal/agdpasswd"
	"github.com/AdguardTeam/AdGuardDNS/internal/cmd"
	"github.com/AdguardTeam/AdGuardDNS/internal/dnsmsg"
	"github.com/AdguardTeam/AdGuardDNS/internal/dnsserver"
	"github.com/AdguardTeam/AdGuardDNS/internal/filter"
	"github.com/AdguardTeam/AdGuardDNS/verifh/hlib"
	"github.com/AdguardTeam/AdGuardDNS/verifh/hlib/stack"
	"github.com/c2h5oh/datasize"
	"github.com/miekg/dns"
)

func main() {
	o := hlib.ParseFlags()
	r := hlib.NewResult("C09", o)
	r.Rule = "every campaign runs the real code, an independent Go reference monitor of the statement (oracle.go: byte-masked subnets, " +
		"window log, backoff, persistent+dynamic allowlist, response weight, profile limit) and the Lean model on the same ops; the monitor " +
		"is consulted first and raises violations with the op log as replay. counter: (limit, interval, timestamp-step) sequences on " +
		"RequestCounter.Add; backoff: random configurations, client sequences, CountResponses at estimate multiples and allowlist updates on " +
		"Backoff plus a twin limiter that only sees one subnet; proflim: DefaultRatelimiter; mw: production stack on five protocols; libmw: " +
		"ratelimit.Middleware; vtime / vtime-prof / half of mw: virtual time — the verif hooks age the limiter's stamps and cache expiries, so histories " +
		"spanning many windows, periods and durations run in microseconds (ages are whole units, boundaries half units, slow cases discarded); " +
		"conc: goroutines on one RequestCounter / one warm bucket, pass count must equal the sequential one; consul: HTTP records -> " +
		"AllowlistUpdater.Refresh -> DynamicAllowlist -> Backoff; timed: sleep-grid schedules for expiry, backoff duration, profile window; cross: monitor vs model on exactly " +
		"timed synthetic histories. A case is non-trivial when at least one event was dropped and one passed; distinct = distinct op logs"
	m := hlib.StartModel(o.Model, "C09")
	defer m.Close()

	counterCampaign(o, r, m)
	counterUnorderedCampaign(o, r, m)
	backoffCampaign(o, r, m)
	profLimCampaign(o, r, m)
	mwCampaign(o, r, m)
	frontCampaign(o, r, m)
	wireCampaign(o, r, m)
	libmwCampaign(o, r, m)
	vtimeCampaign(o, r, m)
	vtimeProfCampaign(o, r, m)
	vtimeExhaustive(o, r, m)
	concCampaign(o, r, m)
	consulCampaign(o, r, m)
	builderCampaign(o, r, m)
	profileWiringCampaign(o, r)
	glueCampaigns(o, r, m)
	timedCampaign(o, r, m)
	crossCampaign(o, r, m)
	bigCampaign(o, r, m)
	svcCampaign(o, r, m)
	backoffExpiryFinding(o, r)

	r.ModelOps = r.Evaluations
	r.Finish()
}

// counterCampaign: RequestCounter.Add vs model vs window-log oracle.
func counterCampaign(o *hlib.Opts, r *hlib.Result, m *hlib.Model) {
	rng := o.Rand("counter")
	n := 1500
	if o.Thorough() {
		n = 6000
	}
	for i := 0; i < n; i++ {
		num := uint(rng.IntN(9))
		ivls := []int64{1, 2, 10, 1000, int64(time.Second), int64(time.Hour)}
		ivl := ivls[rng.IntN(len(ivls))]
		length := 1 + rng.IntN(200)
		runCounterCase(r, m, num, ivl, genStamps(rng, ivl, length))
	}
	if o.Thorough() {
		// Exhaustive: limit ≤ 3, horizon ≤ 7, steps on a 4-point grid.
		steps := []int64{0, 9, 10, 11}
		for num := uint(0); num <= 3; num++ {
			for horizon := 1; horizon <= 7; horizon++ {
				total := 1
				for j := 0; j < horizon; j++ {
					total *= len(steps)
				}
				for code := 0; code < total; code++ {
					ts := make([]int64, horizon)
					cur, c := int64(1), code
					for j := range ts {
						cur += steps[c%len(steps)]
						c /= len(steps)
						ts[j] = cur
					}
					runCounterCase(r, m, num, 10, ts)
				}
			}
		}
		r.Count("counter.exhaustive_grid_done")
	}
}

func genStamps(rng *rand.Rand, ivl int64, length int) (ts []int64) {
	cur := int64(1 + rng.IntN(1000))
	ts = make([]int64, length)
	for j := range ts {
		switch rng.IntN(8) {
		case 0, 1, 2:
			// burst with equal stamps
		case 3:
			cur++
		case 4:
			cur += ivl
		case 5:
			cur += ivl + 1
		case 6:
			if ivl > 1 {
				cur += ivl - 1
			}
		default:
			cur += rng.Int64N(2*ivl + 1)
		}
		ts[j] = cur
	}

	return ts
}

func runCounterCase(r *hlib.Result, m *hlib.Model, num uint, ivl int64, ts []int64) {
	m.ResetLog()
	rc := ratelimit.NewRequestCounter(num, time.Duration(ivl))
	lines := []string{fmt.Sprintf("ctr %d %d", num, ivl)}
	gots := make([]bool, len(ts))
	for j, t := range ts {
		gots[j] = rc.Add(time.Unix(0, t))
		lines = append(lines, fmt.Sprintf("add %d", t))
	}
	answers := m.Batch(lines)[1:]
	drops, passes := 0, 0
	for j, t := range ts {
		got, want := gots[j], answers[j]
		// Property oracle: sliding-window log.
		inWin := 0
		for _, p := range ts[:j] {
			if t-p <= ivl {
				inWin++
			}
		}
		spec := inWin >= int(num)
		if got {
			drops++
		} else {
			passes++
		}
		// The property oracle runs first and independently of the model.
		if got != spec {
			r.Violate("counter-window", fmt.Sprintf(
				"limit %d interval %d: event %d at %d has %d earlier events in window but above=%v",
				num, ivl, j, t, inWin, got),
				map[string]any{"campaign": "counter", "num": num, "ivl": ivl, "stamps": ts[:j+1]})

			break
		}
		if b2s(got) != want {
			r.Disagree("counter", fmt.Sprintf("RequestCounter.Add=%v model=%s at step %d", got, want, j),
				map[string]any{"campaign": "counter", "ops": lines[:j+2]})

			break
		}
	}
	r.Case(strings.Join(lines, ";"), drops > 0 && passes > 0)
	r.Count(fmt.Sprintf("counter.limit=%d", num))
	if drops > 0 && passes > 0 {
		r.Count("counter.mixed")
		r.Sample(map[string]any{"campaign": "counter", "ops": truncate(m.Log, 12)}, 3)
	}
	r.Traces++
}

func b2s(b bool) string {
	if b {
		return "1"
	}

	return "0"
}

func truncate(s []string, n int) []string {
	if len(s) > n {
		return append(append([]string{}, s[:n]...), fmt.Sprintf("... (%d ops)", len(s)))
	}

	return append([]string{}, s...)
}

type bcfg struct {
	count            uint
	period, duration time.Duration
	est              uint64
	c4, c6           uint
	i4, i6           time.Duration
	l4, l6           int
	refuseAny        bool
	allow            []netip.Prefix
	// dyn is the initial dynamic part of the allowlist.
	dyn []netip.Prefix
	// yaml: build the limiter the way the service does — the `ratelimit` section
	// of a configuration file parsed by internal/cmd and converted by
	// rateLimitConfig.toInternal — instead of filling BackoffConfig directly.
	yaml bool
}

// yamlText renders c as a configuration file: config.dist.yaml of the tree
// under test with the scalars of its `ratelimit` object replaced, so that the
// property names are the documented ones (builder.go).
func (c *bcfg) yamlText() string {
	return distRatelimitYAML(c, "consul", nil)
}

func dynLine(nets []netip.Prefix) string {
	l := "dyn"
	for _, p := range nets {
		l += " " + prefArgs(p)
	}

	return l
}

func (c *bcfg) real() *ratelimit.Backoff {
	l, _ := c.realDyn()

	return l
}

// realDyn also returns the allowlist object so that it can be updated while
// the limiter is in use.
func (c *bcfg) realDyn() (*ratelimit.Backoff, *ratelimit.DynamicAllowlist) {
	al := ratelimit.NewDynamicAllowlist(c.allow, c.dyn)
	if c.yaml {
		v, err := cmd.VerifC20Parse([]byte(c.yamlText()))
		hlib.Must(err)

		return v.VerifC20Backoff(al), al
	}

	return ratelimit.NewBackoff(&ratelimit.BackoffConfig{
		Allowlist:            al,
		Period:               c.period,
		Duration:             c.duration,
		Count:                c.count,
		ResponseSizeEstimate: datasize.ByteSize(c.est),
		IPv4Count:            c.c4,
		IPv4Interval:         c.i4,
		IPv4SubnetKeyLen:     c.l4,
		IPv6Count:            c.c6,
		IPv6Interval:         c.i6,
		IPv6SubnetKeyLen:     c.l6,
		RefuseANY:            c.refuseAny,
	}), al
}

func addrArgs(ip netip.Addr) string {
	v := new(big.Int).SetBytes(ip.AsSlice())

	return fmt.Sprintf("%s %s", b2s(ip.Is4()), v.String())
}

func prefArgs(p netip.Prefix) string {
	if !p.IsValid() {
		// An invalid network: a length beyond any family's width.
		return "0 0 999"
	}

	return fmt.Sprintf("%s %d", addrArgs(p.Addr()), p.Bits())
}

func (c *bcfg) modelLines() (lines []string) {
	lines = append(lines, fmt.Sprintf("cfg %d %d %d %d %d %d %d %d %d %d %s", c.count, int64(c.period),
		int64(c.duration), c.est, c.c4, int64(c.i4), c.l4, c.c6, int64(c.i6), c.l6, b2s(c.refuseAny)))
	for _, p := range c.allow {
		lines = append(lines, "allow "+prefArgs(p))
	}
	if len(c.dyn) > 0 {
		lines = append(lines, dynLine(c.dyn))
	}

	return lines
}

func genCfg(rng *rand.Rand) (c *bcfg) {
	ivls := []time.Duration{1, time.Hour}
	exp := []time.Duration{0, time.Hour}
	c = &bcfg{
		count:     uint(rng.IntN(4)),
		period:    exp[rng.IntN(2)],
		duration:  exp[rng.IntN(2)],
		est:       []uint64{1, 60, 75, 100, 150}[rng.IntN(5)],
		c4:        uint(1 + rng.IntN(5)),
		c6:        uint(1 + rng.IntN(5)),
		i4:        ivls[rng.IntN(2)],
		i6:        ivls[rng.IntN(2)],
		l4:        []int{8, 16, 24, 31, 32, 1}[rng.IntN(6)],
		l6:        []int{32, 48, 56, 64, 127, 128, 1}[rng.IntN(7)],
		refuseAny: rng.IntN(2) == 0,
	}
	if rng.IntN(4) == 0 {
		c.count = 1000 // backoff practically off
	}
	for i := rng.IntN(3); i > 0; i-- {
		c.allow = append(c.allow, genPrefix(rng))
	}
	if rng.IntN(3) == 0 {
		c.dyn = genNets(rng)
	}

	return c
}

// Address pools are small so that subnets collide and differ at key-length
// boundaries.
func genAddr(rng *rand.Rand) netip.Addr {
	if rng.IntN(2) == 0 {
		b := [4]byte{10, byte(rng.IntN(2)), byte(rng.IntN(2)), byte(rng.IntN(4))}
		if rng.IntN(6) == 0 {
			b[0] = byte(10 + rng.IntN(2)*128)
		}

		return netip.AddrFrom4(b)
	}
	var b [16]byte
	b[0], b[1] = 0x20, 0x01
	b[3] = byte(rng.IntN(2))
	b[5] = byte(rng.IntN(2))
	b[7] = byte(rng.IntN(2))
	b[15] = byte(rng.IntN(3))
	if rng.IntN(8) == 0 {
		// 4in6-mapped: Is4() is false, so the IPv6 settings apply.
		return netip.AddrFrom16([16]byte{10: 0xff, 11: 0xff, 12: 10, 13: 0, 14: 0, 15: byte(rng.IntN(2))})
	}

	if rng.IntN(6) == 0 {
		// A zoned client address (link-local traffic carries the interface name);
		// networks have no zones, so the zone must not matter for any verdict.
		return netip.AddrFrom16(b).WithZone([]string{"eth0", "eth1"}[rng.IntN(2)])
	}

	return netip.AddrFrom16(b)
}

func genPrefix(rng *rand.Rand) netip.Prefix {
	a := genAddr(rng)
	bits := []int{8, 16, 24, 30, 32}[rng.IntN(5)]
	if !a.Is4() {
		bits = []int{16, 32, 48, 64, 120, 128}[rng.IntN(6)]
	}
	switch rng.IntN(16) {
	case 0:
		// The whole family.
		return netip.PrefixFrom(a.WithZone(""), 0)
	case 1:
		// Host bits not masked off (legal in the backend's CIDR ranges).
		return netip.PrefixFrom(a.WithZone(""), bits)
	case 2:
		// A length that does not fit the family: an invalid network, which
		// contains nothing (backend CIDR ranges are converted unchecked).
		return netip.PrefixFrom(a.WithZone(""), a.BitLen()+8)
	case 3:
		// A single host.
		return netip.PrefixFrom(a.WithZone(""), a.BitLen())
	}
	p, err := a.Prefix(bits)
	hlib.Must(err)

	return p
}

func genNets(rng *rand.Rand) (nets []netip.Prefix) {
	for i := rng.IntN(3); i > 0; i-- {
		nets = append(nets, genPrefix(rng))
	}

	return nets
}

type bev struct {
	// isDyn: not a query but DynamicAllowlist.Update(dyn).
	isDyn bool
	dyn   []netip.Prefix
	ip    netip.Addr
	qtype uint16
	// respLen > 0: a CountResponses call with a message of about that length.
	respLen int
}

// addECS attaches a well-formed EDNS Client Subnet option for ip's /24 or /56.
func addECS(m *dns.Msg, ip netip.Addr) {
	ip = ip.Unmap().WithZone("")
	fam, bits := uint16(1), 24
	if !ip.Is4() {
		fam, bits = 2, 56
	}
	p, err := ip.Prefix(bits)
	hlib.Must(err)
	opt := &dns.OPT{Hdr: dns.RR_Header{Name: ".", Rrtype: dns.TypeOPT, Class: 1232}}
	opt.Option = append(opt.Option, &dns.EDNS0_SUBNET{Code: dns.EDNS0SUBNET, Family: fam, SourceNetmask: uint8(bits),
		Address: p.Addr().AsSlice()})
	m.Extra = append(m.Extra, opt)
}

func mkReq(qt uint16) *dns.Msg {
	m := &dns.Msg{}
	m.SetQuestion("example.org.", qt)

	return m
}

// respSeq makes successive responses take different forms (deterministically, so
// that replays are stable): what a response weighs depends on its length only,
// not on its response code, flags or on the section its records sit in.
var respSeq int

// mkResp builds a response of exactly l bytes (for l >= 54; the smallest
// message otherwise) in one of five forms: NOERROR with answers, NXDOMAIN with
// the records in the authority section, SERVFAIL with them in the additional
// section, a truncated REFUSED, NOERROR with the AD and RA bits.
func mkResp(qt uint16, l int) *dns.Msg {
	respSeq++
	form := respSeq % 5
	m := mkReq(qt)
	m.Response = true
	sec := &m.Answer
	switch form {
	case 1:
		m.Rcode, sec = dns.RcodeNameError, &m.Ns
	case 2:
		m.Rcode, sec = dns.RcodeServerFailure, &m.Extra
	case 3:
		m.Rcode, m.Truncated = dns.RcodeRefused, true
	case 4:
		m.AuthenticatedData, m.RecursionAvailable = true, true
	}
	txt := func(n int) {
		*sec = append(*sec, &dns.TXT{
			Hdr: dns.RR_Header{Name: "example.org.", Rrtype: dns.TypeTXT, Class: dns.ClassINET, Ttl: 10},
			Txt: []string{strings.Repeat("x", n)},
		})
	}
	// A TXT record with an n-byte string takes 25+n bytes.
	for l-m.Len() >= 90 {
		txt(40)
	}
	if rem := l - m.Len(); rem >= 25 {
		txt(rem - 25)
	}

	return m
}

// genRespLen picks a response size; half of the time right at a multiple of
// the response-size estimate or one byte off.
func genRespLen(rng *rand.Rand, est uint64, span int) int {
	if e := int(est); rng.IntN(2) == 0 && e > 1 {
		if l := e*(1+rng.IntN(4)) + rng.IntN(3) - 1; l >= 54 && l <= 60+span {
			return l
		}
	}

	return 40 + rng.IntN(span)
}

// spin makes sure the wall clock advances by well over the 1 ns interval used
// by the "nothing is ever in the window" regime.
func spin() int64 {
	t0 := time.Now().UnixNano()
	for {
		t := time.Now().UnixNano()
		if t-t0 >= 2000 {
			return t
		}
	}
}

func backoffCampaign(o *hlib.Opts, r *hlib.Result, m *hlib.Model) {
	rng := o.Rand("backoff")
	n := 1000
	if o.Thorough() {
		n = 5000
	}
	ctx := context.Background()
	for i := 0; i < n; i++ {
		c := genCfg(rng)
		evs := make([]bev, 5+rng.IntN(60))
		for j := range evs {
			e := bev{ip: genAddr(rng), qtype: dns.TypeA}
			switch rng.IntN(10) {
			case 0:
				e.qtype = dns.TypeANY
			case 1:
				e.qtype = dns.TypeAAAA
			case 2, 3:
				e.respLen = genRespLen(rng, c.est, 400)
			}
			if rng.IntN(12) == 0 {
				e = bev{isDyn: true, dyn: genNets(rng)}
			}
			evs[j] = e
		}
		runBackoffCase(ctx, r, m, c, evs)
	}
}

func limitText(c *bcfg, ip netip.Addr) string {
	if ip.Is4() {
		return fmt.Sprintf("limit %d per %s, /%d, backoff after %d", c.c4, c.i4, c.l4, c.count)
	}

	return fmt.Sprintf("limit %d per %s, /%d, backoff after %d", c.c6, c.i6, c.l6, c.count)
}

func runBackoffCase(ctx context.Context, r *hlib.Result, m *hlib.Model, c *bcfg, evs []bev) {
	m.ResetLog()
	lim, al := c.realDyn()
	lines := c.modelLines()
	pre := len(lines)
	// Reference monitor: the property as stated.
	ref := newRef(c, false)
	ref.dynamic = c.dyn
	refOK := true
	// Twin limiter for the isolation oracle: sees only the events of the
	// first query's subnet (and every allowlist update).
	twin, twinAl := c.realDyn()
	var focus netip.Addr
	for _, e := range evs {
		if !e.isDyn {
			focus = e.ip

			break
		}
	}
	key := func(ip netip.Addr) string {
		if ip.Is4() {
			return maskKey(ip, c.l4)
		}

		return maskKey(ip, c.l6)
	}
	focusKey := ""
	if focus.IsValid() {
		focusKey = key(focus)
	}
	drops, passes := 0, 0
	gots := make([]string, len(evs))
	for j, e := range evs {
		now := spin()
		if e.isDyn {
			al.Update(e.dyn)
			twinAl.Update(e.dyn)
			ref.dynamic = e.dyn
			lines = append(lines, dynLine(e.dyn))
			gots[j] = "ok"
			r.Count("backoff.allowlist_update")

			continue
		}
		if e.respLen > 0 {
			resp := mkResp(e.qtype, e.respLen)
			lim.CountResponses(ctx, resp, e.ip)
			if key(e.ip) == focusKey {
				twin.CountResponses(ctx, resp, e.ip)
			}
			ref.countResp(now, e.ip, e.qtype, resp.Len())
			lines = append(lines, fmt.Sprintf("resp %d %s %d %d", now, addrArgs(e.ip), e.qtype, resp.Len()))
			gots[j] = "ok"
			r.Count("backoff.countResponses")

			continue
		}
		drop, allowlisted, err := lim.IsRateLimited(ctx, mkReq(e.qtype), e.ip)
		hlib.Must(err)
		got := "pass"
		if drop {
			got = "drop"
			drops++
		} else if allowlisted {
			got = "allow"
		} else {
			passes++
		}
		gots[j] = got
		r.Count("backoff.verdict=" + got)
		lines = append(lines, fmt.Sprintf("req %d %s %d", now, addrArgs(e.ip), e.qtype))
		// Property oracles on the real code.
		isAny := c.refuseAny && e.qtype == dns.TypeANY
		inAllow := anyNetHas(ref.persistent, e.ip) || anyNetHas(ref.dynamic, e.ip)
		if isAny && !drop {
			r.Violate("refuse-any", fmt.Sprintf("ANY query from %s not dropped although refusal is configured", e.ip), append([]string{}, lines...))
		}
		if inAllow && !isAny && (drop || !allowlisted) {
			r.Violate("allowlist", fmt.Sprintf("allowlisted %s got %s (persistent %v, dynamic %v)", e.ip, got, ref.persistent, ref.dynamic),
				append([]string{}, lines...))
		}
		if refOK {
			want, why, inWin := ref.check(now, e.ip, e.qtype)
			if why == "backoff" {
				r.Count("backoff.ref_in_backoff")
			}
			if want != got {
				refOK = false
				r.Violate(mismatchSig("", got, want), fmt.Sprintf("query %d from %s (qtype %d) %s; allowlist persistent %v dynamic %v",
					j, e.ip, e.qtype, mismatchText(got, want, why, inWin, limitText(c, e.ip)), ref.persistent, ref.dynamic),
					map[string]any{"campaign": "backoff", "ops": append([]string{}, lines...), "expected": want})
			}
		}
		if key(e.ip) == focusKey {
			d2, a2, err2 := twin.IsRateLimited(ctx, mkReq(e.qtype), e.ip)
			hlib.Must(err2)
			if d2 != drop || a2 != allowlisted {
				r.Violate("isolation", fmt.Sprintf(
					"subnet %s: verdict with other subnets' traffic present (%v) differs from verdict alone (%v) at step %d",
					focusKey, drop, d2, j), append([]string{}, lines...))
			}
		}
	}
	answers := m.Batch(lines)[pre:]
	for j := range evs {
		if gots[j] != answers[j] {
			r.Disagree("backoff", fmt.Sprintf("real=%s model=%s at step %d (%s qtype %d)", gots[j], answers[j], j, evs[j].ip, evs[j].qtype),
				map[string]any{"campaign": "backoff", "ops": lines[:pre+j+1]})

			break
		}
	}
	r.Case(strings.Join(stripTimes(lines), ";"), drops > 0 && passes > 0)
	if drops > 0 && passes > 0 {
		r.Sample(map[string]any{"campaign": "backoff", "ops": truncate(lines, 10)}, 6)
	}
	r.Traces++
}

// stripTimes removes the measured wall-clock field so that distinctness is
// about the generated case, not about when it ran.
func stripTimes(log []string) (out []string) {
	for _, l := range log {
		f := strings.Fields(l)
		if len(f) > 2 && (f[0] == "req" || f[0] == "resp") {
			f[1] = "t"
		}
		if len(f) > 3 && f[0] == "mw" {
			f[2] = "t"
		}
		if len(f) > 4 && f[0] == "libmw" {
			f[3] = "t"
		}
		if len(f) > 2 && (f[0] == "pcheck" || f[0] == "presp") {
			f[1] = "t"
		}
		out = append(out, strings.Join(f, " "))
	}

	return out
}

// backoffExpiryFinding replays the recorded counter-expiry history (S7) on the
// real limiter.
func backoffExpiryFinding(o *hlib.Opts, r *hlib.Result) {
	ctx := context.Background()
	c := &bcfg{count: 1000, period: 300 * time.Millisecond, duration: time.Hour, est: 100000,
		c4: 2, i4: 10 * time.Second, l4: 24, c6: 2, i6: 10 * time.Second, l6: 48}
	lim := c.real()
	ip := netip.MustParseAddr("192.0.2.1")
	var verdicts []bool
	for i := 0; i < 4; i++ {
		d, _, _ := lim.IsRateLimited(ctx, mkReq(dns.TypeA), ip)
		verdicts = append(verdicts, d)
	}
	time.Sleep(400 * time.Millisecond)
	d, _, _ := lim.IsRateLimited(ctx, mkReq(dns.TypeA), ip)
	verdicts = append(verdicts, d)
	r.Evaluations++
	r.Count("backoff.expiry_probe")
	// Four events within 10 s with limit 2: events 3,4 dropped; the fifth,
	// 0.4 s later and still inside the 10 s window, must be dropped too.
	if fmt.Sprint(verdicts[:4]) != "[false false true true]" {
		r.Violate("backoff-window-basic", fmt.Sprintf("limit 2 in 10s: verdicts %v", verdicts[:4]), nil)
	}
	if !verdicts[4] {
		r.Violate("reqcounter-expires-period-after-creation",
			"limit 2 per 10 s, backoff period 300 ms: the 5th query 0.4 s after four others passes; "+
				"the per-subnet counter object is discarded `Period` after its creation regardless of use, "+
				"so the window is forgotten", map[string]any{"verdicts": verdicts, "period_ms": 300, "ivl_s": 10, "limit": 2})
	}
}

// mwCampaign drives the production middleware stack (ratelimitmw behind
// dnssvc.NewHandlers) with the real Backoff as the global limiter and a
// profile with its own limiter recognised through its linked IP.
func mwCampaign(o *hlib.Opts, r *hlib.Result, m *hlib.Model) {
	rng := o.Rand("mw")
	n := 300
	if o.Thorough() {
		n = 2000
	}
	ctx := context.Background()
	// In virtual-time cases (every other one) the unit is 10 ms: windows of
	// 105/305 ms, backoff durations of 255/405 ms, the profile's second; ages are
	// multiples of 10 ms and a case must finish within 4 ms of real time.
	const vtUnit = 10 * time.Millisecond
	vtAges := []int64{1, 5, 10, 11, 20, 25, 26, 30, 31, 40, 41, 60, 99, 100, 101, 150}
	for i := 0; i < n; i++ {
		vt := i%2 == 1
		c := genCfg(rng)
		if vt {
			al0, dyn0 := c.allow, c.dyn
			c = genVtCfg(rng, vtUnit, false)
			c.allow, c.dyn = al0, dyn0
		}
		c.est = uint64(100 + rng.IntN(3)*100)
		if rng.IntN(5) == 0 {
			// Round 5: some of the profile's clients are allowlisted, so that the
			// overlap of "allowlisted clients are never dropped" and "a profile's
			// own limit applies instead" is exercised.
			c.allow = append(c.allow, netip.MustParsePrefix("10.0.0.0/15"))
		}
		lim, al := c.realDyn()
		ref := newRef(c, false)
		ref.dynamic = c.dyn
		var refP *refProfile
		refOK := true
		var pend, anyProf *pending
		var shift int64
		profIP := netip.MustParseAddr("10.0.0.1")
		var profLim agd.Ratelimiter = agd.GlobalRatelimiter{}
		var ownLim *agd.DefaultRatelimiter
		profLine := "noprof"
		hasProf := rng.IntN(3) > 0
		if hasProf && rng.IntN(3) > 0 {
			rc := &agd.RatelimitConfig{RPS: uint32([]int{0, 1, 2, 3, 6, 50}[rng.IntN(6)]), Enabled: true}
			for k := rng.IntN(3); k > 0; k-- {
				rc.ClientSubnets = append(rc.ClientSubnets, genPrefix(rng))
			}
			profLim = agd.NewDefaultRatelimiter(rc, datasize.ByteSize(c.est))
			ownLim = profLim.(*agd.DefaultRatelimiter)
			refP = &refProfile{rps: int(rc.RPS), est: int(c.est), subnets: rc.ClientSubnets}
			profLine = fmt.Sprintf("prof %d %d", rc.RPS, c.est)
			for _, p := range rc.ClientSubnets {
				profLine += " " + prefArgs(p)
			}
		}
		dev := &agd.Device{Auth: &agd.AuthSettings{PasswordHash: agdpasswd.AllowAuthenticator{}}, ID: "dev1234",
			LinkedIP: profIP, FilteringEnabled: true}
		prof := &agd.Profile{
			FilterConfig: &filter.ConfigClient{Custom: &filter.ConfigCustom{}, Parental: &filter.ConfigParental{},
				RuleList: &filter.ConfigRuleList{}, SafeBrowsing: &filter.ConfigSafeBrowsing{}},
			Access: access.EmptyProfile{}, BlockingMode: &dnsmsg.BlockingModeNullIP{}, Ratelimiter: profLim,
			ID: "prof1234", DeviceIDs: []agd.DeviceID{"dev1234"}, FilteredResponseTTL: 10 * time.Second,
			FilteringEnabled: true,
		}
		pdb := stack.NotFoundProfileDB()
		if hasProf {
			pdb.OnProfileByLinkedIP = func(_ context.Context, ip netip.Addr) (*agd.Profile, *agd.Device, error) {
				if isProfIP(ip) {
					return prof, dev, nil
				}

				return nil, nil, fmt.Errorf("not found: %w", errNotFound)
			}
		}
		var respLen, upCalls int
		srvDNS := stack.NewServer("dns", agd.ProtoDNS, true)
		srvDoT := stack.NewServer("dot", agd.ProtoDoT, true, &agd.ServerBindData{AddrPort: netip.MustParseAddrPort("192.0.2.2:853")})
		// Every protocol other than plain DNS is outside the limiter's reach.
		others := []*agd.Server{
			srvDoT,
			stack.NewServer("doh", agd.ProtoDoH, true, &agd.ServerBindData{AddrPort: netip.MustParseAddrPort("192.0.2.2:443")}),
			stack.NewServer("doq", agd.ProtoDoQ, true, &agd.ServerBindData{AddrPort: netip.MustParseAddrPort("192.0.2.2:8853")}),
			stack.NewServer("dnscrypt", agd.ProtoDNSCrypt, true, &agd.ServerBindData{AddrPort: netip.MustParseAddrPort("192.0.2.2:5443")}),
		}
		st := stack.New(&stack.Config{
			RateLimit: lim,
			ProfileDB: pdb,
			Servers:   append([]*agd.Server{srvDNS}, others...),
			Upstream: dnsserver.HandlerFunc(func(ctx context.Context, rw dnsserver.ResponseWriter, req *dns.Msg) error {
				upCalls++
				if respLen == -2 {
					// Round 5, fault path: the upstream fails after the limiter has let
					// the request through.
					return errUpstreamDown
				}
				if respLen < 0 {
					return nil
				}

				return rw.WriteMsg(ctx, req, mkResp(req.Question[0].Qtype, respLen))
			}),
		})
		lines := append(c.modelLines(), profLine)
		pre := len(lines)
		var gots []string
		t0 := time.Now()
		nev := 5 + rng.IntN(40)
		dropped, served := 0, 0
		for j := 0; j < nev; j++ {
			if rng.IntN(15) == 0 {
				nets := genNets(rng)
				al.Update(nets)
				ref.dynamic = nets
				lines = append(lines, dynLine(nets))
				gots = append(gots, "ok")
				r.Count("mw.allowlist_update")

				continue
			}
			if vt && rng.IntN(4) == 0 {
				d := time.Duration(vtAges[rng.IntN(len(vtAges))]) * vtUnit
				ratelimit.VerifC09AgeBackoff(lim, d)
				if ownLim != nil {
					agd.VerifC09Age(ownLim, d)
				}
				shift += int64(d)
				lines = append(lines, fmt.Sprintf("age %d", int64(d)))
				gots = append(gots, "ok")
				r.Count("mw.vt_age")

				continue
			}
			ip := genAddr(rng)
			if hasProf && rng.IntN(2) == 0 {
				ip = profIPs[rng.IntN(len(profIPs))]
			}
			qt := uint16(dns.TypeA)
			if rng.IntN(10) == 0 {
				qt = dns.TypeANY
			}
			respLen = genRespLen(rng, c.est, 500)
			upFails := rng.IntN(9) == 0
			if upFails {
				respLen = -2
			}
			// (A handler that writes nothing cannot be exercised here: the
			// production stack's `initial` middleware behind the limiter requires a
			// response, so the limiter's `resp == nil` branches are unreachable.)
			srv, limited := srvDNS, true
			if rng.IntN(8) == 0 {
				srv, limited = others[rng.IntN(len(others))], false
				r.Count("mw.proto=" + srv.Protocol.String())
			}
			now := spin() + shift
			msg := mkReq(qt)
			if rng.IntN(6) == 0 {
				// A well-formed EDNS Client Subnet option naming somebody else's
				// network: the limiter must keep judging the real client address.
				addECS(msg, genAddr(rng))
				r.Count("mw.ecs_request")
			}
			if ip.Zone() != "" {
				r.Count("mw.zoned_client")
			}
			sreq := &stack.Req{Server: srv, Msg: msg, Remote: netip.AddrPortFrom(ip, 1234),
				Local: netip.MustParseAddrPort("192.0.2.2:53")}
			if srv.Protocol == agd.ProtoDoH {
				sreq.ReqInfo = &dnsserver.RequestInfo{URL: &url.URL{Path: "/dns-query"}}
			}
			callsBefore := upCalls
			out := st.Serve(ctx, sreq)
			if upFails && upCalls > callsBefore {
				// The request passed the limiter and the upstream failed: the error must
				// come back (the server answers SERVFAIL), nothing is written by the
				// middleware, and the request stays counted as one event — a client
				// whose queries fail must not escape its limit.
				r.Count("mw.upstream_failure")
				if !errors.Is(out.Err, errUpstreamDown) || out.Resp != nil {
					pend = newPending("mw-upstream-error-lost", fmt.Sprintf(
						"query %d from %s passed the limiter, the upstream failed, but the stack returned error %v and response %v", j, ip, out.Err, out.Resp != nil),
						map[string]any{"campaign": "mw", "ops": append([]string{}, lines...)})
				}
			} else if out.Err != nil {
				r.Disagree("mw-error", fmt.Sprintf("stack returned error %v", out.Err), lines)

				break
			}
			// A request is dropped when it never reaches the handler behind the
			// limiter; a handler that writes nothing is still a served request.
			calls := upCalls - callsBefore
			got := "served"
			if calls == 0 {
				got = "dropped"
				dropped++
			} else {
				served++
			}
			if calls > 1 {
				pend = newPending("mw-handled-twice", fmt.Sprintf("query %d from %s reached the handler behind the limiter %d times", j, ip, calls),
					map[string]any{"campaign": "mw", "ops": append([]string{}, lines...)})
			}
			if calls == 0 && out.Resp != nil {
				pend = newPending("drop-not-silent", fmt.Sprintf("query %d from %s never reached the handler but the client received a response (rcode %d)",
					j, ip, out.Resp.Rcode), map[string]any{"campaign": "mw", "ops": append([]string{}, lines...)})
			}
			if calls > 0 && respLen >= 0 && out.Resp == nil {
				pend = newPending("mw-response-lost", fmt.Sprintf("query %d from %s was handled but the client received nothing", j, ip),
					map[string]any{"campaign": "mw", "ops": append([]string{}, lines...)})
			}
			lenArg := "-"
			if respLen >= 0 {
				// The limiter sees the message the next handler wrote.
				lenArg = fmt.Sprint(mkResp(qt, respLen).Len())
				if out.Resp != nil {
					// The message the client gets is the one CountResponses saw.
					lenArg = fmt.Sprint(out.Resp.Len())
				}
			}
			gots = append(gots, got)
			// The transport layer hands the middleware an unmapped address
			// (netutil.NetAddrToAddrPort).
			eff := ip.Unmap()
			isProf := hasProf && isProfIP(eff)
			lines = append(lines, fmt.Sprintf("mw %s %d %s %d %s %s", b2s(limited), now, addrArgs(eff), qt, lenArg, b2s(isProf)))
			// Property oracle: what the statement says must happen to this query.
			if refOK {
				want, how := "served", "the protocol is not rate limited"
				countLen := 0
				if respLen >= 0 {
					countLen, _ = strconv.Atoi(lenArg)
				}
				if limited {
					pv := "global"
					if isProf && refP != nil {
						pv, _ = refP.check(now, eff)
					}
					switch pv {
					case "drop":
						want, how = "dropped", "the profile's own limit is exhausted"
						if (anyNetHas(ref.persistent, eff) || anyNetHas(ref.dynamic, eff)) && !(c.refuseAny && qt == dns.TypeANY) {
							// The two clauses of the statement overlap here; the code lets the
							// profile's limit win (allowlisted_served_unless_profile_limit_partial).
							how = "the profile's own limit is exhausted; it takes precedence over the allowlist"
							r.Count("mw.allowlisted_dropped_by_profile_limit")
						}
					case "pass":
						how = "the profile's own limit applies and is not exhausted"
						refP.countResp(now, eff, countLen)
						if c.refuseAny && qt == dns.TypeANY && got == "served" {
							// The statement: ANY queries are dropped for everyone when
							// refusal is configured.  Recorded deviation: a client
							// covered by its profile's own limit is never asked.
							r.Count("mw.any_served_under_profile_limit")
							anyProf = newPending("refuse-any-bypassed-by-profile-limit", fmt.Sprintf(
								"ANY refusal is configured, yet the ANY query %d from %s (plain DNS, profile with its own limit of %d rps covering the client) was answered",
								j, eff, refP.rps), map[string]any{"campaign": "mw", "ops": append([]string{}, lines...), "expected": "dropped"})
						}
					default:
						v, why, inWin := ref.check(now, eff, qt)
						how = refWhy(v, why, inWin, limitText(c, eff))
						if v == "drop" {
							want = "dropped"
						} else if v == "pass" {
							ref.countResp(now, eff, qt, countLen)
						}
					}
				}
				if want != got {
					refOK = false
					sig := "mw-late-pass"
					what := fmt.Sprintf("query %d from %s (qtype %d, profile %v) must be dropped without a response (%s) but the client received one", j, eff, qt, isProf, how)
					if got == "dropped" {
						sig = "mw-early-drop"
						what = fmt.Sprintf("query %d from %s (qtype %d, profile %v) was dropped although it must be served (%s)", j, eff, qt, isProf, how)
					} else if out.Resp != nil {
						what += fmt.Sprintf(" (rcode %d)", out.Resp.Rcode)
					}
					pend = newPending(sig, what, map[string]any{"campaign": "mw", "ops": append([]string{}, lines...), "expected": want})
				}
			}
		}
		if time.Since(t0) > 400*time.Millisecond || (vt && time.Since(t0) > 4*vtUnit/10) {
			r.Count("mw.discarded_slow")

			continue
		}
		if vt {
			r.Count("mw.vt_cases")
		}
		pend.raise(r)
		anyProf.raise(r)
		answers := m.Batch(lines)[pre:]
		for j := range gots {
			want := answers[j]
			if gots[j] != want {
				r.Disagree("mw", fmt.Sprintf("stack=%s model=%s at step %d", gots[j], want, j),
					map[string]any{"campaign": "mw", "ops": lines[:pre+j+1]})

				break
			}
		}
		r.Case(strings.Join(stripTimes(lines), ";"), dropped > 0 && served > 0)
		r.Count("mw.cases")
		if dropped > 0 && served > 0 {
			r.Count("mw.mixed")
			r.Sample(map[string]any{"campaign": "mw", "ops": truncate(lines, 8)}, 9)
		}
		r.Traces++
	}
}

var errNotFound = profiledbNotFound()

var errUpstreamDown = errors.New("verif: upstream down")

// profIPs are the linked addresses of the fixture profile's devices: several
// subnets, so that a profile's ClientSubnets can include some and exclude
// others.
var profIPs = []netip.Addr{
	netip.MustParseAddr("10.0.0.1"), netip.MustParseAddr("10.0.1.2"), netip.MustParseAddr("10.1.0.3"),
	netip.MustParseAddr("10.1.1.0"), netip.MustParseAddr("2001:0:1::1"),
}

func isProfIP(ip netip.Addr) bool {
	for _, p := range profIPs {
		if p == ip {
			return true
		}
	}

	return false
}

// profLimCampaign drives agd.DefaultRatelimiter directly: Check and
// CountResponses from addresses inside and outside the profile's subnets.  All
// events of a case happen within a few hundred microseconds, far inside the
// fixed one-second window; slow cases are discarded.
func profLimCampaign(o *hlib.Opts, r *hlib.Result, m *hlib.Model) {
	rng := o.Rand("proflim")
	n := 400
	if o.Thorough() {
		n = 5000
	}
	ctx := context.Background()
	for i := 0; i < n; i++ {
		rc := &agd.RatelimitConfig{RPS: uint32(rng.IntN(6)), Enabled: true}
		for k := rng.IntN(3); k > 0; k-- {
			rc.ClientSubnets = append(rc.ClientSubnets, genPrefix(rng))
		}
		est := uint64(100 + rng.IntN(3)*100)
		lim := agd.NewDefaultRatelimiter(rc, datasize.ByteSize(est))
		twin := agd.NewDefaultRatelimiter(rc, datasize.ByteSize(est))
		inSub := func(ip netip.Addr) bool {
			if len(rc.ClientSubnets) == 0 {
				return true
			}
			return anyNetHas(rc.ClientSubnets, ip)
		}
		profLine := fmt.Sprintf("prof %d %d", rc.RPS, est)
		for _, p := range rc.ClientSubnets {
			profLine += " " + prefArgs(p)
		}
		refP := &refProfile{rps: int(rc.RPS), est: int(est), subnets: rc.ClientSubnets}
		refOK := true
		var pend *pending
		lines := []string{"cfg 0 0 0 1 1 1 32 1 1 128 0", profLine}
		pre := len(lines)
		var gots []string
		t0 := time.Now()
		nIn, nOut, drops := 0, 0, 0
		for j := 5 + rng.IntN(30); j > 0; j-- {
			ip := genAddr(rng)
			now := spin()
			if rng.IntN(5) == 0 {
				resp := mkResp(dns.TypeA, genRespLen(rng, est, 500))
				lim.CountResponses(ctx, resp, ip)
				if inSub(ip) {
					twin.CountResponses(ctx, resp, ip)
				}
				refP.countResp(now, ip, resp.Len())
				lines = append(lines, fmt.Sprintf("presp %d %s %d", now, addrArgs(ip), resp.Len()))
				gots = append(gots, "ok")

				continue
			}
			res := lim.Check(ctx, mkReq(dns.TypeA), ip)
			got := map[agd.RatelimitResult]string{agd.RatelimitResultPass: "pass", agd.RatelimitResultDrop: "drop",
				agd.RatelimitResultUseGlobal: "global"}[res]
			if inSub(ip) {
				nIn++
				// Oracle: traffic from outside the profile's subnets must
				// neither use nor consume the profile's limit.
				if res2 := twin.Check(ctx, mkReq(dns.TypeA), ip); res2 != res {
					r.Violate("profile-limit-affected-by-outside-subnets", fmt.Sprintf(
						"profile limiter (rps %d, subnets %v): verdict %s for in-subnet %s differs from the verdict without out-of-subnet traffic",
						rc.RPS, rc.ClientSubnets, got, ip), append([]string{}, lines...))
				}
			} else {
				nOut++
				if res != agd.RatelimitResultUseGlobal {
					r.Violate("profile-limit-applied-outside-subnets", fmt.Sprintf("out-of-subnet %s got %s", ip, got), nil)
				}
			}
			if got == "drop" {
				drops++
			}
			lines = append(lines, fmt.Sprintf("pcheck %d %s", now, addrArgs(ip)))
			if want, inWin := refP.check(now, ip); refOK && want != got {
				refOK = false
				pend = newPending(mismatchSig("profile-limit-", got, want), fmt.Sprintf(
					"profile limiter (rps %d, response estimate %d, subnets %v): check from %s got %s, expected %s with %d events of the profile in the last second",
					rc.RPS, est, rc.ClientSubnets, ip, got, want, inWin),
					map[string]any{"campaign": "proflim", "ops": append([]string{}, lines...), "expected": want})
			}
			gots = append(gots, got)
		}
		if time.Since(t0) > 300*time.Millisecond {
			r.Count("proflim.discarded_slow")

			continue
		}
		pend.raise(r)
		answers := m.Batch(lines)[pre:]
		for j := range gots {
			if gots[j] != answers[j] {
				r.Disagree("proflim", fmt.Sprintf("DefaultRatelimiter=%s model=%s at step %d", gots[j], answers[j], j),
					map[string]any{"campaign": "proflim", "ops": lines[:pre+j+1]})

				break
			}
		}
		r.Case(strings.Join(stripTimes(lines), ";"), nIn > 0 && nOut > 0 && drops > 0)
		r.Count("proflim.cases")
		if nIn > 0 && nOut > 0 && drops > 0 {
			r.Count("proflim.mixed")
			r.Sample(map[string]any{"campaign": "proflim", "ops": truncate(lines, 8)}, 12)
		}
		r.Traces++
	}
}

// timedCampaign exercises cache-entry expiry (Period, Duration), a
// millisecond-scale window and the profile limiter's one-second window with
// real sleeps on a grid (100 ms for Backoff, 150 ms for the profile limiter).
// All boundaries (30 ms / 250 ms / 1 s windows, 250 ms expiry) lie at least
// 30 ms away from any difference of grid points, measured stamps are passed to
// the model and to the reference monitor, and a schedule whose measured stamps
// drift more than 20 ms from the plan is discarded.
func timedCampaign(o *hlib.Opts, r *hlib.Result, m *hlib.Model) {
	rng := o.Rand("timed")
	n := 64
	if o.Thorough() {
		n = 320
	}
	type sched struct {
		c       *bcfg
		profile bool
		rps     uint32
		step    time.Duration
		bursts  []int
		lines   []string
		gots    []string
		nows    []int64
		ok      bool
	}
	scheds := make([]*sched, n)
	for i := range scheds {
		exp := []time.Duration{250 * time.Millisecond, time.Hour}
		c := &bcfg{count: uint(rng.IntN(4)), period: exp[rng.IntN(2)], duration: exp[rng.IntN(2)], est: 100000,
			c4: uint(1 + rng.IntN(3)), i4: []time.Duration{30 * time.Millisecond, 250 * time.Millisecond}[rng.IntN(2)], l4: 24,
			c6: 1, i6: time.Hour, l6: 48}
		if i == 0 {
			// The schedule of seeded mutant C09-hit-expiry-slides.
			c = &bcfg{count: 3, period: time.Hour, duration: 250 * time.Millisecond, est: 100000, c4: 1,
				i4: 30 * time.Millisecond, l4: 24, c6: 1, i6: time.Hour, l6: 48}
		}
		sc := &sched{c: c, step: 100 * time.Millisecond}
		for g := 0; g < 6; g++ {
			sc.bursts = append(sc.bursts, rng.IntN(4))
		}
		if i == 0 {
			sc.bursts = []int{2, 2, 2, 1, 1, 0}
		}
		if i%4 == 3 {
			// The profile limiter: `rps` per second; differences of grid points
			// are multiples of 150 ms, so 900 ms is inside and 1050 ms outside.
			sc.profile, sc.rps, sc.step, sc.bursts = true, uint32(1+rng.IntN(3)), 150*time.Millisecond, nil
			sc.c = &bcfg{est: 1, c4: 1, i4: 1, l4: 32, c6: 1, i6: 1, l6: 128}
			for g := 0; g < 9; g++ {
				b := rng.IntN(5) - 2
				if g == 0 {
					b = 1 + rng.IntN(3)
				}
				sc.bursts = append(sc.bursts, max(b, 0))
			}
		}
		scheds[i] = sc
	}
	ctx := context.Background()
	ip := netip.MustParseAddr("192.0.2.7")
	done := make(chan struct{})
	for _, sc := range scheds {
		go func(sc *sched) {
			defer func() { done <- struct{}{} }()
			lim := sc.c.real()
			plim := agd.NewDefaultRatelimiter(&agd.RatelimitConfig{RPS: sc.rps, Enabled: true}, 100000)
			sc.lines = sc.c.modelLines()
			if sc.profile {
				sc.lines = append(sc.lines, fmt.Sprintf("prof %d 100000", sc.rps))
			}
			sc.ok = true
			start := time.Now()
			for g, b := range sc.bursts {
				target := start.Add(time.Duration(g) * sc.step)
				time.Sleep(time.Until(target))
				for k := 0; k < b; k++ {
					now := time.Now()
					if d := now.Sub(target); d < 0 || d > 20*time.Millisecond {
						sc.ok = false
					}
					var got string
					if sc.profile {
						got = map[agd.RatelimitResult]string{agd.RatelimitResultPass: "pass", agd.RatelimitResultDrop: "drop",
							agd.RatelimitResultUseGlobal: "global"}[plim.Check(ctx, mkReq(dns.TypeA), ip)]
						sc.lines = append(sc.lines, fmt.Sprintf("pcheck %d %s", now.UnixNano(), addrArgs(ip)))
					} else {
						drop, _, err := lim.IsRateLimited(ctx, mkReq(dns.TypeA), ip)
						hlib.Must(err)
						got = map[bool]string{true: "drop", false: "pass"}[drop]
						sc.lines = append(sc.lines, fmt.Sprintf("req %d %s %d", now.UnixNano(), addrArgs(ip), dns.TypeA))
					}
					if after := time.Since(now); after > 5*time.Millisecond {
						sc.ok = false
					}
					sc.gots = append(sc.gots, got)
					sc.nows = append(sc.nows, now.UnixNano())
				}
			}
		}(sc)
	}
	for range scheds {
		<-done
	}
	for i, sc := range scheds {
		if !sc.ok {
			r.Count("timed.discarded_jitter")

			continue
		}
		pre := len(sc.lines) - len(sc.gots)
		desc := fmt.Sprintf("schedule %d (bursts %v on a %s grid, limit %d per %s, backoff after %d, period %s, duration %s)",
			i, sc.bursts, sc.step, sc.c.c4, sc.c.i4, sc.c.count, sc.c.period, sc.c.duration)
		if sc.profile {
			desc = fmt.Sprintf("schedule %d (profile limiter, %d per second, bursts %v on a %s grid)", i, sc.rps, sc.bursts, sc.step)
		}
		// Property oracle first: the reference monitor on the measured stamps.
		if sc.profile {
			refP := &refProfile{rps: int(sc.rps), est: 100000}
			for j, got := range sc.gots {
				if want, inWin := refP.check(sc.nows[j], ip); want != got {
					r.Violate(mismatchSig("profile-limit-", got, want), fmt.Sprintf(
						"%s: query %d got %s, expected %s with %d events of the profile in the preceding second", desc, j, got, want, inWin),
						map[string]any{"campaign": "timed", "ops": sc.lines[:pre+j+1], "expected": want})

					break
				}
			}
			r.Count("timed.profile_cases")
		} else {
			// withReset reproduces the recorded deviation
			// reqcounter-expires-period-after-creation, pure is the statement.
			withReset, pure := newRef(sc.c, true), newRef(sc.c, false)
			resetBad, pureBad := -1, -1
			var resetWhat string
			var resetWant string
			for j, got := range sc.gots {
				want, why, inWin := withReset.check(sc.nows[j], ip, dns.TypeA)
				if want != got && resetBad < 0 {
					resetBad, resetWant = j, want
					resetWhat = mismatchText(got, want, why, inWin, limitText(sc.c, ip))
				}
				if wantP, _, _ := pure.check(sc.nows[j], ip, dns.TypeA); wantP != got && pureBad < 0 {
					pureBad = j
				}
			}
			switch {
			case pureBad < 0:
				r.Count("timed.exact_window")
			case resetBad < 0:
				r.Count("timed.known_reset_seen")
				r.Violate("reqcounter-expires-period-after-creation", fmt.Sprintf(
					"%s: query %d got %s; the subnet's window log is forgotten `period` after its first event",
					desc, pureBad, sc.gots[pureBad]), map[string]any{"campaign": "timed", "ops": sc.lines[:pre+pureBad+1]})
			default:
				r.Violate(mismatchSig("", sc.gots[resetBad], resetWant), fmt.Sprintf("%s: query %d %s", desc, resetBad, resetWhat),
					map[string]any{"campaign": "timed", "ops": sc.lines[:pre+resetBad+1], "expected": resetWant})
			}
		}
		answers := m.Batch(sc.lines)[pre:]
		drops, passes := 0, 0
		for j := range sc.gots {
			if sc.gots[j] == "drop" {
				drops++
			} else {
				passes++
			}
			if sc.gots[j] != answers[j] {
				r.Disagree("timed", fmt.Sprintf("%s: real=%s model=%s at query %d", desc, sc.gots[j], answers[j], j),
					map[string]any{"campaign": "timed", "ops": sc.lines[:pre+j+1]})

				break
			}
		}
		// Oracle for the fixed schedule 0: three pairs 100 ms apart give hits at
		// 0, 100, 200 ms; the first hit expires at 250 ms, so the single
		// queries at 300 and 400 ms are neither in the 30 ms window nor in
		// backoff and must pass.
		if i == 0 && len(sc.gots) == 8 && (sc.gots[6] != "pass" || sc.gots[7] != "pass") {
			r.Violate("backoff-outlives-duration", fmt.Sprintf(
				"limit 1 per 30 ms, backoff after 3 hits, duration 250 ms; pairs at 0/100/200 ms then single queries at 300 and 400 ms: verdicts %v — "+
					"a subnet stays in backoff although its first hit is older than the backoff duration", sc.gots),
				map[string]any{"campaign": "timed", "ops": sc.lines})
		}
		r.Case(fmt.Sprintf("timed %v %v %v %v %v %v %v %v", sc.profile, sc.rps, sc.bursts, sc.c.i4, sc.c.period, sc.c.duration, sc.c.count, sc.c.c4),
			drops > 0 && passes > 0)
		r.Count("timed.cases")
		if i < 2 || i == 3 {
			r.Sample(map[string]any{"campaign": "timed", "bursts": sc.bursts, "grid": sc.step.String(), "ops": truncate(stripTimes(sc.lines), 8)}, 14)
		}
		r.Traces++
	}
}

// pending is a violation found inside a timing-sensitive case; it is raised
// only when the case turns out not to have been disturbed by the scheduler.
type pending struct {
	sig, what string
	replay    any
}

func newPending(sig, what string, replay any) *pending { return &pending{sig, what, replay} }

func (p *pending) raise(r *hlib.Result) {
	if p != nil {
		r.Violate(p.sig, p.what, p.replay)
	}
}
