// Command c09 is the correspondence harness and property oracle for C09
// (rate limiting).
package main

import (
	"context"
	"fmt"
	"math/big"
	"math/rand/v2"
	"net/netip"
	"strings"
	"time"

	"github.com/AdguardTeam/AdGuardDNS/internal/dnsserver/ratelimit"
	"github.com/AdguardTeam/AdGuardDNS/internal/access"
	"github.com/AdguardTeam/AdGuardDNS/internal/agd"
	"github.com/AdguardTeam/AdGuardDNS/internal/agdpasswd"
	"github.com/AdguardTeam/AdGuardDNS/internal/dnsmsg"
	"github.com/AdguardTeam/AdGuardDNS/internal/dnsserver"
	"github.com/AdguardTeam/AdGuardDNS/internal/filter"
	"github.com/AdguardTeam/AdGuardDNS/verifh/hlib"
	"github.com/AdguardTeam/AdGuardDNS/verifh/hlib/stack"
	"github.com/c2h5oh/datasize"
	"github.com/miekg/dns"
)

func main() {
	o := hlib.ParseFlags()
	r := hlib.NewResult("C09", o)
	r.Rule = "counter: random (limit, interval, timestamp-step) sequences fed to the real RequestCounter.Add, " +
		"the Lean model and an independent window-log oracle; backoff: random configurations and client " +
		"sequences fed to the real Backoff, the model and a twin real limiter that only sees one subnet; " +
		"a case is non-trivial when at least one event was dropped and one passed; distinct = distinct op logs"
	m := hlib.StartModel(o.Model, "C09")
	defer m.Close()

	counterCampaign(o, r, m)
	backoffCampaign(o, r, m)
	profLimCampaign(o, r, m)
	mwCampaign(o, r, m)
	timedCampaign(o, r, m)
	backoffExpiryFinding(o, r)

	r.ModelOps = r.Evaluations
	r.Finish()
}

// counterCampaign: RequestCounter.Add vs model vs window-log oracle.
func counterCampaign(o *hlib.Opts, r *hlib.Result, m *hlib.Model) {
	rng := o.Rand("counter")
	n := 1500
	if o.Thorough() {
		n = 6000
	}
	for i := 0; i < n; i++ {
		num := uint(rng.IntN(9))
		ivls := []int64{1, 2, 10, 1000, int64(time.Second), int64(time.Hour)}
		ivl := ivls[rng.IntN(len(ivls))]
		length := 1 + rng.IntN(200)
		runCounterCase(r, m, num, ivl, genStamps(rng, ivl, length))
	}
	if o.Thorough() {
		// Exhaustive: limit ≤ 3, horizon ≤ 7, steps on a 4-point grid.
		steps := []int64{0, 9, 10, 11}
		for num := uint(0); num <= 3; num++ {
			for horizon := 1; horizon <= 7; horizon++ {
				total := 1
				for j := 0; j < horizon; j++ {
					total *= len(steps)
				}
				for code := 0; code < total; code++ {
					ts := make([]int64, horizon)
					cur, c := int64(1), code
					for j := range ts {
						cur += steps[c%len(steps)]
						c /= len(steps)
						ts[j] = cur
					}
					runCounterCase(r, m, num, 10, ts)
				}
			}
		}
		r.Count("counter.exhaustive_grid_done")
	}
}

func genStamps(rng *rand.Rand, ivl int64, length int) (ts []int64) {
	cur := int64(1 + rng.IntN(1000))
	ts = make([]int64, length)
	for j := range ts {
		switch rng.IntN(8) {
		case 0, 1, 2:
			// burst with equal stamps
		case 3:
			cur++
		case 4:
			cur += ivl
		case 5:
			cur += ivl + 1
		case 6:
			if ivl > 1 {
				cur += ivl - 1
			}
		default:
			cur += rng.Int64N(2*ivl + 1)
		}
		ts[j] = cur
	}

	return ts
}

func runCounterCase(r *hlib.Result, m *hlib.Model, num uint, ivl int64, ts []int64) {
	m.ResetLog()
	rc := ratelimit.NewRequestCounter(num, time.Duration(ivl))
	lines := []string{fmt.Sprintf("ctr %d %d", num, ivl)}
	gots := make([]bool, len(ts))
	for j, t := range ts {
		gots[j] = rc.Add(time.Unix(0, t))
		lines = append(lines, fmt.Sprintf("add %d", t))
	}
	answers := m.Batch(lines)[1:]
	drops, passes := 0, 0
	for j, t := range ts {
		got, want := gots[j], answers[j]
		// Property oracle: sliding-window log.
		inWin := 0
		for _, p := range ts[:j] {
			if t-p <= ivl {
				inWin++
			}
		}
		spec := inWin >= int(num)
		if got {
			drops++
		} else {
			passes++
		}
		// The property oracle runs first and independently of the model.
		if got != spec {
			r.Violate("counter-window", fmt.Sprintf(
				"limit %d interval %d: event %d at %d has %d earlier events in window but above=%v",
				num, ivl, j, t, inWin, got),
				map[string]any{"campaign": "counter", "num": num, "ivl": ivl, "stamps": ts[:j+1]})

			break
		}
		if b2s(got) != want {
			r.Disagree("counter", fmt.Sprintf("RequestCounter.Add=%v model=%s at step %d", got, want, j),
				map[string]any{"campaign": "counter", "ops": lines[:j+2]})

			break
		}
	}
	r.Case(strings.Join(lines, ";"), drops > 0 && passes > 0)
	r.Count(fmt.Sprintf("counter.limit=%d", num))
	if drops > 0 && passes > 0 {
		r.Count("counter.mixed")
		r.Sample(map[string]any{"campaign": "counter", "ops": truncate(m.Log, 12)}, 3)
	}
	r.Traces++
}

func b2s(b bool) string {
	if b {
		return "1"
	}

	return "0"
}

func truncate(s []string, n int) []string {
	if len(s) > n {
		return append(append([]string{}, s[:n]...), fmt.Sprintf("... (%d ops)", len(s)))
	}

	return append([]string{}, s...)
}

type bcfg struct {
	count            uint
	period, duration time.Duration
	est              uint64
	c4, c6           uint
	i4, i6           time.Duration
	l4, l6           int
	refuseAny        bool
	allow            []netip.Prefix
}

func (c *bcfg) real() *ratelimit.Backoff {
	return ratelimit.NewBackoff(&ratelimit.BackoffConfig{
		Allowlist:            ratelimit.NewDynamicAllowlist(c.allow, nil),
		Period:               c.period,
		Duration:             c.duration,
		Count:                c.count,
		ResponseSizeEstimate: datasize.ByteSize(c.est),
		IPv4Count:            c.c4,
		IPv4Interval:         c.i4,
		IPv4SubnetKeyLen:     c.l4,
		IPv6Count:            c.c6,
		IPv6Interval:         c.i6,
		IPv6SubnetKeyLen:     c.l6,
		RefuseANY:            c.refuseAny,
	})
}

func addrArgs(ip netip.Addr) string {
	v := new(big.Int).SetBytes(ip.AsSlice())

	return fmt.Sprintf("%s %s", b2s(ip.Is4()), v.String())
}

func prefArgs(p netip.Prefix) string {
	return fmt.Sprintf("%s %d", addrArgs(p.Addr()), p.Bits())
}

func (c *bcfg) modelLines() (lines []string) {
	lines = append(lines, fmt.Sprintf("cfg %d %d %d %d %d %d %d %d %d %d %s", c.count, int64(c.period),
		int64(c.duration), c.est, c.c4, int64(c.i4), c.l4, c.c6, int64(c.i6), c.l6, b2s(c.refuseAny)))
	for _, p := range c.allow {
		lines = append(lines, "allow "+prefArgs(p))
	}

	return lines
}

func genCfg(rng *rand.Rand) (c *bcfg) {
	ivls := []time.Duration{1, time.Hour}
	exp := []time.Duration{0, time.Hour}
	c = &bcfg{
		count:     uint(rng.IntN(4)),
		period:    exp[rng.IntN(2)],
		duration:  exp[rng.IntN(2)],
		est:       uint64(1 + rng.IntN(3)*50),
		c4:        uint(1 + rng.IntN(5)),
		c6:        uint(1 + rng.IntN(5)),
		i4:        ivls[rng.IntN(2)],
		i6:        ivls[rng.IntN(2)],
		l4:        []int{8, 16, 24, 31, 32, 1}[rng.IntN(6)],
		l6:        []int{32, 48, 56, 64, 127, 128, 1}[rng.IntN(7)],
		refuseAny: rng.IntN(2) == 0,
	}
	if rng.IntN(4) == 0 {
		c.count = 1000 // backoff practically off
	}
	for i := rng.IntN(3); i > 0; i-- {
		c.allow = append(c.allow, genPrefix(rng))
	}

	return c
}

// Address pools are small so that subnets collide and differ at key-length
// boundaries.
func genAddr(rng *rand.Rand) netip.Addr {
	if rng.IntN(2) == 0 {
		b := [4]byte{10, byte(rng.IntN(2)), byte(rng.IntN(2)), byte(rng.IntN(4))}
		if rng.IntN(6) == 0 {
			b[0] = byte(10 + rng.IntN(2)*128)
		}

		return netip.AddrFrom4(b)
	}
	var b [16]byte
	b[0], b[1] = 0x20, 0x01
	b[3] = byte(rng.IntN(2))
	b[5] = byte(rng.IntN(2))
	b[7] = byte(rng.IntN(2))
	b[15] = byte(rng.IntN(3))
	if rng.IntN(8) == 0 {
		// 4in6-mapped: Is4() is false, so the IPv6 settings apply.
		return netip.AddrFrom16([16]byte{10: 0xff, 11: 0xff, 12: 10, 13: 0, 14: 0, 15: byte(rng.IntN(2))})
	}

	return netip.AddrFrom16(b)
}

func genPrefix(rng *rand.Rand) netip.Prefix {
	a := genAddr(rng)
	bits := []int{8, 16, 24, 30, 32}[rng.IntN(5)]
	if !a.Is4() {
		bits = []int{16, 32, 48, 64, 120, 128}[rng.IntN(6)]
	}
	p, err := a.Prefix(bits)
	hlib.Must(err)

	return p
}

type bev struct {
	ip    netip.Addr
	qtype uint16
	// respLen > 0: a CountResponses call with a message of about that length.
	respLen int
}

func mkReq(qt uint16) *dns.Msg {
	m := &dns.Msg{}
	m.SetQuestion("example.org.", qt)

	return m
}

func mkResp(qt uint16, l int) *dns.Msg {
	m := mkReq(qt)
	m.Response = true
	for m.Len() < l {
		m.Answer = append(m.Answer, &dns.TXT{
			Hdr: dns.RR_Header{Name: "example.org.", Rrtype: dns.TypeTXT, Class: dns.ClassINET, Ttl: 10},
			Txt: []string{strings.Repeat("x", 40)},
		})
	}

	return m
}

// spin makes sure the wall clock advances by well over the 1 ns interval used
// by the "nothing is ever in the window" regime.
func spin() int64 {
	t0 := time.Now().UnixNano()
	for {
		t := time.Now().UnixNano()
		if t-t0 >= 2000 {
			return t
		}
	}
}

func backoffCampaign(o *hlib.Opts, r *hlib.Result, m *hlib.Model) {
	rng := o.Rand("backoff")
	n := 1000
	if o.Thorough() {
		n = 5000
	}
	ctx := context.Background()
	for i := 0; i < n; i++ {
		c := genCfg(rng)
		evs := make([]bev, 5+rng.IntN(60))
		for j := range evs {
			e := bev{ip: genAddr(rng), qtype: dns.TypeA}
			switch rng.IntN(10) {
			case 0:
				e.qtype = dns.TypeANY
			case 1:
				e.qtype = dns.TypeAAAA
			case 2, 3:
				e.respLen = 40 + rng.IntN(400)
			}
			evs[j] = e
		}
		runBackoffCase(ctx, r, m, c, evs)
	}
}

func runBackoffCase(ctx context.Context, r *hlib.Result, m *hlib.Model, c *bcfg, evs []bev) {
	m.ResetLog()
	lim := c.real()
	lines := c.modelLines()
	pre := len(lines)
	// Twin limiter for the isolation oracle: sees only the events of the
	// first event's subnet.
	twin := c.real()
	focus := evs[0].ip
	key := func(ip netip.Addr) netip.Prefix {
		l := c.l6
		if ip.Is4() {
			l = c.l4
		}
		p, err := ip.Prefix(l)
		hlib.Must(err)

		return p
	}
	focusKey := key(focus)
	drops, passes := 0, 0
	gots := make([]string, len(evs))
	for j, e := range evs {
		now := spin()
		if e.respLen > 0 {
			resp := mkResp(e.qtype, e.respLen)
			lim.CountResponses(ctx, resp, e.ip)
			if key(e.ip) == focusKey {
				twin.CountResponses(ctx, resp, e.ip)
			}
			lines = append(lines, fmt.Sprintf("resp %d %s %d %d", now, addrArgs(e.ip), e.qtype, resp.Len()))
			gots[j] = "ok"
			r.Count("backoff.countResponses")

			continue
		}
		drop, allowlisted, err := lim.IsRateLimited(ctx, mkReq(e.qtype), e.ip)
		hlib.Must(err)
		got := "pass"
		if drop {
			got = "drop"
			drops++
		} else if allowlisted {
			got = "allow"
		} else {
			passes++
		}
		gots[j] = got
		r.Count("backoff.verdict=" + got)
		lines = append(lines, fmt.Sprintf("req %d %s %d", now, addrArgs(e.ip), e.qtype))
		// Property oracles on the real code.
		isAny := c.refuseAny && e.qtype == dns.TypeANY
		inAllow := false
		for _, p := range c.allow {
			inAllow = inAllow || p.Contains(e.ip)
		}
		if isAny && !drop {
			r.Violate("refuse-any", fmt.Sprintf("ANY query from %s not dropped although refusal is configured", e.ip), lines)
		}
		if inAllow && !isAny && (drop || !allowlisted) {
			r.Violate("allowlist", fmt.Sprintf("allowlisted %s got %s", e.ip, got), append([]string{}, lines...))
		}
		if key(e.ip) == focusKey {
			d2, a2, err2 := twin.IsRateLimited(ctx, mkReq(e.qtype), e.ip)
			hlib.Must(err2)
			if d2 != drop || a2 != allowlisted {
				r.Violate("isolation", fmt.Sprintf(
					"subnet %s: verdict with other subnets' traffic present (%v) differs from verdict alone (%v) at step %d",
					focusKey, drop, d2, j), append([]string{}, lines...))
			}
		}
	}
	answers := m.Batch(lines)[pre:]
	for j := range evs {
		if gots[j] != answers[j] {
			r.Disagree("backoff", fmt.Sprintf("real=%s model=%s at step %d (%s qtype %d)", gots[j], answers[j], j, evs[j].ip, evs[j].qtype),
				map[string]any{"campaign": "backoff", "ops": lines[:pre+j+1]})

			break
		}
	}
	r.Case(strings.Join(stripTimes(lines), ";"), drops > 0 && passes > 0)
	if drops > 0 && passes > 0 {
		r.Sample(map[string]any{"campaign": "backoff", "ops": truncate(lines, 10)}, 6)
	}
	r.Traces++
}

// stripTimes removes the measured wall-clock field so that distinctness is
// about the generated case, not about when it ran.
func stripTimes(log []string) (out []string) {
	for _, l := range log {
		f := strings.Fields(l)
		if len(f) > 2 && (f[0] == "req" || f[0] == "resp") {
			f[1] = "t"
		}
		if len(f) > 3 && f[0] == "mw" {
			f[2] = "t"
		}
		out = append(out, strings.Join(f, " "))
	}

	return out
}

// backoffExpiryFinding replays the recorded counter-expiry history (S7) on the
// real limiter.
func backoffExpiryFinding(o *hlib.Opts, r *hlib.Result) {
	ctx := context.Background()
	c := &bcfg{count: 1000, period: 300 * time.Millisecond, duration: time.Hour, est: 100000,
		c4: 2, i4: 10 * time.Second, l4: 24, c6: 2, i6: 10 * time.Second, l6: 48}
	lim := c.real()
	ip := netip.MustParseAddr("192.0.2.1")
	var verdicts []bool
	for i := 0; i < 4; i++ {
		d, _, _ := lim.IsRateLimited(ctx, mkReq(dns.TypeA), ip)
		verdicts = append(verdicts, d)
	}
	time.Sleep(400 * time.Millisecond)
	d, _, _ := lim.IsRateLimited(ctx, mkReq(dns.TypeA), ip)
	verdicts = append(verdicts, d)
	r.Evaluations++
	r.Count("backoff.expiry_probe")
	// Four events within 10 s with limit 2: events 3,4 dropped; the fifth,
	// 0.4 s later and still inside the 10 s window, must be dropped too.
	if fmt.Sprint(verdicts[:4]) != "[false false true true]" {
		r.Violate("backoff-window-basic", fmt.Sprintf("limit 2 in 10s: verdicts %v", verdicts[:4]), nil)
	}
	if !verdicts[4] {
		r.Violate("reqcounter-expires-period-after-creation",
			"limit 2 per 10 s, backoff period 300 ms: the 5th query 0.4 s after four others passes; "+
				"the per-subnet counter object is discarded `Period` after its creation regardless of use, "+
				"so the window is forgotten", map[string]any{"verdicts": verdicts, "period_ms": 300, "ivl_s": 10, "limit": 2})
	}
}

// mwCampaign drives the production middleware stack (ratelimitmw behind
// dnssvc.NewHandlers) with the real Backoff as the global limiter and a
// profile with its own limiter recognised through its linked IP.
func mwCampaign(o *hlib.Opts, r *hlib.Result, m *hlib.Model) {
	rng := o.Rand("mw")
	n := 150
	if o.Thorough() {
		n = 2000
	}
	ctx := context.Background()
	for i := 0; i < n; i++ {
		c := genCfg(rng)
		c.est = uint64(100 + rng.IntN(3)*100)
		lim := c.real()
		profIP := netip.MustParseAddr("10.0.0.1")
		var profLim agd.Ratelimiter = agd.GlobalRatelimiter{}
		profLine := "noprof"
		hasProf := rng.IntN(3) > 0
		if hasProf && rng.IntN(3) > 0 {
			rc := &agd.RatelimitConfig{RPS: uint32(rng.IntN(4)), Enabled: true}
			for k := rng.IntN(3); k > 0; k-- {
				rc.ClientSubnets = append(rc.ClientSubnets, genPrefix(rng))
			}
			profLim = agd.NewDefaultRatelimiter(rc, datasize.ByteSize(c.est))
			profLine = fmt.Sprintf("prof %d %d", rc.RPS, c.est)
			for _, p := range rc.ClientSubnets {
				profLine += " " + prefArgs(p)
			}
		}
		dev := &agd.Device{Auth: &agd.AuthSettings{PasswordHash: agdpasswd.AllowAuthenticator{}}, ID: "dev1234",
			LinkedIP: profIP, FilteringEnabled: true}
		prof := &agd.Profile{
			FilterConfig: &filter.ConfigClient{Custom: &filter.ConfigCustom{}, Parental: &filter.ConfigParental{},
				RuleList: &filter.ConfigRuleList{}, SafeBrowsing: &filter.ConfigSafeBrowsing{}},
			Access: access.EmptyProfile{}, BlockingMode: &dnsmsg.BlockingModeNullIP{}, Ratelimiter: profLim,
			ID: "prof1234", DeviceIDs: []agd.DeviceID{"dev1234"}, FilteredResponseTTL: 10 * time.Second,
			FilteringEnabled: true,
		}
		pdb := stack.NotFoundProfileDB()
		if hasProf {
			pdb.OnProfileByLinkedIP = func(_ context.Context, ip netip.Addr) (*agd.Profile, *agd.Device, error) {
				if isProfIP(ip) {
					return prof, dev, nil
				}

				return nil, nil, fmt.Errorf("not found: %w", errNotFound)
			}
		}
		var respLen int
		srvDNS := stack.NewServer("dns", agd.ProtoDNS, true)
		srvDoT := stack.NewServer("dot", agd.ProtoDoT, true, &agd.ServerBindData{AddrPort: netip.MustParseAddrPort("192.0.2.2:853")})
		st := stack.New(&stack.Config{
			RateLimit: lim,
			ProfileDB: pdb,
			Servers:   []*agd.Server{srvDNS, srvDoT},
			Upstream: dnsserver.HandlerFunc(func(ctx context.Context, rw dnsserver.ResponseWriter, req *dns.Msg) error {
				if respLen < 0 {
					return nil
				}

				return rw.WriteMsg(ctx, req, mkResp(req.Question[0].Qtype, respLen))
			}),
		})
		lines := append(c.modelLines(), profLine)
		pre := len(lines)
		var gots []string
		t0 := time.Now()
		nev := 5 + rng.IntN(40)
		dropped, served := 0, 0
		for j := 0; j < nev; j++ {
			ip := genAddr(rng)
			if hasProf && rng.IntN(2) == 0 {
				ip = profIPs[rng.IntN(len(profIPs))]
			}
			qt := uint16(dns.TypeA)
			if rng.IntN(10) == 0 {
				qt = dns.TypeANY
			}
			respLen = 40 + rng.IntN(500)
			srv, limited := srvDNS, true
			if rng.IntN(8) == 0 {
				srv, limited = srvDoT, false
			}
			now := spin()
			out := st.Serve(ctx, &stack.Req{Server: srv, Msg: mkReq(qt), Remote: netip.AddrPortFrom(ip, 1234),
				Local: netip.MustParseAddrPort("192.0.2.2:53")})
			if out.Err != nil {
				r.Disagree("mw-error", fmt.Sprintf("stack returned error %v", out.Err), lines)

				break
			}
			got := "served"
			if out.Resp == nil && respLen >= 0 {
				got = "dropped"
				dropped++
			} else {
				served++
			}
			lenArg := "-"
			if respLen >= 0 {
				// The limiter sees the message the next handler wrote.
				lenArg = fmt.Sprint(mkResp(qt, respLen).Len())
				if out.Resp != nil {
					// The message the client gets is the one CountResponses saw.
					lenArg = fmt.Sprint(out.Resp.Len())
				}
			} else if out.Resp == nil {
				// Nothing written by the handler: a drop and a silent handler
				// are indistinguishable to the client; compare via model.
				got = "silent"
			}
			gots = append(gots, got)
			// The transport layer hands the middleware an unmapped address
			// (netutil.NetAddrToAddrPort).
			eff := ip.Unmap()
			isProf := hasProf && isProfIP(eff)
			lines = append(lines, fmt.Sprintf("mw %s %d %s %d %s %s", b2s(limited), now, addrArgs(eff), qt, lenArg, b2s(isProf)))
		}
		if time.Since(t0) > 400*time.Millisecond {
			r.Count("mw.discarded_slow")

			continue
		}
		answers := m.Batch(lines)[pre:]
		for j := range gots {
			want := answers[j]
			if gots[j] == "silent" {
				continue
			}
			if gots[j] != want {
				r.Disagree("mw", fmt.Sprintf("stack=%s model=%s at step %d", gots[j], want, j),
					map[string]any{"campaign": "mw", "ops": lines[:pre+j+1]})

				break
			}
		}
		r.Case(strings.Join(stripTimes(lines), ";"), dropped > 0 && served > 0)
		r.Count("mw.cases")
		if dropped > 0 && served > 0 {
			r.Count("mw.mixed")
			r.Sample(map[string]any{"campaign": "mw", "ops": truncate(lines, 8)}, 9)
		}
		r.Traces++
	}
}

var errNotFound = profiledbNotFound()

// profIPs are the linked addresses of the fixture profile's devices: several
// subnets, so that a profile's ClientSubnets can include some and exclude
// others.
var profIPs = []netip.Addr{
	netip.MustParseAddr("10.0.0.1"), netip.MustParseAddr("10.0.1.2"), netip.MustParseAddr("10.1.0.3"),
	netip.MustParseAddr("10.1.1.0"), netip.MustParseAddr("2001:0:1::1"),
}

func isProfIP(ip netip.Addr) bool {
	for _, p := range profIPs {
		if p == ip {
			return true
		}
	}

	return false
}

// profLimCampaign drives agd.DefaultRatelimiter directly: Check and
// CountResponses from addresses inside and outside the profile's subnets.  All
// events of a case happen within a few hundred microseconds, far inside the
// fixed one-second window; slow cases are discarded.
func profLimCampaign(o *hlib.Opts, r *hlib.Result, m *hlib.Model) {
	rng := o.Rand("proflim")
	n := 400
	if o.Thorough() {
		n = 5000
	}
	ctx := context.Background()
	for i := 0; i < n; i++ {
		rc := &agd.RatelimitConfig{RPS: uint32(rng.IntN(6)), Enabled: true}
		for k := rng.IntN(3); k > 0; k-- {
			rc.ClientSubnets = append(rc.ClientSubnets, genPrefix(rng))
		}
		est := uint64(100 + rng.IntN(3)*100)
		lim := agd.NewDefaultRatelimiter(rc, datasize.ByteSize(est))
		twin := agd.NewDefaultRatelimiter(rc, datasize.ByteSize(est))
		inSub := func(ip netip.Addr) bool {
			if len(rc.ClientSubnets) == 0 {
				return true
			}
			for _, p := range rc.ClientSubnets {
				if p.Contains(ip) {
					return true
				}
			}

			return false
		}
		profLine := fmt.Sprintf("prof %d %d", rc.RPS, est)
		for _, p := range rc.ClientSubnets {
			profLine += " " + prefArgs(p)
		}
		lines := []string{"cfg 0 0 0 1 1 1 32 1 1 128 0", profLine}
		pre := len(lines)
		var gots []string
		t0 := time.Now()
		nIn, nOut, drops := 0, 0, 0
		for j := 5 + rng.IntN(30); j > 0; j-- {
			ip := genAddr(rng)
			now := spin()
			if rng.IntN(5) == 0 {
				resp := mkResp(dns.TypeA, 40+rng.IntN(500))
				lim.CountResponses(ctx, resp, ip)
				if inSub(ip) {
					twin.CountResponses(ctx, resp, ip)
				}
				lines = append(lines, fmt.Sprintf("presp %d %s %d", now, addrArgs(ip), resp.Len()))
				gots = append(gots, "ok")

				continue
			}
			res := lim.Check(ctx, mkReq(dns.TypeA), ip)
			got := map[agd.RatelimitResult]string{agd.RatelimitResultPass: "pass", agd.RatelimitResultDrop: "drop",
				agd.RatelimitResultUseGlobal: "global"}[res]
			if inSub(ip) {
				nIn++
				// Oracle: traffic from outside the profile's subnets must
				// neither use nor consume the profile's limit.
				if res2 := twin.Check(ctx, mkReq(dns.TypeA), ip); res2 != res {
					r.Violate("profile-limit-affected-by-outside-subnets", fmt.Sprintf(
						"profile limiter (rps %d, subnets %v): verdict %s for in-subnet %s differs from the verdict without out-of-subnet traffic",
						rc.RPS, rc.ClientSubnets, got, ip), append([]string{}, lines...))
				}
			} else {
				nOut++
				if res != agd.RatelimitResultUseGlobal {
					r.Violate("profile-limit-applied-outside-subnets", fmt.Sprintf("out-of-subnet %s got %s", ip, got), nil)
				}
			}
			if got == "drop" {
				drops++
			}
			lines = append(lines, fmt.Sprintf("pcheck %d %s", now, addrArgs(ip)))
			gots = append(gots, got)
		}
		if time.Since(t0) > 300*time.Millisecond {
			r.Count("proflim.discarded_slow")

			continue
		}
		answers := m.Batch(lines)[pre:]
		for j := range gots {
			if gots[j] != answers[j] {
				r.Disagree("proflim", fmt.Sprintf("DefaultRatelimiter=%s model=%s at step %d", gots[j], answers[j], j),
					map[string]any{"campaign": "proflim", "ops": lines[:pre+j+1]})

				break
			}
		}
		r.Case(strings.Join(stripTimes(lines), ";"), nIn > 0 && nOut > 0 && drops > 0)
		r.Count("proflim.cases")
		if nIn > 0 && nOut > 0 && drops > 0 {
			r.Count("proflim.mixed")
			r.Sample(map[string]any{"campaign": "proflim", "ops": truncate(lines, 8)}, 12)
		}
		r.Traces++
	}
}

// timedCampaign exercises cache-entry expiry (Period, Duration) and a
// millisecond-scale window with real sleeps on a 100 ms grid.  All
// boundaries (30 ms window, 250 ms expiry) lie at least 30 ms away from any
// grid point, measured stamps are passed to the model, and a schedule whose
// measured stamps drift more than 20 ms from the plan is discarded.
func timedCampaign(o *hlib.Opts, r *hlib.Result, m *hlib.Model) {
	rng := o.Rand("timed")
	n := 12
	if o.Thorough() {
		n = 96
	}
	type sched struct {
		c      *bcfg
		bursts []int
		lines  []string
		gots   []string
		ok     bool
	}
	scheds := make([]*sched, n)
	for i := range scheds {
		exp := []time.Duration{250 * time.Millisecond, time.Hour}
		c := &bcfg{count: uint(2 + rng.IntN(2)), period: exp[rng.IntN(2)], duration: exp[rng.IntN(2)], est: 100000,
			c4: uint(1 + rng.IntN(2)), i4: []time.Duration{30 * time.Millisecond, 250 * time.Millisecond}[rng.IntN(2)], l4: 24,
			c6: 1, i6: time.Hour, l6: 48}
		if i == 0 {
			// The schedule of seeded mutant C09-hit-expiry-slides.
			c = &bcfg{count: 3, period: time.Hour, duration: 250 * time.Millisecond, est: 100000, c4: 1,
				i4: 30 * time.Millisecond, l4: 24, c6: 1, i6: time.Hour, l6: 48}
		}
		sc := &sched{c: c}
		for g := 0; g < 6; g++ {
			sc.bursts = append(sc.bursts, rng.IntN(4))
		}
		if i == 0 {
			sc.bursts = []int{2, 2, 2, 1, 1, 0}
		}
		scheds[i] = sc
	}
	ctx := context.Background()
	ip := netip.MustParseAddr("192.0.2.7")
	done := make(chan struct{})
	for _, sc := range scheds {
		go func(sc *sched) {
			defer func() { done <- struct{}{} }()
			lim := sc.c.real()
			sc.lines = sc.c.modelLines()
			sc.ok = true
			start := time.Now()
			for g, b := range sc.bursts {
				target := start.Add(time.Duration(g) * 100 * time.Millisecond)
				time.Sleep(time.Until(target))
				for k := 0; k < b; k++ {
					now := time.Now()
					if d := now.Sub(target); d < 0 || d > 20*time.Millisecond {
						sc.ok = false
					}
					drop, _, err := lim.IsRateLimited(ctx, mkReq(dns.TypeA), ip)
					hlib.Must(err)
					if after := time.Since(now); after > 5*time.Millisecond {
						sc.ok = false
					}
					sc.gots = append(sc.gots, map[bool]string{true: "drop", false: "pass"}[drop])
					sc.lines = append(sc.lines, fmt.Sprintf("req %d %s %d", now.UnixNano(), addrArgs(ip), dns.TypeA))
				}
			}
		}(sc)
	}
	for range scheds {
		<-done
	}
	for i, sc := range scheds {
		if !sc.ok {
			r.Count("timed.discarded_jitter")

			continue
		}
		pre := len(sc.c.modelLines())
		answers := m.Batch(sc.lines)[pre:]
		drops, passes := 0, 0
		for j := range sc.gots {
			if sc.gots[j] == "drop" {
				drops++
			} else {
				passes++
			}
			if sc.gots[j] != answers[j] {
				r.Disagree("timed", fmt.Sprintf("schedule %d (bursts %v on a 100 ms grid, window %s, period %s, duration %s): Backoff=%s model=%s at query %d",
					i, sc.bursts, sc.c.i4, sc.c.period, sc.c.duration, sc.gots[j], answers[j], j),
					map[string]any{"campaign": "timed", "ops": sc.lines[:pre+j+1]})

				break
			}
		}
		// Oracle for the fixed schedule 0: three pairs 100 ms apart give hits at
		// 0, 100, 200 ms; the first hit expires at 250 ms, so the single
		// queries at 300 and 400 ms are neither in the 30 ms window nor in
		// backoff and must pass.
		if i == 0 && len(sc.gots) == 8 && (sc.gots[6] != "pass" || sc.gots[7] != "pass") {
			r.Violate("backoff-outlives-duration", fmt.Sprintf(
				"limit 1 per 30 ms, backoff after 3 hits, duration 250 ms; pairs at 0/100/200 ms then single queries at 300 and 400 ms: verdicts %v — "+
					"a subnet stays in backoff although its first hit is older than the backoff duration", sc.gots),
				map[string]any{"campaign": "timed", "ops": sc.lines})
		}
		r.Case(fmt.Sprintf("timed %v %v %v %v %v", sc.bursts, sc.c.i4, sc.c.period, sc.c.duration, sc.c.count), drops > 0 && passes > 0)
		r.Count("timed.cases")
		if i < 2 {
			r.Sample(map[string]any{"campaign": "timed", "bursts_per_100ms": sc.bursts, "ops": truncate(stripTimes(sc.lines), 8)}, 14)
		}
		r.Traces++
	}
}
