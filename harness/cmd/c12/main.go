// Command c12 is the correspondence harness and property oracle for C12
// (filtering-result caches are invisible and never survive a refresh).
package main

import (
	"context"
	"encoding/json"
	"fmt"
	"math/rand/v2"
	"net/netip"
	"net/url"
	"os"
	"path/filepath"
	"regexp"
	"strconv"
	"strings"
	"sync"
	"time"

	"github.com/AdguardTeam/AdGuardDNS/internal/agdcache"
	"github.com/AdguardTeam/AdGuardDNS/internal/agdtime"
	"github.com/AdguardTeam/AdGuardDNS/internal/dnsmsg"
	"github.com/AdguardTeam/AdGuardDNS/internal/filter"
	"github.com/AdguardTeam/AdGuardDNS/internal/filter/filterstorage"
	"github.com/AdguardTeam/AdGuardDNS/internal/filter/hashprefix"
	"github.com/AdguardTeam/AdGuardDNS/verifh/hlib"
	"github.com/AdguardTeam/golibs/logutil/slogutil"
	"github.com/miekg/dns"
)

var scratch string

func main() {
	o := hlib.ParseFlags()
	r := hlib.NewResult("C12", o)
	r.Rule = "single-filter cases (rule list, blocked service, safe search, hash-prefix, custom): random histories of " +
		"queries by different clients/profiles interleaved with refreshes, run on the real filter storage with caches on, " +
		"on an uncached twin (caches disabled or cleared before every query / a fresh filter per query), on the Lean model " +
		"driver (exact gcache LRU order) and against a direct evaluation of the current list version; hash-prefix cases add " +
		"forced schedules (lookups parked between Matches and the cache insertion while a refresh completes); full-storage " +
		"cases run all filters together against the uncached twin; concurrent cases race real goroutines against refreshes; " +
		"conv cases take the profiles' custom rules from an in-process gRPC backend through backendpb.ProfileStorage and " +
		"profiledb (full/incremental/failed synchronisations, cache file, restarts) into the filter storage and judge every " +
		"answer by the rule version delivered last. " +
		"A case is non-trivial when it had a refresh and both filtered and unfiltered answers; distinct = distinct op logs"
	var err error
	scratch, err = os.MkdirTemp("", "agdverif-c12-")
	hlib.Must(err)
	defer os.RemoveAll(scratch)

	m := hlib.StartModel(o.Model, "C12")
	defer m.Close()

	hashPrefixFindings(o, r)
	singleListCampaign(o, r, m)
	hashPrefixCampaign(o, r, m)
	collisionCampaign(o, r, m)
	customCampaign(o, r, m)
	convCampaign(o, r, m)
	storageCampaign(o, r)
	multiCampaign(o, r, m)
	wireCampaign(o, r)
	concurrentCampaign(o, r)

	r.Finish()
}

// ---------------------------------------------------------------------------
// Common fixtures.

type errColl struct {
	mu   sync.Mutex
	errs []string
}

func (e *errColl) Collect(_ context.Context, err error) {
	e.mu.Lock()
	defer e.mu.Unlock()
	e.errs = append(e.errs, err.Error())
}

func (e *errColl) take() (errs []string) {
	e.mu.Lock()
	defer e.mu.Unlock()
	errs, e.errs = e.errs, nil

	return errs
}

// collectMgr is a cache manager that remembers every cache ever registered, so
// that the reference storage can be made cache-free before every query.
type collectMgr struct {
	mu     sync.Mutex
	caches []agdcache.Clearer
}

func (m *collectMgr) Add(_ string, c agdcache.Clearer) {
	m.mu.Lock()
	defer m.mu.Unlock()
	m.caches = append(m.caches, c)
}

func (m *collectMgr) ClearByID(string) {}

func (m *collectMgr) clearAll() {
	m.mu.Lock()
	defer m.mu.Unlock()
	for _, c := range m.caches {
		c.Clear()
	}
	// Forget caches of replaced filters from time to time.
	if len(m.caches) > 64 {
		m.caches = append([]agdcache.Clearer{}, m.caches[len(m.caches)-32:]...)
	}
}

// profile is a requester: its message constructor settings.
type profile struct {
	name string
	mode string // nx ref null c4
	ttl  int
	ede  bool
	cons *dnsmsg.Constructor
}

func newProfile(name, mode string, ttl int, ede bool) (p *profile) {
	var bm dnsmsg.BlockingMode
	switch mode {
	case "nx":
		bm = &dnsmsg.BlockingModeNXDOMAIN{}
	case "ref":
		bm = &dnsmsg.BlockingModeREFUSED{}
	case "null":
		bm = &dnsmsg.BlockingModeNullIP{}
	default:
		bm = &dnsmsg.BlockingModeCustomIP{IPv4: []netip.Addr{netip.MustParseAddr("10.10.10.10")}}
	}
	c, err := dnsmsg.NewConstructor(&dnsmsg.ConstructorConfig{
		Cloner:              dnsmsg.NewCloner(dnsmsg.EmptyClonerStat{}),
		StructuredErrors:    &dnsmsg.StructuredDNSErrorsConfig{Enabled: false},
		BlockingMode:        bm,
		FilteredResponseTTL: time.Duration(ttl) * time.Second,
		EDEEnabled:          ede,
	})
	hlib.Must(err)

	return &profile{name: name, mode: mode, ttl: ttl, ede: ede, cons: c}
}

var profiles = []*profile{
	newProfile("p0", "nx", 10, true),
	newProfile("p1", "ref", 3600, false),
	newProfile("p2", "null", 60, true),
	newProfile("p3", "c4", 300, true),
}

var clients = []string{"1.1.1.1", "2.2.2.2"}

// Host pools.  All names are under one-label ICANN suffixes.
var domains = []string{"a.example.com", "b.example.com", "c.example.org", "d.example.net"}

var hosts = []string{
	"a.example.com", "www.a.example.com", "b.example.com", "x.b.example.com", "c.example.org",
	"deep.x.www.c.example.org", "d.example.net", "z.example.net", "example.com",
}

// Question types.  CAA (257) and 284 equal A (1) and AAAA (28) modulo 256, and
// CNAME is the type of the answers that are filtered: a cache key that loses a
// part of the question makes these collide with each other.
var qtypes = []uint16{dns.TypeA, dns.TypeA, dns.TypeAAAA, dns.TypeHTTPS, dns.TypeTXT, dns.TypeCAA, dns.TypeCNAME, 284}

// panicList marks a pseudo-result that stands for a panic of the real filter.
const panicList filter.ID = "PANIC"

// guard runs one call of the real filter and turns a panic into a pseudo-result,
// so that the oracle reports it with the history that led to it.
func guard(call func() (filter.Result, error), what string) (res filter.Result) {
	defer func() {
		if v := recover(); v != nil {
			res = &filter.ResultBlocked{List: panicList, Rule: filter.RuleText(fmt.Sprint(v))}
		}
	}()
	res, err := call()
	if err != nil {
		panic(fmt.Errorf("%s: %w", what, err))
	}

	return res
}

// isPanic reports whether the canonical result text stands for a panic.
func isPanic(canon string) bool { return strings.Contains(canon, "list="+string(panicList)+" ") }

// rule is one rule of the generator's grammar.
type rule struct {
	kind string // B A H C R
	dom  string
	ip   string
}

func (ru rule) text(ver int) string {
	tag := fmt.Sprintf("denyallow=v%d.invalid", ver)
	if _, err := netip.ParseAddr(ru.dom); err == nil {
		// Rules for addresses (answers of responses).  The engine does not
		// apply $denyallow rules to addresses, so these carry no version tag
		// and are judged by the uncached twin only.
		switch ru.kind {
		case "A":
			return "@@||" + ru.dom + "^"
		case "T":
			return "||" + ru.dom + "^$dnstype=A"
		default:
			return "||" + ru.dom + "^"
		}
	}
	switch ru.kind {
	case "B":
		return "||" + ru.dom + "^$" + tag
	case "A":
		return "@@||" + ru.dom + "^$" + tag
	case "H":
		return fmt.Sprintf("10.0.%d.%d %s", ver/256, ver%256, ru.dom)
	case "G":
		// An IPv6 hosts-file rule (oracle-only campaigns).
		return fmt.Sprintf("2001:db8::%d %s", ver, ru.dom)
	case "C":
		return "||" + ru.dom + "^$client=" + ru.ip + "," + tag
	case "T":
		return "||" + ru.dom + "^$dnstype=A," + tag
	case "R":
		return fmt.Sprintf("|%s^$dnsrewrite=NOERROR;CNAME;safe-v%d.example.net", ru.dom, ver)
	}
	panic("bad rule kind")
}

func (ru rule) tok() string {
	if ru.kind == "C" {
		return "C|" + ru.dom + "|" + ru.ip
	}

	return ru.kind + "|" + ru.dom
}

func rulesText(rs []rule, ver int) string {
	b := &strings.Builder{}
	fmt.Fprintf(b, "! version %d\n", ver)
	for _, ru := range rs {
		b.WriteString(ru.text(ver) + "\n")
	}

	return b.String()
}

func isSuffixDom(host, dom string) bool { return host == dom || strings.HasSuffix(host, "."+dom) }

// evalRules is the direct evaluation of one list version of the generator's
// grammar: the token of the first (and by construction only) matching rule.
func evalRules(rs []rule, ver int, host, client string, sub int) string {
	for _, ru := range rs {
		ok := false
		switch ru.kind {
		case "B", "A":
			ok = isSuffixDom(host, ru.dom)
		case "C":
			ok = isSuffixDom(host, ru.dom) && client == ru.ip
		case "H":
			ok = host == ru.dom
		case "T":
			ok = isSuffixDom(host, ru.dom) && sub == 2
		case "R":
			ok = host == ru.dom
		}
		if ok {
			return fmt.Sprintf("%s:%s:%d", ru.kind, ru.dom, ver)
		}
	}

	return "none"
}

var (
	reNet   = regexp.MustCompile(`^(@@)?\|\|([a-z0-9.]+)\^\$(client=([0-9.]+),|dnstype=A,)?denyallow=v(\d+)\.invalid$`)
	reHosts = regexp.MustCompile(`^10\.0\.(\d+)\.(\d+) ([a-z0-9.]+)$`)
	reSafe  = regexp.MustCompile(`^safe-v(\d+)\.example\.net\.$`)
	reRewr  = regexp.MustCompile(`^\|([a-z0-9.]+)\^\$dnsrewrite=`)
)

// ruleTok turns the matched rule text back into the model's token.
func ruleTok(kindHint string, text string) string {
	if mm := reNet.FindStringSubmatch(text); mm != nil {
		k := "B"
		if mm[1] != "" {
			k = "A"
		} else if mm[4] != "" {
			k = "C"
		} else if mm[3] != "" {
			k = "T"
		}

		return fmt.Sprintf("%s:%s:%s", k, mm[2], mm[5])
	}
	if mm := reHosts.FindStringSubmatch(text); mm != nil {
		hi, _ := strconv.Atoi(mm[1])
		lo, _ := strconv.Atoi(mm[2])

		return fmt.Sprintf("H:%s:%d", mm[3], hi*256+lo)
	}

	return kindHint + ":?" + text
}

// msgCanon is the message text without the random ID.
func msgCanon(m *dns.Msg) string {
	if m == nil {
		return "<nil>"
	}
	c := m.Copy()
	c.Id = 0

	return c.String()
}

// resCanon is the full canonical text of a filtering result (for twin
// comparison): type, list, rule and message.
func resCanon(res filter.Result) string {
	switch v := res.(type) {
	case nil:
		return "none"
	case *filter.ResultAllowed:
		return fmt.Sprintf("allowed list=%s rule=%s", v.List, v.Rule)
	case *filter.ResultBlocked:
		return fmt.Sprintf("blocked list=%s rule=%s", v.List, v.Rule)
	case *filter.ResultModifiedRequest:
		return fmt.Sprintf("modreq list=%s rule=%s msg=%s", v.List, v.Rule, msgCanon(v.Msg))
	case *filter.ResultModifiedResponse:
		return fmt.Sprintf("modresp list=%s rule=%s msg=%s", v.List, v.Rule, msgCanon(v.Msg))
	}

	return fmt.Sprintf("unexpected %T", res)
}

// resTok is the model-level token of a rule-list/safe-search/custom result.
func resTok(res filter.Result) string {
	switch v := res.(type) {
	case nil:
		return "none"
	case *filter.ResultAllowed:
		if v.List == filter.IDBlockedService {
			return "A"
		}

		return ruleTok("A", string(v.Rule))
	case *filter.ResultBlocked:
		if v.List == filter.IDBlockedService {
			return "B"
		}

		return ruleTok("B", string(v.Rule))
	case *filter.ResultModifiedRequest:
		// Safe-search CNAME rewrite: the rule is the host; the version is in the
		// new question name.
		if mm := reSafe.FindStringSubmatch(v.Msg.Question[0].Name); mm != nil {
			return fmt.Sprintf("R:%s:%s", v.Rule, mm[1])
		}

		return "modreq:?" + v.Msg.Question[0].Name
	case *filter.ResultModifiedResponse:
		return "modresp:?"
	}

	return "?"
}

func newReq(host string, qt uint16, edns bool, p *profile, client string) *filter.Request {
	m := new(dns.Msg)
	m.SetQuestion(dns.Fqdn(host), qt)
	if edns {
		m.SetEdns0(1232, true)
	}

	return &filter.Request{
		DNS: m, Messages: p.cons, RemoteIP: netip.MustParseAddr(client), Host: host, QType: qt, QClass: dns.ClassINET,
	}
}

func newResp(qhost, target, client string) *filter.Response {
	m := new(dns.Msg)
	m.SetQuestion(dns.Fqdn(qhost), dns.TypeA)
	m.Response = true
	m.Answer = []dns.RR{&dns.CNAME{
		Hdr:    dns.RR_Header{Name: dns.Fqdn(qhost), Rrtype: dns.TypeCNAME, Class: dns.ClassINET, Ttl: 30},
		Target: dns.Fqdn(target),
	}}

	return &filter.Response{DNS: m, RemoteIP: netip.MustParseAddr(client)}
}

// ---------------------------------------------------------------------------
// Filter storage fixture.

type storeOpts struct {
	cached    bool
	cacheCnt  int
	customCnt int
	ruleLists []string
	services  bool
	safe      bool
	yt        bool // the YouTube safe-search filter as well (its own list and cache)
	adult     *hashprefix.Filter
	danger    *hashprefix.Filter
	mgr       *collectMgr
}

// store is one real filter storage with its cache directory.
type store struct {
	dir  string
	st   *filterstorage.Default
	mgr  *collectMgr
	errs *errColl
	opts storeOpts
}

const farStale = 10000 * time.Hour

func newStore(o storeOpts) (s *store) {
	dir, err := os.MkdirTemp(scratch, "st")
	hlib.Must(err)
	s = &store{dir: dir, mgr: o.mgr, errs: &errColl{}, opts: o}
	if s.mgr == nil {
		s.mgr = &collectMgr{}
	}
	hlib.Must(os.MkdirAll(filepath.Join(dir, "cache"), 0o755))

	// Index files are file URLs; list contents are served from fresh cache
	// files, so the (unreachable) download URLs are never used.
	var fls []map[string]any
	for _, id := range o.ruleLists {
		fls = append(fls, map[string]any{"filterKey": id, "downloadUrl": "http://127.0.0.1:1/" + id})
	}
	idx, _ := json.Marshal(map[string]any{"filters": fls})
	hlib.Must(os.WriteFile(filepath.Join(dir, "index.json"), idx, 0o644))
	hlib.Must(os.WriteFile(filepath.Join(dir, "services.json"), []byte(`{"blocked_services":[]}`), 0o644))

	ytConf := &filterstorage.ConfigSafeSearch{ID: filter.IDYoutubeSafeSearch, Enabled: false}
	if o.yt {
		ytConf = &filterstorage.ConfigSafeSearch{
			URL:              &url.URL{Scheme: "http", Host: "127.0.0.1:1", Path: "/yt"},
			ID:               filter.IDYoutubeSafeSearch,
			MaxSize:          1 << 20,
			ResultCacheTTL:   time.Hour,
			RefreshTimeout:   time.Second,
			Staleness:        farStale,
			ResultCacheCount: o.cacheCnt,
			Enabled:          true,
		}
	}
	c := &filterstorage.Config{
		BaseLogger: slogutil.NewDiscardLogger(),
		Logger:     slogutil.NewDiscardLogger(),
		BlockedServices: &filterstorage.ConfigBlockedServices{
			IndexURL:            &url.URL{Scheme: "file", Path: filepath.Join(dir, "services.json")},
			IndexMaxSize:        1 << 20,
			IndexRefreshTimeout: time.Second,
			IndexStaleness:      farStale,
			ResultCacheCount:    o.cacheCnt,
			ResultCacheEnabled:  o.cached,
			Enabled:             o.services,
		},
		Custom:     &filterstorage.ConfigCustom{CacheCount: o.customCnt},
		HashPrefix: &filterstorage.ConfigHashPrefix{Adult: o.adult, Dangerous: o.danger},
		RuleLists: &filterstorage.ConfigRuleLists{
			IndexURL:            &url.URL{Scheme: "file", Path: filepath.Join(dir, "index.json")},
			IndexMaxSize:        1 << 20,
			MaxSize:             1 << 20,
			IndexRefreshTimeout: time.Second,
			IndexStaleness:      farStale,
			RefreshTimeout:      time.Second,
			Staleness:           farStale,
			ResultCacheCount:    o.cacheCnt,
			ResultCacheEnabled:  o.cached,
		},
		SafeSearchGeneral: &filterstorage.ConfigSafeSearch{
			URL:              &url.URL{Scheme: "http", Host: "127.0.0.1:1", Path: "/ss"},
			ID:               filter.IDGeneralSafeSearch,
			MaxSize:          1 << 20,
			ResultCacheTTL:   time.Hour,
			RefreshTimeout:   time.Second,
			Staleness:        farStale,
			ResultCacheCount: o.cacheCnt,
			Enabled:          o.safe,
		},
		SafeSearchYouTube: ytConf,
		CacheManager:      s.mgr,
		Clock:             agdtime.SystemClock{},
		ErrColl:           s.errs,
		Metrics:           filter.EmptyMetrics{},
		CacheDir:          filepath.Join(dir, "cache"),
	}
	s.st, err = filterstorage.New(c)
	hlib.Must(err)

	return s
}

func (s *store) writeList(id, text string) {
	hlib.Must(os.WriteFile(filepath.Join(s.dir, "cache", id), []byte(text), 0o644))
}

func (s *store) writeServices(svcs map[string][]string) {
	var l []map[string]any
	for _, id := range hlib.SortedKeys(svcs) {
		l = append(l, map[string]any{"id": id, "rules": svcs[id]})
	}
	b, _ := json.Marshal(map[string]any{"blocked_services": l})
	hlib.Must(os.WriteFile(filepath.Join(s.dir, "services.json"), b, 0o644))
}

func (s *store) refresh(initial bool) {
	var err error
	if initial {
		err = s.st.RefreshInitial(context.Background())
	} else {
		err = s.st.Refresh(context.Background())
	}
	if err != nil {
		panic(fmt.Errorf("storage refresh: %w", err))
	}
	if errs := s.errs.take(); len(errs) > 0 {
		panic(fmt.Errorf("storage refresh collected errors: %v", errs))
	}
}

// filterReq runs one request through a filter built for conf.  When uncached
// is set every registered cache is emptied first.
func (s *store) filterReq(conf filter.Config, req *filter.Request, uncached bool) filter.Result {
	if uncached {
		s.mgr.clearAll()
	}
	f := s.st.ForConfig(context.Background(), conf)

	return guard(func() (filter.Result, error) { return f.FilterRequest(context.Background(), req) }, "FilterRequest")
}

// filterWith runs one request through a filter obtained earlier.
func (s *store) filterWith(f filter.Interface, req *filter.Request) filter.Result {
	return guard(func() (filter.Result, error) { return f.FilterRequest(context.Background(), req) }, "FilterRequest")
}

func (s *store) filterResp(conf filter.Config, resp *filter.Response, uncached bool) filter.Result {
	if uncached {
		s.mgr.clearAll()
	}
	f := s.st.ForConfig(context.Background(), conf)

	return guard(func() (filter.Result, error) { return f.FilterResponse(context.Background(), resp) }, "FilterResponse")
}

func clientConf(custom *filter.ConfigCustom, lists []string, svcs []string, safe, adult, danger bool) *filter.ConfigClient {
	if custom == nil {
		custom = &filter.ConfigCustom{Enabled: false}
	}
	var ids []filter.ID
	for _, l := range lists {
		ids = append(ids, filter.ID(l))
	}
	var sv []filter.BlockedServiceID
	for _, x := range svcs {
		sv = append(sv, filter.BlockedServiceID(x))
	}

	return &filter.ConfigClient{
		Custom: custom,
		Parental: &filter.ConfigParental{
			Enabled: safe || adult || len(sv) > 0, BlockedServices: sv, SafeSearchGeneralEnabled: safe,
			AdultBlockingEnabled: adult,
		},
		RuleList:     &filter.ConfigRuleList{IDs: ids, Enabled: len(ids) > 0},
		SafeBrowsing: &filter.ConfigSafeBrowsing{Enabled: danger, DangerousDomainsEnabled: danger},
	}
}

// genRules draws at most one rule per domain.
func genRules(rng *rand.Rand, kinds []string, withClient bool) (rs []rule) {
	for _, d := range domains {
		if rng.IntN(5) < 2 {
			continue
		}
		k := kinds[rng.IntN(len(kinds))]
		ru := rule{kind: k, dom: d}
		if withClient && rng.IntN(3) == 0 {
			ru.kind, ru.ip = "C", clients[rng.IntN(len(clients))]
		}
		rs = append(rs, ru)
	}

	return rs
}

// ---------------------------------------------------------------------------
// Single-list campaign: rule list / blocked service / safe search, one filter
// at a time, real storage (cached) vs uncached twin vs model vs direct
// evaluation.

type slOp struct {
	kind   string // refresh q qr hold qh
	rules  []rule
	rules2 []rule // mode ss2: the YouTube safe-search list
	ver    int
	client string
	host   string
	qt     uint16
	prof   int
	edns   bool
}

func (op slOp) String() string {
	switch op.kind {
	case "failrefresh":
		return "refresh that fails (list source empty and download refused / index unreadable)"
	case "refresh":
		toks := []string{}
		for _, ru := range op.rules {
			toks = append(toks, ru.tok())
		}

		if op.rules2 != nil {
			toks = append(toks, "/ youtube:")
			for _, ru := range op.rules2 {
				toks = append(toks, ru.tok())
			}
		}

		return fmt.Sprintf("refresh v%d %s", op.ver, strings.Join(toks, " "))
	case "q":
		return fmt.Sprintf("q %s %s qt=%d p%d edns=%v", op.client, op.host, op.qt, op.prof, op.edns)
	case "hold":
		return "hold"
	case "qh":
		return fmt.Sprintf("qh %s %s qt=%d p%d edns=%v", op.client, op.host, op.qt, op.prof, op.edns)
	default:
		return fmt.Sprintf("qr %s cname->%s", op.client, op.host)
	}
}

func singleListCampaign(o *hlib.Opts, r *hlib.Result, m *hlib.Model) {
	rng := o.Rand("single-list")
	n := 350
	if o.Thorough() {
		n = 2800
	}
	for i := 0; i < n; i++ {
		mode := []string{"rl", "svc", "ss", "rl", "svc", "ss", "ss2"}[i%7]
		withClient := !isSS(mode) && rng.IntN(4) == 0
		capn := []int{1, 2, 3, 100}[rng.IntN(4)]
		oneSingleList(r, m, rng, mode, capn, withClient, 10+rng.IntN(50))
	}
	if o.Thorough() {
		exhaustiveSingleList(r, m)
	}
}

// oneSingleList generates and runs one single-filter history and shrinks it
// when it fails.
func oneSingleList(r *hlib.Result, m *hlib.Model, rng *rand.Rand, mode string, capn int, withClient bool, length int) (fails string) {
	ops := genSingleList(rng, mode, withClient, length)
	nv, nd := len(r.Violations), len(r.Disagreements)
	fails = runSingleList(r, m, mode, capn, withClient, ops, true)
	if fails != "" {
		// Shrink the failing history for the replay.
		min := hlib.Shrink(ops, func(c []slOp) bool {
			return len(c) > 0 && c[0].kind == "refresh" && runSingleList(r, m, mode, capn, withClient, c, false) == fails
		})
		// Report the shrunk history instead of the original one.
		r.Violations, r.Disagreements = r.Violations[:nv], r.Disagreements[:nd]
		runSingleList(r, m, mode, capn, withClient, min, true)
	}

	return fails
}

// isSS reports whether the mode is one of the safe-search modes: "ss" (the
// general filter alone) or "ss2" (the general and the YouTube filter together,
// each with its own list and its own result cache).
func isSS(mode string) bool { return mode == "ss" || mode == "ss2" }

func genSingleList(rng *rand.Rand, mode string, withClient bool, length int) (ops []slOp) {
	kinds := []string{"B", "B", "A", "H", "T"}
	if isSS(mode) {
		kinds = []string{"R"}
	} else if mode == "svc" {
		kinds = []string{"B", "B", "A", "T"}
	}
	ver := 1
	held := false
	refresh := func() slOp {
		op := slOp{kind: "refresh", ver: ver, rules: genRules(rng, kinds, withClient)}
		if mode == "ss2" {
			op.rules2 = append([]rule{}, genRules(rng, kinds, false)...)
		}

		return op
	}
	ops = append(ops, refresh())
	for len(ops) < length {
		switch x := rng.IntN(20); {
		case x < 3:
			if rng.IntN(4) == 0 {
				// Fault path: the refresh fails, the previous list (engine and
				// cache together) must stay in force.
				ops = append(ops, slOp{kind: "failrefresh"})

				continue
			}
			ver++
			ops = append(ops, refresh())
		case x < 6 && !isSS(mode):
			ops = append(ops, slOp{kind: "qr", client: clients[rng.IntN(2)], host: hosts[rng.IntN(len(hosts))]})
		case x < 8:
			// A request that obtained its filter earlier (possibly before a
			// refresh) and uses it now.
			if !held || rng.IntN(3) == 0 {
				held = true
				ops = append(ops, slOp{kind: "hold"})
			} else {
				ops = append(ops, slOp{
					kind: "qh", client: clients[rng.IntN(2)], host: hosts[rng.IntN(len(hosts))],
					qt: qtypes[rng.IntN(len(qtypes))], prof: rng.IntN(len(profiles)), edns: rng.IntN(2) == 0,
				})
			}
		default:
			ops = append(ops, slOp{
				kind: "q", client: clients[rng.IntN(2)], host: hosts[rng.IntN(len(hosts))],
				qt: qtypes[rng.IntN(len(qtypes))], prof: rng.IntN(len(profiles)), edns: rng.IntN(2) == 0,
			})
		}
	}

	return ops
}

func slStoreOpts(mode string, cached bool, capn int) storeOpts {
	so := storeOpts{cached: cached, cacheCnt: capn, customCnt: 10}
	switch mode {
	case "rl":
		so.ruleLists = []string{"rl1"}
	case "svc":
		so.services = true
	case "ss":
		so.safe = true
	case "ss2":
		so.safe, so.yt = true, true
	}

	return so
}

func slApplyRefresh(s *store, mode string, op slOp, initial bool) {
	switch mode {
	case "rl":
		s.writeList("rl1", rulesText(op.rules, op.ver))
	case "svc":
		var lines []string
		for _, ru := range op.rules {
			lines = append(lines, ru.text(op.ver))
		}
		lines = append(lines, "||never.invalid^")
		s.writeServices(map[string][]string{"svc1": lines})
	case "ss", "ss2":
		s.writeList(string(filter.IDGeneralSafeSearch), rulesText(op.rules, op.ver))
		if mode == "ss2" {
			s.writeList(string(filter.IDYoutubeSafeSearch), rulesText(op.rules2, op.ver))
		}
	}
	s.refresh(initial)
}

// slApplyFailedRefresh makes the source of the filter unusable and refreshes: an
// empty cache file sends a rule list or a safe-search list to its download URL,
// where the connection is refused; the blocked-service index is a file URL and
// gets unreadable JSON.  The refresh must report the failure.
func slApplyFailedRefresh(s *store, mode string) {
	switch mode {
	case "rl":
		s.writeList("rl1", "")
	case "svc":
		hlib.Must(os.WriteFile(filepath.Join(s.dir, "services.json"), []byte("{not json"), 0o644))
	case "ss", "ss2":
		s.writeList(string(filter.IDGeneralSafeSearch), "")
		if mode == "ss2" {
			s.writeList(string(filter.IDYoutubeSafeSearch), "")
		}
	}
	err := s.st.Refresh(context.Background())
	if errs := s.errs.take(); err == nil && len(errs) == 0 {
		panic(fmt.Errorf("storage refresh from an unusable source (%s) reported no error", mode))
	}
}

func slConf(mode string) *filter.ConfigClient {
	switch mode {
	case "rl":
		return clientConf(nil, []string{"rl1"}, nil, false, false, false)
	case "svc":
		return clientConf(nil, nil, []string{"svc1"}, false, false, false)
	case "ss2":
		cc := clientConf(nil, nil, nil, true, false, false)
		cc.Parental.SafeSearchYouTubeEnabled = true

		return cc
	default:
		return clientConf(nil, nil, nil, true, false, false)
	}
}

// runSingleList runs one history.  It returns the signature of the first
// failure ("" if none); when record is false nothing is written to r.
func runSingleList(r *hlib.Result, m *hlib.Model, mode string, capn int, withClient bool, ops []slOp, record bool) (fail string) {
	m.ResetLog()
	a := newStore(slStoreOpts(mode, true, capn))
	b := newStore(slStoreOpts(mode, false, capn))
	defer os.RemoveAll(a.dir)
	defer os.RemoveAll(b.dir)
	conf := slConf(mode)

	// In safe-search mode the cache is always on; in the other modes the model
	// is told the real capacity.
	lines := []string{fmt.Sprintf("rl new 1 %d", capn)}
	type obs struct {
		line         int
		got, twin    string
		tok, want    string
		canonA, canB string
	}
	var seen []obs
	var cur slOp
	var heldFlt filter.Interface
	heldAt := -1
	first := true
	nFiltered, nNone, nRefresh, nHeldOld, nFailRefresh := 0, 0, 0, 0, 0
	for _, op := range ops {
		switch op.kind {
		case "refresh":
			slApplyRefresh(a, mode, op, first)
			slApplyRefresh(b, mode, op, first)
			first = false
			cur = op
			nRefresh++
			toks := []string{}
			for _, ru := range op.rules {
				toks = append(toks, ru.tok())
			}
			lines = append(lines, strings.TrimSpace(fmt.Sprintf("rl refresh %d %s", op.ver, strings.Join(toks, " "))))
		case "failrefresh":
			if first {
				continue
			}
			slApplyFailedRefresh(a, mode)
			slApplyFailedRefresh(b, mode)
			nFailRefresh++
		case "hold":
			heldFlt, heldAt = a.st.ForConfig(context.Background(), conf), nRefresh
		case "q", "qh":
			p := profiles[op.prof]
			var ra filter.Result
			if op.kind == "qh" {
				if heldFlt == nil {
					continue
				}
				ra = a.filterWith(heldFlt, newReq(op.host, op.qt, op.edns, p, op.client))
				if !isSS(mode) && heldAt != nRefresh {
					// The filter object was replaced by a refresh: the in-flight
					// request may still see the old list, and it must not leave
					// anything behind for later requests.
					nHeldOld++

					continue
				}
			} else {
				ra = a.filterReq(conf, newReq(op.host, op.qt, op.edns, p, op.client), false)
			}
			rb := b.filterReq(conf, newReq(op.host, op.qt, op.edns, p, op.client), true)
			ob := obs{line: -1, tok: resTok(ra), canonA: resCanon(ra), canB: resCanon(rb)}
			ob.line = len(lines)
			if isSS(mode) {
				// Direct evaluation: only A, AAAA and HTTPS questions are rewritten;
				// the general list is asked first, then the YouTube one.
				ob.want = "none"
				if op.qt == dns.TypeA || op.qt == dns.TypeAAAA || op.qt == dns.TypeHTTPS {
					ob.want = evalRules(cur.rules, cur.ver, op.host, op.client, 2*int(op.qt))
					if ob.want == "none" && mode == "ss2" {
						ob.want = evalRules(cur.rules2, cur.ver, op.host, op.client, 2*int(op.qt))
					}
				}
				if mode == "ss2" {
					// Two filters with two caches: oracle only, the model driver has
					// one rule-list instance.
					ob.line = -1
				} else {
					lines = append(lines, fmt.Sprintf("ss q %s %s %d", op.client, op.host, op.qt))
				}
			} else {
				ob.want = evalRules(cur.rules, cur.ver, op.host, op.client, 2*int(op.qt))
				lines = append(lines, fmt.Sprintf("rl q %s %s %d", op.client, op.host, 2*int(op.qt)))
			}
			seen = append(seen, ob)
		case "qr":
			ra := a.filterResp(conf, newResp("q.example.net", op.host, op.client), false)
			rb := b.filterResp(conf, newResp("q.example.net", op.host, op.client), true)
			ob := obs{line: len(lines), tok: resTok(ra), canonA: resCanon(ra), canB: resCanon(rb)}
			ob.want = evalRules(cur.rules, cur.ver, op.host, op.client, 2*int(dns.TypeCNAME)+1)
			lines = append(lines, fmt.Sprintf("rl q %s %s %d", op.client, op.host, 2*int(dns.TypeCNAME)+1))
			seen = append(seen, ob)
		}
	}
	answers := m.Batch(lines)
	replay := func() any {
		var s []string
		for _, op := range ops {
			s = append(s, op.String())
		}

		return withNote(map[string]any{"campaign": "single-list", "mode": mode, "cache_count": capn, "ops": s})
	}
	for _, ob := range seen {
		if ob.tok == "none" {
			nNone++
		} else {
			nFiltered++
		}
		want := ob.want
		tok := ob.tok
		if mode == "svc" {
			// The rule of a blocked-service result is the service ID.
			want = strings.NewReplacer("C", "B", "T", "B").Replace(strings.SplitN(want, ":", 2)[0])
		}
		// Property oracle first (only for lists without client-specific rules).
		if isPanic(ob.canonA) && fail == "" {
			fail = "filter-panics-" + mode
			if record {
				r.Violate(fail, "the filter panicked: "+ob.canonA, replay())
			}
		}
		if !withClient {
			if ob.canonA != ob.canB && fail == "" {
				fail = "cache-changes-verdict-" + mode
				if record {
					r.Violate(fail, fmt.Sprintf("with caches: %s; without: %s", ob.canonA, ob.canB), replay())
				}
			}
			if tok != want && fail == "" {
				fail = "answer-not-from-current-version-" + mode
				if record {
					r.Violate(fail, fmt.Sprintf("answer %s, current list version gives %s", tok, want), replay())
				}
			}
		}
		if ob.line >= 0 {
			mt := answers[ob.line]
			if mode == "svc" {
				mt = strings.NewReplacer("C", "B", "T", "B").Replace(strings.SplitN(mt, ":", 2)[0])
			}
			if mt != tok && fail == "" {
				fail = "disagree-" + mode
				if record {
					r.Disagree(fail, fmt.Sprintf("model %s, implementation %s at %q", mt, tok, lines[ob.line]), replay())
				}
			}
		}
	}
	if record {
		r.Count("single." + mode)
		if withClient {
			r.Count("single.with_client_rules")
		}
		r.Count(fmt.Sprintf("single.cap_%d", capn))
		r.Distribution["single.answers_filtered"] += nFiltered
		r.Distribution["single.answers_none"] += nNone
		r.Distribution["single.refreshes"] += nRefresh
		r.Distribution["single.failed_refreshes"] += nFailRefresh
		r.Distribution["single.requests_with_replaced_filter"] += nHeldOld
		r.ModelOps += len(lines)
		r.Traces++
		r.Case(strings.Join(lines, "\n"), nRefresh > 1 && nFiltered > 0 && nNone > 0)
		r.Sample(map[string]any{"campaign": "single-list", "mode": mode, "ops": lines[:min(len(lines), 8)]}, 3)
	}

	return fail
}

// exhaustiveSingleList enumerates every history of length ≤ 5 over a 2-host,
// 2-client, 2-version alphabet with a capacity-1 cache (thorough tier).
func exhaustiveSingleList(r *hlib.Result, m *hlib.Model) {
	v1 := []rule{{kind: "B", dom: "a.example.com"}}
	v2 := []rule{{kind: "A", dom: "a.example.com"}, {kind: "H", dom: "b.example.com"}}
	alphabet := []slOp{
		{kind: "refresh", ver: 2, rules: v2},
		{kind: "refresh", ver: 3, rules: v1},
		{kind: "q", client: "1.1.1.1", host: "a.example.com", qt: dns.TypeA},
		{kind: "q", client: "2.2.2.2", host: "b.example.com", qt: dns.TypeA},
		{kind: "q", client: "2.2.2.2", host: "a.example.com", qt: dns.TypeAAAA},
		{kind: "qr", client: "1.1.1.1", host: "a.example.com"},
	}
	for length := 1; length <= 4; length++ {
		total := 1
		for j := 0; j < length; j++ {
			total *= len(alphabet)
		}
		for code := 0; code < total; code++ {
			ops := []slOp{{kind: "refresh", ver: 1, rules: v1}}
			c := code
			for j := 0; j < length; j++ {
				ops = append(ops, alphabet[c%len(alphabet)])
				c /= len(alphabet)
			}
			runSingleList(r, m, "rl", 1, false, ops, true)
		}
	}
	r.Count("single.exhaustive_len4_done")
}
