package main

import (
	"fmt"
	"math/bits"
	"math/rand/v2"
	"slices"
	"strconv"

	"github.com/AdguardTeam/AdGuardDNS/internal/filter"
	"github.com/AdguardTeam/AdGuardDNS/verifh/hlib"
	"github.com/miekg/dns"
)

// ---------------------------------------------------------------------------
// Key-collision campaign.
//
// The result caches of the rule-list, blocked-service, safe-search and
// hash-prefix filters are keyed by a maphash sum of (host, type, class, answer
// flag) under a per-process random seed; the cached item carries the host and
// every hit compares it.  Whether two inputs share a key cannot be chosen by a
// generator, so the campaign asks the real key function (VerifC12CacheKey) for
// the keys of a large pool of generated names and looks for
//
//   - two different hosts with the same key for the same (type, answer flag)
//     (what the host comparison in itemFromCache must catch), and
//   - one host whose keys for two different (type, answer flag) tuples agree
//     (what nothing in the item can catch: the assumption HashOK of the model).
//
// Every pair found is then driven through the ordinary single-filter and
// hash-prefix machinery (cached storage, uncached twin, direct evaluation of the
// current list version, model) with host, domain and type pools built around the
// pair.  With honest 64-bit keys the search finds nothing (probability ≈ n²/2⁶⁵)
// and the campaign is a no-op that records how many names it tried; any key that
// keeps ≲ 40 bits of the sum makes it find pairs.

// collTuple is the part of the key besides the host.
type collTuple struct {
	qt    uint16
	isAns bool
}

// collPair is a key collision found by the search.
type collPair struct {
	u, v   string // hosts (equal for a same-host collision)
	tu, tv collTuple
	key    uint64
}

func (p collPair) String() string {
	return fmt.Sprintf("key %#x: (%s qt=%d ans=%v) = (%s qt=%d ans=%v)", p.key, p.u, p.tu.qt, p.tu.isAns, p.v, p.tv.qt, p.tv.isAns)
}

// replayNote is added to the replay of every case run while it is set.
var replayNote string

func withNote(m map[string]any) map[string]any {
	if replayNote != "" {
		m["note"] = replayNote
	}

	return m
}

// collNames generates n distinct host names under three registrable domains;
// the tag makes the pool differ between seeds.
func collNames(rng *rand.Rand, n int) (names []string) {
	tag := string([]byte{byte('a' + rng.IntN(26)), byte('a' + rng.IntN(26))})
	parents := []string{".example.com", ".example.org", ".example.net"}
	names = make([]string, n)
	buf := make([]byte, 0, 32)
	for i := range names {
		buf = append(buf[:0], tag...)
		buf = strconv.AppendInt(buf, int64(i), 36)
		buf = append(buf, parents[i%len(parents)]...)
		names[i] = string(buf)
	}

	return names
}

// crossHostCollisions returns the pairs of different names whose keys for tuple
// t agree.
func crossHostCollisions(names []string, t collTuple, limit int) (pairs []collPair, orAll uint64) {
	type kv struct {
		k uint64
		i uint32
	}
	kvs := make([]kv, len(names))
	for i, nm := range names {
		kvs[i] = kv{k: filter.VerifC12CacheKey(nm, t.qt, dns.ClassINET, t.isAns), i: uint32(i)}
		orAll |= kvs[i].k
	}
	slices.SortFunc(kvs, func(a, b kv) int {
		switch {
		case a.k < b.k:
			return -1
		case a.k > b.k:
			return 1
		}

		return int(a.i) - int(b.i)
	})
	for j := 1; j < len(kvs) && len(pairs) < limit; j++ {
		if kvs[j].k == kvs[j-1].k {
			pairs = append(pairs, collPair{u: names[kvs[j-1].i], v: names[kvs[j].i], tu: t, tv: t, key: kvs[j].k})
		}
	}

	return pairs, orAll
}

// sameHostCollisions returns, for each name, the pairs of tuples whose keys
// agree.
func sameHostCollisions(names []string, tuples []collTuple, limit int) (pairs []collPair) {
	keys := make([]uint64, len(tuples))
	for _, nm := range names {
		for j, t := range tuples {
			keys[j] = filter.VerifC12CacheKey(nm, t.qt, dns.ClassINET, t.isAns)
		}
		for a := 0; a < len(tuples); a++ {
			for b := a + 1; b < len(tuples); b++ {
				if keys[a] == keys[b] {
					pairs = append(pairs, collPair{u: nm, v: nm, tu: tuples[a], tv: tuples[b], key: keys[a]})
				}
			}
		}
		if len(pairs) >= limit {
			break
		}
	}

	return pairs
}

// withPools runs f with the generators' host, domain and type pools replaced.
func withPools(doms, hs []string, qts []uint16, f func()) {
	od, oh, oq := domains, hosts, qtypes
	domains, hosts, qtypes = doms, hs, qts
	defer func() { domains, hosts, qtypes = od, oh, oq }()
	f()
}

func collisionCampaign(o *hlib.Opts, r *hlib.Result, m *hlib.Model) {
	rng := o.Rand("collide")
	n, perPair, maxPairs := 2_000_000, 6, 12
	if o.Thorough() {
		n, perPair, maxPairs = 4_000_000, 8, 40
	}
	names := collNames(rng, n)
	// The tuples the harness can drive: questions of the filtered types and
	// CNAME answers.
	cross := []collTuple{{dns.TypeA, false}, {dns.TypeAAAA, false}, {dns.TypeHTTPS, false}, {dns.TypeCNAME, true}}
	var pairs []collPair
	for i, t := range cross {
		// The full pool for type A; a quarter of it for the others.
		pool := names
		if i > 0 {
			pool = names[:n/4]
		}
		ps, orAll := crossHostCollisions(pool, t, maxPairs)
		if i == 0 {
			// The model's trusted base is a 64-bit key: the union of a million
			// keys has every bit set unless the key type or a mask dropped some.
			width := bits.Len64(orAll)
			r.Distribution["collide.key_bits_observed"] = width
			if width < 64 || bits.OnesCount64(orAll) < 64 {
				r.Disagree("cache-key-narrower-than-64-bits", fmt.Sprintf("the union of %d cache keys is %#x: the key keeps "+
					"%d of the 64 bits of the hash sum; the model assumes a 64-bit key", len(pool), orAll, bits.OnesCount64(orAll)),
					map[string]any{"campaign": "collision", "sample_host": pool[0],
						"sample_key": fmt.Sprintf("%#x", filter.VerifC12CacheKey(pool[0], t.qt, dns.ClassINET, t.isAns))})
			}
		}
		r.Distribution["collide.keys_computed"] += len(pool)
		r.Distribution[fmt.Sprintf("collide.cross_host_pairs_qt%d_ans%v", t.qt, t.isAns)] += len(ps)
		pairs = append(pairs, ps...)
	}
	var all []collTuple
	seenT := map[collTuple]bool{}
	for _, qt := range append(append([]uint16{}, qtypes...), dns.TypeA, dns.TypeAAAA, dns.TypeCNAME) {
		for _, ans := range []bool{false, true} {
			if t := (collTuple{qt, ans}); !seenT[t] {
				seenT[t] = true
				all = append(all, t)
			}
		}
	}
	same := sameHostCollisions(names[:n/8], all, maxPairs)
	r.Distribution["collide.keys_computed"] += n / 8 * len(all)
	r.Distribution["collide.same_host_pairs"] += len(same)
	pairs = append(pairs, same...)
	r.Evaluations += len(cross) + 1
	if len(pairs) == 0 {
		r.Count("collide.no_collision_found")

		return
	}
	rng.Shuffle(len(pairs), func(i, j int) { pairs[i], pairs[j] = pairs[j], pairs[i] })
	if len(pairs) > maxPairs {
		pairs = pairs[:maxPairs]
	}
	for _, p := range pairs {
		runCollisionPair(r, m, rng, p, perPair)
	}
}

// runCollisionPair runs single-filter and hash-prefix histories whose pools are
// built around one colliding pair.
func runCollisionPair(r *hlib.Result, m *hlib.Model, rng *rand.Rand, p collPair, perPair int) {
	replayNote = "colliding cache keys found by searching generated names with the real key function under this " +
		"process's maphash seed (another process has to search again): " + p.String()
	defer func() { replayNote = "" }()
	doms := []string{p.u, p.v, "c.example.org"}
	hs := []string{p.u, p.v, p.u, p.v, "www." + p.u, "c.example.org"}
	if p.u == p.v {
		doms = []string{p.u, "c.example.org"}
		hs = []string{p.u, p.u, p.u, "www." + p.u, "c.example.org"}
	}
	qts := []uint16{p.tu.qt, p.tv.qt, p.tu.qt, p.tv.qt, p.tu.qt, p.tv.qt, dns.TypeA, dns.TypeTXT}
	withPools(doms, hs, qts, func() {
		for i := 0; i < perPair; i++ {
			capn := []int{1, 2, 100}[rng.IntN(3)]
			mode := []string{"rl", "svc", "ss"}[i%3]
			oneSingleList(r, m, rng, mode, capn, false, 16+rng.IntN(30))
			r.Count("collide.single_list_cases")
			if !p.tu.isAns && !p.tv.isAns {
				rep := []string{"ip4", "host", "ip6"}[i%3]
				oneHP(r, m, rng, rep, capn, 16+rng.IntN(30))
				r.Count("collide.hashprefix_cases")
			}
		}
	})
}
