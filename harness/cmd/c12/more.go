package main

import (
	"context"
	"fmt"
	"math/rand/v2"
	"os"
	"regexp"
	"strconv"
	"strings"
	"sync"
	"sync/atomic"
	"time"

	"github.com/AdguardTeam/AdGuardDNS/internal/filter"
	"github.com/AdguardTeam/AdGuardDNS/verifh/hlib"
	"github.com/miekg/dns"
)

// ---------------------------------------------------------------------------
// Custom-filter cache campaign.

type cuOp struct {
	kind    string // update q
	prof    int
	host    string
	bump    int64 // nanoseconds added to UpdateTime by an update
	enabled bool // new enabled flag of an update
	doms    []string
	old     bool // query with the previous configuration of the profile (an in-flight request)
}

func (op cuOp) String() string {
	if op.kind == "update" {
		return fmt.Sprintf("update c%d +%dns enabled=%v %s", op.prof, op.bump, op.enabled, strings.Join(op.doms, " "))
	}

	return fmt.Sprintf("q c%d %s old=%v", op.prof, op.host, op.old)
}

// cuBase is the UpdateTime of the initial configurations, in nanoseconds.
const cuBase int64 = 1_700_000_000_000_000_000

// cuUnits are the granularities of UpdateTime steps: the storage compares
// instants, so an update one nanosecond later is a later version just like one
// a second or an hour later.
var cuUnits = []int64{1, 1, 999, 1_000, 1_000_000, 999_999_999, 1_000_000_000, 3_600_000_000_000}

type cuConf struct {
	upd     int64 // nanoseconds since the epoch
	ver     int
	doms    []string
	enabled bool
}

func (c cuConf) toConf(id string) *filter.ConfigCustom {
	var rules []filter.RuleText
	for _, d := range c.doms {
		rules = append(rules, filter.RuleText(rule{kind: "B", dom: d}.text(c.ver)))
	}

	// Alternate the location: the instant is what counts.
	t := time.Unix(0, c.upd)
	if c.ver%2 == 0 {
		t = t.In(time.FixedZone("x", 3*3600))
	} else {
		t = t.UTC()
	}

	return &filter.ConfigCustom{ID: id, UpdateTime: t, Rules: rules, Enabled: c.enabled}
}

// cuDistinct makes genCU draw histories in which the update times of a profile
// go back and forth but never repeat (runCU moves a repeated time on), and in
// which in-flight requests still carry the previous configuration.  Since the
// storage compares the times for equality, the oracle judges these as well.
var cuDistinct = false

func genCU(rng *rand.Rand, versioned bool, length int) (ops []cuOp) {
	if cuDistinct {
		for len(ops) < length {
			p := rng.IntN(3)
			if rng.IntN(4) == 0 {
				var doms []string
				for _, d := range domains {
					if rng.IntN(2) == 0 {
						doms = append(doms, d)
					}
				}
				bump := int64(rng.IntN(7)-3) * cuUnits[rng.IntN(len(cuUnits))]
				ops = append(ops, cuOp{kind: "update", prof: p, bump: bump, enabled: rng.IntN(6) != 0, doms: doms})
			} else {
				ops = append(ops, cuOp{kind: "q", prof: p, host: hosts[rng.IntN(len(hosts))], old: rng.IntN(5) == 0})
			}
		}

		return ops
	}

	for len(ops) < length {
		p := rng.IntN(3)
		if rng.IntN(5) == 0 {
			var doms []string
			for _, d := range domains {
				if rng.IntN(2) == 0 {
					doms = append(doms, d)
				}
			}
			unit := cuUnits[rng.IntN(len(cuUnits))]
			bump := int64(1+rng.IntN(3)) * unit
			if !versioned && rng.IntN(2) == 0 {
				bump = -int64(rng.IntN(2)) * unit
			}
			ops = append(ops, cuOp{kind: "update", prof: p, bump: bump, enabled: rng.IntN(6) != 0, doms: doms})
		} else {
			ops = append(ops, cuOp{kind: "q", prof: p, host: hosts[rng.IntN(len(hosts))], old: !versioned && rng.IntN(6) == 0})
		}
	}

	return ops
}

// cuIDSets are the profile IDs of a case: plain ones, IDs that differ only in
// the case of their letters (profile IDs are case-sensitive), and IDs that are
// prefixes of each other.
var cuIDSets = [][3]string{
	{"c0", "c1", "c2"},
	{"ab12CD34", "AB12cd34", "ab12cd34"},
	{"p1", "p10", "p100"},
	{"c0", "c1", "c2"},
	{"Zq7", "zq7", "zQ7"},
}

var cuIDs = cuIDSets[0]

func customCampaign(o *hlib.Opts, r *hlib.Result, m *hlib.Model) {
	rng := o.Rand("custom")
	n := 250
	if o.Thorough() {
		n = 2000
	}
	for i := 0; i < n; i++ {
		versioned := i%3 != 0
		cuDistinct = i%3 == 2
		capn := []int{1, 2, 100}[rng.IntN(3)]
		cuIDs = cuIDSets[i%len(cuIDSets)]
		ops := genCU(rng, versioned, 10+rng.IntN(50))
		fail := runCU(r, m, versioned, capn, ops, true)
		if fail != "" {
			min := hlib.Shrink(ops, func(c []cuOp) bool { return runCU(r, m, versioned, capn, c, false) == fail })
			runCU(r, m, versioned, capn, min, true)
		}
	}
	cuIDs = cuIDSets[0]
	cuDistinct = false
	if o.Thorough() {
		exhaustiveCU(r, m)
	}
}

// exhaustiveCU enumerates every versioned history of length ≤ 4 over a small
// alphabet: updates of one profile that are one nanosecond or one second later,
// a disabling update, queries by the updated and by another profile that
// competes for the single cache slot.
func exhaustiveCU(r *hlib.Result, m *hlib.Model) {
	alphabet := []cuOp{
		{kind: "update", prof: 0, bump: 1, enabled: true, doms: []string{"b.example.com"}},
		{kind: "update", prof: 0, bump: 1_000_000_000, enabled: true, doms: []string{"a.example.com", "c.example.org"}},
		{kind: "update", prof: 0, bump: 999, enabled: false, doms: []string{"a.example.com"}},
		{kind: "q", prof: 0, host: "www.a.example.com"},
		{kind: "q", prof: 0, host: "b.example.com"},
		{kind: "q", prof: 1, host: "b.example.com"},
	}
	n := 0
	for length := 1; length <= 4; length++ {
		total := 1
		for j := 0; j < length; j++ {
			total *= len(alphabet)
		}
		for code := 0; code < total; code++ {
			var ops []cuOp
			c := code
			for j := 0; j < length; j++ {
				ops = append(ops, alphabet[c%len(alphabet)])
				c /= len(alphabet)
			}
			runCU(r, m, true, 1, ops, true)
			n++
		}
	}
	r.Distribution["custom.exhaustive_len4"] += n
}

func runCU(r *hlib.Result, m *hlib.Model, versioned bool, capn int, ops []cuOp, record bool) (fail string) {
	m.ResetLog()
	a := newStore(storeOpts{cached: true, cacheCnt: 10, customCnt: capn})
	b := newStore(storeOpts{cached: false, cacheCnt: 10, customCnt: capn})
	defer os.RemoveAll(a.dir)
	defer os.RemoveAll(b.dir)
	a.refresh(true)
	b.refresh(true)
	cur := [3]cuConf{}
	prev := [3]cuConf{}
	nextVer := 0
	for i := range cur {
		nextVer++
		cur[i] = cuConf{upd: cuBase, ver: nextVer, doms: []string{domains[i]}, enabled: true}
		prev[i] = cur[i]
	}
	lines := []string{fmt.Sprintf("cu new %d", capn)}
	type obs struct {
		line       int
		tok, want  string
		canA, canB string
		what       string
	}
	var seen []obs
	nFiltered, nNone, nUpd, nBack := 0, 0, 0, 0
	usedUpd := [3]map[int64]bool{{cuBase: true}, {cuBase: true}, {cuBase: true}}
	for _, op := range ops {
		if op.kind == "update" {
			prev[op.prof] = cur[op.prof]
			nextVer++
			upd := cur[op.prof].upd + op.bump
			for cuDistinct && usedUpd[op.prof][upd] {
				upd++
			}
			usedUpd[op.prof][upd] = true
			if upd < cur[op.prof].upd {
				nBack++
			}
			cur[op.prof] = cuConf{upd: upd, ver: nextVer, doms: op.doms, enabled: op.enabled}
			nUpd++

			continue
		}
		c := cur[op.prof]
		if op.old {
			c = prev[op.prof]
		}
		id := cuIDs[op.prof]
		conf := clientConf(c.toConf(id), nil, nil, false, false, false)
		ra := a.filterReq(conf, newReq(op.host, dns.TypeA, false, profiles[0], "1.1.1.1"), false)
		confB := clientConf(c.toConf(id), nil, nil, false, false, false)
		rb := b.filterReq(confB, newReq(op.host, dns.TypeA, false, profiles[0], "1.1.1.1"), true)
		want := "none"
		if c.enabled {
			var rs []rule
			for _, d := range c.doms {
				rs = append(rs, rule{kind: "B", dom: d})
			}
			want = evalRules(rs, c.ver, op.host, "1.1.1.1", 2)
		}
		seen = append(seen, obs{line: len(lines), tok: resTok(ra), want: want, canA: resCanon(ra), canB: resCanon(rb), what: op.String()})
		lines = append(lines, strings.TrimSpace(fmt.Sprintf("cu q %s %d %d %d %s %s", id, c.upd, b2i(c.enabled), c.ver, op.host, strings.Join(c.doms, " "))))
	}
	answers := m.Batch(lines)
	replay := func() any {
		var s []string
		for _, op := range ops {
			s = append(s, op.String())
		}

		return map[string]any{"campaign": "custom", "cache_count": capn, "update_time_strictly_increasing": versioned && !cuDistinct,
			"update_times_distinct_per_version": versioned,
			"profile_ids": map[string]string{"c0": cuIDs[0], "c1": cuIDs[1], "c2": cuIDs[2]}, "ops": s}
	}
	for _, ob := range seen {
		if ob.tok == "none" {
			nNone++
		} else {
			nFiltered++
		}
		// Property oracle: only for histories in which every update advances
		// UpdateTime (what the profile database delivers).
		if versioned {
			if ob.canA != ob.canB && fail == "" {
				fail = "custom-cache-changes-verdict"
				if record {
					r.Violate(fail, fmt.Sprintf("%s: with cache %s; without %s", ob.what, ob.canA, ob.canB), replay())
				}
			}
			if ob.tok != ob.want && fail == "" {
				fail = "custom-answer-from-old-rules"
				if record {
					r.Violate(fail, fmt.Sprintf("%s: answer %s, the profile's current rules give %s", ob.what, ob.tok, ob.want), replay())
				}
			}
		}
		if answers[ob.line] != ob.tok && fail == "" {
			fail = "disagree-custom"
			if record {
				r.Disagree(fail, fmt.Sprintf("model %q, implementation %q at %q", answers[ob.line], ob.tok, lines[ob.line]), replay())
			}
		}
	}
	if record {
		r.Count(fmt.Sprintf("custom.versioned_%v", versioned))
		r.Count(fmt.Sprintf("custom.times_go_back_%v", cuDistinct))
		r.Distribution["custom.updates_with_earlier_time"] += nBack
		r.Count("custom.ids_" + cuIDs[0])
		r.Count(fmt.Sprintf("custom.cap_%d", capn))
		r.Distribution["custom.answers_filtered"] += nFiltered
		r.Distribution["custom.answers_none"] += nNone
		r.Distribution["custom.updates"] += nUpd
		r.ModelOps += len(lines)
		r.Traces++
		r.Case(strings.Join(lines, "\n"), nUpd > 0 && nFiltered > 0 && nNone > 0)
		r.Sample(map[string]any{"campaign": "custom", "ops": lines[:min(len(lines), 6)]}, 8)
	}

	return fail
}

// ---------------------------------------------------------------------------
// Full-storage campaign: every filter at once, cached storage vs uncached twin
// and the version tags of the answers.  Oracle only (precedence between filters
// is C02's subject; here only cache transparency and freshness are judged).

type fullWorld struct {
	a, b     *store
	hpA, hpB [2]*hpFilter // adult (host replacement), dangerous (IPv4 replacement)
	listVer  map[string]int
	lists    map[string][]rule
	svcs     map[string][]rule
	svcVer   int
	ssRules  []rule
	ytRules  []rule // YouTube safe search; versioned together with ssRules
	hpDoms   [2][]string
	custom   [3]cuConf
}

var reVerTag = regexp.MustCompile(`denyallow=v(\d+)\.invalid`)

func (w *fullWorld) writeAll(s *store) {
	for id, rs := range w.lists {
		s.writeList(id, rulesText(rs, w.listVer[id]))
	}
	s.writeList(string(filter.IDGeneralSafeSearch), rulesText(w.ssRules, w.listVer["ss"]))
	s.writeList(string(filter.IDYoutubeSafeSearch), rulesText(w.ytRules, w.listVer["ss"]))
	sv := map[string][]string{}
	for id, rs := range w.svcs {
		lines := []string{"||never.invalid^"}
		for _, ru := range rs {
			lines = append(lines, ru.text(w.svcVer))
		}
		sv[id] = lines
	}
	s.writeServices(sv)
}

func storageCampaign(o *hlib.Opts, r *hlib.Result) {
	rng := o.Rand("storage")
	n := 80
	if o.Thorough() {
		n = 600
	}
	for i := 0; i < n; i++ {
		runFull(r, rng, i, 40+rng.IntN(60))
	}
}

func runFull(r *hlib.Result, rng *rand.Rand, caseNo, length int) {
	capn := []int{1, 2, 100}[rng.IntN(3)]
	w := &fullWorld{listVer: map[string]int{"rl1": 1, "rl2": 1, "ss": 1}, lists: map[string][]rule{}, svcs: map[string][]rule{}, svcVer: 1}
	for k := 0; k < 2; k++ {
		rep := []string{"host", "ip4"}[k]
		id := []filter.ID{filter.IDAdultBlocking, filter.IDSafeBrowsing}[k]
		w.hpDoms[k] = genDoms(rng)
		w.hpA[k] = newHPFilter(id, rep, capn, w.hpDoms[k], nil)
		defer w.hpA[k].close()
	}
	w.a = newStore(storeOpts{cached: true, cacheCnt: capn, customCnt: capn, ruleLists: []string{"rl1", "rl2"}, services: true, safe: true, yt: true,
		adult: w.hpA[0].f, danger: w.hpA[1].f})
	defer os.RemoveAll(w.a.dir)
	// The twin storage has its own hash-prefix filters, registered with its
	// cache manager so that they are emptied before every query as well.
	mgrB := &collectMgr{}
	for k := 0; k < 2; k++ {
		rep := []string{"host", "ip4"}[k]
		id := []filter.ID{filter.IDAdultBlocking, filter.IDSafeBrowsing}[k]
		w.hpB[k] = newHPFilter(id, rep, capn, w.hpDoms[k], mgrB)
		defer w.hpB[k].close()
	}
	w.b = newStore(storeOpts{cached: false, cacheCnt: capn, customCnt: capn, ruleLists: []string{"rl1", "rl2"}, services: true, safe: true, yt: true,
		adult: w.hpB[0].f, danger: w.hpB[1].f, mgr: mgrB})
	defer os.RemoveAll(w.b.dir)

	kinds := []string{"B", "B", "A", "H", "T", "G"}
	w.lists["rl1"], w.lists["rl2"] = genRules(rng, kinds, false), genRules(rng, kinds, false)
	w.svcs["svc1"], w.svcs["svc2"] = genRules(rng, []string{"B"}, false), genRules(rng, []string{"B", "A"}, false)
	w.ssRules, w.ytRules = genRules(rng, []string{"R"}, false), genRules(rng, []string{"R"}, false)
	nextCV := 0
	for i := range w.custom {
		nextCV++
		w.custom[i] = cuConf{upd: cuBase, ver: nextCV, doms: []string{domains[rng.IntN(len(domains))]}, enabled: i != 2}
	}
	w.writeAll(w.a)
	w.writeAll(w.b)
	w.a.refresh(true)
	w.b.refresh(true)

	// Three requesters with different filter selections and message settings.
	confFor := func(i int) *filter.ConfigClient {
		c := w.custom[i].toConf(fmt.Sprintf("c%d", i))
		// Both safe-search filters, only the YouTube one, only the general one.
		var cc *filter.ConfigClient
		switch i {
		case 0:
			cc = clientConf(c, []string{"rl1", "rl2"}, []string{"svc1"}, true, true, true)
			cc.Parental.SafeSearchYouTubeEnabled = true
		case 1:
			cc = clientConf(c, []string{"rl2"}, []string{"svc1", "svc2"}, false, true, true)
			cc.Parental.SafeSearchYouTubeEnabled = true
		default:
			cc = clientConf(c, []string{"rl1"}, nil, true, false, true)
		}

		return cc
	}
	var log []string
	nFiltered, nNone, nRefresh := 0, 0, 0
	violated := false
	for step := 0; step < length && !violated; step++ {
		switch x := rng.IntN(20); {
		case x < 2:
			// Storage refresh with new versions of a random subset of lists.
			for _, id := range []string{"rl1", "rl2"} {
				if rng.IntN(2) == 0 {
					w.listVer[id]++
					w.lists[id] = genRules(rng, kinds, false)
				}
			}
			if rng.IntN(2) == 0 {
				w.listVer["ss"]++
				w.ssRules, w.ytRules = genRules(rng, []string{"R"}, false), genRules(rng, []string{"R"}, false)
			}
			if rng.IntN(2) == 0 {
				w.svcVer++
				w.svcs["svc1"], w.svcs["svc2"] = genRules(rng, []string{"B"}, false), genRules(rng, []string{"B", "A"}, false)
			}
			w.writeAll(w.a)
			w.writeAll(w.b)
			w.a.refresh(false)
			w.b.refresh(false)
			nRefresh++
			log = append(log, fmt.Sprintf("refresh-storage rl1=v%d rl2=v%d ss=v%d svc=v%d", w.listVer["rl1"], w.listVer["rl2"], w.listVer["ss"], w.svcVer))
		case x < 4:
			k := rng.IntN(2)
			w.hpDoms[k] = genDoms(rng)
			w.hpA[k].refresh(w.hpDoms[k])
			w.hpB[k].refresh(w.hpDoms[k])
			nRefresh++
			log = append(log, fmt.Sprintf("refresh-hashprefix %d %s", k, strings.Join(w.hpDoms[k], " ")))
		case x < 6:
			i := rng.IntN(3)
			nextCV++
			w.custom[i] = cuConf{upd: w.custom[i].upd + cuUnits[rng.IntN(len(cuUnits))], ver: nextCV, doms: []string{domains[rng.IntN(len(domains))]}, enabled: rng.IntN(5) != 0}
			log = append(log, fmt.Sprintf("update-custom c%d v%d %v", i, nextCV, w.custom[i].doms))
		default:
			i := rng.IntN(3)
			p := profiles[rng.IntN(len(profiles))]
			client := clients[rng.IntN(2)]
			host := hosts[rng.IntN(len(hosts))]
			var ra, rb filter.Result
			var what string
			if rng.IntN(5) == 0 {
				what = fmt.Sprintf("qr c%d %s cname->%s", i, client, host)
				ra = w.a.filterResp(confFor(i), newResp("q.example.net", host, client), false)
				rb = w.b.filterResp(confFor(i), newResp("q.example.net", host, client), true)
			} else {
				qt := qtypes[rng.IntN(len(qtypes))]
				edns := rng.IntN(2) == 0
				what = fmt.Sprintf("q c%d %s %s %s qt=%d edns=%v", i, p.name, client, host, qt, edns)
				ra = w.a.filterReq(confFor(i), newReq(host, qt, edns, p, client), false)
				rb = w.b.filterReq(confFor(i), newReq(host, qt, edns, p, client), true)
			}
			log = append(log, what)
			ca, cb := resCanon(ra), resCanon(rb)
			if ca == "none" {
				nNone++
			} else {
				nFiltered++
				r.Count("full.answer_" + strings.SplitN(ca, " ", 2)[0])
				if f := strings.Fields(ca); len(f) > 1 && strings.HasPrefix(f[1], "list=") {
					r.Count("full." + f[1])
				}
			}
			replay := map[string]any{"campaign": "full-storage", "case": caseNo, "cache_count": capn, "ops": append([]string{}, log...)}
			if ca != cb {
				r.Violate("storage-cache-changes-verdict", fmt.Sprintf("%s: with caches %s; without %s", what, ca, cb), replay)
				violated = true
			}
			if sig, msg := w.versionCheck(ra, i, host); sig != "" {
				r.Violate(sig, what+": "+msg, replay)
				violated = true
			}
		}
	}
	r.Distribution["full.answers_filtered"] += nFiltered
	r.Distribution["full.answers_none"] += nNone
	r.Distribution["full.refreshes"] += nRefresh
	r.Count(fmt.Sprintf("full.cap_%d", capn))
	r.Traces++
	r.Case(strings.Join(log, "\n"), nRefresh > 0 && nFiltered > 0 && nNone > 0)
	r.Sample(map[string]any{"campaign": "full-storage", "ops": log[:min(len(log), 6)]}, 9)
}

var (
	reHosts6  = regexp.MustCompile(`^2001:db8::(\d+) ([a-z0-9.]+)$`)
	reRuleDom = regexp.MustCompile(`^(?:@@)?\|\|([a-z0-9.]+)\^`)
)

// ruleName is the name a rule of the generator's grammar is written for and
// whether it also covers the subdomains.
func ruleName(text string) (name string, subs, ok bool) {
	if mm := reRuleDom.FindStringSubmatch(text); mm != nil {
		return mm[1], true, true
	} else if mm := reHosts.FindStringSubmatch(text); mm != nil {
		return mm[3], false, true
	} else if mm := reHosts6.FindStringSubmatch(text); mm != nil {
		return mm[2], false, true
	}

	return "", false, false
}

// versionCheck: the version carried by the answer must be the current version
// of the list it is attributed to, and the rule it names must be written for
// one of the names the request or response asked about (an answer built from
// a rule that some other request matched is state that outlived its request).
func (w *fullWorld) versionCheck(res filter.Result, prof int, names ...string) (sig, msg string) {
	var list filter.ID
	var ruleText string
	switch v := res.(type) {
	case *filter.ResultAllowed:
		list, ruleText = v.List, string(v.Rule)
	case *filter.ResultBlocked:
		list, ruleText = v.List, string(v.Rule)
	case *filter.ResultModifiedRequest:
		if mm := reSafe.FindStringSubmatch(v.Msg.Question[0].Name); mm != nil {
			got, _ := strconv.Atoi(mm[1])
			if got != w.listVer["ss"] {
				return "safe-search-answer-from-old-version", fmt.Sprintf("rewrite of version %d, current %d", got, w.listVer["ss"])
			}
		}
		if v.List == filter.IDAdultBlocking && hpMatch(w.hpDoms[0], string(v.Rule)) != string(v.Rule) {
			return "hashprefix-answer-not-from-current-list", fmt.Sprintf("matched %s is not in the current list", v.Rule)
		}

		return "", ""
	case *filter.ResultModifiedResponse:
		if v.List == filter.IDSafeBrowsing && hpMatch(w.hpDoms[1], string(v.Rule)) != string(v.Rule) {
			return "hashprefix-answer-not-from-current-list", fmt.Sprintf("matched %s is not in the current list", v.Rule)
		}

		return "", ""
	default:
		return "", ""
	}
	if name, subs, ok := ruleName(ruleText); ok && len(names) > 0 && list != filter.IDBlockedService {
		applies := false
		for _, n := range names {
			applies = applies || n == name || (subs && isSuffixDom(n, name))
		}
		if !applies {
			return "answer-rule-does-not-match-name", fmt.Sprintf("rule %q of list %s does not match any of %v", ruleText, list, names)
		}
	}
	got := -1
	if mm := reHosts6.FindStringSubmatch(ruleText); mm != nil {
		got, _ = strconv.Atoi(mm[1])
	} else if mm := reVerTag.FindStringSubmatch(ruleText); mm != nil {
		got, _ = strconv.Atoi(mm[1])
	} else if mm := reHosts.FindStringSubmatch(ruleText); mm != nil {
		hi, _ := strconv.Atoi(mm[1])
		lo, _ := strconv.Atoi(mm[2])
		got = hi*256 + lo
	}
	if got < 0 {
		return "", ""
	}
	want := -1
	switch list {
	case "rl1", "rl2":
		want = w.listVer[string(list)]
	case filter.IDCustom:
		want = w.custom[prof].ver
	}
	if want >= 0 && got != want {
		return "answer-from-old-version-" + string(list), fmt.Sprintf("rule %q is of version %d, current version is %d", ruleText, got, want)
	}

	return "", ""
}

// ---------------------------------------------------------------------------
// Concurrent campaign: real goroutines query while refreshes run.  An answer
// must come from a version between the last refresh completed before the query
// started and the last refresh started before it ended; after quiescence every
// answer must be of the final version.

func concurrentCampaign(o *hlib.Opts, r *hlib.Result) {
	rounds := 6
	if o.Thorough() {
		rounds = 60
	}
	rng := o.Rand("concurrent")
	for i := 0; i < rounds; i++ {
		concurrentRuleList(r, rng, i, []string{"rl", "ss"}[i%2])
		concurrentHP(r, rng, i)
	}
}

// mode "rl": a rule list (every storage refresh builds a new filter object with
// a new cache); mode "ss": the safe-search filter (refreshed in place by
// Refreshable.Refresh: Clear + engine swap under the write lock).
func concurrentRuleList(r *hlib.Result, rng *rand.Rand, round int, mode string) {
	so := slStoreOpts(mode, true, []int{1, 2, 100}[rng.IntN(3)])
	s := newStore(so)
	defer os.RemoveAll(s.dir)
	rules := []rule{{kind: "B", dom: "a.example.com"}, {kind: "H", dom: "b.example.com"}, {kind: "A", dom: "c.example.org"}}
	listID := "rl1"
	if mode == "ss" {
		rules = []rule{{kind: "R", dom: "a.example.com"}, {kind: "R", dom: "www.a.example.com"}, {kind: "R", dom: "b.example.com"}, {kind: "R", dom: "c.example.org"}}
		listID = string(filter.IDGeneralSafeSearch)
	}
	s.writeList(listID, rulesText(rules, 1))
	s.refresh(true)
	conf := slConf(mode)
	var started, done atomic.Int64
	started.Store(1)
	done.Store(1)
	stop := make(chan struct{})
	var wg sync.WaitGroup
	var mu sync.Mutex
	bad := ""
	answers := 0
	qhosts := []string{"a.example.com", "www.a.example.com", "b.example.com", "c.example.org"}
	for wkr := 0; wkr < 4; wkr++ {
		wg.Add(1)
		wrng := rand.New(rand.NewPCG(uint64(round), uint64(wkr)))
		go func() {
			defer wg.Done()
			n := 0
			for {
				select {
				case <-stop:
					mu.Lock()
					answers += n
					mu.Unlock()

					return
				default:
				}
				host := qhosts[wrng.IntN(len(qhosts))]
				lo := done.Load()
				res := s.filterReq(conf, newReq(host, dns.TypeA, false, profiles[wrng.IntN(4)], clients[wrng.IntN(2)]), false)
				hi := started.Load()
				n++
				tok := resTok(res)
				if isPanic(resCanon(res)) {
					mu.Lock()
					if bad == "" {
						bad = fmt.Sprintf("%s: the filter panicked: %s", host, resCanon(res))
					}
					mu.Unlock()

					continue
				}
				parts := strings.Split(tok, ":")
				v := int64(-1)
				if len(parts) == 3 {
					x, _ := strconv.Atoi(parts[2])
					v = int64(x)
				}
				if v < lo || v > hi {
					mu.Lock()
					if bad == "" {
						bad = fmt.Sprintf("%s answered %s; refreshes completed before the query: v%d, started before its end: v%d", host, tok, lo, hi)
					}
					mu.Unlock()
				}
			}
		}()
	}
	last := int64(1)
	for v := int64(2); v <= 12; v++ {
		s.writeList(listID, rulesText(rules, int(v)))
		started.Store(v)
		s.refresh(false)
		done.Store(v)
		last = v
		time.Sleep(time.Duration(rng.IntN(300)) * time.Microsecond)
	}
	close(stop)
	wg.Wait()
	if bad != "" {
		r.Violate("rulelist-concurrent-answer-from-wrong-version", bad, map[string]any{"campaign": "concurrent-rulelist", "mode": mode, "round": round})
	}
	for _, host := range qhosts {
		tok := resTok(s.filterReq(conf, newReq(host, dns.TypeA, false, profiles[0], "1.1.1.1"), false))
		if !strings.HasSuffix(tok, fmt.Sprintf(":%d", last)) {
			r.Violate("rulelist-stale-after-concurrent-refresh", fmt.Sprintf("%s answered %s after the refresh to v%d", host, tok, last),
				map[string]any{"campaign": "concurrent-rulelist", "round": round})
		}
	}
	r.Distribution["concurrent.rulelist_answers"] += answers
	r.Evaluations++
}

func concurrentHP(r *hlib.Result, rng *rand.Rand, round int) {
	rep := []string{"host", "ip4"}[round%2]
	dom := func(v int64) string { return fmt.Sprintf("v%d.hp.example.com", v) }
	h := newHPFilter(filter.IDAdultBlocking, rep, []int{1, 2, 100}[rng.IntN(3)], []string{dom(1)}, nil)
	defer h.close()
	var started, done atomic.Int64
	started.Store(1)
	done.Store(1)
	stop := make(chan struct{})
	var wg sync.WaitGroup
	var mu sync.Mutex
	bad := ""
	answers := 0
	for wkr := 0; wkr < 4; wkr++ {
		wg.Add(1)
		wrng := rand.New(rand.NewPCG(uint64(round)+1000, uint64(wkr)))
		go func() {
			defer wg.Done()
			n := 0
			for {
				select {
				case <-stop:
					mu.Lock()
					answers += n
					mu.Unlock()

					return
				default:
				}
				lo := done.Load()
				j := lo + int64(wrng.IntN(3)) - 1
				if j < 1 {
					j = 1
				}
				host := "x." + dom(j)
				res := h.query(newReq(host, dns.TypeA, false, profiles[wrng.IntN(4)], "1.1.1.1"))
				hi := started.Load()
				n++
				matched := res != nil
				// Version j is in the list exactly while the current version is j.
				if matched && (j < lo || j > hi) || !matched && lo == j && hi == j {
					mu.Lock()
					if bad == "" {
						bad = fmt.Sprintf("%s matched=%v; refreshes completed before the query: v%d, started before its end: v%d", host, matched, lo, hi)
					}
					mu.Unlock()
				}
			}
		}()
	}
	last := int64(1)
	for v := int64(2); v <= 14; v++ {
		h.write([]string{dom(v)})
		started.Store(v)
		if err := h.f.Refresh(context.Background()); err != nil {
			panic(err)
		}
		done.Store(v)
		last = v
		time.Sleep(time.Duration(rng.IntN(300)) * time.Microsecond)
	}
	close(stop)
	wg.Wait()
	if bad != "" {
		r.Violate("hashprefix-concurrent-answer-from-wrong-version", bad, map[string]any{"campaign": "concurrent-hashprefix", "round": round})
	}
	for v := int64(1); v <= last; v++ {
		res := h.query(newReq("x."+dom(v), dns.TypeA, false, profiles[0], "1.1.1.1"))
		if (res != nil) != (v == last) {
			r.Violate("hashprefix-stale-entry-survives-refresh", fmt.Sprintf("x.%s matched=%v after the refresh to v%d", dom(v), res != nil, last),
				map[string]any{"campaign": "concurrent-hashprefix", "round": round})
		}
	}
	r.Distribution["concurrent.hashprefix_answers"] += answers
	r.Evaluations++
}
