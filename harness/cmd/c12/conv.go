package main

// Campaign conv: where the version stamp of the custom-filter cache comes from.
//
// custom.Filters serves a compiled filter as long as its stamp is not older
// than ConfigCustom.UpdateTime.  That stamp is not part of the backend's
// message: backendpb.ProfileStorage.Profiles puts it on every delivered profile,
// profiledb.Default keeps it until the profile is delivered again, writes it to
// the cache file on every full synchronisation and reads it back after a
// restart.  The campaign drives that pipeline with public API only: an
// in-process gRPC backend whose profiles carry custom rules, the real
// backendpb.ProfileStorage, a real profiledb.Default with a cache file (full and
// incremental synchronisations, failed ones, restarts from the file), and the
// real filter storage fed with the FilterConfig the database returns for a
// device.  Oracle (no model involved): every answer must come from the rule
// version the backend delivered last for that profile (version tags in the rule
// texts), and must equal the answer of a twin storage whose caches are emptied
// before every request.  The same op lines are run on the Lean pipeline model
// (`Sync`, stamp = local time).

import (
	"context"
	"fmt"
	"math/rand/v2"
	"net"
	"net/netip"
	"net/url"
	"os"
	"path/filepath"
	"strconv"
	"strings"
	"sync"
	"sync/atomic"
	"time"

	"github.com/AdguardTeam/AdGuardDNS/internal/agd"
	"github.com/AdguardTeam/AdGuardDNS/internal/agdtest"
	"github.com/AdguardTeam/AdGuardDNS/internal/backendpb"
	"github.com/AdguardTeam/AdGuardDNS/internal/filter"
	"github.com/AdguardTeam/AdGuardDNS/internal/profiledb"
	"github.com/AdguardTeam/AdGuardDNS/verifh/hlib"
	"github.com/AdguardTeam/golibs/logutil/slogutil"
	"github.com/AdguardTeam/golibs/netutil"
	"github.com/c2h5oh/datasize"
	"github.com/miekg/dns"
	"google.golang.org/grpc"
	"google.golang.org/grpc/codes"
	"google.golang.org/grpc/credentials/insecure"
	"google.golang.org/grpc/metadata"
	"google.golang.org/grpc/status"
	"google.golang.org/protobuf/types/known/durationpb"
)

// syProf is a profile at the backend.
type syProf struct {
	id      string
	dev     string
	ver     int
	doms    []string
	changed int64 // backend time of the last change, milliseconds
}

func (p *syProf) ruleTexts() (out []string) {
	for _, d := range p.doms {
		out = append(out, rule{kind: "B", dom: d}.text(p.ver))
	}

	return out
}

// syVersion is one delivered version of a profile's rules.
type syVersion struct {
	ver  int
	doms []string
	via  string // full-sync incremental-sync cache-file
}

// syBackend is the in-process backend.  Its clock is moved by the harness.
type syBackend struct {
	backendpb.UnimplementedDNSServiceServer

	mu    sync.Mutex
	profs []*syProf
	clock int64 // milliseconds
	down  bool

	// sent is what the latest completed response carried; sentFull tells
	// whether the request was a full one.
	sent     map[int]syVersion
	sentFull bool
}

// syEpochMs is the backend time at the start of a case: the backend's clock is
// not the server's clock.  The skew classes are a backend far behind, (nearly)
// in step with, and ahead of the local clock.
var syEpochMs int64 = 1_700_000_000_000

var sySkews = []string{"behind", "in-step", "ahead", "behind"}

func setSyEpoch(skew string) {
	switch skew {
	case "in-step":
		syEpochMs = time.Now().UnixMilli()
	case "ahead":
		syEpochMs = time.Now().Add(time.Hour).UnixMilli()
	default:
		syEpochMs = 1_700_000_000_000
	}
}

func (s *syBackend) GetDNSProfiles(req *backendpb.DNSProfilesRequest, srv grpc.ServerStreamingServer[backendpb.DNSProfile]) (err error) {
	s.mu.Lock()
	defer s.mu.Unlock()
	s.sent = nil
	if s.down {
		return status.Error(codes.Unavailable, "verif: backend is down")
	}
	since := req.GetSyncTime().AsTime()
	full := !since.After(time.Unix(0, 0))
	sent := map[int]syVersion{}
	for k, p := range s.profs {
		if !full && p.changed <= since.UnixMilli() {
			continue
		}
		modes := []*backendpb.DNSProfile{
			{BlockingMode: &backendpb.DNSProfile_BlockingModeNullIp{BlockingModeNullIp: &backendpb.BlockingModeNullIP{}}},
			{BlockingMode: &backendpb.DNSProfile_BlockingModeNxdomain{BlockingModeNxdomain: &backendpb.BlockingModeNXDOMAIN{}}},
			{BlockingMode: &backendpb.DNSProfile_BlockingModeRefused{BlockingModeRefused: &backendpb.BlockingModeREFUSED{}}},
		}
		err = srv.Send(&backendpb.DNSProfile{
			DnsId:               p.id,
			FilteringEnabled:    true,
			QueryLogEnabled:     true,
			FilteredResponseTtl: durationpb.New(time.Duration(10*(k+1)) * time.Second),
			BlockingMode:        modes[k%len(modes)].BlockingMode,
			Devices:             []*backendpb.DeviceSettings{{Id: p.dev, Name: "n" + p.dev, FilteringEnabled: true}},
			CustomRules:         p.ruleTexts(),
		})
		if err != nil {
			return err
		}
		via := "incremental-sync"
		if full {
			via = "full-sync"
		}
		sent[k] = syVersion{ver: p.ver, doms: append([]string{}, p.doms...), via: via}
	}
	srv.SetTrailer(metadata.Pairs("sync_time", strconv.FormatInt(s.clock, 10)))
	s.sent, s.sentFull = sent, full

	return nil
}

// syEnv is what the cases of the campaign share.
type syEnv struct {
	srv  *syBackend
	ps   *backendpb.ProfileStorage
	ec   *agdtest.ErrorCollector
	dir  string
	seq  int
	errs *[]string
	skew string // backend clock relative to the local one: behind in-step ahead
}

func newSyEnv(r *hlib.Result) (e *syEnv, stop func()) {
	l, err := net.Listen("tcp", "127.0.0.1:0")
	if err != nil {
		r.Notes = append(r.Notes, "conv campaign skipped: cannot listen on loopback: "+err.Error())

		return nil, func() {}
	}
	srv := &syBackend{}
	gs := grpc.NewServer(grpc.ConnectionTimeout(time.Second), grpc.Creds(insecure.NewCredentials()))
	backendpb.RegisterDNSServiceServer(gs, srv)
	go func() { _ = gs.Serve(l) }()
	var errs []string
	var emu sync.Mutex
	ec := &agdtest.ErrorCollector{OnCollect: func(_ context.Context, err error) {
		emu.Lock()
		defer emu.Unlock()
		errs = append(errs, err.Error())
	}}
	ps, err := backendpb.NewProfileStorage(&backendpb.ProfileStorageConfig{
		BindSet:              netutil.SliceSubnetSet{netip.MustParsePrefix("0.0.0.0/0"), netip.MustParsePrefix("::/0")},
		ErrColl:              ec,
		Logger:               slogutil.NewDiscardLogger(),
		GRPCMetrics:          backendpb.EmptyGRPCMetrics{},
		Metrics:              backendpb.EmptyProfileDBMetrics{},
		Endpoint:             &url.URL{Scheme: "grpc", Host: l.Addr().String()},
		ResponseSizeEstimate: datasize.KB,
		MaxProfilesSize:      16 * datasize.MB,
	})
	if err != nil {
		gs.Stop()
		r.Notes = append(r.Notes, "conv campaign skipped: "+err.Error())

		return nil, func() {}
	}
	dir, err := os.MkdirTemp(scratch, "conv")
	hlib.Must(err)

	return &syEnv{srv: srv, ps: ps, ec: ec, dir: dir, errs: &errs}, gs.Stop
}

func (e *syEnv) newDB(path string) (db *profiledb.Default) {
	db, err := profiledb.New(&profiledb.Config{
		Logger: slogutil.NewDiscardLogger(), Storage: e.ps, ErrColl: e.ec, Metrics: profiledb.EmptyMetrics{}, CacheFilePath: path,
		FullSyncIvl: time.Hour, FullSyncRetryIvl: time.Hour, ResponseSizeEstimate: datasize.KB,
	})
	hlib.Must(err)

	return db
}

type syOp struct {
	kind string // change touch sync fail restart q
	prof int
	doms []string
	dt   int // backend milliseconds since the previous event
	full bool
	host string
	// back: the wall clock of the restarted process is this far behind the one
	// of the process that wrote the cache file (restart only).
	back time.Duration
}

func (op syOp) String() string {
	switch op.kind {
	case "change":
		return fmt.Sprintf("change c%d +%dms [%s]", op.prof, op.dt, strings.Join(op.doms, " "))
	case "touch":
		return fmt.Sprintf("touch c%d +%dms", op.prof, op.dt)
	case "sync", "fail":
		kind := "incremental"
		if op.full {
			kind = "full"
		}
		if op.kind == "fail" {
			return fmt.Sprintf("sync %s +%dms (backend down)", kind, op.dt)
		}

		return fmt.Sprintf("sync %s +%dms", kind, op.dt)
	case "restart":
		if op.back != 0 {
			return fmt.Sprintf("restart (wall clock set back by %s)", op.back)
		}

		return "restart"
	}

	return fmt.Sprintf("q c%d %s", op.prof, op.host)
}

// syDts are the backend-time steps: the sync time travels in milliseconds.
var syDts = []int{1, 1, 2, 999, 1000, 60_000}

// syBacks are the steps by which the wall clock is set back across a restart
// (zero: not at all).  A step is applied to the cache file: the stamps in it were
// taken from the clock of the process that wrote it.
var syBacks = []time.Duration{0, 0, time.Millisecond, time.Hour}

// shiftFileStamps rewrites the cache file as the previous process would have
// written it had its wall clock been d ahead of the current one.
func shiftFileStamps(path string, d time.Duration) {
	ctx := context.Background()
	l := slogutil.NewDiscardLogger()
	fc, err := profiledb.VerifC14LoadCache(ctx, l, path, datasize.KB)
	hlib.Must(err)
	if fc == nil {
		return
	}
	for _, p := range fc.Profiles {
		if c := p.FilterConfig; c != nil && c.Custom != nil {
			c.Custom.UpdateTime = c.Custom.UpdateTime.Add(d)
		}
	}
	hlib.Must(profiledb.VerifC14StoreCache(ctx, l, path, fc, datasize.KB))
}

func genSyDoms(rng *rand.Rand) (doms []string) {
	if rng.IntN(7) == 0 {
		return nil
	}
	for _, d := range domains {
		if rng.IntN(2) == 0 {
			doms = append(doms, d)
		}
	}

	return doms
}

func genSy(rng *rand.Rand, length int) (ops []syOp) {
	dt := func() int { return syDts[rng.IntN(len(syDts))] }
	for k := 0; k < 3; k++ {
		ops = append(ops, syOp{kind: "change", prof: k, doms: []string{domains[(k+rng.IntN(2))%len(domains)]}, dt: dt()})
	}
	ops = append(ops, syOp{kind: "sync", full: true, dt: dt()})
	// Regimes: mixed, only full synchronisations after the first, only
	// incremental ones.
	regime := rng.IntN(4)
	for len(ops) < length {
		switch x := rng.IntN(100); {
		case x < 18:
			ops = append(ops, syOp{kind: "change", prof: rng.IntN(3), doms: genSyDoms(rng), dt: dt()})
		case x < 22:
			ops = append(ops, syOp{kind: "touch", prof: rng.IntN(3), dt: dt()})
		case x < 40:
			full := rng.IntN(2) == 0
			if regime == 1 {
				full = true
			} else if regime == 2 {
				full = false
			}
			ops = append(ops, syOp{kind: "sync", full: full, dt: dt()})
		case x < 44:
			ops = append(ops, syOp{kind: "fail", full: rng.IntN(2) == 0, dt: dt()})
		case x < 48:
			ops = append(ops, syOp{kind: "restart", back: syBacks[rng.IntN(len(syBacks))]})
		default:
			ops = append(ops, syOp{kind: "q", prof: rng.IntN(3), host: hosts[rng.IntN(len(hosts))]})
		}
	}

	return ops
}

func convCampaign(o *hlib.Opts, r *hlib.Result, m *hlib.Model) {
	e, stop := newSyEnv(r)
	if e == nil {
		return
	}
	defer stop()
	rng := o.Rand("conv")
	n := 160
	if o.Thorough() {
		n = 1500
	}
	for i := 0; i < n; i++ {
		capn := []int{1, 2, 100}[rng.IntN(3)]
		ids := cuIDSets[i%len(cuIDSets)]
		ops := genSy(rng, 12+rng.IntN(50))
		e.skew = sySkews[rng.IntN(len(sySkews))]
		e.shrinkAndReport(r, m, capn, ids, ops)
	}
	if o.Thorough() {
		e.exhaustiveSy(r, m)
	}
	rounds := 4
	if o.Thorough() {
		rounds = 40
	}
	for i := 0; i < rounds; i++ {
		e.concurrentSy(r, rng, i)
	}
	r.Notes = append(r.Notes, fmt.Sprintf("conv: %d histories + %d concurrent rounds through gRPC backend -> backendpb.ProfileStorage -> "+
		"profiledb.Default (full / incremental / failed synchronisations, cache file, restarts) -> filterstorage.ForConfig -> custom filter; "+
		"errors reported by the converters: %d", n, rounds, len(*e.errs)))
}

func (e *syEnv) shrinkAndReport(r *hlib.Result, m *hlib.Model, capn int, ids [3]string, ops []syOp) {
	fail := e.runSy(r, m, capn, ids, ops, false)
	if fail == "" {
		e.runSyRecordOnly(r, capn, ids)

		return
	}
	min := hlib.Shrink(ops, func(c []syOp) bool { return e.runSy(r, m, capn, ids, c, false) == fail })
	if e.runSy(r, m, capn, ids, min, true) == "" {
		// Not reproducible in shrunk form (should not happen: nothing here depends
		// on the wall clock); report the original history.
		e.runSy(r, m, capn, ids, ops, true)
	}
}

// lastSy holds the statistics of the latest non-recording run, so that a
// passing case is run only once.
var lastSy struct {
	lines                      []string
	nFiltered, nNone, nSync    int
	nFull, nRestart, nFailSync int
	nSetBack                   int
	nontrivial                 bool
}

func (e *syEnv) runSyRecordOnly(r *hlib.Result, capn int, ids [3]string) {
	r.Count("conv.cases")
	r.Count("conv.ids_" + ids[0])
	r.Count(fmt.Sprintf("conv.cap_%d", capn))
	r.Count("conv.backend_clock_" + e.skew)
	r.Distribution["conv.answers_filtered"] += lastSy.nFiltered
	r.Distribution["conv.answers_none"] += lastSy.nNone
	r.Distribution["conv.syncs_incremental"] += lastSy.nSync - lastSy.nFull
	r.Distribution["conv.syncs_full"] += lastSy.nFull
	r.Distribution["conv.syncs_failed"] += lastSy.nFailSync
	r.Distribution["conv.restarts"] += lastSy.nRestart
	r.Distribution["conv.restarts_with_clock_set_back"] += lastSy.nSetBack
	r.ModelOps += len(lastSy.lines)
	r.Traces++
	r.Case(strings.Join(lastSy.lines, "\n"), lastSy.nontrivial)
	r.Sample(map[string]any{"campaign": "conv", "ops": lastSy.lines[:min(len(lastSy.lines), 10)]}, 10)
}

// runSy runs one history.  It returns the signature of the first failure.
func (e *syEnv) runSy(r *hlib.Result, m *hlib.Model, capn int, ids [3]string, ops []syOp, record bool) (fail string) {
	ctx := context.Background()
	m.ResetLog()
	e.seq++
	path := filepath.Join(e.dir, fmt.Sprintf("cache%d.pb", e.seq))
	defer os.Remove(path)

	srv := e.srv
	setSyEpoch(e.skew)
	srv.mu.Lock()
	srv.profs, srv.clock, srv.down, srv.sent = nil, syEpochMs, false, nil
	for k := 0; k < 3; k++ {
		srv.profs = append(srv.profs, &syProf{id: ids[k], dev: fmt.Sprintf("dv%d", k)})
	}
	srv.mu.Unlock()

	var a, b *store
	newStores := func() {
		if a != nil {
			os.RemoveAll(a.dir)
			os.RemoveAll(b.dir)
		}
		a = newStore(storeOpts{cached: true, cacheCnt: 10, customCnt: capn})
		b = newStore(storeOpts{cached: false, cacheCnt: 10, customCnt: capn})
		a.refresh(true)
		b.refresh(true)
	}
	newStores()
	defer func() {
		os.RemoveAll(a.dir)
		os.RemoveAll(b.dir)
	}()
	db := e.newDB(path)

	delivered := map[int]syVersion{}
	fileDelivered := map[int]syVersion{}
	nextVer := 0
	lines := []string{fmt.Sprintf("sy new %d", capn)}
	type obs struct {
		line       int
		tok, want  string
		canA, canB string
		what, via  string
	}
	var seen []obs
	nFiltered, nNone, nSync, nFull, nRestart, nFailSync, nChange, nSetBack := 0, 0, 0, 0, 0, 0, 0, 0
	synced := false
	for _, op := range ops {
		switch op.kind {
		case "change", "touch":
			srv.mu.Lock()
			p := srv.profs[op.prof]
			srv.clock += int64(op.dt)
			p.changed = srv.clock
			if op.kind == "change" {
				nextVer++
				p.ver, p.doms = nextVer, op.doms
				nChange++
			}
			lines = append(lines, strings.TrimSpace(fmt.Sprintf("sy change %s %d %d %s", p.id, p.ver, op.dt-1, strings.Join(p.doms, " "))))
			srv.mu.Unlock()
		case "sync", "fail":
			full := op.full || !synced
			srv.mu.Lock()
			srv.clock += int64(op.dt)
			srv.down = op.kind == "fail"
			srv.mu.Unlock()
			db.VerifC14ForceSyncKind(full)
			err := db.Refresh(ctx)
			srv.mu.Lock()
			sent, sentFull := srv.sent, srv.sentFull
			srv.down = false
			srv.mu.Unlock()
			if op.kind == "fail" {
				nFailSync++
				lines = append(lines, "sy fail")
				if err == nil && fail == "" {
					fail = "conv-failed-sync-reported-ok"
					if record {
						r.Violate(fail, "a synchronisation with the backend down returned no error", nil)
					}
				}

				continue
			}
			if err != nil || sent == nil || sentFull != full {
				panic(fmt.Errorf("conv: refresh (full=%v) failed: %v (backend saw full=%v, sent=%v)", full, err, sentFull, sent != nil))
			}
			if full {
				delivered = map[int]syVersion{}
			}
			for k, v := range sent {
				delivered[k] = v
			}
			if full {
				fileDelivered = map[int]syVersion{}
				for k, v := range delivered {
					v.via = "cache-file"
					fileDelivered[k] = v
				}
				nFull++
			}
			nSync++
			synced = true
			lines = append(lines, fmt.Sprintf("sy sync %d 0", b2i(full)))
		case "restart":
			if !synced {
				continue
			}
			if op.back != 0 {
				shiftFileStamps(path, op.back)
			}
			db = e.newDB(path)
			newStores()
			delivered = map[int]syVersion{}
			for k, v := range fileDelivered {
				delivered[k] = v
			}
			nRestart++
			if op.back != 0 {
				nSetBack++
			}
			// The model's clock ticks once per synchronisation; a set-back of a
			// millisecond or more is further than any history gets.
			lines = append(lines, fmt.Sprintf("sy restart %d", b2i(op.back != 0)*1000))
		case "q":
			if !synced {
				continue
			}
			dv, ok := delivered[op.prof]
			prof, _, err := db.ProfileByDeviceID(ctx, agd.DeviceID(fmt.Sprintf("dv%d", op.prof)))
			if err != nil || !ok {
				if (err == nil) != ok && fail == "" {
					fail = "conv-profile-lost"
					if record {
						r.Violate(fail, fmt.Sprintf("%s: profile delivered=%v, lookup error %v", op, ok, err), nil)
					}
				}

				continue
			}
			conf := prof.FilterConfig
			ra := a.filterReq(conf, newReq(op.host, dns.TypeA, false, profiles[op.prof], "1.1.1.1"), false)
			rb := b.filterReq(conf, newReq(op.host, dns.TypeA, false, profiles[op.prof], "1.1.1.1"), true)
			var rs []rule
			for _, d := range dv.doms {
				rs = append(rs, rule{kind: "B", dom: d})
			}
			want := evalRules(rs, dv.ver, op.host, "1.1.1.1", 2)
			seen = append(seen, obs{line: len(lines), tok: resTok(ra), want: want, canA: resCanon(ra), canB: resCanon(rb), what: op.String(),
				via: dv.via})
			lines = append(lines, fmt.Sprintf("sy q %s %s", ids[op.prof], op.host))
		}
	}
	answers := m.Batch(lines)
	replay := func() any {
		var s []string
		for _, op := range ops {
			s = append(s, op.String())
		}

		return map[string]any{"campaign": "conv", "custom_cache_count": capn, "backend_clock": e.skew,
			"profile_ids": map[string]string{"c0": ids[0], "c1": ids[1], "c2": ids[2]}, "ops": s,
			"how": "in-process gRPC backend (profiles with custom rules, sync_time trailer in ms) -> backendpb.ProfileStorage -> " +
				"profiledb.Default.Refresh (full = request sync time zero, writes the cache file; incremental = profiles changed since " +
				"the previous sync time) / restart = new profiledb from the cache file + new filter storage -> ProfileByDeviceID -> " +
				"filterstorage.ForConfig(profile.FilterConfig).FilterRequest (type A, client 1.1.1.1); twin = same with all caches " +
				"cleared before every request"}
	}
	for _, ob := range seen {
		if ob.tok == "none" {
			nNone++
		} else {
			nFiltered++
		}
		if ob.tok != ob.want && fail == "" {
			fail = "conv-custom-answer-from-old-rules+delivered-by-" + ob.via
			if record {
				r.Violate(fail, fmt.Sprintf("%s: answer %s, but the rules delivered last for this profile (by %s) give %s", ob.what, ob.tok, ob.via, ob.want), replay())
			}
		}
		if ob.canA != ob.canB && fail == "" {
			fail = "conv-custom-cache-changes-verdict+delivered-by-" + ob.via
			if record {
				r.Violate(fail, fmt.Sprintf("%s: with cache %s; without %s", ob.what, ob.canA, ob.canB), replay())
			}
		}
		if answers[ob.line] != ob.tok && fail == "" {
			fail = "disagree-conv"
			if record {
				r.Disagree(fail, fmt.Sprintf("model %q, implementation %q at %q", answers[ob.line], ob.tok, lines[ob.line]), replay())
			}
		}
	}
	lastSy.lines, lastSy.nFiltered, lastSy.nNone, lastSy.nSync = lines, nFiltered, nNone, nSync
	lastSy.nFull, lastSy.nRestart, lastSy.nFailSync, lastSy.nSetBack = nFull, nRestart, nFailSync, nSetBack
	lastSy.nontrivial = nSync > 1 && nChange > 3 && nFiltered > 0 && nNone > 0
	if record {
		e.runSyRecordOnly(r, capn, ids)
	}

	return fail
}

// exhaustiveSy enumerates every history of length ≤ 4 over a small alphabet
// after a fixed prefix that leaves a compiled filter of profile 0 in the cache
// (thorough tier).
func (e *syEnv) exhaustiveSy(r *hlib.Result, m *hlib.Model) {
	prefix := []syOp{
		{kind: "change", prof: 0, doms: []string{"a.example.com"}, dt: 1},
		{kind: "change", prof: 1, doms: []string{"b.example.com"}, dt: 1},
		{kind: "sync", full: true, dt: 1},
		{kind: "q", prof: 0, host: "www.a.example.com"},
	}
	alphabet := []syOp{
		{kind: "change", prof: 0, doms: []string{"b.example.com"}, dt: 1},
		{kind: "change", prof: 0, doms: nil, dt: 1},
		{kind: "sync", full: true, dt: 1},
		{kind: "sync", full: false, dt: 1},
		{kind: "restart"},
		{kind: "restart", back: time.Hour},
		{kind: "q", prof: 0, host: "b.example.com"},
		{kind: "q", prof: 1, host: "b.example.com"},
	}
	n := 0
	for length := 1; length <= 4; length++ {
		total := 1
		for j := 0; j < length; j++ {
			total *= len(alphabet)
		}
		for code := 0; code < total; code++ {
			ops := append([]syOp{}, prefix...)
			c := code
			for j := 0; j < length; j++ {
				ops = append(ops, alphabet[c%len(alphabet)])
				c /= len(alphabet)
			}
			ops = append(ops, syOp{kind: "q", prof: 0, host: "b.example.com"}, syOp{kind: "q", prof: 0, host: "a.example.com"})
			e.skew = sySkews[n%3]
			e.runSy(r, m, 1, cuIDSets[0], ops, true)
			n++
		}
	}
	r.Distribution["conv.exhaustive_len4"] += n
}

// concurrentSy: workers keep asking through the database and the filter storage
// while the rules of their profiles change and are delivered by alternating
// full and incremental synchronisations.  An answer must carry a version between
// the one delivered by the last synchronisation completed before the request
// started and the newest one at the backend when it ended; after quiescence
// every profile answers with its final version.
func (e *syEnv) concurrentSy(r *hlib.Result, rng *rand.Rand, round int) {
	ctx := context.Background()
	e.seq++
	path := filepath.Join(e.dir, fmt.Sprintf("cache%d.pb", e.seq))
	defer os.Remove(path)
	ids := cuIDSets[round%len(cuIDSets)]
	srv := e.srv
	e.skew = sySkews[round%len(sySkews)]
	setSyEpoch(e.skew)
	srv.mu.Lock()
	srv.profs, srv.clock, srv.down, srv.sent = nil, syEpochMs, false, nil
	for k := 0; k < 3; k++ {
		srv.profs = append(srv.profs, &syProf{id: ids[k], dev: fmt.Sprintf("dv%d", k), ver: 1, doms: []string{domains[k]}, changed: syEpochMs})
	}
	srv.mu.Unlock()
	s := newStore(storeOpts{cached: true, cacheCnt: 10, customCnt: []int{1, 2, 100}[rng.IntN(3)]})
	defer os.RemoveAll(s.dir)
	s.refresh(true)
	db := e.newDB(path)
	db.VerifC14ForceSyncKind(true)
	hlib.Must(db.Refresh(ctx))

	var lo, hi [3]atomic.Int64
	for k := range lo {
		lo[k].Store(1)
		hi[k].Store(1)
	}
	stop := make(chan struct{})
	var wg sync.WaitGroup
	var mu sync.Mutex
	bad := ""
	answers := 0
	for wkr := 0; wkr < 4; wkr++ {
		wg.Add(1)
		wrng := rand.New(rand.NewPCG(uint64(round)+7000, uint64(wkr)))
		go func() {
			defer wg.Done()
			n := 0
			for {
				select {
				case <-stop:
					mu.Lock()
					answers += n
					mu.Unlock()

					return
				default:
				}
				k := wrng.IntN(3)
				l := lo[k].Load()
				prof, _, err := db.ProfileByDeviceID(ctx, agd.DeviceID(fmt.Sprintf("dv%d", k)))
				if err != nil {
					// A full synchronisation clears and refills the maps under one
					// lock; a miss is C14's subject, not this property's.
					continue
				}
				res := s.filterReq(prof.FilterConfig, newReq("x."+domains[k], dns.TypeA, false, profiles[k], "1.1.1.1"), false)
				h := hi[k].Load()
				n++
				tok := resTok(res)
				parts := strings.Split(tok, ":")
				v := int64(-1)
				if len(parts) == 3 {
					x, _ := strconv.Atoi(parts[2])
					v = int64(x)
				}
				if v < l || v > h {
					mu.Lock()
					if bad == "" {
						bad = fmt.Sprintf("profile c%d: x.%s answered %s; version delivered before the request: v%d, newest at its end: v%d", k, domains[k], tok, l, h)
					}
					mu.Unlock()
				}
			}
		}()
	}
	var log []string
	last := [3]int64{1, 1, 1}
	ver := int64(1)
	for step := 0; step < 14; step++ {
		k := rng.IntN(3)
		ver++
		srv.mu.Lock()
		srv.clock += int64(syDts[rng.IntN(len(syDts))])
		srv.profs[k].ver, srv.profs[k].changed = int(ver), srv.clock
		srv.clock++
		srv.mu.Unlock()
		hi[k].Store(ver)
		full := rng.IntN(2) == 0
		db.VerifC14ForceSyncKind(full)
		hlib.Must(db.Refresh(ctx))
		lo[k].Store(ver)
		last[k] = ver
		log = append(log, fmt.Sprintf("change c%d v%d; sync full=%v", k, ver, full))
		time.Sleep(time.Duration(rng.IntN(300)) * time.Microsecond)
	}
	close(stop)
	wg.Wait()
	replay := map[string]any{"campaign": "conv-concurrent", "round": round, "backend_clock": e.skew, "ops": log}
	if bad != "" {
		r.Violate("conv-custom-concurrent-answer-from-wrong-version", bad, replay)
	}
	for k := 0; k < 3; k++ {
		prof, _, err := db.ProfileByDeviceID(ctx, agd.DeviceID(fmt.Sprintf("dv%d", k)))
		hlib.Must(err)
		tok := resTok(s.filterReq(prof.FilterConfig, newReq("x."+domains[k], dns.TypeA, false, profiles[k], "1.1.1.1"), false))
		if !strings.HasSuffix(tok, fmt.Sprintf(":%d", last[k])) {
			r.Violate("conv-custom-stale-after-concurrent-sync", fmt.Sprintf("profile c%d answered %s after its rules v%d were delivered", k, tok, last[k]), replay)
		}
	}
	r.Distribution["conv.concurrent_answers"] += answers
	r.Evaluations++
}

var _ = filter.IDCustom
