package main

import (
	"context"
	"fmt"
	"math/rand/v2"
	"net/url"
	"os"
	"path/filepath"
	"strings"
	"sync"
	"time"

	"github.com/AdguardTeam/AdGuardDNS/internal/agdcache"
	"github.com/AdguardTeam/AdGuardDNS/internal/dnsmsg"
	"github.com/AdguardTeam/AdGuardDNS/internal/filter"
	"github.com/AdguardTeam/AdGuardDNS/internal/filter/hashprefix"
	"github.com/AdguardTeam/AdGuardDNS/verifh/hlib"
	"github.com/AdguardTeam/golibs/logutil/slogutil"
	"github.com/miekg/dns"
)

// gate is a ClonerStat that can park the next Clone call: a lookup of the
// hash-prefix filter with a host replacement clones the request between
// Matches and the cache insertion.
type gate struct {
	mu      sync.Mutex
	armed   bool
	entered chan struct{}
	release chan struct{}
}

func (g *gate) OnClone(bool) {
	g.mu.Lock()
	if !g.armed {
		g.mu.Unlock()

		return
	}
	g.armed = false
	entered, release := g.entered, g.release
	g.mu.Unlock()
	close(entered)
	<-release
}

// arm makes the next Clone call park; it returns the channels to wait on.
func (g *gate) arm() (entered, release chan struct{}) {
	g.mu.Lock()
	defer g.mu.Unlock()
	g.armed = true
	g.entered, g.release = make(chan struct{}), make(chan struct{})

	return g.entered, g.release
}

func (g *gate) disarm() {
	g.mu.Lock()
	defer g.mu.Unlock()
	g.armed = false
}

// hpFilter is a real hash-prefix filter fed from a file.
type hpFilter struct {
	f    *hashprefix.Filter
	src  string
	gate *gate
	errs *errColl
}

var repHosts = map[string]string{"ip4": "1.2.3.4", "ip6": "2001:db8::1", "host": "repl.example.net"}

func newHPFilter(id filter.ID, rep string, cacheCount int, doms []string, mgr agdcache.Manager) (h *hpFilter) {
	dir, err := os.MkdirTemp(scratch, "hp")
	hlib.Must(err)
	h = &hpFilter{src: filepath.Join(dir, "hashes.txt"), gate: &gate{}, errs: &errColl{}}
	h.write(doms)
	strg, err := hashprefix.NewStorage("")
	hlib.Must(err)
	if mgr == nil {
		mgr = agdcache.EmptyManager{}
	}
	h.f, err = hashprefix.NewFilter(&hashprefix.FilterConfig{
		Logger:          slogutil.NewDiscardLogger(),
		Cloner:          dnsmsg.NewCloner(h.gate),
		CacheManager:    mgr,
		Hashes:          strg,
		URL:             &url.URL{Scheme: "file", Path: h.src},
		ErrColl:         h.errs,
		Metrics:         filter.EmptyMetrics{},
		ID:              id,
		CachePath:       filepath.Join(dir, "cache"),
		ReplacementHost: repHosts[rep],
		Staleness:       time.Hour,
		CacheTTL:        time.Hour,
		RefreshTimeout:  time.Second,
		CacheCount:      cacheCount,
		MaxSize:         1 << 20,
	})
	hlib.Must(err)
	hlib.Must(h.f.RefreshInitial(context.Background()))

	return h
}

func (h *hpFilter) write(doms []string) {
	// A comment line keeps the file non-empty.
	hlib.Must(os.WriteFile(h.src, []byte("# hashes\n"+strings.Join(doms, "\n")+"\n"), 0o644))
}

func (h *hpFilter) refresh(doms []string) {
	h.write(doms)
	if err := h.f.Refresh(context.Background()); err != nil {
		panic(fmt.Errorf("hashprefix refresh: %w", err))
	}
}

func (h *hpFilter) close() { _ = os.RemoveAll(filepath.Dir(h.src)) }

func (h *hpFilter) query(req *filter.Request) filter.Result {
	return guard(func() (filter.Result, error) { return h.f.FilterRequest(context.Background(), req) }, "hashprefix FilterRequest")
}

// hpTok is the model-level token of a hash-prefix result.
func hpTok(res filter.Result) string {
	switch v := res.(type) {
	case nil:
		return "none"
	case *filter.ResultModifiedRequest:
		return "modreq " + string(v.Rule)
	case *filter.ResultModifiedResponse:
		ans, ttl, soa, ede := 0, uint32(0), 0, 0
		if len(v.Msg.Answer) > 0 {
			ans = 1
			ttl = v.Msg.Answer[0].Header().Ttl
		}
		for _, rr := range v.Msg.Ns {
			if _, ok := rr.(*dns.SOA); ok {
				soa = 1
				if ans == 0 {
					ttl = rr.Header().Ttl
				}
			}
		}
		if opt := v.Msg.IsEdns0(); opt != nil {
			for _, o := range opt.Option {
				if _, ok := o.(*dns.EDNS0_EDE); ok {
					ede = 1
				}
			}
		}

		return fmt.Sprintf("modresp %s rcode=%d ans=%d ttl=%d soa=%d ede=%d", v.Rule, v.Msg.Rcode, ans, ttl, soa, ede)
	}

	return fmt.Sprintf("unexpected %T", res)
}

// hpSubs mirrors hashableSubdomains for the generator's hosts.
func hpSubs(host string) (subs []string) {
	labels := strings.Split(host, ".")
	if len(labels) > 4 {
		labels = labels[len(labels)-4:]
	}
	for i := 0; i+2 <= len(labels); i++ {
		subs = append(subs, strings.Join(labels[i:], "."))
	}

	return subs
}

// hpMatch is the direct evaluation of a hash list: the matched rule or "".
func hpMatch(doms []string, host string) string {
	for _, s := range hpSubs(host) {
		for _, d := range doms {
			if d == s {
				return s
			}
		}
	}

	return ""
}

func b2i(b bool) int {
	if b {
		return 1
	}

	return 0
}

// hashPrefixFindings replays the two defects found at design time (S4, S13)
// on the real filter; they are repaired by fix: commits, so a reappearance is
// a violation.
func hashPrefixFindings(_ *hlib.Opts, r *hlib.Result) {
	doms := []string{"a.example.com"}
	h := newHPFilter(filter.IDAdultBlocking, "ip4", 100, doms, nil)
	defer h.close()
	// S4a: same requester, HTTPS, NXDOMAIN mode: miss then hit.
	miss := hpTok(h.query(newReq("a.example.com", dns.TypeHTTPS, true, profiles[0], "1.1.1.1")))
	hit := hpTok(h.query(newReq("a.example.com", dns.TypeHTTPS, true, profiles[0], "1.1.1.1")))
	if miss != hit || !strings.Contains(hit, "rcode=3") {
		r.Violate("hashprefix-cache-hit-resets-rcode", fmt.Sprintf("miss: %s; hit: %s", miss, hit),
			map[string]any{"campaign": "findings", "ops": []string{"hp new ip4", "refresh a.example.com", "q p0 HTTPS a.example.com", "q p0 HTTPS a.example.com"}})
	}
	// S4b: profile 1 (ttl 3600) after profile 0 (ttl 10).
	_ = h.query(newReq("a.example.com", dns.TypeA, false, profiles[0], "1.1.1.1"))
	second := hpTok(h.query(newReq("a.example.com", dns.TypeA, false, profiles[1], "2.2.2.2")))
	if !strings.Contains(second, "ttl=3600") {
		r.Violate("hashprefix-cached-answer-of-other-requester", "profile with TTL 3600 got "+second,
			map[string]any{"campaign": "findings", "ops": []string{"hp new ip4", "refresh a.example.com", "q p0 A a.example.com", "q p1 A a.example.com"}})
	}
	r.Count("findings.s4_replayed")

	// S13: lookup parked between Matches and the insertion while a refresh
	// completes.
	g := newHPFilter(filter.IDAdultBlocking, "host", 100, doms, nil)
	defer g.close()
	entered, release := g.gate.arm()
	done := make(chan string, 1)
	go func() { done <- hpTok(g.query(newReq("a.example.com", dns.TypeA, false, profiles[0], "1.1.1.1"))) }()
	select {
	case <-entered:
	case <-time.After(5 * time.Second):
		panic("S13 replay: lookup did not reach the pause point")
	}
	g.refresh([]string{"b.example.com"})
	close(release)
	<-done
	after := hpTok(g.query(newReq("a.example.com", dns.TypeA, false, profiles[0], "1.1.1.1")))
	if after != "none" {
		r.Violate("hashprefix-stale-entry-survives-refresh", "a host removed by a completed refresh is still answered: "+after,
			map[string]any{"campaign": "findings", "ops": []string{"hp new host", "refresh a.example.com", "begin t1 A a.example.com", "refresh b.example.com", "finish t1", "q A a.example.com"}})
	}
	r.Count("findings.s13_replayed")
	r.Evaluations += 2
}

type hpOp struct {
	kind string // refresh q begin finish
	doms []string
	tid  int
	prof int
	edns bool
	qt   uint16
	host string
}

func (op hpOp) String() string {
	switch op.kind {
	case "refresh":
		return "refresh " + strings.Join(op.doms, " ")
	case "finish":
		return fmt.Sprintf("finish t%d", op.tid)
	default:
		return fmt.Sprintf("%s t%d p%d edns=%v qt=%d %s", op.kind, op.tid, op.prof, op.edns, op.qt, op.host)
	}
}

func genDoms(rng *rand.Rand) (doms []string) {
	pool := append(append([]string{}, domains...), "www.a.example.com", "x.www.c.example.org")
	for _, d := range pool {
		if rng.IntN(2) == 0 {
			doms = append(doms, d)
		}
	}

	return doms
}

func genHP(rng *rand.Rand, rep string, length int) (ops []hpOp) {
	ops = append(ops, hpOp{kind: "refresh", doms: genDoms(rng)})
	inflight := []int{}
	tid := 0
	for len(ops) < length {
		x := rng.IntN(20)
		q := hpOp{
			prof: rng.IntN(len(profiles)), edns: rng.IntN(2) == 0, qt: qtypes[rng.IntN(len(qtypes))],
			host: hosts[rng.IntN(len(hosts))],
		}
		switch {
		case x < 3:
			ops = append(ops, hpOp{kind: "refresh", doms: genDoms(rng)})
		case x < 7 && rep == "host" && len(inflight) < 2:
			tid++
			q.kind, q.tid = "begin", tid
			inflight = append(inflight, tid)
			ops = append(ops, q)
		case x < 11 && len(inflight) > 0:
			i := rng.IntN(len(inflight))
			ops = append(ops, hpOp{kind: "finish", tid: inflight[i]})
			inflight = append(inflight[:i], inflight[i+1:]...)
		default:
			q.kind = "q"
			ops = append(ops, q)
		}
	}
	for _, t := range inflight {
		ops = append(ops, hpOp{kind: "finish", tid: t})
	}

	return ops
}

// oneHP generates and runs one hash-prefix history and shrinks it when it
// fails.
func oneHP(r *hlib.Result, m *hlib.Model, rng *rand.Rand, rep string, capn, length int) (fail string) {
	ops := genHP(rng, rep, length)
	nv, nd := len(r.Violations), len(r.Disagreements)
	fail = runHP(r, m, rep, capn, ops, true)
	if fail != "" {
		min := hlib.Shrink(ops, func(c []hpOp) bool { return hpWellFormed(c) && runHP(r, m, rep, capn, c, false) == fail })
		r.Violations, r.Disagreements = r.Violations[:nv], r.Disagreements[:nd]
		runHP(r, m, rep, capn, min, true)
	}

	return fail
}

func hashPrefixCampaign(o *hlib.Opts, r *hlib.Result, m *hlib.Model) {
	rng := o.Rand("hashprefix")
	n := 400
	if o.Thorough() {
		n = 3000
	}
	for i := 0; i < n; i++ {
		rep := []string{"ip4", "host", "ip6", "host"}[i%4]
		capn := []int{1, 2, 100}[rng.IntN(3)]
		oneHP(r, m, rng, rep, capn, 10+rng.IntN(40))
	}
	if o.Thorough() {
		exhaustiveHP(r, m)
	}
}

// exhaustiveHP enumerates every history of length ≤ 5 over a small alphabet:
// two list versions, two requesters with different settings asking for a listed
// host and a subdomain of it, and (host replacement) a lookup that is parked
// across whatever follows until its finish.  Capacity-1 cache.
func exhaustiveHP(r *hlib.Result, m *hlib.Model) {
	for _, rep := range []string{"host", "ip4"} {
		alphabet := []hpOp{
			{kind: "refresh", doms: []string{"a.example.com"}},
			{kind: "refresh", doms: nil},
			{kind: "q", prof: 0, qt: dns.TypeA, host: "a.example.com", edns: true},
			{kind: "q", prof: 1, qt: dns.TypeHTTPS, host: "www.a.example.com"},
			{kind: "q", prof: 3, qt: dns.TypeAAAA, host: "b.example.com", edns: true},
		}
		if rep == "host" {
			alphabet = append(alphabet, hpOp{kind: "begin", tid: 1, prof: 2, qt: dns.TypeA, host: "www.a.example.com"}, hpOp{kind: "finish", tid: 1})
		}
		n := 0
		for length := 1; length <= 5; length++ {
			total := 1
			for j := 0; j < length; j++ {
				total *= len(alphabet)
			}
		next:
			for code := 0; code < total; code++ {
				ops := []hpOp{{kind: "refresh", doms: []string{"a.example.com"}}}
				c, open := code, false
				for j := 0; j < length; j++ {
					op := alphabet[c%len(alphabet)]
					c /= len(alphabet)
					switch op.kind {
					case "begin":
						if open {
							continue next
						}
						open = true
					case "finish":
						if !open {
							continue next
						}
						open = false
					}
					ops = append(ops, op)
				}
				if open {
					ops = append(ops, hpOp{kind: "finish", tid: 1})
				}
				runHP(r, m, rep, 1, ops, true)
				n++
			}
		}
		r.Distribution["hp.exhaustive_len5_"+rep] += n
	}
}

// hpWellFormed: every begin has exactly one later finish and vice versa.
func hpWellFormed(ops []hpOp) bool {
	open := map[int]bool{}
	for _, op := range ops {
		switch op.kind {
		case "begin":
			if open[op.tid] {
				return false
			}
			open[op.tid] = true
		case "finish":
			if !open[op.tid] {
				return false
			}
			delete(open, op.tid)
		}
	}

	return len(open) == 0 && len(ops) > 0
}

type hpFlight struct {
	done     chan filter.Result
	release  chan struct{}
	paused   bool
	res      filter.Result
	atBegin  string // fresh answer when the lookup began
	qt       uint16
	prof     int
	edns     bool
	host     string
	finished bool
}

func runHP(r *hlib.Result, m *hlib.Model, rep string, capn int, ops []hpOp, record bool) (fail string) {
	m.ResetLog()
	h := newHPFilter(filter.IDAdultBlocking, rep, capn, nil, nil)
	defer h.close()
	lines := []string{"hp new " + rep}
	var cur []string
	flights := map[int]*hpFlight{}
	nFiltered, nNone, nRefresh, nPaused := 0, 0, 0, 0
	type obs struct {
		line           int
		tok            string
		canon, canTwin string
		altTwin        string // second admissible twin answer for lookups that raced with a refresh
		direct         string
		what           string
	}
	var seen []obs
	// fresh answers the query with a brand-new filter holding the current list.
	fresh := func(op hpOp) filter.Result {
		f := newHPFilter(filter.IDAdultBlocking, rep, 4, cur, nil)
		defer f.close()

		return f.query(newReq(op.host, op.qt, op.edns, profiles[op.prof], "1.1.1.1"))
	}
	reqLine := func(verb string, op hpOp) string {
		p := profiles[op.prof]
		tid := ""
		if verb == "begin" {
			tid = fmt.Sprintf(" %d", op.tid)
		}

		return fmt.Sprintf("hp %s%s %s %d %d %d %d %d %s", verb, tid, p.mode, p.ttl, b2i(p.ede), b2i(op.edns), op.qt, 2*int(op.qt), op.host)
	}
	for _, op := range ops {
		switch op.kind {
		case "refresh":
			h.refresh(op.doms)
			cur = op.doms
			nRefresh++
			lines = append(lines, strings.TrimSpace("hp refresh "+strings.Join(op.doms, " ")))
		case "q":
			res := h.query(newReq(op.host, op.qt, op.edns, profiles[op.prof], "1.1.1.1"))
			tw := fresh(op)
			seen = append(seen, obs{line: len(lines), tok: hpTok(res), canon: resCanon(res), canTwin: resCanon(tw),
				direct: hpMatch(cur, op.host), what: op.String()})
			lines = append(lines, reqLine("q", op))
		case "begin":
			fl := &hpFlight{done: make(chan filter.Result, 1), qt: op.qt, prof: op.prof, edns: op.edns, host: op.host}
			fl.atBegin = resCanon(fresh(op))
			entered, release := h.gate.arm()
			fl.release = release
			go func() { fl.done <- h.query(newReq(op.host, op.qt, op.edns, profiles[op.prof], "1.1.1.1")) }()
			select {
			case <-entered:
				fl.paused = true
				nPaused++
			case fl.res = <-fl.done:
				h.gate.disarm()
				fl.finished = true
			case <-time.After(10 * time.Second):
				panic("hash-prefix lookup neither paused nor finished")
			}
			flights[op.tid] = fl
			if fl.paused {
				seen = append(seen, obs{line: len(lines), tok: "paused", what: op.String()})
			} else {
				seen = append(seen, obs{line: len(lines), tok: hpTok(fl.res), canon: resCanon(fl.res), canTwin: fl.atBegin,
					direct: hpMatch(cur, op.host), what: op.String()})
			}
			lines = append(lines, reqLine("begin", op))
		case "finish":
			fl := flights[op.tid]
			delete(flights, op.tid)
			if fl == nil {
				continue
			}
			if fl.finished {
				// The lookup completed at begin; the model keeps no thread.
				continue
			}
			close(fl.release)
			res := <-fl.done
			now := resCanon(fresh(hpOp{host: fl.host, qt: fl.qt, edns: fl.edns, prof: fl.prof}))
			seen = append(seen, obs{line: len(lines), tok: hpTok(res), canon: resCanon(res), canTwin: fl.atBegin, altTwin: now,
				direct: "-", what: op.String()})
			lines = append(lines, fmt.Sprintf("hp finish %d", op.tid))
		}
	}
	answers := m.Batch(lines)
	replay := func() any {
		var s []string
		for _, op := range ops {
			s = append(s, op.String())
		}

		return withNote(map[string]any{"campaign": "hashprefix", "replacement": rep, "cache_count": capn, "ops": s})
	}
	for _, ob := range seen {
		if ob.tok == "none" {
			nNone++
		} else if ob.tok != "paused" {
			nFiltered++
		}
		// Property oracle.
		if ob.tok != "paused" {
			if ob.canon != ob.canTwin && (ob.altTwin == "" || ob.canon != ob.altTwin) && fail == "" {
				fail = "hashprefix-cache-changes-answer"
				if ob.direct != "-" {
					matched := ""
					if f := strings.Fields(ob.tok); len(f) >= 2 {
						matched = f[1]
					}
					if matched != ob.direct {
						fail = "hashprefix-answer-not-from-current-list"
					}
				}
				if record {
					r.Violate(fail, fmt.Sprintf("%s: with cache %s; fresh filter %s", ob.what, ob.canon, ob.canTwin), replay())
				}
			}
		}
		if answers[ob.line] != ob.tok && fail == "" {
			fail = "disagree-hashprefix"
			if record {
				r.Disagree(fail, fmt.Sprintf("model %q, implementation %q at %q", answers[ob.line], ob.tok, lines[ob.line]), replay())
			}
		}
	}
	if record {
		r.Count("hp.rep_" + rep)
		r.Count(fmt.Sprintf("hp.cap_%d", capn))
		r.Distribution["hp.answers_filtered"] += nFiltered
		r.Distribution["hp.answers_none"] += nNone
		r.Distribution["hp.refreshes"] += nRefresh
		r.Distribution["hp.parked_lookups"] += nPaused
		r.ModelOps += len(lines)
		r.Traces++
		r.Case(strings.Join(lines, "\n"), nRefresh > 1 && nFiltered > 0 && nNone > 0)
		r.Sample(map[string]any{"campaign": "hashprefix", "rep": rep, "ops": lines[:min(len(lines), 8)]}, 6)
	}

	return fail
}
