package main

// Multi-list campaign (round 6): one real storage with two rule lists and both
// safe-search filters, queried through profiles that select exactly one list
// each, against the model `Store` (one filter and one result cache per list
// identifier; theorem storage_lists_independent).  A storage refresh rebuilds
// every rule list with a fresh cache and refreshes both safe-search filters in
// place, whether their text changed or not.  Oracles: uncached twin and direct
// evaluation of the current version of the list asked; with $client rules only
// the correspondence is judged (exact hits and misses of each list's own LRU).

import (
	"fmt"
	"math/rand/v2"
	"os"
	"strings"

	"github.com/AdguardTeam/AdGuardDNS/internal/filter"
	"github.com/AdguardTeam/AdGuardDNS/verifh/hlib"
	"github.com/miekg/dns"
)

var multiLists = []string{"rl1", "rl2", "ss", "yt"}

func multiConf(l string) *filter.ConfigClient {
	switch l {
	case "rl1", "rl2":
		return clientConf(nil, []string{l}, nil, false, false, false)
	case "ss":
		return clientConf(nil, nil, nil, true, false, false)
	default:
		cc := clientConf(nil, nil, nil, false, false, false)
		cc.Parental.Enabled, cc.Parental.SafeSearchYouTubeEnabled = true, true

		return cc
	}
}

func multiCampaign(o *hlib.Opts, r *hlib.Result, m *hlib.Model) {
	rng := o.Rand("multi")
	n := 40
	if o.Thorough() {
		n = 400
	}
	for i := 0; i < n; i++ {
		runMulti(r, m, rng, i, []int{1, 2, 3, 100}[rng.IntN(4)], i%3 == 0, 40+rng.IntN(60))
	}
}

func runMulti(r *hlib.Result, m *hlib.Model, rng *rand.Rand, caseNo, capn int, withClient bool, length int) {
	m.ResetLog()
	so := storeOpts{cached: true, cacheCnt: capn, customCnt: 10, ruleLists: []string{"rl1", "rl2"}, safe: true, yt: true}
	a := newStore(so)
	so.cached = false
	b := newStore(so)
	defer os.RemoveAll(a.dir)
	defer os.RemoveAll(b.dir)

	ver := map[string]int{}
	rules := map[string][]rule{}
	gen := func(l string) {
		ver[l]++
		if l == "rl1" || l == "rl2" {
			rules[l] = genRules(rng, []string{"B", "B", "A", "H", "T"}, withClient)
		} else {
			rules[l] = genRules(rng, []string{"R"}, false)
		}
	}
	lines := []string{fmt.Sprintf("st new %d", capn)}
	var log []string
	refresh := func(initial bool) {
		for _, s := range []*store{a, b} {
			s.writeList("rl1", rulesText(rules["rl1"], ver["rl1"]))
			s.writeList("rl2", rulesText(rules["rl2"], ver["rl2"]))
			s.writeList(string(filter.IDGeneralSafeSearch), rulesText(rules["ss"], ver["ss"]))
			s.writeList(string(filter.IDYoutubeSafeSearch), rulesText(rules["yt"], ver["yt"]))
			s.refresh(initial)
		}
		for _, l := range multiLists {
			toks := []string{}
			for _, ru := range rules[l] {
				toks = append(toks, ru.tok())
			}
			lines = append(lines, strings.TrimSpace(fmt.Sprintf("st refresh %s %d %s", l, ver[l], strings.Join(toks, " "))))
		}
		log = append(log, fmt.Sprintf("refresh rl1=v%d rl2=v%d ss=v%d yt=v%d", ver["rl1"], ver["rl2"], ver["ss"], ver["yt"]))
	}
	for _, l := range multiLists {
		gen(l)
	}
	refresh(true)

	type obs struct {
		line                      int
		what, tok, want, canA, cB string
	}
	var seen []obs
	nRefresh := 0
	for step := 0; step < length; step++ {
		if rng.IntN(12) == 0 {
			for _, l := range multiLists {
				if rng.IntN(2) == 0 {
					gen(l)
				}
			}
			refresh(false)
			nRefresh++

			continue
		}
		l := multiLists[rng.IntN(len(multiLists))]
		client := clients[rng.IntN(2)]
		host := hosts[rng.IntN(len(hosts))]
		p := profiles[rng.IntN(len(profiles))]
		conf := multiConf(l)
		ob := obs{line: len(lines)}
		if (l == "rl1" || l == "rl2") && rng.IntN(5) == 0 {
			ob.what = fmt.Sprintf("qr %s %s cname->%s", l, client, host)
			ra := a.filterResp(conf, newResp("q.example.net", host, client), false)
			rb := b.filterResp(conf, newResp("q.example.net", host, client), true)
			ob.tok, ob.canA, ob.cB = resTok(ra), resCanon(ra), resCanon(rb)
			ob.want = evalRules(rules[l], ver[l], host, client, 2*int(dns.TypeCNAME)+1)
			lines = append(lines, fmt.Sprintf("st q %s %s %s %d", l, client, host, 2*int(dns.TypeCNAME)+1))
		} else {
			qt := qtypes[rng.IntN(len(qtypes))]
			edns := rng.IntN(2) == 0
			ob.what = fmt.Sprintf("q %s %s %s %s qt=%d edns=%v", l, p.name, client, host, qt, edns)
			ra := a.filterReq(conf, newReq(host, qt, edns, p, client), false)
			rb := b.filterReq(conf, newReq(host, qt, edns, p, client), true)
			ob.tok, ob.canA, ob.cB = resTok(ra), resCanon(ra), resCanon(rb)
			if l == "rl1" || l == "rl2" {
				ob.want = evalRules(rules[l], ver[l], host, client, 2*int(qt))
				lines = append(lines, fmt.Sprintf("st q %s %s %s %d", l, client, host, 2*int(qt)))
			} else {
				ob.want = "none"
				if qt == dns.TypeA || qt == dns.TypeAAAA || qt == dns.TypeHTTPS {
					ob.want = evalRules(rules[l], ver[l], host, client, 2*int(qt))
				}
				lines = append(lines, fmt.Sprintf("st ssq %s %s %s %d", l, client, host, qt))
			}
		}
		log = append(log, ob.what)
		seen = append(seen, ob)
	}
	answers := m.Batch(lines)
	replay := map[string]any{"campaign": "multi-list", "case": caseNo, "cache_count": capn, "with_client_rules": withClient, "ops": log, "model_lines": lines}
	nFiltered, nNone := 0, 0
	fail := false
	for _, ob := range seen {
		if ob.tok == "none" {
			nNone++
		} else {
			nFiltered++
		}
		if fail {
			continue
		}
		if isPanic(ob.canA) {
			r.Violate("filter-panics-multi", ob.what+": "+ob.canA, replay)
			fail = true
		}
		if !withClient {
			if ob.canA != ob.cB {
				r.Violate("multi-cache-changes-verdict", fmt.Sprintf("%s: with caches %s; without %s", ob.what, ob.canA, ob.cB), replay)
				fail = true
			}
			if ob.tok != ob.want {
				r.Violate("multi-answer-not-from-current-version", fmt.Sprintf("%s: answer %s, the current version of the list gives %s", ob.what, ob.tok, ob.want), replay)
				fail = true
			}
		}
		if answers[ob.line] != ob.tok {
			r.Disagree("disagree-multi", fmt.Sprintf("model %s, implementation %s at %q (%s)", answers[ob.line], ob.tok, lines[ob.line], ob.what), replay)
			fail = true
		}
	}
	r.Count(fmt.Sprintf("multi.cap_%d", capn))
	if withClient {
		r.Count("multi.with_client_rules")
	}
	r.Distribution["multi.answers_filtered"] += nFiltered
	r.Distribution["multi.answers_none"] += nNone
	r.Distribution["multi.refreshes"] += nRefresh
	r.ModelOps += len(lines)
	r.Traces++
	r.Case(strings.Join(lines, "\n"), nRefresh > 0 && nFiltered > 0 && nNone > 0)
	r.Sample(map[string]any{"campaign": "multi-list", "ops": lines[:min(len(lines), 8)]}, 11)
}
