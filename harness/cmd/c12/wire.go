package main

// Wired campaign (round 6): the filter storage, both safe-search filters and
// the three hash-prefix filters are made by the real builder of internal/cmd
// from a YAML configuration and the environment URLs (hook cmd.VerifC13Build:
// builder.initHashPrefixFilters + builder.initFilterStorage, nothing replaced
// but the logger and the prometheus registry).  All lists and both indexes come
// from an HTTP server, so every refresh that finds its cache file stale runs a
// real download; refreshes go through builder.debugRefrs, caches are cleared
// through the builder's cache manager as the debug API does.  The storage with
// the configured caches is compared with a twin built by the same builder with
// `rule_list_cache.enabled: false` whose registered caches are all cleared
// before every query, and every answer is judged by the version tags of the
// version installed last.  No model is involved.

import (
	"context"
	"fmt"
	"io"
	"math/rand/v2"
	"net"
	"net/http"
	"net/http/httptest"
	"net/netip"
	"os"
	"path/filepath"
	"strings"
	"sync"
	"time"

	"github.com/AdguardTeam/AdGuardDNS/internal/cmd"
	"github.com/AdguardTeam/AdGuardDNS/internal/filter"
	"github.com/AdguardTeam/AdGuardDNS/verifh/hlib"
	"github.com/miekg/dns"
)

type wireSrv struct {
	mu   sync.Mutex
	body map[string]string
	fail map[string]bool
	hits map[string]int
	srv  *httptest.Server
}

func newWireSrv() (s *wireSrv) {
	s = &wireSrv{body: map[string]string{}, fail: map[string]bool{}, hits: map[string]int{}}
	s.srv = httptest.NewServer(http.HandlerFunc(func(w http.ResponseWriter, rq *http.Request) {
		s.mu.Lock()
		defer s.mu.Unlock()
		p := rq.URL.Path
		b, ok := s.body[p]
		if !ok || s.fail[p] {
			http.Error(w, "unavailable", http.StatusInternalServerError)

			return
		}
		s.hits[p]++
		_, _ = io.WriteString(w, b)
	}))

	return s
}

func (s *wireSrv) set(path, body string) {
	s.mu.Lock()
	defer s.mu.Unlock()
	s.body[path] = body
}

func (s *wireSrv) setFail(path string, fail bool) {
	s.mu.Lock()
	defer s.mu.Unlock()
	s.fail[path] = fail
}

func (s *wireSrv) totalHits() (n int) {
	s.mu.Lock()
	defer s.mu.Unlock()
	for _, h := range s.hits {
		n += h
	}

	return n
}

// wireConf is one configuration file.  All five cache settings differ so that
// a value passed to the wrong component shows up as a different capacity.
type wireConf struct {
	rlEnabled              bool
	rlSize, cuSize, ssSize int
	sbSize, abSize         int
}

func (c wireConf) yaml() []byte {
	return []byte(fmt.Sprintf(`
filters:
    response_ttl: 5m
    custom_filter_cache_size: %d
    safe_search_cache_size: %d
    refresh_interval: 1h
    refresh_timeout: 5s
    index_refresh_timeout: 5s
    rule_list_refresh_timeout: 5s
    max_size: 1MB
    rule_list_cache:
        enabled: %v
        size: %d
    ede_enabled: true
    sde_enabled: false
safe_browsing:
    block_host: '1.2.3.4'
    cache_size: %d
    cache_ttl: 1h
    refresh_interval: 1h
    refresh_timeout: 5s
adult_blocking:
    block_host: 'repl.example.net'
    cache_size: %d
    cache_ttl: 1h
    refresh_interval: 1h
    refresh_timeout: 5s
`, c.cuSize, c.ssSize, c.rlEnabled, c.rlSize, c.sbSize, c.abSize))
}

// wireStore is one storage made by the builder.
type wireStore struct {
	dir string
	wd  *cmd.VerifC13Wired
	ec  *errColl
}

func newWireStore(srv *wireSrv, c wireConf) (s *wireStore, err error) {
	dir, err := os.MkdirTemp(scratch, "wire")
	hlib.Must(err)
	u := srv.srv.URL
	env := &cmd.VerifC13Env{
		FilterCachePath:        dir,
		FilterIndexURL:         u + "/index",
		BlockedServiceIndexURL: u + "/services",
		GeneralSafeSearchURL:   u + "/ss",
		YoutubeSafeSearchURL:   u + "/yt",
		AdultBlockingURL:       u + "/hp0",
		SafeBrowsingURL:        u + "/hp1",
		NewRegDomainsURL:       u + "/hp2",
	}
	s = &wireStore{dir: dir, ec: &errColl{}}
	ctx, cancel := context.WithTimeout(context.Background(), 30*time.Second)
	defer cancel()
	defer func() {
		if v := recover(); v != nil {
			err = fmt.Errorf("builder panics: %v", v)
		}
	}()
	s.wd, err = cmd.VerifC13Build(ctx, c.yaml(), env, s.ec)

	return s, err
}

// age makes every file of the cache directory two hours old, which is what
// the passing of two refresh intervals looks like to the refreshers.
func (s *wireStore) age() {
	old := time.Now().Add(-2 * time.Hour)
	ents, _ := os.ReadDir(s.dir)
	for _, e := range ents {
		_ = os.Chtimes(filepath.Join(s.dir, e.Name()), old, old)
	}
}

func (s *wireStore) clearAll() {
	for _, id := range s.wd.VerifC12CacheIDs() {
		s.wd.VerifC12ClearCache(id)
	}
}

func (s *wireStore) refresh(id string) (err error) {
	ctx, cancel := context.WithTimeout(context.Background(), 30*time.Second)
	defer cancel()

	return s.wd.VerifC13Refresh(ctx, id)
}

func (s *wireStore) filterReq(conf filter.Config, req *filter.Request) filter.Result {
	f := s.wd.VerifC13Storage().ForConfig(context.Background(), conf)

	return guard(func() (filter.Result, error) { return f.FilterRequest(context.Background(), req) }, "FilterRequest")
}

func (s *wireStore) filterResp(conf filter.Config, resp *filter.Response) filter.Result {
	f := s.wd.VerifC13Storage().ForConfig(context.Background(), conf)

	return guard(func() (filter.Result, error) { return f.FilterResponse(context.Background(), resp) }, "FilterResponse")
}

// wireIPs are the addresses that responses carry and rules are written for.
var wireIPs = []string{"10.9.8.7", "10.9.8.8", "10.9.8.9"}

// newRespIP is a response with an A answer, an HTTPS answer with address hints,
// or both.
func newRespIP(kind, ip1, ip2, client string) *filter.Response {
	m := new(dns.Msg)
	m.SetQuestion("q.example.net.", dns.TypeA)
	m.Response = true
	hdr := func(t uint16) dns.RR_Header {
		return dns.RR_Header{Name: "q.example.net.", Rrtype: t, Class: dns.ClassINET, Ttl: 30}
	}
	hint := func(ips ...string) dns.RR {
		h := &dns.SVCBIPv4Hint{}
		for _, ip := range ips {
			h.Hint = append(h.Hint, net.ParseIP(ip).To4())
		}

		return &dns.HTTPS{SVCB: dns.SVCB{Hdr: hdr(dns.TypeHTTPS), Priority: 1, Target: ".", Value: []dns.SVCBKeyValue{h}}}
	}
	switch kind {
	case "a":
		m.Answer = []dns.RR{&dns.A{Hdr: hdr(dns.TypeA), A: net.ParseIP(ip1).To4()}, &dns.A{Hdr: hdr(dns.TypeA), A: net.ParseIP(ip2).To4()}}
	case "hint":
		m.Answer = []dns.RR{hint(ip1)}
	case "hint2":
		m.Answer = []dns.RR{hint(ip1, ip2)}
	default:
		m.Answer = []dns.RR{hint(ip1), &dns.A{Hdr: hdr(dns.TypeA), A: net.ParseIP(ip2).To4()}}
	}

	return &filter.Response{DNS: m, RemoteIP: netip.MustParseAddr(client)}
}

var wireHPIDs = []filter.ID{filter.IDAdultBlocking, filter.IDSafeBrowsing, filter.IDNewRegDomains}

// wireWorld: what the server serves (srv*) and what has been installed (the
// embedded fullWorld, which versionCheck reads).
type wireWorld struct {
	fullWorld
	srvVer   map[string]int // rl1 rl2 ss svc
	srvLists map[string][]rule
	srvSvcs  map[string][]rule
	srvSS    []rule
	srvYT    []rule
	srvHP    [3][]string
	hp2      []string // installed newly-registered domains
}

func (w *wireWorld) publish(srv *wireSrv) {
	u := srv.srv.URL
	srv.set("/index", fmt.Sprintf(`{"filters":[{"filterKey":"rl1","downloadUrl":"%s/rl/rl1"},{"filterKey":"rl2","downloadUrl":"%s/rl/rl2"}]}`, u, u))
	for id, rs := range w.srvLists {
		srv.set("/rl/"+id, rulesText(rs, w.srvVer[id]))
	}
	srv.set("/ss", rulesText(w.srvSS, w.srvVer["ss"]))
	srv.set("/yt", rulesText(w.srvYT, w.srvVer["ss"]))
	var svcs []string
	for _, id := range hlib.SortedKeys(w.srvSvcs) {
		lines := []string{`"||never.invalid^"`}
		for _, ru := range w.srvSvcs[id] {
			lines = append(lines, fmt.Sprintf("%q", ru.text(w.srvVer["svc"])))
		}
		svcs = append(svcs, fmt.Sprintf(`{"id":%q,"rules":[%s]}`, id, strings.Join(lines, ",")))
	}
	srv.set("/services", `{"blocked_services":[`+strings.Join(svcs, ",")+`]}`)
	for k := range w.srvHP {
		srv.set(fmt.Sprintf("/hp%d", k), "# hashes\n"+strings.Join(w.srvHP[k], "\n")+"\n")
	}
}

// install records that the storage has taken the served version of the parts
// named (rl1, rl2, ss, svc).
func (w *wireWorld) install(ids ...string) {
	for _, id := range ids {
		switch id {
		case "rl1", "rl2":
			w.listVer[id] = w.srvVer[id]
			w.lists[id] = w.srvLists[id]
		case "ss":
			w.listVer["ss"] = w.srvVer["ss"]
			w.ssRules, w.ytRules = w.srvSS, w.srvYT
		case "svc":
			w.svcVer = w.srvVer["svc"]
			w.svcs = w.srvSvcs
		}
	}
}

func wireCampaign(o *hlib.Opts, r *hlib.Result) {
	rng := o.Rand("wire")
	n := 14
	if o.Thorough() {
		n = 120
	}
	for i := 0; i < n; i++ {
		runWire(r, rng, i, 60+rng.IntN(60))
	}
}

func runWire(r *hlib.Result, rng *rand.Rand, caseNo, length int) {
	sizes := rng.Perm(5)
	pool := []int{1, 2, 3, 4, 100}
	ca := wireConf{rlEnabled: true, rlSize: pool[sizes[0]], cuSize: pool[sizes[1]], ssSize: pool[sizes[2]], sbSize: pool[sizes[3]], abSize: pool[sizes[4]]}
	cb := ca
	cb.rlEnabled = false

	srv := newWireSrv()
	defer srv.srv.Close()
	kinds := []string{"B", "B", "A", "H", "T", "G"}
	w := &wireWorld{srvVer: map[string]int{"rl1": 1, "rl2": 1, "ss": 1, "svc": 1}, srvLists: map[string][]rule{}, srvSvcs: map[string][]rule{}}
	w.listVer, w.lists, w.svcs = map[string]int{}, map[string][]rule{}, map[string][]rule{}
	regen := func(what string) {
		switch what {
		case "rl1", "rl2":
			w.srvLists[what] = genRules(rng, kinds, false)
			// Rules for addresses: they apply to the A/AAAA answers and the
			// HTTPS address hints of responses.
			for _, ip := range wireIPs {
				if rng.IntN(2) == 0 {
					w.srvLists[what] = append(w.srvLists[what], rule{kind: []string{"B", "A", "T"}[rng.IntN(3)], dom: ip})
				}
			}
		case "ss":
			w.srvSS, w.srvYT = genRules(rng, []string{"R"}, false), genRules(rng, []string{"R"}, false)
		case "svc":
			w.srvSvcs = map[string][]rule{"svc1": genRules(rng, []string{"B"}, false), "svc2": genRules(rng, []string{"B", "A"}, false)}
		}
	}
	for _, x := range []string{"rl1", "rl2", "ss", "svc"} {
		regen(x)
	}
	for k := range w.srvHP {
		w.srvHP[k] = genDoms(rng)
	}
	w.publish(srv)

	a, errA := newWireStore(srv, ca)
	defer os.RemoveAll(a.dir)
	b, errB := newWireStore(srv, cb)
	defer os.RemoveAll(b.dir)
	if errA != nil || errB != nil {
		r.Violate("wire-builder-fails", fmt.Sprintf("builder failed on a valid configuration: %v / %v", errA, errB), map[string]any{"campaign": "wire", "yaml": string(ca.yaml())})

		return
	}
	w.install("rl1", "rl2", "ss", "svc")
	// staleFiles: the parts whose cache file is older than the refresh
	// interval; a refresher downloads exactly those (both storages are aged
	// and refreshed together).
	staleFiles := map[string]bool{}
	ageAll := func() {
		a.age()
		b.age()
		for _, id := range []string{"rl1", "rl2", "ss", "svc", "hp0", "hp1", "hp2"} {
			staleFiles[id] = true
		}
	}
	w.hpDoms[0], w.hpDoms[1], w.hp2 = w.srvHP[0], w.srvHP[1], w.srvHP[2]

	wantIDs := "filters/blocked_service/svc1 filters/blocked_service/svc2 filters/custom filters/hashprefix/adult_blocking " +
		"filters/hashprefix/newly_registered_domains filters/hashprefix/safe_browsing filters/rulelist/rl1 filters/rulelist/rl2 " +
		"filters/safe_search/general_safe_search filters/safe_search/youtube_safe_search"
	if got := strings.Join(a.wd.VerifC12CacheIDs(), " "); got != wantIDs {
		r.Violate("wire-cache-not-registered", "caches registered with the builder's cache manager: "+got+"; want "+wantIDs, map[string]any{"campaign": "wire"})
	}

	nextCV := 0
	for i := range w.custom {
		nextCV++
		w.custom[i] = cuConf{upd: cuBase, ver: nextCV, doms: []string{domains[rng.IntN(len(domains))]}, enabled: i != 2}
	}
	confFor := func(i int) *filter.ConfigClient {
		c := w.custom[i].toConf(fmt.Sprintf("c%d", i))
		var cc *filter.ConfigClient
		switch i {
		case 0:
			cc = clientConf(c, []string{"rl1", "rl2"}, []string{"svc1"}, true, true, true)
			cc.Parental.SafeSearchYouTubeEnabled = true
		case 1:
			cc = clientConf(c, []string{"rl2"}, []string{"svc1", "svc2"}, false, true, false)
			cc.Parental.SafeSearchYouTubeEnabled = true
			cc.SafeBrowsing = &filter.ConfigSafeBrowsing{Enabled: true, NewlyRegisteredDomainsEnabled: true}
		default:
			cc = clientConf(c, []string{"rl1"}, nil, true, false, true)
			cc.SafeBrowsing.NewlyRegisteredDomainsEnabled = true
		}

		return cc
	}

	var log []string
	nFiltered, nNone, nRefresh, nDownloads := 0, 0, 0, 0
	violated := false
	replay := func() map[string]any {
		return map[string]any{"campaign": "wire", "case": caseNo, "yaml": string(ca.yaml()), "ops": append([]string{}, log...)}
	}
	for step := 0; step < length && !violated; step++ {
		switch x := rng.IntN(24); {
		case x < 2:
			// New versions at the server; nothing is installed yet.
			var ch []string
			for _, id := range []string{"rl1", "rl2", "ss", "svc"} {
				if rng.IntN(2) == 0 {
					w.srvVer[id]++
					regen(id)
					ch = append(ch, fmt.Sprintf("%s=v%d", id, w.srvVer[id]))
				}
			}
			for k := range w.srvHP {
				if rng.IntN(3) == 0 {
					w.srvHP[k] = genDoms(rng)
					ch = append(ch, fmt.Sprintf("hp%d=[%s]", k, strings.Join(w.srvHP[k], " ")))
				}
			}
			w.publish(srv)
			log = append(log, "publish "+strings.Join(ch, " "))
		case x < 4:
			// Storage refresh: stale files (download) or fresh ones (no
			// change), possibly with one rule list failing to download.
			stale := rng.IntN(4) != 0
			failed := map[string]bool{}
			if stale && rng.IntN(3) == 0 {
				failed[[]string{"rl1", "rl2"}[rng.IntN(2)]] = true
			}
			for id := range failed {
				srv.setFail("/rl/"+id, true)
			}
			before := srv.totalHits()
			if stale {
				ageAll()
			}
			errA, errB := a.refresh("filters/storage"), b.refresh("filters/storage")
			for id := range failed {
				srv.setFail("/rl/"+id, false)
			}
			nDownloads += srv.totalHits() - before
			log = append(log, fmt.Sprintf("refresh-storage stale=%v failed=%v", stale, hlib.SortedKeys(failed)))
			if errA != nil || errB != nil {
				r.Violate("wire-refresh-fails", fmt.Sprintf("storage refresh failed: %v / %v", errA, errB), replay())
				violated = true

				break
			}
			// A list whose download failed keeps its previous version and
			// its old file, so the next refresh downloads it whatever the
			// age of the other files.
			for _, id := range []string{"rl1", "rl2", "ss", "svc"} {
				if staleFiles[id] && !failed[id] {
					w.install(id)
					delete(staleFiles, id)
				}
			}
			nRefresh++
		case x < 6:
			k := rng.IntN(3)
			stale := rng.IntN(4) != 0
			if stale {
				ageAll()
			}
			id := "filters/hashprefix/" + string(wireHPIDs[k])
			errA, errB := a.refresh(id), b.refresh(id)
			log = append(log, fmt.Sprintf("refresh-hashprefix %d stale=%v", k, stale))
			if errA != nil || errB != nil {
				r.Violate("wire-refresh-fails", fmt.Sprintf("hash-prefix refresh failed: %v / %v", errA, errB), replay())
				violated = true

				break
			}
			if hk := fmt.Sprintf("hp%d", k); staleFiles[hk] {
				if k == 2 {
					w.hp2 = w.srvHP[2]
				} else {
					w.hpDoms[k] = w.srvHP[k]
				}
				delete(staleFiles, hk)
			}
			nRefresh++
		case x < 7:
			ids := a.wd.VerifC12CacheIDs()
			id := ids[rng.IntN(len(ids))]
			a.wd.VerifC12ClearCache(id)
			log = append(log, "clear-cache "+id)
		case x < 9:
			i := rng.IntN(3)
			nextCV++
			w.custom[i] = cuConf{upd: w.custom[i].upd + cuUnits[rng.IntN(len(cuUnits))], ver: nextCV, doms: []string{domains[rng.IntN(len(domains))]}, enabled: rng.IntN(5) != 0}
			log = append(log, fmt.Sprintf("update-custom c%d v%d %v", i, nextCV, w.custom[i].doms))
		default:
			i := rng.IntN(3)
			p := profiles[rng.IntN(len(profiles))]
			client := clients[rng.IntN(2)]
			host := hosts[rng.IntN(len(hosts))]
			var ra, rb filter.Result
			var what string
			names := []string{host}
			b.clearAll()
			if y := rng.IntN(10); y == 0 {
				what = fmt.Sprintf("qr c%d %s cname->%s", i, client, host)
				ra = a.filterResp(confFor(i), newResp("q.example.net", host, client))
				rb = b.filterResp(confFor(i), newResp("q.example.net", host, client))
			} else if y < 3 {
				kind := []string{"a", "hint", "a+hint", "hint2"}[rng.IntN(4)]
				ip1, ip2 := wireIPs[rng.IntN(len(wireIPs))], wireIPs[rng.IntN(len(wireIPs))]
				what = fmt.Sprintf("qr c%d %s %s %s %s", i, client, kind, ip1, ip2)
				names = []string{ip1, ip2}
				ra = a.filterResp(confFor(i), newRespIP(kind, ip1, ip2, client))
				rb = b.filterResp(confFor(i), newRespIP(kind, ip1, ip2, client))
				r.Count("wire.resp_" + kind)
			} else {
				qt := qtypes[rng.IntN(len(qtypes))]
				edns := rng.IntN(2) == 0
				what = fmt.Sprintf("q c%d %s %s %s qt=%d edns=%v", i, p.name, client, host, qt, edns)
				ra = a.filterReq(confFor(i), newReq(host, qt, edns, p, client))
				rb = b.filterReq(confFor(i), newReq(host, qt, edns, p, client))
			}
			log = append(log, what)
			cca, ccb := resCanon(ra), resCanon(rb)
			if cca == "none" {
				nNone++
			} else {
				nFiltered++
				if strings.HasPrefix(what, "qr ") {
					r.Count("wire.response_filtered")
					if strings.Contains(cca, "dnstype") {
						r.Count("wire.response_filtered_by_type_rule")
					}
				}
				if f := strings.Fields(cca); len(f) > 1 && strings.HasPrefix(f[1], "list=") {
					r.Count("wire." + f[1])
				}
			}
			if cca != ccb {
				r.Violate("wire-cache-changes-verdict", fmt.Sprintf("%s: with caches %s; without %s", what, cca, ccb), replay())
				violated = true
			}
			if sig, msg := w.versionCheck(ra, i, names...); sig != "" {
				r.Violate("wire-"+sig, what+": "+msg, replay())
				violated = true
			}
			if v, ok := ra.(*filter.ResultModifiedResponse); ok && v.List == filter.IDNewRegDomains && hpMatch(w.hp2, string(v.Rule)) != string(v.Rule) {
				r.Violate("wire-hashprefix-answer-not-from-current-list", fmt.Sprintf("%s: matched %s is not in the installed newly-registered list", what, v.Rule), replay())
				violated = true
			}
		}
	}
	if !violated && nDownloads == 0 && nRefresh > 3 {
		r.Count("wire.case_without_download")
	}
	r.Distribution["wire.answers_filtered"] += nFiltered
	r.Distribution["wire.answers_none"] += nNone
	r.Distribution["wire.refreshes"] += nRefresh
	r.Distribution["wire.downloads"] += nDownloads
	r.Traces++
	r.Case(strings.Join(log, "\n"), nRefresh > 0 && nFiltered > 0 && nNone > 0)
	r.Sample(map[string]any{"campaign": "wire", "ops": log[:min(len(log), 6)]}, 10)
}
